package main

// node.go dimension of C07: a real *node (hook VerifC07Node) with a real
// raft.Peer, the real node registry and the real pendingConfigChange; its
// rsm.StateMachine has the node itself as rsm.INode. Config changes are
// requested through node.requestConfigChange, moved by the harness from the
// request channel into a committed entry (what raft does in between is judged
// by the raft-side checks) and applied through rsm.StateMachine.Handle ->
// node.ApplyConfigChange -> raft.Peer / registry / pendingConfigChange.
//
// case line:   <id> node ordered=<0|1> peers=<k> [kind=full|nonvoting|witness] | op ; op ; ...
//              kind=full: the node is replica 1 of the initial members 1..k. Otherwise the node is replica 1
//              started with config.IsNonVoting / IsWitness joining a shard whose initial members are 2..k+1;
//              it is added by an entry of the stream. Ops that would add replica 1 under another kind than
//              the one it was started with are skipped (SKIP): raft panics on them by design.
// ops:         req <type> <replica> <addrhex> <ccid>        local request, committed and applied at once
//              badreq <type> <replica> <addrhex> <ccid>     local request with a target the validator refuses (no entry)
//              pend <type> <replica> <addrhex> <ccid>       local request left pending
//              commit                                       the pending local request is committed and applied
//              ent <type> <replica> <addrhex> <ccid> <init> an entry proposed elsewhere (another request's key)
//              qent <type> <replica> <addrhex> <ccid> <init> such an entry pushed to the apply queue (node.pushEntries) but not handled yet
//              handle                                       the apply queue is drained (every other op drains it first)
//              restore <skip> <ccid> <a> <n> <w> <r>        snapshot at applied+1+skip restored through StateMachine.Recover
// observation: <id> <n> B <membership> (after the bootstrap entries, n = -1 printed as b)
//              <id> <n> A|R <membership> / REFUSED addr|busy|witness / PENDING / NOPENDING / S <membership> / SELFREMOVED
//              <id> <n> QUEUED / H <count> <membership> (queue drained) / SKIP

import (
	"fmt"
	"io"
	"sort"
	"strings"

	dragonboat "github.com/lni/dragonboat/v4"
	"github.com/lni/dragonboat/v4/config"
	pb "github.com/lni/dragonboat/v4/raftpb"
	sm "github.com/lni/dragonboat/v4/statemachine"
	hooks "github.com/lni/dragonboat/v4/verifhooks/c07"
	"github.com/lni/goutils/stringutil"
	"verif/harness/vh"
)

type nodeUserSM struct{}

func (nodeUserSM) Update(e sm.Entry) (sm.Result, error)    { return sm.Result{Value: e.Index}, nil }
func (nodeUserSM) Lookup(interface{}) (interface{}, error) { return nil, nil }
func (nodeUserSM) Close() error                            { return nil }
func (nodeUserSM) SaveSnapshot(w io.Writer, _ sm.ISnapshotFileCollection, _ <-chan struct{}) error {
	return nil
}
func (nodeUserSM) RecoverFromSnapshot(r io.Reader, _ []sm.SnapshotFile, _ <-chan struct{}) error {
	return nil
}

// the target validator handed to the node: NodeHostConfig's default
// (GetTargetValidator without a registry / custom transport)
func nodeValidTarget(s string) bool { return stringutil.IsValidAddress(s) }

func sortedKeys(m map[uint64]string) []uint64 {
	r := make([]uint64, 0, len(m))
	for k := range m {
		r = append(r, k)
	}
	sort.Slice(r, func(i, j int) bool { return r[i] < r[j] })
	return r
}

const nodeSelf = 1

func runNodeCase(id, head, body, line string, obs *vh.LineWriter, st *vh.Stats) {
	ordered := strings.Contains(head, "ordered=1")
	k := 1
	for _, f := range strings.Fields(head) {
		if strings.HasPrefix(f, "peers=") {
			k = int(u64(f[6:]))
		}
	}
	if k < 1 {
		k = 1
	}
	if k > len(hosts) {
		k = len(hosts)
	}
	kind := "full"
	for _, f := range strings.Fields(head) {
		if strings.HasPrefix(f, "kind=") {
			kind = f[5:]
		}
	}
	if kind != "nonvoting" && kind != "witness" {
		kind = "full"
	}
	first := 1 // id of the first initial member
	if kind != "full" {
		first = 2
		if k > len(hosts)-1 {
			k = len(hosts) - 1
		}
	}
	peers := map[uint64]string{}
	if kind == "full" {
		for i := 1; i <= k; i++ {
			peers[uint64(i)] = hosts[i-1]
		}
	}
	cfg := config.Config{ShardID: 1, ReplicaID: nodeSelf, OrderedConfigChange: ordered, ElectionRTT: 10, HeartbeatRTT: 1,
		IsNonVoting: kind == "nonvoting", IsWitness: kind == "witness"}
	ss := &smSnapshotter{loadOK: true}
	var nd *hooks.Node
	if p := vh.Catch(func() { nd = hooks.NewNode(cfg, peers, nodeValidTarget, nodeUserSM{}, ss) }); p != "" {
		st.Violation(id, "building the node failed: "+p)
		obs.Printf("%s b BUILDFAILED\n", id)
		return
	}
	oracle := hooks.NewMembership(1, nodeSelf, ordered) // the rules (judged by the rules dimension), fed the same entries
	applied := uint64(0)
	nLocal, nForeignWhilePending, restores := 0, 0, 0
	bad := func(n int, msg string) { st.Violation(id, fmt.Sprintf("op %d: %s", n, msg)) }
	removedByEntry := map[uint64]bool{}

	// judge the node's view (raft peer, registry, published shard info) against the state machine's membership
	checkView := func(n int, what string, published bool) {
		m := nd.SM().GetMembership()
		v, nv, w, pending := nd.Members()
		if fmt.Sprint(v) != fmt.Sprint(sortedKeys(m.Addresses)) || fmt.Sprint(nv) != fmt.Sprint(sortedKeys(m.NonVotings)) ||
			fmt.Sprint(w) != fmt.Sprint(sortedKeys(m.Witnesses)) {
			bad(n, fmt.Sprintf("%s: raft peer holds voters %v non-voting %v witnesses %v, the state machine's membership is %s",
				what, v, nv, w, showMembership(m)))
		}
		if pending {
			bad(n, what+": raft still marks a config change as pending after the entry was applied")
		}
		if nd.Stopped() {
			return // the registry entries of the shard are gone with the replica
		}
		for kind, mm := range map[string]map[uint64]string{"voting": m.Addresses, "non-voting": m.NonVotings, "witness": m.Witnesses} {
			for rid, a := range mm {
				got, ok := nd.Resolve(rid)
				if !ok {
					bad(n, fmt.Sprintf("%s: %s member %d (%q) has no node registry entry", what, kind, rid, a))
				} else if normAddr(got) != normAddr(a) {
					bad(n, fmt.Sprintf("%s: node registry has %q for %s member %d, membership %q", what, got, kind, rid, a))
				}
			}
		}
		for rid := range removedByEntry {
			if _, ok := nd.Resolve(rid); ok {
				bad(n, fmt.Sprintf("%s: replica %d, removed by an applied entry, still has a node registry entry", what, rid))
			}
		}
		if published && kind != "witness" {
			si, ok := nd.ShardInfo()
			if !ok {
				bad(n, what+": no ShardInfo published")
			} else if si.ConfigChangeIndex != m.ConfigChangeId || fmt.Sprint(sortedKeys(si.Replicas)) != fmt.Sprint(sortedKeys(m.Addresses)) {
				bad(n, fmt.Sprintf("%s: published ShardInfo (ccid %d, replicas %v) differs from the membership %s", what,
					si.ConfigChangeIndex, sortedKeys(si.Replicas), showMembership(m)))
			}
		}
	}

	// the step worker's update: raft must be told exactly how far the state machine has applied
	checkApplied := func(n int, what string) {
		nd.UpdateAppliedIndex()
		if ra, sa := nd.RaftApplied(), nd.SM().GetLastApplied(); ra != sa {
			bad(n, fmt.Sprintf("%s: raft was told applied index %d, the state machine has applied %d", what, ra, sa))
		}
	}

	result := func(rs *dragonboat.RequestState) (dragonboat.RequestResult, bool) {
		select {
		case r := <-rs.ResultC():
			return r, true
		default:
		}
		return dragonboat.RequestResult{}, false
	}

	// a replica that applied its own removal: stopped, registry emptied, later requests refused
	selfRemoved := func(n int, pending *dragonboat.RequestState) {
		if !nd.Stopped() {
			bad(n, "the replica applied its own removal but was not asked to stop")
		}
		for rid := uint64(1); rid <= 8; rid++ {
			if _, ok := nd.Resolve(rid); ok {
				bad(n, fmt.Sprintf("the replica applied its own removal but keeps a registry entry for %d", rid))
			}
		}
		nd.ClosePendingConfigChange() // NodeHost stops the replica
		if pending != nil {
			if r, ok := result(pending); !ok || !r.Terminated() {
				bad(n, "a request pending when the replica was removed was not terminated")
			}
		}
		if rs, err := nd.RequestConfigChange(pb.AddNode, 7, "late:1", 0, 100); err == nil || rs != nil {
			bad(n, "a replica that applied its own removal accepted a later membership request")
		}
		obs.Printf("%s %d SELFREMOVED\n", id, n)
	}

	published := false
	var pending *dragonboat.RequestState
	var pendingCC pb.ConfigChange
	var pendingKey uint64
	// applyEntry feeds one committed config change entry; pending = the local request it belongs to (or nil)
	applyEntry := func(n int, cc pb.ConfigChange, key uint64, local *dragonboat.RequestState, other *dragonboat.RequestState) (stop bool) {
		index := applied + 1
		e := pb.Entry{Type: pb.ConfigChangeEntry, Index: index, Term: 1, Key: key, Cmd: pb.MustMarshal(&cc)}
		var want bool
		vh.Catch(func() { want = oracle.HandleConfigChange(cc, index) })
		var err error
		p := vh.Catch(func() {
			nd.PushEntries([]pb.Entry{e})
			checkApplied(n, fmt.Sprintf("entry %d pushed to the apply queue", index))
			_, err = nd.SM().Handle(make([]hooks.Task, 0), make([]sm.Entry, 0))
			checkApplied(n, fmt.Sprintf("entry %d handled", index))
		})
		if p != "" || err != nil {
			bad(n, fmt.Sprintf("applying the committed config change entry %d (%s replica %d %q) failed: %s %v", index, cc.Type, cc.ReplicaID, cc.Address, p, err))
			obs.Printf("%s %d FAILED\n", id, n)
			return true
		}
		applied = index
		m := nd.SM().GetMembership()
		got := m.ConfigChangeId == index // an applied change records its index
		if got != want {
			bad(n, "the state machine's verdict differs from the membership rules")
		}
		if got {
			published = true
			if cc.Type == pb.RemoveNode {
				removedByEntry[cc.ReplicaID] = true
			}
		}
		if local != nil {
			r, ok := result(local)
			switch {
			case !ok:
				bad(n, "the request got no result although its entry was applied")
			case got && !r.Completed():
				bad(n, fmt.Sprintf("the change was applied but the request did not complete as Completed (%+v)", r))
			case !got && !r.Rejected():
				bad(n, fmt.Sprintf("the change was rejected but the request did not complete as Rejected (%+v)", r))
			}
		}
		if other != nil {
			if r, ok := result(other); ok {
				bad(n, fmt.Sprintf("a pending request was completed by an entry carrying another request's key (%+v)", r))
			}
		}
		st.Count("node.entry." + verdictChar(!got))
		obs.Printf("%s %d %s %s\n", id, n, verdictChar(!got), showMembership(m))
		checkView(n, fmt.Sprintf("after entry %d", index), published)
		if _, gone := m.Removed[nodeSelf]; gone {
			var pend *dragonboat.RequestState
			if other != nil {
				pend = other
			}
			selfRemoved(n, pend)
			return true
		}
		return false
	}

	// bootstrap entries, as raft's bootstrap puts them in the log
	for i := first; i < first+k; i++ {
		cc := pb.ConfigChange{Type: pb.AddNode, ReplicaID: uint64(i), Address: hosts[i-1], Initialize: true}
		index := applied + 1
		e := pb.Entry{Type: pb.ConfigChangeEntry, Index: index, Term: 1, Cmd: pb.MustMarshal(&cc)}
		vh.Catch(func() { oracle.HandleConfigChange(cc, index) })
		var err error
		p := vh.Catch(func() {
			nd.PushEntries([]pb.Entry{e})
			_, err = nd.SM().Handle(make([]hooks.Task, 0), make([]sm.Entry, 0))
		})
		if p != "" || err != nil {
			st.Violation(id, fmt.Sprintf("bootstrap entry %d failed: %s %v", index, p, err))
			obs.Printf("%s b FAILED\n", id)
			return
		}
		applied = index
	}
	published = true
	checkApplied(-1, "after bootstrap")
	obs.Printf("%s b B %s\n", id, showMembership(nd.SM().GetMembership()))
	checkView(-1, "after bootstrap", true)

	request := func(n int, f []string) (*dragonboat.RequestState, pb.ConfigChange, uint64, bool) {
		cc, _ := parseCC([]string{"cc", f[1], f[2], f[3], f[4], "0", "0"})
		rs, err := nd.RequestConfigChange(cc.Type, cc.ReplicaID, cc.Address, cc.ConfigChangeId, 1000)
		switch {
		case kind == "witness":
			if err != dragonboat.ErrInvalidOperation || rs != nil {
				bad(n, fmt.Sprintf("a witness accepted a membership request (%v)", err))
				nd.TakeRequested()
			}
			if f[0] != "badreq" {
				obs.Printf("%s %d REFUSED witness\n", id, n)
			}
			return nil, cc, 0, false
		case f[0] == "badreq":
			if err != dragonboat.ErrInvalidAddress || rs != nil {
				bad(n, fmt.Sprintf("request with the invalid target %q was not refused with ErrInvalidAddress (%v)", cc.Address, err))
				nd.TakeRequested()
			}
			st.Count("node.refused.addr")
			return nil, cc, 0, false
		case err == dragonboat.ErrInvalidAddress:
			obs.Printf("%s %d REFUSED addr\n", id, n)
			return nil, cc, 0, false
		case pending != nil:
			if err != dragonboat.ErrSystemBusy {
				bad(n, fmt.Sprintf("second request while one is pending was not refused with ErrSystemBusy (%v)", err))
			}
			obs.Printf("%s %d REFUSED busy\n", id, n)
			return nil, cc, 0, false
		case err != nil || rs == nil:
			bad(n, fmt.Sprintf("request refused: %v", err))
			obs.Printf("%s %d REFUSED ?\n", id, n)
			return nil, cc, 0, false
		}
		key, data, ok := nd.TakeRequested()
		if !ok {
			bad(n, "the accepted request was not handed to the step worker")
			return nil, cc, 0, false
		}
		var got pb.ConfigChange
		pb.MustUnmarshal(&got, data)
		if got != cc {
			bad(n, fmt.Sprintf("the request handed to raft %+v differs from what was requested %+v", got, cc))
		}
		if cc.Type == pb.RemoveNode {
			cc.Address = "" // requestConfigChange passes "" for removals
		}
		return rs, got, key, true
	}

	// ops that would add the node itself under a kind it was not started with are skipped
	skipForKind := func(cc pb.ConfigChange) bool {
		if kind == "full" || cc.ReplicaID != nodeSelf || cc.Type == pb.RemoveNode {
			return false
		}
		if kind == "witness" {
			return cc.Type != pb.AddWitness
		}
		if cc.Type == pb.AddNode {
			_, isNV := oracle.Get().NonVotings[nodeSelf]
			return !isNV
		}
		return cc.Type != pb.AddNonVoting
	}
	queued := 0
	// drain hands the queued entries to the state machine; true = the case ends here
	drain := func(n int, report bool) bool {
		if queued == 0 {
			if report {
				obs.Printf("%s %d H 0 %s\n", id, n, showMembership(nd.SM().GetMembership()))
			}
			return false
		}
		var err error
		p := vh.Catch(func() {
			for i := 0; i < queued+1 && nd.SM().GetLastApplied() < applied && err == nil; i++ {
				_, err = nd.SM().Handle(make([]hooks.Task, 0), make([]sm.Entry, 0))
				checkApplied(n, "queued entries handled")
			}
		})
		if p != "" || err != nil || nd.SM().GetLastApplied() != applied {
			bad(n, fmt.Sprintf("handling %d queued config change entries failed: %s %v (applied %d, pushed %d)", queued, p, err, nd.SM().GetLastApplied(), applied))
			obs.Printf("%s %d FAILED\n", id, n)
			return true
		}
		m := nd.SM().GetMembership()
		if showMembership(m) != showMembership(oracle.Get()) {
			bad(n, "after the queued entries: the state machine's membership differs from the membership rules'")
		}
		obs.Printf("%s %d H %d %s\n", id, n, queued, showMembership(m))
		queued = 0
		published = true
		checkView(n, "after the queued entries", false)
		if _, gone := m.Removed[nodeSelf]; gone {
			selfRemoved(n, pending)
			return true
		}
		return false
	}

	for n, op := range strings.Split(body, " ; ") {
		f := strings.Fields(op)
		if len(f) == 0 {
			continue
		}
		if f[0] != "qent" && f[0] != "badreq" {
			if drain(n, f[0] == "handle") {
				st.Case(line, nLocal > 0, line)
				return
			}
		}
		if len(f) >= 3 && (f[0] == "req" || f[0] == "pend" || f[0] == "ent" || f[0] == "qent") {
			t, _ := parseCC([]string{"cc", f[1], f[2], "-", "0", "0", "0"})
			if skipForKind(t) {
				obs.Printf("%s %d SKIP\n", id, n)
				continue
			}
		}
		switch f[0] {
		case "handle":
		case "qent":
			cc, _ := parseCC([]string{"cc", f[1], f[2], f[3], f[4], f[5], "0"})
			index := applied + 1
			key := 0xF0000000 + applied
			if pending != nil && key == pendingKey {
				key++
			}
			e := pb.Entry{Type: pb.ConfigChangeEntry, Index: index, Term: 1, Key: key, Cmd: pb.MustMarshal(&cc)}
			vh.Catch(func() { oracle.HandleConfigChange(cc, index) })
			nd.PushEntries([]pb.Entry{e})
			applied = index
			queued++
			if cc.Type == pb.RemoveNode && oracle.Get().ConfigChangeId == index {
				removedByEntry[cc.ReplicaID] = true
			}
			checkApplied(n, fmt.Sprintf("entry %d pushed to the apply queue, not handled yet", index))
			st.Count("node.queued")
			obs.Printf("%s %d QUEUED\n", id, n)
		case "badreq":
			request(n, f)
		case "req":
			rs, cc, key, ok := request(n, f)
			if !ok {
				continue
			}
			nLocal++
			if applyEntry(n, cc, key, rs, nil) {
				st.Case(line, nLocal > 0, line)
				return
			}
		case "pend":
			rs, cc, key, ok := request(n, f)
			if !ok {
				continue
			}
			pending, pendingCC, pendingKey = rs, cc, key
			obs.Printf("%s %d PENDING\n", id, n)
		case "commit":
			if pending == nil {
				obs.Printf("%s %d NOPENDING\n", id, n)
				continue
			}
			rs := pending
			pending = nil
			nLocal++
			if applyEntry(n, pendingCC, pendingKey, rs, nil) {
				st.Case(line, nLocal > 0, line)
				return
			}
		case "ent":
			cc, _ := parseCC([]string{"cc", f[1], f[2], f[3], f[4], f[5], "0"})
			key := 0xF0000000 + applied
			if pending != nil {
				nForeignWhilePending++
				if key == pendingKey {
					key++
				}
			}
			if applyEntry(n, cc, key, nil, pending) {
				st.Case(line, nLocal > 0, line)
				return
			}
		case "restore":
			skip := u64(f[1])
			pm := pb.Membership{ConfigChangeId: u64(f[2]), Addresses: parseMap(f[3]), NonVotings: parseMap(f[4]),
				Witnesses: parseMap(f[5]), Removed: parseSet(f[6])}
			ss.ss = pb.Snapshot{Index: applied + 1 + skip, Term: 1, Membership: pm, Type: pb.RegularStateMachine}
			var err error
			p := vh.Catch(func() { _, err = nd.SM().Recover(hooks.Task{Recover: true, Index: ss.ss.Index}) })
			if p != "" || err != nil {
				bad(n, fmt.Sprintf("restoring the snapshot membership %s failed: %s %v", showMembership(pm), p, err))
				obs.Printf("%s %d FAILED\n", id, n)
				st.Case(line, nLocal > 0, line)
				return
			}
			applied = ss.ss.Index
			oracle.Set(pm)
			restores++
			st.Count("node.restore")
			obs.Printf("%s %d S %s\n", id, n, showMembership(nd.SM().GetMembership()))
			checkView(n, "after RestoreRemotes", true)
			if pm.Removed[nodeSelf] {
				selfRemoved(n, pending)
				st.Case(line, nLocal > 0, line)
				return
			}
		default:
			obs.Printf("%s %d BADOP\n", id, n)
		}
	}
	if nForeignWhilePending > 0 {
		st.Count("node.foreign_entry_while_pending")
	}
	st.Case(line, nLocal > 0, line)
}

// ---------------------------------------------------------------- generator

func genNodeAddr(r *vh.Rand) string {
	h := hosts[r.Intn(len(hosts))]
	for !nodeValidTarget(h) { // e.g. the IPv6 literal is refused by the default validator
		h = hosts[r.Intn(len(hosts))]
	}
	switch r.Intn(12) {
	case 0:
		return strings.ToUpper(h)
	case 1:
		b := []byte(h)
		for i := range b {
			if r.Bool() && b[i] >= 'a' && b[i] <= 'z' {
				b[i] -= 32
			}
		}
		return string(b)
	case 2:
		return " " + h // the validator trims
	case 3:
		return strings.ToUpper(h) + "\t"
	}
	return h
}

var nodeBadTargets = []string{"", "a b:1", "host1:0", "host1", "host1:70000", ":9001", "h:1:2"}

func genNodeCase(r *vh.Rand) string {
	ordered := r.Intn(5) < 2
	k := 1 + r.Intn(3)
	kind := []string{"full", "full", "nonvoting", "witness"}[r.Intn(4)]
	first := 1
	if kind != "full" {
		first = 2
	}
	shadow := hooks.NewMembership(1, nodeSelf, ordered)
	index := uint64(0)
	for i := first; i < first+k; i++ {
		index++
		shadow.HandleConfigChange(pb.ConfigChange{Type: pb.AddNode, ReplicaID: uint64(i), Address: hosts[i-1], Initialize: true}, index)
	}
	var ops []string
	havePending := false
	var pend pb.ConfigChange
	skips := func(cc pb.ConfigChange) bool { // the harness' skip rule
		if kind == "full" || cc.ReplicaID != nodeSelf || cc.Type == pb.RemoveNode {
			return false
		}
		if kind == "witness" {
			return cc.Type != pb.AddWitness
		}
		if cc.Type == pb.AddNode {
			_, isNV := shadow.Get().NonVotings[nodeSelf]
			return !isNV
		}
		return cc.Type != pb.AddNonVoting
	}
	mkCC := func() pb.ConfigChange {
		cur := shadow.Get()
		cc := pb.ConfigChange{Type: pb.ConfigChangeType([]int32{0, 0, 0, 1, 2, 2, 3}[r.Intn(7)]),
			ReplicaID: uint64(1 + r.Intn(8)), Address: genNodeAddr(r)}
		if cc.ReplicaID == nodeSelf && !r.Chance(1, 4) {
			cc.ReplicaID = uint64(2 + r.Intn(7)) // the own removal ends the case: keep it rare
		}
		_, selfNV := cur.NonVotings[nodeSelf]
		_, selfW := cur.Witnesses[nodeSelf]
		if kind != "full" && !selfNV && !selfW && !cur.Removed[nodeSelf] && len(cur.Addresses) > 0 && r.Chance(1, 3) {
			if _, isV := cur.Addresses[nodeSelf]; !isV { // the node joins under the kind it was started with
				cc = pb.ConfigChange{Type: map[string]pb.ConfigChangeType{"nonvoting": pb.AddNonVoting, "witness": pb.AddWitness}[kind],
					ReplicaID: nodeSelf, Address: "self:1"}
			}
		}
		switch r.Intn(8) {
		case 0:
			if id, ok := pickKey(r, cur.NonVotings); ok { // promotion, same or other spelling
				a := cur.NonVotings[id]
				switch r.Intn(4) {
				case 0:
					a = strings.ToUpper(a)
				case 1:
					a = " " + a
				}
				cc = pb.ConfigChange{Type: pb.AddNode, ReplicaID: id, Address: a}
			}
		case 1:
			if id, ok := pickKey(r, cur.Removed); ok {
				cc.ReplicaID = id
			}
		case 2:
			if id, ok := pickKey(r, cur.Addresses); ok && (id != nodeSelf || r.Chance(1, 3)) {
				cc = pb.ConfigChange{Type: pb.RemoveNode, ReplicaID: id}
			}
		case 3: // an address in use: rejected
			if id, ok := pickKey(r, cur.Addresses); ok && cc.Type != pb.RemoveNode && cc.ReplicaID != nodeSelf {
				cc.Address = cur.Addresses[id]
			}
		}
		cc.ConfigChangeId = cur.ConfigChangeId
		if r.Chance(1, 6) {
			cc.ConfigChangeId = uint64(r.Intn(int(index) + 2))
		}
		return cc
	}
	valid := func(cc pb.ConfigChange) bool { return cc.Type == pb.RemoveNode || nodeValidTarget(cc.Address) }
	apply := func(cc pb.ConfigChange) {
		index++
		vh.Catch(func() { shadow.HandleConfigChange(cc, index) })
	}
	local := kind != "witness" // a witness refuses requests
	nops := 3 + r.Intn(22)
	for len(ops) < nops {
		if shadow.Get().Removed[nodeSelf] {
			break
		}
		switch x := r.Intn(100); {
		case x < 4:
			cc := mkCC()
			if cc.Type == pb.RemoveNode {
				cc.Type = pb.AddNode
			}
			cc.Address = nodeBadTargets[r.Intn(len(nodeBadTargets))]
			if cc.ReplicaID == nodeSelf {
				cc.ReplicaID = 7
			}
			ops = append(ops, fmt.Sprintf("badreq %d %d %s %d", int32(cc.Type), cc.ReplicaID, vh.Hex([]byte(cc.Address)), cc.ConfigChangeId))
		case x < 40:
			cc := mkCC()
			ops = append(ops, fmt.Sprintf("req %d %d %s %d", int32(cc.Type), cc.ReplicaID, vh.Hex([]byte(cc.Address)), cc.ConfigChangeId))
			if local && valid(cc) && !havePending && !skips(cc) {
				apply(cc)
			}
		case x < 48:
			cc := mkCC()
			ops = append(ops, fmt.Sprintf("pend %d %d %s %d", int32(cc.Type), cc.ReplicaID, vh.Hex([]byte(cc.Address)), cc.ConfigChangeId))
			if local && valid(cc) && !havePending && !skips(cc) {
				havePending, pend = true, cc
			}
		case x < 56:
			ops = append(ops, "commit")
			if havePending {
				havePending = false
				apply(pend)
			}
		case x < 62:
			ops = append(ops, "handle")
		case x < 92:
			cc := mkCC()
			if !nodeValidTarget(cc.Address) && cc.Type != pb.RemoveNode {
				cc.Address = hosts[0]
			}
			cc.Initialize = r.Chance(1, 20)
			what := "ent"
			if r.Chance(1, 3) {
				what = "qent"
			}
			ops = append(ops, fmt.Sprintf("%s %d %d %s %d %d", what, int32(cc.Type), cc.ReplicaID, vh.Hex([]byte(cc.Address)), cc.ConfigChangeId, b2i(cc.Initialize)))
			if !skips(cc) {
				apply(cc)
			}
		default:
			// the membership a few committed changes ahead, as a snapshot from the leader carries it
			scratch := hooks.NewMembership(1, nodeSelf, false)
			scratch.Set(shadow.Get())
			skip := uint64(r.Intn(4))
			j := index
			save := shadow
			shadow = scratch // mkCC / skips look at the membership being built
			for i := uint64(0); i <= skip; i++ {
				j++
				cc := mkCC()
				if !valid(cc) || skips(cc) {
					continue
				}
				if cc.ReplicaID == nodeSelf && cc.Type == pb.RemoveNode && !r.Chance(1, 5) {
					continue
				}
				vh.Catch(func() { scratch.HandleConfigChange(cc, j) })
			}
			shadow = save
			pm := scratch.Get()
			if pm.ConfigChangeId == 0 || len(pm.Addresses) == 0 {
				continue
			}
			ops = append(ops, fmt.Sprintf("restore %d %d %s %s %s %s", skip, pm.ConfigChangeId, fmtMap(pm.Addresses),
				fmtMap(pm.NonVotings), fmtMap(pm.Witnesses), fmtSet(pm.Removed)))
			index += 1 + skip
			shadow.Set(pm)
		}
	}
	if r.Chance(1, 2) {
		ops = append(ops, "handle")
	}
	return fmt.Sprintf("node ordered=%d peers=%d kind=%s | %s", b2i(ordered), k, kind, strings.Join(ops, " ; "))
}
