package main

// One case = one cluster of real NodeHosts in this process: v voters (replicas 1..v), one
// non-voting member (replica 11) and one witness (replica 12), each on its own in-memory file
// system, connected by the in-process network of net.go.

import (
	"context"
	"errors"
	"fmt"
	"io"
	"log"
	"math"
	"strings"
	"sync"
	"sync/atomic"
	"time"

	dragonboat "github.com/lni/dragonboat/v4"
	"github.com/lni/dragonboat/v4/config"
	"github.com/lni/dragonboat/v4/logger"
	"github.com/lni/dragonboat/v4/raftio"
	pb "github.com/lni/dragonboat/v4/raftpb"
	sm "github.com/lni/dragonboat/v4/statemachine"
	r21 "github.com/lni/dragonboat/v4/verifhooks/r21"
)

const (
	shardID      = 1
	probeShardID = 2 // the shard of the config validation probes
	nonVotingID  = 11
	witnessID    = 12
)

type host struct {
	id     uint64
	role   byte // 'V' | 'N' | 'W'
	addr   string
	nhc    config.NodeHostConfig
	fs     config.IFS
	mu     sync.RWMutex // write-held while the NodeHost is being closed or created
	nh     *dragonboat.NodeHost
	lis    *listener
	joined bool // the replica was started once on this host
	shard  bool // the shard is started on the host
}

type caseCfg struct {
	id     string
	prop   string
	v      int
	cq, pv bool
	snap   uint64
	seed   uint64
}

type cluster struct {
	cfg    caseCfg
	net    *network
	mon    *monitor
	hosts  []*host // voters first, then N, then W
	addrs  []string
	stopC  chan struct{}
	wg     sync.WaitGroup
	seq    uint64 // payload counter
	loaded [][]string
}

type quietLogger struct{}

func (quietLogger) SetLevel(logger.LogLevel)         {}
func (quietLogger) Debugf(string, ...interface{})   {}
func (quietLogger) Infof(string, ...interface{})    {}
func (quietLogger) Warningf(string, ...interface{}) {}
func (quietLogger) Errorf(string, ...interface{})   {}
func (quietLogger) Panicf(format string, args ...interface{}) {
	panic(fmt.Sprintf(format, args...))
}

var quietOnce sync.Once

func quietLogs() {
	quietOnce.Do(func() {
		logger.SetLoggerFactory(func(string) logger.ILogger { return quietLogger{} })
		log.SetOutput(io.Discard)
	})
}

// sysListener watches the witness host: a witness never creates a snapshot of a state machine.
type sysListener struct {
	m    *monitor
	role byte
}

func (s *sysListener) NodeHostShuttingDown()                        {}
func (s *sysListener) NodeUnloaded(raftio.NodeInfo)                 {}
func (s *sysListener) NodeDeleted(raftio.NodeInfo)                  {}
func (s *sysListener) NodeReady(raftio.NodeInfo)                    {}
func (s *sysListener) MembershipChanged(raftio.NodeInfo)            {}
func (s *sysListener) ConnectionEstablished(raftio.ConnectionInfo)  {}
func (s *sysListener) ConnectionFailed(raftio.ConnectionInfo)       {}
func (s *sysListener) SendSnapshotStarted(raftio.SnapshotInfo)      {}
func (s *sysListener) SendSnapshotCompleted(raftio.SnapshotInfo)    {}
func (s *sysListener) SendSnapshotAborted(raftio.SnapshotInfo)      {}
func (s *sysListener) SnapshotCompacted(raftio.SnapshotInfo)        {}
func (s *sysListener) LogCompacted(raftio.EntryInfo)                {}
func (s *sysListener) LogDBCompacted(raftio.EntryInfo)              {}
func (s *sysListener) SnapshotReceived(i raftio.SnapshotInfo) {
	if i.ShardID == shardID {
		s.m.count(fmt.Sprintf("snapshot_received_%c", s.role))
	}
}
func (s *sysListener) SnapshotRecovered(i raftio.SnapshotInfo) {
	if i.ShardID == shardID {
		s.m.count(fmt.Sprintf("snapshot_recovered_%c", s.role))
	}
}
func (s *sysListener) SnapshotCreated(i raftio.SnapshotInfo) {
	if i.ShardID != shardID {
		return
	}
	s.m.count(fmt.Sprintf("snapshot_created_%c", s.role))
	if s.role == 'W' {
		s.m.v("C18", "the witness created a snapshot at index %d", i.Index)
	}
}

func (c *cluster) raftConfig(h *host) config.Config {
	rc := config.Config{
		ReplicaID:          h.id,
		ShardID:            shardID,
		ElectionRTT:        10,
		HeartbeatRTT:       1,
		CheckQuorum:        c.cfg.cq,
		PreVote:            c.cfg.pv,
		SnapshotEntries:    c.cfg.snap,
		CompactionOverhead: 2,
		IsNonVoting:        h.role == 'N',
		IsWitness:          h.role == 'W',
	}
	if h.role == 'W' {
		rc.SnapshotEntries = 0
	}
	return rc
}

func (c *cluster) factory(h *host) sm.CreateStateMachineFunc {
	if h.role == 'W' {
		return func(uint64, uint64) sm.IStateMachine { return &trapSM{m: c.mon} }
	}
	return func(uint64, uint64) sm.IStateMachine { return &listSM{m: c.mon, host: h.addr} }
}

func (h *host) get() *dragonboat.NodeHost {
	h.mu.RLock()
	defer h.mu.RUnlock()
	return h.nh
}

// with runs f on the host's NodeHost while it cannot be closed.
func (h *host) with(f func(nh *dragonboat.NodeHost)) bool {
	h.mu.RLock()
	defer h.mu.RUnlock()
	if h.nh == nil {
		return false
	}
	f(h.nh)
	return true
}

func (c *cluster) newHost(id uint64, role byte) *host {
	addr := fmt.Sprintf("%s-r%d:1", c.cfg.id, id)
	ex := config.GetDefaultExpertConfig()
	fs := r21.NewMemFS()
	ex.FS = fs
	ex.TransportFactory = &netFactory{net: c.net}
	ex.Engine = config.EngineConfig{ExecShards: 2, CommitShards: 2, ApplyShards: 2, SnapshotShards: 2, CloseShards: 2}
	ex.LogDB.Shards = 2
	h := &host{id: id, role: role, addr: addr, fs: fs}
	h.nhc = config.NodeHostConfig{
		NodeHostDir:         fmt.Sprintf("/r21/%s/r%d", c.cfg.id, id),
		RTTMillisecond:      8,
		RaftAddress:         addr,
		Expert:              ex,
		SystemEventListener: &sysListener{m: c.mon, role: role},
	}
	c.hosts = append(c.hosts, h)
	c.addrs = append(c.addrs, addr)
	return h
}

// open creates the NodeHost of h (a fresh listener per incarnation).
func (c *cluster) open(h *host) error {
	h.mu.Lock()
	defer h.mu.Unlock()
	if h.nh != nil {
		return nil
	}
	h.lis = &listener{m: c.mon, host: h.addr}
	nhc := h.nhc
	nhc.RaftEventListener = h.lis
	nh, err := dragonboat.NewNodeHost(nhc)
	if err != nil {
		return err
	}
	h.nh = nh
	h.shard = false
	return nil
}

// startShard starts (or restarts) the replica of the shard on h.
func (c *cluster) startShard(h *host, initial map[uint64]dragonboat.Target) error {
	h.mu.RLock()
	defer h.mu.RUnlock()
	if h.nh == nil {
		return errors.New("host is down")
	}
	var err error
	// a replica that was just stopped is unloaded asynchronously: ErrShardAlreadyExist until then
	waitFor(30*time.Second, func() bool {
		switch {
		case h.joined:
			err = h.nh.StartReplica(nil, false, c.factory(h), c.raftConfig(h))
		case initial != nil:
			err = h.nh.StartReplica(initial, false, c.factory(h), c.raftConfig(h))
		default:
			err = h.nh.StartReplica(nil, true, c.factory(h), c.raftConfig(h))
		}
		return !errors.Is(err, dragonboat.ErrShardAlreadyExist)
	})
	if err == nil {
		h.joined = true
		h.shard = true
	}
	return err
}

func (c *cluster) closeHost(h *host) {
	h.mu.Lock()
	nh := h.nh
	h.nh = nil
	h.shard = false
	if nh != nil {
		nh.Close()
	}
	h.mu.Unlock()
}

func (c *cluster) byRole(role byte) *host {
	for _, h := range c.hosts {
		if h.role == role {
			return h
		}
	}
	return nil
}

func (c *cluster) voters() []*host {
	var r []*host
	for _, h := range c.hosts {
		if h.role == 'V' {
			r = append(r, h)
		}
	}
	return r
}

func waitFor(d time.Duration, f func() bool) bool {
	end := time.Now().Add(d)
	for {
		if f() {
			return true
		}
		if time.Now().After(end) {
			return false
		}
		time.Sleep(3 * time.Millisecond)
	}
}

// leaderHost returns the voter host that is leader by its own account and the term; it waits
// up to d for one.
func (c *cluster) leaderHost(d time.Duration) (*host, uint64) {
	var lh *host
	var lt uint64
	waitFor(d, func() bool {
		for _, h := range c.voters() {
			ok := false
			h.with(func(nh *dragonboat.NodeHost) {
				lid, term, valid, err := nh.GetLeaderID(shardID)
				if err == nil && valid && lid == h.id {
					// the raft peer agrees (GetLeaderID lags behind by one engine cycle)
					if n := dragonboat.VerifR21Inspect(nh, shardID); n.Found && n.Peer.Role == "Leader" && n.Peer.Term == term {
						ok, lt = true, term
					}
				}
			})
			if ok {
				lh = h
				return true
			}
		}
		return false
	})
	return lh, lt
}

// followerHost returns a live voter host other than the leader's.
func (c *cluster) followerHost(leader *host) *host {
	for _, h := range c.voters() {
		if h != leader && h.get() != nil {
			return h
		}
	}
	return nil
}

func startCluster(cfg caseCfg, mon *monitor) (*cluster, error) {
	quietLogs()
	c := &cluster{cfg: cfg, net: newNetwork(), mon: mon, stopC: make(chan struct{})}
	mon.witnessID, mon.nonVotingID = witnessID, nonVotingID
	c.net.tapBatch = mon.tapBatch
	c.net.tapChunk = mon.tapChunk
	initial := map[uint64]dragonboat.Target{}
	for i := 1; i <= cfg.v; i++ {
		h := c.newHost(uint64(i), 'V')
		initial[h.id] = h.addr
	}
	n := c.newHost(nonVotingID, 'N')
	w := c.newHost(witnessID, 'W')
	if img, err := r21.WitnessSnapshot(w.fs); err == nil {
		mon.witnessImage = img
	}
	for _, h := range c.voters() {
		if err := c.open(h); err != nil {
			return c, fmt.Errorf("NewNodeHost %d: %w", h.id, err)
		}
		if err := c.startShard(h, initial); err != nil {
			return c, fmt.Errorf("StartReplica %d: %w", h.id, err)
		}
	}
	c.wg.Add(1)
	go c.poll()
	if lh, _ := c.leaderHost(30 * time.Second); lh == nil {
		return c, errors.New("no leader elected")
	}
	// the non-voting member and the witness join through the membership API
	for _, h := range []*host{n, w} {
		h := h
		err := c.admin(40*time.Second, func(ctx context.Context, nh *dragonboat.NodeHost) error {
			if h.role == 'N' {
				return nh.SyncRequestAddNonVoting(ctx, shardID, h.id, h.addr, 0)
			}
			return nh.SyncRequestAddWitness(ctx, shardID, h.id, h.addr, 0)
		}, func(m *dragonboat.Membership) bool {
			if h.role == 'N' {
				_, ok := m.NonVotings[h.id]
				return ok
			}
			_, ok := m.Witnesses[h.id]
			return ok
		})
		if err != nil {
			return c, fmt.Errorf("adding replica %d: %w", h.id, err)
		}
		if err := c.open(h); err != nil {
			return c, fmt.Errorf("NewNodeHost %d: %w", h.id, err)
		}
		if err := c.startShard(h, nil); err != nil {
			return c, fmt.Errorf("StartReplica %d (join): %w", h.id, err)
		}
	}
	c.healthy()
	c.caughtUp(40 * time.Second)
	return c, nil
}

// admin runs a membership request against the leader's host until the membership satisfies
// done (a request may time out and still be applied) or d has passed.
func (c *cluster) admin(d time.Duration, f func(ctx context.Context, nh *dragonboat.NodeHost) error,
	done func(m *dragonboat.Membership) bool) error {
	end := time.Now().Add(d)
	var err error = errors.New("no leader")
	for time.Now().Before(end) {
		lh, _ := c.leaderHost(2 * time.Second)
		if lh == nil {
			continue
		}
		lh.with(func(nh *dragonboat.NodeHost) {
			ctx, cancel := context.WithTimeout(context.Background(), 2*time.Second)
			if m, e := nh.SyncGetShardMembership(ctx, shardID); e == nil && done(m) {
				err = nil
				cancel()
				return
			}
			cancel()
			ctx, cancel = context.WithTimeout(context.Background(), 2*time.Second)
			err = f(ctx, nh)
			cancel()
			if err == nil {
				ctx, cancel = context.WithTimeout(context.Background(), 2*time.Second)
				if m, e := nh.SyncGetShardMembership(ctx, shardID); e != nil || !done(m) {
					err = errors.New("request completed, membership not yet as asked")
				}
				cancel()
			}
		})
		if err == nil {
			return nil
		}
		time.Sleep(20 * time.Millisecond)
	}
	return err
}

func (c *cluster) membership(d time.Duration) *dragonboat.Membership {
	var res *dragonboat.Membership
	waitFor(d, func() bool {
		lh, _ := c.leaderHost(2 * time.Second)
		if lh == nil {
			return false
		}
		lh.with(func(nh *dragonboat.NodeHost) {
			ctx, cancel := context.WithTimeout(context.Background(), 2*time.Second)
			if m, e := nh.SyncGetShardMembership(ctx, shardID); e == nil {
				res = m
			}
			cancel()
		})
		return res != nil
	})
	return res
}

// poll feeds the C03 monitor with what GetLeaderID says on every host and watches the raft
// roles of the witness and the non-voting member.
func (c *cluster) poll() {
	defer c.wg.Done()
	k := 0
	for {
		select {
		case <-c.stopC:
			return
		default:
		}
		k++
		for _, h := range c.hosts {
			h.with(func(nh *dragonboat.NodeHost) {
				if lid, term, valid, err := nh.GetLeaderID(shardID); err == nil && valid {
					c.mon.named(term, lid, "GetLeaderID on host "+h.addr)
				}
				if k%8 == 0 && h.role != 'V' {
					c.checkRole(h, nh)
				}
			})
		}
		time.Sleep(2 * time.Millisecond)
	}
}

func (c *cluster) checkRole(h *host, nh *dragonboat.NodeHost) {
	n := dragonboat.VerifR21Inspect(nh, shardID)
	if !n.Found || !n.Initialized {
		return
	}
	want := "Witness"
	if h.role == 'N' {
		want = "NonVoting"
	}
	if n.Peer.Role != want {
		m := fmt.Sprintf("replica %d was started as %s and its raft peer is in state %s (term %d)", h.id, want, n.Peer.Role, n.Peer.Term)
		c.mon.v("C18", "%s", m)
	}
}

// healthy heals the network, restarts what is down and waits for a leader.
func (c *cluster) healthy() (*host, bool) {
	c.net.heal()
	for _, h := range c.hosts {
		if h.get() == nil {
			if err := c.open(h); err != nil {
				c.mon.inc("restart-failed")
				continue
			}
		}
		if !h.shard && h.joined {
			if err := c.startShard(h, nil); err != nil {
				c.mon.inc("restart-start-failed:" + err.Error())
			}
		}
	}
	// every started replica has finished its start-up (the API answers ErrShardNotReady before)
	if !waitFor(30*time.Second, func() bool {
		all := true
		for _, h := range c.hosts {
			h.with(func(nh *dragonboat.NodeHost) {
				// ... and has applied something: a replica that joined and has applied nothing yet has an
				// empty membership, and a snapshot request on it panics the process (rsm getSSMeta)
				if n := dragonboat.VerifR21Inspect(nh, shardID); h.shard && !(n.Found && n.Initialized && n.Peer.Applied > 0) {
					all = false
				}
			})
		}
		return all
	}) {
		c.mon.inc("replica-not-initialized")
	}
	lh, _ := c.leaderHost(30 * time.Second)
	if lh == nil {
		c.mon.inc("no-leader")
		return nil, false
	}
	return lh, true
}

func (c *cluster) resolve(role string) *host {
	switch role {
	case "W":
		return c.byRole('W')
	case "N":
		return c.byRole('N')
	}
	lh, _ := c.leaderHost(30 * time.Second)
	if lh == nil {
		return nil
	}
	if role == "L" {
		return lh
	}
	return c.followerHost(lh)
}

// propose1 gets one payload applied through some voter host; it gives up after d.
func (c *cluster) propose1(payload string, d time.Duration) bool {
	end := time.Now().Add(d)
	for time.Now().Before(end) {
		for _, h := range c.voters() {
			ok := false
			h.with(func(nh *dragonboat.NodeHost) {
				ctx, cancel := context.WithTimeout(context.Background(), 1500*time.Millisecond)
				_, err := nh.SyncPropose(ctx, nh.GetNoOPSession(shardID), []byte(payload))
				cancel()
				ok = err == nil
			})
			if ok {
				return true
			}
			// the proposal may have been applied although the call failed: ask before proposing again
			c.mon.mu.Lock()
			done := c.mon.applied[payload] > 0
			c.mon.mu.Unlock()
			if done {
				return true
			}
		}
		time.Sleep(10 * time.Millisecond)
	}
	return false
}

func (c *cluster) load(n int) int {
	done := 0
	for i := 0; i < n; i++ {
		p := fmt.Sprintf("L%d-%s", atomic.AddUint64(&c.seq, 1), strings.Repeat("x", 16))
		if !c.propose1(p, 10*time.Second) {
			c.mon.inc("load-proposal-not-completed")
			break
		}
		done++
	}
	return done
}

// snapshotAll takes a snapshot on every live voter and on the non-voting member and lets the
// log be compacted up to one entry behind it.
func (c *cluster) snapshotAll() {
	for _, h := range c.hosts {
		if h.role == 'W' {
			continue
		}
		h.with(func(nh *dragonboat.NodeHost) {
			for try := 0; try < 3; try++ {
				ctx, cancel := context.WithTimeout(context.Background(), 5*time.Second)
				_, err := nh.SyncRequestSnapshot(ctx, shardID, dragonboat.SnapshotOption{OverrideCompactionOverhead: true, CompactionOverhead: 1})
				cancel()
				if err == nil || errors.Is(err, dragonboat.ErrRejected) {
					c.mon.count("snapshots_taken")
					return
				}
			}
			c.mon.inc("snapshot-request-failed")
		})
	}
}

// caughtUp waits until the witness and the non-voting member hold the log up to what the
// leader had committed when the wait began.
func (c *cluster) caughtUp(d time.Duration) bool {
	lh, _ := c.leaderHost(30 * time.Second)
	if lh == nil {
		c.mon.inc("no-leader")
		return false
	}
	var target uint64
	lh.with(func(nh *dragonboat.NodeHost) { target = dragonboat.VerifR21Inspect(nh, shardID).Peer.Committed })
	ok := waitFor(d, func() bool {
		all := true
		for _, h := range c.hosts {
			if h.role == 'V' {
				continue
			}
			h.with(func(nh *dragonboat.NodeHost) {
				n := dragonboat.VerifR21Inspect(nh, shardID)
				if !n.Found || n.Peer.LastIndex < target || n.Peer.Committed < target {
					all = false
				}
			})
		}
		return all
	})
	if !ok {
		c.mon.inc("catch-up-timeout")
	}
	return ok
}

// witnessStore reads, through the log store of the witness host, everything the witness
// persisted: entries, snapshot record, and the snapshot image the record points at.
func (c *cluster) witnessStore() (entries int, bad int) {
	w := c.byRole('W')
	w.with(func(nh *dragonboat.NodeHost) {
		db := dragonboat.VerifR21LogDB(nh)
		if db == nil {
			return
		}
		// the contract of ReadRaftState: the caller names the index of the recorded snapshot
		// (node.replayLog does the same)
		ss, err := db.GetSnapshot(shardID, w.id)
		if err != nil {
			c.mon.inc("witness-store-unreadable")
			return
		}
		rs, err := db.ReadRaftState(shardID, w.id, ss.Index)
		if err != nil {
			if !errors.Is(err, raftio.ErrNoSavedLog) {
				c.mon.inc("witness-store-unreadable")
			}
			return
		}
		if rs.EntryCount > 0 {
			ents, _, err := db.IterateEntries(nil, 0, shardID, w.id, rs.FirstIndex, rs.FirstIndex+rs.EntryCount, math.MaxUint64)
			if err != nil {
				c.mon.inc("witness-store-unreadable")
				return
			}
			for _, e := range ents {
				entries++
				if !noPayload(e) {
					bad++
					c.mon.v("C18", "the witness persisted an entry with a payload: index %d type %s cmd %d bytes key %d client %d series %d",
						e.Index, e.Type, len(e.Cmd), e.Key, e.ClientID, e.SeriesID)
				}
			}
		}
		c.mon.mu.Lock()
		c.mon.dist["witness_entries_read_from_store"] += entries
		c.mon.mu.Unlock()
		if pb.IsEmptySnapshot(ss) {
			return
		}
		c.mon.count("witness_snapshot_records_checked")
		if !ss.Witness && !ss.Dummy {
			bad++
			c.mon.v("C18", "the snapshot recorded in the witness's log store (index %d) is not a witness snapshot: witness=%v dummy=%v file %q size %d files %d",
				ss.Index, ss.Witness, ss.Dummy, ss.Filepath, ss.FileSize, len(ss.Files))
		}
		if len(ss.Files) > 0 {
			bad++
			c.mon.v("C18", "the snapshot recorded in the witness's log store carries %d external files", len(ss.Files))
		}
		if ss.Filepath != "" && c.mon.witnessImage != nil {
			if f, err := w.fs.Open(ss.Filepath); err == nil {
				data, _ := io.ReadAll(f)
				f.Close()
				if !sameImage(data, c.mon.witnessImage) {
					bad++
					c.mon.v("C18", "the snapshot image stored on the witness host (%d bytes) is not the empty witness image (%d bytes)", len(data), len(c.mon.witnessImage))
				}
			}
		}
	})
	return
}

func (c *cluster) close() {
	close(c.stopC)
	c.wg.Wait()
	for _, h := range c.hosts {
		c.closeHost(h)
	}
	atomic.StoreInt32(&c.net.closed, 1)
}
