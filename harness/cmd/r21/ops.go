package main

// The operations of a case and the API sweep.

import (
	"context"
	"errors"
	"fmt"
	"strconv"
	"strings"
	"sync/atomic"
	"time"

	dragonboat "github.com/lni/dragonboat/v4"
	"github.com/lni/dragonboat/v4/client"
	"github.com/lni/dragonboat/v4/config"
	sm "github.com/lni/dragonboat/v4/statemachine"
	"verif/harness/vh"
)

// apis is the sweep: every client-facing entry point of NodeHost that leads to a request
// table or to the user state machine (names are those of the case text).
var apis = []string{
	"propose", "propose_sess", "sync_propose", "nu_propose",
	"session_register", "sync_get_session", "sync_close_session",
	"read_index", "sync_read", "membership", "nu_read", "stale_read",
	"snapshot", "sync_snapshot", "snapshot_opts", "snapshot_badopt", "snapshot_exported", "snapshot_exported_nodir",
	"leader_transfer", "leader_transfer_zero",
	"query_log", "query_log_badrange",
	"add_replica", "add_nonvoting", "add_witness", "sync_add_nonvoting", "add_badaddr", "delete_replica", "sync_delete_replica",
	"compaction",
}

func verdictOf(err error) string {
	switch {
	case err == nil:
		return "accepted"
	case errors.Is(err, dragonboat.ErrInvalidOperation):
		return "invalid"
	case errors.Is(err, dragonboat.ErrClosed):
		return "closed"
	case errors.Is(err, dragonboat.ErrShardNotFound):
		return "notfound"
	case errors.Is(err, dragonboat.ErrShardNotReady):
		return "notready"
	case errors.Is(err, dragonboat.ErrShardNotInitialized):
		return "notinit"
	case errors.Is(err, dragonboat.ErrInvalidOption):
		return "badoption"
	case errors.Is(err, dragonboat.ErrInvalidRange):
		return "badrange"
	case errors.Is(err, dragonboat.ErrInvalidAddress):
		return "badaddress"
	case errors.Is(err, dragonboat.ErrInvalidTarget):
		return "badtarget"
	case errors.Is(err, dragonboat.ErrDirNotExist):
		return "nodir"
	case errors.Is(err, dragonboat.ErrSystemBusy):
		return "busy"
	case errors.Is(err, dragonboat.ErrTimeout):
		return "timeout"
	case errors.Is(err, dragonboat.ErrRejected):
		return "rejected"
	case errors.Is(err, dragonboat.ErrInvalidSession):
		return "badsession"
	}
	return "other"
}

const reqTimeout = 3 * time.Second

// outcome waits for the result of an accepted asynchronous request.
func outcome(rs *dragonboat.RequestState) string {
	if rs == nil {
		return "none"
	}
	select {
	case r := <-rs.ResultC():
		switch {
		case r.Completed():
			return "completed"
		case r.Rejected():
			return "rejected"
		case r.Timeout():
			return "timeout"
		case r.Terminated():
			return "terminated"
		case r.Dropped():
			return "dropped"
		case r.Aborted():
			return "aborted"
		case r.RequestOutOfRange():
			return "outofrange"
		}
		return "unknown"
	case <-time.After(reqTimeout + 5*time.Second):
		return "noresult"
	}
}

// syncVerdict classifies the error of a Sync* call: whether the request was accepted is what
// the verdict says; how it ended is the outcome.
func syncVerdict(err error) (string, string) {
	switch v := verdictOf(err); v {
	case "accepted":
		return "accepted", "completed"
	case "timeout", "rejected", "busy", "other":
		// the request went in; it did not complete
		if errors.Is(err, dragonboat.ErrShardClosed) || errors.Is(err, dragonboat.ErrAborted) || errors.Is(err, dragonboat.ErrCanceled) {
			return "accepted", "terminated"
		}
		if v == "busy" {
			return "busy", "none"
		}
		if v == "other" {
			return "other", "none"
		}
		return "accepted", v
	case "notready":
		// getRequestState turns a Dropped result into ErrShardNotReady; every replica is past its
		// start-up when the call is made (healthy()), so this is an accepted request that was dropped
		return "accepted", "dropped"
	default:
		return v, "none"
	}
}

// session registers a client session through a voter host.
func (c *cluster) session() *client.Session {
	for try := 0; try < 12; try++ {
		lh, _ := c.leaderHost(10 * time.Second)
		if lh == nil {
			continue
		}
		var cs *client.Session
		lh.with(func(nh *dragonboat.NodeHost) {
			ctx, cancel := context.WithTimeout(context.Background(), reqTimeout)
			s, err := nh.SyncGetSession(ctx, shardID)
			cancel()
			if err == nil {
				cs = s
			}
		})
		if cs != nil {
			return cs
		}
	}
	return nil
}

func (c *cluster) closeSession(cs *client.Session) {
	for try := 0; try < 5; try++ {
		lh, _ := c.leaderHost(5 * time.Second)
		if lh == nil {
			continue
		}
		ok := false
		lh.with(func(nh *dragonboat.NodeHost) {
			ctx, cancel := context.WithTimeout(context.Background(), reqTimeout)
			ok = nh.SyncCloseSession(ctx, cs) == nil
			cancel()
		})
		if ok {
			return
		}
	}
}

// removeGhost removes a replica id that the sweep added to the membership.
func (c *cluster) removeGhost(id uint64) {
	err := c.admin(30*time.Second, func(ctx context.Context, nh *dragonboat.NodeHost) error {
		return nh.SyncRequestDeleteReplica(ctx, shardID, id, 0)
	}, func(m *dragonboat.Membership) bool {
		_, a := m.Nodes[id]
		_, b := m.NonVotings[id]
		_, w := m.Witnesses[id]
		return !a && !b && !w
	})
	if err != nil {
		c.mon.inc("ghost-not-removed")
	}
}

// callAPI makes one API call on h and returns the verdict (was the request accepted, or which
// refusal) and, for an accepted request, how it ended.
func (c *cluster) callAPI(h *host, nh *dragonboat.NodeHost, api string, opIdx int) (verdict, out string) {
	out = "none"
	onW := h.role == 'W'
	tag := "X"
	if onW {
		tag = "W" // payloads handed to the witness host are recognisable
	}
	payload := fmt.Sprintf("%s%d-%s-%d", tag, atomic.AddUint64(&c.seq, 1), api, opIdx)
	if onW {
		c.mon.mu.Lock()
		c.mon.witnessPayloads[payload] = true
		c.mon.mu.Unlock()
	}
	ghost := uint64(900 + opIdx)
	if onW {
		ghost = uint64(800 + opIdx)
	}
	ghostAddr := fmt.Sprintf("%s-ghost%d:1", c.cfg.id, ghost)
	async := func(rs *dragonboat.RequestState, err error) {
		verdict = verdictOf(err)
		if err == nil {
			out = outcome(rs)
			rs.Release()
		}
	}
	ctx, cancel := context.WithTimeout(context.Background(), reqTimeout)
	defer cancel()
	switch api {
	case "propose":
		async(nh.Propose(nh.GetNoOPSession(shardID), []byte(payload), reqTimeout))
	case "sync_propose":
		_, err := nh.SyncPropose(ctx, nh.GetNoOPSession(shardID), []byte(payload))
		verdict, out = syncVerdict(err)
	case "nu_propose":
		nu, err := nh.GetNodeUser(shardID)
		if err != nil {
			return verdictOf(err), out
		}
		async(nu.Propose(nh.GetNoOPSession(shardID), []byte(payload), reqTimeout))
	case "propose_sess":
		cs := c.session()
		if cs == nil {
			c.mon.inc("no-session")
			return "nosession", out
		}
		async(nh.Propose(cs, []byte(payload), reqTimeout))
		if out == "completed" {
			cs.ProposalCompleted()
		}
		c.closeSession(cs)
	case "session_register":
		cs := client.NewSession(shardID, sessionRand{})
		cs.PrepareForRegister()
		async(nh.ProposeSession(cs, reqTimeout))
		if out == "completed" {
			cs.PrepareForPropose()
			c.closeSession(cs)
		}
	case "sync_get_session":
		cs, err := nh.SyncGetSession(ctx, shardID)
		verdict, out = syncVerdict(err)
		if err == nil {
			c.closeSession(cs)
		}
	case "sync_close_session":
		cs := c.session()
		if cs == nil {
			c.mon.inc("no-session")
			return "nosession", out
		}
		ctx2, cancel2 := context.WithTimeout(context.Background(), reqTimeout)
		err := nh.SyncCloseSession(ctx2, cs)
		cancel2()
		verdict, out = syncVerdict(err)
		if err != nil {
			cs.PrepareForPropose()
			c.closeSession(cs)
		}
	case "read_index":
		rs, err := nh.ReadIndex(shardID, reqTimeout)
		verdict = verdictOf(err)
		if err == nil {
			out = outcome(rs)
			if out == "completed" {
				if _, err := nh.ReadLocalNode(rs, "q"); err != nil {
					out = "completed-lookup-failed"
				}
			}
			rs.Release()
		}
	case "nu_read":
		nu, err := nh.GetNodeUser(shardID)
		if err != nil {
			return verdictOf(err), out
		}
		async(nu.ReadIndex(reqTimeout))
	case "sync_read":
		_, err := nh.SyncRead(ctx, shardID, "q")
		verdict, out = syncVerdict(err)
	case "membership":
		_, err := nh.SyncGetShardMembership(ctx, shardID)
		verdict, out = syncVerdict(err)
	case "stale_read":
		_, err := nh.StaleRead(shardID, "q")
		verdict = verdictOf(err)
		if err == nil {
			out = "completed"
		}
	case "snapshot":
		async(nh.RequestSnapshot(shardID, dragonboat.SnapshotOption{}, reqTimeout))
	case "sync_snapshot":
		_, err := nh.SyncRequestSnapshot(ctx, shardID, dragonboat.SnapshotOption{})
		verdict, out = syncVerdict(err)
	case "snapshot_opts":
		async(nh.RequestSnapshot(shardID, dragonboat.SnapshotOption{OverrideCompactionOverhead: true, CompactionOverhead: 3}, reqTimeout))
	case "snapshot_badopt":
		async(nh.RequestSnapshot(shardID, dragonboat.SnapshotOption{OverrideCompactionOverhead: true, CompactionOverhead: 3, CompactionIndex: 2}, reqTimeout))
	case "snapshot_exported":
		dir := fmt.Sprintf("/r21/export/%s/op%d", h.addr, opIdx)
		if err := h.fs.MkdirAll(dir, 0755); err != nil {
			return "fs-error", out
		}
		async(nh.RequestSnapshot(shardID, dragonboat.SnapshotOption{Exported: true, ExportPath: dir}, reqTimeout))
	case "snapshot_exported_nodir":
		async(nh.RequestSnapshot(shardID, dragonboat.SnapshotOption{Exported: true, ExportPath: fmt.Sprintf("/r21/missing/op%d", opIdx)}, reqTimeout))
	case "leader_transfer":
		// the target is the current leader: a transfer that changes nothing
		target := uint64(1)
		if lh, _ := c.leaderHost(10 * time.Second); lh != nil {
			target = lh.id
		}
		err := nh.RequestLeaderTransfer(shardID, target)
		verdict = verdictOf(err)
		if err == nil {
			out = "completed"
			waitFor(5*time.Second, func() bool { return dragonboat.VerifR21Inspect(nh, shardID).Tables.LeaderTransfer == 0 })
		}
	case "leader_transfer_zero":
		verdict = verdictOf(nh.RequestLeaderTransfer(shardID, 0))
	case "query_log":
		async(nh.QueryRaftLog(shardID, 1, 3, 1<<20))
	case "query_log_badrange":
		async(nh.QueryRaftLog(shardID, 5, 5, 1<<20))
	case "add_replica":
		async(nh.RequestAddReplica(shardID, ghost, ghostAddr, 0, reqTimeout))
	case "add_nonvoting":
		async(nh.RequestAddNonVoting(shardID, ghost, ghostAddr, 0, reqTimeout))
	case "add_witness":
		async(nh.RequestAddWitness(shardID, ghost, ghostAddr, 0, reqTimeout))
	case "sync_add_nonvoting":
		verdict, out = syncVerdict(nh.SyncRequestAddNonVoting(ctx, shardID, ghost, ghostAddr, 0))
	case "add_badaddr":
		async(nh.RequestAddNonVoting(shardID, ghost, "bad address!", 0, reqTimeout))
	case "delete_replica":
		async(nh.RequestDeleteReplica(shardID, ghost, 0, reqTimeout))
	case "sync_delete_replica":
		verdict, out = syncVerdict(nh.SyncRequestDeleteReplica(ctx, shardID, ghost, 0))
	case "compaction":
		_, err := nh.RequestCompaction(shardID, h.id)
		if err == nil || errors.Is(err, dragonboat.ErrRejected) {
			verdict = "free"
		} else {
			verdict = verdictOf(err)
		}
	default:
		verdict = "unknown-api"
	}
	if strings.HasPrefix(api, "add_") || api == "sync_add_nonvoting" {
		if verdict == "accepted" {
			c.removeGhost(ghost)
		}
	}
	return
}

type sessionRand struct{}

var sessionCounter uint64

func (sessionRand) Uint64() uint64 { return 0x5e55000000 + atomic.AddUint64(&sessionCounter, 1) }

// apiOp is the A / AS operation: the call, the tables of the witness right after it, and the
// monitors of the call itself.
func (c *cluster) apiOp(role, api string, opIdx int, stopped bool) (verdict, tables string) {
	tables = "-"
	if _, ok := c.healthy(); !ok {
		return "noleader", tables
	}
	h := c.resolve(role)
	if h == nil {
		c.mon.inc("role-not-resolved")
		return "norole", tables
	}
	if stopped {
		h.with(func(nh *dragonboat.NodeHost) {
			if err := nh.StopShard(shardID); err != nil {
				c.mon.inc("stop-shard-failed")
			}
			h.shard = false
		})
	}
	out := "none"
	h.with(func(nh *dragonboat.NodeHost) {
		if p := vh.Catch(func() { verdict, out = c.callAPI(h, nh, api, opIdx) }); p != "" {
			verdict = "panic"
			c.mon.count("api_panic:" + firstWords(p, 6))
		}
		if h.role == 'W' {
			n := dragonboat.VerifR21Inspect(nh, shardID)
			tables = strconv.Itoa(n.Tables.Total())
			if n.Found && n.Tables.Total() != 0 {
				c.mon.v("C18", "after %s on the witness host its request tables hold %d request(s): %+v", api, n.Tables.Total(), n.Tables)
			}
			if !n.Found {
				tables = "0"
			}
		}
	})
	c.mon.count(fmt.Sprintf("api_%s_%s", role, verdict))
	c.mon.count("outcome_" + role + "_" + out)
	if h.role == 'W' {
		// the property: a witness serves no proposal, read, snapshot, transfer, query or membership request
		if verdict == "accepted" {
			c.mon.v("C18", "the witness host accepted %s (outcome %s)", api, out)
		}
		if api != "compaction" && !stopped && verdict != "invalid" && verdict != "panic" &&
			verdict != "badoption" && verdict != "badrange" && verdict != "accepted" {
			c.mon.v("C18", "%s on the witness host: verdict %s, neither ErrInvalidOperation nor an argument error that precedes the role check", api, verdict)
		}
	} else {
		switch out {
		case "timeout", "noresult", "dropped", "terminated":
			c.mon.inc("request-on-" + role + "-ended-" + out)
		}
	}
	if stopped {
		if err := c.startShard(h, nil); err != nil {
			c.mon.inc("restart-start-failed:" + err.Error())
		}
	}
	return
}

func firstWords(s string, n int) string {
	f := strings.Fields(s)
	if len(f) > n {
		f = f[:n]
	}
	return strings.Join(f, "_")
}

// cfgOp: a witness configured to snapshot (or to be non-voting as well) must not start.
func (c *cluster) cfgOp(snapEntries uint64, nonVoting bool) string {
	w := c.byRole('W')
	if w.get() == nil {
		if err := c.open(w); err != nil {
			return "down"
		}
	}
	verdict := "refused"
	w.with(func(nh *dragonboat.NodeHost) {
		rc := config.Config{ReplicaID: 77, ShardID: probeShardID, ElectionRTT: 10, HeartbeatRTT: 1,
			SnapshotEntries: snapEntries, CompactionOverhead: 2, IsWitness: true, IsNonVoting: nonVoting}
		var err error
		var p string
		// a probe replica that was just stopped is unloaded asynchronously: ErrShardAlreadyExist until then
		waitFor(30*time.Second, func() bool {
			p = vh.Catch(func() {
				err = nh.StartReplica(nil, true,
					func(uint64, uint64) sm.IStateMachine { return &trapSM{m: c.mon} }, rc)
			})
			return p != "" || !errors.Is(err, dragonboat.ErrShardAlreadyExist)
		})
		switch {
		case p != "":
			c.mon.count("cfg_refused_by_panic")
		case err != nil:
			c.mon.count("cfg_refused_by_error")
		default:
			verdict = "started"
			_ = nh.StopShard(probeShardID)
		}
		if verdict == "started" && (snapEntries > 0 || nonVoting) {
			c.mon.v("C18", "a replica configured as witness with SnapshotEntries=%d IsNonVoting=%v was started", snapEntries, nonVoting)
		}
		if _, err := nh.GetNodeUser(probeShardID); verdict == "refused" && err == nil {
			c.mon.v("C18", "StartReplica refused the witness configuration (SnapshotEntries=%d IsNonVoting=%v) and the replica runs nevertheless", snapEntries, nonVoting)
		}
	})
	return verdict
}
