package main

// The monitors of R21: predicates of C18 and C03 evaluated on the implementation alone.
// Every violation carries the property it belongs to; `-prop` selects which ones report.

import (
	"bytes"
	"encoding/json"
	"fmt"
	"io"
	"sort"
	"sync"
	"sync/atomic"

	"github.com/lni/dragonboat/v4/raftio"
	pb "github.com/lni/dragonboat/v4/raftpb"
	sm "github.com/lni/dragonboat/v4/statemachine"
	r21 "github.com/lni/dragonboat/v4/verifhooks/r21"
)

type violation struct {
	Tag string `json:"tag"` // C18 | C03
	Msg string `json:"msg"`
}

type monitor struct {
	mu           sync.Mutex
	viol         []violation
	seen         map[string]bool
	inconclusive map[string]int
	dist         map[string]int
	// C03: who was named leader of a term, by any listener, any GetLeaderID, any leader message
	leaderOf map[uint64]uint64
	sourceOf map[uint64]string
	reports  int
	// roles by replica id
	witnessID, nonVotingID uint64
	witnessImage           []byte
	witnessChunks          int64 // witness snapshot chunks seen on the wire
	witnessReplicates      int64
	witnessEntries         int64
	smCallsOnWitness       int64
	// payloads handed to the API of the witness host; none may ever be applied anywhere
	witnessPayloads map[string]bool
	applied         map[string]int // payload -> number of hosts' state machines that were given it (any host)
}

func newMonitor() *monitor {
	return &monitor{seen: map[string]bool{}, inconclusive: map[string]int{}, dist: map[string]int{},
		leaderOf: map[uint64]uint64{}, sourceOf: map[uint64]string{}, witnessPayloads: map[string]bool{}, applied: map[string]int{}}
}

func (m *monitor) v(tag string, format string, a ...interface{}) {
	msg := fmt.Sprintf(format, a...)
	m.mu.Lock()
	defer m.mu.Unlock()
	if m.seen[tag+msg] {
		return
	}
	m.seen[tag+msg] = true
	m.viol = append(m.viol, violation{Tag: tag, Msg: msg})
}

// has: a violation with this tag and prefix was recorded.
func (m *monitor) has(tag, prefix string) bool {
	m.mu.Lock()
	defer m.mu.Unlock()
	for _, v := range m.viol {
		if v.Tag == tag && len(v.Msg) >= len(prefix) && v.Msg[:len(prefix)] == prefix {
			return true
		}
	}
	return false
}

func (m *monitor) inc(k string) {
	m.mu.Lock()
	m.inconclusive[k]++
	m.mu.Unlock()
}

func (m *monitor) count(k string) {
	m.mu.Lock()
	m.dist[k]++
	m.mu.Unlock()
}

// named records that source names leader as the leader of term (C03: at most one per term;
// C18 + C03: never the witness or the non-voting member).
func (m *monitor) named(term, leader uint64, source string) {
	if leader == 0 || term == 0 {
		return
	}
	var conflict, bad string
	m.mu.Lock()
	if old, ok := m.leaderOf[term]; ok {
		if old != leader {
			conflict = fmt.Sprintf("two leaders named for term %d: replica %d (%s) and replica %d (%s)", term, old, m.sourceOf[term], leader, source)
		}
	} else {
		m.leaderOf[term] = leader
		m.sourceOf[term] = source
	}
	if leader == m.witnessID {
		bad = fmt.Sprintf("the witness (replica %d) is named leader of term %d (%s)", leader, term, source)
	} else if leader == m.nonVotingID {
		bad = fmt.Sprintf("the non-voting member (replica %d) is named leader of term %d (%s)", leader, term, source)
	}
	m.mu.Unlock()
	if conflict != "" {
		m.v("C03", "%s", conflict)
	}
	if bad != "" {
		m.v("C03", "%s", bad)
		m.v("C18", "%s", bad)
	}
}

// sameImage compares two snapshot images apart from the header (which carries a time stamp).
func sameImage(a, b []byte) bool {
	h := int(r21.SnapshotHeaderSize)
	if len(a) != len(b) || len(a) < h {
		return false
	}
	return bytes.Equal(a[h:], b[h:])
}

func noPayload(e pb.Entry) bool {
	if e.Type == pb.ConfigChangeEntry {
		return true
	}
	return e.Type == pb.MetadataEntry && len(e.Cmd) == 0 && e.Key == 0 && e.ClientID == 0 && e.SeriesID == 0 && e.RespondedTo == 0
}

func isLeaderMessage(t pb.MessageType) bool {
	return t == pb.Replicate || t == pb.Heartbeat || t == pb.InstallSnapshot || t == pb.ReadIndexResp || t == pb.TimeoutNow
}

// tapBatch judges what a replica puts on the wire.
func (m *monitor) tapBatch(src, dst string, b pb.MessageBatch) {
	for _, msg := range b.Requests {
		if msg.ShardID != shardID {
			continue
		}
		if msg.To == m.witnessID && msg.Type == pb.Replicate {
			atomic.AddInt64(&m.witnessReplicates, 1)
			atomic.AddInt64(&m.witnessEntries, int64(len(msg.Entries)))
			for _, e := range msg.Entries {
				if !noPayload(e) {
					m.v("C18", "a Replicate message to the witness carries a payload: entry %d type %s cmd %d bytes key %d client %d",
						e.Index, e.Type, len(e.Cmd), e.Key, e.ClientID)
				}
			}
		}
		if msg.To == m.witnessID && msg.Type == pb.InstallSnapshot {
			s := msg.Snapshot
			if !s.Witness || s.Filepath != "" || s.FileSize != 0 || len(s.Files) != 0 {
				m.v("C18", "an InstallSnapshot message to the witness is not a witness snapshot: witness=%v filepath=%q filesize=%d files=%d",
					s.Witness, s.Filepath, s.FileSize, len(s.Files))
			}
		}
		if msg.From == m.witnessID || msg.From == m.nonVotingID {
			who := "the witness"
			if msg.From == m.nonVotingID {
				who = "the non-voting member"
			}
			switch {
			case msg.Type == pb.RequestVote || msg.Type == pb.RequestPreVote:
				m.v("C18", "%s campaigns: it sent %s for term %d", who, msg.Type, msg.Term)
			case isLeaderMessage(msg.Type):
				m.v("C18", "%s acts as leader: it sent %s in term %d", who, msg.Type, msg.Term)
			}
		}
		if msg.From == m.witnessID && (msg.Type == pb.Propose || msg.Type == pb.ReadIndex) {
			m.v("C18", "the witness forwarded a %s message: a request reached its raft peer", msg.Type)
		}
		if msg.Type == pb.Replicate || msg.Type == pb.Heartbeat {
			m.named(msg.Term, msg.From, fmt.Sprintf("%s message on the wire", msg.Type))
		}
	}
}

func (m *monitor) tapChunk(src, dst string, c pb.Chunk) {
	if c.ShardID != shardID {
		return
	}
	if c.ReplicaID == m.witnessID {
		atomic.AddInt64(&m.witnessChunks, 1)
		if !c.Witness || c.ChunkCount != 1 || c.HasFileInfo {
			m.v("C18", "a snapshot chunk sent to the witness is not a witness chunk: witness=%v chunk %d of %d file %q size %d",
				c.Witness, c.ChunkId, c.ChunkCount, c.Filepath, c.FileSize)
		} else if m.witnessImage != nil && !sameImage(c.Data, m.witnessImage) {
			m.v("C18", "the snapshot image sent to the witness (%d bytes) is not the empty witness image (%d bytes)", len(c.Data), len(m.witnessImage))
		}
	}
	if c.From == m.witnessID || c.From == m.nonVotingID {
		m.v("C18", "replica %d, which is not a voter, sends a snapshot", c.From)
	}
}

// ---- raftio.IRaftEventListener ----

type listener struct {
	m    *monitor
	host string
	mu   sync.Mutex
	last raftio.LeaderInfo
	seq  uint64 // number of reports for the shard
	when uint64
}

func (l *listener) LeaderUpdated(info raftio.LeaderInfo) {
	if info.ShardID != shardID {
		return
	}
	l.mu.Lock()
	l.last = info
	l.seq++
	l.mu.Unlock()
	l.m.mu.Lock()
	l.m.reports++
	l.m.mu.Unlock()
	l.m.named(info.Term, info.LeaderID, fmt.Sprintf("LeaderUpdated on host %s of replica %d", l.host, info.ReplicaID))
}

func (l *listener) lastReport() (raftio.LeaderInfo, uint64) {
	l.mu.Lock()
	defer l.mu.Unlock()
	return l.last, l.seq
}

// ---- state machines ----

// listSM is the user state machine of voters and non-voting members: the list of payloads.
type listSM struct {
	m     *monitor
	host  string
	mu    sync.Mutex
	items []string
}

func (s *listSM) Update(e sm.Entry) (sm.Result, error) {
	p := string(e.Cmd)
	s.mu.Lock()
	s.items = append(s.items, p)
	n := len(s.items)
	s.mu.Unlock()
	s.m.mu.Lock()
	s.m.applied[p]++
	s.m.mu.Unlock()
	return sm.Result{Value: uint64(n)}, nil
}

func (s *listSM) Lookup(q interface{}) (interface{}, error) {
	s.mu.Lock()
	defer s.mu.Unlock()
	return len(s.items), nil
}

func (s *listSM) SaveSnapshot(w io.Writer, _ sm.ISnapshotFileCollection, _ <-chan struct{}) error {
	s.mu.Lock()
	b, _ := json.Marshal(s.items)
	s.mu.Unlock()
	_, err := w.Write(b)
	return err
}

func (s *listSM) RecoverFromSnapshot(r io.Reader, _ []sm.SnapshotFile, _ <-chan struct{}) error {
	b, err := io.ReadAll(r)
	if err != nil {
		return err
	}
	var items []string
	if err := json.Unmarshal(b, &items); err != nil {
		return err
	}
	s.mu.Lock()
	s.items = items
	s.mu.Unlock()
	return nil
}

func (s *listSM) Close() error { return nil }

// trapSM is what the witness host's factory creates: any call into it other than Close is
// user data or a user-level operation reaching a witness.
type trapSM struct {
	m *monitor
}

func (t *trapSM) hit(what string) {
	atomic.AddInt64(&t.m.smCallsOnWitness, 1)
	t.m.v("C18", "the user state machine on the witness host was called: %s", what)
}

func (t *trapSM) Update(e sm.Entry) (sm.Result, error) {
	t.hit(fmt.Sprintf("Update(index %d, %d bytes)", e.Index, len(e.Cmd)))
	return sm.Result{}, nil
}
func (t *trapSM) Lookup(interface{}) (interface{}, error) {
	t.hit("Lookup")
	return 0, nil
}
func (t *trapSM) SaveSnapshot(w io.Writer, _ sm.ISnapshotFileCollection, _ <-chan struct{}) error {
	t.hit("SaveSnapshot")
	_, err := w.Write([]byte("[]"))
	return err
}
func (t *trapSM) RecoverFromSnapshot(r io.Reader, _ []sm.SnapshotFile, _ <-chan struct{}) error {
	t.hit("RecoverFromSnapshot")
	_, err := io.ReadAll(r)
	return err
}
func (t *trapSM) Close() error { return nil }

// the optional interfaces a state machine may implement, so that a call is seen whichever
// way the library would make it
func (t *trapSM) PrepareSnapshot() (interface{}, error) {
	t.hit("PrepareSnapshot")
	return nil, nil
}
func (t *trapSM) Sync() error {
	t.hit("Sync")
	return nil
}
func (t *trapSM) Open(<-chan struct{}) (uint64, error) {
	t.hit("Open")
	return 0, nil
}
func (t *trapSM) NALookup(q []byte) ([]byte, error) {
	t.hit("NALookup")
	return nil, nil
}
func (t *trapSM) GetHash() (uint64, error) {
	// IHash is a diagnostic interface, not user data; not counted
	return 0, nil
}

func sortedKeys(m map[string]int) []string {
	var ks []string
	for k := range m {
		ks = append(ks, k)
	}
	sort.Strings(ks)
	return ks
}
