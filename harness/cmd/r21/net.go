package main

// In-process transport for the R21 end-to-end harness (after harness/cmd/c01/net.go):
// synchronous delivery, directed partitions, and a tap that shows every message batch and
// every snapshot chunk to the monitors before it is delivered. A batch is delivered at most
// once and is never altered.

import (
	"context"
	"errors"
	"sync"
	"sync/atomic"

	"github.com/lni/dragonboat/v4/config"
	"github.com/lni/dragonboat/v4/raftio"
	pb "github.com/lni/dragonboat/v4/raftpb"
)

var errUnreachable = errors.New("r21 net: unreachable")

// endpoint is the receiving side of one NodeHost. Once ITransport.Close has returned no
// handler call is running or will be started (NodeHost.Close tears the engine down right
// after it).
type endpoint struct {
	mu      sync.RWMutex
	closed  bool
	handler raftio.MessageHandler
	chunks  raftio.ChunkHandler
}

func (ep *endpoint) deliver(b pb.MessageBatch) bool {
	ep.mu.RLock()
	defer ep.mu.RUnlock()
	if ep.closed {
		return false
	}
	ep.handler(b)
	return true
}

func (ep *endpoint) deliverChunk(c pb.Chunk) bool {
	ep.mu.RLock()
	defer ep.mu.RUnlock()
	if ep.closed {
		return false
	}
	return ep.chunks(c)
}

type network struct {
	mu        sync.Mutex
	eps       map[string]*endpoint
	blocked   map[[2]string]bool // directed: src -> dst dropped
	closed    int32
	tapBatch  func(src, dst string, b pb.MessageBatch)
	tapChunk  func(src, dst string, c pb.Chunk)
	delivered int64
	dropped   int64
}

func newNetwork() *network {
	return &network{eps: map[string]*endpoint{}, blocked: map[[2]string]bool{}}
}

func (n *network) heal() {
	n.mu.Lock()
	n.blocked = map[[2]string]bool{}
	n.mu.Unlock()
}

// isolate cuts addr off from every other address in both directions.
func (n *network) isolate(addr string, all []string) {
	n.mu.Lock()
	for _, o := range all {
		if o != addr {
			n.blocked[[2]string{addr, o}] = true
			n.blocked[[2]string{o, addr}] = true
		}
	}
	n.mu.Unlock()
}

func (n *network) reachable(src, dst string) (*endpoint, bool) {
	n.mu.Lock()
	defer n.mu.Unlock()
	ep := n.eps[dst]
	if ep == nil || n.blocked[[2]string{src, dst}] {
		return nil, false
	}
	return ep, true
}

func (n *network) down(dst string) bool {
	n.mu.Lock()
	defer n.mu.Unlock()
	return n.eps[dst] == nil
}

type netFactory struct{ net *network }

func (f *netFactory) Create(c config.NodeHostConfig, h raftio.MessageHandler, ch raftio.ChunkHandler) raftio.ITransport {
	return &netTransport{net: f.net, addr: c.RaftAddress, ep: &endpoint{handler: h, chunks: ch}}
}

// Validate is the target validator of the membership change API.
func (f *netFactory) Validate(a string) bool { return validAddress(a) }

func validAddress(a string) bool {
	if a == "" {
		return false
	}
	for _, c := range a {
		if c == ' ' || c == '!' {
			return false
		}
	}
	return true
}

type netTransport struct {
	net  *network
	addr string
	ep   *endpoint
}

func (t *netTransport) Name() string { return "r21-inproc" }
func (t *netTransport) Start() error {
	t.net.mu.Lock()
	t.net.eps[t.addr] = t.ep
	t.net.mu.Unlock()
	return nil
}
func (t *netTransport) Close() error {
	t.net.mu.Lock()
	if t.net.eps[t.addr] == t.ep {
		delete(t.net.eps, t.addr)
	}
	t.net.mu.Unlock()
	t.ep.mu.Lock()
	t.ep.closed = true
	t.ep.mu.Unlock()
	return nil
}
func (t *netTransport) GetConnection(ctx context.Context, target string) (raftio.IConnection, error) {
	if _, ok := t.net.reachable(t.addr, target); !ok {
		return nil, errUnreachable
	}
	return &netConn{t: t, target: target}, nil
}
func (t *netTransport) GetSnapshotConnection(ctx context.Context, target string) (raftio.ISnapshotConnection, error) {
	if _, ok := t.net.reachable(t.addr, target); !ok {
		return nil, errUnreachable
	}
	return &netSSConn{t: t, target: target}, nil
}

type netConn struct {
	t      *netTransport
	target string
}

func (c *netConn) Close() {}
func (c *netConn) SendMessageBatch(batch pb.MessageBatch) error {
	n := c.t.net
	if atomic.LoadInt32(&n.closed) != 0 {
		return errUnreachable
	}
	// private copy: the sender reuses the batch
	data := pb.MustMarshal(&batch)
	var cp pb.MessageBatch
	pb.MustUnmarshal(&cp, data)
	// what a replica puts on the wire is judged whether or not it arrives
	if n.tapBatch != nil {
		n.tapBatch(c.t.addr, c.target, cp)
	}
	ep, ok := n.reachable(c.t.addr, c.target)
	if !ok {
		atomic.AddInt64(&n.dropped, 1)
		if n.down(c.target) {
			return errUnreachable
		}
		return nil // silently lost
	}
	if ep.deliver(cp) {
		atomic.AddInt64(&n.delivered, 1)
	} else {
		atomic.AddInt64(&n.dropped, 1)
	}
	return nil
}

type netSSConn struct {
	t      *netTransport
	target string
}

func (c *netSSConn) Close() {}
func (c *netSSConn) SendChunk(chunk pb.Chunk) error {
	n := c.t.net
	data := pb.MustMarshal(&chunk)
	var cp pb.Chunk
	pb.MustUnmarshal(&cp, data)
	if n.tapChunk != nil {
		n.tapChunk(c.t.addr, c.target, cp)
	}
	ep, ok := n.reachable(c.t.addr, c.target)
	if !ok {
		return errUnreachable
	}
	if !ep.deliverChunk(cp) {
		return errUnreachable
	}
	return nil
}
