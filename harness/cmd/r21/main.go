// R21 harness: role restrictions at the NodeHost API and event level, end to end (sub-check
// of C18 and C03). Real NodeHosts in this process (in-memory file systems, in-process
// transport): v voters, one non-voting member, one witness started with IsWitness.
//
//	r21 gen|run [-prop C18|C03|ALL|AUTO] -seed S -tier T -cases FILE -out DIR [-n N]
//
//	case:  <id> prop=<P> v=<2|3> cq=<0|1> pv=<0|1> snap=<n> seed=<n> | op ; op ; ...
//	  A <role> <api>    healthy cluster (network healed, every host up, a leader known), then the
//	                    API call on the host of role W (witness) | N (non-voting) | F (a follower
//	                    voter) | L (the leader); an accepted request is waited for
//	  AS <role> <api>   the same after StopShard on that host (role W | N); the replica is restarted after
//	  CFG <n> <0|1>     StartReplica(IsWitness, SnapshotEntries=n, IsNonVoting) on the witness host (shard 2)
//	  LOAD <n>          n proposals through voter hosts, each until completed
//	  SNAP              snapshot + log compaction on every voter and the non-voting member
//	  ISO <role> / HEAL partition a host off / heal the network
//	  STOP <role> / START   close the NodeHost of that role / reopen everything that is closed
//	  XFER <role>       leader transfer requested on the leader's host, target F | W | N
//	  WAIT              until witness and non-voting member hold everything committed so far
//	  NOQ               no-quorum probe: every voting member but the leader cut off, the non-voting
//	                    member connected: a proposal must not complete
//	  CHK               the monitors that look at stored state (also run at the end of every case)
//	obs:   <id> <i>:<OP> ...   A/AS: role= api= verdict= tables=   CFG: verdict=   CHK: wpayload= wsm=
//	       (verdict fields are masked with - under prop=C03, whose judgement is in the monitors)
//	monitors (tagged, filtered by prop): see monitor.go, ops.go, chk() below.
//
// Every case runs in a child process (`r21 case`): a panic on a library goroutine (the way the
// library refuses, e.g., a witness that is made to snapshot) ends the child, not the run, and is
// reported as a violation of that case.
package main

import (
	"encoding/json"
	"fmt"
	"os"
	"os/exec"
	"path/filepath"
	"regexp"
	"sort"
	"strconv"
	"strings"
	"sync"
	"sync/atomic"
	"time"

	dragonboat "github.com/lni/dragonboat/v4"
	"verif/harness/vh"
)

var prop = "AUTO"

func (sessionRand) Int() int { return int(atomic.AddUint64(&sessionCounter, 1)) }

// resolveProp: AUTO means the property whose check runs this sub-check (bin/check names the
// work directory <ID>-as-<parent>...), ALL when run on its own.
func resolveProp(out string) string {
	if prop != "AUTO" {
		return prop
	}
	if p := os.Getenv("VERIF_AS"); p != "" {
		return p
	}
	abs, _ := filepath.Abs(out)
	if m := regexp.MustCompile(`R21-as-(C[0-9]+)`).FindStringSubmatch(abs); m != nil {
		return m[1]
	}
	return "ALL"
}

func wants(p, tag string) bool { return p == "ALL" || p == tag }

func parseHeader(line string) (caseCfg, []string) {
	parts := strings.SplitN(line, " | ", 2)
	f := strings.Fields(parts[0])
	cfg := caseCfg{id: f[0], prop: "ALL", v: 2}
	for _, kv := range f[1:] {
		k, v, _ := strings.Cut(kv, "=")
		n, _ := strconv.ParseUint(v, 10, 64)
		switch k {
		case "prop":
			cfg.prop = v
		case "v":
			cfg.v = int(n)
		case "cq":
			cfg.cq = n == 1
		case "pv":
			cfg.pv = n == 1
		case "snap":
			cfg.snap = n
		case "seed":
			cfg.seed = n
		}
	}
	if cfg.v < 2 || cfg.v > 3 {
		cfg.v = 2
	}
	var ops []string
	if len(parts) == 2 {
		for _, o := range strings.Split(parts[1], " ; ") {
			if strings.TrimSpace(o) != "" {
				ops = append(ops, strings.TrimSpace(o))
			}
		}
	}
	return cfg, ops
}

// ---- gen ----

func gen(a vh.Args) {
	p := resolveProp(a.Out)
	w := vh.Create(a.Cases)
	defer w.Close()
	r := vh.NewRand(vh.NewRand(a.Seed).U64() ^ 0x52323100)
	hdr := func(name string, v, cq, pv, snap int) string {
		return fmt.Sprintf("g%d_%s prop=%s v=%d cq=%d pv=%d snap=%d seed=%d", a.Seed, name, p, v, cq, pv, snap, r.U64()>>40)
	}
	// 1: the whole sweep on the witness host and on the non-voting host, 2 voters
	var sweep []string
	for _, api := range apis {
		sweep = append(sweep, "A W "+api)
	}
	sweep = append(sweep, "CFG 10 0", "CFG 0 1", "CFG 0 0", "CHK")
	for _, api := range apis {
		sweep = append(sweep, "A N "+api)
	}
	sweep = append(sweep, "AS W propose", "AS W read_index", "AS W snapshot", "AS N propose", "CHK")
	w.Printf("%s | %s\n", hdr("sweep", 2, 1, 0, 0), strings.Join(sweep, " ; "))
	// 2: the witness falls behind a compacted leader and is brought up to date by a snapshot;
	// it is then stopped and restarted from what it stored; elections in between
	w.Printf("%s | %s\n", hdr("catchup", 3, 1, int(r.U64()%2), 0), strings.Join([]string{
		"LOAD 10", "ISO W", "LOAD 30", "SNAP", "LOAD 5", "HEAL", "WAIT", "CHK",
		"A W propose", "A W stale_read", "A W snapshot",
		"STOP W", "LOAD 25", "SNAP", "LOAD 3", "START", "WAIT", "CHK",
		"ISO N", "LOAD 25", "SNAP", "LOAD 3", "HEAL", "WAIT", "A N sync_read", "A N sync_propose", "CHK"}, " ; "))
	// 3: elections: partitions of the leader, leader transfer (also aimed at witness and
	// non-voting member), the leader's host stopped; 2 voters + witness: the witness's vote elects
	w.Printf("%s | %s\n", hdr("elect2", 2, 0, 0, 0), strings.Join([]string{
		"LOAD 5", "XFER F", "LOAD 3", "XFER W", "XFER N", "ISO L", "LOAD 3", "HEAL", "CHK", "ISO F", "CHK", "HEAL",
		"STOP L", "LOAD 3", "START", "WAIT", "XFER F", "NOQ", "LOAD 2", "CHK"}, " ; "))
	w.Printf("%s | %s\n", hdr("elect3", 3, 1, 1, 20), strings.Join([]string{
		"LOAD 5", "ISO L", "LOAD 5", "HEAL", "XFER F", "LOAD 25", "STOP L", "LOAD 5", "START", "WAIT", "ISO F", "LOAD 3", "CHK", "HEAL",
		"XFER N", "XFER W", "NOQ", "A W read_index", "A N read_index", "A F propose", "A L membership", "CHK"}, " ; "))
	n := 2
	if a.Tier == "thorough" {
		n = 24
	}
	if a.N > 0 {
		n = a.N
	}
	roles := []string{"W", "W", "W", "N", "N", "F", "L"}
	for i := 0; i < n; i++ {
		var ops []string
		k := 14 + r.Intn(10)
		// at most one voting member (voter or witness) is cut off or down at a time, so that a
		// quorum stays; every op that starts with a healthy cluster clears it
		impaired := "" // "" | "iso" | "stop"
		impair := func(kind, role string) {
			if role == "N" {
				ops = append(ops, map[string]string{"iso": "ISO N", "stop": "STOP N"}[kind])
				return
			}
			switch impaired {
			case "iso":
				ops = append(ops, "HEAL")
				impaired = ""
			case "stop":
				ops = append(ops, "START")
				impaired = ""
			default:
				ops = append(ops, map[string]string{"iso": "ISO ", "stop": "STOP "}[kind]+role)
				impaired = kind
			}
		}
		for j := 0; j < k; j++ {
			switch x := r.Intn(100); {
			case x < 40:
				ops = append(ops, fmt.Sprintf("A %s %s", roles[r.Intn(len(roles))], apis[r.Intn(len(apis))]))
				impaired = ""
			case x < 46:
				ops = append(ops, fmt.Sprintf("AS %s %s", []string{"W", "N"}[r.Intn(2)], apis[r.Intn(len(apis))]))
				impaired = ""
			case x < 58:
				ops = append(ops, fmt.Sprintf("LOAD %d", 1+r.Intn(25)))
			case x < 64:
				ops = append(ops, "SNAP")
			case x < 72:
				impair("iso", []string{"W", "N", "L", "F", "L"}[r.Intn(5)])
			case x < 78:
				ops = append(ops, "HEAL")
				if impaired == "iso" {
					impaired = ""
				}
			case x < 83:
				impair("stop", []string{"W", "N", "L", "F"}[r.Intn(4)])
			case x < 87:
				ops = append(ops, "START")
				if impaired == "stop" {
					impaired = ""
				}
			case x < 92:
				ops = append(ops, "XFER "+[]string{"F", "F", "W", "N"}[r.Intn(4)])
				impaired = ""
			case x < 94:
				ops = append(ops, "NOQ")
				impaired = ""
			case x < 96:
				ops = append(ops, fmt.Sprintf("CFG %d %d", []int{0, 1, 50}[r.Intn(3)], r.Intn(2)))
			case x < 98:
				ops = append(ops, "WAIT")
				impaired = ""
			default:
				ops = append(ops, "CHK")
			}
		}
		w.Printf("%s | %s\n", hdr(fmt.Sprintf("r%d", i), 2+r.Intn(2), r.Intn(2), r.Intn(2), []int{0, 0, 15}[r.Intn(3)]), strings.Join(ops, " ; "))
	}
}

// ---- one case (child process) ----

type caseResult struct {
	Violations   []violation    `json:"violations"`
	Inconclusive map[string]int `json:"inconclusive"`
	Dist         map[string]int `json:"dist"`
	Nontrivial   bool           `json:"nontrivial"`
	Lines        []string       `json:"lines"`
	Done         bool           `json:"done"`
	Slow         []string       `json:"slow"`
}

func mask(p string, tag string, s string) string {
	if wants(p, tag) {
		return s
	}
	return "-"
}

func runCase(line string) caseResult {
	cfg, ops := parseHeader(line)
	mon := newMonitor()
	res := caseResult{}
	emit := func(i int, op string, rest string) {
		res.Lines = append(res.Lines, strings.TrimRight(fmt.Sprintf("%s %d:%s %s", cfg.id, i, op, rest), " "))
	}
	c, err := startCluster(cfg, mon)
	if err != nil {
		// no cluster, no judgement: the expected lines cannot be produced, the case is inconclusive
		mon.inc("cluster-start-failed: " + err.Error())
		if c != nil {
			c.close()
		}
		res.Inconclusive, res.Dist, res.Violations = mon.inconclusive, mon.dist, mon.viol
		return res
	}
	for i, o := range ops {
		f := strings.Fields(o)
		opStart := time.Now()
		slow := func() {
			if d := time.Since(opStart); d > 1500*time.Millisecond {
				res.Slow = append(res.Slow, fmt.Sprintf("%d:%s=%.1fs", i, strings.ReplaceAll(o, " ", "_"), d.Seconds()))
			}
		}
		arg := func(k int) string {
			if k < len(f) {
				return f[k]
			}
			return ""
		}
		switch f[0] {
		case "A", "AS":
			v, t := c.apiOp(arg(1), arg(2), i, f[0] == "AS")
			emit(i, f[0], fmt.Sprintf("role=%s api=%s verdict=%s tables=%s", arg(1), arg(2), mask(cfg.prop, "C18", v), mask(cfg.prop, "C18", t)))
		case "CFG":
			n, _ := strconv.ParseUint(arg(1), 10, 64)
			emit(i, "CFG", "verdict="+mask(cfg.prop, "C18", c.cfgOp(n, arg(2) == "1")))
		case "LOAD":
			n, _ := strconv.Atoi(arg(1))
			done := c.load(n)
			mon.mu.Lock()
			mon.dist["loaded"] += done
			mon.mu.Unlock()
			emit(i, "LOAD", "ok")
		case "SNAP":
			c.snapshotAll()
			emit(i, "SNAP", "ok")
		case "ISO":
			if h := c.resolve(arg(1)); h != nil {
				_, seq0 := h.lis.lastReport()
				c.net.isolate(h.addr, c.addrs)
				if arg(1) == "F" || (arg(1) == "L" && c.cfg.cq) {
					// the host that was cut off notices (it campaigns, or steps down for lack of a
					// quorum): its listener is told; later CHKs compare that with its GetLeaderID
					if waitFor(3*time.Second, func() bool { _, seq := h.lis.lastReport(); return seq != seq0 }) {
						c.mon.count("isolated_host_noticed")
					} else {
						c.mon.inc("isolated-host-did-not-notice")
					}
				}
				if arg(1) == "L" || arg(1) == "F" {
					// let the others notice: an election on the other side (by condition, bounded)
					c.electionAfterIsolation(h)
				}
			} else {
				mon.inc("role-not-resolved")
			}
			emit(i, "ISO", "ok")
		case "HEAL":
			c.net.heal()
			emit(i, "HEAL", "ok")
		case "STOP":
			if h := c.resolve(arg(1)); h != nil {
				if arg(1) == "L" {
					// the other voters hold everything the leader has (one voter + the witness cannot
					// elect while the witness is ahead of the voter: known stall, findings/known.txt C17)
					c.votersCaughtUp(h, 5*time.Second)
				}
				c.closeHost(h)
				mon.count("host_stopped_" + arg(1))
				if arg(1) == "L" {
					c.electionAfterIsolation(h)
				}
			} else {
				mon.inc("role-not-resolved")
			}
			emit(i, "STOP", "ok")
		case "START":
			c.restartAll()
			emit(i, "START", "ok")
		case "XFER":
			c.transfer(arg(1))
			emit(i, "XFER", "ok")
		case "WAIT":
			c.healthy()
			c.caughtUp(40 * time.Second)
			emit(i, "WAIT", "ok")
		case "NOQ":
			c.noQuorumProbe()
			emit(i, "NOQ", "ok")
		case "CHK":
			emit(i, "CHK", c.chk())
		default:
			emit(i, f[0], "unknown")
		}
		slow()
	}
	// the end of every case: a healthy cluster, everything caught up, all monitors
	c.healthy()
	c.caughtUp(40 * time.Second)
	c.chk()
	c.close()
	mon.mu.Lock()
	res.Nontrivial = mon.dist["api_W_invalid"] > 0 || atomic.LoadInt64(&mon.witnessChunks) > 0 || len(mon.leaderOf) > 1
	mon.dist["terms_with_a_named_leader"] = len(mon.leaderOf)
	mon.dist["leader_reports"] = mon.reports
	mon.dist["witness_snapshot_chunks"] = int(atomic.LoadInt64(&mon.witnessChunks))
	mon.dist["witness_replicate_messages"] = int(atomic.LoadInt64(&mon.witnessReplicates))
	mon.dist["witness_entries_on_the_wire"] = int(atomic.LoadInt64(&mon.witnessEntries))
	res.Inconclusive, res.Dist, res.Violations = mon.inconclusive, mon.dist, mon.viol
	mon.mu.Unlock()
	res.Done = true
	return res
}

func (c *cluster) restartAll() {
	for _, h := range c.hosts {
		if h.get() == nil {
			if err := c.open(h); err != nil {
				c.mon.inc("restart-failed")
				continue
			}
			c.mon.count("host_restarted")
		}
		if !h.shard && h.joined {
			if err := c.startShard(h, nil); err != nil {
				c.mon.inc("restart-start-failed:" + err.Error())
			}
		}
	}
}

// votersCaughtUp waits until every live voter holds the log of lh.
func (c *cluster) votersCaughtUp(lh *host, d time.Duration) {
	var last uint64
	lh.with(func(nh *dragonboat.NodeHost) { last = dragonboat.VerifR21Inspect(nh, shardID).Peer.LastIndex })
	waitFor(d, func() bool {
		all := true
		for _, h := range c.voters() {
			h.with(func(nh *dragonboat.NodeHost) {
				if n := dragonboat.VerifR21Inspect(nh, shardID); n.Found && n.Peer.LastIndex < last {
					all = false
				}
			})
		}
		return all
	})
}

// electionAfterIsolation waits (bounded) until a voter other than gone leads a later term.
func (c *cluster) electionAfterIsolation(gone *host) {
	ok := waitFor(10*time.Second, func() bool {
		for _, h := range c.voters() {
			if h == gone {
				continue
			}
			led := false
			h.with(func(nh *dragonboat.NodeHost) {
				if n := dragonboat.VerifR21Inspect(nh, shardID); n.Found && n.Peer.Role == "Leader" {
					led = true
				}
			})
			if led {
				return true
			}
		}
		return false
	})
	if ok {
		c.mon.count("elections_forced")
	} else {
		c.mon.inc("no-election-after-isolation")
	}
}

// transfer asks the leader to hand over to a follower voter (must happen eventually, bounded
// wait, inconclusive otherwise) or to the witness / non-voting member (must never happen; the
// monitors on leader reports and raft roles judge it).
func (c *cluster) transfer(role string) {
	lh, ok := c.healthy()
	if !ok {
		return
	}
	var target *host
	switch role {
	case "W":
		target = c.byRole('W')
	case "N":
		target = c.byRole('N')
	default:
		target = c.followerHost(lh)
	}
	if target == nil {
		c.mon.inc("role-not-resolved")
		return
	}
	if target.role == 'V' {
		// a transfer may be abandoned by the leader (no guarantee in the API): asked again a few times
		for attempt := 0; attempt < 4; attempt++ {
			var err error
			cur, _ := c.leaderHost(10 * time.Second)
			if cur == nil {
				break
			}
			if cur == target {
				c.mon.count("transfers_done")
				return
			}
			cur.with(func(nh *dragonboat.NodeHost) { err = nh.RequestLeaderTransfer(shardID, target.id) })
			if err != nil {
				c.mon.inc("transfer-request-refused")
				continue
			}
			if waitFor(2500*time.Millisecond, func() bool { l, _ := c.leaderHost(30 * time.Millisecond); return l == target }) {
				c.mon.count("transfers_done")
				return
			}
		}
		c.mon.inc("transfer-not-done")
		return
	}
	var err error
	lh.with(func(nh *dragonboat.NodeHost) { err = nh.RequestLeaderTransfer(shardID, target.id) })
	if err != nil {
		c.mon.inc("transfer-request-refused")
		return
	}
	c.mon.count("transfers_aimed_at_" + role)
	// an election time-out's worth of time for a wrong transfer to show
	time.Sleep(300 * time.Millisecond)
}

// noQuorumProbe: with every voting member except the leader cut off, a proposal must not
// complete although the non-voting member acknowledges it (it never counts for a quorum).
func (c *cluster) noQuorumProbe() {
	lh, ok := c.healthy()
	if !ok {
		return
	}
	for _, h := range c.hosts {
		if h != lh && h.role != 'N' {
			c.net.isolate(h.addr, c.addrs)
		}
	}
	payload := fmt.Sprintf("Q%d-noquorum", atomic.AddUint64(&c.seq, 1))
	lh.with(func(nh *dragonboat.NodeHost) {
		rs, err := nh.Propose(nh.GetNoOPSession(shardID), []byte(payload), 700*time.Millisecond)
		if err != nil {
			c.mon.count("noq_refused")
			return
		}
		select {
		case r := <-rs.ResultC():
			if r.Completed() {
				c.mon.v("C18", "a proposal completed with only the leader and the non-voting member connected: a non-voting member counted for the commit quorum")
			}
			c.mon.count("noq_probe")
		case <-time.After(5 * time.Second):
			c.mon.count("noq_probe")
		}
	})
	c.net.heal()
}

// chk: the monitors that look at stored state; returns the fields of the CHK line.
func (c *cluster) chk() string {
	mon := c.mon
	// C18: what the witness persisted, the calls its state machine saw, its tables and peer
	_, bad := c.witnessStore()
	w := c.byRole('W')
	w.with(func(nh *dragonboat.NodeHost) {
		n := dragonboat.VerifR21Inspect(nh, shardID)
		if !n.Found || !n.Initialized {
			return
		}
		if n.Tables.Total() != 0 {
			mon.v("C18", "the request tables of the witness hold %d request(s): %+v", n.Tables.Total(), n.Tables)
		}
		if n.Peer.PendingReads != 0 || n.Peer.DroppedEntries != 0 || n.Peer.DroppedReads != 0 || n.Peer.ReadyToRead != 0 {
			mon.v("C18", "the raft peer of the witness saw a proposal or ReadIndex: pending reads %d, dropped proposals %d, dropped reads %d, ready to read %d",
				n.Peer.PendingReads, n.Peer.DroppedEntries, n.Peer.DroppedReads, n.Peer.ReadyToRead)
		}
		c.checkRole(w, nh)
	})
	if nv := c.byRole('N'); nv != nil {
		nv.with(func(nh *dragonboat.NodeHost) { c.checkRole(nv, nh) })
	}
	mon.mu.Lock()
	for p := range mon.witnessPayloads {
		if mon.applied[p] > 0 {
			mon.mu.Unlock()
			mon.v("C18", "a payload handed to the witness host (%s) was applied by a state machine", p)
			mon.mu.Lock()
		}
	}
	mon.mu.Unlock()
	if m := c.membership(10 * time.Second); m != nil {
		for _, set := range []map[uint64]string{m.Nodes, m.NonVotings, m.Witnesses} {
			for id := range set {
				if id >= 800 && id < 900 {
					mon.v("C18", "a membership change requested on the witness host was applied: replica %d is a member", id)
				}
			}
		}
		for id := range m.Removed {
			if id >= 800 && id < 900 {
				mon.v("C18", "a membership change requested on the witness host was applied: replica %d is in the removed set", id)
			}
		}
		if _, ok := m.Witnesses[witnessID]; !ok {
			mon.v("C18", "replica %d is no longer a witness in the membership", witnessID)
		}
		if _, ok := m.NonVotings[nonVotingID]; !ok {
			mon.v("C18", "replica %d is no longer a non-voting member in the membership", nonVotingID)
		}
	}
	// C03: on every live host, once things are quiet, GetLeaderID is what the host's listener was told last
	if !c.mon.has("C03", "GetLeaderID on host") {
		c.settled()
	}
	return strings.TrimSpace(fmt.Sprintf("%s %s",
		"wpayload="+mask(c.cfg.prop, "C18", strconv.Itoa(bad))+" wsm="+mask(c.cfg.prop, "C18", strconv.FormatInt(atomic.LoadInt64(&mon.smCallsOnWitness), 10)),
		"multi="+mask(c.cfg.prop, "C03", strconv.Itoa(c.conflicts()))))
}

func (c *cluster) conflicts() int {
	c.mon.mu.Lock()
	defer c.mon.mu.Unlock()
	n := 0
	for _, v := range c.mon.viol {
		if v.Tag == "C03" && strings.HasPrefix(v.Msg, "two leaders named") {
			n++
		}
	}
	return n
}

// settled: GetLeaderID on a host never keeps contradicting what the listener of that host was
// told last. Both are fed by the same raft calls on two asynchronous paths (the event queue and
// the engine's update), so they are compared by condition: only a difference seen at every one
// of the polls of a 5 s window counts (a replica that keeps campaigning changes both every
// election time-out, and each time they agree again within an engine cycle).
func (c *cluster) settled() {
	const window = 5 * time.Second
	var wg sync.WaitGroup
	var flagged int32 // one host that keeps differing is the verdict; the others need not wait the window out
	for _, h := range c.hosts {
		h := h
		wg.Add(1)
		go func() {
			defer wg.Done()
			var detail string
			polls, changes := 0, 0
			h.with(func(nh *dragonboat.NodeHost) {
				_, seq0 := h.lis.lastReport()
				if seq0 == 0 {
					return
				}
				agree := waitFor(window, func() bool {
					if atomic.LoadInt32(&flagged) != 0 {
						return true
					}
					last, seq := h.lis.lastReport()
					if seq != seq0 {
						changes++
						seq0 = seq
					}
					lid, term, valid, err := nh.GetLeaderID(shardID)
					if err != nil || last.Term == 0 {
						return true
					}
					if lid == last.LeaderID && term == last.Term && valid == (lid != 0) {
						return true
					}
					polls++
					detail = fmt.Sprintf("GetLeaderID on host %s returns (leader %d, term %d, valid %v), its listener was last told (leader %d, term %d)",
						h.addr, lid, term, valid, last.LeaderID, last.Term)
					return false
				})
				if agree {
					c.mon.count("leader_id_settled")
					return
				}
				if polls < 200 {
					c.mon.inc("leader-id-comparison-starved")
					return
				}
				atomic.StoreInt32(&flagged, 1)
				c.mon.v("C03", "%s; they differed at each of %d polls during %v (%d new reports in between)", detail, polls, window, changes)
			})
		}()
	}
	wg.Wait()
}

// ---- run (parent) ----

func runAll(a vh.Args) {
	lines := vh.ReadLines(a.Cases)
	p := resolveProp(a.Out)
	st := vh.NewStats("real NodeHosts (2-3 voters + non-voting + witness): API sweep on witness / non-voting / voter hosts, witness catch-up by snapshot from a compacted leader, restart, elections by partition / transfer / stopping the leader's host; non-trivial = a case in which the witness refused an API call, or received a snapshot, or more than one term had a leader reported; distinct by case text")
	self, _ := os.Executable()
	results := make([]caseResult, len(lines))
	crashed := make([]string, len(lines))
	wall := make([]time.Duration, len(lines))
	var wg sync.WaitGroup
	par := 3
	if a.Tier == "thorough" {
		par = 4
	}
	sem := make(chan struct{}, par)
	for i, l := range lines {
		wg.Add(1)
		sem <- struct{}{}
		go func(i int, l string) {
			defer wg.Done()
			defer func() { <-sem }()
			cf := filepath.Join(a.Out, fmt.Sprintf("case_%d.txt", i))
			rf := filepath.Join(a.Out, fmt.Sprintf("case_%d.json", i))
			_ = os.WriteFile(cf, []byte(l+"\n"), 0644)
			_ = os.Remove(rf)
			t0 := time.Now()
			defer func() { wall[i] = time.Since(t0) }()
			for attempt := 0; attempt < 2; attempt++ {
				cmd := exec.Command(self, "case", "-cases", cf, "-out", rf)
				outb, err := cmd.CombinedOutput()
				if b, e := os.ReadFile(rf); e == nil && json.Unmarshal(b, &results[i]) == nil && results[i].Done {
					crashed[i] = ""
					break
				}
				// the cluster could not be started (resources): once more; a child that died is a verdict
				if b, e := os.ReadFile(rf); e == nil && json.Unmarshal(b, &results[i]) == nil && !results[i].Done && err == nil {
					continue
				}
				crashed[i] = panicSummary(string(outb), err)
				break
			}
			_ = os.Remove(cf)
			_ = os.Remove(rf)
		}(i, l)
	}
	wg.Wait()
	out := vh.Create(filepath.Join(a.Out, "impl.obs"))
	for i, r := range results {
		cfg, _ := parseHeader(lines[i])
		for _, ln := range r.Lines {
			out.Printf("%s\n", ln)
		}
		if crashed[i] != "" {
			out.Printf("%s crashed\n", cfg.id)
			// a library panic ends the process: whatever property is being decided, this run says no
			for _, tag := range []string{"C18", "C03"} {
				if wants(p, tag) && wants(cfg.prop, tag) {
					st.Violation(cfg.id, fmt.Sprintf("[%s] the process running the case died: %s", tag, crashed[i]))
					break
				}
			}
		}
		for _, v := range r.Violations {
			if wants(p, v.Tag) && wants(cfg.prop, v.Tag) {
				st.Violation(cfg.id, fmt.Sprintf("[%s] %s", v.Tag, v.Msg))
			}
		}
		var ks []string
		for k := range r.Inconclusive {
			ks = append(ks, k)
		}
		sort.Strings(ks)
		for _, k := range ks {
			st.Distribution["inconclusive."+k] += r.Inconclusive[k]
		}
		for _, k := range sortedKeys(r.Dist) {
			st.Distribution[k] += r.Dist[k]
		}
		st.Case(lines[i], r.Nontrivial, lines[i])
	}
	out.Close()
	st.Notes["prop"] = p
	var ws []string
	for i := range lines {
		ws = append(ws, fmt.Sprintf("%s:%.1fs", strings.Fields(lines[i])[0], wall[i].Seconds()))
		if len(results[i].Slow) > 0 {
			ws = append(ws, "("+strings.Join(results[i].Slow, ",")+")")
		}
	}
	st.Notes["wall"] = strings.Join(ws, " ")
	st.Write(a.Out)
}

func panicSummary(out string, err error) string {
	for _, ln := range strings.Split(out, "\n") {
		if strings.HasPrefix(ln, "panic:") || strings.HasPrefix(ln, "fatal error:") {
			if len(ln) > 300 {
				ln = ln[:300]
			}
			return ln
		}
	}
	tail := strings.TrimSpace(out)
	if len(tail) > 300 {
		tail = tail[len(tail)-300:]
	}
	return fmt.Sprintf("%v: %s", err, tail)
}

func main() {
	// pull out -prop before the common flag parsing
	args := []string{os.Args[0]}
	for i := 1; i < len(os.Args); i++ {
		if os.Args[i] == "-prop" && i+1 < len(os.Args) {
			prop = os.Args[i+1]
			i++
			continue
		}
		args = append(args, os.Args[i])
	}
	os.Args = args
	a := vh.ParseArgs()
	switch a.Mode {
	case "gen":
		gen(a)
	case "run":
		runAll(a)
	case "case":
		lines := vh.ReadLines(a.Cases)
		res := runCase(lines[0])
		b, _ := json.Marshal(res)
		if err := os.WriteFile(a.Out, b, 0644); err != nil {
			panic(err)
		}
	default:
		fmt.Fprintln(os.Stderr, "unknown mode")
		os.Exit(2)
	}
}
