package main

import (
	"os"

	hk "github.com/lni/dragonboat/v4/verifhooks/c08"
)

// power loss: a file system that keeps synced and unsynced state apart (lni/vfs
// strict MemFS) under a counter of mutating operations. When the counter
// reaches `cut` the machine is considered dead from that operation on: nothing
// that happens afterwards becomes durable — file system syncs are ignored, the
// log store cell and the fake on-disk state machine's disk consult `frozen` —
// and the run continues to its end in volatile state only. ResetToSyncedState
// then yields exactly what a power failure at that operation leaves behind.
type power struct {
	mem     *hk.MemFS
	enabled bool
	count   int
	cut     int // -1: never
	frozen  bool
}

func (p *power) step() {
	if p == nil || !p.enabled || p.frozen {
		return
	}
	if p.cut >= 0 && p.count >= p.cut {
		p.frozen = true
		p.mem.SetIgnoreSyncs(true)
		return
	}
	p.count++
}

func (p *power) dead() bool { return p != nil && p.frozen }

// restore: the machine comes back with what was durable
func (p *power) restore() {
	p.mem.ResetToSyncedState()
	p.mem.SetIgnoreSyncs(false)
	p.frozen, p.enabled, p.cut = false, false, -1
}

type powerFS struct {
	*hk.MemFS
	p *power
}

type powerFile struct {
	hk.File
	p *power
}

func (f *powerFile) Write(b []byte) (int, error) {
	f.p.step()
	return f.File.Write(b)
}
func (f *powerFile) Sync() error {
	f.p.step()
	return f.File.Sync()
}

func (s *powerFS) wrap(f hk.File, err error) (hk.File, error) {
	if err != nil {
		return nil, err
	}
	return &powerFile{File: f, p: s.p}, nil
}

func (s *powerFS) Create(name string) (hk.File, error) {
	s.p.step()
	return s.wrap(s.MemFS.Create(name))
}
func (s *powerFS) Open(name string, opts ...hk.OpenOption) (hk.File, error) {
	return s.wrap(s.MemFS.Open(name, opts...))
}
func (s *powerFS) OpenDir(name string) (hk.File, error) { return s.wrap(s.MemFS.OpenDir(name)) }
func (s *powerFS) OpenForAppend(name string) (hk.File, error) {
	return s.wrap(s.MemFS.OpenForAppend(name))
}
func (s *powerFS) ReuseForWrite(oldname, newname string) (hk.File, error) {
	s.p.step()
	return s.wrap(s.MemFS.ReuseForWrite(oldname, newname))
}
func (s *powerFS) Remove(name string) error {
	s.p.step()
	return s.MemFS.Remove(name)
}
func (s *powerFS) RemoveAll(name string) error {
	s.p.step()
	return s.MemFS.RemoveAll(name)
}
func (s *powerFS) Rename(oldname, newname string) error {
	s.p.step()
	return s.MemFS.Rename(oldname, newname)
}
func (s *powerFS) Link(oldname, newname string) error {
	s.p.step()
	return s.MemFS.Link(oldname, newname)
}
func (s *powerFS) MkdirAll(dir string, perm os.FileMode) error {
	s.p.step()
	return s.MemFS.MkdirAll(dir, perm)
}
