package main

import (
	"fmt"
	"strings"

	"verif/harness/vh"
)

// generator: structured, mostly valid entry streams (clients that register,
// propose with increasing series ids, retry, acknowledge, unregister; config
// changes that follow the membership; noops) interleaved with the control ops
// that cut replica B. The on-disk kind only uses NoOP sessions (nodehost.go
// refuses anything else on an IOnDiskStateMachine).

const (
	seriesRegister   = uint64(1<<64 - 2)
	seriesUnregister = uint64(1<<64 - 1)
)

type genClient struct {
	id         uint64
	series     uint64
	responded  uint64
	registered bool
}

type caseGen struct {
	r        *vh.Rand
	kind     string
	ordered  bool
	ops      []string
	nEntries uint64
	lastCC   uint64 // index of the last config change the generator believes was applied
	members  map[uint64]int
	clients  []*genClient
	nextRep  uint64
}

func (g *caseGen) cmd() string {
	n := g.r.Intn(5)
	if g.r.Chance(1, 8) {
		n = 0
	} else if g.r.Chance(1, 6) {
		n = 5 + g.r.Intn(28)
	}
	return vh.Hex(g.r.Bytes(n))
}

func (g *caseGen) entry(s string) {
	g.ops = append(g.ops, s)
	g.nEntries++
}

func (g *caseGen) cc(typ int, rep uint64, addr string) {
	ccid := g.lastCC
	if g.r.Chance(1, 10) {
		ccid = uint64(g.r.Intn(int(g.nEntries) + 2))
	}
	init := 0
	if g.r.Chance(1, 12) {
		init = 1
	}
	g.entry(fmt.Sprintf("c %d %d %s %d %d", typ, rep, vh.Hex([]byte(addr)), ccid, init))
	g.lastCC = g.nEntries
}

func (g *caseGen) randomCC() {
	switch g.r.Intn(6) {
	case 0, 1: // add a new voter / nonvoting / witness
		g.nextRep++
		typ := []int{0, 2, 3}[g.r.Intn(3)]
		g.members[g.nextRep] = typ
		g.cc(typ, g.nextRep, fmt.Sprintf("a%d", g.nextRep))
	case 2: // remove something (maybe unknown)
		rep := uint64(g.r.Intn(int(g.nextRep)+2)) + 1
		if rep <= 2 && g.r.Chance(3, 4) {
			rep = g.nextRep
		}
		delete(g.members, rep)
		g.cc(1, rep, "")
	case 3: // promote a nonvoting
		for rep, typ := range g.members {
			if typ == 2 {
				g.members[rep] = 0
				g.cc(0, rep, fmt.Sprintf("a%d", rep))
				return
			}
		}
		g.cc(0, g.nextRep, fmt.Sprintf("a%d", g.nextRep))
	case 4: // add an existing one again / address clash
		g.cc([]int{0, 2, 3}[g.r.Intn(3)], uint64(g.r.Intn(int(g.nextRep)+1))+1, fmt.Sprintf(" A%d ", g.r.Intn(int(g.nextRep)+1)+1))
	default: // re-add a removed id
		g.cc(0, uint64(g.r.Intn(int(g.nextRep)+2))+1, fmt.Sprintf("b%d", g.r.Intn(9)))
	}
}

func (g *caseGen) sessionEntry() {
	if g.kind == "disk" {
		// NoOP session proposal
		g.entry(fmt.Sprintf("a %d 0 0 %s", uint64(g.r.Intn(3))+7, g.cmd()))
		return
	}
	c := g.clients[g.r.Intn(len(g.clients))]
	switch x := g.r.Intn(20); {
	case !c.registered && x < 14:
		c.registered, c.series, c.responded = true, 1, 0
		g.entry(fmt.Sprintf("a %d %d 0 -", c.id, seriesRegister))
	case x < 9: // next proposal
		if g.r.Chance(2, 3) {
			c.responded = c.series - 1
		}
		g.entry(fmt.Sprintf("a %d %d %d %s", c.id, c.series, c.responded, g.cmd()))
		c.series++
	case x < 12: // retry of an earlier proposal
		s := c.series - 1
		if s > 1 && g.r.Bool() {
			s = uint64(g.r.Intn(int(s))) + 1
		}
		if s == 0 {
			s = 1
		}
		g.entry(fmt.Sprintf("a %d %d %d %s", c.id, s, c.responded, g.cmd()))
	case x < 13: // register again
		g.entry(fmt.Sprintf("a %d %d 0 -", c.id, seriesRegister))
	case x < 15: // unregister
		c.registered = false
		g.entry(fmt.Sprintf("a %d %d 0 -", c.id, seriesUnregister))
	case x < 17: // NoOP session proposal
		g.entry(fmt.Sprintf("a %d 0 0 %s", c.id, g.cmd()))
	case x < 18: // boundary ids
		g.entry(fmt.Sprintf("a %d %d %d %s", g.r.BiasedU64()|1, g.r.BiasedU64(), g.r.BiasedU64(), g.cmd()))
	default: // skip ahead in the series
		c.series += uint64(g.r.Intn(3))
		g.entry(fmt.Sprintf("a %d %d %d %s", c.id, c.series, c.responded, g.cmd()))
		c.series++
	}
}

func (g *caseGen) saveOp() string {
	kind := "r"
	if g.r.Chance(1, 8) {
		kind = "x"
	}
	ovr, oh, ci := 0, uint64(0), uint64(0)
	if g.r.Chance(1, 2) {
		ovr = 1
		switch g.r.Intn(4) {
		case 0:
			oh = uint64(g.r.Intn(6))
		case 1:
			ci = uint64(g.r.Intn(int(g.nEntries)+3)) + 1
		case 2:
			ci = g.r.BiasedU64()
		}
	}
	during := 0
	if g.kind != "reg" && g.r.Chance(1, 2) {
		during = 1
	}
	return fmt.Sprintf("S %s %d %d %d %d", kind, ovr, oh, ci, during)
}

// T: the save runs from inside the pending task
func (g *caseGen) saveInTaskOp() string {
	f := strings.Fields(g.saveOp())
	return fmt.Sprintf("T %d %s %s %s %s", 1+g.r.Intn(4), f[1], f[2], f[3], f[4])
}

// on-disk: a periodic sync, then one task applied entry by entry (it contains an
// empty entry or a config change) with the save running from inside it, then a
// crash that loses whatever was not synced
func (g *caseGen) midTaskScenario() {
	g.ops = append(g.ops, "b", "y")
	n := 2 + g.r.Intn(5)
	special := g.r.Intn(n)
	for i := 0; i < n; i++ {
		if i == special {
			if g.r.Bool() {
				g.entry("a 0 0 0 -")
			} else {
				g.randomCC()
			}
		} else {
			g.sessionEntry()
		}
	}
	g.ops = append(g.ops, fmt.Sprintf("T %d r %d %d 0", 1+g.r.Intn(n), g.r.Intn(2), g.r.Intn(3)))
	if g.r.Chance(3, 4) {
		g.ops = append(g.ops, fmt.Sprintf("R %d 0 %d", []int{0, 0, 1, 3}[g.r.Intn(4)], g.r.Intn(3)))
	}
}

// B lags, A saves at i, A applies further config changes and entries, only then
// the record A kept in memory is sent to B, which replays the log after i
func (g *caseGen) olderRecordScenario() {
	g.ops = append(g.ops, "L")
	for i, n := 0, g.r.Intn(3); i < n; i++ {
		g.sessionEntry()
	}
	g.ops = append(g.ops, "P")
	for i, n := 0, 1+g.r.Intn(3); i < n; i++ {
		g.randomCC()
		if g.r.Bool() {
			g.sessionEntry()
		}
		if g.r.Chance(1, 3) {
			g.ops = append(g.ops, "b")
		}
	}
	g.ops = append(g.ops, fmt.Sprintf("K %d %d", []int{0, 0, 1, 3}[g.r.Intn(4)], []int{0, 0, 1, 2}[g.r.Intn(4)]))
}

func genCase(r *vh.Rand, id string, size int) string {
	g := &caseGen{r: r, members: map[uint64]int{1: 0, 2: 0}, nextRep: 2}
	g.kind = []string{"reg", "reg", "conc", "disk"}[r.Intn(4)]
	g.ordered = r.Chance(1, 3)
	cap := []int{1, 2, 3, 4, 8}[r.Intn(5)]
	oh := []int{0, 0, 1, 2, 5, 100}[r.Intn(6)]
	nc := 2 + r.Intn(4)
	for i := 0; i < nc; i++ {
		g.clients = append(g.clients, &genClient{id: uint64(100 + i)})
	}
	if r.Chance(1, 4) {
		g.clients[0].id = 1<<64 - 1
	}
	// the bootstrap membership: two Initialize config changes that are always accepted, so
	// that no save / stream is ever asked of a replica whose membership is still empty
	// (getSSMeta answers that with its `empty membership` panic; the last voter can not be removed)
	g.entry(fmt.Sprintf("c 0 1 %s 0 1", vh.Hex([]byte("a1"))))
	g.lastCC = g.nEntries
	g.entry(fmt.Sprintf("c 0 2 %s 0 1", vh.Hex([]byte("a2"))))
	g.lastCC = g.nEntries
	g.ops = append(g.ops, "b")
	savedSince := false
	for i := 0; i < size; i++ {
		switch x := r.Intn(100); {
		case x < 48:
			g.sessionEntry()
		case x < 54:
			g.entry("a 0 0 0 -") // empty entry (leader's noop)
		case x < 62:
			g.randomCC()
		case x < 74:
			g.ops = append(g.ops, "b")
		case x < 76:
			g.ops = append(g.ops, "t")
		case x < 78:
			if g.kind == "disk" {
				g.ops = append(g.ops, "y")
			}
		case x < 88:
			switch {
			case g.kind != "reg" && r.Chance(1, 3):
				g.ops = append(g.ops, g.saveInTaskOp())
			case g.kind != "reg" && r.Chance(1, 6):
				f := strings.Fields(g.saveOp())
				kd := f[1]
				if g.kind == "disk" {
					kd = "x"
				}
				g.sessionEntry()
				g.ops = append(g.ops, fmt.Sprintf("N %s %s %s %s", kd, f[2], f[3], f[4]))
			case g.kind == "disk" && r.Chance(1, 6):
				g.midTaskScenario()
			case r.Chance(1, 4):
				f := strings.Fields(g.saveOp())
				oh := f[3]
				if r.Chance(1, 12) && f[4] != "0" {
					oh = "3" // both set: invalid option
				}
				g.ops = append(g.ops, fmt.Sprintf("Q %s %s %s %s", f[1], f[2], oh, f[4]))
			default:
				g.ops = append(g.ops, g.saveOp())
			}
			savedSince = true
		case x < 94:
			if savedSince || r.Chance(1, 4) {
				if g.kind == "disk" && r.Chance(1, 3) {
					// restart with the state machine ahead of the snapshot, stream requests while it replays
					g.ops = append(g.ops, fmt.Sprintf("W %d 1 %d", []int{0, 0, 1, 3}[r.Intn(4)], []int{0, 0, 2, 5, 1000}[r.Intn(5)]))
				} else {
					g.ops = append(g.ops, fmt.Sprintf("R %d %d %d", []int{0, 0, 1, 2, 5, 1000}[r.Intn(6)], r.Intn(2), []int{0, 0, 1, 2, 3}[r.Intn(5)]))
				}
			}
		case x < 96:
			if r.Chance(1, 3) {
				g.ops = append(g.ops, "O")
			} else {
				g.ops = append(g.ops, "L")
			}
		case x < 99:
			if r.Chance(1, 7) {
				// power failures while a follower receives and installs B's snapshot
				g.ops = append(g.ops, fmt.Sprintf("Z %d %d", []int{0, 0, 1, 3}[r.Intn(4)], []int{0, 0, 1, 4, 1000}[r.Intn(5)]))
			} else if g.kind == "disk" && r.Chance(1, 5) {
				g.ops = append(g.ops, fmt.Sprintf("D %d %d", []int{0, 0, 1, 3}[r.Intn(4)], []int{0, 0, 1, 4, 1000}[r.Intn(5)]))
			} else if g.kind != "disk" {
				switch r.Intn(4) {
				case 0:
					g.ops = append(g.ops, "P")
				case 1:
					g.ops = append(g.ops, fmt.Sprintf("K %d %d", []int{0, 0, 1, 3, 1000}[r.Intn(5)], []int{0, 0, 1, 2}[r.Intn(4)]))
				case 2:
					g.olderRecordScenario()
				default:
					g.ops = append(g.ops, fmt.Sprintf("I %d %d", []int{0, 0, 1, 3, 1000}[r.Intn(5)], []int{0, 0, 1, 2}[r.Intn(4)]))
				}
			} else if r.Chance(1, 2) {
				g.ops = append(g.ops, fmt.Sprintf("M %d %d", []int{0, 0, 1, 3, 1000}[r.Intn(5)], []int{0, 0, 1, 4, 1000}[r.Intn(5)]))
			} else {
				// B lags, receives its snapshot from A and is then the one that has to bring a follower up to date
				if r.Chance(2, 3) {
					g.ops = append(g.ops, "L")
					for i, n := 0, 1+r.Intn(4); i < n; i++ {
						g.sessionEntry()
					}
					g.ops = append(g.ops, "b")
				}
				g.ops = append(g.ops, fmt.Sprintf("V %d %d", []int{0, 0, 1, 3}[r.Intn(4)], []int{0, 0, 1, 4, 1000}[r.Intn(5)]))
			}
		default:
			if r.Chance(1, 10) {
				g.entry("a 0 5 0 01") // not session managed, not empty: the apply path panics
			}
		}
	}
	z := 0
	if r.Bool() {
		z = 1
	}
	ord := 0
	if g.ordered {
		ord = 1
	}
	ec := []int{0, 1, 2, 2, 3}[r.Intn(5)]
	return fmt.Sprintf("%s %s cap=%d ord=%d z=%d oh=%d ec=%d ac=%d | %s", id, g.kind, cap, ord, z, oh, ec, r.Intn(2), strings.Join(g.ops, " ; "))
}

func gen(a vh.Args) {
	n := 1200
	if a.Tier == "thorough" {
		n = 20000
	}
	if a.N > 0 {
		n = a.N
	}
	out := vh.Create(a.Cases)
	base := vh.NewRand(a.Seed).U64()
	for i := 0; i < n; i++ {
		r := vh.NewRand(base ^ (uint64(i)+1)*0x9E3779B97F4A7C15)
		size := 10 + r.Intn(60)
		if a.Tier == "thorough" && r.Chance(1, 10) {
			size = 100 + r.Intn(300)
		}
		out.Printf("%s\n", genCase(r, fmt.Sprintf("g%d", i), size))
	}
	out.Close()
}
