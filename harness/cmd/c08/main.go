// Command c08 is the harness of property C08 (snapshot + log suffix = replaying
// the full log; compaction stays below a recorded snapshot).
//
// TWIN replicas on the real code. Replica A applies the generated entry stream
// uninterrupted. Replica B is cut: it saves snapshots through the real
// node.doSave (rsm.StateMachine.Save -> real snapshotter.Save/Commit ->
// LogReader.CreateSnapshot -> compactLog), crashes and restarts from its newest
// recorded snapshot (node.replayLog + node.recover on a FRESH StateMachine and
// user state machine), lags and is brought up to date by a snapshot taken on A
// and shipped to it (node.processSnapshot + node.recover on the running
// replica), and is then re-delivered the rest of the log with an overlap. After
// the last entry the two replicas must agree on user data, session table in LRU
// order, membership, applied index and term (the monitor), and the extracted
// Coq model (Model/RsmApply.v, accumulator instance) must predict every
// observation (the differential check).
//
// case:  <id> <kind> cap=<n> ord=<0|1> z=<0|1> oh=<n> [ec=<0..3>] [ac=<0|1>] | op ; op ; ...
//   ec: application entries with a payload are plain (0), EncodedEntry uncompressed (1) / snappy (2), mixed (3)
//   kind reg|conc|disk, cap = session LRU size, ord = OrderedConfigChange,
//   z = snapshot compression, oh = config.CompactionOverhead
// ops (entries get consecutive indexes in op order, the term is 1 + number of t ops):
//   a <client> <series> <responded> <cmdhex>      application entry
//   c <type> <replica> <addrhex> <ccid> <init>    config change entry
//   t                                             new term
//   b                                             task boundary: deliver the pending entries as one task
//   y                                             Sync both replicas (on-disk)
//   L                                             B lags from here
//   S <r|x> <override> <overhead> <cindex> <during>   B saves a snapshot (x = exported), then removeLog;
//                                                 during=1: the pending task reaches B while the user SaveSnapshot runs
//   R <overlap> <keep> <split>                    B crashes and restarts from its newest recorded snapshot;
//                                                 keep=1: unsynced on-disk SM updates survived; the log is then
//                                                 re-delivered from (recovered index + 1 - overlap) in tasks of <split> entries
//   I <overlap> <split>                           A saves a snapshot, B installs it, then is re-delivered the rest
//   P                                             A saves a snapshot and keeps the record (its LogReader does)
//   K <overlap> <split>                           B installs the record A's LogReader holds in memory — saved by an earlier P / I,
//                                                 A may have applied any number of entries and config changes since — then gets the rest
//   Q <r|x> <override> <overhead> <cindex>        B is asked for a snapshot the way NodeHost.RequestSnapshot asks: SnapshotOption.Validate,
//                                                 node.requestSnapshot, node.handleSnapshot (a second request at the same applied index is
//                                                 rejected), node.save, result delivered to the request
//   N <r|x> <override> <overhead> <cindex>        the pending task goes to B and the snapshot worker starts B's save while the apply worker is
//                                                 inside the user Update of its last entry (concurrent kind; on-disk kind for exports)
//   O                                             B is handed a Recover task for the snapshot record it already holds and has applied
//   T <j> <r|x> <override> <overhead> <cindex>    the pending task goes to B and B saves FROM INSIDE it: right after the
//                                                 first entry at or after the j-th of the task has been reported (per-entry
//                                                 apply path, concurrent / on-disk kinds; otherwise after the task)
//   M <overlap> <pre>                             on-disk: a fresh follower that applied <pre> entries asks B for a streamed
//                                                 snapshot (real node.handleSnapshotTask -> canStream -> node.stream -> chunk
//                                                 writer -> the follower's chunk receiver), installs it, gets the rest of the log
//   D <overlap> <pre>                             on-disk: two followers need a streamed snapshot from B at overlapping times (second Stream task
//                                                 while the first is queued): each request ends in a stream or in a failure report to raft
//   Z <overlap> <pre>                             a follower is sent B's snapshot (stream / recorded file) through its real chunk receiver on a
//                                                 sync-aware file system; power failure at EVERY file system operation up to the end of
//                                                 node.recover, restart from what was durable, rest of the log, must equal A
//   V <overlap> <pre>                             on-disk: A saves; raft on A asks for lagging B to be sent a snapshot (real NodeHost.sendMessage decides
//                                                 file vs stream); B installs the RECEIVED record (its file is shrunk), catches up, and raft on B
//                                                 then asks for a fresh follower to be sent a snapshot, again through sendMessage
//   W <overlap> <keep> <pre>                      on-disk: B crashes and restarts as with R, then replays its log one entry at a
//                                                 time and is asked for a stream (as M) at every replay position up to one past
//                                                 the index its state machine was opened at
package main

import (
	"bytes"
	"fmt"
	"os"
	"path/filepath"
	"strconv"
	"strings"
	"time"

	dragonboat "github.com/lni/dragonboat/v4"
	pb "github.com/lni/dragonboat/v4/raftpb"
	hk "github.com/lni/dragonboat/v4/verifhooks/c08"

	"verif/harness/vh"
)

type world struct {
	id      string
	p       params
	fs      hk.IFS
	log     []pb.Entry
	term    uint64
	flushed int
	A, B    *replica
	k       int
	lines   []string
	aRes    map[uint64]string
	viol    []string
	feat    map[string]bool
	cur     string // what the harness is doing, for the panic monitor
	nfol    uint64 // followers created so far
	plain   map[uint64][]byte // index -> the payload the client proposed
}

func (w *world) emit(s string) { w.lines = append(w.lines, fmt.Sprintf("%s %d %s", w.id, w.k, s)) }

func (w *world) emitResults(r *replica) {
	// the user state machine is handed, for index i, the payload proposed for index i
	for i, cmd := range r.usm.gotCmds() {
		if want, ok := w.plain[i]; ok && !bytes.Equal(cmd, want) {
			w.viol = append(w.viol, fmt.Sprintf("WRONG-COMMAND replica %s: the state machine was handed [%x] for entry %d whose payload is [%x]", r.name, cmd, i, want))
		}
		delete(r.usm.gotCmds(), i)
	}
	r.newResults(func(s string) {
		w.emit(s)
		// monitor: what B reports for an entry is what A reported for it
		t := strings.SplitN(s, " ", 3)
		idx, _ := strconv.ParseUint(t[1], 10, 64)
		if r.name == "A" {
			w.aRes[idx] = t[2]
		} else if a, ok := w.aRes[idx]; ok && a != t[2] {
			skipped := strings.HasPrefix(t[2], "none ")
			if skipped && w.p.kind == "disk" {
				w.feat["ondisk-init-skip"] = true
			} else {
				w.viol = append(w.viol, fmt.Sprintf("RESULT-DIFFERS entry %d: uninterrupted replica reported [%s], cut replica [%s]", idx, a, t[2]))
			}
		}
	})
}

func parseHeader(h []string) (string, params, error) {
	if len(h) < 2 {
		return "", params{}, fmt.Errorf("short header")
	}
	p := params{kind: h[1], cap: 4}
	for _, f := range h[2:] {
		kv := strings.SplitN(f, "=", 2)
		if len(kv) != 2 {
			continue
		}
		n, _ := strconv.ParseUint(kv[1], 10, 64)
		switch kv[0] {
		case "cap":
			p.cap = n
		case "ord":
			p.ordered = n == 1
		case "z":
			p.compress = n == 1
		case "oh":
			p.overhead = n
		case "ec":
			p.enc = n
		case "ac":
			p.autoc = n == 1
		}
	}
	return h[0], p, nil
}

func u(s string) uint64 {
	n, err := strconv.ParseUint(s, 10, 64)
	if err != nil {
		panic("bad number " + s)
	}
	return n
}

func (w *world) pending() []pb.Entry { return w.log[w.flushed:] }

func (w *world) deliverTo(r *replica, ents []pb.Entry) {
	old := w.cur
	w.cur = r.name + ".apply"
	r.deliver(ents)
	w.emitResults(r)
	w.cur = old
}

// flush delivers the pending entries as one task
func (w *world) flush() {
	ents := w.pending()
	if len(ents) == 0 {
		return
	}
	w.flushed = len(w.log)
	w.deliverTo(w.A, ents)
	if !w.B.lag {
		w.deliverTo(w.B, ents)
	}
}

// catchUp re-delivers the log from index `from` up to what has been flushed
func (w *world) catchUp(r *replica, from uint64, split uint64) {
	if from < 1 {
		from = 1
	}
	ents := w.log[:w.flushed]
	if from > uint64(len(ents)) {
		return
	}
	ents = ents[from-1:]
	if split == 0 {
		split = uint64(len(ents))
	}
	for len(ents) > 0 {
		n := split
		if n > uint64(len(ents)) {
			n = uint64(len(ents))
		}
		w.deliverTo(r, ents[:n])
		ents = ents[n:]
	}
}

func (w *world) newRemovals(r *replica, from int) {
	for _, c := range r.ldb.compactions {
		if c.to > c.recorded {
			w.viol = append(w.viol, fmt.Sprintf("COMPACTION-BEYOND-REMOVED replica %s asked the log store to reclaim entries up to %d while entries were only removed up to %d", r.name, c.to, c.recorded))
		}
		w.feat["auto-compaction"] = true
	}
	r.ldb.compactions = nil
	for _, rm := range r.ldb.removals[from:] {
		w.emit(fmt.Sprintf("%s.compact %d", r.name, rm.to))
		w.feat["compaction"] = true
		if rm.to == 0 || rm.to > rm.recorded {
			w.viol = append(w.viol, fmt.Sprintf("COMPACTION-ABOVE-SNAPSHOT replica %s asked the log store to remove entries up to %d while its newest recorded snapshot is %d", r.name, rm.to, rm.recorded))
		}
	}
}

func (w *world) request(r *replica, f []string) hk.SSRequest {
	req := hk.SSRequest{Type: hk.UserRequested}
	if f[0] == "x" {
		req.Type = hk.Exported
		req.Path = fmt.Sprintf("/c08/export-%s-%d", r.name, w.k)
		if err := hk.MkdirAll(req.Path, w.fs); err != nil {
			panic(err)
		}
	}
	req.OverrideCompaction = f[1] == "1"
	req.CompactionOverhead = u(f[2])
	req.CompactionIndex = u(f[3])
	return req
}

// afterSave: what the step worker does next (removeLog) and the compaction monitors
func (w *world) afterSave(r *replica, tag string, idx uint64, nrm int) {
	w.noteRecord(r, idx)
	w.emit(fmt.Sprintf("%s idx=%d pending=%d", tag, idx, r.node.PendingCompactLogTo()))
	if p := r.node.PendingCompactLogTo(); p > r.ldb.ss.Index {
		w.viol = append(w.viol, fmt.Sprintf("COMPACTION-ABOVE-SNAPSHOT replica %s published compaction index %d while its newest recorded snapshot is %d", r.name, p, r.ldb.ss.Index))
	}
	if idx > 0 {
		w.feat["snapshot"] = true
	}
	// an on-disk replica's record is only recoverable if the state machine itself is durable up to its OnDiskIndex
	if r.disk != nil && idx > 0 && r.ldb.ss.Index == idx && r.ldb.ss.OnDiskIndex > r.disk.applied {
		w.viol = append(w.viol, fmt.Sprintf("SNAPSHOT-NOT-DURABLE replica %s recorded snapshot %d with OnDiskIndex %d while its state machine is durable only up to %d", r.name, idx, r.ldb.ss.OnDiskIndex, r.disk.applied))
	}
	r.removeLog()
	w.newRemovals(r, nrm)
}

// userSnapshot: NodeHost.RequestSnapshot on B through the node's own functions:
// SnapshotOption.Validate -> node.requestSnapshot -> pendingSnapshot.request (the
// SSRequest is built there) -> node.handleSnapshot -> node.save -> the request's result
func (w *world) userSnapshot(r *replica, f []string) {
	w.flush()
	opt := dragonboat.SnapshotOption{
		OverrideCompactionOverhead: f[2] == "1",
		CompactionOverhead:         u(f[3]),
		CompactionIndex:            u(f[4]),
	}
	if f[1] == "x" {
		opt.Exported = true
		opt.ExportPath = fmt.Sprintf("/c08/export-%s-%d", r.name, w.k)
		if err := hk.MkdirAll(opt.ExportPath, w.fs); err != nil {
			panic(err)
		}
	}
	nrm := len(r.ldb.removals)
	idx, outcome, err := r.node.UserSnapshot(opt)
	if err != nil {
		panic(err)
	}
	w.feat["snapshot-through-api"] = true
	if outcome == "completed" && idx == 0 || outcome != "completed" && idx != 0 {
		w.viol = append(w.viol, fmt.Sprintf("SNAPSHOT-RESULT replica %s: request %v ended %s with index %d", r.name, f, outcome, idx))
	}
	w.afterSave(r, "Q "+outcome, idx, nrm)
}

// saveRacingUpdate: the snapshot worker starts B's save while the apply worker is
// INSIDE the user Update of the last entry of the pending task (it holds the state
// machine lock there): prepare() has to wait for that lock, so the snapshot describes
// the replica after the task. The harness only races when the outcome does not depend
// on timing (guards of doSave / checkSnapshotStatus pass for the applied index before
// and after the task); otherwise the save follows the task.
func (w *world) saveRacingUpdate(r *replica, f []string) {
	req := w.request(r, f[1:])
	pend := w.pending()
	w.flushed = len(w.log)
	if len(pend) > 0 {
		w.deliverTo(w.A, pend)
	}
	nrm := len(r.ldb.removals)
	var idx uint64
	started := false
	done := make(chan string, 1)
	if len(pend) > 0 && !r.lag {
		v := r.view()
		racing := (w.p.kind == "conc" || (w.p.kind == "disk" && req.Type == hk.Exported)) &&
			pend[len(pend)-1].Index > v.Index &&
			v.SnapshotIndex < v.LastIndex && r.node.SnapshotStateIndex() < v.LastIndex
		if racing {
			rc := r.usm.race()
			rc.prepared = make(chan struct{}, 1)
			rc.at = pend[len(pend)-1].Index
			rc.fn = func() {
				started = true
				w.feat["save-racing-update"] = true
				go func() {
					done <- vh.Catch(func() {
						var err error
						if idx, err = r.node.DoSave(req); err != nil {
							panic(err)
						}
					})
				}()
				// give the saver the chance to run into (or, without the lock, past) prepare()
				select {
				case <-rc.prepared:
				case <-time.After(4 * time.Millisecond):
				}
			}
		}
		w.deliverTo(r, pend)
		rc := r.usm.race()
		rc.at, rc.fn = 0, nil
	}
	if started {
		if msg := <-done; msg != "" {
			panic(msg)
		}
	} else {
		var err error
		if idx, err = r.node.DoSave(req); err != nil {
			panic(err)
		}
	}
	if rc := r.usm.race(); rc.prepDuring {
		rc.prepDuring = false
		w.viol = append(w.viol, fmt.Sprintf("PREPARE-DURING-UPDATE replica %s: the snapshot (recorded index %d) was prepared while the Update of entry %d was in progress: it is labelled with one index and holds the data of another", r.name, idx, pend[len(pend)-1].Index))
	}
	r.usm.race().prepared = nil
	w.afterSave(r, "N", idx, nrm)
}

// staleRecover: B is handed a Recover task for the snapshot record it holds although
// it has applied that index (and possibly more) already: a duplicate / delayed
// InstallSnapshot. The state machine must refuse it (ErrSnapshotOutOfDate).
func (w *world) staleRecover() {
	w.flush()
	b := w.B
	ss := b.node.LogReaderSnapshot()
	if pb.IsEmptySnapshot(ss) {
		w.emit("O no-record")
		return
	}
	before := b.obs()
	nrm := len(b.ldb.removals)
	w.cur = "B.recover"
	got, err := b.node.Recover(hk.Task{Recover: true, Index: ss.Index})
	if err != nil {
		panic(err)
	}
	b.printed = b.view().Index
	b.removeLog()
	w.cur = ""
	w.emit(fmt.Sprintf("O from=%d %s | %s", got, b.obs(), b.aux()))
	w.newRemovals(b, nrm)
	w.feat["stale-recover-task"] = true
	if after := b.obs(); after != before {
		w.viol = append(w.viol, fmt.Sprintf("STALE-SNAPSHOT-APPLIED replica B held [%s], was handed a recover task for its snapshot %d and now holds [%s]", before, ss.Index, after))
	}
}

// saveInTask: the snapshot worker runs B's save between two entries of the task
// the apply worker is handling (it is not paused for concurrent / on-disk state
// machines): lastApplied still has its value from before the task
func (w *world) saveInTask(r *replica, f []string) {
	j := u(f[1])
	req := w.request(r, f[2:])
	pend := w.pending()
	w.flushed = len(w.log)
	if len(pend) > 0 {
		w.deliverTo(w.A, pend)
	}
	nrm := len(r.ldb.removals)
	fired := false
	idx := uint64(0)
	if len(pend) > 0 && !r.lag {
		applied := r.view().Index
		var todo []pb.Entry
		for _, e := range pend {
			if e.Index > applied {
				todo = append(todo, e)
			}
		}
		if w.p.kind != "reg" && len(todo) > 0 && !batched(w.p.kind, todo) {
			target := todo[0].Index
			if j > 1 {
				target += j - 1
			}
			r.proxy.onApplied = func(i uint64) {
				if fired || i < target {
					return
				}
				fired = true
				w.feat["save-inside-task"] = true
				// what runs now is the snapshot worker, not the apply path
				was := w.cur
				w.cur = "save." + r.name
				var err error
				if idx, err = r.node.DoSave(req); err != nil {
					panic(err)
				}
				w.cur = was
			}
		}
		w.deliverTo(r, pend)
		r.proxy.onApplied = nil
	}
	if !fired {
		var err error
		if idx, err = r.node.DoSave(req); err != nil {
			panic(err)
		}
	}
	w.afterSave(r, "T", idx, nrm)
}

// streamTo: a follower asks src for a streamed snapshot, installs what arrives
// and is handed the rest of the log; it must then equal the uninterrupted replica
func (w *world) streamTo(src *replica, ov uint64, pre uint64) {
	if w.p.kind != "disk" {
		w.emit("M n/a")
		return
	}
	w.streamInto(src, w.newFollower(src, pre), ov, false)
}

// newFollower: a fresh replica that has applied the first pre entries (fewer than src)
func (w *world) newFollower(src *replica, pre uint64) *replica {
	w.nfol++
	id := 2 + w.nfol
	old := w.cur
	defer func() { w.cur = old }()
	w.cur = "C.start"
	c := start("C", id, w.p, w.fs, &cellLogDB{}, nil)
	c.initialRecover(true)
	srcIdx := src.view().Index
	if srcIdx == 0 {
		pre = 0
	} else if pre > srcIdx-1 {
		pre = srcIdx - 1
	}
	if pre > 0 {
		w.cur = "C.apply"
		c.deliver(w.log[:pre])
		c.printed = c.view().Index
	}
	return c
}

// deliverFile: the transport sends the file of snapshot record ss to replica c:
// the chunks a snapshot job produces (splitSnapshotMessage + loadChunkData) go
// through c's real chunk receiver, which leaves the file finalised (flag file
// present) in c's directory and hands over the InstallSnapshot message.
// ok = false: the receiver dropped it (c already has a snapshot directory of that index).
func (w *world) deliverFile(ss pb.Snapshot, from uint64, c *replica) (pb.Snapshot, bool) {
	var rec pb.Snapshot
	pb.MustUnmarshal(&rec, pb.MustMarshal(&ss))
	m := pb.Message{Type: pb.InstallSnapshot, ShardID: 1, From: from, To: c.id, Snapshot: rec}
	chunks, err := hk.FileChunks(m, 0, w.fs)
	if err != nil {
		panic(fmt.Sprintf("the snapshot job can not read the file of snapshot %d: %v", ss.Index, err))
	}
	var received []pb.Message
	rcv := hk.NewChunk(func(mb pb.MessageBatch) { received = append(received, mb.Requests...) },
		func(uint64, uint64, uint64) {}, snapRoot, 0, c.fs)
	for _, ch := range chunks {
		if !rcv.Add(ch) {
			break
		}
	}
	if len(received) != 1 {
		return pb.Snapshot{}, false
	}
	return received[0].Snapshot, true
}

// streamInto: replica c is brought up to date by src. decide = false: a Stream
// task is handed to src directly. decide = true: raft on src asks for c to be
// sent a snapshot and the real NodeHost.sendMessage chooses between the recorded
// file and a stream. c installs what arrives and is handed the rest of the log;
// it must then equal the uninterrupted replica.
func (w *world) streamInto(src *replica, c *replica, ov uint64, decide bool) {
	id := c.id
	old := w.cur
	defer func() { w.cur = old }()
	var received []pb.Message
	chunks := hk.NewChunk(func(mb pb.MessageBatch) { received = append(received, mb.Requests...) },
		func(uint64, uint64, uint64) {}, snapRoot, 0, w.fs)
	w.cur = "stream." + src.name
	stream := true
	if decide {
		hasRecord, files, st := src.node.SendInstallSnapshot(id)
		if !hasRecord {
			w.emit("M no-record")
			return
		}
		stream = st
		if len(files) > 0 {
			ss := files[0].Snapshot
			shrunk, err := hk.IsShrunk(ss.Filepath, w.fs)
			if err != nil {
				panic(err)
			}
			w.emit(fmt.Sprintf("M file idx=%d dummy=%v shrunk=%v", ss.Index, ss.Dummy, shrunk))
			if w.p.kind == "disk" {
				w.viol = append(w.viol, fmt.Sprintf("ONDISK-FILE-SENT on-disk replica %s answered the snapshot request for replica %d with the file of its recorded snapshot %d (dummy=%v, shrunk image=%v) instead of streaming its state machine", src.name, id, ss.Index, ss.Dummy, shrunk))
			}
			got, ok := w.deliverFile(ss, src.id, c)
			if !ok {
				panic("the follower's chunk receiver dropped the file")
			}
			received = append(received, pb.Message{Type: pb.InstallSnapshot, Snapshot: got})
			stream = false
		} else if !stream {
			panic("sendMessage neither sent a file nor asked for a stream")
		}
		w.feat["send-decision"] = true
	}
	if stream {
		accepted, err := src.node.RequestStream(id, &streamSink{to: id, chunks: chunks})
		if err != nil {
			panic(err)
		}
		if !accepted {
			w.emit("M refused")
			w.feat["stream-refused"] = true
			return
		}
	}
	if len(received) != 1 || received[0].Type != pb.InstallSnapshot {
		panic(fmt.Sprintf("follower received %d messages", len(received)))
	}
	w.installReceived(src, c, received[0].Snapshot, ov)
}

// installReceived: replica c's chunk receiver delivered the InstallSnapshot message
// carrying ss (sent by src); c's step worker makes the record durable and removes
// the flag file, processSnapshot, recover, then the rest of the log
func (w *world) installReceived(src *replica, c *replica, ss pb.Snapshot, ov uint64) {
	id := c.id
	old := w.cur
	defer func() { w.cur = old }()
	w.emit(fmt.Sprintf("M stream idx=%d term=%d od=%d", ss.Index, ss.Term, ss.OnDiskIndex))
	w.feat["stream"] = true
	if ss.OnDiskIndex > ss.Index {
		w.viol = append(w.viol, fmt.Sprintf("STREAM-DATA-AHEAD replica %s streamed a snapshot with index %d (term %d, membership of that index) whose state machine data is that of index %d", src.name, ss.Index, ss.Term, ss.OnDiskIndex))
	}
	if ss.Index <= c.view().LastIndex {
		w.emit("M nothing-to-install")
		return
	}
	// the follower's step worker: record durable, flag file removed, processSnapshot; then recover
	w.cur = c.name + ".recover"
	if err := c.ldb.SaveRaftState([]pb.Update{{ShardID: 1, ReplicaID: id, Snapshot: ss}}, 0); err != nil {
		panic(err)
	}
	// engine.onSnapshotSaved
	if err := c.node.RemoveSnapshotFlagFile(ss.Index); err != nil {
		panic(err)
	}
	if c.ldb.maxIndex < ss.Index {
		c.ldb.maxIndex = ss.Index
	}
	nrm := len(c.ldb.removals)
	task, ok, err := c.node.ProcessSnapshot(ss, c.view().LastIndex)
	if err != nil || !ok {
		panic(fmt.Sprintf("processSnapshot: %v %v", ok, err))
	}
	got, err := c.node.Recover(task)
	if err != nil {
		panic(err)
	}
	c.printed = c.view().Index
	c.removeLog()
	w.emit(fmt.Sprintf("M installed from=%d %s | %s", got, c.obs(), c.aux()))
	w.newRemovals(c, nrm)
	if c.name == "B" {
		w.feat["received-snapshot-on-B"] = true
	}
	c.lag = false
	from := uint64(1)
	if got+1 > ov {
		from = got + 1 - ov
	}
	if got == 0 {
		from = c.view().Index + 1
	}
	w.catchUp(c, from, 0)
	w.emit(c.name + " " + c.obs())
	if a, b := w.A.obs(), c.obs(); a != b {
		w.viol = append(w.viol, fmt.Sprintf("STREAM-TWINS-DIFFER uninterrupted [%s] replica %s that installed the snapshot of index %d [%s]", a, c.name, ss.Index, b))
	}
}

// recSink collects the chunks of a stream
type recSink struct {
	to     uint64
	chunks []pb.Chunk
}

func (s *recSink) Receive(c pb.Chunk) (bool, bool) {
	if !c.IsPoisonChunk() {
		s.chunks = append(s.chunks, c)
	}
	return true, false
}
func (s *recSink) Close() error        { return nil }
func (s *recSink) ShardID() uint64     { return 1 }
func (s *recSink) ToReplicaID() uint64 { return s.to }

func (w *world) outcome(src *replica, to uint64, accepted, reported bool) {
	if accepted == reported {
		w.viol = append(w.viol, fmt.Sprintf("STREAM-REQUEST-OUTCOME the request to stream a snapshot from replica %s to replica %d had accepted=%v and failure-reported=%v: raft's remote stays in snapshot state until it is told an outcome, every request must have exactly one", src.name, to, accepted, reported))
	}
}

// doubleStream: two followers need a streamed snapshot from B at overlapping times:
// the second Stream task reaches the apply worker while the first is still queued
func (w *world) doubleStream(f []string) {
	ov, pre := u(f[1]), u(f[2])
	w.flush()
	src := w.B
	c1 := w.newFollower(src, pre)
	c2 := w.newFollower(src, 0)
	w.cur = "stream." + src.name
	defer func() { w.cur = "" }()
	run := func(c *replica) {
		var received []pb.Message
		chunks := hk.NewChunk(func(mb pb.MessageBatch) { received = append(received, mb.Requests...) },
			func(uint64, uint64, uint64) {}, snapRoot, 0, w.fs)
		to, err := src.node.RunStream(&streamSink{to: c.id, chunks: chunks})
		if err != nil {
			panic(err)
		}
		if to != c.id || len(received) != 1 {
			panic(fmt.Sprintf("stream job for replica %d delivered %d messages to replica %d", to, len(received), c.id))
		}
		w.installReceived(src, c, received[0].Snapshot, ov)
		w.cur = "stream." + src.name
	}
	a1, r1 := src.node.HandleStreamTask(c1.id)
	w.outcome(src, c1.id, a1, r1)
	if !a1 {
		w.emit("D refused")
		return
	}
	a2, r2 := src.node.HandleStreamTask(c2.id)
	w.outcome(src, c2.id, a2, r2)
	w.emit(fmt.Sprintf("D second accepted=%v reported=%v", a2, r2))
	w.feat["overlapping-stream-requests"] = true
	run(c1)
	if a2 {
		run(c2)
		return
	}
	// raft retries after the failure report
	a2, r2 = src.node.HandleStreamTask(c2.id)
	w.outcome(src, c2.id, a2, r2)
	if !a2 {
		w.emit("D retry refused")
		return
	}
	run(c2)
}

// powerSweep: a follower is sent a snapshot by B (streamed for the on-disk kind, the
// recorded file otherwise) through its real chunk receiver and installs it, on a file
// system that keeps synced and unsynced state apart; the power fails at every mutating
// file system operation from the first chunk to the end of node.recover; each time the
// follower is restarted from what was durable and handed the log: it must come up and
// end equal to the uninterrupted replica
func (w *world) powerSweep(f []string) {
	ov, pre := u(f[1]), u(f[2])
	w.flush()
	src := w.B
	w.cur = "stream." + src.name
	defer func() { w.cur = "" }()
	var chunks []pb.Chunk
	var index uint64
	if w.p.kind == "disk" {
		a, r := src.node.HandleStreamTask(1000)
		w.outcome(src, 1000, a, r)
		if !a {
			w.emit("Z refused")
			return
		}
		sink := &recSink{to: 1000}
		if _, err := src.node.RunStream(sink); err != nil {
			panic(err)
		}
		chunks = sink.chunks
		if len(chunks) == 0 {
			panic("empty stream")
		}
		index = chunks[0].Index
		w.emit(fmt.Sprintf("Z stream idx=%d term=%d od=%d", chunks[0].Index, chunks[0].Term, chunks[0].OnDiskIndex))
	} else {
		ss := src.node.LogReaderSnapshot()
		if pb.IsEmptySnapshot(ss) {
			w.emit("Z no-record")
			return
		}
		var rec pb.Snapshot
		pb.MustUnmarshal(&rec, pb.MustMarshal(&ss))
		var err error
		chunks, err = hk.FileChunks(pb.Message{Type: pb.InstallSnapshot, ShardID: 1, From: src.id, To: 1000, Snapshot: rec}, 0, w.fs)
		if err != nil {
			panic(err)
		}
		index = ss.Index
		w.emit(fmt.Sprintf("Z file idx=%d", index))
	}
	if pre >= index {
		pre = index - 1
	}
	want := w.A.obs()
	total := -1
	for cut := -1; total < 0 || cut < total; cut++ {
		n, msg := w.receiveWithCut(chunks, pre, ov, cut, want)
		if cut < 0 {
			total = n
			w.feat["power-cut-sweep"] = true
		}
		if msg != "" {
			w.viol = append(w.viol, fmt.Sprintf("RECEIVED-SNAPSHOT-NOT-DURABLE snapshot %d sent by replica %s, power failure at file system operation %d of %d between the first chunk and the end of recover: %s", index, src.name, cut, total, msg))
			break
		}
	}
	w.emit("Z done")
}

// receiveWithCut: one follower lifetime. Returns the number of mutating file system
// operations counted and, for a cut run, what went wrong after the restart ("" = fine)
func (w *world) receiveWithCut(chunks []pb.Chunk, pre uint64, ov uint64, cut int, want string) (int, string) {
	mem := hk.NewStrictMemFS()
	pw := &power{mem: mem, cut: -1}
	fs := &powerFS{MemFS: mem, p: pw}
	ldb := &cellLogDB{pw: pw}
	var disk *diskState
	if w.p.kind == "disk" {
		disk = &diskState{}
	}
	const id = 1000
	c := start("C", id, w.p, fs, ldb, disk)
	c.initialRecover(true)
	if pre > 0 {
		c.deliver(w.log[:pre])
	}
	if err := c.sm.Sync(); err != nil {
		panic(err)
	}
	pw.cut, pw.enabled = cut, true
	problem := vh.Catch(func() {
		var received []pb.Message
		rcv := hk.NewChunk(func(mb pb.MessageBatch) { received = append(received, mb.Requests...) },
			func(uint64, uint64, uint64) {}, snapRoot, 0, fs)
		for _, ch := range chunks {
			ch.ReplicaID = id
			if !rcv.Add(ch) {
				panic("chunk refused")
			}
		}
		if len(received) != 1 {
			panic(fmt.Sprintf("receiver delivered %d messages", len(received)))
		}
		ss := received[0].Snapshot
		if err := ldb.SaveRaftState([]pb.Update{{ShardID: 1, ReplicaID: id, Snapshot: ss}}, 0); err != nil {
			panic(err)
		}
		if err := c.node.RemoveSnapshotFlagFile(ss.Index); err != nil {
			panic(err)
		}
		if !pw.dead() && ldb.maxIndex < ss.Index {
			ldb.maxIndex = ss.Index
		}
		task, ok, err := c.node.ProcessSnapshot(ss, c.view().LastIndex)
		if err != nil || !ok {
			panic(fmt.Sprintf("processSnapshot: %v %v", ok, err))
		}
		if _, err := c.node.Recover(task); err != nil {
			panic(err)
		}
		c.removeLog()
	})
	n := pw.count
	if cut < 0 {
		if problem != "" {
			panic("receiving without a power failure: " + problem)
		}
		c.printed = c.view().Index
		c.deliver(w.log[c.view().Index:w.flushed])
		if got := c.obs(); got != want {
			return n, fmt.Sprintf("without any power failure the follower ends [%s], the uninterrupted replica [%s]", got, want)
		}
		return n, ""
	}
	// power failure: volatile state is gone; whatever happened after the cut never reached the disk
	pw.restore()
	msg := vh.Catch(func() {
		nc := start("C", id, w.p, fs, ldb, disk)
		idx := nc.initialRecover(false)
		if idx < ldb.removedTo {
			panic(fmt.Sprintf("recovered from snapshot %d but the log was compacted to %d", idx, ldb.removedTo))
		}
		from := uint64(1)
		if idx+1 > ov {
			from = idx + 1 - ov
		}
		if from <= uint64(w.flushed) {
			nc.deliver(w.log[from-1 : w.flushed])
		}
		if got := nc.obs(); got != want {
			panic(fmt.Sprintf("restarted follower ends [%s], the uninterrupted replica [%s]", got, want))
		}
	})
	return n, msg
}

// relay: B gets its latest snapshot FROM A (received record, file shrunk after the
// install), catches up, and is then the one asked to bring a fresh follower up to
// date; both requests go through the real NodeHost.sendMessage decision
func (w *world) relay(f []string) {
	ov, pre := u(f[1]), u(f[2])
	w.saveA()
	if w.A.view().Index <= w.B.view().LastIndex {
		// raft only sends a snapshot to a replica that is behind
		w.emit("V B-not-behind")
	} else {
		w.streamInto(w.A, w.B, ov, true)
	}
	w.B.lag = false
	w.catchUp(w.B, w.B.view().Index+1, 0)
	w.streamInto(w.B, w.newFollower(w.B, pre), ov, true)
}

// restartAndStream: restart B, then replay one entry at a time with a stream
// request at every replay position in and just after the catch-up window
func (w *world) restartAndStream(f []string) {
	ov, keep, pre := u(f[1]), f[2] == "1", u(f[3])
	w.flush()
	old := w.B
	if old.disk != nil && keep {
		*old.disk = old.usm.(*diskSM).mem
	}
	w.cur = "B.recover"
	nb := start("B", 2, w.p, w.fs, old.ldb, old.disk)
	w.B = nb
	nrm := len(nb.ldb.removals)
	idx := nb.initialRecover(false)
	if idx < nb.ldb.removedTo {
		w.viol = append(w.viol, fmt.Sprintf("GAP-AFTER-RESTART replica B recovered from snapshot %d but its log was compacted up to %d", idx, nb.ldb.removedTo))
	}
	nb.removeLog()
	w.cur = ""
	w.emit(fmt.Sprintf("W from=%d %s | %s", idx, nb.obs(), nb.aux()))
	w.newRemovals(nb, nrm)
	if idx > 0 {
		w.feat["restart-from-snapshot"] = true
	}
	window := nb.view().OnDiskInitIndex + 1
	pos := idx
	for {
		// only a replica that has a membership (a leader always has) is asked to stream
		if pos <= window && len(nb.sm.GetMembership().Addresses) > 0 {
			if pos < window-1 {
				w.feat["stream-request-in-replay-window"] = true
			}
			w.streamTo(nb, ov, pre)
		}
		if pos >= uint64(w.flushed) {
			break
		}
		if pos < window {
			w.deliverTo(nb, w.log[pos:pos+1])
			pos++
		} else {
			w.deliverTo(nb, w.log[pos:w.flushed])
			pos = uint64(w.flushed)
		}
	}
	nb.lag = false
}

func (w *world) save(r *replica, f []string) {
	req := w.request(r, f[1:])
	during := f[5] == "1" && w.p.kind != "reg"
	pend := w.pending()
	w.flushed = len(w.log)
	if len(pend) > 0 {
		w.deliverTo(w.A, pend)
	}
	fired := false
	if len(pend) > 0 && !r.lag {
		if during {
			r.usm.setOnSave(func() {
				fired = true
				w.feat["update-during-save"] = true
				r.deliver(pend)
			})
		} else {
			w.deliverTo(r, pend)
		}
	}
	nrm := len(r.ldb.removals)
	idx, err := r.node.DoSave(req)
	r.usm.setOnSave(nil)
	if err != nil {
		panic(err)
	}
	if during && len(pend) > 0 && !r.lag {
		if !fired {
			r.deliver(pend)
		}
		w.emitResults(r)
	}
	w.afterSave(r, "S", idx, nrm)
}

func (w *world) restartB(f []string) {
	ov, keep, split := u(f[1]), f[2] == "1", u(f[3])
	w.flush()
	old := w.B
	if old.disk != nil && keep {
		*old.disk = old.usm.(*diskSM).mem
	}
	w.cur = "B.recover"
	nb := start("B", 2, w.p, w.fs, old.ldb, old.disk)
	w.B = nb
	nrm := len(nb.ldb.removals)
	idx := nb.initialRecover(false)
	if idx < nb.ldb.removedTo {
		w.viol = append(w.viol, fmt.Sprintf("GAP-AFTER-RESTART replica B recovered from snapshot %d but its log was compacted up to %d", idx, nb.ldb.removedTo))
	}
	nb.removeLog()
	w.cur = ""
	w.emit(fmt.Sprintf("R from=%d %s | %s", idx, nb.obs(), nb.aux()))
	w.newRemovals(nb, nrm)
	if idx > 0 {
		w.feat["restart-from-snapshot"] = true
	}
	from := uint64(1)
	if idx+1 > ov {
		from = idx + 1 - ov
	}
	if from <= idx {
		w.feat["overlap"] = true
	}
	w.catchUp(nb, from, split)
}

// install: A saves, the snapshot file is copied into B's snapshot directory the
// way the chunk receiver leaves it, the record is made durable in B's log store
// (engine: SaveRaftState, flag file removed), then processSnapshot + recover.
// checkRecords: the snapshot record a save returned is kept in memory by the
// LogReader and is what goes into InstallSnapshot messages; whatever the replica
// applies afterwards, it must go on describing the replica at ITS index
func (w *world) checkRecords(r *replica) {
	ss := r.node.LogReaderSnapshot()
	if pb.IsEmptySnapshot(ss) {
		return
	}
	if was, ok := r.saved[ss.Index]; ok {
		if now := recordText(ss); now != was {
			w.viol = append(w.viol, fmt.Sprintf("SNAPSHOT-RECORD-CHANGED the record of replica %s's snapshot %d was [%s] when the save returned and is [%s] after further applies", r.name, ss.Index, was, now))
			delete(r.saved, ss.Index)
		}
	}
}

func (w *world) noteRecord(r *replica, idx uint64) {
	if idx == 0 {
		return
	}
	if ss := r.node.LogReaderSnapshot(); ss.Index == idx {
		if r.saved == nil {
			r.saved = map[uint64]string{}
		}
		r.saved[idx] = recordText(ss)
	}
}

// saveA: the uninterrupted replica saves a snapshot (periodic request)
func (w *world) saveA() uint64 {
	w.flush()
	idx, err := w.A.node.DoSave(hk.SSRequest{})
	if err != nil {
		panic(err)
	}
	w.noteRecord(w.A, idx)
	return idx
}

// install: A saves and B installs the record right away
func (w *world) install(f []string) {
	idx := w.saveA()
	w.installFrom("I", fmt.Sprintf("saved=%d", idx), u(f[1]), u(f[2]))
}

// installFrom: the snapshot record A's LogReader holds in memory (possibly saved
// many entries ago) goes to B in an InstallSnapshot message; the snapshot file is
// copied into B's snapshot directory the way the chunk receiver leaves it, the
// record is made durable in B's log store (engine: SaveRaftState, flag file
// removed), then processSnapshot + recover, then the log after it.
func (w *world) installFrom(tag string, head string, ov uint64, split uint64) {
	w.flush()
	w.checkRecords(w.A)
	ss := w.A.node.LogReaderSnapshot()
	b := w.B
	if pb.IsEmptySnapshot(ss) || ss.Index <= b.view().LastIndex {
		// raft only restores a snapshot that is ahead of what the replica has
		w.emit(fmt.Sprintf("%s %s nothing-to-install", tag, head))
		return
	}
	if ss.Index < uint64(w.flushed) {
		w.feat["install-of-older-record"] = true
	}
	ssb, ok := w.deliverFile(ss, w.A.id, b)
	if !ok {
		// B already has a snapshot directory of that index: the chunk receiver dropped the stream
		pb.MustUnmarshal(&ssb, pb.MustMarshal(&ss))
		env := b.node.SnapshotEnv(ss.Index)
		ssb.Filepath = env.GetFilepath()
	} else if err := b.node.RemoveSnapshotFlagFile(ssb.Index); err != nil {
		panic(err)
	}
	if err := b.ldb.SaveRaftState([]pb.Update{{ShardID: 1, ReplicaID: 2, Snapshot: ssb}}, 0); err != nil {
		panic(err)
	}
	if b.ldb.maxIndex < ssb.Index {
		b.ldb.maxIndex = ssb.Index
	}
	nrm := len(b.ldb.removals)
	w.cur = "B.recover"
	task, ok, err := b.node.ProcessSnapshot(ssb, b.view().LastIndex)
	if err != nil || !ok {
		panic(fmt.Sprintf("processSnapshot: %v %v", ok, err))
	}
	got, err := b.node.Recover(task)
	if err != nil {
		panic(err)
	}
	b.printed = b.view().Index
	b.removeLog()
	w.cur = ""
	w.emit(fmt.Sprintf("%s %s from=%d %s | %s", tag, head, got, b.obs(), b.aux()))
	w.newRemovals(b, nrm)
	if got > 0 {
		w.feat["install"] = true
	}
	b.lag = false
	from := uint64(1)
	if got+1 > ov {
		from = got + 1 - ov
	}
	if got == 0 {
		from = b.view().Index + 1
	}
	w.catchUp(b, from, split)
}

func (w *world) op(o string) {
	f := strings.Fields(o)
	if len(f) == 0 {
		return
	}
	need := map[string]int{"a": 5, "c": 6, "t": 1, "b": 1, "y": 1, "L": 1, "S": 6, "R": 4, "I": 3, "T": 6, "M": 3, "W": 4, "P": 1, "K": 3, "V": 3, "D": 3, "Z": 3, "Q": 5, "N": 5, "O": 1}
	if n, ok := need[f[0]]; !ok || len(f) != n {
		w.emit("? " + f[0])
		return
	}
	switch f[0] {
	case "a":
		idx := uint64(len(w.log) + 1)
		e := pb.Entry{Index: idx, Term: w.term, Type: pb.ApplicationEntry, Key: idx,
			ClientID: u(f[1]), SeriesID: u(f[2]), RespondedTo: u(f[3]), Cmd: vh.UnHex(f[4])}
		w.plain[idx] = e.Cmd
		// request.go: a proposal with a payload travels as an EncodedEntry
		enc := w.p.enc
		if enc == 3 {
			enc = idx % 3
		}
		if len(e.Cmd) > 0 && enc > 0 {
			e.Type = pb.EncodedEntry
			e.Cmd = hk.EncodeEntryCmd(enc == 2, e.Cmd)
			w.feat["encoded-entries"] = true
		}
		w.log = append(w.log, e)
	case "c":
		idx := uint64(len(w.log) + 1)
		t, _ := strconv.ParseInt(f[1], 10, 32)
		cc := pb.ConfigChange{Type: pb.ConfigChangeType(t), ReplicaID: u(f[2]), Address: string(vh.UnHex(f[3])),
			ConfigChangeId: u(f[4]), Initialize: f[5] == "1"}
		w.log = append(w.log, pb.Entry{Index: idx, Term: w.term, Type: pb.ConfigChangeEntry, Key: idx, Cmd: pb.MustMarshal(&cc)})
	case "t":
		w.term++
	case "b":
		w.flush()
	case "y":
		w.flush()
		if err := w.A.sm.Sync(); err != nil {
			panic(err)
		}
		if err := w.B.sm.Sync(); err != nil {
			panic(err)
		}
	case "L":
		w.flush()
		w.B.lag = true
		w.feat["lag"] = true
	case "S":
		w.save(w.B, f)
	case "R":
		w.restartB(f)
	case "I":
		w.install(f)
	case "P":
		w.emit(fmt.Sprintf("P saved=%d", w.saveA()))
	case "K":
		w.installFrom("K", "record", u(f[1]), u(f[2]))
	case "T":
		w.saveInTask(w.B, f)
	case "M":
		w.flush()
		w.streamTo(w.B, u(f[1]), u(f[2]))
	case "Q":
		w.userSnapshot(w.B, f)
	case "N":
		w.saveRacingUpdate(w.B, f)
	case "O":
		w.staleRecover()
	case "D":
		if w.p.kind != "disk" {
			w.emit("D n/a")
			return
		}
		w.doubleStream(f)
	case "Z":
		w.powerSweep(f)
	case "V":
		if w.p.kind != "disk" {
			w.emit("V n/a")
			return
		}
		w.relay(f)
	case "W":
		if w.p.kind != "disk" {
			w.emit("W n/a")
			return
		}
		w.restartAndStream(f)
	}
}

func runCase(line string, st *vh.Stats) []string {
	head, body := line, ""
	if i := strings.Index(line, " |"); i >= 0 {
		head, body = line[:i], strings.TrimPrefix(line[i+2:], " ")
	}
	id, p, err := parseHeader(strings.Fields(head))
	if err != nil {
		return []string{strings.Fields(line)[0] + " BADCASE"}
	}
	w := &world{id: id, p: p, term: 1, aRes: map[uint64]string{}, feat: map[string]bool{}, plain: map[uint64][]byte{}}
	if p.cap == 0 || (p.kind != "reg" && p.kind != "conc" && p.kind != "disk") {
		return []string{id + " BADCASE"}
	}
	w.fs = hk.NewMemFS()
	ops := []string{}
	for _, o := range strings.Split(body, " ; ") {
		if strings.TrimSpace(o) != "" {
			ops = append(ops, strings.TrimSpace(o))
		}
	}
	failed := false
	if msg := vh.Catch(func() {
		w.A = start("A", 1, p, w.fs, &cellLogDB{}, nil)
		w.B = start("B", 2, p, w.fs, &cellLogDB{}, nil)
		w.A.initialRecover(true)
		w.B.initialRecover(true)
	}); msg != "" {
		w.emit("panic at start " + msg)
		return w.lines
	}
	for k, o := range ops {
		w.k = k
		st.Count("op " + strings.Fields(o)[0])
		if msg := vh.Catch(func() { w.op(o) }); msg != "" {
			w.emit("panic")
			if os.Getenv("C08_DEBUG") != "" {
				fmt.Fprintf(os.Stderr, "%s op %d [%s]: %s\n", w.id, k, o, msg)
			}
			st.Count("panic")
			w.feat["panic"] = true
			// a snapshot asked of a replica that has no membership yet is answered with
			// the `empty membership` panic of getSSMeta: inconclusive, not a violation
			if strings.Contains(msg, "empty membership") {
				st.Count("inconclusive: snapshot on a replica without membership")
			} else if strings.HasPrefix(w.cur, "B.") || strings.HasPrefix(w.cur, "C.") {
				// the uninterrupted replica applied the same log without stopping
				w.viol = append(w.viol, fmt.Sprintf("CUT-REPLICA-PANIC during %s at op %d [%s]: %s", w.cur, k, o, msg))
			}
			failed = true
			break
		}
	}
	w.k = len(ops)
	if !failed {
		if msg := vh.Catch(func() {
			w.flush()
			if w.B.lag {
				w.B.lag = false
				w.catchUp(w.B, w.B.view().Index+1, 0)
			}
			w.checkRecords(w.A)
			w.checkRecords(w.B)
			w.emit("A " + w.A.obs())
			w.emit("A.aux " + w.A.aux())
			w.emit("B " + w.B.obs())
			w.emit("B.aux " + w.B.aux())
			// the property's own predicate, on the implementation alone
			if a, b := w.A.obs(), w.B.obs(); a != b {
				w.viol = append(w.viol, fmt.Sprintf("TWINS-DIFFER uninterrupted [%s] cut [%s]", a, b))
			}
		}); msg != "" {
			w.emit("panic")
		}
	}
	for _, v := range w.viol {
		st.Violation(id, v)
	}
	keys := []string{}
	for _, k := range []string{"snapshot", "restart-from-snapshot", "install", "overlap", "compaction", "update-during-save", "lag", "ondisk-init-skip",
		"encoded-entries", "save-inside-task", "install-of-older-record", "send-decision", "received-snapshot-on-B", "overlapping-stream-requests", "power-cut-sweep", "snapshot-through-api", "auto-compaction", "save-racing-update", "stale-recover-task", "stream", "stream-refused", "stream-request-in-replay-window"} {
		if w.feat[k] {
			keys = append(keys, k)
			st.Count("case with " + k)
		}
	}
	st.Count("kind " + p.kind)
	if p.compress {
		st.Count("compressed")
	}
	nontrivial := w.feat["restart-from-snapshot"] || w.feat["install"]
	st.Case(fmt.Sprintf("%s %v %s", p.kind, keys, body), nontrivial, line)
	return w.lines
}

func main() {
	a := vh.ParseArgs()
	quiet()
	switch a.Mode {
	case "gen":
		gen(a)
	case "run":
		st := vh.NewStats("distinct cases in which the cut replica recovered from a snapshot (restart on a fresh state machine, or install on a lagging one) and then applied the rest of the log")
		out := vh.Create(filepath.Join(a.Out, "impl.obs"))
		for _, line := range vh.ReadLines(a.Cases) {
			for _, l := range runCase(line, st) {
				out.Printf("%s\n", l)
			}
		}
		out.Close()
		st.Write(a.Out)
	default:
		fmt.Fprintln(os.Stderr, "unknown mode", a.Mode)
		os.Exit(2)
	}
}
