package main

import (
	"encoding/binary"
	"errors"
	"fmt"
	"io"
	"sort"
	"strings"

	"github.com/lni/dragonboat/v4/config"
	"github.com/lni/dragonboat/v4/logger"
	"github.com/lni/dragonboat/v4/raftio"
	pb "github.com/lni/dragonboat/v4/raftpb"
	sm "github.com/lni/dragonboat/v4/statemachine"
	hk "github.com/lni/dragonboat/v4/verifhooks/c08"

	"verif/harness/vh"
)

func quiet() {
	for _, p := range []string{"rsm", "raftpb", "raft", "dragonboat", "logdb", "transport", "config", "settings", "server", "utils", "tan", "registry", "fileutil", "dio"} {
		logger.GetLogger(p).SetLevel(logger.CRITICAL)
	}
}

// ---------------------------------------------------------------------------
// user state machines: the accumulator of Model/Session.v (acc_update) as a
// regular, a concurrent and an on-disk state machine

func accHash(cmd []byte) uint64 {
	h := uint64(7)
	for _, b := range cmd {
		h = h*257 + uint64(b) + 1
	}
	return h
}

func accStep(acc uint64, cmd []byte) (uint64, sm.Result) {
	acc = acc*31 + accHash(cmd)
	d := cmd
	if len(d) > 2 {
		d = d[:2]
	}
	d = append([]byte(nil), d...)
	// the first command byte selects the shape of the result (acc_update in Model/Session.v,
	// shared with the C05 package)
	if len(cmd) > 0 {
		switch cmd[0] {
		case 0xE0:
			return acc, sm.Result{}
		case 0xE1:
			return acc, sm.Result{Value: 0, Data: []byte{}}
		case 0xE2:
			return acc, sm.Result{Value: acc}
		case 0xE3:
			return acc, sm.Result{Value: 0, Data: d}
		}
	}
	return acc, sm.Result{Value: acc, Data: d}
}

// userSM is what the harness reads from whichever machine is in use.
type userSM interface {
	acc() uint64
	callsOf(index uint64) int
	gotCmds() map[uint64][]byte
	setOnSave(f func())
	race() *racer
}

// racer: a save is started while the apply path is inside the user Update of one
// entry (it holds the state machine lock there) — see world.saveRacingUpdate
type racer struct {
	at         uint64 // entry index whose Update triggers fn (0: off)
	fn         func()
	inUpdate   bool
	prepared   chan struct{}
	prepDuring bool // PrepareSnapshot ran while an Update was in progress
}

func (c *counter) race() *racer { return &c.rc }
func (c *counter) enter()       { c.rc.inUpdate = true }
func (c *counter) leave()       { c.rc.inUpdate = false }
func (c *counter) updated(index uint64) {
	if c.rc.at != 0 && c.rc.at == index && c.rc.fn != nil {
		f := c.rc.fn
		c.rc.fn, c.rc.at = nil, 0
		f()
	}
}
func (c *counter) preparing() {
	if c.rc.inUpdate {
		c.rc.prepDuring = true
	}
	if c.rc.prepared != nil {
		select {
		case c.rc.prepared <- struct{}{}:
		default:
		}
	}
}

type counter struct {
	calls  map[uint64]int
	onSave func()
	// what the state machine was handed: index -> command (copied in batches BEFORE any of them is applied,
	// a state machine may keep the commands of a batch until Update returns)
	got map[uint64][]byte
	rc  racer
}

func (c *counter) note(index uint64, cmd []byte) {
	if c.got == nil {
		c.got = map[uint64][]byte{}
	}
	c.got[index] = append([]byte(nil), cmd...)
}
func (c *counter) gotCmds() map[uint64][]byte { return c.got }

func (c *counter) callsOf(i uint64) int { return c.calls[i] }
func (c *counter) setOnSave(f func())   { c.onSave = f }
func (c *counter) fireOnSave() {
	if c.onSave != nil {
		f := c.onSave
		c.onSave = nil
		f()
	}
}

func put64(w io.Writer, vs ...uint64) error {
	b := make([]byte, 8*len(vs))
	for i, v := range vs {
		binary.LittleEndian.PutUint64(b[8*i:], v)
	}
	_, err := w.Write(b)
	return err
}

func get64(r io.Reader, n int) ([]uint64, error) {
	b := make([]byte, 8*n)
	if _, err := io.ReadFull(r, b); err != nil {
		return nil, err
	}
	out := make([]uint64, n)
	for i := range out {
		out[i] = binary.LittleEndian.Uint64(b[8*i:])
	}
	return out, nil
}

// regular
type regSM struct {
	counter
	a uint64
}

func (s *regSM) acc() uint64 { return s.a }
func (s *regSM) Update(e sm.Entry) (sm.Result, error) {
	s.calls[e.Index]++
	s.note(e.Index, e.Cmd)
	var r sm.Result
	s.a, r = accStep(s.a, e.Cmd)
	return r, nil
}
func (s *regSM) Lookup(interface{}) (interface{}, error) { return s.a, nil }
func (s *regSM) SaveSnapshot(w io.Writer, _ sm.ISnapshotFileCollection, _ <-chan struct{}) error {
	return put64(w, s.a)
}
func (s *regSM) RecoverFromSnapshot(r io.Reader, _ []sm.SnapshotFile, _ <-chan struct{}) error {
	v, err := get64(r, 1)
	if err != nil {
		return err
	}
	s.a = v[0]
	return nil
}
func (s *regSM) Close() error { return nil }

// concurrent: SaveSnapshot writes the state PrepareSnapshot froze; the harness
// can apply further entries from inside SaveSnapshot (the code holds no
// state machine lock there)
type concSM struct {
	counter
	a uint64
}

func (s *concSM) acc() uint64 { return s.a }
func (s *concSM) Update(ents []sm.Entry) ([]sm.Entry, error) {
	s.enter()
	defer s.leave()
	for i := range ents {
		s.note(ents[i].Index, ents[i].Cmd)
	}
	for i := range ents {
		s.calls[ents[i].Index]++
		s.a, ents[i].Result = accStep(s.a, ents[i].Cmd)
		s.updated(ents[i].Index)
	}
	return ents, nil
}
func (s *concSM) Lookup(interface{}) (interface{}, error) { return s.a, nil }
func (s *concSM) PrepareSnapshot() (interface{}, error) {
	s.preparing()
	return s.a, nil
}
func (s *concSM) SaveSnapshot(ctx interface{}, w io.Writer, _ sm.ISnapshotFileCollection, _ <-chan struct{}) error {
	s.fireOnSave()
	return put64(w, ctx.(uint64))
}
func (s *concSM) RecoverFromSnapshot(r io.Reader, _ []sm.SnapshotFile, _ <-chan struct{}) error {
	v, err := get64(r, 1)
	if err != nil {
		return err
	}
	s.a = v[0]
	return nil
}
func (s *concSM) Close() error { return nil }

// on-disk: remembers the index of the last entry it applied; Sync makes the
// in-memory state durable; a crash keeps only the durable part
type diskState struct{ acc, applied uint64 }

type diskSM struct {
	pw *power
	counter
	mem  diskState
	disk *diskState
}

func (s *diskSM) acc() uint64 { return s.mem.acc }
func (s *diskSM) Open(<-chan struct{}) (uint64, error) {
	s.mem = *s.disk
	return s.disk.applied, nil
}
func (s *diskSM) Update(ents []sm.Entry) ([]sm.Entry, error) {
	s.enter()
	defer s.leave()
	for i := range ents {
		s.note(ents[i].Index, ents[i].Cmd)
	}
	for i := range ents {
		s.calls[ents[i].Index]++
		if ents[i].Index <= s.mem.applied {
			panic(fmt.Sprintf("on-disk SM: entry %d delivered again (applied %d)", ents[i].Index, s.mem.applied))
		}
		s.mem.acc, ents[i].Result = accStep(s.mem.acc, ents[i].Cmd)
		s.mem.applied = ents[i].Index
		s.updated(ents[i].Index)
	}
	return ents, nil
}
func (s *diskSM) Lookup(interface{}) (interface{}, error) { return s.mem.acc, nil }
func (s *diskSM) Sync() error {
	if !s.pw.dead() {
		*s.disk = s.mem
	}
	return nil
}
func (s *diskSM) PrepareSnapshot() (interface{}, error) {
	s.preparing()
	return s.mem, nil
}
func (s *diskSM) SaveSnapshot(ctx interface{}, w io.Writer, _ <-chan struct{}) error {
	s.fireOnSave()
	c := ctx.(diskState)
	return put64(w, c.acc, c.applied)
}
func (s *diskSM) RecoverFromSnapshot(r io.Reader, _ <-chan struct{}) error {
	v, err := get64(r, 2)
	if err != nil {
		return err
	}
	// RecoverFromSnapshot need not be durable: the state reaches the disk with the next Sync
	s.mem = diskState{v[0], v[1]}
	return nil
}
func (s *diskSM) Close() error { return nil }

// ---------------------------------------------------------------------------
// rsm.INode: records what the apply path reports per entry

type nodeProxy struct {
	id      uint64
	results map[uint64]string
	stop    chan struct{}
	// onApplied runs after an entry has been applied and reported; the apply
	// path holds no state machine lock at that point (per-entry path only)
	onApplied func(index uint64)
}

func (n *nodeProxy) StepReady()                       {}
func (n *nodeProxy) RestoreRemotes(pb.Snapshot) error { return nil }
func (n *nodeProxy) ApplyUpdate(e pb.Entry, r sm.Result, rejected bool, ignored bool, last bool) {
	var s string
	switch {
	case ignored:
		s = "noop"
	case rejected:
		s = "rej"
	default:
		s = fmt.Sprintf("ok v=%d d=%s", r.Value, vh.Hex(r.Data))
	}
	if old, dup := n.results[e.Index]; dup {
		s = old + " AGAIN " + s
	}
	n.results[e.Index] = s
	if n.onApplied != nil {
		n.onApplied(e.Index)
	}
}
func (n *nodeProxy) ApplyConfigChange(cc pb.ConfigChange, key uint64, rejected bool) error {
	s := "cc 1"
	if rejected {
		s = "cc 0"
	}
	if old, dup := n.results[key]; dup {
		s = old + " AGAIN " + s
	}
	n.results[key] = s
	if n.onApplied != nil {
		n.onApplied(key)
	}
	return nil
}
func (n *nodeProxy) ReplicaID() uint64           { return n.id }
func (n *nodeProxy) ShardID() uint64             { return 1 }
func (n *nodeProxy) ShouldStop() <-chan struct{} { return n.stop }

// ---------------------------------------------------------------------------
// the log store as far as this property needs it: the newest snapshot record,
// the range of stored entries, and a history of the compaction requests

type removal struct {
	to       uint64
	recorded uint64 // newest snapshot record in the store when the request arrived
}

type cellLogDB struct {
	pw        *power // non-nil: writes after a power cut are lost
	ss        pb.Snapshot
	maxIndex  uint64 // highest stored entry index
	removedTo uint64 // entries <= removedTo are gone
	removals  []removal
	// requests to reclaim the space of removed entries (auto compaction): to = index, recorded = removedTo then
	compactions []removal
	entries   map[uint64]pb.Entry
}

func (l *cellLogDB) save(updates []pb.Update) error {
	if l.pw.dead() {
		return nil
	}
	for _, ud := range updates {
		if !pb.IsEmptySnapshot(ud.Snapshot) && ud.Snapshot.Index > l.ss.Index {
			// a log store keeps the serialised record, not the caller's struct
			var cp pb.Snapshot
			pb.MustUnmarshal(&cp, pb.MustMarshal(&ud.Snapshot))
			l.ss = cp
		}
	}
	return nil
}

// recordText is the canonical text of what a snapshot record claims
func recordText(ss pb.Snapshot) string {
	return fmt.Sprintf("idx=%d term=%d od=%d dummy=%v mem=(%s)", ss.Index, ss.Term, ss.OnDiskIndex, ss.Dummy, showMembership(ss.Membership))
}
func (l *cellLogDB) Name() string                                { return "c08-cell" }
func (l *cellLogDB) Close() error                                { return nil }
func (l *cellLogDB) BinaryFormat() uint32                        { return raftio.PlainLogDBBinVersion }
func (l *cellLogDB) ListNodeInfo() ([]raftio.NodeInfo, error)    { return nil, nil }
func (l *cellLogDB) SaveRaftState(u []pb.Update, _ uint64) error { return l.save(u) }
func (l *cellLogDB) SaveSnapshots(u []pb.Update) error           { return l.save(u) }
func (l *cellLogDB) GetSnapshot(uint64, uint64) (pb.Snapshot, error) {
	return l.ss, nil
}
func (l *cellLogDB) SaveBootstrapInfo(uint64, uint64, pb.Bootstrap) error { return nil }
func (l *cellLogDB) GetBootstrapInfo(uint64, uint64) (pb.Bootstrap, error) {
	return pb.Bootstrap{}, raftio.ErrNoBootstrapInfo
}
func (l *cellLogDB) IterateEntries(e []pb.Entry, sz uint64, _ uint64, _ uint64, low uint64, high uint64, maxSize uint64) ([]pb.Entry, uint64, error) {
	for i := low; i < high; i++ {
		ent, ok := l.entries[i]
		if !ok || i <= l.removedTo {
			if len(e) > 0 {
				break
			}
			continue
		}
		e = append(e, ent)
		sz += uint64(ent.SizeUpperLimit())
		if sz > maxSize {
			break
		}
	}
	return e, sz, nil
}

// ReadRaftState answers like internal/logdb's readRaftState/getRange: the first
// stored entry at or above snapshotIndex and the number of entries from there.
func (l *cellLogDB) ReadRaftState(_ uint64, _ uint64, snapshotIndex uint64) (raftio.RaftState, error) {
	if l.maxIndex == 0 {
		return raftio.RaftState{}, raftio.ErrNoSavedLog
	}
	if snapshotIndex == l.maxIndex {
		return raftio.RaftState{FirstIndex: snapshotIndex}, nil
	}
	first := snapshotIndex
	if first < l.removedTo+1 {
		first = l.removedTo + 1
	}
	if first > l.maxIndex {
		return raftio.RaftState{FirstIndex: snapshotIndex}, nil
	}
	return raftio.RaftState{FirstIndex: first, EntryCount: l.maxIndex - first + 1}, nil
}
func (l *cellLogDB) RemoveEntriesTo(_ uint64, _ uint64, index uint64) error {
	if l.pw.dead() {
		return nil
	}
	l.removals = append(l.removals, removal{to: index, recorded: l.ss.Index})
	if index > l.removedTo {
		l.removedTo = index
	}
	return nil
}
func (l *cellLogDB) CompactEntriesTo(_ uint64, _ uint64, index uint64) (<-chan struct{}, error) {
	l.compactions = append(l.compactions, removal{to: index, recorded: l.removedTo})
	ch := make(chan struct{})
	close(ch)
	return ch, nil
}
func (l *cellLogDB) RemoveNodeData(uint64, uint64) error      { return nil }
func (l *cellLogDB) ImportSnapshot(pb.Snapshot, uint64) error { return nil }

// ---------------------------------------------------------------------------
// one replica

type params struct {
	kind     string // reg | conc | disk
	cap      uint64
	ordered  bool
	compress bool
	overhead uint64
	autoc    bool   // config.DisableAutoCompactions = false: removeLog also asks the log store to compact
	enc      uint64 // how application entries with a payload are encoded: 0 plain ApplicationEntry, 1 EncodedEntry v0 uncompressed, 2 EncodedEntry snappy, 3 mixed by index
}

type replica struct {
	name    string
	id      uint64
	p       params
	fs      hk.IFS
	ldb     *cellLogDB
	node    *hk.Node
	sm      *hk.StateMachine
	proxy   *nodeProxy
	usm     userSM
	disk    *diskState
	lag     bool
	dead    string // non-empty: the replica panicked
	// the snapshot records this replica's saves returned (kept in memory by its
	// LogReader): index -> canonical text at the time of the save
	saved map[uint64]string
	printed uint64 // results printed up to this index
}

func snapRoot(shard, rid uint64) string { return fmt.Sprintf("/c08/snapshot-%d-%d", shard, rid) }

// start builds a (re)started replica process over the durable parts: the file
// system, the log store and, for the on-disk kind, the state machine's disk.
func start(name string, id uint64, p params, fs hk.IFS, ldb *cellLogDB, disk *diskState) *replica {
	r := &replica{name: name, id: id, p: p, fs: fs, ldb: ldb, disk: disk}
	if err := hk.MkdirAll(snapRoot(1, id), fs); err != nil {
		panic(err)
	}
	cfg := config.Config{ShardID: 1, ReplicaID: id, CompactionOverhead: p.overhead,
		OrderedConfigChange: p.ordered, DisableAutoCompactions: !p.autoc}
	if p.compress {
		cfg.SnapshotCompressionType = config.Snappy
	}
	r.proxy = &nodeProxy{id: id, results: map[uint64]string{}, stop: make(chan struct{})}
	done := make(chan struct{})
	var msm hk.IManagedStateMachine
	switch p.kind {
	case "reg":
		u := &regSM{counter: counter{calls: map[uint64]int{}}}
		r.usm, msm = u, hk.NewRegularSM(cfg, u, done)
	case "conc":
		u := &concSM{counter: counter{calls: map[uint64]int{}}}
		r.usm, msm = u, hk.NewConcurrentSM(cfg, u, done)
	case "disk":
		if r.disk == nil {
			r.disk = &diskState{}
		}
		u := &diskSM{counter: counter{calls: map[uint64]int{}}, disk: r.disk, pw: ldb.pw}
		r.usm, msm = u, hk.NewOnDiskSM(cfg, u, done)
	default:
		panic("unknown kind " + p.kind)
	}
	hk.SetLRUMaxSessionCount(p.cap)
	r.node = hk.NewNode(cfg, snapRoot, ldb, fs, func(ss hk.ISnapshotter) *hk.StateMachine {
		return hk.NewStateMachine(msm, ss, cfg, r.proxy, fs)
	})
	r.sm = r.node.SM()
	return r
}

func (r *replica) view() hk.View { return hk.ViewOf(r.sm) }

// initialRecover is what the node does when it is started: replayLog, then the
// initial Recover task (which opens an on-disk state machine), then removeLog
// on the next step. Returns the index recovered from (0: no snapshot).
func (r *replica) initialRecover(newNode bool) uint64 {
	// NodeHost.startShard
	if err := r.node.ProcessOrphans(); err != nil {
		panic(err)
	}
	if _, err := r.node.ReplayLog(); err != nil {
		panic(err)
	}
	idx, err := r.node.Recover(hk.Task{Recover: true, Initial: true, NewNode: newNode})
	if err != nil {
		panic(err)
	}
	r.node.InitialRecoverDone(idx)
	r.printed = r.view().Index
	return idx
}

func (r *replica) removeLog() {
	if err := r.node.RemoveLog(); err != nil {
		panic(fmt.Sprintf("removeLog: %v", err))
	}
}

// deliver hands one task to the apply path. Entries that were not in the
// replica's log yet are first made durable (log store range + LogReader), as
// the step worker does before committed entries reach the apply queue.
func (r *replica) deliver(ents []pb.Entry) {
	if len(ents) == 0 {
		return
	}
	var fresh []pb.Entry
	for _, e := range ents {
		if e.Index > r.ldb.maxIndex {
			fresh = append(fresh, e)
		}
	}
	if len(fresh) > 0 {
		if err := r.node.AppendLog(fresh); err != nil {
			panic(err)
		}
		r.ldb.maxIndex = fresh[len(fresh)-1].Index
		if r.ldb.entries == nil {
			r.ldb.entries = map[uint64]pb.Entry{}
		}
		for _, e := range fresh {
			r.ldb.entries[e.Index] = e
		}
	}
	cp := make([]pb.Entry, len(ents))
	copy(cp, ents)
	r.sm.TaskQ().Add(hk.Task{Entries: cp})
	if _, err := r.sm.Handle(make([]hk.Task, 0, 4), make([]sm.Entry, 0, 4)); err != nil {
		panic(err)
	}
}

// results of the entries applied since the last call, one line each
func (r *replica) newResults(emit func(string)) {
	applied := r.view().Index
	for i := r.printed + 1; i <= applied; i++ {
		res, ok := r.proxy.results[i]
		if !ok {
			res = "none"
		}
		emit(fmt.Sprintf("%s.r %d %s upd=%d", r.name, i, res, r.usm.callsOf(i)))
	}
	if applied > r.printed {
		r.printed = applied
	}
}

// ---------------------------------------------------------------------------
// canonical text of a replica's state

func showAddrMap(m map[uint64]string) string {
	ks := make([]uint64, 0, len(m))
	for k := range m {
		ks = append(ks, k)
	}
	sort.Slice(ks, func(i, j int) bool { return ks[i] < ks[j] })
	parts := make([]string, 0, len(ks))
	for _, k := range ks {
		parts = append(parts, fmt.Sprintf("%d=%s", k, vh.Hex([]byte(m[k]))))
	}
	return "{" + strings.Join(parts, ",") + "}"
}

func showMembership(m pb.Membership) string {
	rm := make([]uint64, 0)
	for k, v := range m.Removed {
		if v {
			rm = append(rm, k)
		}
	}
	sort.Slice(rm, func(i, j int) bool { return rm[i] < rm[j] })
	rs := make([]string, 0)
	for _, k := range rm {
		rs = append(rs, fmt.Sprint(k))
	}
	return fmt.Sprintf("ccid=%d a=%s r={%s} n=%s w=%s", m.ConfigChangeId, showAddrMap(m.Addresses),
		strings.Join(rs, ","), showAddrMap(m.NonVotings), showAddrMap(m.Witnesses))
}

func showSessions(cap uint64, l []hk.SessionView) string {
	parts := []string{fmt.Sprintf("cap=%d", cap)}
	for _, s := range l {
		ks := make([]uint64, 0)
		for k := range s.History {
			ks = append(ks, k)
		}
		sort.Slice(ks, func(i, j int) bool { return ks[i] < ks[j] })
		hs := make([]string, 0)
		for _, k := range ks {
			hs = append(hs, fmt.Sprintf("%d=%d/%s", k, s.History[k].Value, vh.Hex(s.History[k].Data)))
		}
		parts = append(parts, fmt.Sprintf("[%d:%d:%s]", s.ClientID, s.RespondedUpTo, strings.Join(hs, ",")))
	}
	return strings.Join(parts, " ")
}

// the five components of the property
func (r *replica) obs() string {
	v := r.view()
	return fmt.Sprintf("sm=%d idx=%d term=%d mem=(%s) sess=(%s)", r.usm.acc(), v.Index, v.Term,
		showMembership(r.sm.GetMembership()), showSessions(v.SessionCap, v.Sessions))
}

// the bookkeeping around them
func (r *replica) aux() string {
	v := r.view()
	return fmt.Sprintf("last=%d/%d odinit=%d od=%d ssidx=%d", v.LastIndex, v.LastTerm, v.OnDiskInitIndex, v.OnDiskIndex, v.SnapshotIndex)
}

var errSkip = errors.New("skip")

// streamSink stands for the snapshot connection to a follower: the chunks the
// real chunk writer produces go to the follower's real chunk receiver.
type streamSink struct {
	to     uint64
	chunks *hk.Chunk
}

func (s *streamSink) Receive(c pb.Chunk) (bool, bool) {
	if c.IsPoisonChunk() {
		return true, false
	}
	return s.chunks.Add(c), false
}
func (s *streamSink) Close() error        { return nil }
func (s *streamSink) ShardID() uint64     { return 1 }
func (s *streamSink) ToReplicaID() uint64 { return s.to }

// batched tells whether StateMachine.handle sends these entries through
// handleBatch (one critical section, reports made under the lock)
func batched(kind string, ents []pb.Entry) bool {
	if kind == "reg" {
		return false
	}
	for i := range ents {
		if !ents[i].IsUpdateEntry() || !ents[i].IsNoOPSession() {
			return false
		}
	}
	return true
}
