package main

import "verif/harness/vh"

// placeholder, replaced by the black-box crash search
func genCrashCases(r *vh.Rand, tier string, n int) []string { return nil }

func runCrashLines(lines []string, tier string, obs *vh.LineWriter, st *vh.Stats) {}
