package main

// The black-box crash search (case family "crash"): a property monitor, no
// model. The real sharded Pebble LogDB (plain and batched entry format) and
// Tan (regular and log multiplexed) run a small workload over the strict
// in-memory file system of github.com/lni/vfs behind powerFS (crashfs.go). The
// power is cut when a chosen file-system operation is about to execute; the
// store is closed, everything that was not fsynced is discarded, the store is
// reopened and read back completely. What is readable must be, per replica,
// the reference log after the acknowledged operations or after the
// acknowledged operations plus the interrupted one.
//
// Case line:
//
//	<id> crash <kind> <mlfs> <k> | op ; op ; ...
//
// kind: plain | batched | tan | tanmux; mlfs: MaxLogFileSize of the tan kinds
// (0 = default); k: the 0-based index of the counted FS operation at which the
// power goes off (a k behind the workload cuts the power right after the last
// operation), `all` = every crash point 0..N of the workload (N measured by a
// fault-free run first) or `none` = fault-free run, clean close, reopen,
// compare. The operations use the syntax of ops.go; queries and operations
// that are outside the contract in the current reference state are skipped, so
// every sub-sequence of a case is a case.

import (
	"bytes"
	"encoding/binary"
	"errors"
	"fmt"
	"io"
	"os"
	"sort"
	"strconv"
	"strings"
	"sync"
	"time"

	"github.com/lni/dragonboat/v4/raftio"
	pb "github.com/lni/dragonboat/v4/raftpb"
	hooks "github.com/lni/dragonboat/v4/verifhooks/c10"
	gvfs "github.com/lni/vfs"
	"verif/harness/vh"
)

const (
	crashDir     = "/c10"
	crashWorkers = 12
	crashRunMax  = 120 * time.Second // watchdog of one run
)

// C10_CRASH_DEBUG=1: every run prints its FS operation trace and the disk image
// after the crash to stderr (use with a single case).
var crashDebug = os.Getenv("C10_CRASH_DEBUG") != ""

var crashKinds = []string{"plain", "batched", "tan", "tanmux"}

func isTanKind(kind string) bool { return kind == "tan" || kind == "tanmux" }

// ---------------------------------------------------------------------------
// case lines

type crashCase struct {
	id   string
	kind string
	mlfs int64
	k    string // number | all | none
	ops  []op
	line string
	key  string // the case text without the id
}

func parseCrashCase(line string) (crashCase, bool) {
	head, body, ok := strings.Cut(line, " | ")
	if !ok {
		head, body = strings.TrimSuffix(strings.TrimSpace(line), " |"), ""
	}
	hf := strings.Fields(head)
	if len(hf) != 5 || hf[1] != "crash" {
		return crashCase{}, false
	}
	c := crashCase{id: hf[0], kind: hf[2], k: hf[4], line: line}
	c.key = strings.TrimSpace(strings.TrimPrefix(line, hf[0]))
	known := false
	for _, k := range crashKinds {
		known = known || k == c.kind
	}
	if !known {
		return crashCase{}, false
	}
	m, err := strconv.ParseInt(hf[3], 10, 64)
	if err != nil || m < 0 {
		return crashCase{}, false
	}
	c.mlfs = m
	if c.k != "all" && c.k != "none" {
		if v, err := strconv.ParseUint(c.k, 10, 31); err != nil || v > 1<<30 {
			return crashCase{}, false
		}
	}
	for _, t := range strings.Split(body, " ; ") {
		if strings.TrimSpace(t) == "" {
			continue
		}
		c.ops = append(c.ops, parseOp(t))
	}
	return c, true
}

func crashLine(id, kind string, mlfs int64, k string, ops []op) string {
	var s []string
	for _, o := range ops {
		s = append(s, o.String())
	}
	return fmt.Sprintf("%s crash %s %d %s | %s", id, kind, mlfs, k, strings.Join(s, " ; "))
}

// ---------------------------------------------------------------------------
// driving one real store through raftio.ILogDB (after cmd/c09/store.go)

type cstore struct {
	kind string
	mlfs int64
	fs   *powerFS
	db   raftio.ILogDB
}

type noFault struct{}

func (noFault) MaybeError(gvfs.Op) error { return nil }

// open returns "" or what went wrong (an error or a panic).
func (s *cstore) open() (what string) {
	var err error
	p := vh.Catch(func() {
		// newDefaultKVStore accepts the OS file system, *vfs.MemFS and *vfs.ErrorFS
		// only: powerFS goes in dressed as an ErrorFS that never injects an error
		fs := hooks.FS(gvfs.Wrap(s.fs, noFault{}))
		switch s.kind {
		case "plain":
			s.db, err = hooks.OpenPebble(fs, crashDir, 2, false)
		case "batched":
			s.db, err = hooks.OpenPebble(fs, crashDir, 2, true)
		case "tan":
			s.db, err = hooks.OpenTan(fs, crashDir, false)
		case "tanmux":
			s.db, err = hooks.OpenTan(fs, crashDir, true)
		default:
			err = fmt.Errorf("unknown store kind %s", s.kind)
		}
		if err != nil {
			s.db = nil
			return
		}
		if isTanKind(s.kind) {
			for _, id := range nodeIDs {
				if err = hooks.TanPreopen(s.db, id.Shard, id.Replica, s.mlfs); err != nil {
					return
				}
			}
		}
	})
	if p != "" {
		return "panic: " + p
	}
	if err != nil {
		return "error: " + err.Error()
	}
	return ""
}

func (s *cstore) close() (what string) {
	if s.db == nil {
		return ""
	}
	db := s.db
	s.db = nil
	var err error
	if p := vh.Catch(func() { err = db.Close() }); p != "" {
		return "panic: " + p
	}
	if err != nil {
		return "error: " + err.Error()
	}
	return ""
}

func (s *cstore) reopen() error {
	if w := s.close(); w != "" {
		return errors.New("close: " + w)
	}
	if w := s.open(); w != "" {
		return errors.New("open: " + w)
	}
	return nil
}

func crashCmd(tag uint64, n uint64) []byte {
	b := make([]byte, n)
	binary.BigEndian.PutUint64(b, tag)
	for i := 8; i < len(b); i++ {
		b[i] = byte(tag) + byte(i)
	}
	return b
}

func crashSnapshot(n int, ss snap) pb.Snapshot {
	return pb.Snapshot{Index: ss.Index, Term: ss.Term, FileSize: ss.Tag, ShardID: nodeIDs[n].Shard,
		Type: pb.RegularStateMachine, Filepath: fmt.Sprintf("snapshot-%d-%d", ss.Index, ss.Tag)}
}

func crashUpdate(u update) pb.Update {
	id := nodeIDs[u.N]
	r := pb.Update{ShardID: id.Shard, ReplicaID: id.Replica,
		State: pb.State{Term: u.St.Term, Vote: u.St.Vote, Commit: u.St.Commit}}
	if u.Ss.Index > 0 {
		r.Snapshot = crashSnapshot(u.N, u.Ss)
	}
	for _, e := range u.Ents {
		r.EntriesToSave = append(r.EntriesToSave,
			pb.Entry{Index: e.Index, Term: e.Term, Key: e.Tag, Cmd: crashCmd(e.Tag, e.Len)})
	}
	return r
}

// exec runs a mutating operation; the result is "ok", "err" or "panic".
func (s *cstore) exec(o op) (res string, detail string) {
	var err error
	p := vh.Catch(func() {
		if s.db == nil {
			err = errors.New("store is not open")
			return
		}
		switch o.Kind {
		case "SAVE":
			var uds []pb.Update
			for _, u := range o.Ups {
				uds = append(uds, crashUpdate(u))
			}
			// worker id = the engine's step worker of the first shard (1-based)
			err = s.db.SaveRaftState(uds, nodeIDs[o.Ups[0].N].Shard%16+1)
		case "SNAP":
			id := nodeIDs[o.N]
			err = s.db.SaveSnapshots([]pb.Update{{ShardID: id.Shard, ReplicaID: id.Replica, Snapshot: crashSnapshot(o.N, o.Ss)}})
		case "REMTO":
			id := nodeIDs[o.N]
			err = s.db.RemoveEntriesTo(id.Shard, id.Replica, o.A)
			if err == nil {
				var ch <-chan struct{}
				ch, err = s.db.CompactEntriesTo(id.Shard, id.Replica, o.A)
				if err == nil && ch != nil {
					// a dead store must not hang the harness
					wait := 20 * time.Second
					if s.fs.isOff() {
						wait = 2 * time.Second
					}
					select {
					case <-ch:
					case <-time.After(wait):
						if !s.fs.isOff() {
							err = errors.New("compaction did not finish within 20s")
						}
					}
				}
			}
		case "REMNODE":
			id := nodeIDs[o.N]
			err = s.db.RemoveNodeData(id.Shard, id.Replica)
		case "IMPORT":
			if err = s.reopen(); err != nil {
				return
			}
			id := nodeIDs[o.N]
			if err = s.db.ImportSnapshot(crashSnapshot(o.N, o.Ss), id.Replica); err != nil {
				return
			}
			err = s.reopen()
		case "REOPEN":
			err = s.reopen()
		default:
			err = errors.New("not a mutating operation")
		}
	})
	if p != "" {
		return "panic", p
	}
	if err != nil {
		return "err", err.Error()
	}
	return "ok", ""
}

func crashReadEnt(e pb.Entry) (ent, bool) {
	r := ent{Index: e.Index, Term: e.Term, Len: uint64(len(e.Cmd))}
	if len(e.Cmd) < 8 {
		return r, false
	}
	r.Tag = binary.BigEndian.Uint64(e.Cmd)
	want := crashCmd(r.Tag, r.Len)
	ok := e.Key == r.Tag
	for i := range want {
		if want[i] != e.Cmd[i] {
			ok = false
			break
		}
	}
	return r, ok
}

// query returns the canonical observation of a query operation (ReadRaftState
// normalised the way LogReader.SetRange consumes it, see cmd/c09/store.go).
func (s *cstore) query(o op) string {
	id := nodeIDs[o.N]
	if s.db == nil {
		return "closed"
	}
	switch o.Kind {
	case "Q":
		var es []pb.Entry
		var size uint64
		var err error
		p := vh.Catch(func() {
			es, size, err = s.db.IterateEntries(nil, 0, id.Shard, id.Replica, o.A, o.B, o.C)
		})
		if p != "" {
			return "panic(" + p + ")"
		}
		if err != nil {
			return "err(" + err.Error() + ")"
		}
		var out []ent
		bad := ""
		for _, e := range es {
			r, ok := crashReadEnt(e)
			if !ok {
				bad = " corrupt-payload"
			}
			out = append(out, r)
		}
		return fmt.Sprintf("%s %d%s", showEnts(out), size, bad)
	case "RRS":
		var rs raftio.RaftState
		var err error
		p := vh.Catch(func() { rs, err = s.db.ReadRaftState(id.Shard, id.Replica, o.A) })
		if p != "" {
			return "panic(" + p + ")"
		}
		if errors.Is(err, raftio.ErrNoSavedLog) {
			return "nostate"
		}
		if err != nil {
			return "err(" + err.Error() + ")"
		}
		st := fmt.Sprintf("st=%d,%d,%d", rs.State.Term, rs.State.Vote, rs.State.Commit)
		first, count := rs.FirstIndex, rs.EntryCount
		if count > 0 && first < o.A+1 {
			cut := o.A + 1 - first
			if cut >= count {
				count = 0
			} else {
				first, count = o.A+1, count-cut
			}
		}
		if count == 0 {
			return st + " count=0"
		}
		return fmt.Sprintf("%s first=%d count=%d", st, first, count)
	case "GS":
		var ss pb.Snapshot
		var err error
		p := vh.Catch(func() { ss, err = s.db.GetSnapshot(id.Shard, id.Replica) })
		if p != "" {
			return "panic(" + p + ")"
		}
		if err != nil {
			return "err(" + err.Error() + ")"
		}
		if pb.IsEmptySnapshot(ss) {
			return "none"
		}
		r := fmt.Sprintf("%d %d %d", ss.Index, ss.Term, ss.FileSize)
		if ss.Filepath != fmt.Sprintf("snapshot-%d-%d", ss.Index, ss.FileSize) || ss.ShardID != id.Shard {
			r += " corrupt-record"
		}
		return r
	}
	return "?"
}

// ---------------------------------------------------------------------------
// what tan promises about the hard state: a SaveRaftState is fsynced only when
// it carries entries or a snapshot or changes Term/Vote (db.write in
// internal/tan/db.go); an acknowledged update that only moves Commit may be
// lost. hsHist keeps, per replica, the hard states written since (and
// including) the last save of that replica that had to be fsynced.

type hsHist [numNodes][]string

func stString(st *hstate) string {
	if st == nil {
		return "nostate"
	}
	return fmt.Sprintf("st=%d,%d,%d", st.Term, st.Vote, st.Commit)
}

// apply accounts for o, before is the reference state o is applied to.
func (h *hsHist) apply(before *ref, o op) {
	after := *before
	after.apply(o)
	set := func(n int) { h[n] = []string{stString(after.nodes[n].st)} }
	switch o.Kind {
	case "SAVE":
		for _, u := range o.Ups {
			prev := hstate{}
			if p := before.nodes[u.N].st; p != nil {
				prev = *p
			}
			switch {
			case u.Ss.Index > 0 || len(u.Ents) > 0:
				set(u.N)
			case u.St.empty():
			case u.St.Term != prev.Term || u.St.Vote != prev.Vote || before.nodes[u.N].st == nil:
				set(u.N)
			default:
				h[u.N] = append(append([]string{}, h[u.N]...), stString(after.nodes[u.N].st))
			}
		}
	case "SNAP", "REMTO", "REMNODE", "IMPORT":
		set(o.N)
	}
}

func newHsHist() hsHist {
	var h hsHist
	for n := range h {
		h[n] = []string{"nostate"}
	}
	return h
}

// ---------------------------------------------------------------------------
// read everything back and compare with a candidate reference state

type nodeObs struct{ gs, rrs, q string }

func (o nodeObs) String() string { return fmt.Sprintf("GS=%s RRS=%s Q=%s", o.gs, o.rrs, o.q) }

func fullRange(n int, cand *ref) (rrs op, q op) {
	nd := &cand.nodes[n]
	return op{Kind: "RRS", N: n, A: nd.marker},
		op{Kind: "Q", N: n, A: nd.marker + 1, B: nd.last() + 1, C: 1 << 62}
}

// observe reads node n back with the arguments that belong to the candidate.
// With want set, ReadRaftState is only asked when the snapshot record and the
// entries already agree with the candidate: its argument is the candidate's
// marker, for a store that is in the other candidate's state the call can be
// outside the contract (the plain format then panics by design).
func (s *cstore) observe(n int, cand *ref, want *nodeObs) nodeObs {
	rrs, q := fullRange(n, cand)
	o := nodeObs{gs: s.query(op{Kind: "GS", N: n}), q: s.query(q), rrs: "(not asked)"}
	if want == nil || (o.gs == want.gs && o.q == want.q) {
		o.rrs = s.query(rrs)
	}
	return o
}

func expected(n int, cand *ref) nodeObs {
	rrs, q := fullRange(n, cand)
	return nodeObs{gs: cand.query(op{Kind: "GS", N: n}), rrs: cand.query(rrs), q: cand.query(q)}
}

func splitRRS(s string) (st string, rest string) {
	st, rest, _ = strings.Cut(s, " ")
	if rest == "" {
		rest = "count=0"
	}
	return st, rest
}

// sameObs: allowed == nil is the exact comparison; otherwise the hard state may
// be any member of allowed (tan).
func sameObs(got, want nodeObs, allowed []string) bool {
	if got.gs != want.gs || got.q != want.q {
		return false
	}
	if got.rrs == want.rrs {
		return true
	}
	if allowed == nil {
		return false
	}
	gst, grest := splitRRS(got.rrs)
	_, wrest := splitRRS(want.rrs)
	if grest != wrest {
		return false
	}
	for _, a := range allowed {
		if a == gst {
			return true
		}
	}
	return false
}

// selfConsistent checks through the read back itself that the log is gap-free
// and ends at its recorded end: the entries announced by ReadRaftState(marker)
// are all there, contiguous.
func (s *cstore) selfConsistent(n int, marker uint64) string {
	if s.db == nil {
		return ""
	}
	id := nodeIDs[n]
	var rs raftio.RaftState
	var err error
	if p := vh.Catch(func() { rs, err = s.db.ReadRaftState(id.Shard, id.Replica, marker) }); p != "" {
		return "ReadRaftState panics: " + p
	}
	if err != nil || rs.EntryCount == 0 {
		return ""
	}
	first, count := rs.FirstIndex, rs.EntryCount
	if first < marker+1 {
		cut := marker + 1 - first
		if cut >= count {
			return ""
		}
		first, count = marker+1, count-cut
	}
	var es []pb.Entry
	if p := vh.Catch(func() {
		es, _, err = s.db.IterateEntries(nil, 0, id.Shard, id.Replica, first, first+count, 1<<62)
	}); p != "" {
		return fmt.Sprintf("IterateEntries [%d,%d) panics: %s", first, first+count, p)
	}
	if err != nil {
		return fmt.Sprintf("IterateEntries [%d,%d) fails: %v", first, first+count, err)
	}
	if uint64(len(es)) != count {
		return fmt.Sprintf("ReadRaftState(%d) announces first=%d count=%d but IterateEntries returns %d entries", marker, first, count, len(es))
	}
	for i, e := range es {
		if e.Index != first+uint64(i) {
			return fmt.Sprintf("gap in the recovered log: position %d of [%d,%d) holds index %d", i, first, first+count, e.Index)
		}
	}
	return ""
}

// ---------------------------------------------------------------------------
// one run

type crashRun struct {
	viol        string // "" = the monitor found nothing
	total       int    // counted FS operations when the workload ended / was stopped
	openEnd     int    // counted FS operations of opening the store
	spans       []span // executed workload operations and their FS operation ranges
	trace       []string
	inflight    string // "open", an operation kind, "after" (cut after the workload) or "" (no cut)
	sideA       bool   // some replica recovered to the acknowledged state only
	sideB       bool   // some replica recovered with the interrupted operation visible
	importEmpty bool   // tan ImportSnapshot interrupted between the removal and the new record
	known       string // the violation is exactly the signature of this known finding
	dropped     int    // unsynced bytes a log file lost in the power cut (runCrashTorn)
	tornFiles   int
	leaked      int
	timing      time.Duration
}

type span struct {
	kind       string
	start, end int
}

func newCrashRef() *ref { return &ref{nonCmd: uint64((&pb.Entry{}).SizeUpperLimit())} }

func newCrashMem() *gvfs.MemFS {
	mem := gvfs.NewStrictMem()
	// the data directory of the NodeHost exists (and is durable) before a log store is created
	if err := mem.MkdirAll(crashDir, 0755); err != nil {
		panic(err)
	}
	d, err := mem.OpenDir("/")
	if err != nil {
		panic(err)
	}
	_ = d.Sync()
	_ = d.Close()
	return mem
}

// runCrash runs the workload with the power cut at FS operation cut (cut < 0:
// no cut at all, clean close and reopen).
func runCrash(kind string, mlfs int64, ops []op, cut int, record bool) (res crashRun) {
	return runCrashTorn(kind, mlfs, ops, cut, record, -1)
}

// runCrashTorn: as runCrash; with torn >= 0 the log files (*.log) that lost
// unsynced bytes in the power cut get the first torn of those bytes back before
// the store is reopened (a torn tail: the disk had written part of the data when
// the power went off); res.dropped reports how many bytes were lost at most.
func runCrashTorn(kind string, mlfs int64, ops []op, cut int, record bool, torn int) (res crashRun) {
	done := make(chan crashRun, 1)
	go func() {
		var r crashRun
		if p := vh.Catch(func() { r = runCrash1(kind, mlfs, ops, cut, record, torn) }); p != "" {
			r.viol = "harness panic: " + p
		}
		done <- r
	}()
	select {
	case r := <-done:
		return r
	case <-time.After(crashRunMax):
		return crashRun{viol: fmt.Sprintf("run hangs (no result within %v)", crashRunMax)}
	}
}

func runCrash1(kind string, mlfs int64, ops []op, cut int, record bool, torn int) (res crashRun) {
	t0 := time.Now()
	defer func() { res.timing = time.Since(t0) }()
	mem := newCrashMem()
	fs := newPowerFS(mem, cut, record || crashDebug)
	s := &cstore{kind: kind, mlfs: mlfs, fs: fs}
	acked := newCrashRef()
	hist := newHsHist()
	ghosts := removalGhosts{}
	var inflightOp *op

	what := s.open()
	res.openEnd = fs.counted()
	switch {
	case fs.isOff():
		res.inflight = "open"
	case what != "":
		_ = s.close()
		fs.kill()
		res.viol = "cannot create the store (no fault injected): " + what
		return res
	}
	if res.inflight == "" {
		for i := range ops {
			o := ops[i]
			if o.bad || o.Kind == "Q" || o.Kind == "RRS" || o.Kind == "GS" || !acked.wf(o) {
				continue
			}
			start := fs.counted()
			r, detail := s.exec(o)
			res.spans = append(res.spans, span{o.Kind, start, fs.counted()})
			if fs.isOff() {
				// the power went off while the operation was running: whatever it
				// returned, it is the interrupted one
				res.inflight = o.Kind
				inflightOp = &o
				break
			}
			if r != "ok" {
				_ = s.close()
				fs.kill()
				res.viol = fmt.Sprintf("op failed without fault: %s -> %s %s", o.String(), r, detail)
				return res
			}
			ghosts.account(acked, o)
			hist.apply(acked, o)
			acked.apply(o)
		}
	}
	if res.inflight == "" && isTanKind(kind) && hasRemoval(ops) {
		// tan deletes obsolete log / index files in a background worker after the
		// operation has returned (compaction.go deleteObsoleteFiles, version_set.go):
		// the store idles until the FS is quiet so that these operations are crash
		// points too
		last := fs.counted()
		for i := 0; i < 40 && !fs.isOff(); i++ {
			time.Sleep(4 * time.Millisecond)
			c := fs.counted()
			if c == last && i >= 2 {
				break
			}
			last = c
		}
		if fs.isOff() {
			res.inflight = "background"
		}
	}
	if res.inflight == "" && cut >= 0 {
		// the crash point lies behind the workload: the power goes off now
		fs.powerOff()
		res.inflight = "after"
	}
	res.total = fs.counted()
	if record {
		res.trace = fs.trace
	}

	// the two candidates
	candA, histA := *acked, hist
	candB, histB := *acked, hist
	if inflightOp != nil {
		histB.apply(&candA, *inflightOp)
		candB.apply(*inflightOp)
	}

	// the process dies, the disk keeps what was fsynced
	cw := s.close()
	res.leaked = fs.kill()
	if cut >= 0 {
		var before map[string][]byte
		if torn >= 0 {
			before = readLogFiles(mem, crashDir)
		}
		mem.ResetToSyncedState()
		mem.SetIgnoreSyncs(false)
		for name, full := range before {
			cur, ok := readWholeFile(mem, name)
			if !ok || len(full) <= len(cur) || !bytes.HasPrefix(full, cur) {
				continue
			}
			if d := len(full) - len(cur); d > res.dropped {
				res.dropped = d
			}
			if torn > 0 {
				p := torn
				if p > len(full)-len(cur) {
					p = len(full) - len(cur)
				}
				writeWholeFile(mem, name, full[:len(cur)+p])
				res.tornFiles++
			}
		}
	} else if cw != "" {
		res.viol = "close failed without fault: " + cw
		return res
	}
	if crashDebug {
		fmt.Fprintf(os.Stderr, "== %s mlfs=%d cut=%d inflight=%s total=%d openEnd=%d close=%q leaked=%d\n", kind, mlfs, cut, res.inflight, res.total, res.openEnd, cw, res.leaked)
		for _, sp := range res.spans {
			fmt.Fprintf(os.Stderr, "   op %s: fs ops [%d,%d)\n", sp.kind, sp.start, sp.end)
		}
		for i, t := range fs.trace {
			fmt.Fprintf(os.Stderr, "   %4d %s\n", i, t)
		}
		fmt.Fprintf(os.Stderr, "== disk after the crash:\n%s\n", mem.String())
	}
	fs2 := newPowerFS(mem, -1, false)
	s.fs = fs2
	defer func() {
		_ = s.close()
		fs2.kill()
	}()
	if w := s.open(); w != "" {
		if cut >= 0 {
			res.viol = fmt.Sprintf("cannot reopen after crash at op %d: %s", cut, w)
		} else {
			res.viol = "cannot reopen after a clean close: " + w
		}
		return res
	}

	// compare
	tolerant := isTanKind(kind) && cut >= 0
	allowed := func(h *hsHist, n int) []string {
		if !tolerant {
			return nil
		}
		return h[n]
	}
	var matchA, matchB [numNodes]bool
	var gotA, gotB [numNodes]nodeObs
	allA, allB := true, true
	for n := 0; n < numNodes; n++ {
		wantA := expected(n, &candA)
		gotA[n] = s.observe(n, &candA, &wantA)
		matchA[n] = sameObs(gotA[n], wantA, allowed(&histA, n))
		if inflightOp != nil {
			wantB := expected(n, &candB)
			gotB[n] = s.observe(n, &candB, &wantB)
			matchB[n] = sameObs(gotB[n], wantB, allowed(&histB, n))
		} else {
			gotB[n], matchB[n] = gotA[n], matchA[n]
		}
		allA = allA && matchA[n]
		allB = allB && matchB[n]
	}
	describe := func(n int) string {
		gotA[n] = s.observe(n, &candA, nil)
		if inflightOp != nil {
			gotB[n] = s.observe(n, &candB, nil)
		} else {
			gotB[n] = gotA[n]
		}
		msg := fmt.Sprintf("node %d (shard %d replica %d): read back [%s]; after the acknowledged operations it would be [%s]",
			n, nodeIDs[n].Shard, nodeIDs[n].Replica, gotA[n], expected(n, &candA))
		if tolerant {
			msg += fmt.Sprintf(" hard state in %v", histA[n])
		}
		if inflightOp != nil {
			msg += fmt.Sprintf("; read back for the other candidate [%s]; with the interrupted %s visible it would be [%s]",
				gotB[n], inflightOp.Kind, expected(n, &candB))
			if tolerant {
				msg += fmt.Sprintf(" hard state in %v", histB[n])
			}
		}
		return msg
	}
	// tan's ImportSnapshot (the offline repair tool) is remove-everything followed by
	// one record: interrupted in between it leaves the replica EMPTY (the old data is
	// to be discarded anyway, the import is re-run). That intermediate state is
	// accepted for the imported replica of a tan store, and only there.
	if isTanKind(kind) && inflightOp != nil && inflightOp.Kind == "IMPORT" {
		n := inflightOp.N
		if !matchA[n] && !matchB[n] {
			candC := candA
			candC.apply(op{Kind: "REMNODE", N: n})
			wantC := expected(n, &candC)
			gotC := s.observe(n, &candC, &wantC)
			if sameObs(gotC, wantC, nil) {
				candB = candC
				gotB[n], matchB[n] = gotC, true
				res.importEmpty = true
			}
		}
	}
	for n := 0; n < numNodes; n++ {
		if !matchA[n] && !matchB[n] {
			for _, m := range []uint64{candA.nodes[n].marker, candB.nodes[n].marker} {
				if w := s.selfConsistent(n, m); w != "" {
					res.viol = "recovered log has a gap / does not reach its recorded end: " + w + "; " + describe(n)
					return res
				}
			}
			res.viol = "recovered state is neither the acknowledged one nor the one with the interrupted operation: " + describe(n)
			if isTanKind(kind) && ghosts.explains(n, s.observe(n, &candA, nil), expected(n, &candA)) {
				res.known = "tan-removal-not-durable"
			}
			return res
		}
	}
	// which side
	cur := candA
	if isTanKind(kind) {
		for n := 0; n < numNodes; n++ {
			if !matchA[n] {
				cur.nodes[n] = candB.nodes[n]
			}
		}
	} else {
		// a SaveRaftState of the Pebble based LogDB is one atomic write batch
		switch {
		case allA:
		case allB:
			cur = candB
		default:
			var sides []string
			for n := 0; n < numNodes; n++ {
				side := "both"
				if matchA[n] && !matchB[n] {
					side = "acknowledged"
				} else if matchB[n] && !matchA[n] {
					side = "interrupted-visible"
				}
				sides = append(sides, fmt.Sprintf("node %d: %s", n, side))
			}
			res.viol = fmt.Sprintf("save not atomic across replicas: interrupted %s, %s", inflightOp.String(), strings.Join(sides, ", "))
			return res
		}
	}
	for n := 0; n < numNodes; n++ {
		if matchA[n] && !matchB[n] {
			res.sideA = true
		}
		if matchB[n] && !matchA[n] {
			res.sideB = true
		}
		if w := s.selfConsistent(n, cur.nodes[n].marker); w != "" {
			res.viol = "recovered log has a gap / does not reach its recorded end: " + w + "; " + describe(n)
			return res
		}
	}

	// the recovered store is still usable: the next contiguous entry of node 0
	// with a newer term, read back
	nd := &cur.nodes[0]
	t := nd.lastTerm()
	if nd.st != nil && nd.st.Term > t {
		t = nd.st.Term
	}
	t++
	next := op{Kind: "SAVE", Ups: []update{{N: 0, St: hstate{Term: t, Vote: 1, Commit: nd.marker}, I0: nd.last() + 1,
		Ents: []ent{{Index: nd.last() + 1, Term: t, Tag: 1<<40 + uint64(cut+1), Len: 24}}}}}
	if cur.wf(next) {
		if r, detail := s.exec(next); r != "ok" {
			res.viol = fmt.Sprintf("recovered store unusable: %s -> %s %s", next.String(), r, detail)
			return res
		}
		cur.apply(next)
		if got, want := s.observe(0, &cur, nil), expected(0, &cur); !sameObs(got, want, nil) {
			res.viol = fmt.Sprintf("recovered store unusable: after %s node 0 reads back [%s], expected [%s]", next.String(), got, want)
			return res
		}
	}
	if w := s.close(); w != "" {
		res.viol = "recovered store unusable: close: " + w
	}
	return res
}

// ---------------------------------------------------------------------------
// running case lines

type crashTask struct {
	ci  int
	cut int
	rec bool
	out *crashRun
}

func runCrashTasks(cases []crashCase, tasks []crashTask) {
	ch := make(chan crashTask)
	var wg sync.WaitGroup
	for w := 0; w < crashWorkers; w++ {
		wg.Add(1)
		go func() {
			defer wg.Done()
			for t := range ch {
				c := &cases[t.ci]
				*t.out = runCrash(c.kind, c.mlfs, c.ops, t.cut, t.rec)
			}
		}()
	}
	for _, t := range tasks {
		ch <- t
	}
	close(ch)
	wg.Wait()
}

func runCrashLines(lines []string, tier string, obs *vh.LineWriter, st *vh.Stats) {
	t0 := time.Now()
	cases := make([]crashCase, len(lines))
	okc := make([]bool, len(lines))
	first := make([]crashRun, len(lines))    // none / single point / the measuring run of all
	points := make([][]crashRun, len(lines)) // all
	var tasks []crashTask
	for i, l := range lines {
		cases[i], okc[i] = parseCrashCase(l)
		if !okc[i] {
			continue
		}
		cut := -1
		if k := cases[i].k; k != "all" && k != "none" {
			v, _ := strconv.Atoi(k)
			cut = v
		}
		tasks = append(tasks, crashTask{ci: i, cut: cut, out: &first[i]})
	}
	runCrashTasks(cases, tasks)
	tasks = nil
	for i := range cases {
		if okc[i] && cases[i].k == "all" && first[i].viol == "" {
			// 0..N-1 and N itself: the power cut directly after the workload
			points[i] = make([]crashRun, first[i].total+1)
			for k := range points[i] {
				tasks = append(tasks, crashTask{ci: i, cut: k, out: &points[i][k]})
			}
		}
	}
	runCrashTasks(cases, tasks)

	// deterministic emission in input order
	var busy time.Duration
	for i, l := range lines {
		if !okc[i] {
			f := strings.Fields(l)
			id := "?"
			if len(f) > 0 {
				id = f[0]
			}
			obs.Printf("%s badcase\n", id)
			continue
		}
		c := &cases[i]
		st.Count("crash.kind." + c.kind)
		st.Count("crash.k." + map[bool]string{true: c.k, false: "point"}[c.k == "all" || c.k == "none"])
		viol := ""
		known := ""
		nontrivial := false
		account := func(r *crashRun, cut int) {
			busy += r.timing
			if cut >= 0 {
				st.Count("crash.points")
				switch r.inflight {
				case "open":
					st.Count("crash.during-open")
				case "after":
					st.Count("crash.after-workload")
				case "":
				default:
					nontrivial = true
					st.Count("crash.inflight." + r.inflight)
				}
				if r.importEmpty {
					st.Count("crash.tan-import-intermediate-empty")
				}
				if r.viol == "" {
					switch {
					case r.sideA && r.sideB:
						st.Count("crash.recovered-mixed")
					case r.sideA:
						st.Count("crash.recovered-acked")
					case r.sideB:
						st.Count("crash.recovered-inflight-visible")
					default:
						st.Count("crash.recovered-indistinguishable")
					}
				}
			} else {
				st.Count("crash.fault-free-runs")
			}
			if r.leaked > 0 {
				st.Count("crash.close-left-files-open")
			}
			if r.viol != "" && viol == "" {
				ks := "none"
				if cut >= 0 {
					ks = strconv.Itoa(cut)
				}
				infl := r.inflight
				if infl == "" {
					infl = "-"
				}
				viol = fmt.Sprintf("crash-atomicity: kind=%s k=%s inflight=%s %s", c.kind, ks, infl, r.viol)
				known = r.known
			}
		}
		switch c.k {
		case "none":
			account(&first[i], -1)
		case "all":
			account(&first[i], -1)
			for k := range points[i] {
				account(&points[i][k], k)
			}
		default:
			v, _ := strconv.Atoi(c.k)
			account(&first[i], v)
		}
		st.Case(c.key, nontrivial, l)
		// KNOWN FINDING (findings/known.txt, tan-removal-not-durable): tan's
		// RemoveNodeData only clears the in-memory index; after a crash the active
		// log is replayed and the removed replica's records are back. A case that
		// removed a replica of a tan store is reported under that name ONLY when the
		// wrong answer is exactly that signature (removalGhosts.explains): the removed
		// replica, nothing saved for it since, and what is read back is its hard state
		// / snapshot record from before the removal. Anything else is judged normally.
		if viol != "" && known != "" {
			st.Violation(c.id, known+": "+viol)
			viol = ""
		}
		if viol == "" {
			obs.Printf("%s crash ok\n", c.id)
		} else {
			obs.Printf("%s crash VIOLATION\n", c.id)
			if len(viol) > 3000 {
				viol = viol[:3000] + "..."
			}
			st.Violation(c.id, viol)
		}
	}
	if len(lines) > 0 {
		st.Notes["crash.timing"] = fmt.Sprintf("%d crash cases (tier %s): %.1fs wall, %.1fs summed run time, %d workers",
			len(lines), tier, time.Since(t0).Seconds(), busy.Seconds(), crashWorkers)
	}
}

// ---------------------------------------------------------------------------
// generator: small contract-abiding workloads (mutations only)

type cgen struct {
	r       *vh.Rand
	ref     *ref
	ops     []op
	tag     uint64
	term    [numNodes]uint64
	bs      uint64
	rem     bool // IMPORT allowed
	remnode bool // REMNODE allowed (not for the tan kinds: known finding tan-removal-not-durable)
	nmuts   int
}

func (g *cgen) nextTag() uint64 { g.tag++; return g.tag }

func cmax(a, b uint64) uint64 {
	if a > b {
		return a
	}
	return b
}

func (g *cgen) elen() uint64 {
	switch g.r.Intn(4) {
	case 0:
		return 8
	case 1:
		return uint64(8 + g.r.Intn(16))
	default:
		return uint64(8 + g.r.Intn(150))
	}
}

func (g *cgen) count() int {
	switch g.r.Intn(8) {
	case 0:
		return int(g.bs) - 2 + g.r.Intn(5) // around one batch
	case 1:
		return int(g.bs) + 1 + g.r.Intn(12) // crosses a batch boundary
	case 2, 3:
		return 1
	default:
		return 1 + g.r.Intn(6)
	}
}

func (g *cgen) mkEnts(n int, i0 uint64, k int, bump bool) []ent {
	g.term[n] = cmax(cmax(g.term[n], g.ref.nodes[n].lastTerm()), 1)
	if bump {
		g.term[n] += uint64(1 + g.r.Intn(2))
	}
	var es []ent
	for i := 0; i < k; i++ {
		es = append(es, ent{Index: i0 + uint64(i), Term: g.term[n], Tag: g.nextTag(), Len: g.elen()})
	}
	return es
}

func (g *cgen) maybeState(n int, u *update) {
	if !g.r.Chance(2, 3) {
		return
	}
	nd := &g.ref.nodes[n]
	c := nd.marker
	if l := nd.last() + uint64(len(u.Ents)); l > c {
		c += uint64(g.r.Intn(int(l-c) + 1))
	}
	vote := uint64(1 + g.r.Intn(3))
	if nd.st != nil && nd.st.Term == cmax(g.term[n], 1) && g.r.Chance(3, 4) {
		vote = nd.st.Vote
	}
	u.St = hstate{Term: cmax(g.term[n], 1), Vote: vote, Commit: c}
}

func (g *cgen) appendUpdate(n int, overwrite bool) update {
	nd := &g.ref.nodes[n]
	u := update{N: n}
	if overwrite && len(nd.ents) > 0 {
		off := uint64(g.r.Intn(len(nd.ents)))
		i0 := nd.marker + 1 + off
		remaining := int(nd.last() - i0 + 1)
		var k int
		switch g.r.Intn(3) {
		case 0: // shorter: truncates what follows
			k = 1 + g.r.Intn(remaining)
			if k == remaining && remaining > 1 {
				k--
			}
		case 1:
			k = remaining
		default:
			k = remaining + 1 + g.r.Intn(4)
		}
		if k > 60 {
			k = 60
		}
		u.I0 = i0
		u.Ents = g.mkEnts(n, i0, k, true)
	} else {
		u.I0 = nd.last() + 1
		u.Ents = g.mkEnts(n, u.I0, g.count(), g.r.Chance(1, 6))
	}
	g.maybeState(n, &u)
	return u
}

func (g *cgen) emit(o op) bool {
	if !g.ref.wf(o) {
		return false
	}
	g.ops = append(g.ops, o)
	g.ref.apply(o)
	g.nmuts++
	return true
}

func (g *cgen) pickNode() int {
	if g.r.Chance(1, 7) {
		return 3
	}
	return g.r.Intn(3)
}

func (g *cgen) step() {
	n := g.pickNode()
	nd := &g.ref.nodes[n]
	switch x := g.r.Intn(100); {
	case x < 34:
		g.emit(op{Kind: "SAVE", Ups: []update{g.appendUpdate(n, false)}})
	case x < 46:
		g.emit(op{Kind: "SAVE", Ups: []update{g.appendUpdate(n, true)}})
	case x < 60: // hard state only; mostly a Commit-only change (not fsynced by tan)
		u := update{N: n}
		commit := nd.marker + uint64(g.r.Intn(len(nd.ents)+1))
		if nd.st != nil && g.r.Chance(2, 3) {
			u.St = hstate{Term: nd.st.Term, Vote: nd.st.Vote, Commit: commit}
		} else {
			t := cmax(cmax(g.term[n], nd.lastTerm()), 1) + uint64(g.r.Intn(2))
			g.term[n] = t
			u.St = hstate{Term: t, Vote: uint64(1 + g.r.Intn(3)), Commit: commit}
		}
		g.emit(op{Kind: "SAVE", Ups: []update{u}})
	case x < 66: // locally created snapshot
		s := nd.marker + uint64(g.r.Intn(len(nd.ents)+1))
		ss := snap{Index: s, Term: 1 + uint64(g.r.Intn(5)), Tag: g.nextTag()}
		if s == nd.ssidx() && nd.ss != nil {
			ss = *nd.ss
		}
		g.emit(op{Kind: "SNAP", N: n, Ss: ss})
	case x < 72: // snapshot received from the leader: the log restarts at its index
		s := nd.last()
		switch g.r.Intn(3) {
		case 0:
			s += uint64(g.r.Intn(3))
		case 1:
			s = (s/g.bs+1)*g.bs - 2 + uint64(g.r.Intn(4))
		default:
			s += uint64(1 + g.r.Intn(60))
		}
		g.term[n] = cmax(cmax(g.term[n], nd.lastTerm()), 1) + uint64(g.r.Intn(2))
		u := update{N: n, Ss: snap{Index: s, Term: g.term[n], Tag: g.nextTag()}}
		if g.r.Bool() {
			u.I0 = s + 1
			u.Ents = g.mkEnts(n, s+1, 1+g.r.Intn(4), false)
		}
		u.St = hstate{Term: g.term[n], Vote: uint64(1 + g.r.Intn(3)), Commit: s}
		g.emit(op{Kind: "SAVE", Ups: []update{u}})
	case x < 82:
		idx := nd.marker + uint64(g.r.Intn(len(nd.ents)+1))
		if g.r.Bool() && nd.ssidx() >= nd.marker && nd.ssidx() <= nd.last() {
			idx = nd.ssidx()
		}
		g.emit(op{Kind: "REMTO", N: n, A: idx})
	case x < 84:
		if g.remnode && g.emit(op{Kind: "REMNODE", N: n}) {
			g.term[n] = 0
		}
	case x < 86:
		if g.rem {
			s := 1 + uint64(g.r.Intn(int(nd.last())+20))
			t := cmax(nd.lastTerm(), 1) + uint64(g.r.Intn(3))
			if g.emit(op{Kind: "IMPORT", N: n, Ss: snap{Index: s, Term: t, Tag: g.nextTag()}}) {
				g.term[n] = t
			}
		}
	case x < 90:
		g.emit(op{Kind: "REOPEN"})
	default: // several replicas in one SaveRaftState call
		var ups []update
		for _, m := range []int{0, 1, 2} {
			if g.r.Chance(2, 3) {
				ups = append(ups, g.appendUpdate(m, g.r.Chance(1, 4)))
			}
		}
		if len(ups) > 0 {
			g.emit(op{Kind: "SAVE", Ups: ups})
		}
	}
}

func genCrashWorkload(r *vh.Rand, rem bool, remnode bool) []op {
	g := &cgen{r: r, ref: newCrashRef(), bs: hooks.BatchSize(), rem: rem, remnode: remnode}
	target := 4 + r.Intn(7)
	for tries := 0; g.nmuts < target && tries < 200; tries++ {
		g.step()
	}
	return g.ops
}

type crashWorkload struct {
	kind string
	mlfs int64
	ops  []op
	run  crashRun // the fault-free measuring run
}

func genCrashWorkloads(r *vh.Rand, perKind int, measure bool) []crashWorkload {
	var ws []crashWorkload
	for i := 0; i < perKind; i++ {
		seed := r.U64()
		mlfs := []int64{700, 700, 2048, 2048, 0}[r.Intn(5)]
		for _, kind := range crashKinds {
			// the same stream for every kind; tanmux never sees REMNODE / IMPORT
			// (known finding there), its workload goes its own way from the first
			// such choice on
			w := crashWorkload{kind: kind, ops: genCrashWorkload(vh.NewRand(seed), kind != "tanmux", !isTanKind(kind))}
			if isTanKind(kind) {
				w.mlfs = mlfs
			}
			ws = append(ws, w)
		}
	}
	if measure {
		var wg sync.WaitGroup
		sem := make(chan struct{}, crashWorkers)
		for i := range ws {
			wg.Add(1)
			go func(w *crashWorkload) {
				defer wg.Done()
				sem <- struct{}{}
				w.run = runCrash(w.kind, w.mlfs, w.ops, -1, true)
				<-sem
			}(&ws[i])
		}
		wg.Wait()
	}
	return ws
}

// pickCrashPoint chooses a crash point of a measured workload: mostly inside a
// SAVE, around a tan log rollover (a *.log file is created inside the
// workload), sometimes anywhere including the creation of the store.
func pickCrashPoint(r *vh.Rand, w *crashWorkload) int {
	total := w.run.total
	if total <= 0 {
		return r.Intn(40)
	}
	var saves, others, roll []int
	for _, sp := range w.run.spans {
		for k := sp.start; k < sp.end; k++ {
			if sp.kind == "SAVE" {
				saves = append(saves, k)
			} else {
				others = append(others, k)
			}
			if k < len(w.run.trace) && sp.kind != "REOPEN" && sp.kind != "IMPORT" {
				if t := w.run.trace[k]; strings.HasPrefix(t, "create ") && strings.HasSuffix(t, ".log") {
					for d := -3; d <= 8; d++ {
						if k+d >= sp.start && k+d < total {
							roll = append(roll, k+d)
						}
					}
				}
			}
		}
	}
	pick := func(l []int) (int, bool) {
		if len(l) == 0 {
			return 0, false
		}
		return l[r.Intn(len(l))], true
	}
	x := r.Intn(100)
	if x < 25 {
		if k, ok := pick(roll); ok {
			return k
		}
	}
	if x < 70 {
		if k, ok := pick(saves); ok {
			return k
		}
	}
	if x < 92 {
		if k, ok := pick(others); ok {
			return k
		}
		if k, ok := pick(saves); ok {
			return k
		}
	}
	return r.Intn(total)
}

func genCrashCasesBase(r *vh.Rand, tier string, n int) []string {
	var out []string
	if n > 0 {
		// budget override of a search mode: n random single-point cases
		perKind := (n + 15) / 16
		ws := genCrashWorkloads(r, perKind, true)
		for i := 0; len(out) < n; i++ {
			w := &ws[i%len(ws)]
			k := pickCrashPoint(r, w)
			out = append(out, crashLine(fmt.Sprintf("cr%d.%s.k%d", i, w.kind, k), w.kind, w.mlfs, strconv.Itoa(k), w.ops))
		}
		return out
	}
	if tier == "thorough" {
		// (a crash run costs ~10 ms on the in-memory FS: far more than the ~6
		// workloads a 50 ms Pebble open/close would allow fit the budget)
		ws := genCrashWorkloads(r, 24, false)
		for i := range ws {
			w := &ws[i]
			out = append(out, crashLine(fmt.Sprintf("cr%d.%s.all", i/len(crashKinds), w.kind), w.kind, w.mlfs, "all", w.ops))
		}
		return out
	}
	const pointsPerWorkload = 10 // x 4 workloads = 40 single crash points per kind
	ws := genCrashWorkloads(r, 4, true)
	for i := range ws {
		w := &ws[i]
		wi := i / len(crashKinds)
		out = append(out, crashLine(fmt.Sprintf("cr%d.%s.none", wi, w.kind), w.kind, w.mlfs, "none", w.ops))
		seen := map[int]bool{}
		var ks []int
		for tries := 0; len(ks) < pointsPerWorkload && tries < 100; tries++ {
			if k := pickCrashPoint(r, w); !seen[k] {
				seen[k] = true
				ks = append(ks, k)
			}
		}
		sort.Ints(ks)
		for _, k := range ks {
			out = append(out, crashLine(fmt.Sprintf("cr%d.%s.k%d", wi, w.kind, k), w.kind, w.mlfs, strconv.Itoa(k), w.ops))
		}
	}
	return out
}

// removalGhosts: per replica, what it held when RemoveNodeData was acknowledged
// (only while nothing was saved for it afterwards).
type removalGhosts map[int]*removalGhost

type removalGhost struct {
	sts map[string]bool // hard states written before the removal
	gss map[string]bool // snapshot records written before the removal
}

// account is called with the reference state BEFORE o is applied.
func (g removalGhosts) account(before *ref, o op) {
	switch o.Kind {
	case "REMNODE":
		nd := &before.nodes[o.N]
		gh := g[o.N]
		if gh == nil {
			gh = &removalGhost{sts: map[string]bool{}, gss: map[string]bool{}}
			g[o.N] = gh
		}
		if nd.st != nil {
			gh.sts[stString(nd.st)] = true
		}
		gh.gss[before.query(op{Kind: "GS", N: o.N})] = true
	case "SAVE":
		for _, u := range o.Ups {
			if g[u.N] != nil && before.nodes[u.N].st == nil {
				delete(g, u.N) // the replica is re-created: not the finding's signature any more
			}
		}
	case "SNAP", "IMPORT", "REMTO":
		if g[o.N] != nil && before.nodes[o.N].st == nil {
			delete(g, o.N)
		}
	}
}

// explains: replica n was removed, the reference says it is empty, and the store
// answers with the hard state (and possibly the snapshot record) it had before.
func (g removalGhosts) explains(n int, got nodeObs, want nodeObs) bool {
	gh := g[n]
	if gh == nil || want.rrs != "nostate" {
		return false
	}
	st, _ := splitRRS(got.rrs)
	if !gh.sts[st] {
		return false
	}
	return got.gs == want.gs || gh.gss[got.gs]
}

// ---- direct access to the files of the in-memory disk (torn tails) ----

func readWholeFile(mem *gvfs.MemFS, name string) ([]byte, bool) {
	f, err := mem.Open(name)
	if err != nil {
		return nil, false
	}
	defer f.Close()
	st, err := f.Stat()
	if err != nil || st.IsDir() {
		return nil, false
	}
	b := make([]byte, st.Size())
	n, _ := io.ReadFull(f, b)
	return b[:n], true
}

func writeWholeFile(mem *gvfs.MemFS, name string, data []byte) {
	f, err := mem.Create(name)
	if err != nil {
		panic(err)
	}
	if _, err := f.Write(data); err != nil {
		panic(err)
	}
	_ = f.Sync()
	_ = f.Close()
	if d, err := mem.OpenDir(mem.PathDir(name)); err == nil {
		_ = d.Sync()
		_ = d.Close()
	}
}

// readLogFiles returns the content of every *.log file below dir.
func readLogFiles(mem *gvfs.MemFS, dir string) map[string][]byte {
	out := map[string][]byte{}
	var walk func(d string)
	walk = func(d string) {
		names, err := mem.List(d)
		if err != nil {
			return
		}
		for _, n := range names {
			p := mem.PathJoin(d, n)
			st, err := mem.Stat(p)
			if err != nil {
				continue
			}
			if st.IsDir() {
				walk(p)
			} else if strings.HasSuffix(n, ".log") {
				if b, ok := readWholeFile(mem, p); ok {
					out[p] = b
				}
			}
		}
	}
	walk(dir)
	return out
}

func hasRemoval(ops []op) bool {
	for _, o := range ops {
		if o.Kind == "REMTO" || o.Kind == "IMPORT" || o.Kind == "REMNODE" {
			return true
		}
	}
	return false
}
