package main

import (
	"errors"
	"fmt"
	"io"
	"os"
	"path"
	"strings"
	"sync"

	gvfs "github.com/lni/vfs"
	"verif/harness/vh"
)

// powerFS is the file system handed to the real stores by the crash search: the
// strict in-memory FS of github.com/lni/vfs (only what was fsynced survives
// ResetToSyncedState) behind a wrapper that counts every mutating FS operation
// (create, link, remove, rename, mkdir, lock, write, sync of a file or of a
// directory). When the cut-th counted operation is about to execute the power
// goes off: from then on nothing becomes durable any more (SetIgnoreSyncs), the
// calls themselves still "succeed" so that the running API operation and Close
// can finish the way a process does that has not noticed yet.
//
// One powerFS instance is one process life time: after the simulated crash the
// instance is killed (handles that are still open are closed, a straggler
// goroutine of the dead store writes into the void) and the store is reopened
// through a fresh instance over the same MemFS.
type powerFS struct {
	mem *gvfs.MemFS

	mu     sync.Mutex
	count  int  // counted operations so far
	cut    int  // power goes off when operation number cut (0-based) is about to run; <0: never
	off    bool // the power is off
	dead   bool // the process is gone
	trace  []string
	record bool
	open   map[*powerFile]struct{}
	// self-test of the monitor (C10_CRASH_SELFTEST): a deliberately broken "disk"
	dropLogSync bool // nosync: fsync of *.log files (tan logs, Pebble WAL) is not forwarded
	dropDirSync bool // nodirsync: fsync of directories is not forwarded
	// I/O error injection (tanio cases): the Write call number failLogWrite
	// (0-based, counted over all Write/WriteAt calls on *.log files) returns an
	// error and writes nothing; <0: never
	failLogWrite int
	logWrites    int
	ioFired      bool
	// generalised: the counted operation number failOp (write, file sync, dir sync,
	// create, rename; see opEligible) returns an error and has no effect; <0: never
	failOp      int
	failWALOnly bool // Pebble: only WAL writes / fsyncs are failed
	failRegular bool // regular tan: the fsync of a log file is not failed (it runs in a goroutine that panics)
	failNow     bool
	failedLabel string
}

// opEligible: the operations the save path of tan performs on the calling
// goroutine. remove/removeall belong to the background deletion worker (it
// panics on an error), link/mkdir/lock/reuse are not used while saving.
func (p *powerFS) opEligible(label string) bool {
	if p.failWALOnly {
		// the real Pebble store: only the write-ahead log, whose write / fsync errors
		// surface on the goroutine that commits the batch. An error on an sstable /
		// MANIFEST operation makes Pebble call Fatalf (= panic, kv_pebble.go) inside
		// its own flush / compaction goroutine: the process dies, which an in-process
		// harness cannot survive
		return strings.HasSuffix(label, ".log") &&
			(strings.HasPrefix(label, "write ") || strings.HasPrefix(label, "sync "))
	}
	switch {
	case strings.HasPrefix(label, "write "), strings.HasPrefix(label, "syncdir "),
		strings.HasPrefix(label, "create "), strings.HasPrefix(label, "rename "):
		return true
	case strings.HasPrefix(label, "sync "):
		return !(p.failRegular && strings.HasSuffix(label, ".log"))
	}
	return false
}

// takeFail reports (once) that the operation just noted has to fail (p.mu is held).
func (p *powerFS) takeFail() bool {
	if p.failNow {
		p.failNow = false
		return true
	}
	return false
}

var errInjectedWrite = errors.New("c10: injected log file write error")

// logWriteFails registers a write to a log file (p.mu is held).
func (p *powerFS) logWriteFails(name string) bool {
	if !strings.HasSuffix(name, ".log") {
		return false
	}
	idx := p.logWrites
	p.logWrites++
	if p.failLogWrite >= 0 && idx == p.failLogWrite {
		p.ioFired = true
		return true
	}
	return false
}

func newPowerFS(mem *gvfs.MemFS, cut int, record bool) *powerFS {
	p := &powerFS{mem: mem, cut: cut, record: record, open: map[*powerFile]struct{}{}, failLogWrite: -1, failOp: -1}
	switch os.Getenv("C10_CRASH_SELFTEST") {
	case "nosync":
		p.dropLogSync = true
	case "nodirsync":
		p.dropDirSync = true
	}
	return p
}

var _ gvfs.FS = (*powerFS)(nil)

// note registers one counted operation (p.mu is held); false: the process is
// dead, the operation must not reach the disk.
func (p *powerFS) note(label string) bool {
	if p.dead {
		return false
	}
	if !p.off && p.cut >= 0 && p.count >= p.cut {
		p.off = true
		p.mem.SetIgnoreSyncs(true)
	}
	if p.failOp >= 0 && p.count == p.failOp && p.opEligible(label) {
		p.failNow = true
		p.ioFired = true
		p.failedLabel = label
	}
	p.count++
	if p.record {
		p.trace = append(p.trace, label)
	}
	return true
}

func (p *powerFS) isOff() bool {
	p.mu.Lock()
	defer p.mu.Unlock()
	return p.off
}

func (p *powerFS) counted() int {
	p.mu.Lock()
	defer p.mu.Unlock()
	return p.count
}

// powerOff cuts the power now (a crash after the workload).
func (p *powerFS) powerOff() {
	p.mu.Lock()
	defer p.mu.Unlock()
	if !p.off {
		p.off = true
		p.mem.SetIgnoreSyncs(true)
	}
}

// kill ends the process life time of this instance: whatever it still holds
// open is closed (the MemFS refuses to remove open files) and later calls from
// goroutines of the dead store no longer reach the MemFS.
func (p *powerFS) kill() (leaked int) {
	p.mu.Lock()
	defer p.mu.Unlock()
	p.dead = true
	for f := range p.open {
		if !f.closed {
			f.closed = true
			leaked++
			ff := f
			_ = vh.Catch(func() { _ = ff.File.Close() })
		}
	}
	p.open = map[*powerFile]struct{}{}
	return leaked
}

func short(name string) string { return path.Base(path.Clean(name)) }

type namedInfo struct {
	os.FileInfo
	name string
}

func (n namedInfo) Name() string { return n.name }

// powerFile is an open file or directory.
type powerFile struct {
	gvfs.File
	p      *powerFS
	name   string
	isDir  bool
	closed bool
}

func (p *powerFS) wrap(f gvfs.File, name string, err error) (gvfs.File, error) {
	if err != nil || f == nil {
		return f, err
	}
	pf := &powerFile{File: f, p: p, name: name}
	if st, e := f.Stat(); e == nil && st.IsDir() {
		pf.isDir = true
	}
	p.open[pf] = struct{}{}
	return pf, nil
}

func (f *powerFile) Write(b []byte) (int, error) {
	f.p.mu.Lock()
	defer f.p.mu.Unlock()
	if !f.p.note("write " + short(f.name)) {
		return len(b), nil
	}
	if f.p.logWriteFails(f.name) || f.p.takeFail() {
		return 0, errInjectedWrite
	}
	return f.File.Write(b)
}

func (f *powerFile) WriteAt(b []byte, off int64) (int, error) {
	f.p.mu.Lock()
	defer f.p.mu.Unlock()
	if !f.p.note("write " + short(f.name)) {
		return len(b), nil
	}
	if f.p.logWriteFails(f.name) || f.p.takeFail() {
		return 0, errInjectedWrite
	}
	return f.File.WriteAt(b, off)
}

func (f *powerFile) Sync() error {
	f.p.mu.Lock()
	defer f.p.mu.Unlock()
	label := "sync "
	if f.isDir {
		label = "syncdir "
	}
	if !f.p.note(label + short(f.name)) {
		return nil
	}
	if f.p.takeFail() {
		return errInjectedWrite
	}
	if f.closed {
		// tan's sequentialSaveState returns on a write error without waiting for the
		// fsync goroutines of the earlier updates of the call: such a straggler can
		// arrive after the store was closed (the MemFS would crash on it)
		return nil
	}
	if f.isDir && f.p.dropDirSync {
		return nil
	}
	if !f.isDir && f.p.dropLogSync && strings.HasSuffix(f.name, ".log") {
		return nil
	}
	return f.File.Sync()
}

func (f *powerFile) Close() error {
	f.p.mu.Lock()
	defer f.p.mu.Unlock()
	if f.p.dead {
		return nil
	}
	f.closed = true
	delete(f.p.open, f)
	return f.File.Close()
}

// Stat reports the base name of the path the file was opened with: a MemFS
// node keeps the name of its latest binding, even one a crash has undone.
func (f *powerFile) Stat() (os.FileInfo, error) {
	f.p.mu.Lock()
	defer f.p.mu.Unlock()
	if f.p.dead {
		return nil, os.ErrClosed
	}
	fi, err := f.File.Stat()
	if err != nil {
		return fi, err
	}
	return namedInfo{FileInfo: fi, name: short(f.name)}, nil
}

func (f *powerFile) Read(b []byte) (int, error) {
	if f.isDead() {
		return 0, io.EOF
	}
	return f.File.Read(b)
}

func (f *powerFile) ReadAt(b []byte, off int64) (int, error) {
	if f.isDead() {
		return 0, io.EOF
	}
	return f.File.ReadAt(b, off)
}

func (f *powerFile) Seek(off int64, whence int) (int64, error) {
	if f.isDead() {
		return 0, os.ErrClosed
	}
	return f.File.Seek(off, whence)
}

func (f *powerFile) isDead() bool {
	f.p.mu.Lock()
	defer f.p.mu.Unlock()
	return f.p.dead
}

// voidFile is what a dead process gets when it creates a file.
type voidFile struct{}

func (voidFile) Close() error                           { return nil }
func (voidFile) Read([]byte) (int, error)               { return 0, io.EOF }
func (voidFile) ReadAt([]byte, int64) (int, error)      { return 0, io.EOF }
func (voidFile) Seek(int64, int) (int64, error)         { return 0, nil }
func (voidFile) Write(b []byte) (int, error)            { return len(b), nil }
func (voidFile) WriteAt(b []byte, _ int64) (int, error) { return len(b), nil }
func (voidFile) Stat() (os.FileInfo, error)             { return nil, os.ErrClosed }
func (voidFile) Sync() error                            { return nil }

func (p *powerFS) Create(name string) (gvfs.File, error) {
	p.mu.Lock()
	defer p.mu.Unlock()
	if !p.note("create " + short(name)) {
		return voidFile{}, nil
	}
	if p.takeFail() {
		return nil, errInjectedWrite
	}
	f, err := p.mem.Create(name)
	return p.wrap(f, name, err)
}

func (p *powerFS) Link(oldname, newname string) error {
	p.mu.Lock()
	defer p.mu.Unlock()
	if !p.note("link " + short(newname)) {
		return nil
	}
	return p.mem.Link(oldname, newname)
}

func (p *powerFS) Open(name string, opts ...gvfs.OpenOption) (gvfs.File, error) {
	p.mu.Lock()
	defer p.mu.Unlock()
	if p.dead {
		return nil, os.ErrNotExist
	}
	f, err := p.mem.Open(name)
	f, err = p.wrap(f, name, err)
	if err == nil {
		for _, o := range opts {
			o.Apply(f)
		}
	}
	return f, err
}

func (p *powerFS) OpenDir(name string) (gvfs.File, error) {
	p.mu.Lock()
	defer p.mu.Unlock()
	if p.dead {
		return nil, os.ErrNotExist
	}
	f, err := p.mem.OpenDir(name)
	return p.wrap(f, name, err)
}

func (p *powerFS) OpenForAppend(name string) (gvfs.File, error) {
	p.mu.Lock()
	defer p.mu.Unlock()
	if p.dead {
		return nil, os.ErrNotExist
	}
	f, err := p.mem.OpenForAppend(name)
	return p.wrap(f, name, err)
}

func (p *powerFS) Remove(name string) error {
	p.mu.Lock()
	defer p.mu.Unlock()
	if !p.note("remove " + short(name)) {
		return nil
	}
	return p.mem.Remove(name)
}

func (p *powerFS) RemoveAll(name string) error {
	p.mu.Lock()
	defer p.mu.Unlock()
	if !p.note("removeall " + short(name)) {
		return nil
	}
	return p.mem.RemoveAll(name)
}

func (p *powerFS) Rename(oldname, newname string) error {
	p.mu.Lock()
	defer p.mu.Unlock()
	if !p.note("rename " + short(oldname) + " " + short(newname)) {
		return nil
	}
	if p.takeFail() {
		return errInjectedWrite
	}
	return p.mem.Rename(oldname, newname)
}

func (p *powerFS) ReuseForWrite(oldname, newname string) (gvfs.File, error) {
	p.mu.Lock()
	defer p.mu.Unlock()
	if !p.note("reuse " + short(oldname) + " " + short(newname)) {
		return voidFile{}, nil
	}
	f, err := p.mem.ReuseForWrite(oldname, newname)
	return p.wrap(f, newname, err)
}

func (p *powerFS) MkdirAll(dir string, perm os.FileMode) error {
	p.mu.Lock()
	defer p.mu.Unlock()
	if !p.note("mkdir " + short(dir)) {
		return nil
	}
	return p.mem.MkdirAll(dir, perm)
}

// Lock is a Create in the MemFS (an open file that cannot be removed).
func (p *powerFS) Lock(name string) (io.Closer, error) {
	p.mu.Lock()
	defer p.mu.Unlock()
	if !p.note("lock " + short(name)) {
		return voidFile{}, nil
	}
	f, err := p.mem.Create(name)
	if err != nil {
		return nil, err
	}
	pf := &powerFile{File: f, p: p, name: name}
	p.open[pf] = struct{}{}
	return pf, nil
}

func (p *powerFS) List(dir string) ([]string, error) { return p.mem.List(dir) }

func (p *powerFS) Stat(name string) (os.FileInfo, error) {
	fi, err := p.mem.Stat(name)
	if err != nil {
		return fi, err
	}
	return namedInfo{FileInfo: fi, name: short(name)}, nil
}

func (p *powerFS) PathBase(s string) string       { return p.mem.PathBase(s) }
func (p *powerFS) PathJoin(elem ...string) string { return p.mem.PathJoin(elem...) }
func (p *powerFS) PathDir(s string) string        { return p.mem.PathDir(s) }
func (p *powerFS) GetDiskUsage(s string) (gvfs.DiskUsage, error) {
	return p.mem.GetDiskUsage(s)
}

func (p *powerFS) String() string { return fmt.Sprintf("powerFS(count=%d off=%v)", p.count, p.off) }
