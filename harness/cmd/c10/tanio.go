package main

import (
	"fmt"
	"strconv"
	"strings"
	"sync"

	"verif/harness/vh"
)

// I/O error injection into the real Tan (regular and multiplexed) at the level
// of the log file writes:
//
//	<id> tanio <tan|tanmux> <mlfs> <n|all|none> | op ; op ; ...
//
// The n-th Write call on a *.log file (counted from the opening of the store)
// returns an error and writes nothing; `all` runs the workload fault-free to
// count the log file writes and then once for every write index. The workloads
// carry entries of 100-200 KB, so that one update is a record of several 32 KB
// blocks (first / middle ... / last chunk) and the failing write can be any of
// its block writes. The engine panics on a LogDB error, so the run stops at the
// first operation that does not return success: the process dies without
// closing the store (once keeping everything that was written, once only what
// was fsynced), the store is reopened and read back completely.
//
// MONITOR: (1) an operation during which the write error was injected must not
// return success ("failed-write-reported-as-success"); (2) per replica the
// reopened store shows the acknowledged state or the acknowledged state plus
// the operation in flight, and reopening must work. The model side prints
// `<id> tanio ok`.

type tanioResult struct {
	viol     string
	openEnd  int      // counted FS operations of opening the store
	opsEnd   int      // counted FS operations when the workload has ended
	trace    []string // labels of the counted FS operations (fault-free measuring run)
	writes   int
	fired    bool
	firedOp  string
	timingMs int64
}

// failAt: index of the failing log file write (fsMode false) or of the failing
// counted FS operation (fsMode true); <0: no fault, the operations are recorded.
func runTanIO(kind string, mlfs int64, ops []op, failAt int, fsMode bool, dropUnsynced bool) (res tanioResult) {
	mem := newCrashMem()
	fs := newPowerFS(mem, -1, failAt < 0)
	if fsMode {
		fs.failOp = failAt
		fs.failRegular = kind == "tan"
		fs.failWALOnly = !isTanKind(kind)
	} else {
		fs.failLogWrite = failAt
	}
	s := &cstore{kind: kind, mlfs: mlfs, fs: fs}
	if w := s.open(); w != "" {
		if fs.ioFired {
			// the fault hit the creation of the store: nothing was acknowledged
			res.fired, res.firedOp = true, "open"
		} else {
			res.viol = "cannot open the store: " + w
			return res
		}
	}
	res.openEnd = fs.counted()
	acked := newCrashRef()
	var inflight *op
	if s.db != nil {
		for k := range ops {
			o := ops[k]
			if o.bad || o.Kind == "Q" || o.Kind == "RRS" || o.Kind == "GS" || !acked.wf(o) {
				continue
			}
			firedBefore := fs.ioFired
			out, detail := s.exec(o)
			firedNow := fs.ioFired && !firedBefore
			if firedNow {
				res.fired, res.firedOp = true, o.Kind
				if out == "ok" && res.viol == "" {
					what := fmt.Sprintf("log file write #%d", failAt)
					if fsMode {
						what = fmt.Sprintf("FS operation #%d (%s)", failAt, fs.failedLabel)
					}
					res.viol = fmt.Sprintf("failed-write-reported-as-success: store=%s op#%d %s returned success although %s failed",
						kind, k, shortOp(o), what)
				}
			}
			if out == "ok" {
				acked.apply(o)
				continue
			}
			if !fs.ioFired && res.viol == "" {
				res.viol = fmt.Sprintf("operation failed without a fault: store=%s op#%d %s: %s %s", kind, k, shortOp(o), out, detail)
			}
			inflight = &ops[k]
			break
		}
	}
	res.writes = fs.logWrites
	res.opsEnd = fs.counted()
	res.trace = fs.trace
	// the fault belongs to the workload, not to the shutdown
	fs.mu.Lock()
	fs.failOp, fs.failLogWrite = -1, -1
	fs.mu.Unlock()
	if inflight != nil || s.db == nil {
		// the operation failed: the engine panics, the process dies without closing
		// the store; what was written survives, or only what was fsynced
		if isTanKind(kind) {
			fs.kill()
			_ = s.close()
			if dropUnsynced {
				mem.ResetToSyncedState()
			}
		} else {
			// Pebble's background goroutines call Fatalf (= panic) when files vanish
			// under them: the store is closed before the process is taken away; with
			// dropUnsynced nothing written from now on (the close included) is durable
			if dropUnsynced {
				fs.powerOff()
			}
			_ = s.close()
			fs.kill()
			if dropUnsynced {
				mem.ResetToSyncedState()
				mem.SetIgnoreSyncs(false)
			}
		}
	} else {
		_ = s.close()
		fs.kill()
	}
	fs2 := newPowerFS(mem, -1, false)
	s.fs = fs2
	defer func() {
		_ = s.close()
		fs2.kill()
	}()
	if w := s.open(); w != "" {
		if res.viol == "" {
			res.viol = fmt.Sprintf("cannot reopen after the I/O error (#%d, during %s): %s", failAt, res.firedOp, w)
		}
		return res
	}
	candA := *acked
	candB := *acked
	if inflight != nil {
		candB.apply(*inflight)
	}
	for n := 0; n < numNodes; n++ {
		wantA := expected(n, &candA)
		gotA := s.observe(n, &candA, &wantA)
		if sameObs(gotA, wantA, nil) {
			continue
		}
		if inflight != nil {
			wantB := expected(n, &candB)
			gotB := s.observe(n, &candB, &wantB)
			if sameObs(gotB, wantB, nil) {
				continue
			}
			// tan's ImportSnapshot removes everything of the replica before it writes
			// the snapshot record: interrupted in between the replica is empty (accepted,
			// the import is re-run; see the crash family)
			if inflight.Kind == "IMPORT" && inflight.N == n {
				candC := candA
				candC.apply(op{Kind: "REMNODE", N: n})
				wantC := expected(n, &candC)
				if sameObs(s.observe(n, &candC, &wantC), wantC, nil) {
					continue
				}
			}
		}
		if res.viol == "" {
			what := "acknowledged-save-not-readable"
			if res.fired {
				what = "failed-write-reported-as-success-or-torn"
			}
			res.viol = fmt.Sprintf("%s: store=%s I/O operation #%d (%s) failed during %s; node %d reads back [%s] but the acknowledged state is [%s]",
				what, kind, failAt, fs.failedLabel, res.firedOp, n, clip(s.observe(n, &candA, nil).String()), clip(wantA.String()))
		}
	}
	return res
}

func clip(s string) string {
	if len(s) > 300 {
		return s[:300] + "..."
	}
	return s
}

func shortOp(o op) string { return clip(o.String()) }

type tanioCase struct {
	id, kind, k, key, line string
	mlfs                   int64
	ops                    []op
}

func parseTanIO(line string) (tanioCase, bool) {
	head, body, _ := strings.Cut(line, " | ")
	hf := strings.Fields(head)
	if len(hf) != 5 || (!isTanKind(hf[2]) && hf[2] != "plain" && hf[2] != "batched") {
		return tanioCase{}, false
	}
	m, err := strconv.ParseInt(hf[3], 10, 64)
	if err != nil || m < 0 {
		return tanioCase{}, false
	}
	if hf[4] != "all" && hf[4] != "none" && hf[4] != "fsall" {
		if v, err := strconv.Atoi(strings.TrimPrefix(hf[4], "fs")); err != nil || v < 0 {
			return tanioCase{}, false
		}
	}
	c := tanioCase{id: hf[0], kind: hf[2], mlfs: m, k: hf[4], line: line, key: line[len(hf[0]):]}
	for _, t := range strings.Split(body, " ; ") {
		if strings.TrimSpace(t) != "" {
			c.ops = append(c.ops, parseOp(t))
		}
	}
	return c, true
}

func runTanIOLine(line string, obs *vh.LineWriter, st *vh.Stats) {
	c, ok := parseTanIO(line)
	if !ok {
		obs.Printf("%s badcase\n", strings.Fields(line)[0])
		return
	}
	st.Count("tanio.kind." + c.kind)
	var points []int
	fsMode := strings.HasPrefix(c.k, "fs")
	switch c.k {
	case "none":
		points = []int{-1}
	case "fsall":
		r0 := runTanIO(c.kind, c.mlfs, c.ops, -1, true, false)
		if r0.viol != "" {
			st.Violation(c.id, "tanio: fault-free run: "+r0.viol)
			obs.Printf("%s tanio VIOLATION\n", c.id)
			st.Case(c.key, false, c.line)
			return
		}
		probe := &powerFS{failRegular: c.kind == "tan", failWALOnly: !isTanKind(c.kind)}
		for i := r0.openEnd; i < r0.opsEnd && i < len(r0.trace); i++ {
			if probe.opEligible(r0.trace[i]) {
				points = append(points, i, i)
				st.Count("tanio.fsop." + strings.Fields(r0.trace[i])[0])
			}
		}
	case "all":
		r0 := runTanIO(c.kind, c.mlfs, c.ops, -1, false, false)
		if r0.viol != "" {
			st.Violation(c.id, "tanio: fault-free run: "+r0.viol)
			obs.Printf("%s tanio VIOLATION\n", c.id)
			st.Case(c.key, false, c.line)
			return
		}
		for i := 0; i < r0.writes; i++ {
			points = append(points, i, i) // twice: unsynced data survives / is dropped
		}
	default:
		v, _ := strconv.Atoi(strings.TrimPrefix(c.k, "fs"))
		points = []int{v, v}
	}
	results := make([]tanioResult, len(points))
	var wg sync.WaitGroup
	sem := make(chan struct{}, 12)
	for i := range points {
		wg.Add(1)
		go func(i int) {
			defer wg.Done()
			sem <- struct{}{}
			defer func() { <-sem }()
			if p := vh.Catch(func() { results[i] = runTanIO(c.kind, c.mlfs, c.ops, points[i], fsMode, i%2 == 1) }); p != "" {
				results[i].viol = "harness panic: " + p
			}
		}(i)
	}
	wg.Wait()
	viol := ""
	fired := false
	for i, r := range results {
		st.Count("tanio.runs")
		if r.fired {
			fired = true
			st.Count("tanio.fault-in." + r.firedOp)
		}
		if r.viol != "" && viol == "" {
			viol = fmt.Sprintf("tanio: fault#=%d %s", points[i], r.viol)
		}
	}
	st.Case(c.key, fired, c.line)
	if viol == "" {
		obs.Printf("%s tanio ok\n", c.id)
	} else {
		obs.Printf("%s tanio VIOLATION\n", c.id)
		st.Violation(c.id, viol)
	}
}

// workloads with records of several blocks: one or two entries of 100-200 KB
// per update, small entries around them
func genTanIOCases(r *vh.Rand, tier string, n int) []string {
	nw := 2
	if tier == "thorough" {
		nw = 12
	}
	if n > 0 {
		nw = n/8 + 1
	}
	var out []string
	for i := 0; i < nw; i++ {
		ref := newCrashRef()
		var ops []op
		tag := uint64(0)
		emit := func(o op) {
			if ref.wf(o) {
				ops = append(ops, o)
				ref.apply(o)
			}
		}
		mk := func(node int, lens ...uint64) op {
			nd := &ref.nodes[node]
			u := update{N: node, I0: nd.last() + 1, St: hstate{Term: 1, Vote: 1, Commit: nd.last()}}
			for k, l := range lens {
				tag++
				u.Ents = append(u.Ents, ent{Index: u.I0 + uint64(k), Term: 1, Tag: tag, Len: l})
			}
			return op{Kind: "SAVE", Ups: []update{u}}
		}
		big := func() uint64 { return uint64(100000 + r.Intn(100000)) }
		emit(mk(0, 8, uint64(8+r.Intn(100))))
		emit(mk(0, big()))
		if r.Bool() {
			emit(mk(1, uint64(8+r.Intn(50)), big(), 16))
		} else {
			// two replicas in one call (the multiplexed mode writes both into one log)
			a, b := mk(0, big()), mk(2, 12, big())
			emit(op{Kind: "SAVE", Ups: []update{a.Ups[0], b.Ups[0]}})
		}
		emit(mk(0, uint64(8+r.Intn(30))))
		body := opsText(ops)
		mlfs := []int64{0, 65536}[r.Intn(2)]
		for _, kind := range []string{"tan", "tanmux"} {
			out = append(out, fmt.Sprintf("io%d.%s tanio %s %d all | %s", i, kind, kind, mlfs, body))
		}
	}
	// small entries and a small MaxLogFileSize: the log rolls over inside the workload
	// (fsync of the old log, index file write / sync / rename, directory sync, new log,
	// MANIFEST edit); an error is injected at EVERY one of these operations in turn
	nf := 2
	if tier == "thorough" {
		nf = 10
	}
	if n > 0 {
		nf = n/8 + 1
	}
	for i := 0; i < nf; i++ {
		ref := newCrashRef()
		var ops []op
		tag := uint64(0)
		add := func(nodes ...int) {
			var ups []update
			for _, node := range nodes {
				nd := &ref.nodes[node]
				u := update{N: node, I0: nd.last() + 1, St: hstate{Term: 1, Vote: 1, Commit: nd.last()}}
				k := 1 + r.Intn(3)
				for j := 0; j < k; j++ {
					tag++
					u.Ents = append(u.Ents, ent{Index: u.I0 + uint64(j), Term: 1, Tag: tag, Len: uint64(100 + r.Intn(120))})
				}
				ups = append(ups, u)
			}
			o := op{Kind: "SAVE", Ups: ups}
			if ref.wf(o) {
				ops = append(ops, o)
				ref.apply(o)
			}
		}
		for j := 0; j < 6+r.Intn(3); j++ {
			switch r.Intn(4) {
			case 0:
				add(0, 1)
			case 1:
				add(2, 0)
			default:
				add(0)
			}
		}
		body := opsText(ops)
		for _, kind := range []string{"tan", "tanmux"} {
			out = append(out, fmt.Sprintf("iofs%d.%s tanio %s %d fsall | %s", i, kind, kind, []int64{700, 1200}[i%2], body))
		}
		// the real Pebble store (kv_pebble.go over pebble over the failing FS): WAL writes and
		// fsyncs, and with reopens inside the workload the WAL replay / memtable flush
		// (sstable create, write, sync, MANIFEST edits, renames, directory syncs)
		{
			var pops []op
			for j, o := range ops {
				pops = append(pops, o)
				if j == 1 || j == 3 {
					pops = append(pops, op{Kind: "REOPEN"})
				}
			}
			for _, kind := range []string{"plain", "batched"} {
				out = append(out, fmt.Sprintf("iopb%d.%s tanio %s 0 fsall | %s", i, kind, kind, opsText(pops)))
			}
		}
		// the same with removal / compaction / import in the workload: RemoveEntriesTo (a
		// compaction record, a MANIFEST edit that drops obsolete files), ImportSnapshot
		// (new log, removal of everything, snapshot record)
		if nd := &ref.nodes[0]; len(nd.ents) > 2 {
			rm := op{Kind: "REMTO", N: 0, A: nd.marker + 1 + uint64(r.Intn(len(nd.ents)-1))}
			if ref.wf(rm) {
				ops = append(ops, rm)
				ref.apply(rm)
			}
			add(0)
			add(2, 0)
			imp := op{Kind: "IMPORT", N: 2, Ss: snap{Index: ref.nodes[2].last() + 5, Term: 3, Tag: 77}}
			if ref.wf(imp) {
				ops = append(ops, imp)
				ref.apply(imp)
			}
			add(0)
			out = append(out, fmt.Sprintf("iorm%d.tan tanio tan %d fsall | %s", i, []int64{700, 1200}[i%2], opsText(ops)))
		}
	}
	return out
}
