package main

import (
	"fmt"

	"verif/harness/vh"
)

// Multi-update SaveRaftState batches on replicas that share one store (nodes 0,
// 1, 2: one Pebble shard / one multiplexed tan db), in every order, where the
// updates of the batch differ in what they need from the disk:
//
//	E  entries (+ hard state)           needs an fsync
//	V  term / vote change only          needs an fsync
//	C  commit index only                tan does not fsync it on its own
//	S  a snapshot record only (received from the leader: same term and vote as the
//	   last fsynced state, no entries, commit moved to the snapshot)   needs an fsync
//
// followed by a power cut right after the acknowledged batch (k beyond the
// workload) or at every FS operation (thorough). In the multiplexed tan mode
// all updates of the call go to one log file that is fsynced once at the end if
// ANY update needs it: a batch whose last update is C must not lose the E / V
// updates before it.

var batchOrders = [][]int{{0, 1, 2}, {0, 2, 1}, {1, 0, 2}, {1, 2, 0}, {2, 0, 1}, {2, 1, 0}}
var batchPatterns = []string{"ECC", "VEC", "CEC", "EEC", "CVC", "EVC", "VCC", "SCC", "CSC", "CCE", "CEV", "ECE", "CCS", "SEC"}

func genBatchWorkload(r *vh.Rand, order []int, pattern string) []op {
	ref := newCrashRef()
	var ops []op
	tag := uint64(100)
	term := [numNodes]uint64{}
	vote := [numNodes]uint64{}
	emit := func(o op) {
		if ref.wf(o) {
			ops = append(ops, o)
			ref.apply(o)
		}
	}
	ents := func(n int, k int) update {
		nd := &ref.nodes[n]
		if term[n] == 0 {
			term[n], vote[n] = 1, 1
		}
		u := update{N: n, I0: nd.last() + 1, St: hstate{Term: term[n], Vote: vote[n], Commit: nd.last()}}
		for j := 0; j < k; j++ {
			tag++
			u.Ents = append(u.Ents, ent{Index: u.I0 + uint64(j), Term: term[n], Tag: tag, Len: uint64(8 + r.Intn(60))})
		}
		return u
	}
	// every replica has a log and a hard state, all of it fsynced
	for _, n := range []int{0, 1, 2} {
		emit(op{Kind: "SAVE", Ups: []update{ents(n, 2+r.Intn(3))}})
	}
	var ups []update
	for i, n := range order {
		nd := &ref.nodes[n]
		switch pattern[i] {
		case 'E':
			ups = append(ups, ents(n, 1+r.Intn(3)))
		case 'V':
			term[n]++
			vote[n] = uint64(1 + r.Intn(3))
			c := uint64(0)
			if nd.st != nil {
				c = nd.st.Commit
			}
			ups = append(ups, update{N: n, St: hstate{Term: term[n], Vote: vote[n], Commit: c}})
		case 'S':
			if term[n] == 0 {
				term[n], vote[n] = 1, 1
			}
			idx := nd.last() + uint64(1+r.Intn(20))
			ups = append(ups, update{N: n, St: hstate{Term: term[n], Vote: vote[n], Commit: idx},
				Ss: snap{Index: idx, Term: term[n], Tag: 700 + idx}})
		default: // C
			c := nd.last()
			if nd.st != nil && nd.st.Commit >= c {
				c = nd.st.Commit // unchanged state: written as nothing at all
			}
			ups = append(ups, update{N: n, St: hstate{Term: term[n], Vote: vote[n], Commit: c}})
		}
	}
	emit(op{Kind: "SAVE", Ups: ups})
	return ops
}

func genBatchCrashCases(r *vh.Rand, tier string) []string {
	var out []string
	k := "999999" // the power is cut right after the workload
	if tier == "thorough" {
		k = "all"
	}
	for i, order := range batchOrders {
		var pats []string
		if tier == "thorough" {
			pats = batchPatterns
		} else {
			// the last update needs no fsync, an earlier one does; plus a random one
			pats = []string{batchPatterns[(i*3)%9], batchPatterns[r.Intn(len(batchPatterns))]}
		}
		for j, p := range pats {
			ops := genBatchWorkload(r, order, p)
			kinds := crashKinds
			if tier != "thorough" && j > 0 {
				kinds = []string{"tanmux", "tan"}
			}
			for _, kind := range kinds {
				out = append(out, crashLine(fmt.Sprintf("bt%d.%d.%s.%s", i, j, p, kind), kind, 0, k, ops))
			}
		}
	}
	return out
}

func genCrashCases(r *vh.Rand, tier string, n int) []string {
	out := genCrashCasesBase(r, tier, n)
	if n > 0 {
		return out
	}
	out = append(out, genBatchCrashCases(vh.NewRand(r.U64()^0xba7c), tier)...)
	// one save with more than 2048 records in its write batch, the power cut at every
	// FS operation (a save committed in pieces is torn between its WAL syncs)
	out = append(out, crashLine("crbig.plain", "plain", 0, "all", bigSaveOps()))
	// a snapshot received from the leader is recorded through SaveRaftState: an update
	// whose only content that matters is the snapshot record (same term and vote as the
	// last fsynced state, no entries; commit moved to the snapshot or left alone). It is
	// acknowledged, then the power is cut. A batch of entries separates it from a local
	// SaveSnapshots (tan forgets its remembered state after that and would fsync anyway)
	for i, moved := range []bool{true, false} {
		ops := snapshotOnlyWorkload(vh.NewRand(r.U64()^0x55a9), moved)
		for _, kind := range crashKinds {
			k := "999999"
			if tier == "thorough" {
				k = "all"
			}
			out = append(out, crashLine(fmt.Sprintf("crsn%d.%s", i, kind), kind, 0, k, ops))
		}
	}
	// log rollovers, then RemoveEntriesTo (+ compaction): every FS operation, those of
	// tan's background deletion of obsolete files included
	nr := 1
	if tier == "thorough" {
		nr = 6
	}
	for i := 0; i < nr; i++ {
		ops := genRemovalWorkload(vh.NewRand(r.U64() ^ 0x4e70))
		for _, kind := range []string{"tan", "tanmux"} {
			out = append(out, crashLine(fmt.Sprintf("crrm%d.%s", i, kind), kind, 700, "all", ops))
		}
	}
	return out
}

func genRemovalWorkload(r *vh.Rand) []op {
	ref := newCrashRef()
	var ops []op
	tag := uint64(500)
	emit := func(o op) {
		if ref.wf(o) {
			ops = append(ops, o)
			ref.apply(o)
		}
	}
	save := func(node int, k int) {
		nd := &ref.nodes[node]
		u := update{N: node, I0: nd.last() + 1, St: hstate{Term: 1, Vote: 1, Commit: nd.last()}}
		for j := 0; j < k; j++ {
			tag++
			u.Ents = append(u.Ents, ent{Index: u.I0 + uint64(j), Term: 1, Tag: tag, Len: uint64(120 + r.Intn(80))})
		}
		emit(op{Kind: "SAVE", Ups: []update{u}})
	}
	for j := 0; j < 4; j++ {
		save(0, 2+r.Intn(2))
		if r.Bool() {
			save(2, 1+r.Intn(2))
		}
	}
	nd := &ref.nodes[0]
	emit(op{Kind: "REMTO", N: 0, A: nd.marker + 1 + uint64(r.Intn(len(nd.ents)-1))})
	save(0, 2)
	nd = &ref.nodes[0]
	if len(nd.ents) > 1 {
		emit(op{Kind: "REMTO", N: 0, A: nd.last() - 1})
	}
	save(0, 1)
	return ops
}

func snapshotOnlyWorkload(r *vh.Rand, commitMoved bool) []op {
	ref := newCrashRef()
	var ops []op
	emit := func(o op) {
		if ref.wf(o) {
			ops = append(ops, o)
			ref.apply(o)
		}
	}
	tag := uint64(900)
	ents := func(k int, commit uint64) {
		nd := &ref.nodes[0]
		u := update{N: 0, I0: nd.last() + 1, St: hstate{Term: 2, Vote: 1, Commit: commit}}
		for j := 0; j < k; j++ {
			tag++
			u.Ents = append(u.Ents, ent{Index: u.I0 + uint64(j), Term: 2, Tag: tag, Len: uint64(8 + r.Intn(40))})
		}
		emit(op{Kind: "SAVE", Ups: []update{u}})
	}
	ents(3+r.Intn(3), 1)
	// a locally created snapshot, then more entries
	emit(op{Kind: "SNAP", N: 0, Ss: snap{Index: 2, Term: 2, Tag: 41}})
	ents(2+r.Intn(3), 2)
	nd := &ref.nodes[0]
	idx := nd.last() + uint64(5+r.Intn(50))
	commit := uint64(2)
	if commitMoved {
		commit = idx
	}
	emit(op{Kind: "SAVE", Ups: []update{{N: 0, St: hstate{Term: 2, Vote: 1, Commit: commit},
		Ss: snap{Index: idx, Term: 2, Tag: 42}}}})
	return ops
}
