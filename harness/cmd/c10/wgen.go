package main

// Workload generator (mutating operations only), derived from the C09
// generator: contract-abiding sequences over the reference log of ref.go.

import (
	"verif/harness/vh"
)

type gstate struct {
	r     *vh.Rand
	ref   *ref
	ops   []op
	tag   uint64
	term  [numNodes]uint64
	big   bool
	bs    uint64
	nmuts int
	small bool
}

func (g *gstate) nextTag() uint64 { g.tag++; return g.tag }

func (g *gstate) elen() uint64 {
	if g.big {
		return uint64(12000 + g.r.Intn(30000))
	}
	switch g.r.Intn(5) {
	case 0:
		return 8
	case 1:
		return uint64(8 + g.r.Intn(8))
	default:
		return uint64(8 + g.r.Intn(120))
	}
}

func (g *gstate) mkEnts(n int, i0 uint64, k int, bump bool) []ent {
	g.term[n] = maxu(maxu(g.term[n], g.ref.nodes[n].mterm), 1)
	if bump {
		g.term[n] += uint64(1 + g.r.Intn(2))
	}
	var es []ent
	for i := 0; i < k; i++ {
		if g.r.Chance(1, 25) {
			g.term[n]++
		}
		es = append(es, ent{Index: i0 + uint64(i), Term: g.term[n], Tag: g.nextTag(), Len: g.elen()})
	}
	return es
}

func (g *gstate) count() int {
	if g.small {
		switch g.r.Intn(4) {
		case 0:
			return 1
		case 1:
			return int(g.bs) - 1 + g.r.Intn(3)
		default:
			return 1 + g.r.Intn(4)
		}
	}
	if g.big {
		return 1 + g.r.Intn(6)
	}
	switch g.r.Intn(6) {
	case 0:
		return 1
	case 1:
		return 1 + g.r.Intn(3)
	case 2:
		return int(g.bs) - 2 + g.r.Intn(5) // around one batch
	case 3:
		return int(g.bs) + g.r.Intn(int(g.bs)+10) // straddles at least one boundary
	default:
		return 1 + g.r.Intn(20)
	}
}

func (g *gstate) maybeState(n int, u *update) {
	if g.r.Chance(1, 2) {
		nd := &g.ref.nodes[n]
		c := nd.marker
		if l := nd.last() + uint64(len(u.Ents)); l > c && g.r.Bool() {
			c += uint64(g.r.Intn(int(min64(l-c, 1000)) + 1))
		}
		t := g.term[n]
		if t == 0 {
			t = 1
		}
		u.St = hstate{Term: t, Vote: uint64(g.r.Intn(4)), Commit: c}
	}
}

func min64(a, b uint64) uint64 {
	if a < b {
		return a
	}
	return b
}

// appendUpdate: the next contiguous entries, or an overwrite of a suffix with a newer term
func (g *gstate) appendUpdate(n int, overwrite bool) update {
	nd := &g.ref.nodes[n]
	u := update{N: n}
	if overwrite && len(nd.ents) > 0 {
		off := uint64(g.r.Intn(len(nd.ents))) // position inside the retained entries
		if g.r.Chance(1, 3) && uint64(len(nd.ents)) > g.bs {
			// reach back into an older batch
			off = uint64(g.r.Intn(len(nd.ents) - int(g.bs) + 1))
		}
		i0 := nd.marker + 1 + off
		remaining := int(nd.last() - i0 + 1)
		var k int
		switch g.r.Intn(4) {
		case 0, 1: // shorter suffix: logically truncates what follows
			k = 1 + g.r.Intn(remaining)
			if k == remaining && remaining > 1 {
				k--
			}
		case 2:
			k = remaining
		default:
			k = remaining + 1 + g.r.Intn(10)
		}
		if g.big && k > 6 {
			k = 6
		}
		// the overwriting entries carry a newer term than what they replace
		if t := nd.ents[len(nd.ents)-1].Term; g.term[n] < t {
			g.term[n] = t
		}
		u.I0 = i0
		u.Ents = g.mkEnts(n, i0, k, true)
	} else {
		if l := len(nd.ents); l > 0 && g.term[n] < nd.ents[l-1].Term {
			g.term[n] = nd.ents[l-1].Term
		}
		u.I0 = nd.last() + 1
		u.Ents = g.mkEnts(n, u.I0, g.count(), g.r.Chance(1, 8))
	}
	g.maybeState(n, &u)
	return u
}

func (g *gstate) emit(o op) bool {
	if !g.ref.wf(o) {
		return false
	}
	g.ops = append(g.ops, o)
	g.ref.apply(o)
	return true
}

func (g *gstate) pickNode() int {
	if g.r.Chance(1, 6) {
		return 3
	}
	return g.r.Intn(3)
}

func (g *gstate) step() {
	n := g.pickNode()
	nd := &g.ref.nodes[n]
	touched := []int{n}
	ok := false
	switch x := g.r.Intn(100); {
	case x < 36:
		ok = g.emit(op{Kind: "SAVE", Ups: []update{g.appendUpdate(n, false)}})
	case x < 50:
		ok = g.emit(op{Kind: "SAVE", Ups: []update{g.appendUpdate(n, true)}})
	case x < 56: // hard state only
		u := update{N: n}
		t := g.term[n] + uint64(g.r.Intn(2))
		if t == 0 {
			t = 1
		}
		g.term[n] = t
		u.St = hstate{Term: t, Vote: uint64(g.r.Intn(4)), Commit: nd.marker + uint64(g.r.Intn(len(nd.ents)+1))}
		ok = g.emit(op{Kind: "SAVE", Ups: []update{u}})
	case x < 63: // locally created snapshot
		s := nd.marker + uint64(g.r.Intn(len(nd.ents)+1))
		if g.r.Chance(1, 5) && nd.ssidx() > 1 {
			s = 1 + uint64(g.r.Intn(int(nd.ssidx()))) // older or equal
		}
		ss := snap{Index: s, Term: 1 + uint64(g.r.Intn(5)), Tag: g.nextTag()}
		if s == nd.ssidx() && nd.ss != nil {
			ss = *nd.ss
		}
		ok = g.emit(op{Kind: "SNAP", N: n, Ss: ss})
	case x < 70: // snapshot received from the leader: the log restarts at its index
		s := nd.last()
		switch g.r.Intn(4) {
		case 0:
			s += uint64(g.r.Intn(3))
		case 1:
			s = (s/g.bs+1)*g.bs - 2 + uint64(g.r.Intn(4)) // next to a batch boundary
		default:
			s += uint64(1 + g.r.Intn(120))
		}
		g.term[n] = maxu(maxu(g.term[n], nd.lastTerm()), 1) + uint64(g.r.Intn(2))
		u := update{N: n, Ss: snap{Index: s, Term: g.term[n], Tag: g.nextTag()}}
		if g.r.Bool() {
			u.I0 = s + 1
			u.Ents = g.mkEnts(n, s+1, g.count(), g.r.Chance(1, 3))
		}
		u.St = hstate{Term: maxu(g.term[n], 1), Vote: uint64(g.r.Intn(4)), Commit: s}
		ok = g.emit(op{Kind: "SAVE", Ups: []update{u}})
	case x < 78:
		idx := nd.marker + uint64(g.r.Intn(len(nd.ents)+1))
		if g.r.Bool() && nd.ssidx() >= nd.marker && nd.ssidx() <= nd.last() {
			idx = nd.ssidx()
		}
		ok = g.emit(op{Kind: "REMTO", N: n, A: idx})
	case x < 80:
		ok = g.emit(op{Kind: "REMNODE", N: n})
		g.term[n] = 0
	case x < 82:
		s := 1 + uint64(g.r.Intn(int(nd.last())+50))
		t := maxu(nd.lastTerm(), 1) + uint64(g.r.Intn(3))
		ok = g.emit(op{Kind: "IMPORT", N: n, Ss: snap{Index: s, Term: t, Tag: g.nextTag()}})
		g.term[n] = t
	case x < 89:
		ok = g.emit(op{Kind: "REOPEN"})
		touched = []int{0, 1, 2, 3}
	default: // several replicas in one SaveRaftState call
		var ups []update
		touched = nil
		for _, m := range []int{0, 1, 2} {
			if g.r.Chance(2, 3) {
				ups = append(ups, g.appendUpdate(m, g.r.Chance(1, 4)))
				touched = append(touched, m)
			}
		}
		if len(ups) > 0 {
			ok = g.emit(op{Kind: "SAVE", Ups: ups})
		}
	}
	if ok {
		g.nmuts++
	}
	_ = touched
}

func maxu(a, b uint64) uint64 {
	if a > b {
		return a
	}
	return b
}

// genWorkload returns about target mutating operations. small: few entries per
// save (white-box fault enumeration), otherwise sizes around the batch size.
func genWorkload(r *vh.Rand, target int, small bool, bs uint64, nonCmd uint64) []op {
	g := &gstate{r: r, ref: &ref{nonCmd: nonCmd}, bs: bs, small: small}
	for tries := 0; g.nmuts < target && tries < 400; tries++ {
		g.step()
	}
	return g.ops
}
