package main

import (
	"fmt"
	"strconv"
	"strings"
	"sync"

	"verif/harness/vh"
)

// Torn tails through the REAL open path of tan (open.go: readLog -> IsInvalidRecord
// -> rebuildLog):
//
//	<id> crashtorn <tan|tanmux> <mlfs> <k[,k...]|all> | op ; op ; ...
//
// The power is cut at FS operation k as in the crash family; a strict in-memory
// disk drops the unsynced writes whole, so here the log file that lost D unsynced
// bytes gets the first p of them back, for EVERY p in 1..D (all lengths; beyond
// 600 bytes a sample), and the store is reopened by the real code each time: it
// must open, and every replica must show the acknowledged state or the
// acknowledged state plus the interrupted operation (p = D can complete it).
// The model side prints `<id> crashtorn ok`.

type crashTornCase struct {
	id, kind, key, line string
	mlfs                int64
	ks                  string
	ops                 []op
}

func parseCrashTorn(line string) (crashTornCase, bool) {
	head, body, _ := strings.Cut(line, " | ")
	hf := strings.Fields(head)
	if len(hf) != 5 || !isTanKind(hf[2]) {
		return crashTornCase{}, false
	}
	m, err := strconv.ParseInt(hf[3], 10, 64)
	if err != nil || m < 0 {
		return crashTornCase{}, false
	}
	if hf[4] != "all" {
		for _, x := range strings.Split(hf[4], ",") {
			if v, err := strconv.Atoi(x); err != nil || v < 0 {
				return crashTornCase{}, false
			}
		}
	}
	c := crashTornCase{id: hf[0], kind: hf[2], mlfs: m, ks: hf[4], line: line, key: line[len(hf[0]):]}
	for _, t := range strings.Split(body, " ; ") {
		if strings.TrimSpace(t) != "" {
			c.ops = append(c.ops, parseOp(t))
		}
	}
	return c, true
}

func tornLengths(d int) []int {
	var out []int
	for p := 1; p <= d; p++ {
		if d <= 600 || p <= 64 || p >= d-64 || p%97 == 0 {
			out = append(out, p)
		}
	}
	return out
}

func runCrashTornLine(line string, obs *vh.LineWriter, st *vh.Stats) {
	c, ok := parseCrashTorn(line)
	if !ok {
		obs.Printf("%s badcase\n", strings.Fields(line)[0])
		return
	}
	st.Count("crashtorn.kind." + c.kind)
	var ks []int
	if c.ks == "all" {
		r0 := runCrash(c.kind, c.mlfs, c.ops, -1, false)
		for k := 0; k <= r0.total; k++ {
			ks = append(ks, k)
		}
	} else {
		for _, x := range strings.Split(c.ks, ",") {
			v, _ := strconv.Atoi(x)
			ks = append(ks, v)
		}
	}
	type task struct {
		k, p int
		r    crashRun
	}
	var tasks []*task
	// first the plain crash at each point: how many bytes were dropped there
	var mu sync.Mutex
	var wg sync.WaitGroup
	sem := make(chan struct{}, 12)
	run := func(t *task) {
		wg.Add(1)
		go func() {
			defer wg.Done()
			sem <- struct{}{}
			defer func() { <-sem }()
			t.r = runCrashTorn(c.kind, c.mlfs, c.ops, t.k, false, t.p)
		}()
	}
	var probes []*task
	for _, k := range ks {
		t := &task{k: k, p: 0}
		probes = append(probes, t)
		run(t)
	}
	wg.Wait()
	for _, pr := range probes {
		tasks = append(tasks, pr)
		for _, p := range tornLengths(pr.r.dropped) {
			t := &task{k: pr.k, p: p}
			mu.Lock()
			tasks = append(tasks, t)
			mu.Unlock()
			run(t)
		}
	}
	wg.Wait()
	viol := ""
	torn := 0
	for _, t := range tasks {
		st.Count("crashtorn.runs")
		if t.p > 0 && t.r.tornFiles > 0 {
			torn++
			st.Count("crashtorn.torn-tail-reopened")
			if t.r.viol == "" {
				switch {
				case t.r.sideB && !t.r.sideA:
					st.Count("crashtorn.recovered-inflight-visible")
				case t.r.sideA:
					st.Count("crashtorn.recovered-acked")
				}
			}
		}
		if t.r.viol != "" && viol == "" && t.r.known == "" {
			viol = fmt.Sprintf("crash-torn-tail: kind=%s k=%d torn=%d bytes of %d inflight=%s %s", c.kind, t.k, t.p, t.r.dropped, t.r.inflight, t.r.viol)
		}
	}
	st.Case(c.key, torn > 0, c.line)
	if viol == "" {
		obs.Printf("%s crashtorn ok\n", c.id)
	} else {
		obs.Printf("%s crashtorn VIOLATION\n", c.id)
		if len(viol) > 3000 {
			viol = viol[:3000] + "..."
		}
		st.Violation(c.id, viol)
	}
}

// cut points at the fsync of a log file inside a SAVE: the record written just
// before it is what the power cut drops
func genCrashTornCases(r *vh.Rand, tier string, n int) []string {
	nw := 1
	if tier == "thorough" {
		nw = 8
	}
	if n > 0 {
		nw = n/16 + 1
	}
	var out []string
	for i := 0; i < nw; i++ {
		ref := newCrashRef()
		var ops []op
		tag := uint64(0)
		for j := 0; j < 4+r.Intn(3); j++ {
			var ups []update
			nodes := [][]int{{0}, {0}, {1}, {0, 2}, {2, 0}}[r.Intn(5)]
			for _, node := range nodes {
				nd := &ref.nodes[node]
				u := update{N: node, I0: nd.last() + 1, St: hstate{Term: 1, Vote: 1, Commit: nd.last()}}
				for e := 0; e < 1+r.Intn(3); e++ {
					tag++
					u.Ents = append(u.Ents, ent{Index: u.I0 + uint64(e), Term: 1, Tag: tag, Len: uint64(8 + r.Intn(40))})
				}
				ups = append(ups, u)
			}
			o := op{Kind: "SAVE", Ups: ups}
			if ref.wf(o) {
				ops = append(ops, o)
				ref.apply(o)
			}
		}
		mlfs := []int64{0, 700}[i%2]
		for _, kind := range []string{"tan", "tanmux"} {
			ks := "all"
			if tier != "thorough" {
				m := runCrash(kind, mlfs, ops, -1, true)
				var cand []int
				for _, sp := range m.spans {
					if sp.kind != "SAVE" {
						continue
					}
					for k := sp.start; k < sp.end && k < len(m.trace); k++ {
						if strings.HasPrefix(m.trace[k], "sync ") && strings.HasSuffix(m.trace[k], ".log") {
							cand = append(cand, k)
						}
					}
				}
				var pick []string
				for len(pick) < 3 && len(cand) > 0 {
					j := r.Intn(len(cand))
					pick = append(pick, strconv.Itoa(cand[j]))
					cand = append(cand[:j], cand[j+1:]...)
				}
				if len(pick) == 0 {
					continue
				}
				ks = strings.Join(pick, ",")
			}
			out = append(out, fmt.Sprintf("ct%d.%s crashtorn %s %d %s | %s", i, kind, kind, mlfs, ks, opsText(ops)))
		}
	}
	return out
}
