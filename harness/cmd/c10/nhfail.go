package main

import (
	"bufio"
	"bytes"
	"context"
	"encoding/binary"
	"errors"
	"fmt"
	"io"
	"os"
	"os/exec"
	"path/filepath"
	"sort"
	"strconv"
	"strings"
	"sync"
	"time"

	dragonboat "github.com/lni/dragonboat/v4"
	"github.com/lni/dragonboat/v4/config"
	chantrans "github.com/lni/dragonboat/v4/plugin/chan"
	"github.com/lni/dragonboat/v4/raftio"
	pb "github.com/lni/dragonboat/v4/raftpb"
	sm "github.com/lni/dragonboat/v4/statemachine"
	hooks "github.com/lni/dragonboat/v4/verifhooks/c10"
	"verif/harness/vh"
)

// A storage error stops the host (engine.go: processSteps / snapshot worker
// error -> panicNow):
//
//	<id> nhfail <pebble|tan> <srs|ss> <k|sample> | props=<P> lead=<1|2|3>
//
// A child process runs three real NodeHosts (one shard, one replica each, chan
// transport, real log store on disk below the run's output directory). The log
// store of host 1 is wrapped: its k-th SaveRaftState (srs) / SaveSnapshots (ss)
// call returns an error. Host 1 records, in a file that survives the death of
// the process: every message at the instant node.sendRaftMessage hands it to the
// transport, every save with what it carried, every entry its state machine
// applies, and the start / completion of every proposal made through its API.
//
// MONITOR (on the record + a second child that restarts the hosts with the
// unwrapped store):
//   - the child dies by a panic (it never reaches the end of its workload, it
//     does not exit cleanly);
//   - srs: after the failed save host 1 hands NO message to the transport (the
//     Replicate messages of that update left before the save: free order);
//   - nothing that only the failed update carried is applied or reported
//     completed: every applied entry index is at most the last entry index that
//     a SUCCESSFUL save of host 1 had carried;
//   - after the restart every proposal that was reported completed is in the
//     state of the state machine, exactly once, nothing that was never proposed.
//
// The model side prints `<id> nhfail ok`.

const nhShard = 1

type nhRecord struct {
	mu sync.Mutex
	f  *os.File
}

func (r *nhRecord) add(format string, a ...interface{}) {
	r.mu.Lock()
	defer r.mu.Unlock()
	fmt.Fprintf(r.f, format+"\n", a...)
}

// ---- the failing log store of host 1 ----

type nhFailLogDB struct {
	raftio.ILogDB
	rec        *nhRecord
	mode       string
	k          int
	mu         sync.Mutex
	srs, ss    int
	lastSaved  uint64
	failedOnce bool
}

var errNhInjected = errors.New("c10: injected log store error")

func (l *nhFailLogDB) SaveRaftState(uds []pb.Update, worker uint64) error {
	l.mu.Lock()
	l.srs++
	n := l.srs
	fail := l.mode == "srs" && n == l.k
	l.mu.Unlock()
	var parts []string
	last := uint64(0)
	for _, u := range uds {
		lo, hi := uint64(0), uint64(0)
		if len(u.EntriesToSave) > 0 {
			lo, hi = u.EntriesToSave[0].Index, u.EntriesToSave[len(u.EntriesToSave)-1].Index
			if hi > last {
				last = hi
			}
		}
		parts = append(parts, fmt.Sprintf("%d:%d:ents=%d-%d:st=%d,%d,%d:ss=%d", u.ShardID, u.ReplicaID, lo, hi,
			u.State.Term, u.State.Vote, u.State.Commit, u.Snapshot.Index))
	}
	if fail {
		l.rec.add("F srs %d t=%d %s", n, time.Now().UnixNano(), strings.Join(parts, " "))
		return errNhInjected
	}
	err := l.ILogDB.SaveRaftState(uds, worker)
	if err == nil {
		l.rec.add("S %d last=%d %s", n, last, strings.Join(parts, " "))
	}
	return err
}

func (l *nhFailLogDB) SaveSnapshots(uds []pb.Update) error {
	l.mu.Lock()
	l.ss++
	n := l.ss
	fail := l.mode == "ss" && n == l.k
	l.mu.Unlock()
	if fail {
		l.rec.add("F ss %d t=%d", n, time.Now().UnixNano())
		return errNhInjected
	}
	err := l.ILogDB.SaveSnapshots(uds)
	if err == nil {
		l.rec.add("SS %d", n)
	}
	return err
}

type nhFailFactory struct {
	inner config.LogDBFactory
	rec   *nhRecord
	mode  string
	k     int
}

func (f *nhFailFactory) Create(c config.NodeHostConfig, cb config.LogDBCallback, dirs []string, wals []string) (raftio.ILogDB, error) {
	db, err := f.inner.Create(c, cb, dirs, wals)
	if err != nil {
		return nil, err
	}
	return &nhFailLogDB{ILogDB: db, rec: f.rec, mode: f.mode, k: f.k}, nil
}
func (f *nhFailFactory) Name() string { return f.inner.Name() }

type nhTransportFactory struct{}

func (nhTransportFactory) Create(c config.NodeHostConfig, mh raftio.MessageHandler, ch raftio.ChunkHandler) raftio.ITransport {
	return chantrans.NewChanTransport(c, mh, ch)
}
func (nhTransportFactory) Validate(string) bool { return true }

// ---- state machine: the ordered list of applied proposal ids ----

type nhSM struct {
	rec  *nhRecord // host 1 only
	list []uint64
}

func (s *nhSM) Update(e sm.Entry) (sm.Result, error) {
	id := uint64(0)
	if len(e.Cmd) >= 8 {
		id = binary.BigEndian.Uint64(e.Cmd)
	}
	s.list = append(s.list, id)
	if s.rec != nil {
		s.rec.add("A %d %d", e.Index, id)
	}
	return sm.Result{Value: id}, nil
}
func (s *nhSM) Lookup(interface{}) (interface{}, error) { return append([]uint64{}, s.list...), nil }
func (s *nhSM) SaveSnapshot(w io.Writer, _ sm.ISnapshotFileCollection, _ <-chan struct{}) error {
	b := make([]byte, 8*len(s.list))
	for i, v := range s.list {
		binary.BigEndian.PutUint64(b[8*i:], v)
	}
	_, err := w.Write(b)
	return err
}
func (s *nhSM) RecoverFromSnapshot(r io.Reader, _ []sm.SnapshotFile, _ <-chan struct{}) error {
	b, err := io.ReadAll(r)
	if err != nil {
		return err
	}
	s.list = nil
	for i := 0; i+8 <= len(b); i += 8 {
		s.list = append(s.list, binary.BigEndian.Uint64(b[i:]))
	}
	return nil
}
func (s *nhSM) Close() error { return nil }

// ---- the child ----

type nhParams struct {
	phase int
	store string
	mode  string
	k     int
	props int
	lead  int
	tag   string
}

func parseNhParams(line string) nhParams {
	p := nhParams{phase: 1, store: "pebble", mode: "srs", k: 0, props: 10, lead: 1, tag: "x"}
	for _, f := range strings.Fields(line) {
		kv := strings.SplitN(f, "=", 2)
		if len(kv) != 2 {
			continue
		}
		n, _ := strconv.Atoi(kv[1])
		switch kv[0] {
		case "phase":
			p.phase = n
		case "store":
			p.store = kv[1]
		case "mode":
			p.mode = kv[1]
		case "k":
			p.k = n
		case "props":
			p.props = n
		case "lead":
			p.lead = n
		case "tag":
			p.tag = kv[1]
		}
	}
	return p
}

func nhChild(a vh.Args) {
	lines := vh.ReadLines(a.Cases)
	if len(lines) == 0 {
		os.Exit(3)
	}
	p := parseNhParams(lines[0])
	rf, err := os.OpenFile(filepath.Join(a.Out, fmt.Sprintf("record%d.txt", p.phase)), os.O_CREATE|os.O_WRONLY|os.O_APPEND, 0644)
	if err != nil {
		os.Exit(3)
	}
	rec := &nhRecord{f: rf}
	inner := hooks.DefaultLogDBFactory()
	if p.store == "tan" {
		inner = hooks.TanLogDBFactory()
	}
	members := map[uint64]dragonboat.Target{}
	for i := 1; i <= 3; i++ {
		members[uint64(i)] = fmt.Sprintf("c10nh-%s-host%d", p.tag, i)
	}
	var nhs []*dragonboat.NodeHost
	for i := 1; i <= 3; i++ {
		ldbf := inner
		if i == 1 && p.phase == 1 {
			ldbf = &nhFailFactory{inner: inner, rec: rec, mode: p.mode, k: p.k}
		}
		nhc := config.NodeHostConfig{
			NodeHostDir:    filepath.Join(a.Out, fmt.Sprintf("host%d", i)),
			RTTMillisecond: 5,
			RaftAddress:    members[uint64(i)],
			Expert: config.ExpertConfig{
				LogDBFactory:     ldbf,
				TransportFactory: nhTransportFactory{},
				Engine: config.EngineConfig{ExecShards: 1, CommitShards: 1, ApplyShards: 1,
					SnapshotShards: 1, CloseShards: 1},
			},
		}
		nh, err := dragonboat.NewNodeHost(nhc)
		if err != nil {
			rec.add("X newnodehost %d %v", i, err)
			os.Exit(4)
		}
		if i == 1 && p.phase == 1 {
			dragonboat.VerifC10WrapTransport(nh, func(m pb.Message, snapshot bool) {
				free := 0
				if dragonboat.VerifC10IsFreeOrder(m.Type) {
					free = 1
				}
				rec.add("M %s to=%d term=%d idx=%d n=%d commit=%d free=%d", m.Type, m.To, m.Term, m.LogIndex, len(m.Entries), m.Commit, free)
			})
		}
		nhs = append(nhs, nh)
	}
	for i := 1; i <= 3; i++ {
		rc := config.Config{ReplicaID: uint64(i), ShardID: nhShard, ElectionRTT: 20, HeartbeatRTT: 2, CheckQuorum: true,
			SnapshotEntries: 5, CompactionOverhead: 2}
		ii := i
		create := func(shardID, replicaID uint64) sm.IStateMachine {
			s := &nhSM{}
			if ii == 1 && p.phase == 1 {
				s.rec = rec
			}
			return s
		}
		// the same initial members on the restart: a host that died before a replica
		// was bootstrapped bootstraps it now, the others check them against what they saved
		if err := nhs[i-1].StartReplica(members, false, create, rc); err != nil {
			rec.add("X startreplica %d %v", i, err)
			os.Exit(4)
		}
	}
	waitLeader := func() uint64 {
		for t := 0; t < 2500; t++ {
			if id, _, ok, err := nhs[0].GetLeaderID(nhShard); err == nil && ok && id != 0 {
				return id
			}
			time.Sleep(2 * time.Millisecond)
		}
		return 0
	}
	lead := waitLeader()
	rec.add("L %d", lead)
	if lead == 0 {
		rec.add("X noleader")
		os.Exit(5)
	}
	if p.phase == 2 {
		var v interface{}
		var err error
		for t := 0; t < 400; t++ {
			ctx, cancel := context.WithTimeout(context.Background(), time.Second)
			v, err = nhs[0].SyncRead(ctx, nhShard, nil)
			cancel()
			if err == nil {
				break
			}
			time.Sleep(5 * time.Millisecond)
		}
		if err != nil {
			rec.add("X read %v", err)
			os.Exit(6)
		}
		var s []string
		for _, id := range v.([]uint64) {
			s = append(s, fmt.Sprint(id))
		}
		rec.add("STATE %s", strings.Join(s, ","))
		rec.add("END")
		for _, nh := range nhs {
			nh.Close()
		}
		os.Exit(0)
	}
	if uint64(p.lead) != lead && p.lead >= 1 && p.lead <= 3 {
		_ = nhs[0].RequestLeaderTransfer(nhShard, uint64(p.lead))
		for t := 0; t < 200; t++ {
			if id, _, ok, _ := nhs[0].GetLeaderID(nhShard); ok && id == uint64(p.lead) {
				break
			}
			time.Sleep(2 * time.Millisecond)
		}
		rec.add("L %d", waitLeader())
	}
	session := nhs[0].GetNoOPSession(nhShard)
	for i := 1; i <= p.props; i++ {
		cmd := make([]byte, 8)
		binary.BigEndian.PutUint64(cmd, uint64(i))
		rec.add("P %d start", i)
		ctx, cancel := context.WithTimeout(context.Background(), 1500*time.Millisecond)
		_, err := nhs[0].SyncPropose(ctx, session, cmd)
		cancel()
		if err == nil {
			rec.add("P %d done", i)
		} else {
			rec.add("P %d fail", i)
		}
	}
	// let a snapshot in progress finish
	time.Sleep(60 * time.Millisecond)
	// from here on the hosts are being shut down: a store error that arrives now meets
	// workers that are stopping, it is not part of what is judged
	rec.add("CLOSING t=%d", time.Now().UnixNano())
	for _, nh := range nhs {
		nh.Close()
	}
	rec.add("END")
	os.Exit(0)
}

// ---- the parent ----

type nhOutcome struct {
	viol         string
	fired        bool
	died         bool
	srsCalls     int
	ssCalls      int
	afterFail    int    // record lines after the failed save
	duringClose  bool   // the failing save fell into the shutdown of the hosts
	inconclusive string // the scenario could not be run (time limit, no leader): not judged
}

func runNhChild(exe string, dir string, spec string) (exit int, stderr string) {
	cf := filepath.Join(dir, "spec.txt")
	if err := os.WriteFile(cf, []byte(spec+"\n"), 0644); err != nil {
		return -1, err.Error()
	}
	ctx, cancel := context.WithTimeout(context.Background(), 150*time.Second)
	defer cancel()
	cmd := exec.CommandContext(ctx, exe, "nhchild", "-cases", cf, "-out", dir)
	var eb bytes.Buffer
	cmd.Stderr = &eb
	cmd.Stdout = io.Discard
	err := cmd.Run()
	se := eb.String()
	if len(se) > 6000 {
		se = se[len(se)-6000:]
	}
	if err == nil {
		return 0, se
	}
	if ee, ok := err.(*exec.ExitError); ok {
		return ee.ExitCode(), se
	}
	return -1, se + err.Error()
}

func readRecord(path string) []string {
	f, err := os.Open(path)
	if err != nil {
		return nil
	}
	defer f.Close()
	var out []string
	sc := bufio.NewScanner(f)
	sc.Buffer(make([]byte, 1<<20), 1<<24)
	for sc.Scan() {
		out = append(out, sc.Text())
	}
	return out
}

func runNhFail(outRoot string, id string, store string, mode string, k int, props int, lead int) (res nhOutcome) {
	dir := filepath.Join(outRoot, "nh-"+strings.ReplaceAll(id, "/", "_")+fmt.Sprintf("-%s%d", mode, k))
	_ = os.RemoveAll(dir)
	if err := os.MkdirAll(dir, 0755); err != nil {
		res.viol = "cannot create " + dir
		return res
	}
	defer os.RemoveAll(dir)
	tag := fmt.Sprintf("%d-%s%d", os.Getpid(), mode, k)
	exit, se := runNhChild(os.Args[0], dir, fmt.Sprintf("phase=1 store=%s mode=%s k=%d props=%d lead=%d tag=%s", store, mode, k, props, lead, tag))
	rec := readRecord(filepath.Join(dir, "record1.txt"))
	failAt := -1
	ended := false
	closingAt := -1
	var failT, closingT int64
	stamp := func(f []string) int64 {
		for _, x := range f {
			if strings.HasPrefix(x, "t=") {
				v, _ := strconv.ParseInt(x[2:], 10, 64)
				return v
			}
		}
		return 0
	}
	lastSaved := uint64(0)
	savedBeforeFail := uint64(0)
	started := map[uint64]bool{}
	done := map[uint64]bool{}
	for i, l := range rec {
		f := strings.Fields(l)
		if len(f) == 0 {
			continue
		}
		switch f[0] {
		case "F":
			if failAt < 0 {
				failAt = i
				failT = stamp(f)
				savedBeforeFail = lastSaved
			}
		case "CLOSING":
			closingAt = i
			closingT = stamp(f)
		case "S":
			res.srsCalls++
			if failAt >= 0 && mode == "srs" && closingAt < 0 {
				res.viol = fmt.Sprintf("host 1 went on saving after its SaveRaftState #%d had failed: %s", k, clip(l))
				return res
			}
			for _, x := range f {
				if strings.HasPrefix(x, "last=") {
					v, _ := strconv.ParseUint(x[5:], 10, 64)
					if v > lastSaved {
						lastSaved = v
					}
				}
			}
		case "SS":
			res.ssCalls++
		case "END":
			ended = true
		case "X":
			res.inconclusive = "the child could not run the scenario: " + l
			return res
		case "A":
			idx, _ := strconv.ParseUint(f[1], 10, 64)
			// persist before apply, also around the failure
			if idx > lastSaved {
				res.viol = fmt.Sprintf("entry %d applied on host 1 but the last entry index a successful save had carried is %d (record line %d: %s)", idx, lastSaved, i, l)
				return res
			}
		case "P":
			pid, _ := strconv.ParseUint(f[1], 10, 64)
			if f[2] == "start" {
				started[pid] = true
			}
			if f[2] == "done" {
				done[pid] = true
			}
		case "M":
			if failAt >= 0 && mode == "srs" && closingAt < 0 {
				res.viol = fmt.Sprintf("host 1 handed a message to the transport after its SaveRaftState #%d had failed: %s", k, l)
				return res
			}
		}
	}
	_ = savedBeforeFail
	res.fired = failAt >= 0
	if res.fired && closingAt >= 0 && closingAt < failAt {
		// the failing save was issued while the hosts were being closed: NodeHost.Close
		// stops the workers, whether the error still reaches a panic is a race that is
		// not judged. Only the restart below is.
		res.fired = false
		res.duringClose = true
	}
	if res.fired {
		res.afterFail = len(rec) - failAt - 1
		// the panic (plog.Panicf renders the error with its stack first) can take longer
		// than the rest of a workload that is almost over: whether the main goroutine got
		// as far as CLOSING / END does not matter, what matters is that the process ended
		// by the panic and that host 1 did nothing after the failed save (judged above)
		res.died = exit != 0
		if !res.died {
			res.viol = fmt.Sprintf("the log store of host 1 failed (%s #%d, %d ms before the shutdown began) but the process did not stop: exit=%d reached-the-end=%v",
				mode, k, (closingT-failT)/1000000, exit, ended)
			return res
		}
		if !strings.Contains(se, "panic") {
			res.viol = fmt.Sprintf("the process died (exit %d) but not by a panic: %s", exit, clip(se))
			return res
		}
	} else if !res.duringClose && (exit != 0 || !ended) {
		if exit == -1 || !strings.Contains(se, "panic") {
			// the child was killed by the time limit / could not be started (an overloaded
			// machine): nothing about the library can be concluded from that
			res.inconclusive = fmt.Sprintf("run without a fired fault did not finish: exit=%d %s", exit, clip(se))
			return res
		}
		res.viol = fmt.Sprintf("no fault fired but the process died: exit=%d %s", exit, clip(se))
		return res
	}
	if os.Getenv("C10_NH_DEBUG") != "" {
		fmt.Fprintf(os.Stderr, "== %s %s#%d exit=%d ended=%v failAt=%d closingAt=%d dt=%dus lines=%d\n", id, mode, k, exit, ended, failAt, closingAt, (closingT-failT)/1000, len(rec))
	}
	// restart on the unwrapped store
	exit2, se2 := runNhChild(os.Args[0], dir, fmt.Sprintf("phase=2 store=%s tag=%s", store, tag))
	rec2 := readRecord(filepath.Join(dir, "record2.txt"))
	state := ""
	got := false
	for _, l := range rec2 {
		if strings.HasPrefix(l, "STATE") {
			state = strings.TrimSpace(strings.TrimPrefix(l, "STATE"))
			got = true
		}
	}
	if exit2 == -1 {
		res.inconclusive = "the restart child hit the time limit"
		return res
	}
	if exit2 != 0 || !got {
		res.viol = fmt.Sprintf("the hosts do not come back after the failure (%s #%d): exit=%d record=%v %s", mode, k, exit2, rec2, clip(se2))
		return res
	}
	seen := map[uint64]int{}
	if state != "" {
		for _, x := range strings.Split(state, ",") {
			v, _ := strconv.ParseUint(x, 10, 64)
			seen[v]++
		}
	}
	var ids []uint64
	for v := range seen {
		ids = append(ids, v)
	}
	sort.Slice(ids, func(i, j int) bool { return ids[i] < ids[j] })
	for _, v := range ids {
		if seen[v] > 1 {
			res.viol = fmt.Sprintf("proposal %d applied %d times after the restart", v, seen[v])
			return res
		}
		if !started[v] {
			res.viol = fmt.Sprintf("the restarted state holds %d which was never proposed", v)
			return res
		}
	}
	for v := range done {
		if seen[v] == 0 {
			res.viol = fmt.Sprintf("proposal %d was reported completed before the failure (%s #%d) but is missing after the restart (state %s)", v, mode, k, state)
			return res
		}
	}
	return res
}

func runNhFailLines(lines []string, outRoot string, obs *vh.LineWriter, st *vh.Stats) {
	type job struct {
		id, store, mode, line string
		k, props, lead        int
		out                   nhOutcome
	}
	type cse struct {
		id, line, key string
		ok            bool
		jobs          []*job
	}
	var cases []*cse
	var all []*job
	for _, line := range lines {
		head, body, _ := strings.Cut(line, " | ")
		hf := strings.Fields(head)
		c := &cse{id: hf[0], line: line, key: line[len(hf[0]):]}
		cases = append(cases, c)
		if len(hf) != 5 || (hf[2] != "pebble" && hf[2] != "tan") || (hf[3] != "srs" && hf[3] != "ss") {
			continue
		}
		p := parseNhParams(body)
		if p.props < 1 || p.props > 200 {
			continue
		}
		var ks []int
		if hf[4] == "sample" {
			// a fault-free run tells how many calls there are
			r0 := runNhFail(outRoot, c.id+"-probe", hf[2], hf[3], 0, p.props, p.lead)
			if r0.inconclusive != "" {
				r0 = runNhFail(outRoot, c.id+"-probe2", hf[2], hf[3], 0, p.props, p.lead)
			}
			if r0.viol != "" || r0.inconclusive != "" {
				c.ok = true
				c.jobs = append(c.jobs, &job{id: c.id, store: hf[2], mode: hf[3], k: 0, out: r0})
				continue
			}
			n := r0.srsCalls
			if hf[3] == "ss" {
				n = r0.ssCalls
			}
			st.Notes["nhfail.calls."+hf[2]+"."+hf[3]] = fmt.Sprint(n)
			if hf[3] == "ss" {
				for k := 1; k <= n && k <= 2; k++ {
					ks = append(ks, k)
				}
			} else {
				for _, k := range []int{1, 3, n / 4, n / 2, (3 * n) / 4, n - 2} {
					if k >= 1 {
						ks = append(ks, k)
					}
				}
			}
		} else {
			k, err := strconv.Atoi(hf[4])
			if err != nil || k < 0 {
				continue
			}
			ks = []int{k}
		}
		c.ok = true
		for _, k := range ks {
			j := &job{id: c.id, store: hf[2], mode: hf[3], k: k, props: p.props, lead: p.lead}
			c.jobs = append(c.jobs, j)
			all = append(all, j)
		}
	}
	var wg sync.WaitGroup
	sem := make(chan struct{}, 6)
	for _, j := range all {
		wg.Add(1)
		go func(j *job) {
			defer wg.Done()
			sem <- struct{}{}
			defer func() { <-sem }()
			j.out = runNhFail(outRoot, j.id, j.store, j.mode, j.k, j.props, j.lead)
			if j.out.inconclusive != "" {
				j.out = runNhFail(outRoot, j.id+"-again", j.store, j.mode, j.k, j.props, j.lead)
			}
		}(j)
	}
	wg.Wait()
	for _, c := range cases {
		if !c.ok {
			obs.Printf("%s badcase\n", c.id)
			continue
		}
		viol := ""
		fired := false
		for _, j := range c.jobs {
			st.Count("nhfail.runs")
			st.Count("nhfail.store." + j.store)
			if j.out.inconclusive != "" {
				st.Count("nhfail.inconclusive-not-judged")
				st.Notes["nhfail.inconclusive."+c.id] = clip(j.out.inconclusive)
			}
			if j.out.duringClose {
				st.Count("nhfail.fault-during-close-not-judged")
			}
			if j.out.fired {
				fired = true
				st.Count("nhfail.fault-fired." + j.mode)
				if j.out.died {
					st.Count("nhfail.died-by-panic")
				}
			}
			if j.out.viol != "" && viol == "" {
				viol = fmt.Sprintf("storage-error-must-stop-the-host: store=%s %s#%d: %s", j.store, j.mode, j.k, j.out.viol)
			}
		}
		st.Case(c.key, fired, c.line)
		if viol == "" {
			obs.Printf("%s nhfail ok\n", c.id)
		} else {
			obs.Printf("%s nhfail VIOLATION\n", c.id)
			st.Violation(c.id, viol)
		}
	}
}

func genNhFailCases(r *vh.Rand, tier string, n int) []string {
	if n > 0 {
		return nil // search budget override: the NodeHost runs are not part of it
	}
	out := []string{
		fmt.Sprintf("nh0 nhfail pebble srs sample | props=12 lead=%d", 1+r.Intn(2)),
		"nh1 nhfail pebble ss sample | props=14 lead=1",
	}
	if tier == "thorough" {
		out = append(out,
			"nh2 nhfail tan srs sample | props=12 lead=1",
			"nh3 nhfail tan ss sample | props=14 lead=2",
			"nh4 nhfail pebble srs sample | props=25 lead=2",
			"nh5 nhfail tan srs sample | props=25 lead=3")
	}
	return out
}
