package main

import (
	"bytes"
	"encoding/binary"
	"errors"
	"fmt"
	"sort"
	"strings"

	pb "github.com/lni/dragonboat/v4/raftpb"
	hooks "github.com/lni/dragonboat/v4/verifhooks/c10"
)

// memKV is a plain ordered in-memory kv.IKVStore: the durable map of the
// white-box cases (what Pebble provides to the LogDB: ordered keys, atomic
// write batches; C09 ties that assumption to the real Pebble, the black-box
// crash cases of this harness run on the real Pebble).
type memKV struct {
	m map[string][]byte
}

func newMemKV() *memKV { return &memKV{m: map[string][]byte{}} }

type wbOp struct {
	del bool
	k   []byte
	v   []byte
}

// memWB is a write batch that remembers its operations (keys and values are
// copied: the LogDB reuses its key and value buffers).
type memWB struct{ ops []wbOp }

func (w *memWB) Destroy() {}
func (w *memWB) Put(k []byte, v []byte) {
	w.ops = append(w.ops, wbOp{k: append([]byte{}, k...), v: append([]byte{}, v...)})
}
func (w *memWB) Delete(k []byte) { w.ops = append(w.ops, wbOp{del: true, k: append([]byte{}, k...)}) }
func (w *memWB) Clear()          { w.ops = w.ops[:0] }
func (w *memWB) Count() int      { return len(w.ops) }

func (s *memKV) sortedKeys() []string {
	ks := make([]string, 0, len(s.m))
	for k := range s.m {
		ks = append(ks, k)
	}
	sort.Strings(ks)
	return ks
}

func (s *memKV) iterate(fk []byte, lk []byte, inc bool, op func(key []byte, data []byte) (bool, error)) error {
	for _, k := range s.sortedKeys() {
		kb := []byte(k)
		if bytes.Compare(kb, fk) < 0 {
			continue
		}
		if c := bytes.Compare(kb, lk); c > 0 || (c == 0 && !inc) {
			return nil
		}
		cont, err := op(kb, s.m[k])
		if err != nil {
			return err
		}
		if !cont {
			break
		}
	}
	return nil
}

func (s *memKV) apply(w *memWB) {
	for _, o := range w.ops {
		if o.del {
			delete(s.m, string(o.k))
		} else {
			s.m[string(o.k)] = o.v
		}
	}
}

func (s *memKV) delRange(fk []byte, lk []byte) {
	for _, k := range s.sortedKeys() {
		kb := []byte(k)
		if bytes.Compare(kb, fk) >= 0 && bytes.Compare(kb, lk) < 0 {
			delete(s.m, k)
		}
	}
}

// ---------------------------------------------------------------------------
// faultKV: the recording / failing kv.IKVStore handed to the real LogDB

type crashSignal struct{}

var errInjected = errors.New("c10: injected KV I/O error")

type faultKV struct {
	inner   *memKV
	calls   int      // KV calls made so far (reads and writes)
	failAt  int      // -1 = never
	mode    string   // err | cb | ca
	fired   bool     // the fault has fired
	enabled bool     // faults and recording on
	trace   []string // rendered calls
	crashed bool
}

var _ hooks.IKVStore = (*faultKV)(nil)

func (f *faultKV) Name() string          { return "c10-faultkv" }
func (f *faultKV) Close() error          { return nil }
func (f *faultKV) FullCompaction() error { return nil }

// tick registers a call; it returns "" (go on), "err", "cb" or "ca".
func (f *faultKV) tick(rendered string) string {
	if !f.enabled {
		return ""
	}
	idx := f.calls
	f.calls++
	f.trace = append(f.trace, rendered)
	if idx == f.failAt && f.failAt >= 0 {
		f.fired = true
		return f.mode
	}
	return ""
}

func (f *faultKV) crash() {
	f.crashed = true
	panic(crashSignal{})
}

func (f *faultKV) IterateValue(fk []byte, lk []byte, inc bool, op func(key []byte, data []byte) (bool, error)) error {
	i := 0
	if inc {
		i = 1
	}
	switch f.tick(fmt.Sprintf("I(%s,%s,%d)", showKey(fk), showKey(lk), i)) {
	case "err":
		return errInjected
	case "cb", "ca":
		f.crash()
	}
	return f.inner.iterate(fk, lk, inc, op)
}

func (f *faultKV) GetValue(key []byte, op func([]byte) error) error {
	switch f.tick(fmt.Sprintf("G(%s)", showKey(key))) {
	case "err":
		return errInjected
	case "cb", "ca":
		f.crash()
	}
	return op(f.inner.m[string(key)])
}

func (f *faultKV) SaveValue(key []byte, value []byte) error {
	panic("c10: SaveValue is not used by the LogDB")
}

func (f *faultKV) DeleteValue(key []byte) error {
	panic("c10: DeleteValue is not used by the LogDB")
}

func (f *faultKV) GetWriteBatch() hooks.IWriteBatch { return &memWB{} }

func (f *faultKV) CommitWriteBatch(wb hooks.IWriteBatch) error {
	w := wb.(*memWB)
	var parts []string
	for _, o := range w.ops {
		if o.del {
			parts = append(parts, fmt.Sprintf("D(%s)", showKey(o.k)))
		} else {
			parts = append(parts, fmt.Sprintf("P(%s)=%s", showKey(o.k), showValue(o.k, o.v)))
		}
	}
	switch f.tick("C{" + strings.Join(parts, ",") + "}") {
	case "err":
		return errInjected
	case "cb":
		f.crash()
	case "ca":
		f.inner.apply(w)
		f.crash()
	}
	f.inner.apply(w)
	return nil
}

func (f *faultKV) BulkRemoveEntries(fk []byte, lk []byte) error {
	switch f.tick(fmt.Sprintf("X(%s,%s)", showKey(fk), showKey(lk))) {
	case "err":
		return errInjected
	case "cb":
		f.crash()
	case "ca":
		f.inner.delRange(fk, lk)
		f.crash()
	}
	f.inner.delRange(fk, lk)
	return nil
}

func (f *faultKV) CompactEntries(fk []byte, lk []byte) error { return nil }

// ---------------------------------------------------------------------------
// rendering of keys and values (the model driver prints the same text)

func showKey(k []byte) string {
	if len(k) != 20 && len(k) != 28 {
		return "badkey:" + fmt.Sprintf("%x", k)
	}
	if k[0] != k[1] || k[2] != 0 || k[3] != 0 {
		return "badkey:" + fmt.Sprintf("%x", k)
	}
	idx := uint64(0)
	if len(k) == 28 {
		idx = binary.BigEndian.Uint64(k[20:])
	}
	return fmt.Sprintf("%d:%d:%d:%d", k[0], binary.BigEndian.Uint64(k[4:]), binary.BigEndian.Uint64(k[12:]), idx)
}

func showStoredEntry(e pb.Entry) string {
	return fmt.Sprintf("e%d.%d.%d.%d", e.Index, e.Term, e.Key, len(e.Cmd))
}

func showValue(k []byte, v []byte) (out string) {
	defer func() {
		if r := recover(); r != nil {
			out = "undecodable"
		}
	}()
	switch k[0] {
	case 1:
		var e pb.Entry
		pb.MustUnmarshal(&e, v)
		return showStoredEntry(e)
	case 2:
		var st pb.State
		pb.MustUnmarshal(&st, v)
		return fmt.Sprintf("s%d.%d.%d", st.Term, st.Vote, st.Commit)
	case 3:
		if len(v) != 8 {
			return "badmax"
		}
		return fmt.Sprintf("m%d", binary.BigEndian.Uint64(v))
	case 5:
		var ss pb.Snapshot
		pb.MustUnmarshal(&ss, v)
		return fmt.Sprintf("n%d.%d.%d", ss.Index, ss.Term, ss.FileSize)
	case 6:
		return "b"
	case 7:
		var eb pb.EntryBatch
		pb.MustUnmarshal(&eb, v)
		var s []string
		for _, e := range eb.Entries {
			s = append(s, showStoredEntry(e))
		}
		return "[" + strings.Join(s, ",") + "]"
	}
	return "unknown"
}
