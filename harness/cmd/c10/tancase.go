package main

import "verif/harness/vh"

func genTanCases(r *vh.Rand, tier string, n int) []string { return nil }

func runTanLine(line string, obs *vh.LineWriter, st *vh.Stats) {}
