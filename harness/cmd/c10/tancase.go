package main

import (
	"bytes"
	"fmt"
	"strconv"
	"strings"

	hooks "github.com/lni/dragonboat/v4/verifhooks/c10"
	"verif/harness/vh"
)

// Tan record layer cases (the real writer/reader of internal/tan/record.go on
// byte buffers, through the hook VerifC10Frame / VerifC10Replay):
//
//	<id> tanframe | rec ; rec ; ...          frame the records, replay the frame
//	<id> tancut <c1,c2,..|all> | rec ; ...   replay frame[:c] for every listed cut
//	<id> tangarb <cut> <hex> | rec ; ...     replay frame[:cut] ++ garbage
//
// rec = R<len>:<seed> (generated content) or H<hex>.

func parseRecord(tok string) ([]byte, bool) {
	tok = strings.TrimSpace(tok)
	if len(tok) < 1 {
		return nil, false
	}
	switch tok[0] {
	case 'H':
		s := tok[1:]
		if s == "-" {
			return []byte{}, true
		}
		if len(s)%2 != 0 {
			return nil, false
		}
		for _, c := range s {
			if !strings.ContainsRune("0123456789abcdefABCDEF", c) {
				return nil, false
			}
		}
		return vh.UnHex(s), true
	case 'R':
		p := strings.Split(tok[1:], ":")
		if len(p) != 2 {
			return nil, false
		}
		l, e1 := strconv.Atoi(p[0])
		seed, e2 := strconv.Atoi(p[1])
		if e1 != nil || e2 != nil || l < 0 || l > 300000 || seed < 0 || seed > 1000000 {
			return nil, false
		}
		b := make([]byte, l)
		for j := range b {
			b[j] = byte((seed*131 + j*7 + (j/251)*13) & 255)
		}
		return b, true
	}
	return nil, false
}

func fnv(ls [][]byte) string {
	h := uint64(0xcbf29ce484222325)
	add := func(b byte) { h = (h ^ uint64(b)) * 0x100000001b3 }
	for _, l := range ls {
		n := len(l)
		for k := 0; k < 4; k++ {
			add(byte(n >> (8 * k)))
		}
		for _, b := range l {
			add(b)
		}
	}
	return fmt.Sprintf("%016x", h)
}

func showReplay(recs [][]byte, v string) string {
	return fmt.Sprintf("n=%d v=%s h=%s", len(recs), v, fnv(recs))
}

func isPrefix(got [][]byte, all [][]byte) bool {
	if len(got) > len(all) {
		return false
	}
	for i := range got {
		if !bytes.Equal(got[i], all[i]) {
			return false
		}
	}
	return true
}

func runTanLine(line string, obs *vh.LineWriter, st *vh.Stats) {
	head, body, _ := strings.Cut(line, " | ")
	hf := strings.Fields(head)
	id, kind, args := hf[0], hf[1], hf[2:]
	var recs [][]byte
	for _, t := range strings.Split(body, " ; ") {
		if strings.TrimSpace(t) == "" {
			continue
		}
		b, ok := parseRecord(t)
		if !ok {
			obs.Printf("%s badcase\n", id)
			return
		}
		recs = append(recs, b)
	}
	var fr []byte
	var ferr error
	if p := vh.Catch(func() { fr, ferr = hooks.TanFrame(recs) }); p != "" || ferr != nil {
		obs.Printf("%s frame failed\n", id)
		st.Violation(id, fmt.Sprintf("tan-record: the writer failed on an in-memory buffer: %s %v", p, ferr))
		return
	}
	// ends[j] = length of the frame of the first j records
	ends := make([]int, len(recs)+1)
	for j := 1; j <= len(recs); j++ {
		f, _ := hooks.TanFrame(recs[:j])
		ends[j] = len(f)
		if !bytes.Equal(f, fr[:len(f)]) {
			st.Violation(id, "tan-record: the frame of a prefix of the records is not a prefix of the frame")
		}
	}
	complete := func(cut int) int {
		j := 0
		for j < len(recs) && ends[j+1] <= cut {
			j++
		}
		return j
	}
	blk, _ := hooks.TanBlockSize()
	multi := len(fr) > blk
	for _, r := range recs {
		if len(r) > blk-14 {
			multi = true
		}
	}
	replay := func(data []byte) ([][]byte, string) {
		var got [][]byte
		var v string
		if p := vh.Catch(func() { got, v = hooks.TanReplay(data) }); p != "" {
			return nil, "panic"
		}
		return got, v
	}
	key := line[len(id):]
	st.Count("tan." + kind)
	switch {
	case kind == "tanframe" && len(args) == 0:
		hx := ""
		if len(fr) <= 512 {
			hx = " hex=" + vh.Hex(fr)
		}
		obs.Printf("%s frame len=%d fnv=%s%s\n", id, len(fr), fnv([][]byte{fr}), hx)
		got, v := replay(fr)
		obs.Printf("%s replay %s\n", id, showReplay(got, v))
		// MONITOR: replay (frame rs) = rs
		if v != "eof" || len(got) != len(recs) || !isPrefix(got, recs) {
			st.Violation(id, fmt.Sprintf("tan-record: replay of a complete log returned %d of %d records, verdict %s", len(got), len(recs), v))
		}
		st.Case(key, multi, line)
	case kind == "tancut" && len(args) == 1:
		var cuts []int
		if args[0] == "all" {
			for c := 0; c <= len(fr); c++ {
				cuts = append(cuts, c)
			}
		} else {
			for _, s := range strings.Split(args[0], ",") {
				c, err := strconv.Atoi(s)
				if err != nil {
					obs.Printf("%s badcase\n", id)
					return
				}
				cuts = append(cuts, c)
			}
		}
		torn := false
		for _, c := range cuts {
			if c < 0 || c > len(fr) {
				obs.Printf("%s cut=%d skipped\n", id, c)
				continue
			}
			got, v := replay(fr[:c])
			obs.Printf("%s cut=%d %s\n", id, c, showReplay(got, v))
			st.Count("tan.cut-verdict." + v)
			// MONITOR: exactly the complete records, and a verdict open() recovers from
			want := complete(c)
			if len(got) != want || !isPrefix(got, recs) {
				st.Violation(id, fmt.Sprintf("tan-record: log cut at byte %d of %d: replay returned %d records, %d are complete", c, len(fr), len(got), want))
			}
			if v != "eof" && !hooks.TanIsInvalidRecord(v) {
				st.Violation(id, fmt.Sprintf("tan-record: log cut at byte %d of %d: replay ends with %q which open() does not treat as a torn tail", c, len(fr), v))
			}
			if c != ends[want] {
				torn = true
			}
		}
		st.Case(key, torn, line)
	case kind == "tangarb" && len(args) == 2:
		c, err := strconv.Atoi(args[0])
		ok := err == nil
		var g []byte
		if ok {
			if _, gok := parseRecord("H" + args[1]); !gok {
				ok = false
			} else {
				g = vh.UnHex(args[1])
			}
		}
		if !ok {
			obs.Printf("%s badcase\n", id)
			return
		}
		if c < 0 || c > len(fr) {
			obs.Printf("%s garb skipped\n", id)
			return
		}
		data := append(append([]byte{}, fr[:c]...), g...)
		got, v := replay(data)
		obs.Printf("%s garb %s\n", id, showReplay(got, v))
		st.Count("tan.garb-verdict." + v)
		// MONITOR: the complete records are never lost, whatever follows them; what is
		// read beyond them is not checked here (garbage may happen to be a valid chunk)
		want := complete(c)
		if len(got) < want || !isPrefix(got[:want], recs) {
			st.Violation(id, fmt.Sprintf("tan-record: log cut at byte %d followed by garbage: replay returned %d records, %d are complete", c, len(got), want))
		}
		st.Case(key, true, line)
	default:
		obs.Printf("%s badcase\n", id)
	}
}

// ---------------------------------------------------------------------------

func recTok(l int, seed int) string { return fmt.Sprintf("R%d:%d", l, seed) }

func genTanCases(r *vh.Rand, tier string, n int) []string {
	blk, hdr := hooks.TanBlockSize()
	var out []string
	add := func(kind string, args string, recs []string) {
		id := fmt.Sprintf("t%d", len(out))
		if args != "" {
			args = " " + args
		}
		out = append(out, fmt.Sprintf("%s %s%s | %s", id, kind, args, strings.Join(recs, " ; ")))
	}
	smallRecs := func() []string {
		k := 1 + r.Intn(5)
		var rs []string
		for i := 0; i < k; i++ {
			switch r.Intn(6) {
			case 0:
				rs = append(rs, "H-")
			case 1:
				rs = append(rs, "H"+vh.Hex(r.Bytes(1+r.Intn(6))))
			default:
				rs = append(rs, recTok(r.Intn(40), r.Intn(1000)))
			}
		}
		return rs
	}
	// records whose chunks end near a block boundary
	bigRecs := func() []string {
		var rs []string
		pos := 0
		k := 2 + r.Intn(4)
		for i := 0; i < k; i++ {
			var l int
			room := blk - (pos % blk) - hdr
			switch r.Intn(7) {
			case 0: // ends exactly at the block end
				l = room
			case 1: // leaves 1..7 bytes in the block
				l = room - 1 - r.Intn(7)
			case 2: // one byte too many: first + last chunk
				l = room + 1 + r.Intn(3)
			case 3: // several blocks
				l = room + blk - hdr + r.Intn(3) - 1 + r.Intn(2)*(blk-hdr)
			case 4:
				l = r.Intn(100)
			default:
				l = r.Intn(blk / 2)
			}
			if l < 0 {
				l = 0
			}
			rs = append(rs, recTok(l, r.Intn(1000)))
			// approximate position bookkeeping (exact enough to aim at the boundaries)
			rem := l
			if blk-(pos%blk) < hdr {
				pos += blk - (pos % blk)
			}
			for {
				av := blk - (pos % blk) - hdr
				if rem <= av {
					pos += hdr + rem
					break
				}
				pos += hdr + av
				rem -= av
			}
		}
		return rs
	}
	ns, nb := 20, 6
	if tier == "thorough" {
		ns, nb = 600, 150
	}
	if n > 0 {
		ns, nb = n, n/4+1
	}
	for i := 0; i < ns; i++ {
		rs := smallRecs()
		add("tanframe", "", rs)
		add("tancut", "all", rs)
		// garbage tails: zeroes, random bytes, a bit flip of the tail of the frame
		g := r.Bytes(1 + r.Intn(24))
		if r.Chance(1, 3) {
			g = make([]byte, 1+r.Intn(40))
		}
		add("tangarb", fmt.Sprintf("%d %s", r.Intn(120), vh.Hex(g)), rs)
	}
	// records of 4-7 blocks (first, several middle, last chunk), as one update with a
	// 100-200 KB entry produces them
	nh := 2
	if tier == "thorough" {
		nh = 20
	}
	for i := 0; i < nh; i++ {
		rs := []string{recTok(r.Intn(60), r.Intn(1000)), recTok(100000+r.Intn(100000), r.Intn(1000)),
			recTok(r.Intn(40000), r.Intn(1000)), recTok(100000+r.Intn(100000), r.Intn(1000))}
		add("tanframe", "", rs)
		var cuts []string
		for j := 0; j < 12; j++ {
			cuts = append(cuts, strconv.Itoa(r.Intn(9*blk)))
		}
		for b := 2; b <= 5; b++ {
			cuts = append(cuts, strconv.Itoa(b*blk-1), strconv.Itoa(b*blk), strconv.Itoa(b*blk+hdr), strconv.Itoa(b*blk+hdr+1))
		}
		add("tancut", strings.Join(cuts, ","), rs)
	}
	for i := 0; i < nb; i++ {
		rs := bigRecs()
		add("tanframe", "", rs)
		// cuts around the block boundaries and at random places
		var cuts []string
		for b := 1; b <= 3; b++ {
			for d := -9; d <= 9; d++ {
				cuts = append(cuts, strconv.Itoa(b*blk+d))
			}
		}
		for j := 0; j < 25; j++ {
			cuts = append(cuts, strconv.Itoa(r.Intn(3*blk)))
		}
		add("tancut", strings.Join(cuts, ","), rs)
		g := r.Bytes(1 + r.Intn(24))
		add("tangarb", fmt.Sprintf("%d %s", r.Intn(2*blk), vh.Hex(g)), rs)
	}
	return out
}
