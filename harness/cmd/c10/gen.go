package main

import (
	"verif/harness/vh"
)

const statsRule = "three case families. kv: small operation sequences (SaveRaftState with several replicas, snapshots, RemoveEntriesTo, RemoveNodeData, ImportSnapshot, reopen) on the real sharded LogDB (plain and batched format) over a recording kv.IKVStore, run once fault-free and once for EVERY KV call index with an injected I/O error, a crash before and a crash after that call; tan*: record lists written by tan's record writer (sizes around the 32 KB block boundaries), replayed in full, at truncation points and with garbage tails; tanio: saves with 100-200 KB entries (records of 4-7 blocks) on the real Tan (regular, multiplexed) with an I/O error injected at EVERY log file Write call in turn; crashseq: sequences of power cuts and reopens (at least three opens, crashes right after an open with nothing written) on all four stores; crash: workloads on the real Pebble LogDB / Tan over the strict MemFS with a power cut at an FS operation. non-trivial = kv: the injected fault fired inside an operation (distinct by case text); tan: the log has a multi-chunk record or a torn tail; tanio: the write error fired; crash: the cut fell inside an operation (not after the workload)"

func sub(seed uint64, salt uint64) *vh.Rand {
	return vh.NewRand(vh.NewRand(seed).U64() ^ salt)
}

func gen(a vh.Args) {
	w := vh.Create(a.Cases)
	for _, l := range genKVCases(sub(a.Seed, 0x10a), a.Tier, a.N) {
		w.Printf("%s\n", l)
	}
	for _, l := range genTanCases(sub(a.Seed, 0x10b), a.Tier, a.N) {
		w.Printf("%s\n", l)
	}
	for _, l := range genTanIOCases(sub(a.Seed, 0x10d), a.Tier, a.N) {
		w.Printf("%s\n", l)
	}
	for _, l := range genNhFailCases(sub(a.Seed, 0x110), a.Tier, a.N) {
		w.Printf("%s\n", l)
	}
	for _, l := range genCrashTornCases(sub(a.Seed, 0x10f), a.Tier, a.N) {
		w.Printf("%s\n", l)
	}
	for _, l := range genCrashSeqCases(sub(a.Seed, 0x10e), a.Tier, a.N) {
		w.Printf("%s\n", l)
	}
	for _, l := range genCrashCases(sub(a.Seed, 0x10c), a.Tier, a.N) {
		w.Printf("%s\n", l)
	}
	w.Close()
}
