package main

import (
	"fmt"
	"strconv"
	"strings"
	"sync"

	"verif/harness/vh"
)

// Sequences of power cuts:
//
//	<id> crashseq <kind> <mlfs> | item ; item ; ...     item = an operation or CRASH
//
// CRASH = the power goes off now (everything that was not fsynced is dropped),
// the process is gone without closing the store, the store is reopened on the
// same disk. A crash can follow an open immediately (nothing written: the log
// file created by that open is empty) and crashes can follow each other; after
// every CRASH the store must open and every replica must read back exactly the
// acknowledged state (for the tan kinds the hard state may be any one written
// since the last fsynced one: commit-only updates are not fsynced by design).
// A final CRASH is always appended. The model side prints `<id> crashseq ok`.

func runCrashSeq(kind string, mlfs int64, items []string) (viol string, crashes int, emptyCrashes int) {
	mem := newCrashMem()
	fs := newPowerFS(mem, -1, false)
	s := &cstore{kind: kind, mlfs: mlfs, fs: fs}
	defer func() {
		_ = s.close()
		s.fs.kill()
	}()
	if w := s.open(); w != "" {
		return "cannot create the store: " + w, 0, 0
	}
	acked := newCrashRef()
	hist := newHsHist()
	sinceOpen := 0
	crash := func() string {
		crashes++
		if sinceOpen == 0 {
			emptyCrashes++
		}
		s.fs.powerOff()
		_ = s.close()
		s.fs.kill()
		mem.ResetToSyncedState()
		mem.SetIgnoreSyncs(false)
		s.fs = newPowerFS(mem, -1, false)
		sinceOpen = 0
		if w := s.open(); w != "" {
			return fmt.Sprintf("cannot reopen after crash #%d (%d crashes hit a store that had written nothing since its open): %s", crashes, emptyCrashes, w)
		}
		for n := 0; n < numNodes; n++ {
			want := expected(n, acked)
			got := s.observe(n, acked, &want)
			var allowed []string
			if isTanKind(kind) {
				allowed = hist[n]
			}
			if !sameObs(got, want, allowed) {
				return fmt.Sprintf("after crash #%d node %d reads back [%s] but the acknowledged state is [%s] hard state in %v",
					crashes, n, clip(s.observe(n, acked, nil).String()), clip(want.String()), hist[n])
			}
		}
		return ""
	}
	for k, it := range append(append([]string{}, items...), "CRASH") {
		if strings.TrimSpace(it) == "CRASH" {
			if w := crash(); w != "" {
				return w, crashes, emptyCrashes
			}
			continue
		}
		o := parseOp(it)
		if o.bad || o.Kind == "Q" || o.Kind == "RRS" || o.Kind == "GS" || !acked.wf(o) {
			continue
		}
		if isTanKind(kind) && o.Kind == "REMNODE" {
			continue // known finding tan-removal-not-durable
		}
		r, detail := s.exec(o)
		if r != "ok" {
			return fmt.Sprintf("item#%d %s failed without fault: %s %s", k, shortOp(o), r, detail), crashes, emptyCrashes
		}
		hist.apply(acked, o)
		acked.apply(o)
		sinceOpen++
		if o.Kind == "REOPEN" || o.Kind == "IMPORT" {
			sinceOpen = 0
		}
	}
	return "", crashes, emptyCrashes
}

type crashSeqResult struct {
	id, line, key, kind string
	ok                  bool
	viol                string
	crashes, empty      int
}

func runCrashSeqLines(lines []string, obs *vh.LineWriter, st *vh.Stats) {
	res := make([]crashSeqResult, len(lines))
	var wg sync.WaitGroup
	sem := make(chan struct{}, 12)
	for i, line := range lines {
		head, body, _ := strings.Cut(line, " | ")
		hf := strings.Fields(head)
		res[i] = crashSeqResult{id: hf[0], line: line, key: line[len(hf[0]):]}
		if len(hf) != 4 || (!isTanKind(hf[2]) && hf[2] != "plain" && hf[2] != "batched") {
			continue
		}
		mlfs, err := strconv.ParseInt(hf[3], 10, 64)
		if err != nil || mlfs < 0 {
			continue
		}
		res[i].ok, res[i].kind = true, hf[2]
		var items []string
		for _, t := range strings.Split(body, " ; ") {
			if strings.TrimSpace(t) != "" {
				items = append(items, t)
			}
		}
		wg.Add(1)
		go func(i int) {
			defer wg.Done()
			sem <- struct{}{}
			defer func() { <-sem }()
			r := &res[i]
			if p := vh.Catch(func() { r.viol, r.crashes, r.empty = runCrashSeq(r.kind, mlfs, items) }); p != "" {
				r.viol = "harness panic: " + p
			}
		}(i)
	}
	wg.Wait()
	for _, r := range res {
		if !r.ok {
			obs.Printf("%s badcase\n", r.id)
			continue
		}
		st.Count("crashseq.kind." + r.kind)
		st.Distribution["crashseq.crashes"] += r.crashes
		st.Distribution["crashseq.crash-with-nothing-written-since-open"] += r.empty
		st.Case(r.key, r.crashes >= 2, r.line)
		if r.viol == "" {
			obs.Printf("%s crashseq ok\n", r.id)
		} else {
			obs.Printf("%s crashseq VIOLATION\n", r.id)
			st.Violation(r.id, fmt.Sprintf("crash-sequence: kind=%s %s", r.kind, r.viol))
		}
	}
}

// sequences with at least three opens: crashes right after an open, crashes
// after a few saves, repeated
func genCrashSeqCases(r *vh.Rand, tier string, n int) []string {
	nw := 6
	if tier == "thorough" {
		nw = 60
	}
	if n > 0 {
		nw = n/8 + 1
	}
	var out []string
	for i := 0; i < nw; i++ {
		ref := newCrashRef()
		tag := uint64(0)
		var items []string
		save := func() {
			node := []int{0, 0, 1, 2}[r.Intn(4)]
			nd := &ref.nodes[node]
			u := update{N: node, I0: nd.last() + 1, St: hstate{Term: 1, Vote: 1, Commit: nd.last()}}
			for j := 0; j < 1+r.Intn(3); j++ {
				tag++
				u.Ents = append(u.Ents, ent{Index: u.I0 + uint64(j), Term: 1, Tag: tag, Len: uint64(8 + r.Intn(100))})
			}
			o := op{Kind: "SAVE", Ups: []update{u}}
			if ref.wf(o) {
				ref.apply(o)
				items = append(items, o.String())
			}
		}
		// the first patterns are fixed, the rest random
		var pattern []int // number of saves before each crash
		switch i {
		case 0:
			pattern = []int{0, 1, 0, 1}
		case 1:
			pattern = []int{1, 0, 0, 2}
		case 2:
			pattern = []int{0, 0, 1, 1}
		default:
			for j := 0; j < 3+r.Intn(3); j++ {
				pattern = append(pattern, []int{0, 0, 1, 2, 3}[r.Intn(5)])
			}
		}
		for _, k := range pattern {
			for j := 0; j < k; j++ {
				save()
			}
			if r.Chance(1, 6) {
				items = append(items, "REOPEN")
			}
			items = append(items, "CRASH")
		}
		save()
		body := strings.Join(items, " ; ")
		mlfs := []int64{0, 700}[r.Intn(2)]
		for _, kind := range []string{"tan", "tanmux", "plain", "batched"} {
			if tier != "thorough" && i >= 3 && (kind == "plain" || kind == "batched") {
				continue
			}
			out = append(out, fmt.Sprintf("cs%d.%s crashseq %s %d | %s", i, kind, kind, mlfs, body))
		}
	}
	return out
}
