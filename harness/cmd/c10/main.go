// C10 harness: crash atomicity and error propagation of the log stores.
//
// Three families of cases (second field of a case line):
//
//	kv     white-box: the real sharded LogDB (plain / batched entry format) over a
//	       harness supplied kv.IKVStore that records every KV call and can fail
//	       (error / crash before / crash after) the n-th call; compared with the
//	       faithful Coq model Model/LogDBFaulty.v (verdict of every operation, the
//	       KV call trace with batch contents, what is readable after recovery)
//	tan*   white-box: tan's record writer/reader (record.go) on byte buffers,
//	       compared with Model/TanRecord.v byte for byte / record for record
//	tanio  the real Tan over an FS that fails one log file Write call: records of
//	       several 32 KB blocks, every write index; a save that returned success
//	       must be completely readable after reopen
//	crash  black-box: the real Pebble LogDB and Tan over the strict in-memory
//	       file system, power cut at an FS operation, reopen, compare with the
//	       reference log {acked, acked + in-flight}
package main

import (
	"strings"

	"github.com/lni/dragonboat/v4/logger"
	"verif/harness/vh"
)

func caseKind(line string) string {
	f := strings.Fields(line)
	if len(f) < 2 {
		return ""
	}
	return f[1]
}

func main() {
	for _, n := range []string{"logdb", "tan", "pebblekv", "config", "dragonboat", "rsm", "raft", "transport", "grpc", "utils", "settings", "order"} {
		logger.GetLogger(n).SetLevel(logger.CRITICAL)
	}
	a := vh.ParseArgs()
	switch a.Mode {
	case "nhchild":
		nhChild(a)
	case "gen":
		gen(a)
	case "run":
		st := vh.NewStats(statsRule)
		obs := vh.Create(a.Out + "/impl.obs")
		var crashLines, crashSeqLines, nhLines []string
		for _, line := range vh.ReadLines(a.Cases) {
			switch k := caseKind(line); {
			case k == "kv":
				runKVLine(line, obs, st)
			case k == "tanio":
				runTanIOLine(line, obs, st)
			case strings.HasPrefix(k, "tan"):
				runTanLine(line, obs, st)
			case k == "crash":
				crashLines = append(crashLines, line)
			case k == "nhfail":
				nhLines = append(nhLines, line)
			case k == "crashtorn":
				runCrashTornLine(line, obs, st)
			case k == "crashseq":
				crashSeqLines = append(crashSeqLines, line)
			default:
				obs.Printf("%s badcase\n", strings.Fields(line)[0])
			}
		}
		runCrashLines(crashLines, a.Tier, obs, st)
		runCrashSeqLines(crashSeqLines, obs, st)
		runNhFailLines(nhLines, a.Out, obs, st)
		obs.Close()
		st.Write(a.Out)
	}
}
