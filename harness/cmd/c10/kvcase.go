package main

import "verif/harness/vh"

func genKVCases(r *vh.Rand, tier string, n int) []string { return nil }

func runKVLine(line string, obs *vh.LineWriter, st *vh.Stats) {}
