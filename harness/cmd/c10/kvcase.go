package main

import (
	"encoding/binary"
	"errors"
	"fmt"
	"strconv"
	"strings"

	"github.com/lni/dragonboat/v4/raftio"
	pb "github.com/lni/dragonboat/v4/raftpb"
	hooks "github.com/lni/dragonboat/v4/verifhooks/c10"
	"verif/harness/vh"
)

// White-box cases: `<id> kv <plain|batched> <failAt|all> <err|cb|ca|none|x> | op ; op ; ...`
//
// The real sharded LogDB (one shard) runs over faultKV. Mutating operations
// inside the contract (ref.wf) are executed until one does not return success
// (error, panic, crash); then the store is "recovered": a new LogDB instance is
// opened over the same durable map with the fault switched off, and hard
// state, snapshot record and the whole log of every replica are read back.
// failAt = all: the case is run once fault-free (the KV call trace of every
// operation is printed) and once for every KV call index and every fault kind.

func mkCmd(tag uint64, n uint64) []byte {
	b := make([]byte, n)
	binary.BigEndian.PutUint64(b, tag)
	for i := 8; i < len(b); i++ {
		b[i] = byte(tag) + byte(i)
	}
	return b
}

func mkEntry(e ent) pb.Entry {
	return pb.Entry{Index: e.Index, Term: e.Term, Key: e.Tag, Cmd: mkCmd(e.Tag, e.Len)}
}

func mkSnapshot(n int, ss snap) pb.Snapshot {
	return pb.Snapshot{Index: ss.Index, Term: ss.Term, FileSize: ss.Tag, ShardID: nodeIDs[n].Shard,
		Type: pb.RegularStateMachine, Filepath: fmt.Sprintf("snapshot-%d-%d", ss.Index, ss.Tag)}
}

func mkUpdate(u update) pb.Update {
	id := nodeIDs[u.N]
	r := pb.Update{ShardID: id.Shard, ReplicaID: id.Replica,
		State: pb.State{Term: u.St.Term, Vote: u.St.Vote, Commit: u.St.Commit}}
	if u.Ss.Index > 0 {
		r.Snapshot = mkSnapshot(u.N, u.Ss)
	}
	for _, e := range u.Ents {
		r.EntriesToSave = append(r.EntriesToSave, mkEntry(e))
	}
	return r
}

func readEnt(e pb.Entry) (ent, bool) {
	r := ent{Index: e.Index, Term: e.Term, Len: uint64(len(e.Cmd))}
	if len(e.Cmd) < 8 {
		return r, false
	}
	r.Tag = binary.BigEndian.Uint64(e.Cmd)
	want := mkCmd(r.Tag, r.Len)
	ok := e.Key == r.Tag
	for i := range want {
		if want[i] != e.Cmd[i] {
			ok = false
			break
		}
	}
	return r, ok
}

// kvStore is the real LogDB over a faultKV.
type kvStore struct {
	batched bool
	kv      *faultKV
	db      raftio.ILogDB
}

func (s *kvStore) open() error {
	var err error
	s.db, err = hooks.OpenLogDBOverKV(s.kv, s.batched)
	return err
}

func (s *kvStore) close() {
	if s.db != nil {
		_ = vh.Catch(func() { _ = s.db.Close() })
		s.db = nil
	}
}

func (s *kvStore) reopen() error {
	s.close()
	return s.open()
}

// exec runs one mutating operation: ok | err | panic | crash
func (s *kvStore) exec(o op) (res string, detail string) {
	var err error
	crashed := false
	p := ""
	func() {
		defer func() {
			if r := recover(); r != nil {
				if _, ok := r.(crashSignal); ok {
					crashed = true
				} else {
					p = fmt.Sprint(r)
				}
			}
		}()
		switch o.Kind {
		case "SAVE":
			var uds []pb.Update
			for _, u := range o.Ups {
				uds = append(uds, mkUpdate(u))
			}
			err = s.db.SaveRaftState(uds, nodeIDs[o.Ups[0].N].Shard%16+1)
		case "SNAP":
			id := nodeIDs[o.N]
			err = s.db.SaveSnapshots([]pb.Update{{ShardID: id.Shard, ReplicaID: id.Replica, Snapshot: mkSnapshot(o.N, o.Ss)}})
		case "REMTO":
			id := nodeIDs[o.N]
			err = s.db.RemoveEntriesTo(id.Shard, id.Replica, o.A)
		case "REMNODE":
			id := nodeIDs[o.N]
			err = s.db.RemoveNodeData(id.Shard, id.Replica)
		case "IMPORT":
			if err = s.reopen(); err != nil {
				return
			}
			id := nodeIDs[o.N]
			if err = s.db.ImportSnapshot(mkSnapshot(o.N, o.Ss), id.Replica); err != nil {
				return
			}
			err = s.reopen()
		case "REOPEN":
			err = s.reopen()
		}
	}()
	switch {
	case crashed:
		return "crash", ""
	case p != "":
		return "panic", p
	case err != nil:
		return "err", err.Error()
	}
	return "ok", ""
}

// readback: raw and canonical answers (see c09): GS, RRS(arg), Q(arg+1, 2^62, 2^62)
func (s *kvStore) gs(n int) string {
	id := nodeIDs[n]
	var ss pb.Snapshot
	var err error
	if p := vh.Catch(func() { ss, err = s.db.GetSnapshot(id.Shard, id.Replica) }); p != "" {
		return "panic"
	}
	if err != nil {
		return "err"
	}
	if pb.IsEmptySnapshot(ss) {
		return "none"
	}
	r := fmt.Sprintf("%d %d %d", ss.Index, ss.Term, ss.FileSize)
	if ss.Filepath != fmt.Sprintf("snapshot-%d-%d", ss.Index, ss.FileSize) || ss.ShardID != id.Shard {
		r += " corrupt-record"
	}
	return r
}

func (s *kvStore) rrs(n int, arg uint64) (raw string, canon string) {
	id := nodeIDs[n]
	var rs raftio.RaftState
	var err error
	if p := vh.Catch(func() { rs, err = s.db.ReadRaftState(id.Shard, id.Replica, arg) }); p != "" {
		return "panic", "panic"
	}
	if errors.Is(err, raftio.ErrNoSavedLog) {
		return "nostate", "nostate"
	}
	if err != nil {
		return "err", "err"
	}
	st := fmt.Sprintf("st=%d,%d,%d", rs.State.Term, rs.State.Vote, rs.State.Commit)
	raw = fmt.Sprintf("%s first=%d count=%d", st, rs.FirstIndex, rs.EntryCount)
	first, count := rs.FirstIndex, rs.EntryCount
	if count > 0 && first < arg+1 {
		cut := arg + 1 - first
		if cut >= count {
			count = 0
		} else {
			first, count = arg+1, count-cut
		}
	}
	if count == 0 {
		return raw, st + " count=0"
	}
	return raw, fmt.Sprintf("%s first=%d count=%d", st, first, count)
}

func (s *kvStore) q(n int, low uint64) string {
	id := nodeIDs[n]
	var es []pb.Entry
	var size uint64
	var err error
	if p := vh.Catch(func() {
		es, size, err = s.db.IterateEntries(nil, 0, id.Shard, id.Replica, low, 1<<62, 1<<62)
	}); p != "" {
		return "panic"
	}
	if err != nil {
		return "err"
	}
	var out []ent
	bad := ""
	for _, e := range es {
		r, ok := readEnt(e)
		if !ok {
			bad = " corrupt-payload"
		}
		out = append(out, r)
	}
	return fmt.Sprintf("%s %d%s", showEnts(out), size, bad)
}

// refAnswers: what a correct store answers about node n in reference state r
func refAnswers(r *ref, n int) (gs string, rrs string, q string) {
	m := r.nodes[n].marker
	return r.query(op{Kind: "GS", N: n}), r.query(op{Kind: "RRS", N: n, A: m}),
		r.query(op{Kind: "Q", N: n, A: m + 1, B: 1 << 62, C: 1 << 62})
}

func cloneRef(r *ref) *ref {
	c := &ref{nonCmd: r.nonCmd}
	for i := range r.nodes {
		n := r.nodes[i]
		c.nodes[i] = rnode{marker: n.marker, mterm: n.mterm, ents: append([]ent{}, n.ents...)}
		if n.st != nil {
			st := *n.st
			c.nodes[i].st = &st
		}
		if n.ss != nil {
			ss := *n.ss
			c.nodes[i].ss = &ss
		}
	}
	return c
}

type kvPassResult struct {
	calls     int
	fired     bool
	firedKind string // kind of the operation during which the fault fired
	violation string
}

// kvPass: one run of the operations with the specified fault.
func kvPass(id string, tag string, batched bool, failAt int, mode string, withCalls bool,
	ops []op, nonCmd uint64, obs *vh.LineWriter) kvPassResult {
	res := kvPassResult{}
	fk := &faultKV{inner: newMemKV(), failAt: failAt, mode: mode, enabled: true}
	s := &kvStore{batched: batched, kv: fk}
	if err := s.open(); err != nil {
		obs.Printf("%s %sopenfail\n", id, tag)
		res.violation = "cannot open the LogDB over the KV store: " + err.Error()
		return res
	}
	r := &ref{nonCmd: nonCmd}
	var inflight *op
	for k := range ops {
		o := ops[k]
		if o.bad {
			obs.Printf("%s %s%d ? bad\n", id, tag, k)
			continue
		}
		if o.Kind == "Q" || o.Kind == "RRS" || o.Kind == "GS" {
			continue
		}
		if !r.wf(o) {
			obs.Printf("%s %s%d %s nonwf\n", id, tag, k, o.Kind)
			continue
		}
		before := len(fk.trace)
		firedBefore := fk.fired
		out, detail := s.exec(o)
		if withCalls {
			calls := "-"
			if len(fk.trace) > before {
				calls = strings.Join(fk.trace[before:], " ")
			}
			obs.Printf("%s %s%d %s %s | %s\n", id, tag, k, o.Kind, out, calls)
		} else {
			obs.Printf("%s %s%d %s %s\n", id, tag, k, o.Kind, out)
		}
		if fk.fired && !firedBefore {
			res.fired = true
			res.firedKind = o.Kind
			// MONITOR: the storage layer reported an error during this operation
			if mode == "err" && out == "ok" && res.violation == "" {
				res.violation = fmt.Sprintf("failed-write-reported-as-success: store=%s op#%d %s returned success although KV call #%d (%s) failed",
					kindName(batched), k, o.String(), failAt, fk.trace[failAt])
			}
		}
		if out == "ok" {
			r.apply(o)
			continue
		}
		if !fk.fired && res.violation == "" {
			res.violation = fmt.Sprintf("operation failed without a fault: store=%s op#%d %s: %s %s", kindName(batched), k, o.String(), out, detail)
		}
		inflight = &ops[k]
		break
	}
	res.calls = fk.calls
	// recovery: a new instance over the durable map, no faults
	s.close()
	fk.enabled = false
	ra := r
	rb := r
	if inflight != nil {
		rb = cloneRef(r)
		rb.apply(*inflight)
	}
	if err := s.open(); err != nil {
		obs.Printf("%s %sR openfail\n", id, tag)
		if res.violation == "" {
			res.violation = "cannot reopen after the fault: " + err.Error()
		}
		return res
	}
	defer s.close()
	for n := 0; n < numNodes; n++ {
		gs := s.gs(n)
		obs.Printf("%s %sR %d GS %s\n", id, tag, n, gs)
		markers := []uint64{ra.nodes[n].marker}
		if rb.nodes[n].marker != markers[0] {
			markers = append(markers, rb.nodes[n].marker)
		}
		canonRRS := map[uint64]string{}
		qs := map[uint64]string{}
		for _, m := range markers {
			raw, canon := s.rrs(n, m)
			canonRRS[m] = canon
			obs.Printf("%s %sR %d RRS %d %s\n", id, tag, n, m, raw)
			qs[m] = s.q(n, m+1)
			obs.Printf("%s %sR %d Q %d %s\n", id, tag, n, m, qs[m])
		}
		// MONITOR: per replica the recovered store shows the acknowledged state or the
		// acknowledged state plus the complete operation in flight
		match := func(rr *ref) bool {
			wgs, wrrs, wq := refAnswers(rr, n)
			m := rr.nodes[n].marker
			return gs == wgs && canonRRS[m] == wrrs && qs[m] == wq
		}
		if !match(ra) && !match(rb) && res.violation == "" {
			wgs, wrrs, wq := refAnswers(ra, n)
			m := ra.nodes[n].marker
			what := "acknowledged-save-lost-or-torn"
			if inflight != nil {
				what = "recovered-state-is-neither-acked-nor-acked-plus-inflight"
			}
			res.violation = fmt.Sprintf("%s: store=%s fault=%s@%d node %d: recovered {GS %s | RRS %s | Q %s}, acknowledged state is {GS %s | RRS %s | Q %s}",
				what, kindName(batched), mode, failAt, n, gs, canonRRS[m], qs[m], wgs, wrrs, wq)
		}
	}
	return res
}

func kindName(batched bool) string {
	if batched {
		return "batched"
	}
	return "plain"
}

func runKVLine(line string, obs *vh.LineWriter, st *vh.Stats) {
	head, body, _ := strings.Cut(line, " | ")
	hf := strings.Fields(head)
	id := hf[0]
	if len(hf) != 5 || (hf[2] != "plain" && hf[2] != "batched") {
		obs.Printf("%s badcase\n", id)
		return
	}
	batched := hf[2] == "batched"
	var ops []op
	for _, t := range strings.Split(body, " ; ") {
		if strings.TrimSpace(t) != "" {
			ops = append(ops, parseOp(t))
		}
	}
	nonCmd := uint64((&pb.Entry{}).SizeUpperLimit())
	key := line[len(id):]
	st.Count("kv.store." + hf[2])
	report := func(r kvPassResult, mode string) {
		if r.violation != "" {
			st.Violation(id, r.violation)
		}
		if r.fired {
			st.Count("kv.fault-fired." + mode)
			st.Count("kv.fault-in." + r.firedKind)
		}
	}
	if hf[3] == "all" {
		r0 := kvPass(id, "", batched, -1, "", true, ops, nonCmd, obs)
		report(r0, "none")
		fired := false
		for i := 0; i < r0.calls; i++ {
			for _, m := range []string{"err", "cb", "ca"} {
				r := kvPass(id, fmt.Sprintf("F%d%s.", i, m), batched, i, m, false, ops, nonCmd, obs)
				report(r, m)
				fired = fired || r.fired
				st.Count("kv.fault-runs")
			}
		}
		st.Case(key, fired, line)
		return
	}
	if hf[4] == "none" {
		r := kvPass(id, "", batched, -1, "", true, ops, nonCmd, obs)
		report(r, "none")
		st.Case(key, false, line)
		return
	}
	at, err := strconv.Atoi(hf[3])
	if err != nil || at < 0 || (hf[4] != "err" && hf[4] != "cb" && hf[4] != "ca") {
		obs.Printf("%s badcase\n", id)
		return
	}
	r := kvPass(id, "", batched, at, hf[4], true, ops, nonCmd, obs)
	report(r, hf[4])
	st.Count("kv.fault-runs")
	st.Case(key, r.fired, line)
}

func opsText(ops []op) string {
	var s []string
	for _, o := range ops {
		s = append(s, o.String())
	}
	return strings.Join(s, " ; ")
}

func genKVCases(r *vh.Rand, tier string, n int) []string {
	nw := 14
	if tier == "thorough" {
		nw = 400
	}
	if n > 0 {
		nw = n
	}
	nonCmd := uint64((&pb.Entry{}).SizeUpperLimit())
	var out []string
	for i := 0; i < nw; i++ {
		target := 4 + r.Intn(6)
		ops := genWorkload(r, target, true, hooks.BatchSize(), nonCmd)
		body := opsText(ops)
		for _, kind := range []string{"plain", "batched"} {
			out = append(out, fmt.Sprintf("k%d.%s kv %s all x | %s", i, kind, kind, body))
		}
	}
	out = append(out, bigSaveCases("kv plain all x")...)
	return out
}

// bigSaveOps: one SaveRaftState call whose write batch holds more than 2048
// records: replica 0 brings 2060 small entries, replica 1 (listed after it) a
// new term, a commit index and the entries that commit index refers to. A save
// that is committed in pieces shows up as a second CommitWriteBatch call in the
// KV trace, and a fault between the pieces leaves replica 1 with the new hard
// state but without its entries.
func bigSaveOps() []op {
	u0 := update{N: 0, I0: 1, St: hstate{Term: 1, Vote: 1, Commit: 0}}
	for i := 0; i < 2060; i++ {
		u0.Ents = append(u0.Ents, ent{Index: uint64(1 + i), Term: 1, Tag: uint64(1000 + i), Len: 8})
	}
	first := update{N: 1, I0: 1, St: hstate{Term: 1, Vote: 1, Commit: 0},
		Ents: []ent{{Index: 1, Term: 1, Tag: 1, Len: 8}, {Index: 2, Term: 1, Tag: 2, Len: 8}}}
	u1 := update{N: 1, I0: 3, St: hstate{Term: 2, Vote: 1, Commit: 5},
		Ents: []ent{{Index: 3, Term: 2, Tag: 3, Len: 8}, {Index: 4, Term: 2, Tag: 4, Len: 8}, {Index: 5, Term: 2, Tag: 5, Len: 8}}}
	return []op{{Kind: "SAVE", Ups: []update{first}}, {Kind: "SAVE", Ups: []update{u0, u1}}}
}

func bigSaveCases(head string) []string {
	return []string{fmt.Sprintf("kbig %s | %s", head, opsText(bigSaveOps()))}
}
