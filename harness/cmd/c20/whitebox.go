package main

import (
	"errors"
	"fmt"
	"sort"
	"strings"

	"github.com/lni/dragonboat/v4/config"
	"github.com/lni/dragonboat/v4/raftio"
	pb "github.com/lni/dragonboat/v4/raftpb"
	"github.com/lni/dragonboat/v4/tools"
	hooks "github.com/lni/dragonboat/v4/verifhooks/c20"
	"verif/harness/vh"
)

// ---------------------------------------------------------------- cm

func memberErrTag(err error) string {
	if err == nil {
		return "OK"
	}
	s := err.Error()
	switch {
	case strings.Contains(s, "node address changed"):
		return "ADDRCHANGED"
	case strings.Contains(s, "nonVoting as regular"):
		return "NONVOTING"
	case strings.Contains(s, "witness as regular"):
		return "WITNESS"
	case strings.Contains(s, "removed node"):
		return "REMOVED"
	}
	return "ERR?" + strings.ReplaceAll(s, " ", "_")
}

func showSnapshotRecord(ss pb.Snapshot) string {
	files := make([]string, len(ss.Files))
	for i, f := range ss.Files {
		files[i] = fmt.Sprintf("%s/%d/%d/%s", vh.Hex([]byte(f.Filepath)), f.FileSize, f.FileId, vh.Hex(f.Metadata))
	}
	b := func(x bool) int {
		if x {
			return 1
		}
		return 0
	}
	return fmt.Sprintf("ccid=%d a=%s n=%s w=%s r=%s imported=%d index=%d term=%d fp=%s size=%d files=[%s] cksum=%s dummy=%d type=%d shard=%d ondisk=%d witness=%d",
		ss.Membership.ConfigChangeId, showMap(ss.Membership.Addresses), showMap(ss.Membership.NonVotings),
		showMap(ss.Membership.Witnesses), showSet(ss.Membership.Removed), b(ss.Imported), ss.Index, ss.Term,
		vh.Hex([]byte(ss.Filepath)), ss.FileSize, strings.Join(files, ","), vh.Hex(ss.Checksum), b(ss.Dummy),
		int(ss.Type), ss.ShardID, ss.OnDiskIndex, b(ss.Witness))
}

func parseOldSnapshot(f map[string]string) pb.Snapshot {
	ss := pb.Snapshot{
		Filepath: string(vh.UnHex(f["fp"])),
		FileSize: u64(f["size"]),
		Index:    u64(f["idx"]),
		Term:     u64(f["term"]),
		Membership: pb.Membership{
			ConfigChangeId: u64(f["ccid"]),
			Addresses:      parseMap(f["a"]),
			NonVotings:     parseMap(f["n"]),
			Witnesses:      parseMap(f["w"]),
			Removed:        parseSet(f["r"]),
		},
		Checksum:    vh.UnHex(f["cksum"]),
		Dummy:       f["dummy"] == "1",
		ShardID:     u64(f["shard"]),
		Type:        pb.StateMachineType(u64(f["type"])),
		OnDiskIndex: u64(f["ondisk"]),
		Witness:     f["witness"] == "1",
	}
	if f["files"] != "-" && f["files"] != "" {
		for i, p := range strings.Split(f["files"], ",") {
			ss.Files = append(ss.Files, &pb.SnapshotFile{Filepath: string(vh.UnHex(p)), FileSize: uint64(10 + i), FileId: uint64(i + 1), Metadata: []byte{byte(i)}})
		}
	}
	return ss
}

// the property's own predicate on one (old membership, list) pair, written
// independently of the code under test
func monitorMembers(old pb.Membership, members map[uint64]string, accepted bool, out pb.Membership, index uint64) []string {
	var v []string
	bad := false
	for id, a := range members {
		if o, ok := old.Addresses[id]; ok && o != a {
			bad = true
		}
		if _, ok := old.NonVotings[id]; ok {
			bad = true
		}
		if _, ok := old.Witnesses[id]; ok {
			bad = true
		}
		if _, ok := old.Removed[id]; ok {
			bad = true
		}
	}
	if bad && accepted {
		v = append(v, "member list that re-admits a removed replica or changes an address/kind was accepted")
	}
	if !bad && !accepted {
		v = append(v, "valid member list refused")
	}
	// the rewritten membership (computed by the tool whatever the verdict)
	if showMap(out.Addresses) != showMap(members) {
		v = append(v, "rewritten Addresses differ from the given list")
	}
	if len(out.NonVotings) != 0 || len(out.Witnesses) != 0 {
		v = append(v, "rewritten membership has non-voting members or witnesses")
	}
	want := map[uint64]bool{}
	for id := range old.Removed {
		want[id] = true
	}
	for _, m := range []map[uint64]string{old.Addresses, old.NonVotings, old.Witnesses} {
		for id := range m {
			if _, ok := members[id]; !ok {
				want[id] = true
			}
		}
	}
	if showSet(want) != showSet(out.Removed) {
		v = append(v, fmt.Sprintf("rewritten Removed %s, expected %s", showSet(out.Removed), showSet(want)))
	}
	if out.ConfigChangeId != index {
		v = append(v, "ConfigChangeId is not the snapshot index")
	}
	return v
}

func runCM(id, rest string, obs *vh.LineWriter, st *vh.Stats) {
	f := fields(rest)
	old := parseOldSnapshot(f)
	members := parseMap(f["m"])
	self := u64(f["self"])
	raddr := string(vh.UnHex(f["raddr"]))
	dst := string(vh.UnHex(f["dst"]))
	fs := hooks.NewMemFS()

	var serr error
	if p := vh.Catch(func() {
		serr = tools.VerifCheckImportSettings(config.NodeHostConfig{RaftAddress: raddr}, members, self)
	}); p != "" {
		obs.Printf("%s settings PANIC\n", id)
	} else if serr == nil {
		obs.Printf("%s settings OK\n", id)
	} else {
		// NOTLISTED / ADDR are both ErrInvalidMembers; told apart by the harness' own lookup
		tag := "ADDR"
		if _, ok := members[self]; !ok {
			tag = "NOTLISTED"
		}
		if !errors.Is(serr, tools.ErrInvalidMembers) {
			tag = "ERR?"
		}
		obs.Printf("%s settings %s\n", id, tag)
	}
	if a, ok := members[self]; (ok && a == raddr) != (serr == nil) {
		st.Violation(id, "checkImportSettings verdict differs from 'replica listed at its own address'")
	}

	var merr error
	if p := vh.Catch(func() { merr = tools.VerifCheckMembers(old.Membership, members) }); p != "" {
		obs.Printf("%s members PANIC\n", id)
	} else if merr == nil {
		obs.Printf("%s members OK\n", id)
	} else {
		obs.Printf("%s members ERR\n", id)
	}
	st.Count("members." + map[bool]string{true: "accepted", false: "refused"}[merr == nil])
	ids := make([]uint64, 0, len(members))
	for k := range members {
		ids = append(ids, k)
	}
	sort.Slice(ids, func(i, j int) bool { return ids[i] < ids[j] })
	for _, k := range ids {
		var e error
		p := vh.Catch(func() { e = tools.VerifCheckMembers(old.Membership, map[uint64]string{k: members[k]}) })
		tag := memberErrTag(e)
		if p != "" {
			tag = "PANIC"
		}
		st.Count("member." + tag)
		obs.Printf("%s member %d %s\n", id, k, tag)
	}
	var out pb.Snapshot
	if p := vh.Catch(func() { out = tools.VerifGetProcessedSnapshotRecord(dst, old, members, fs) }); p != "" {
		obs.Printf("%s processed PANIC\n", id)
		st.Violation(id, "getProcessedSnapshotRecord panicked: "+p)
	} else {
		obs.Printf("%s processed %s\n", id, showSnapshotRecord(out))
		for _, m := range monitorMembers(parseOldSnapshot(f).Membership, members, merr == nil, out.Membership, old.Index) {
			st.Violation(id, m)
		}
		if !out.Imported {
			st.Violation(id, "Imported flag not set on the processed record")
		}
		if out.Index != old.Index || out.Term != old.Term || string(out.Checksum) != string(old.Checksum) || out.Type != old.Type || out.ShardID != old.ShardID {
			st.Violation(id, "processed record does not identify the exported image (index/term/checksum/type/shard changed)")
		}
	}
	st.Case("cm "+rest, true, id+" cm "+rest)
}

// ---------------------------------------------------------------- img

// a genuine v2 header (1024 bytes) written by the real SnapshotWriter
func realHeader() []byte {
	fs := hooks.NewMemFS()
	if err := fs.MkdirAll("/h", 0755); err != nil {
		panic(err)
	}
	if err := hooks.WriteSnapshotFile("/h/x.gbsnap", []byte("abc"), fs); err != nil {
		panic(err)
	}
	return readFile(fs, "/h/x.gbsnap")[:hooks.HeaderSize]
}

func readFile(fs hooks.FS, p string) []byte {
	f, err := fs.Open(p)
	if err != nil {
		panic(err)
	}
	defer f.Close()
	fi, err := f.Stat()
	if err != nil {
		panic(err)
	}
	b := make([]byte, fi.Size())
	if len(b) > 0 {
		if _, err := f.ReadAt(b, 0); err != nil {
			panic(err)
		}
	}
	return b
}

func writeFile(fs hooks.FS, p string, data []byte) {
	f, err := fs.Create(p)
	if err != nil {
		panic(err)
	}
	if len(data) > 0 {
		if _, err := f.Write(data); err != nil {
			panic(err)
		}
	}
	if err := f.Sync(); err != nil {
		panic(err)
	}
	if err := f.Close(); err != nil {
		panic(err)
	}
}

var cachedHeader []byte

func runImg(id, rest string, obs *vh.LineWriter, st *vh.Stats) {
	f := fields(rest)
	body := vh.UnHex(f["body"])
	recorded := vh.UnHex(f["recorded"])
	if cachedHeader == nil {
		cachedHeader = realHeader()
	}
	// the model takes the header as 1024 zero bytes: the only header bytes the
	// checksum can reach (wrapped offset of a <4 byte payload area) are its
	// trailing padding; make sure of it
	for _, b := range cachedHeader[len(cachedHeader)-4:] {
		if b != 0 {
			panic("header padding is not zero")
		}
	}
	fs := hooks.NewMemFS()
	_ = fs.MkdirAll("/x", 0755)
	writeFile(fs, "/x/s.gbsnap", append(append([]byte{}, cachedHeader...), body...))
	var ok bool
	var err error
	p := vh.Catch(func() {
		ok, err = tools.VerifIsCompleteSnapshotImage("/x/s.gbsnap", pb.Snapshot{Checksum: recorded}, fs)
	})
	tag := "INCOMPLETE"
	switch {
	case p != "":
		tag = "PANIC"
	case err != nil:
		tag = "ERR"
	case ok:
		tag = "COMPLETE"
	}
	sum := "-"
	if s, e := hooks.GetV2PayloadChecksum("/x/s.gbsnap", fs); e == nil {
		sum = vh.Hex(s)
	}
	obs.Printf("%s image %s sum=%s\n", id, tag, sum)
	st.Count("image." + tag)
	// monitor: an image accepted as complete whose checksum of block CRCs is not the recorded one
	if tag == "COMPLETE" && sum != vh.Hex(recorded) {
		st.Violation(id, "image accepted although the recorded checksum does not match the file")
	}
	st.Case("img "+rest, tag == "COMPLETE" || tag == "INCOMPLETE", "")
}

// ---------------------------------------------------------------- loc

func runLoc(id, rest string, obs *vh.LineWriter, st *vh.Stats) {
	f := fields(rest)
	fs := hooks.NewMemFS()
	nfiles := 0
	if f["exists"] == "1" {
		_ = fs.MkdirAll("/src", 0755)
		if f["entries"] != "-" {
			for _, e := range strings.Split(f["entries"], ",") {
				p := strings.SplitN(e, ":", 2)
				name := string(vh.UnHex(p[0]))
				if p[1] == "d" {
					_ = fs.MkdirAll("/src/"+name, 0755)
				} else {
					writeFile(fs, "/src/"+name, []byte("x"))
					if strings.HasSuffix(name, hooks.SnapshotFileSuffix) {
						nfiles++
					}
				}
			}
		}
	}
	var fp string
	var err error
	p := vh.Catch(func() { fp, err = tools.VerifGetSnapshotFilepath("/src", fs) })
	switch {
	case p != "":
		obs.Printf("%s locate PANIC\n", id)
	case err == nil:
		obs.Printf("%s locate OK %s\n", id, vh.Hex([]byte(fs.PathBase(fp))))
	case errors.Is(err, tools.ErrPathNotExist):
		obs.Printf("%s locate NOTEXIST\n", id)
	case errors.Is(err, tools.ErrIncompleteSnapshot):
		obs.Printf("%s locate INCOMPLETE\n", id)
	default:
		obs.Printf("%s locate ERR\n", id)
	}
	if (err == nil && p == "") != (f["exists"] == "1" && nfiles == 1) {
		st.Violation(id, "getSnapshotFilepath accepted a directory that does not hold exactly one snapshot file (or refused one that does)")
	}
	st.Case("loc "+rest, true, "")
}

// ---------------------------------------------------------------- ext

// <id> ext files=<hexpath:size,...|-> entries=<hexname:f|d:size,...|->
func runExt(id, rest string, obs *vh.LineWriter, st *vh.Stats) {
	f := fields(rest)
	fs := hooks.NewMemFS()
	_ = fs.MkdirAll("/src", 0755)
	have := map[string]int64{}
	if f["entries"] != "-" {
		for _, e := range strings.Split(f["entries"], ",") {
			p := strings.Split(e, ":")
			name := string(vh.UnHex(p[0]))
			if p[1] == "d" {
				_ = fs.MkdirAll("/src/"+name, 0755)
				have[name] = -1
			} else {
				writeFile(fs, "/src/"+name, make([]byte, u64(p[2])))
				have[name] = int64(u64(p[2]))
			}
		}
	}
	var ss pb.Snapshot
	want := true
	if f["files"] != "-" {
		for i, e := range strings.Split(f["files"], ",") {
			p := strings.Split(e, ":")
			fp := string(vh.UnHex(p[0]))
			ss.Files = append(ss.Files, &pb.SnapshotFile{Filepath: fp, FileSize: u64(p[1]), FileId: uint64(i + 1)})
			if sz, ok := have[fs.PathBase(fp)]; !ok || sz != int64(u64(p[1])) {
				want = false
			}
		}
	}
	var ok bool
	var err error
	p := vh.Catch(func() { ok, err = tools.VerifHasAllExternalFiles(ss, "/src", fs) })
	switch {
	case p != "":
		obs.Printf("%s ext PANIC\n", id)
	case err != nil:
		obs.Printf("%s ext ERR\n", id)
	case ok:
		obs.Printf("%s ext COMPLETE\n", id)
	default:
		obs.Printf("%s ext INCOMPLETE\n", id)
	}
	if p == "" && err == nil && ok != want {
		st.Violation(id, "hasAllExternalFiles verdict differs from 'every recorded external file is present with its recorded size'")
	}
	st.Count("ext." + map[bool]string{true: "complete", false: "incomplete"}[ok])
	st.Case("ext "+rest, true, "")
}

func genExt(r *vh.Rand) string {
	names := []string{"external-file-1", "external-file-2", "external-file-3", "x"}
	sizes := []uint64{1, 9, 10, 100}
	var es, fl []string
	seen := map[string]bool{}
	for i := 0; i < r.Intn(5); i++ {
		nm := names[r.Intn(len(names))]
		if seen[nm] {
			continue
		}
		seen[nm] = true
		if r.Chance(1, 8) {
			es = append(es, vh.Hex([]byte(nm))+":d:0")
		} else {
			es = append(es, fmt.Sprintf("%s:f:%d", vh.Hex([]byte(nm)), sizes[r.Intn(len(sizes))]))
		}
	}
	for i := 0; i < r.Intn(4); i++ {
		nm := names[r.Intn(len(names))]
		sz := sizes[r.Intn(len(sizes))]
		// mostly consistent with the directory
		for _, e := range es {
			p := strings.Split(e, ":")
			if string(vh.UnHex(p[0])) == nm && p[1] == "f" && !r.Chance(1, 5) {
				sz = u64(p[2])
			}
		}
		fl = append(fl, fmt.Sprintf("%s:%d", vh.Hex([]byte("/old/host/snapshot-000A/"+nm)), sz))
	}
	j := func(l []string) string {
		if len(l) == 0 {
			return "-"
		}
		return strings.Join(l, ",")
	}
	return fmt.Sprintf("ext files=%s entries=%s", j(fl), j(es))
}

// ---------------------------------------------------------------- ls

const lsShard, lsReplica = 7, 3

func openDB(kind string, fs hooks.FS) raftio.ILogDB {
	var db raftio.ILogDB
	var err error
	if kind == "tan" {
		db, err = hooks.OpenTan(fs, "/db")
	} else {
		db, err = hooks.OpenPebble(fs, "/db", 2)
	}
	if err != nil {
		panic(err)
	}
	return db
}

func lsSnapshot(index, term, typ uint64) pb.Snapshot {
	return pb.Snapshot{Index: index, Term: term, ShardID: lsShard, Type: pb.StateMachineType(typ),
		Filepath: fmt.Sprintf("/ss/snapshot-%016X/snapshot-%016X.gbsnap", index, index), FileSize: 1234,
		Checksum: []byte{1, 2, 3, 4}, Imported: true,
		Membership: pb.Membership{ConfigChangeId: index, Addresses: map[uint64]string{lsReplica: "a3", 9: "a9"},
			Removed: map[uint64]bool{1: true}, NonVotings: map[uint64]string{}, Witnesses: map[uint64]string{}}}
}

func runLS(id, rest string, obs *vh.LineWriter, st *vh.Stats) {
	head, body := rest, ""
	if i := strings.Index(rest, "|"); i >= 0 {
		head, body = strings.TrimSpace(rest[:i]), strings.TrimSpace(rest[i+1:])
	}
	f := fields(head)
	kind := f["db"]
	imp := strings.Split(f["imp"], ",")
	ss := lsSnapshot(u64(imp[0]), u64(imp[1]), u64(imp[2]))
	fs := hooks.NewMemFS()
	db := openDB(kind, fs)
	closed := false
	defer func() {
		if !closed {
			_ = db.Close()
		}
	}()
	fail := func(stage string, e interface{}) {
		obs.Printf("%s ls %s FAILED\n", id, stage)
		st.Count("ls.history-failed")
		_ = e
	}
	maxHist := uint64(0)
	if body != "" {
		for n, op := range strings.Split(body, " ; ") {
			t := strings.Fields(op)
			if len(t) == 0 {
				continue
			}
			var err error
			p := vh.Catch(func() {
				switch t[0] {
				case "state":
					err = db.SaveRaftState([]pb.Update{{ShardID: lsShard, ReplicaID: lsReplica,
						State: pb.State{Term: u64(t[1]), Vote: u64(t[2]), Commit: u64(t[3])}}}, 1)
				case "ents":
					first, count, term := u64(t[1]), u64(t[2]), u64(t[3])
					ents := make([]pb.Entry, 0, count)
					for i := uint64(0); i < count; i++ {
						ents = append(ents, pb.Entry{Index: first + i, Term: term, Cmd: []byte{byte(i)}})
					}
					if first+count-1 > maxHist {
						maxHist = first + count - 1
					}
					err = db.SaveRaftState([]pb.Update{{ShardID: lsShard, ReplicaID: lsReplica,
						State: pb.State{Term: term, Commit: first}, EntriesToSave: ents}}, 1)
				case "snap":
					s := lsSnapshot(u64(t[1]), u64(t[2]), 1)
					s.Imported = false
					err = db.SaveSnapshots([]pb.Update{{ShardID: lsShard, ReplicaID: lsReplica, Snapshot: s}})
				case "boot":
					err = db.SaveBootstrapInfo(lsShard, lsReplica, pb.Bootstrap{Join: t[1] == "1",
						Type: pb.StateMachineType(u64(t[2])), Addresses: map[uint64]string{lsReplica: "a3"}})
				case "compact":
					// log compaction up to an index (what a replica does after its own snapshots)
					err = db.RemoveEntriesTo(lsShard, lsReplica, u64(t[1]))
				case "reopen":
					err = db.Close()
					db = openDB(kind, fs)
				}
			})
			if p != "" || err != nil {
				fail(fmt.Sprintf("op%d", n), p)
				return
			}
			st.Count("lsop." + t[0])
		}
	}
	// the tool runs in its own process: reopen, import, close
	if err := db.Close(); err != nil {
		fail("close", err)
		return
	}
	db = openDB(kind, fs)
	var ierr error
	p := vh.Catch(func() { ierr = db.ImportSnapshot(ss, lsReplica) })
	if p != "" {
		tag := "PANIC"
		if strings.Contains(p, "Unknown state machine type") {
			tag = "PANIC-UNKNOWN-TYPE"
		}
		obs.Printf("%s ls import %s\n", id, tag)
		st.Case("ls "+rest, false, "")
		return
	}
	if ierr != nil {
		obs.Printf("%s ls import ERR\n", id)
		st.Violation(id, "log store ImportSnapshot failed: "+ierr.Error())
		return
	}
	if err := db.Close(); err != nil {
		fail("close2", err)
		return
	}
	// the restarting NodeHost
	db = openDB(kind, fs)
	rs, rerr := db.ReadRaftState(lsShard, lsReplica, ss.Index)
	stateS := "NOLOG"
	if rerr == nil {
		stateS = fmt.Sprintf("%d/%d/%d count=%d", rs.State.Term, rs.State.Vote, rs.State.Commit, rs.EntryCount)
	} else if !errors.Is(rerr, raftio.ErrNoSavedLog) {
		stateS = "ERR"
	}
	got, gerr := db.GetSnapshot(lsShard, lsReplica)
	snapS := "ERR"
	if gerr == nil {
		snapS = fmt.Sprintf("%d/%d/imported=%v/type=%d/a=%s/r=%s", got.Index, got.Term, got.Imported, int(got.Type),
			showMap(got.Membership.Addresses), showSet(got.Membership.Removed))
	}
	bs, berr := db.GetBootstrapInfo(lsShard, lsReplica)
	bootS := "NONE"
	if berr == nil {
		bootS = fmt.Sprintf("join=%v/type=%d/addrs=%d", bs.Join, int(bs.Type), len(bs.Addresses))
	}
	// entries above the imported index must not be visible
	vis := -1
	var ents []pb.Entry
	hi := maxHist + 2
	if hi <= ss.Index+1 {
		hi = ss.Index + 2
	}
	pe := vh.Catch(func() {
		var e error
		ents, _, e = db.IterateEntries(nil, 0, lsShard, lsReplica, ss.Index+1, hi, 1<<30)
		if e != nil {
			ents = nil
		}
	})
	if pe == "" {
		vis = len(ents)
	}
	obs.Printf("%s ls post state=%s snap=%s boot=%s visible=%d\n", id, stateS, snapS, bootS, vis)
	// life after the repair: the replica is elected in a new term and appends
	// entries right above the imported index; they must be readable from the
	// running store and after one more restart
	life := uint64(3)
	if f["life"] != "" {
		life = u64(f["life"])
	}
	now, count, reopened := -1, -1, -1
	lifeOK := func(es []pb.Entry) int {
		for i, e := range es {
			if e.Index != ss.Index+1+uint64(i) || e.Term != ss.Term+1 {
				return -2
			}
		}
		return len(es)
	}
	pl := vh.Catch(func() {
		ne := make([]pb.Entry, 0, life)
		for i := uint64(0); i < life; i++ {
			ne = append(ne, pb.Entry{Index: ss.Index + 1 + i, Term: ss.Term + 1, Cmd: []byte("new")})
		}
		if e := db.SaveRaftState([]pb.Update{{ShardID: lsShard, ReplicaID: lsReplica,
			State: pb.State{Term: ss.Term + 1, Vote: lsReplica, Commit: ss.Index + life}, EntriesToSave: ne}}, 1); e != nil {
			return
		}
		if es, _, e := db.IterateEntries(nil, 0, lsShard, lsReplica, ss.Index+1, ss.Index+life+1, 1<<30); e == nil {
			now = lifeOK(es)
		}
		if e := db.Close(); e != nil {
			return
		}
		db = openDB(kind, fs)
		// ReadRaftState reports a range [FirstIndex, FirstIndex+EntryCount) that may
		// start at the snapshot index itself; what matters is where it ends
		if rs2, e := db.ReadRaftState(lsShard, lsReplica, ss.Index); e == nil && rs2.EntryCount > 0 {
			count = int(rs2.FirstIndex + rs2.EntryCount - 1 - ss.Index)
		}
		if es, _, e := db.IterateEntries(nil, 0, lsShard, lsReplica, ss.Index+1, ss.Index+life+1, 1<<30); e == nil {
			reopened = lifeOK(es)
		}
	})
	if life > 0 {
		obs.Printf("%s ls life now=%d count=%d reopened=%d\n", id, now, count, reopened)
		if pl != "" || now != int(life) || count != int(life) || reopened != int(life) {
			st.Violation(id, fmt.Sprintf("ENTRIES-AFTER-REPAIR-UNREADABLE: %d entries appended above the imported index %d: readable now %d, log range after restart ends %d above the index, readable after restart %d %s",
				life, ss.Index, now, count, reopened, pl))
		}
	}
	_ = db.Close()
	closed = true
	// monitor: the property's statement about the store after import
	if rerr != nil || rs.State.Term != ss.Term || rs.State.Commit != ss.Index || rs.State.Vote != 0 {
		st.Violation(id, "state after import is not (term, commit=index) of the image: "+stateS)
	}
	if rerr == nil && rs.EntryCount != 0 {
		st.Violation(id, "entries above the imported snapshot are still visible: "+stateS)
	}
	if vis > 0 {
		st.Violation(id, fmt.Sprintf("IterateEntries returns %d entries above the imported index", vis))
	}
	if gerr != nil || got.Index != ss.Index || got.Term != ss.Term || !got.Imported ||
		showMap(got.Membership.Addresses) != showMap(ss.Membership.Addresses) {
		st.Violation(id, "newest snapshot record after import is not the imported record: "+snapS)
	}
	if berr != nil || !bs.Join || bs.Type != ss.Type || len(bs.Addresses) != 0 {
		st.Violation(id, "bootstrap record after import is not Join with the image's type: "+bootS)
	}
	st.Case("ls "+rest, true, "")
}

// ---------------------------------------------------------------- gen

var addrPool = []string{"a1:1", "a2:1", "a3:1", "b1:9", "b2:9", "host-6:7", "A1:1", "x"}

func genID(r *vh.Rand) uint64 {
	if r.Chance(1, 12) {
		return r.BiasedU64()
	}
	return uint64(1 + r.Intn(9))
}

func genCM(r *vh.Rand) string {
	old := pb.Membership{Addresses: map[uint64]string{}, NonVotings: map[uint64]string{}, Witnesses: map[uint64]string{}, Removed: map[uint64]bool{}}
	n := 1 + r.Intn(7)
	for i := 0; i < n; i++ {
		id := genID(r)
		a := addrPool[r.Intn(len(addrPool))]
		wellFormed := !r.Chance(1, 15)
		if wellFormed {
			_, x1 := old.Addresses[id]
			_, x2 := old.NonVotings[id]
			_, x3 := old.Witnesses[id]
			if x1 || x2 || x3 || old.Removed[id] {
				continue
			}
		}
		switch r.Intn(6) {
		case 0, 1, 2:
			old.Addresses[id] = a
		case 3:
			old.NonVotings[id] = a
		case 4:
			old.Witnesses[id] = a
		default:
			old.Removed[id] = true
		}
	}
	keys := func(m map[uint64]string) []uint64 {
		var ks []uint64
		for k := range m {
			ks = append(ks, k)
		}
		sort.Slice(ks, func(i, j int) bool { return ks[i] < ks[j] })
		return ks
	}
	members := map[uint64]string{}
	voting := keys(old.Addresses)
	strategy := r.Intn(9)
	switch strategy {
	case 0: // subset of the old voting members
		for _, k := range voting {
			if r.Bool() {
				members[k] = old.Addresses[k]
			}
		}
	case 1: // entirely new
		for i := 0; i < 1+r.Intn(3); i++ {
			members[uint64(20+r.Intn(5))] = addrPool[r.Intn(len(addrPool))]
		}
	case 2: // single member
		if len(voting) > 0 && r.Bool() {
			k := voting[r.Intn(len(voting))]
			members[k] = old.Addresses[k]
		} else {
			members[uint64(20+r.Intn(5))] = addrPool[r.Intn(len(addrPool))]
		}
	case 3: // re-admit a removed id
		for k := range old.Removed {
			members[k] = addrPool[r.Intn(len(addrPool))]
			if r.Bool() {
				break
			}
		}
		for _, k := range voting {
			if r.Bool() {
				members[k] = old.Addresses[k]
			}
		}
	case 4: // changed address
		for _, m := range []map[uint64]string{old.Addresses, old.NonVotings, old.Witnesses} {
			for _, k := range keys(m) {
				if r.Chance(1, 2) {
					members[k] = m[k] + "0"
				} else if r.Chance(1, 2) {
					members[k] = m[k]
				}
			}
		}
	case 5: // changed kind: non-voting / witness listed at the same address
		for _, m := range []map[uint64]string{old.NonVotings, old.Witnesses} {
			for _, k := range keys(m) {
				if r.Chance(2, 3) {
					members[k] = m[k]
				}
			}
		}
		for _, k := range voting {
			if r.Bool() {
				members[k] = old.Addresses[k]
			}
		}
	case 6: // a mix of kept + new
		for _, k := range voting {
			if r.Chance(2, 3) {
				members[k] = old.Addresses[k]
			}
		}
		members[uint64(20+r.Intn(5))] = addrPool[r.Intn(len(addrPool))]
	case 7: // anything
		for i := 0; i < r.Intn(5); i++ {
			members[genID(r)] = addrPool[r.Intn(len(addrPool))]
		}
	default: // all old members of every kind, unchanged
		for _, m := range []map[uint64]string{old.Addresses, old.NonVotings, old.Witnesses} {
			for k, a := range m {
				members[k] = a
			}
		}
	}
	// the importing replica
	self := uint64(20 + r.Intn(5))
	mk := keys(members)
	if len(mk) > 0 && !r.Chance(1, 8) {
		self = mk[r.Intn(len(mk))]
	}
	raddr := members[self]
	if r.Chance(1, 8) || raddr == "" {
		raddr = addrPool[r.Intn(len(addrPool))]
	}
	idx := 1 + uint64(r.Intn(1000))
	if r.Chance(1, 10) {
		idx = r.BiasedU64()
	}
	dirs := []string{"/exp/snapshot-000000000000000A", "/data/export/s", "/e"}
	d := dirs[r.Intn(len(dirs))]
	fp := d + "/snapshot-000000000000000A.gbsnap"
	files := "-"
	if r.Chance(1, 3) {
		var fl []string
		for i := 0; i < 1+r.Intn(2); i++ {
			fl = append(fl, vh.Hex([]byte(fmt.Sprintf("%s/external-file-%d", d, i+1))))
		}
		files = strings.Join(fl, ",")
	}
	dsts := []string{"/nh/0000/snapshot-part-1/snapshot-1-3/snapshot-000000000000000A", "/t/final"}
	b := func(x bool) int {
		if x {
			return 1
		}
		return 0
	}
	return fmt.Sprintf("cm idx=%d term=%d ccid=%d a=%s n=%s w=%s r=%s fp=%s size=%d files=%s dst=%s self=%d raddr=%s m=%s dummy=%d type=%d shard=%d cksum=%s ondisk=%d witness=%d",
		idx, 1+r.Intn(20), r.Intn(1000), fmtMap(old.Addresses), fmtMap(old.NonVotings), fmtMap(old.Witnesses), fmtSet(old.Removed),
		vh.Hex([]byte(fp)), r.Intn(100000), files, vh.Hex([]byte(dsts[r.Intn(len(dsts))])), self, vh.Hex([]byte(raddr)), fmtMap(members),
		b(r.Chance(1, 10)), 1+r.Intn(3), 1+r.Intn(100), vh.Hex(r.Bytes(4)), r.Intn(50)*b(r.Chance(1, 3)), b(r.Chance(1, 10)))
}

func genImg(r *vh.Rand) string {
	fs := hooks.NewMemFS()
	_ = fs.MkdirAll("/g", 0755)
	n := r.Intn(48)
	if r.Chance(1, 6) {
		n = r.Intn(4)
	}
	payload := r.Bytes(n)
	if err := hooks.WriteSnapshotFile("/g/s.gbsnap", payload, fs); err != nil {
		panic(err)
	}
	sum, err := hooks.GetV2PayloadChecksum("/g/s.gbsnap", fs)
	if err != nil {
		sum = r.Bytes(4)
	}
	body := readFile(fs, "/g/s.gbsnap")[hooks.HeaderSize:]
	switch r.Intn(10) {
	case 0, 1, 2: // intact
	case 3: // one bit anywhere in the body
		if len(body) > 0 {
			body[r.Intn(len(body))] ^= 1 << uint(r.Intn(8))
		}
	case 4: // one bit in the block CRC
		if len(body) >= 20 {
			body[len(body)-20+r.Intn(4)] ^= 1 << uint(r.Intn(8))
		}
	case 5: // truncated
		body = body[:r.Intn(len(body)+1)]
	case 6: // extended
		body = append(body, r.Bytes(1+r.Intn(8))...)
	case 7: // wrong recorded checksum
		sum = r.Bytes(4)
	case 8: // recorded checksum of another length
		sum = sum[:r.Intn(4)]
	default: // one byte in the payload part
		if len(body) > 20 {
			body[r.Intn(len(body)-20)] ^= byte(1 + r.Intn(255))
		}
	}
	return fmt.Sprintf("img body=%s recorded=%s", vh.Hex(body), vh.Hex(sum))
}

func genLoc(r *vh.Rand) string {
	names := []string{"snapshot-000000000000000A.gbsnap", "x.gbsnap", "gbsnap", "snapshot.metadata",
		"external-file-1", "a.gbsnap.tmp", "y.GBSNAP", "d.gbsnap", "sub"}
	if r.Chance(1, 8) {
		return "loc exists=0 entries=-"
	}
	seen := map[string]bool{}
	var es []string
	for i := 0; i < r.Intn(5); i++ {
		nm := names[r.Intn(len(names))]
		if seen[nm] {
			continue
		}
		seen[nm] = true
		kind := "f"
		if (nm == "d.gbsnap" || nm == "sub") && r.Chance(2, 3) {
			kind = "d"
		}
		es = append(es, vh.Hex([]byte(nm))+":"+kind)
	}
	if len(es) == 0 {
		return "loc exists=1 entries=-"
	}
	return "loc exists=1 entries=" + strings.Join(es, ",")
}

func genLS(r *vh.Rand, kind string) string {
	if r.Chance(1, 4) {
		// a survivor that is ahead of the export: entries up to n, its own snapshot
		// at s, log compacted up to c, the export is older than that
		n := 4 + r.Intn(30)
		s := 2 + r.Intn(n-1)
		c := 1 + r.Intn(s)
		ops := []string{fmt.Sprintf("ents 1 %d 1", n), fmt.Sprintf("snap %d 1", s), fmt.Sprintf("compact %d", c)}
		if r.Bool() {
			ops = append(ops, "reopen")
		}
		if r.Bool() {
			ops = append(ops, fmt.Sprintf("ents %d %d 2", n+1, 1+r.Intn(3)))
		}
		idx := 1 + r.Intn(s)
		return fmt.Sprintf("ls db=%s imp=%d,%d,%d life=%d | %s", kind, idx, 1+r.Intn(3), 1+r.Intn(3), 1+r.Intn(6), strings.Join(ops, " ; "))
	}
	var ops []string
	last := uint64(0)
	term := uint64(1)
	lastSnap := uint64(0)
	n := 2 + r.Intn(8)
	compacted := false
	for i := 0; i < n; i++ {
		switch r.Intn(8) {
		case 0:
			ops = append(ops, fmt.Sprintf("state %d %d %d", term, r.Intn(4), last))
		case 1, 2, 3:
			first := last + 1
			if last > 2 && r.Chance(1, 4) {
				first = last - uint64(r.Intn(2))
				term++
			}
			cnt := uint64(1 + r.Intn(6))
			ops = append(ops, fmt.Sprintf("ents %d %d %d", first, cnt, term))
			last = first + cnt - 1
		case 4, 5:
			if last > lastSnap {
				idx := lastSnap + 1 + uint64(r.Intn(int(last-lastSnap)))
				ops = append(ops, fmt.Sprintf("snap %d %d", idx, term))
				lastSnap = idx
			}
		case 6:
			if r.Bool() {
				ops = append(ops, fmt.Sprintf("boot %d %d", r.Intn(2), 1+r.Intn(3)))
			} else if lastSnap > 0 {
				// the replica compacts its log behind its own snapshot
				ops = append(ops, fmt.Sprintf("compact %d", 1+r.Intn(int(lastSnap))))
				compacted = true
			}
		default:
			ops = append(ops, "reopen")
			if r.Chance(1, 2) {
				term++
			}
		}
	}
	// the imported image: below, at or above the newest stored snapshot record,
	// below / inside / above the stored log
	idx := uint64(1 + r.Intn(int(last)+4))
	if lastSnap > 0 && r.Chance(1, 2) {
		switch r.Intn(3) {
		case 0:
			idx = lastSnap
		case 1:
			idx = 1 + uint64(r.Intn(int(lastSnap)))
		default:
			idx = lastSnap + 1 + uint64(r.Intn(3))
		}
	}
	typ := 1 + r.Intn(3)
	if r.Chance(1, 15) {
		typ = 0
	}
	// a survivor whose own snapshot and compaction point are beyond the export
	if compacted && r.Bool() {
		idx = 1 + uint64(r.Intn(int(lastSnap)))
	}
	return fmt.Sprintf("ls db=%s imp=%d,%d,%d life=%d | %s", kind, idx, 1+r.Intn(int(term)+1), typ, 1+r.Intn(5), strings.Join(ops, " ; "))
}

func gen(a vh.Args) {
	r := vh.NewRand(a.Seed)
	w := vh.Create(a.Cases)
	defer w.Close()
	nCM, nImg, nLoc, nLS, nE2E := 400, 120, 60, 80, 4
	if a.Tier == "thorough" {
		nCM, nImg, nLoc, nLS, nE2E = 6000, 1500, 400, 800, 36
	}
	nExt := nLoc
	if a.N > 0 {
		nCM, nImg, nLoc, nLS = a.N, a.N/3+1, a.N/6+1, a.N/15+1
		nE2E = a.N/200 + 1
	}
	k := 0
	emit := func(s string) {
		w.Printf("c%d %s\n", k, s)
		k++
	}
	for i := 0; i < nCM; i++ {
		emit(genCM(r))
	}
	for i := 0; i < nImg; i++ {
		emit(genImg(r))
	}
	for i := 0; i < nLoc; i++ {
		emit(genLoc(r))
	}
	for i := 0; i < nExt; i++ {
		emit(genExt(r))
	}
	for i := 0; i < nLS; i++ {
		emit(genLS(r, []string{"pebble", "tan"}[i%2]))
	}
	for i := 0; i < nE2E; i++ {
		emit(genE2E(r, i, a.Tier))
	}
}
