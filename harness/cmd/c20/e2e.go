package main

import (
	"verif/harness/vh"
)

func genE2E(r *vh.Rand, i int, tier string) string { return "e2e skip" }

func runE2E(id, rest string, obs *vh.LineWriter, st *vh.Stats, a vh.Args) {
	obs.Printf("%s e2e SKIP\n", id)
}
