package main

// End-to-end run of the repair procedure on the real code, everything on one
// in-memory file system and the in-process channel transport:
//
//   NodeHost (1 replica) -> proposals -> membership history -> exported
//   snapshot -> more proposals -> stop -> trials (tools.ImportSnapshot on a
//   copy of the export with one file corrupted / deleted, or with a bad member
//   list; the target data directory is digested before and after) -> the real
//   import on every listed host -> restart -> membership, state, proposal.
//
// case line:
//   <id> e2e sm=regular|concurrent|ondisk db=pebble|tan props=<n> hist=<op,op|->
//        post=<0|1> old=<a=..;n=..;w=..;r=..> members=<map> | trial ; trial ...
//   wal=none|same|distinct: NodeHostConfig.WALDir of every host (unset, the
//             NodeHostDir, a directory of its own)
//   late=1:   after the export (and the post proposals) the survivor takes a
//             snapshot of its own and compacts its log beyond the export index
//   crash=<n>: power failures inside ImportSnapshot at up to n of its file-system
//             operations (crash.go), on the survivor and on one new host
//   comp=none|snappy: Config.SnapshotCompressionType of every replica
//   sess=1:   (regular / concurrent state machine) a registered client session
//             with a completed and an unacknowledged proposal is part of the
//             exported state and is used again on the repaired shard
//   hosts=3:  the shard really runs on three hosts; replicas 2 and 3 are stopped
//             for good before the export
//   hist ops: nv3 (add non-voting 3), nv5rm5 (add non-voting 5, remove it),
//             v2 (add voting 2: quorum is lost afterwards), w4 (add witness 4: ditto)
//   pre=<map>: the real repair first runs the tool with this preliminary list on
//             every host that is in both lists, then with the final list
//   trial:    <name> <corruption> <self> <raddr hex> <members map> [first=<replica>/<map>]
//             first=: an earlier ImportSnapshot of the intact export on the same
//             host (as <replica>, with <map>), no restart in between
//   corruptions: none del-snap extra-snap del-meta flip-meta:<k> trunc-meta
//             flip-crc:<bit> flip-hdr:<k> flip-pad:<k> flip-payload:<k>
//             flip-tail:<k> trunc:<k> append:<k> del-ext flip-ext:<k>
// observations:
//   <id> export OK old=<membership>
//   <id> trial <n> <name> REFUSED | ACCEPTED rec=<membership recorded in the log store> | FIRST-REFUSED
//   <id> import <replica> OK|ERR
//   <id> restart members=[..] nonvoting=[] witness=[] removed=[..] state=EXPORTED propose=OK
//   <id> session dup=CACHED next=OK
//   <id> restart2 members=[..] state=EXPORTED+LATER propose=OK     (every host stopped and started again)

import (
	"bytes"
	"context"
	"crypto/sha256"
	"errors"
	"fmt"
	"io"
	"path/filepath"
	"sort"
	"strings"
	"sync"
	"time"

	"github.com/lni/dragonboat/v4"
	"github.com/lni/dragonboat/v4/client"
	"github.com/lni/dragonboat/v4/config"
	chantrans "github.com/lni/dragonboat/v4/plugin/chan"
	tanplugin "github.com/lni/dragonboat/v4/plugin/tan"
	"github.com/lni/dragonboat/v4/raftio"
	pb "github.com/lni/dragonboat/v4/raftpb"
	sm "github.com/lni/dragonboat/v4/statemachine"
	"github.com/lni/dragonboat/v4/tools"
	hooks "github.com/lni/dragonboat/v4/verifhooks/c20"
	"verif/harness/vh"
)

const e2eShard = 1

var outDir string

// what the end-to-end run is doing (for the report of a panic)
var e2eStage string

// ---------------------------------------------------------------- transport

type chanFactory struct{}

func (chanFactory) Create(c config.NodeHostConfig, h raftio.MessageHandler, ch raftio.ChunkHandler) raftio.ITransport {
	return chantrans.NewChanTransport(c, h, ch)
}
func (chanFactory) Validate(string) bool { return true }

// ---------------------------------------------------------------- state machines

// kv is the state shared by the three state machine flavours: a map with a
// deterministic serialisation.
type kv struct {
	mu      sync.Mutex
	m       map[string]string
	applied uint64
}

func (k *kv) apply(cmd []byte, index uint64) {
	k.mu.Lock()
	defer k.mu.Unlock()
	p := strings.SplitN(string(cmd), "=", 2)
	if len(p) == 2 {
		k.m[p[0]] = p[1]
	}
	k.applied = index
}

func (k *kv) dump() string {
	k.mu.Lock()
	defer k.mu.Unlock()
	return dumpMap(k.m)
}

func dumpMap(m map[string]string) string {
	ks := make([]string, 0, len(m))
	for x := range m {
		ks = append(ks, x)
	}
	sort.Strings(ks)
	var sb strings.Builder
	for _, x := range ks {
		sb.WriteString(x + "=" + m[x] + "\n")
	}
	return sb.String()
}

func (k *kv) lookup(q interface{}) (interface{}, error) {
	if s, ok := q.(string); ok && s == "dump" {
		return k.dump(), nil
	}
	return nil, nil
}

func (k *kv) load(r io.Reader) error {
	b, err := io.ReadAll(r)
	if err != nil {
		return err
	}
	m := map[string]string{}
	for _, l := range strings.Split(string(b), "\n") {
		if p := strings.SplitN(l, "=", 2); len(p) == 2 {
			m[p[0]] = p[1]
		}
	}
	k.mu.Lock()
	k.m = m
	k.mu.Unlock()
	return nil
}

// regular state machine; its snapshots carry one external file
type regSM struct {
	kv
	fs      hooks.FS
	extDir  string
	extErr  *string
	withExt bool
}

func (s *regSM) Update(e sm.Entry) (sm.Result, error) {
	s.apply(e.Cmd, e.Index)
	return sm.Result{Value: e.Index}, nil
}
func (s *regSM) Lookup(q interface{}) (interface{}, error) { return s.lookup(q) }
func (s *regSM) SaveSnapshot(w io.Writer, fc sm.ISnapshotFileCollection, _ <-chan struct{}) error {
	d := s.dump()
	if s.withExt { // external files are hard-linked with os.Link: real file system only
		_ = s.fs.MkdirAll(s.extDir, 0755)
		p := s.fs.PathJoin(s.extDir, fmt.Sprintf("ext-%d.dat", time.Now().UnixNano()))
		writeFile(s.fs, p, []byte("EXT:"+d))
		fc.AddFile(1, p, []byte("extmeta"))
	}
	_, err := io.WriteString(w, d)
	return err
}
func (s *regSM) RecoverFromSnapshot(r io.Reader, files []sm.SnapshotFile, _ <-chan struct{}) error {
	if err := s.load(r); err != nil {
		return err
	}
	// the external file must have travelled with the image
	if !s.withExt {
		return nil
	}
	if len(files) != 1 {
		*s.extErr = fmt.Sprintf("%d external files on recovery", len(files))
	} else if got := string(readFile(s.fs, files[0].Filepath)); got != "EXT:"+s.dump() {
		*s.extErr = "external file content differs from the snapshot"
	}
	return nil
}
func (s *regSM) Close() error { return nil }

type concSM struct{ kv }

func (s *concSM) Update(es []sm.Entry) ([]sm.Entry, error) {
	for i := range es {
		s.apply(es[i].Cmd, es[i].Index)
		es[i].Result = sm.Result{Value: es[i].Index}
	}
	return es, nil
}
func (s *concSM) Lookup(q interface{}) (interface{}, error) { return s.lookup(q) }
func (s *concSM) PrepareSnapshot() (interface{}, error)     { return s.dump(), nil }
func (s *concSM) SaveSnapshot(c interface{}, w io.Writer, _ sm.ISnapshotFileCollection, _ <-chan struct{}) error {
	_, err := io.WriteString(w, c.(string))
	return err
}
func (s *concSM) RecoverFromSnapshot(r io.Reader, _ []sm.SnapshotFile, _ <-chan struct{}) error {
	return s.load(r)
}
func (s *concSM) Close() error { return nil }

// on-disk state machine: its "disk" is a registry that survives NodeHost
// restarts inside the harness process, keyed by host directory.
type diskImage struct {
	m       map[string]string
	applied uint64
}

var diskMu sync.Mutex
var disks = map[string]*diskImage{}

type diskSM struct {
	kv
	key string
}

func (s *diskSM) persist() {
	s.mu.Lock()
	c := map[string]string{}
	for k, v := range s.m {
		c[k] = v
	}
	a := s.applied
	s.mu.Unlock()
	diskMu.Lock()
	disks[s.key] = &diskImage{m: c, applied: a}
	diskMu.Unlock()
}
func (s *diskSM) Open(<-chan struct{}) (uint64, error) {
	diskMu.Lock()
	defer diskMu.Unlock()
	if d, ok := disks[s.key]; ok {
		s.m = map[string]string{}
		for k, v := range d.m {
			s.m[k] = v
		}
		s.applied = d.applied
		return d.applied, nil
	}
	return 0, nil
}
func (s *diskSM) Update(es []sm.Entry) ([]sm.Entry, error) {
	for i := range es {
		s.apply(es[i].Cmd, es[i].Index)
		es[i].Result = sm.Result{Value: es[i].Index}
	}
	s.persist()
	return es, nil
}
func (s *diskSM) Lookup(q interface{}) (interface{}, error) { return s.lookup(q) }
func (s *diskSM) Sync() error                               { return nil }
func (s *diskSM) PrepareSnapshot() (interface{}, error)     { return s.dump(), nil }
func (s *diskSM) SaveSnapshot(c interface{}, w io.Writer, _ <-chan struct{}) error {
	_, err := io.WriteString(w, c.(string))
	return err
}
func (s *diskSM) RecoverFromSnapshot(r io.Reader, _ <-chan struct{}) error {
	if err := s.load(r); err != nil {
		return err
	}
	s.persist()
	return nil
}
func (s *diskSM) Close() error { return nil }

// ---------------------------------------------------------------- NodeHost helpers

type world struct {
	disk   bool
	fs     hooks.FS
	root   string
	smKind string
	db     string
	wal    string // NodeHostConfig.WALDir: none | same (= NodeHostDir) | distinct
	comp   string // Config.SnapshotCompressionType: none | snappy
	extErr string
}

func (w *world) nhConfig(dir, addr string) config.NodeHostConfig {
	ex := config.GetDefaultExpertConfig()
	ex.LogDB = config.GetTinyMemLogDBConfig()
	ex.LogDB.Shards = 2
	ex.FS = w.fs
	ex.TransportFactory = chanFactory{}
	ex.Engine = config.EngineConfig{ExecShards: 2, CommitShards: 2, ApplyShards: 2, SnapshotShards: 2, CloseShards: 2}
	if w.db == "tan" {
		ex.LogDBFactory = tanplugin.Factory
		ex.LogDB.KVWriteBufferSize = 64 * 1024
	}
	// everything of one host lives below dir: the data directory and, when
	// configured, a separate low latency (WAL) directory
	cfg := config.NodeHostConfig{NodeHostDir: dir + "/data", RTTMillisecond: 2, RaftAddress: addr, Expert: ex}
	switch w.wal {
	case "same":
		cfg.WALDir = dir + "/data"
	case "distinct":
		cfg.WALDir = dir + "/wal"
	}
	return cfg
}

func (w *world) shardConfig(replica uint64) config.Config {
	c := config.Config{ShardID: e2eShard, ReplicaID: replica, ElectionRTT: 10, HeartbeatRTT: 1,
		SnapshotEntries: 0, CompactionOverhead: 2}
	if w.comp == "snappy" {
		c.SnapshotCompressionType = config.Snappy
	}
	return c
}

// proposeWith makes a proposal of a registered client session; as the client
// library asks, only a timed out proposal is retried (same series id).
func proposeWith(nh *dragonboat.NodeHost, cs *client.Session, cmd string) (sm.Result, error) {
	var res sm.Result
	var err error
	for i := 0; i < 40; i++ {
		ctx, cancel := ctxT(2 * time.Second)
		res, err = nh.SyncPropose(ctx, cs, []byte(cmd))
		cancel()
		if err == nil || !(errors.Is(err, dragonboat.ErrTimeout) || errors.Is(err, dragonboat.ErrShardNotReady) || errors.Is(err, dragonboat.ErrSystemBusy)) {
			return res, err
		}
		time.Sleep(20 * time.Millisecond)
	}
	return res, err
}

func (w *world) start(nh *dragonboat.NodeHost, dir string, replica uint64, initial map[uint64]string) error {
	cfg := w.shardConfig(replica)
	switch w.smKind {
	case "concurrent":
		return nh.StartConcurrentReplica(initial, false, func(uint64, uint64) sm.IConcurrentStateMachine {
			return &concSM{kv{m: map[string]string{}}}
		}, cfg)
	case "ondisk":
		return nh.StartOnDiskReplica(initial, false, func(uint64, uint64) sm.IOnDiskStateMachine {
			return &diskSM{kv: kv{m: map[string]string{}}, key: dir}
		}, cfg)
	}
	return nh.StartReplica(initial, false, func(uint64, uint64) sm.IStateMachine {
		return &regSM{kv: kv{m: map[string]string{}}, fs: w.fs, extDir: w.root + "/ext", extErr: &w.extErr, withExt: w.disk}
	}, cfg)
}

func waitLeader(nh *dragonboat.NodeHost, d time.Duration) bool {
	dl := time.Now().Add(d)
	for time.Now().Before(dl) {
		if _, _, ok, err := nh.GetLeaderID(e2eShard); err == nil && ok {
			return true
		}
		time.Sleep(5 * time.Millisecond)
	}
	return false
}

func ctxT(d time.Duration) (context.Context, context.CancelFunc) {
	return context.WithTimeout(context.Background(), d)
}

func propose(nh *dragonboat.NodeHost, cmd string) error {
	var err error
	for i := 0; i < 40; i++ {
		ctx, cancel := ctxT(2 * time.Second)
		_, err = nh.SyncPropose(ctx, nh.GetNoOPSession(e2eShard), []byte(cmd))
		cancel()
		if err == nil {
			return nil
		}
		time.Sleep(20 * time.Millisecond)
	}
	return err
}

func retry(f func(ctx context.Context) error) error {
	var err error
	for i := 0; i < 40; i++ {
		ctx, cancel := ctxT(2 * time.Second)
		err = f(ctx)
		cancel()
		if err == nil {
			return nil
		}
		time.Sleep(20 * time.Millisecond)
	}
	return err
}

// ---------------------------------------------------------------- file system helpers

func listTree(fs hooks.FS, dir string, out map[string][]byte) {
	names, err := fs.List(dir)
	if err != nil {
		return
	}
	for _, n := range names {
		p := fs.PathJoin(dir, n)
		fi, err := fs.Stat(p)
		if err != nil {
			out[p] = []byte("?stat")
			continue
		}
		if fi.IsDir() {
			out[p+"/"] = nil
			listTree(fs, p, out)
		} else {
			out[p] = readFile(fs, p)
		}
	}
}

// digest of every path and file content below dir (paths relative to dir)
func digestTree(fs hooks.FS, dir string) string {
	t := map[string][]byte{}
	listTree(fs, dir, t)
	ks := make([]string, 0, len(t))
	for k := range t {
		ks = append(ks, k)
	}
	sort.Strings(ks)
	h := sha256.New()
	for _, k := range ks {
		fmt.Fprintf(h, "%s\x00%d\x00", strings.TrimPrefix(k, dir), len(t[k]))
		h.Write(t[k])
	}
	return fmt.Sprintf("%x/%d", h.Sum(nil)[:8], len(ks))
}

// treeDiff names what differs between two listings of the same directory
func treeDiff(dir string, a, b map[string][]byte) string {
	var gone, added, changed []string
	for k, v := range a {
		if w, ok := b[k]; !ok {
			gone = append(gone, strings.TrimPrefix(k, dir))
		} else if !bytes.Equal(v, w) {
			changed = append(changed, strings.TrimPrefix(k, dir))
		}
	}
	for k := range b {
		if _, ok := a[k]; !ok {
			added = append(added, strings.TrimPrefix(k, dir))
		}
	}
	sort.Strings(gone)
	sort.Strings(added)
	sort.Strings(changed)
	ex := func(l []string) string {
		if len(l) == 0 {
			return ""
		}
		return " e.g. " + l[0]
	}
	return fmt.Sprintf("%d paths removed%s; %d added%s; %d changed%s", len(gone), ex(gone), len(added), ex(added), len(changed), ex(changed))
}

func copyTree(fs hooks.FS, src, dst string) {
	if err := fs.MkdirAll(dst, 0755); err != nil {
		panic(err)
	}
	names, err := fs.List(src)
	if err != nil {
		return
	}
	for _, n := range names {
		p := fs.PathJoin(src, n)
		fi, err := fs.Stat(p)
		if err != nil {
			continue
		}
		if fi.IsDir() {
			copyTree(fs, p, fs.PathJoin(dst, n))
		} else if n != "LOCK" {
			writeFile(fs, fs.PathJoin(dst, n), readFile(fs, p))
		} else {
			writeFile(fs, fs.PathJoin(dst, n), nil)
		}
	}
}

func flipAt(b []byte, off int, bit uint) []byte {
	c := append([]byte{}, b...)
	if len(c) == 0 {
		return c
	}
	if off < 0 {
		off = 0
	}
	c[off%len(c)] ^= 1 << (bit % 8)
	return c
}

// applyCorruption changes exactly one file of the copied export directory.
// Offsets are relative to the region named by the corruption.
func applyCorruption(fs hooks.FS, dir string, c string, ssFile string, extFile string) {
	name, arg := c, 0
	if i := strings.Index(c, ":"); i >= 0 {
		name = c[:i]
		arg = int(u64(c[i+1:]))
	}
	sp := fs.PathJoin(dir, ssFile)
	mp := fs.PathJoin(dir, hooks.MetadataFilename)
	switch name {
	case "none":
	case "del-snap":
		_ = fs.RemoveAll(sp)
	case "extra-snap":
		writeFile(fs, fs.PathJoin(dir, "copy-of-"+ssFile), readFile(fs, sp))
	case "del-meta":
		_ = fs.RemoveAll(mp)
	case "flip-meta":
		writeFile(fs, mp, flipAt(readFile(fs, mp), arg, uint(arg)))
	case "trunc-meta":
		writeFile(fs, mp, readFile(fs, mp)[:4])
	case "del-ext":
		_ = fs.RemoveAll(fs.PathJoin(dir, extFile))
	case "flip-ext":
		ep := fs.PathJoin(dir, extFile)
		writeFile(fs, ep, flipAt(readFile(fs, ep), arg, uint(arg)))
	default:
		b := readFile(fs, sp)
		hdrLen := int(uint64(b[0]) | uint64(b[1])<<8) // marshaled header size (little endian, < 1016)
		payloadEnd := len(b) - 16 - 4                 // one block: payload | crc(4) | tail(16)
		switch name {
		case "flip-crc":
			b = flipAt(b, payloadEnd+arg%4, uint(arg/4))
		case "flip-hdr": // length field, marshaled header, header crc
			b = flipAt(b, arg%(8+hdrLen+4), uint(arg))
		case "flip-pad": // the unused rest of the 1024 byte header block
			pad := int(hooks.HeaderSize) - (8 + hdrLen + 4)
			b = flipAt(b, 8+hdrLen+4+arg%pad, uint(arg))
		case "flip-payload":
			n := payloadEnd - int(hooks.HeaderSize)
			if n > 0 {
				b = flipAt(b, int(hooks.HeaderSize)+arg%n, uint(arg))
			}
		case "flip-tail":
			b = flipAt(b, len(b)-16+arg%16, uint(arg))
		case "trunc":
			k := 1 + arg%(len(b)-1)
			b = b[:len(b)-k]
		case "append":
			b = append(b, bytes.Repeat([]byte{0x5a}, 1+arg%9)...)
		default:
			panic("unknown corruption " + c)
		}
		writeFile(fs, sp, b)
	}
}

// ---------------------------------------------------------------- the run

type trial struct {
	name, corruption string
	self             uint64
	raddr            string
	members          map[uint64]string
	// an earlier import on the same host, without a restart in between:
	// first=<replica>/<member map>
	hasFirst     bool
	firstSelf    uint64
	firstMembers map[uint64]string
}

func parseTrial(s string) trial {
	f := strings.Fields(s)
	t := trial{name: f[0], corruption: f[1], self: u64(f[2]), raddr: string(vh.UnHex(f[3])), members: parseMap(f[4])}
	if len(f) > 5 && strings.HasPrefix(f[5], "first=") {
		p := strings.SplitN(strings.TrimPrefix(f[5], "first="), "/", 2)
		t.hasFirst, t.firstSelf, t.firstMembers = true, u64(p[0]), parseMap(p[1])
	}
	return t
}

// readRecordAsNodeHost opens the host's log store through the real
// NodeHost.createLogDB (not the way the tool opens it) and returns the newest
// snapshot record of the replica.
func readRecordAsNodeHost(cfg config.NodeHostConfig, replica uint64) (pb.Snapshot, error) {
	db, closer, err := dragonboat.VerifC20OpenLogDB(cfg)
	if err != nil {
		return pb.Snapshot{}, err
	}
	ss, err := db.GetSnapshot(e2eShard, replica)
	if cerr := closer(); err == nil {
		err = cerr
	}
	return ss, err
}

// the snapshot record a restarting NodeHost is going to find, as the harness prints it
func showRecorded(ss pb.Snapshot, index uint64) string {
	cc := "OTHER"
	if ss.Membership.ConfigChangeId == index && ss.Index == index {
		cc = "INDEX"
	}
	return fmt.Sprintf("a=%s/n=%s/w=%s/r=%s/imported=%v/ccid=%s", showMap(ss.Membership.Addresses),
		showMap(ss.Membership.NonVotings), showMap(ss.Membership.Witnesses), showSet(ss.Membership.Removed), ss.Imported, cc)
}

func expectedRemoved(old pb.Membership, members map[uint64]string) map[uint64]bool {
	want := map[uint64]bool{}
	for k := range old.Removed {
		want[k] = true
	}
	for _, m := range []map[uint64]string{old.Addresses, old.NonVotings, old.Witnesses} {
		for k := range m {
			if _, ok := members[k]; !ok {
				want[k] = true
			}
		}
	}
	return want
}

func showOld(m pb.Membership) string {
	return fmt.Sprintf("a=%s;n=%s;w=%s;r=%s", fmtMap(m.Addresses), fmtMap(m.NonVotings), fmtMap(m.Witnesses), fmtSet(m.Removed))
}

func addrOf(replica uint64) string { return fmt.Sprintf("a%d:1", replica) }

func runE2E(id, rest string, obs *vh.LineWriter, st *vh.Stats, a vh.Args) {
	if strings.HasPrefix(rest, "skip") {
		obs.Printf("%s e2e SKIP\n", id)
		return
	}
	var lines []string
	out := func(format string, args ...interface{}) { lines = append(lines, fmt.Sprintf(id+" "+format, args...)) }
	outDir, _ = filepath.Abs(a.Out)
	p := vh.Catch(func() { e2e(id, rest, out, st) })
	for _, l := range lines {
		obs.Printf("%s\n", l)
	}
	if p != "" {
		// a panic of the real code while the harness drives it (NewNodeHost, start of
		// a replica, the import tool outside a trial)
		obs.Printf("%s e2e PANIC\n", id)
		msg := strings.ReplaceAll(p, "\n", " ")
		if len(msg) > 300 {
			msg = msg[:300]
		}
		st.Violation(id, "PANIC-DURING-REPAIR: the real code panicked at stage '"+e2eStage+"': "+msg)
	}
}

func e2e(id, rest string, out func(string, ...interface{}), st *vh.Stats) {
	head, body := rest, ""
	if i := strings.Index(rest, "|"); i >= 0 {
		head, body = strings.TrimSpace(rest[:i]), strings.TrimSpace(rest[i+1:])
	}
	f := fields(head)
	fs := hooks.NewMemFS()
	w := &world{fs: fs, root: "/c20/" + id, smKind: f["sm"], db: f["db"], wal: f["wal"], comp: f["comp"]}
	st.Count("e2e.wal." + map[bool]string{true: "none", false: w.wal}[w.wal == ""])
	if f["fs"] == "disk" {
		// the operating system's file system, below the run's output directory
		fs = hooks.DefaultFS()
		w.fs, w.disk = fs, true
		w.root = outDir + "/e2e-" + id
		_ = fs.RemoveAll(w.root)
		defer func() { _ = fs.RemoveAll(w.root) }()
	}
	st.Count("e2e.fs." + map[bool]string{true: "disk", false: "mem"}[w.disk])
	nprops := int(u64(f["props"]))
	finalMembers := parseMap(f["members"])
	preMembers := map[uint64]string{}
	if f["pre"] != "" && f["pre"] != "-" {
		preMembers = parseMap(f["pre"])
	}
	st.Count("e2e.sm." + w.smKind)
	st.Count("e2e.db." + w.db)

	e2eStage = "life before the export"
	// ---- the shard before the loss of quorum
	dir1 := w.root + "/nh1"
	nhc1 := w.nhConfig(dir1, addrOf(1))
	nh, err := dragonboat.NewNodeHost(nhc1)
	if err != nil {
		out("export FAILED newnodehost")
		return
	}
	closed := false
	defer func() {
		if !closed {
			nh.Close()
		}
	}()
	initial := map[uint64]string{1: addrOf(1)}
	var gone []*dragonboat.NodeHost // the replicas that are going to be lost
	defer func() {
		for _, g := range gone {
			g.Close()
		}
	}()
	if f["hosts"] == "3" {
		// a real three replica shard; replicas 2 and 3 are lost for good before the export
		initial = map[uint64]string{1: addrOf(1), 2: addrOf(2), 3: addrOf(3)}
		for _, k := range []uint64{2, 3} {
			d := fmt.Sprintf("%s/gone%d", w.root, k)
			g, err := dragonboat.NewNodeHost(w.nhConfig(d, addrOf(k)))
			if err != nil {
				out("export FAILED newnodehost %d", k)
				return
			}
			gone = append(gone, g)
			if err := w.start(g, d, k, initial); err != nil {
				out("export FAILED start %d", k)
				return
			}
		}
		st.Count("e2e.hosts3")
	}
	if err := w.start(nh, dir1, 1, initial); err != nil {
		out("export FAILED start")
		return
	}
	if !waitLeader(nh, 10*time.Second) {
		out("export FAILED noleader")
		return
	}
	for i := 0; i < nprops; i++ {
		if err := propose(nh, fmt.Sprintf("k%d=v%d", i, i)); err != nil {
			out("export FAILED propose")
			return
		}
	}
	// a registered client session with one completed proposal and one whose
	// reply the client never saw: both are part of the exported state
	var cs *client.Session
	var pending sm.Result
	if f["sess"] == "1" && w.smKind != "ondisk" {
		if err := retry(func(ctx context.Context) error {
			var e error
			cs, e = nh.SyncGetSession(ctx, e2eShard)
			return e
		}); err != nil {
			out("export FAILED session")
			return
		}
		if _, err := proposeWith(nh, cs, "sess1=a"); err != nil {
			out("export FAILED session-propose")
			return
		}
		cs.ProposalCompleted()
		var err error
		if pending, err = proposeWith(nh, cs, "sess2=b"); err != nil {
			out("export FAILED session-propose")
			return
		}
		st.Count("e2e.session")
	}
	// a local snapshot: the host's existing data then has a snapshot directory
	// and a snapshot record of its own
	if err := retry(func(ctx context.Context) error {
		_, e := nh.SyncRequestSnapshot(ctx, e2eShard, dragonboat.SnapshotOption{})
		return e
	}); err != nil {
		out("export FAILED local-snapshot")
		return
	}
	if err := propose(nh, "afterlocal=1"); err != nil {
		out("export FAILED propose")
		return
	}
	if f["hist"] != "-" && f["hist"] != "" {
		for _, h := range strings.Split(f["hist"], ",") {
			var err error
			switch h {
			case "nv3":
				err = retry(func(ctx context.Context) error { return nh.SyncRequestAddNonVoting(ctx, e2eShard, 3, addrOf(3), 0) })
			case "nv5rm5":
				err = retry(func(ctx context.Context) error { return nh.SyncRequestAddNonVoting(ctx, e2eShard, 5, addrOf(5), 0) })
				if err == nil {
					err = retry(func(ctx context.Context) error { return nh.SyncRequestDeleteReplica(ctx, e2eShard, 5, 0) })
				}
			case "v2":
				err = retry(func(ctx context.Context) error { return nh.SyncRequestAddReplica(ctx, e2eShard, 2, addrOf(2), 0) })
			case "w4":
				err = retry(func(ctx context.Context) error { return nh.SyncRequestAddWitness(ctx, e2eShard, 4, addrOf(4), 0) })
			}
			if err != nil {
				out("export FAILED hist-%s", h)
				return
			}
			st.Count("e2e.hist." + h)
		}
	}
	// the quorum is lost
	for _, g := range gone {
		g.Close()
	}
	gone = nil
	exportDir := w.root + "/export"
	_ = fs.MkdirAll(exportDir, 0755)
	var index uint64
	if err := retry(func(ctx context.Context) error {
		var e error
		index, e = nh.SyncRequestSnapshot(ctx, e2eShard, dragonboat.SnapshotOption{Exported: true, ExportPath: exportDir})
		return e
	}); err != nil {
		out("export FAILED snapshot")
		return
	}
	v, err := nh.StaleRead(e2eShard, "dump")
	if err != nil {
		out("export FAILED staleread")
		return
	}
	exported := v.(string)
	if f["post"] == "1" {
		for i := 0; i < 3; i++ {
			if err := propose(nh, fmt.Sprintf("post%d=lost", i)); err != nil {
				out("export FAILED post-propose")
				return
			}
		}
	}
	if f["late"] == "1" {
		// the survivor goes on: its own snapshot and its log compaction point end up
		// beyond the index of the export
		for i := 0; i < 4; i++ {
			if err := propose(nh, fmt.Sprintf("late%d=lost", i)); err != nil {
				out("export FAILED late-propose")
				return
			}
		}
		if err := retry(func(ctx context.Context) error {
			_, e := nh.SyncRequestSnapshot(ctx, e2eShard, dragonboat.SnapshotOption{OverrideCompactionOverhead: true, CompactionOverhead: 1})
			return e
		}); err != nil {
			out("export FAILED late-snapshot")
			return
		}
		if err := propose(nh, "late9=lost"); err != nil {
			out("export FAILED late-propose")
			return
		}
		time.Sleep(30 * time.Millisecond) // the compaction request is handled by the step worker
		st.Count("e2e.late-compaction")
	}
	nh.Close()
	closed = true

	ssDirName := fmt.Sprintf("snapshot-%016X", index)
	srcDir := fs.PathJoin(exportDir, ssDirName)
	var oldss pb.Snapshot
	if p := vh.Catch(func() { err = hooks.GetFlagFileContent(srcDir, hooks.MetadataFilename, &oldss, fs) }); p != "" || err != nil {
		out("export FAILED metadata")
		return
	}
	out("export OK old=%s", showOld(oldss.Membership))
	ssFile := fs.PathBase(oldss.Filepath)
	extFile := ""
	if len(oldss.Files) > 0 {
		extFile = fs.PathBase(oldss.Files[0].Filepath)
	}
	origPayload, _ := hooks.ReadSnapshotFile(fs.PathJoin(srcDir, ssFile), fs)

	e2eStage = "trials"
	// ---- trials: one file of the export changed, or a bad member list
	// existing data of a host other than the source host: made by one import
	// of the intact export for that host alone
	preDirs := map[uint64]string{1: dir1}
	hostData := func(self uint64, raddr string) string {
		if d, ok := preDirs[self]; ok {
			return d
		}
		d := fmt.Sprintf("%s/pre%d", w.root, self)
		var e error
		if pp := vh.Catch(func() { e = tools.ImportSnapshot(w.nhConfig(d, raddr), srcDir, map[uint64]string{self: raddr}, self) }); pp != "" || e != nil {
			d = ""
		}
		preDirs[self] = d
		return d
	}
	if body != "" {
		for n, ts := range strings.Split(body, " ; ") {
			t := parseTrial(ts)
			if (t.corruption == "del-ext" || strings.HasPrefix(t.corruption, "flip-ext")) && extFile == "" {
				out("trial %d %s NOEXT", n, t.name)
				continue
			}
			xdir := fmt.Sprintf("%s/x%d/%s", w.root, n, ssDirName)
			copyTree(fs, srcDir, xdir)
			applyCorruption(fs, xdir, t.corruption, ssFile, extFile)
			tdir := fmt.Sprintf("%s/t%d", w.root, n)
			// the host's existing data (a trial with the address of no host at all,
			// e.g. "elsewhere:1", runs against the source host's directory: the address
			// check comes first)
			base := dir1
			if t.self != 1 && t.raddr == addrOf(t.self) {
				if d := hostData(t.self, t.raddr); d != "" {
					base = d
				}
			}
			copyTree(fs, base, tdir)
			if t.hasFirst {
				// an earlier run of the tool on this host (intact export), no restart since
				var e error
				fp := vh.Catch(func() {
					e = tools.ImportSnapshot(w.nhConfig(tdir, t.raddr), srcDir, t.firstMembers, t.firstSelf)
				})
				if fp != "" || e != nil {
					out("trial %d %s FIRST-REFUSED", n, t.name)
					_ = fs.RemoveAll(tdir)
					_ = fs.RemoveAll(fmt.Sprintf("%s/x%d", w.root, n))
					continue
				}
				st.Count("e2e.reimport")
			}
			before := digestTree(fs, tdir)
			beforeT := map[string][]byte{}
			listTree(fs, tdir, beforeT)
			xbefore := digestTree(fs, xdir)
			var ierr error
			pp := vh.Catch(func() { ierr = tools.ImportSnapshot(w.nhConfig(tdir, t.raddr), xdir, t.members, t.self) })
			after := digestTree(fs, tdir)
			refused := pp != "" || ierr != nil
			st.Count("e2e.trial." + strings.SplitN(t.corruption, ":", 2)[0] + "." + map[bool]string{true: "refused", false: "accepted"}[refused])
			if refused {
				out("trial %d %s REFUSED", n, t.name)
				if t.corruption == "none" && t.name == "intact" {
					st.Violation(id, fmt.Sprintf("VALID-IMPORT-REFUSED: intact export with a valid list refused: %v %s", ierr, pp))
				}
				if before != after {
					kind := "error"
					if pp != "" {
						kind = "panic"
					}
					afterT := map[string][]byte{}
					listTree(fs, tdir, afterT)
					st.Violation(id, fmt.Sprintf("REFUSED-BUT-MODIFIED: import of %s refused (%s) after modifying the existing data directory (trial %s): %s",
						t.corruption, kind, t.name, treeDiff(tdir, beforeT, afterT)))
				}
			} else {
				// what the log store now records for the replica
				var rec pb.Snapshot
				var rerr0 error
				rp0 := vh.Catch(func() { rec, rerr0 = readRecordAsNodeHost(w.nhConfig(tdir, t.raddr), t.self) })
				if rp0 != "" || rerr0 != nil {
					out("trial %d %s ACCEPTED rec=UNREADABLE", n, t.name)
					st.Violation(id, fmt.Sprintf("RECORD-UNREADABLE: ImportSnapshot returned nil but the host's log store, opened the way NewNodeHost opens it (WALDir %s), fails or has no record (trial %s): %v %s", w.wal, t.name, rerr0, rp0))
				} else {
					out("trial %d %s ACCEPTED rec=%s", n, t.name, showRecorded(rec, index))
					if showMap(rec.Membership.Addresses) != showMap(t.members) || len(rec.Membership.NonVotings) != 0 || len(rec.Membership.Witnesses) != 0 ||
						showSet(rec.Membership.Removed) != showSet(expectedRemoved(oldss.Membership, t.members)) {
						st.Violation(id, fmt.Sprintf("RECORDED-MEMBERSHIP: ImportSnapshot returned nil but the recorded membership is not the requested list (trial %s): recorded %s removed %s, requested %s",
							t.name, showMap(rec.Membership.Addresses), showSet(rec.Membership.Removed), showMap(t.members)))
					}
					if !rec.Imported || rec.Index != index || rec.Membership.ConfigChangeId != index {
						st.Violation(id, "RECORDED-MEMBERSHIP: the recorded snapshot is not the imported image (index / Imported / ConfigChangeId) in trial "+t.name)
					}
				}
				// the property's refusal conditions, evaluated by the harness itself
				if a, ok := t.members[t.self]; !ok || a != t.raddr {
					st.Violation(id, "INVALID-LIST-ACCEPTED: import accepted although the importing replica is not listed at its own address (trial "+t.name+")")
				}
				for k, a := range t.members {
					o, isV := oldss.Membership.Addresses[k]
					_, isN := oldss.Membership.NonVotings[k]
					_, isW := oldss.Membership.Witnesses[k]
					if (isV && o != a) || isN || isW || oldss.Membership.Removed[k] {
						st.Violation(id, fmt.Sprintf("INVALID-LIST-ACCEPTED: import accepted although the list re-admits a removed replica or changes the address/kind of member %d (trial %s)", k, t.name))
					}
				}
				switch strings.SplitN(t.corruption, ":", 2)[0] {
				case "del-snap", "extra-snap", "del-meta", "flip-meta", "trunc-meta", "flip-crc", "del-ext":
					st.Violation(id, "CORRUPT-EXPORT-ACCEPTED: import accepted an export with a missing file / a checksum that does not match ("+t.corruption+")")
				}
				if strings.HasPrefix(t.corruption, "flip-ext") {
					st.Violation(id, "EXT-FILE-CORRUPTION-UNDETECTED: a bit flipped in an external file of the export is accepted by ImportSnapshot (external files carry no checksum)")
				}
				if t.corruption != "none" {
					// accepted although a file was changed: the image must then read back
					// as exported, or fail to read - never silently as something else
					cfgT := w.nhConfig(tdir, t.raddr)
					_ = cfgT.Prepare()
					var got []byte
					var rerr error
					imported := findFile(fs, tdir, ssFile)
					rp := vh.Catch(func() { got, rerr = hooks.ReadSnapshotFile(imported, fs) })
					if rp == "" && rerr == nil && !bytes.Equal(got, origPayload) {
						st.Violation(id, fmt.Sprintf("CORRUPT-IMAGE-LOADS: %s accepted and the imported image reads back different bytes without an error", t.corruption))
					}
					st.Count("e2e.accepted-corrupt." + map[bool]string{true: "caught-on-read", false: "reads-identical"}[rp != "" || rerr != nil])
				}
			}
			if digestTree(fs, xdir) != xbefore {
				st.Violation(id, "ImportSnapshot modified the exported directory")
			}
			_ = fs.RemoveAll(tdir)
			_ = fs.RemoveAll(fmt.Sprintf("%s/x%d", w.root, n))
		}
	}

	// ---- power failures inside ImportSnapshot (crash.go)
	if cm := f["crash"]; cm != "" && cm != "0" {
		e2eStage = "crash points of ImportSnapshot"
		max := int(u64(cm))
		half, rerun, points := 0, 0, 0
		cids := make([]uint64, 0, len(finalMembers))
		for k := range finalMembers {
			cids = append(cids, k)
		}
		sort.Slice(cids, func(i, j int) bool { return cids[i] < cids[j] })
		doneNew := false
		for _, k := range cids {
			host := ""
			if k == 1 {
				host = dir1 // the survivor with its existing data
			} else if doneNew {
				continue // one new host is enough
			} else {
				doneNew = true
			}
			h, r, p := w.crashTrials(id, st, srcDir, host, k, finalMembers, index, oldss, origPayload, max)
			half, rerun, points = half+h, rerun+r, points+p
		}
		st.Distribution["crash.points"] += points
		out("crash half=%d rerun-failed=%d", half, rerun)
	}
	e2eStage = "import and first restart"
	// ---- the repair: import on every listed host, restart
	ids := make([]uint64, 0, len(finalMembers))
	for k := range finalMembers {
		ids = append(ids, k)
	}
	sort.Slice(ids, func(i, j int) bool { return ids[i] < ids[j] })
	dirs := map[uint64]string{}
	for _, k := range ids {
		dirs[k] = fmt.Sprintf("%s/nh%d", w.root, k) // replica 1 keeps its directory with the old data
		if _, inPre := preMembers[k]; inPre {
			// a first run of the tool with a list that is corrected afterwards
			var e error
			fp := vh.Catch(func() { e = tools.ImportSnapshot(w.nhConfig(dirs[k], preMembers[k]), srcDir, preMembers, k) })
			if fp != "" || e != nil {
				out("preimport %d ERR", k)
				st.Violation(id, fmt.Sprintf("IMPORT-FAILED: first import (preliminary list) failed on replica %d: %v %s", k, e, fp))
				return
			}
			st.Count("e2e.preimport")
		}
		var ierr error
		pp := vh.Catch(func() { ierr = tools.ImportSnapshot(w.nhConfig(dirs[k], finalMembers[k]), srcDir, finalMembers, k) })
		if pp != "" || ierr != nil {
			out("import %d ERR", k)
			st.Violation(id, fmt.Sprintf("IMPORT-FAILED: import of an intact export with a valid member list failed on replica %d: %v %s", k, ierr, pp))
			return
		}
		out("import %d OK", k)
	}
	hosts := map[uint64]*dragonboat.NodeHost{}
	defer func() {
		for _, h := range hosts {
			h.Close()
		}
	}()
	for _, k := range ids {
		h, err := dragonboat.NewNodeHost(w.nhConfig(dirs[k], finalMembers[k]))
		if err != nil {
			out("restart FAILED newnodehost %d", k)
			st.Violation(id, "RESTART-FAILED: NewNodeHost after import: "+err.Error())
			return
		}
		hosts[k] = h
		if err := w.start(h, dirs[k], k, nil); err != nil {
			out("restart FAILED start %d", k)
			st.Violation(id, "RESTART-FAILED: start replica after import: "+err.Error())
			return
		}
	}
	first := hosts[ids[0]]
	if !waitLeader(first, 20*time.Second) {
		out("restart FAILED noleader")
		st.Violation(id, "NO-LEADER: the repaired shard did not elect a leader")
		return
	}
	var ms *dragonboat.Membership
	if err := retry(func(ctx context.Context) error {
		var e error
		ms, e = first.SyncGetShardMembership(ctx, e2eShard)
		return e
	}); err != nil {
		out("restart FAILED membership")
		st.Violation(id, "membership query failed after repair: "+err.Error())
		return
	}
	removed := map[uint64]bool{}
	for k := range ms.Removed {
		removed[k] = true
	}
	// every replica's state = the exported state
	state := "EXPORTED"
	for _, k := range ids {
		var got interface{}
		if err := retry(func(ctx context.Context) error {
			var e error
			got, e = hosts[k].SyncRead(ctx, e2eShard, "dump")
			return e
		}); err != nil {
			state = fmt.Sprintf("READ-FAILED-%d", k)
			break
		}
		if got.(string) != exported {
			state = fmt.Sprintf("DIFFERENT-%d", k)
			break
		}
	}
	prop := "OK"
	if err := propose(hosts[ids[len(ids)-1]], "after=repair"); err != nil {
		prop = "FAILED"
	} else {
		var got interface{}
		_ = retry(func(ctx context.Context) error {
			var e error
			got, e = first.SyncRead(ctx, e2eShard, "dump")
			return e
		})
		if s, ok := got.(string); !ok || !strings.Contains(s, "after=repair\n") {
			prop = "NOT-APPLIED"
		}
	}
	out("restart members=%s nonvoting=%s witness=%s removed=%s state=%s propose=%s",
		showMap(ms.Nodes), showMap(ms.NonVotings), showMap(ms.Witnesses), showSet(removed), state, prop)
	sessionOK := true
	if cs != nil && prop == "OK" {
		// the client of the lost shard goes on with its session on the repaired one:
		// the proposal it never saw the reply of is answered from the session's
		// history and not applied again, the next one is applied
		dup, next := "CACHED", "OK"
		res, err := proposeWith(first, cs, "sess2=DUP")
		switch {
		case err != nil:
			dup = "REJECTED"
		case res.Value != pending.Value:
			dup = "OTHER-RESULT"
		}
		if v, e := first.StaleRead(e2eShard, "dump"); e == nil && strings.Contains(v.(string), "sess2=DUP") {
			dup = "APPLIED-AGAIN"
		}
		if err == nil {
			cs.ProposalCompleted()
			if _, err := proposeWith(first, cs, "sess3=c"); err != nil {
				next = "REJECTED"
			}
		} else {
			next = "-"
		}
		out("session dup=%s next=%s", dup, next)
		if dup != "CACHED" || next != "OK" {
			sessionOK = false
			st.Violation(id, fmt.Sprintf("SESSION: the client session registered before the export does not work on the repaired shard: duplicate proposal %s, next proposal %s", dup, next))
		}
	}
	// ---- monitor: the property's statement
	if showMap(ms.Nodes) != showMap(finalMembers) || len(ms.NonVotings) != 0 || len(ms.Witnesses) != 0 {
		st.Violation(id, "MEMBERSHIP: membership after repair is not the given list: "+showMap(ms.Nodes))
	}
	want := expectedRemoved(oldss.Membership, finalMembers)
	if showSet(want) != showSet(removed) {
		st.Violation(id, fmt.Sprintf("REMOVED: removed set after repair %s, expected %s", showSet(removed), showSet(want)))
	}
	if state != "EXPORTED" {
		st.Violation(id, "STATE: a replica's state after repair is not the exported state: "+state)
	}
	if prop != "OK" {
		st.Violation(id, "PROPOSE: the repaired shard does not accept proposals: "+prop)
	}
	if w.extErr != "" {
		st.Violation(id, "EXTFILE: "+w.extErr)
	}
	if prop == "OK" && state == "EXPORTED" {
		// ---- second restart of every repaired replica: the imported snapshot is
		// still its latest one (an on-disk state machine has shrunk the image
		// after the first recovery); the state must be the exported state plus
		// what was committed since the repair
		e2eStage = "second restart of the repaired replicas"
		later := map[string]string{}
		for _, l := range strings.Split(exported, "\n") {
			if p := strings.SplitN(l, "=", 2); len(p) == 2 {
				later[p[0]] = p[1]
			}
		}
		later["after"] = "repair"
		if cs != nil && sessionOK {
			later["sess3"] = "c"
		}
		wantLater := dumpMap(later)
		// every replica has applied the proposal before it is stopped
		for _, k := range ids {
			_ = retry(func(ctx context.Context) error {
				_, e := hosts[k].SyncRead(ctx, e2eShard, "dump")
				return e
			})
		}
		for _, k := range ids {
			hosts[k].Close()
			delete(hosts, k)
		}
		for _, k := range ids {
			h, err := dragonboat.NewNodeHost(w.nhConfig(dirs[k], finalMembers[k]))
			if err != nil {
				out("restart2 FAILED newnodehost %d", k)
				st.Violation(id, "RESTART-FAILED: NewNodeHost on the second restart: "+err.Error())
				return
			}
			hosts[k] = h
			if err := w.start(h, dirs[k], k, nil); err != nil {
				out("restart2 FAILED start %d", k)
				st.Violation(id, "RESTART-FAILED: start replica on the second restart: "+err.Error())
				return
			}
		}
		first = hosts[ids[0]]
		if !waitLeader(first, 20*time.Second) {
			out("restart2 FAILED noleader")
			st.Violation(id, "NO-LEADER: no leader after the second restart of the repaired shard")
			return
		}
		state2 := "EXPORTED+LATER"
		for _, k := range ids {
			var got interface{}
			if err := retry(func(ctx context.Context) error {
				var e error
				got, e = hosts[k].SyncRead(ctx, e2eShard, "dump")
				return e
			}); err != nil {
				state2 = fmt.Sprintf("READ-FAILED-%d", k)
				break
			}
			if got.(string) != wantLater {
				state2 = fmt.Sprintf("DIFFERENT-%d", k)
				break
			}
		}
		var ms2 *dragonboat.Membership
		mem2 := "?"
		if err := retry(func(ctx context.Context) error {
			var e error
			ms2, e = first.SyncGetShardMembership(ctx, e2eShard)
			return e
		}); err == nil {
			mem2 = showMap(ms2.Nodes)
		}
		prop2 := "OK"
		if err := propose(first, "after2=restart"); err != nil {
			prop2 = "FAILED"
		}
		out("restart2 members=%s state=%s propose=%s", mem2, state2, prop2)
		st.Count("e2e.restart2." + w.smKind)
		if state2 != "EXPORTED+LATER" {
			st.Violation(id, "STATE-AFTER-SECOND-RESTART: after the second restart a repaired replica does not hold the exported state plus the later entries: "+state2+" ("+w.smKind+" state machine)")
		}
		if mem2 != showMap(finalMembers) {
			st.Violation(id, "MEMBERSHIP: membership after the second restart is not the given list: "+mem2)
		}
		if prop2 != "OK" {
			st.Violation(id, "PROPOSE: the repaired shard does not accept proposals after its second restart")
		}
	}
	st.Case("e2e "+head, true, id+" e2e "+head)
}

func findFile(fs hooks.FS, dir, name string) string {
	t := map[string][]byte{}
	listTree(fs, dir, t)
	for p := range t {
		if strings.HasSuffix(p, "/"+name) {
			return p
		}
	}
	return ""
}

// ---------------------------------------------------------------- gen

func genE2E(r *vh.Rand, i int, tier string) string {
	sms := []string{"regular", "ondisk", "concurrent"}
	dbs := []string{"pebble", "tan"}
	smK := sms[i%3]
	db := dbs[i%2]
	// history and resulting membership of the export
	old := pb.Membership{Addresses: map[uint64]string{1: addrOf(1)}, NonVotings: map[uint64]string{}, Witnesses: map[uint64]string{}, Removed: map[uint64]bool{}}
	var hist []string
	hosts3 := i%4 == 3
	if hosts3 {
		old.Addresses[2] = addrOf(2)
		old.Addresses[3] = addrOf(3)
	}
	if i%2 == 0 || r.Bool() {
		hist = append(hist, "nv5rm5")
		old.Removed[5] = true
	}
	if !hosts3 && (i%2 == 0 || r.Bool()) {
		hist = append(hist, "nv3")
		old.NonVotings[3] = addrOf(3)
	}
	post := 1
	hk := (i + i/3) % 3
	if hosts3 {
		hk, post = 1, 0 // the quorum is already lost when the export is taken
	}
	switch hk {
	case 0:
		hist = append(hist, "v2")
		old.Addresses[2] = addrOf(2)
		post = 0
	case 2:
		hist = append(hist, "w4")
		old.Witnesses[4] = addrOf(4)
		post = 0
	}
	hs := "-"
	if len(hist) > 0 {
		hs = strings.Join(hist, ",")
	}
	// the new member list: single old member / old + new / entirely new
	var members map[uint64]string
	switch i % 3 {
	case 0:
		members = map[uint64]string{1: addrOf(1)}
	case 1:
		members = map[uint64]string{1: addrOf(1), 6: addrOf(6), 7: addrOf(7)}
	default:
		members = map[uint64]string{6: addrOf(6), 7: addrOf(7)}
	}
	self := uint64(1)
	if _, ok := members[1]; !ok {
		self = 6
	}
	tr := func(name, corruption string, self uint64, raddr string, m map[uint64]string) string {
		return fmt.Sprintf("%s %s %d %s %s", name, corruption, self, vh.Hex([]byte(raddr)), fmtMap(m))
	}
	with := func(k uint64, a string) map[uint64]string {
		m := map[uint64]string{}
		for x, y := range members {
			m[x] = y
		}
		m[k] = a
		return m
	}
	var trials []string
	good := func(name, c string) { trials = append(trials, tr(name, c, self, members[self], members)) }
	// every single-file corruption class of the exported directory
	good("intact", "none")
	good("del-snap", "del-snap")
	good("extra-snap", "extra-snap")
	good("del-meta", "del-meta")
	good("trunc-meta", "trunc-meta")
	good("flip-meta", fmt.Sprintf("flip-meta:%d", r.Intn(4000)))
	good("flip-crc", fmt.Sprintf("flip-crc:%d", r.Intn(32)))
	good("flip-hdr", fmt.Sprintf("flip-hdr:%d", r.Intn(4000)))
	good("flip-pad", fmt.Sprintf("flip-pad:%d", r.Intn(4000)))
	good("flip-payload", fmt.Sprintf("flip-payload:%d", r.Intn(4000)))
	good("flip-tail", fmt.Sprintf("flip-tail:%d", r.Intn(128)))
	good("trunc", fmt.Sprintf("trunc:%d", r.Intn(4000)))
	good("append", fmt.Sprintf("append:%d", r.Intn(9)))
	fsK := "mem"
	if smK == "regular" {
		fsK = "disk"
		good("del-ext", "del-ext")
		good("flip-ext", fmt.Sprintf("flip-ext:%d", r.Intn(4000)))
	}
	if tier == "thorough" {
		for k := 0; k < 12; k++ {
			good("flip-crc", fmt.Sprintf("flip-crc:%d", k*3%32))
			good("flip-hdr", fmt.Sprintf("flip-hdr:%d", r.Intn(100000)))
			good("flip-meta", fmt.Sprintf("flip-meta:%d", r.Intn(100000)))
			good("flip-payload", fmt.Sprintf("flip-payload:%d", r.Intn(100000)))
			good("trunc", fmt.Sprintf("trunc:%d", r.Intn(100000)))
		}
	}
	// the tool run twice on one host without a restart in between: first with a
	// list that keeps / adds a host (8), then with the corrected list; first as
	// another replica id of the same host
	trials = append(trials, tr("reimport-corrected", "none", self, members[self], members)+
		fmt.Sprintf(" first=%d/%s", self, fmtMap(with(8, addrOf(8)))))
	trials = append(trials, tr("reimport-grown", "none", self, members[self], with(8, addrOf(8)))+
		fmt.Sprintf(" first=%d/%s", self, fmtMap(members)))
	trials = append(trials, tr("reimport-other-id", "none", self, members[self], members)+
		fmt.Sprintf(" first=%d/%s", 9, fmtMap(map[uint64]string{9: members[self], 8: addrOf(8)})))
	trials = append(trials, tr("reimport-then-bad-list", "none", self, members[self], with(self, "moved:1"))+
		fmt.Sprintf(" first=%d/%s", self, fmtMap(members)))
	// bad member lists on the intact export
	trials = append(trials, tr("not-listed", "none", 9, addrOf(9), members))
	trials = append(trials, tr("other-address", "none", self, "elsewhere:1", members))
	if old.Removed[5] {
		trials = append(trials, tr("readmit-removed", "none", self, members[self], with(5, addrOf(5))))
	}
	if _, ok := old.NonVotings[3]; ok {
		trials = append(trials, tr("nonvoting-as-member", "none", self, members[self], with(3, addrOf(3))))
	}
	if _, ok := old.Witnesses[4]; ok {
		trials = append(trials, tr("witness-as-member", "none", self, members[self], with(4, addrOf(4))))
	}
	if _, ok := old.Addresses[2]; ok {
		trials = append(trials, tr("moved-member", "none", self, members[self], with(2, "moved:1")))
	}
	if _, ok := members[1]; !ok {
		trials = append(trials, tr("moved-self", "none", 1, "moved:1", with(1, "moved:1")))
	}
	// every second scenario runs the real repair twice per host: a preliminary
	// list (with one more new host) first, the final list afterwards
	pre := "-"
	if i%2 == 1 {
		pre = fmtMap(with(8, addrOf(8)))
	}
	// NodeHostConfig.WALDir of every host; a survivor that keeps working after the
	// export (only while it still has its quorum)
	wal := []string{"distinct", "same", "none"}[(i+i/6)%3]
	// snapshot compression of every replica; a client session in the exported
	// state; a real three replica shard that loses replicas 2 and 3
	comp := "none"
	if i%3 == 1 || i%4 == 2 {
		comp = "snappy"
	}
	sess := 1
	hosts := 1
	if hosts3 {
		hosts = 3
	}
	// power failures inside ImportSnapshot: how many of its operations are tried
	crash := 40
	if tier == "thorough" {
		crash = 2000
	}
	return fmt.Sprintf("e2e sm=%s db=%s fs=%s wal=%s comp=%s sess=%d hosts=%d props=%d hist=%s post=%d late=%d crash=%d old=%s members=%s pre=%s | %s",
		smK, db, fsK, wal, comp, sess, hosts, 3+r.Intn(20), hs, post, post, crash, showOld(old), fmtMap(members), pre, strings.Join(trials, " ; "))
}
