// C20 harness (quorum-loss repair by tools.ImportSnapshot).
//
// White-box on the real functions of /repo/tools/import.go (through the verif
// hooks) and the real log stores, compared with the Coq model extracted to
// OCaml (ocaml/c20/driver.ml), plus end-to-end runs of NodeHost -> exported
// snapshot -> tools.ImportSnapshot -> restart with the property monitor
// (e2e.go).
//
// case lines (k=v fields; maps id:hexaddr,... or -; sets id,id or -):
//
//	<id> cm idx= term= ccid= a= n= w= r= fp=<hex> files=<hex,hex|-> dst=<hex>
//	        self= raddr=<hex> m=<map> dummy=<0|1> type= shard= cksum=<hex>
//	    checkImportSettings, checkMembers (list + each member alone),
//	    getProcessedSnapshotRecord
//	<id> img body=<hex> recorded=<hex>      isCompleteSnapshotImage on header+body
//	<id> loc exists=<0|1> entries=<hexname:f|d,...|->   getSnapshotFilepath
//	<id> ext files=<hexpath:size,..|-> entries=<hexname:f|d:size,..|->   hasAllExternalFiles
//	<id> ls db=pebble|tan imp=<index>,<term>,<type> | op ; op ...
//	    ops: state <term> <vote> <commit> / ents <first> <count> <term> /
//	         snap <index> <term> / boot <join> <type> / reopen
//	    history on the real ILogDB, reopen, ImportSnapshot, reopen, observe
//	<id> e2e ...                              see e2e.go
package main

import (
	"fmt"
	"os"
	"sort"
	"strconv"
	"strings"

	"github.com/lni/dragonboat/v4/logger"
	"verif/harness/vh"
)

func u64(s string) uint64 {
	v, err := strconv.ParseUint(s, 10, 64)
	if err != nil {
		panic(err)
	}
	return v
}

func showMap(m map[uint64]string) string {
	ks := make([]uint64, 0, len(m))
	for k := range m {
		ks = append(ks, k)
	}
	sort.Slice(ks, func(i, j int) bool { return ks[i] < ks[j] })
	var sb strings.Builder
	sb.WriteString("[")
	for i, k := range ks {
		if i > 0 {
			sb.WriteString(",")
		}
		fmt.Fprintf(&sb, "%d:%s", k, vh.Hex([]byte(m[k])))
	}
	sb.WriteString("]")
	return sb.String()
}

func showSet(m map[uint64]bool) string {
	ks := make([]uint64, 0, len(m))
	for k := range m {
		ks = append(ks, k)
	}
	sort.Slice(ks, func(i, j int) bool { return ks[i] < ks[j] })
	s := make([]string, len(ks))
	for i, k := range ks {
		s[i] = strconv.FormatUint(k, 10)
	}
	return "[" + strings.Join(s, ",") + "]"
}

func fmtMap(m map[uint64]string) string {
	if len(m) == 0 {
		return "-"
	}
	s := showMap(m)
	return s[1 : len(s)-1]
}

func fmtSet(m map[uint64]bool) string {
	if len(m) == 0 {
		return "-"
	}
	s := showSet(m)
	return s[1 : len(s)-1]
}

func parseMap(s string) map[uint64]string {
	m := map[uint64]string{}
	if s == "-" || s == "" {
		return m
	}
	for _, kv := range strings.Split(s, ",") {
		p := strings.SplitN(kv, ":", 2)
		m[u64(p[0])] = string(vh.UnHex(p[1]))
	}
	return m
}

func parseSet(s string) map[uint64]bool {
	m := map[uint64]bool{}
	if s == "-" || s == "" {
		return m
	}
	for _, x := range strings.Split(s, ",") {
		m[u64(x)] = true
	}
	return m
}

// fields parses "k=v k=v" into a map
func fields(s string) map[string]string {
	m := map[string]string{}
	for _, f := range strings.Fields(s) {
		if i := strings.Index(f, "="); i > 0 {
			m[f[:i]] = f[i+1:]
		}
	}
	return m
}

func main() {
	a := vh.ParseArgs()
	logger.GetLogger("tools").SetLevel(logger.CRITICAL)
	for _, n := range []string{"dragonboat", "raft", "rsm", "logdb", "transport", "grpc", "config", "server", "utils", "tan", "registry", "settings", "raftpb", "order", "tests", "pebblekv", "LogDB", "gossip", "raft-mt"} {
		logger.GetLogger(n).SetLevel(logger.CRITICAL)
	}
	switch a.Mode {
	case "gen":
		gen(a)
	case "run":
		run(a)
	default:
		fmt.Fprintln(os.Stderr, "unknown mode", a.Mode)
		os.Exit(2)
	}
}

func run(a vh.Args) {
	obs := vh.Create(a.Out + "/impl.obs")
	defer obs.Close()
	st := vh.NewStats("distinct cases in which the real code reached a decision of the import tool: a checkMembers/checkImportSettings verdict with the rewritten membership, a completeness verdict on a snapshot file, a log store ImportSnapshot followed by a reopen, or an end-to-end import (accepted and restarted, or refused with the directory compared)")
	defer st.Write(a.Out)
	for _, line := range vh.ReadLines(a.Cases) {
		f := strings.Fields(line)
		if len(f) < 2 {
			continue
		}
		id, kind := f[0], f[1]
		rest := strings.TrimSpace(strings.TrimPrefix(strings.TrimSpace(line[len(id):]), kind))
		st.Count("kind." + kind)
		switch kind {
		case "cm":
			runCM(id, rest, obs, st)
		case "img":
			runImg(id, rest, obs, st)
		case "loc":
			runLoc(id, rest, obs, st)
		case "ext":
			runExt(id, rest, obs, st)
		case "ls":
			runLS(id, rest, obs, st)
		case "e2e":
			runE2E(id, rest, obs, st, a)
		default:
			obs.Printf("%s BADCASE\n", id)
		}
	}
}
