package main

// Crash points inside tools.ImportSnapshot.
//
// The tool runs over a strict in-memory file system (unsynced data and
// unsynced directory entries are lost at a power failure) behind a wrapper that
// counts every mutating file-system operation - of the tool itself and of the
// log store it opens - and switches the power off before operation number
// cut+1: from then on nothing is made durable any more. Afterwards the file
// system is reset to its synced state and the host is judged:
//
//   - opened the way NewNodeHost opens it, the log store shows either the
//     replica's previous records (OLD / EMPTY) or the imported record; in the
//     latter case everything a restarting replica reads must be the complete
//     repaired state (image finalised and reading back as exported, flag file,
//     external files, membership = the list, state = (term, commit = index),
//     bootstrap Join, no entry above the index) - never a HALF imported state;
//   - running ImportSnapshot again on the crashed host succeeds and leaves the
//     complete repaired state.

import (
	"bytes"
	"fmt"
	"sort"
	"strings"
	"sync"

	"github.com/lni/dragonboat/v4"
	"github.com/lni/dragonboat/v4/config"
	"github.com/lni/dragonboat/v4/raftio"
	pb "github.com/lni/dragonboat/v4/raftpb"
	"github.com/lni/dragonboat/v4/tools"
	hooks "github.com/lni/dragonboat/v4/verifhooks/c20"
	"verif/harness/vh"
)

// crashFS is the strict in-memory file system plus the operation counter; fs is
// what the tool and the log store are given (vfs.ErrorFS over mem, the only
// intercepting file system the log stores accept).
type crashFS struct {
	*hooks.MemFS
	fs    hooks.FS
	mu    sync.Mutex
	count int
	cut   int // power goes off before operation cut+1; < 0: never
	off   bool
	kinds map[string]int
}

// MaybeError is called by the wrapper before every operation: mutating
// operations and syncs are counted, none of them fails.
func (c *crashFS) MaybeError(op hooks.Op) error {
	if op == hooks.OpRead {
		return nil
	}
	c.mu.Lock()
	defer c.mu.Unlock()
	c.count++
	if c.kinds != nil {
		c.kinds[map[bool]string{true: "sync", false: "write"}[op == hooks.OpSync]]++
	}
	if c.cut >= 0 && c.count > c.cut && !c.off {
		c.off = true
		c.MemFS.SetIgnoreSyncs(true)
	}
	return nil
}

func newCrashFS(mem *hooks.MemFS, cut int) *crashFS {
	c := &crashFS{MemFS: mem, cut: cut}
	c.fs = hooks.WrapFS(mem, c)
	return c
}

// copyAcross copies a tree from one file system into another and makes it durable there.
func copyAcross(src hooks.FS, from string, dst hooks.FS, to string) {
	if err := dst.MkdirAll(to, 0755); err != nil {
		panic(err)
	}
	names, err := src.List(from)
	if err == nil {
		for _, n := range names {
			p := src.PathJoin(from, n)
			fi, err := src.Stat(p)
			if err != nil {
				continue
			}
			if fi.IsDir() {
				copyAcross(src, p, dst, dst.PathJoin(to, n))
			} else if n == "LOCK" {
				writeFile(dst, dst.PathJoin(to, n), nil)
			} else {
				writeFile(dst, dst.PathJoin(to, n), readFile(src, p))
			}
		}
	}
	syncDirs(dst, to)
}

func syncDirs(fs hooks.FS, dir string) {
	for d := dir; ; d = fs.PathDir(d) {
		if f, err := fs.OpenDir(d); err == nil {
			_ = f.Sync()
			_ = f.Close()
		}
		if d == "/" || d == "." || d == fs.PathDir(d) {
			break
		}
	}
}

// what a restarting NodeHost reads from the host's log store
type hostRecords struct {
	ss    pb.Snapshot
	rs    raftio.RaftState
	rsErr error
	bs    pb.Bootstrap
	bsErr error
	above int // entries visible above the newest snapshot record
}

func readHostAsNodeHost(cfg config.NodeHostConfig, replica uint64) (hr hostRecords, err error) {
	db, closer, err := dragonboat.VerifC20OpenLogDB(cfg)
	if err != nil {
		return hr, err
	}
	defer func() {
		if cerr := closer(); err == nil {
			err = cerr
		}
	}()
	if hr.ss, err = db.GetSnapshot(e2eShard, replica); err != nil {
		return hr, err
	}
	hr.rs, hr.rsErr = db.ReadRaftState(e2eShard, replica, hr.ss.Index)
	hr.bs, hr.bsErr = db.GetBootstrapInfo(e2eShard, replica)
	if hr.rsErr == nil && hr.rs.EntryCount > 0 {
		hr.above = int(hr.rs.FirstIndex + hr.rs.EntryCount - 1 - hr.ss.Index)
	}
	return hr, nil
}

// repairedOrWhy checks that everything a restarting replica reads is the
// complete repaired state; "" = yes.
func repairedOrWhy(fs hooks.FS, hr hostRecords, index uint64, oldss pb.Snapshot, members map[uint64]string, orig []byte) string {
	ss := hr.ss
	if !ss.Imported || ss.Index != index {
		return "the newest snapshot record is not the imported one"
	}
	if showMap(ss.Membership.Addresses) != showMap(members) || len(ss.Membership.NonVotings) != 0 || len(ss.Membership.Witnesses) != 0 ||
		showSet(ss.Membership.Removed) != showSet(expectedRemoved(oldss.Membership, members)) || ss.Membership.ConfigChangeId != index {
		return "recorded membership is not the requested list"
	}
	if hr.rsErr != nil || hr.rs.State.Commit != index || hr.rs.State.Term != ss.Term {
		return fmt.Sprintf("state record is not (term, commit=index): %+v %v", hr.rs.State, hr.rsErr)
	}
	if hr.above != 0 {
		return fmt.Sprintf("%d entries visible above the imported index", hr.above)
	}
	if hr.bsErr != nil || !hr.bs.Join || hr.bs.Type != ss.Type {
		return "bootstrap record is not Join with the image's type"
	}
	var got []byte
	var rerr error
	if p := vh.Catch(func() { got, rerr = hooks.ReadSnapshotFile(ss.Filepath, fs) }); p != "" || rerr != nil {
		return fmt.Sprintf("the recorded image %s cannot be read: %v %s", fs.PathBase(ss.Filepath), rerr, p)
	}
	if !bytes.Equal(got, orig) {
		return "the recorded image reads back different from the export"
	}
	var flag pb.Snapshot
	var ferr error
	if p := vh.Catch(func() {
		ferr = hooks.GetFlagFileContent(fs.PathDir(ss.Filepath), hooks.SnapshotFlagFilename, &flag, fs)
	}); p != "" || ferr != nil {
		return "the finalised image directory has no readable flag file"
	}
	for _, f := range ss.Files {
		fi, err := fs.Stat(f.Filepath)
		if err != nil || uint64(fi.Size()) != f.FileSize {
			return "an external file of the recorded image is missing"
		}
	}
	return ""
}

// crashCuts chooses the crash points: all of them up to max, else the first
// and last few plus evenly spaced ones.
func crashCuts(n, max int) []int {
	if n <= max {
		out := make([]int, n)
		for i := range out {
			out[i] = i
		}
		return out
	}
	set := map[int]bool{}
	for i := 0; i < 3 && i < n; i++ {
		set[i] = true
		set[n-1-i] = true
	}
	for i := 0; len(set) < max && i < max; i++ {
		set[i*n/max] = true
	}
	out := make([]int, 0, len(set))
	for k := range set {
		out = append(out, k)
	}
	sort.Ints(out)
	return out
}

// crashTrials runs the import of the intact export on a copy of hostDir (""
// = a new host) with the power failing at the chosen operations.
func (w *world) crashTrials(id string, st *vh.Stats, srcDir, hostDir string, self uint64, members map[uint64]string,
	index uint64, oldss pb.Snapshot, orig []byte, max int) (half, rerunFailed, points int) {
	base := hooks.NewStrictMemFS()
	copyAcross(w.fs, srcDir, base, "/export")
	if hostDir != "" {
		copyAcross(w.fs, hostDir, base, "/host")
	}
	mk := func(cut int) (*crashFS, config.NodeHostConfig, config.NodeHostConfig) {
		mem := hooks.NewStrictMemFS()
		copyAcross(base, "/export", mem, "/export")
		if hostDir != "" {
			copyAcross(base, "/host", mem, "/host")
		}
		cfs := newCrashFS(mem, cut)
		saved := w.fs
		w.fs = cfs.fs
		counted := w.nhConfig("/host", members[self])
		w.fs = mem
		raw := w.nhConfig("/host", members[self])
		w.fs = saved
		return cfs, counted, raw
	}
	// how many operations an undisturbed import takes
	cfs, counted, raw := mk(-1)
	cfs.kinds = map[string]int{}
	var e error
	if p := vh.Catch(func() { e = tools.ImportSnapshot(counted, "/export", members, self) }); p != "" || e != nil {
		st.Violation(id, fmt.Sprintf("IMPORT-FAILED: import over the strict file system failed: %v %s", e, p))
		return 0, 0, 0
	}
	total := cfs.count
	for k, v := range cfs.kinds {
		st.Distribution["crash.op."+k] += v
	}
	if hr, err := readHostAsNodeHost(raw, self); err != nil {
		st.Violation(id, "IMPORT-FAILED: store unreadable after an undisturbed import over the strict file system: "+err.Error())
	} else if why := repairedOrWhy(cfs.MemFS, hr, index, oldss, members, orig); why != "" {
		st.Violation(id, "HALF-IMPORTED: after an undisturbed import: "+why)
	}
	for _, cut := range crashCuts(total, max) {
		cfs, counted, raw = mk(cut)
		_ = vh.Catch(func() { _ = tools.ImportSnapshot(counted, "/export", members, self) })
		cfs.MemFS.ResetToSyncedState()
		cfs.MemFS.SetIgnoreSyncs(false)
		points++
		// (1) what a NodeHost started now would read
		var hr hostRecords
		var herr error
		hp := vh.Catch(func() { hr, herr = readHostAsNodeHost(raw, self) })
		switch {
		case hp != "" || herr != nil:
			// the store itself does not open: the host does not start; running the
			// tool again (below) must still repair it
			st.Count("crash.class.STORE-DOES-NOT-OPEN")
		case hr.ss.Imported && hr.ss.Index == index:
			if why := repairedOrWhy(cfs.MemFS, hr, index, oldss, members, orig); why != "" {
				half++
				st.Violation(id, fmt.Sprintf("HALF-IMPORTED: power failure before operation %d of %d of ImportSnapshot (replica %d): the log store records the imported snapshot but %s", cut+1, total, self, why))
			} else {
				st.Count("crash.class.REPAIRED")
			}
		case hr.ss.Index == 0:
			st.Count("crash.class.EMPTY")
		default:
			// the replica's previous records; the tool may already have removed the
			// image they name (cleanupSnapshotDir): then only a re-run helps
			// (the record names the image by its path on the original host)
			if _, err := cfs.MemFS.Stat(strings.Replace(hr.ss.Filepath, hostDir, "/host", 1)); err == nil {
				st.Count("crash.class.OLD-INTACT")
			} else {
				st.Count("crash.class.OLD-IMAGE-REMOVED")
			}
			if hr.ss.Imported {
				half++
				st.Violation(id, "HALF-IMPORTED: a snapshot record flagged Imported that is not the imported image")
			}
		}
		// (2) the operator runs the tool again
		var e2 error
		p2 := vh.Catch(func() { e2 = tools.ImportSnapshot(raw, "/export", members, self) })
		why := ""
		if p2 != "" || e2 != nil {
			why = fmt.Sprintf("it fails: %v %s", e2, p2)
		} else if hr2, err := readHostAsNodeHost(raw, self); err != nil {
			why = "the store does not open afterwards: " + err.Error()
		} else {
			why = repairedOrWhy(cfs.MemFS, hr2, index, oldss, members, orig)
		}
		if why != "" {
			rerunFailed++
			st.Violation(id, fmt.Sprintf("RERUN-AFTER-CRASH: power failure before operation %d of %d of ImportSnapshot (replica %d), then ImportSnapshot again: %s", cut+1, total, self, why))
		}
	}
	return half, rerunFailed, points
}
