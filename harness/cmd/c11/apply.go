package main

// apply cases: exact differential of Model/ApplyOrder.v part 1 (handle_tasks) against the
// REAL rsm.StateMachine (Handle / handle / handleEntry / handleBatch / EntriesToApply /
// Recover), reached through the verif-tagged bridge github.com/lni/dragonboat/v4/verifhooks/c11.
// A task queue (entry batches with gaps, re-sent prefixes and non-update entries, periodic sync,
// save and recover barriers) is put into the real task queue and drained with the real Handle,
// for the three kinds of user state machine; the observation is the sequence of (index,
// payload) handed to the user's Update, the final StateMachine.index and the panic class.

import (
	"encoding/binary"
	"errors"
	"fmt"
	"io"
	"strconv"
	"strings"
	"sync"
	"sync/atomic"
	"time"

	"github.com/lni/dragonboat/v4/config"
	pb "github.com/lni/dragonboat/v4/raftpb"
	sm "github.com/lni/dragonboat/v4/statemachine"
	hk "github.com/lni/dragonboat/v4/verifhooks/c11"

	"verif/harness/vh"
)

type applyRec struct {
	calls [][2]uint64
	init  uint64
	plain bool
	// RACE: the next Update dwells; what is inside the user state machine is tracked
	dwellOnce    int32
	updEntered   chan struct{}
	inUpdate     int32
	inOther      int32 // Lookup / NALookup / SaveSnapshot (plain) or PrepareSnapshot (all kinds) in progress
	raceOverlaps []string
	mu           sync.Mutex
}

func (a *applyRec) overlap(msg string) {
	a.mu.Lock()
	a.raceOverlaps = append(a.raceOverlaps, msg)
	a.mu.Unlock()
}

func (a *applyRec) updBegin() {
	atomic.AddInt32(&a.inUpdate, 1)
	if atomic.LoadInt32(&a.inOther) > 0 {
		a.overlap("Update entered while an excluded method is in progress")
	}
	if atomic.CompareAndSwapInt32(&a.dwellOnce, 1, 0) {
		select {
		case a.updEntered <- struct{}{}:
		default:
		}
		time.Sleep(40 * time.Millisecond)
	}
}
func (a *applyRec) updEnd() { atomic.AddInt32(&a.inUpdate, -1) }

// other: a method that must not run beside Update (when excl)
func (a *applyRec) other(name string, excl bool) func() {
	if !excl {
		return func() {}
	}
	atomic.AddInt32(&a.inOther, 1)
	if atomic.LoadInt32(&a.inUpdate) > 0 {
		a.overlap(name + " overlaps Update")
	}
	return func() { atomic.AddInt32(&a.inOther, -1) }
}

func (a *applyRec) add(es []sm.Entry) {
	for _, e := range es {
		a.calls = append(a.calls, [2]uint64{e.Index, payloadOf(e.Cmd)})
	}
}

type aPlain struct{ *applyRec }

func (s aPlain) Update(e sm.Entry) (sm.Result, error) {
	s.updBegin()
	defer s.updEnd()
	s.add([]sm.Entry{e})
	return sm.Result{Value: e.Index}, nil
}
func (s aPlain) Lookup(interface{}) (interface{}, error) {
	defer s.other("Lookup", true)()
	return nil, nil
}
func (s aPlain) NALookup([]byte) ([]byte, error) {
	defer s.other("NALookup", true)()
	return nil, nil
}
func (s aPlain) SaveSnapshot(io.Writer, sm.ISnapshotFileCollection, <-chan struct{}) error {
	defer s.other("SaveSnapshot", true)()
	return nil
}
func (s aPlain) RecoverFromSnapshot(io.Reader, []sm.SnapshotFile, <-chan struct{}) error { return nil }
func (s aPlain) Close() error                                                          { return nil }

type aConc struct{ *applyRec }

func (s aConc) Update(es []sm.Entry) ([]sm.Entry, error) {
	s.updBegin()
	defer s.updEnd()
	s.add(es)
	for i := range es {
		es[i].Result = sm.Result{Value: es[i].Index}
	}
	return es, nil
}
func (s aConc) Lookup(interface{}) (interface{}, error)  { return nil, nil }
func (s aConc) PrepareSnapshot() (interface{}, error) {
	defer s.other("PrepareSnapshot", true)()
	return nil, nil
}
func (s aConc) SaveSnapshot(interface{}, io.Writer, sm.ISnapshotFileCollection, <-chan struct{}) error {
	return nil
}
func (s aConc) RecoverFromSnapshot(io.Reader, []sm.SnapshotFile, <-chan struct{}) error { return nil }
func (s aConc) Close() error                                                          { return nil }

type aDisk struct{ *applyRec }

func (s aDisk) Open(<-chan struct{}) (uint64, error) { return s.init, nil }
func (s aDisk) Update(es []sm.Entry) ([]sm.Entry, error) {
	s.updBegin()
	defer s.updEnd()
	s.add(es)
	for i := range es {
		es[i].Result = sm.Result{Value: es[i].Index}
	}
	return es, nil
}
func (s aDisk) Lookup(interface{}) (interface{}, error)                   { return nil, nil }
func (s aDisk) Sync() error                                               { return nil }
func (s aDisk) PrepareSnapshot() (interface{}, error) {
	defer s.other("PrepareSnapshot", true)()
	return nil, nil
}
func (s aDisk) SaveSnapshot(interface{}, io.Writer, <-chan struct{}) error { return nil }
func (s aDisk) RecoverFromSnapshot(io.Reader, <-chan struct{}) error      { return nil }
func (s aDisk) Close() error                                              { return nil }

type aNode struct{ stop chan struct{} }

func (n *aNode) StepReady()                                            {}
func (n *aNode) RestoreRemotes(pb.Snapshot) error                      { return nil }
func (n *aNode) ApplyUpdate(pb.Entry, sm.Result, bool, bool, bool)     {}
func (n *aNode) ApplyConfigChange(pb.ConfigChange, uint64, bool) error { return nil }
func (n *aNode) ReplicaID() uint64                                     { return 1 }
func (n *aNode) ShardID() uint64                                       { return 1 }
func (n *aNode) ShouldStop() <-chan struct{}                           { return n.stop }

var errNoSS = errors.New("no snapshot")

// aSnapshotter hands out the snapshot record the harness configured; snapshots are "dummy"
// (no payload for the user state machine): only the index discipline is under test here
type aSnapshotter struct {
	ss      pb.Snapshot
	has     bool
	streams []string // per stream task: "refused" or "<SSMeta.Index>:<SSMeta.OnDiskIndex>"
	metas   [][2]uint64
}

func (s *aSnapshotter) GetSnapshot() (pb.Snapshot, error) {
	if !s.has {
		return pb.Snapshot{}, errNoSS
	}
	return s.ss, nil
}
func (s *aSnapshotter) Stream(_ hk.IStreamable, meta hk.SSMeta, _ pb.IChunkSink) error {
	s.streams = append(s.streams, fmt.Sprintf("%d:%d", meta.Index, meta.OnDiskIndex))
	s.metas = append(s.metas, [2]uint64{meta.Index, meta.OnDiskIndex})
	return nil
}
func (s *aSnapshotter) Shrunk(pb.Snapshot) (bool, error)                       { return false, nil }
func (s *aSnapshotter) Save(savable hk.ISavable, meta hk.SSMeta) (pb.Snapshot, hk.SSEnv, error) {
	if _, err := savable.Save(meta, io.Discard, meta.Session.Bytes(), nil); err != nil {
		return pb.Snapshot{}, hk.SSEnv{}, err
	}
	return pb.Snapshot{Index: meta.Index, Term: meta.Term, Membership: meta.Membership}, hk.SSEnv{}, nil
}
func (s *aSnapshotter) Load(pb.Snapshot, hk.ILoadable, hk.IRecoverable) error { return nil }
func (s *aSnapshotter) IsNoSnapshotError(err error) bool                      { return errors.Is(err, errNoSS) }

func dummySS(index uint64) pb.Snapshot {
	return pb.Snapshot{Index: index, Term: 1, Dummy: true,
		Membership: pb.Membership{Addresses: map[uint64]string{1: "a1"}}}
}

func panicClass(p string) int {
	switch {
	case p == "":
		return 0
	case strings.Contains(p, "entry hole"):
		return 1
	case strings.Contains(p, "applied index"):
		return 2
	}
	return 9
}

func runApplyCase(id string, hdr []string, ops []string, st *vh.Stats, line string) string {
	quietLogs()
	kind := field(hdr, "kind", "plain")
	init, _ := strconv.ParseUint(field(hdr, "init", "0"), 10, 64)
	applied, _ := strconv.ParseUint(field(hdr, "applied", "0"), 10, 64)
	rec := &applyRec{init: init, plain: kind == "plain", updEntered: make(chan struct{}, 4)}
	cfg := config.Config{ShardID: 1, ReplicaID: 1}
	stop := make(chan struct{})
	var m hk.IManagedStateMachine
	switch kind {
	case "plain":
		m = hk.NewRegularSM(cfg, aPlain{rec}, stop)
	case "conc":
		m = hk.NewConcurrentSM(cfg, aConc{rec}, stop)
	default:
		m = hk.NewOnDiskSM(cfg, aDisk{rec}, stop)
	}
	ss := &aSnapshotter{}
	s := hk.NewStateMachine(m, ss, cfg, &aNode{stop: stop}, hk.NewMemFS())
	errc := 0
	dropped := false
	var races []uint64 // queue positions of the batches whose first Update is raced
	p := vh.Catch(func() {
		if kind == "disk" {
			if _, err := s.OpenOnDiskStateMachine(); err != nil {
				panic(err)
			}
		}
		if applied > 0 {
			ss.ss, ss.has = dummySS(applied), true
			if _, err := s.Recover(hk.Task{Recover: true, Initial: true}); err != nil {
				panic(err)
			}
		}
		for _, o := range ops {
			f := strings.Fields(o)
			if len(f) == 0 {
				continue
			}
			switch f[0] {
			case "RACE":
				races = append(races, s.TaskQ().Size())
				fallthrough
			case "T":
				var ents []pb.Entry
				if len(f) > 1 {
					for _, x := range strings.Split(f[1], ",") {
						t := strings.Split(x, ":")
						i, _ := strconv.ParseUint(t[0], 10, 64)
						pl, _ := strconv.ParseUint(t[2], 10, 64)
						e := pb.Entry{Index: i, Term: 1, Type: pb.ApplicationEntry}
						if t[1] == "u" {
							e.ClientID = 77 // NoOP session: session managed, series id 0
							e.Cmd = make([]byte, 8)
							binary.LittleEndian.PutUint64(e.Cmd, pl)
						}
						ents = append(ents, e)
					}
				}
				s.TaskQ().Add(hk.Task{Entries: ents})
			case "SYNC":
				s.TaskQ().Add(hk.Task{PeriodicSync: true})
			case "SAVE":
				s.TaskQ().Add(hk.Task{Save: true})
			case "REC":
				i, _ := strconv.ParseUint(f[1], 10, 64)
				s.TaskQ().Add(hk.Task{Recover: true, Index: i})
			case "STREAM":
				s.TaskQ().Add(hk.Task{Stream: true, ShardID: 1, ReplicaID: 2})
			}
		}
		batch := make([]hk.Task, 0, 8)
		entries := make([]sm.Entry, 0, 8)
		total := s.TaskQ().Size()
		raceDone := map[uint64]bool{}
		for guard := 0; guard < 10000; guard++ {
			before := s.TaskQ().Size()
			raced := false
			for _, pos := range races {
				if pos >= total-before && !raceDone[pos] {
					raced = true // the first Update of this Handle call is raced
				}
			}
			var t hk.Task
			var err error
			if raced {
				// Handle runs on its own goroutine (the apply worker); as soon as the user's Update
				// has been entered (it dwells) a snapshot worker saves and clients read: every one
				// of them has to wait for Update wherever the contract says so
				atomic.StoreInt32(&rec.dwellOnce, 1)
				hd := make(chan string, 1)
				go func() {
					hd <- vh.Catch(func() { t, err = s.Handle(batch, entries) })
				}()
				select {
				case <-rec.updEntered:
					var wg sync.WaitGroup
					for _, f := range []func(){
						func() { _, _, _ = s.Save(hk.SSRequest{}) },
						func() { _, _ = s.Lookup("q") },
						func() { _, _ = s.NALookup([]byte("q")) },
					} {
						wg.Add(1)
						go func(f func()) { defer wg.Done(); _ = vh.Catch(f) }(f)
					}
					wg.Wait()
					st.Count("apply-race-in-flight:true")
				case p := <-hd:
					hd <- p
					st.Count("apply-race-in-flight:false")
				}
				if p := <-hd; p != "" {
					panic(p)
				}
				atomic.StoreInt32(&rec.dwellOnce, 0)
			} else {
				t, err = s.Handle(batch, entries)
			}
			if err != nil {
				panic(err)
			}
			for _, pos := range races {
				if pos < total-s.TaskQ().Size() {
					raceDone[pos] = true
				}
			}
			if t.Recover {
				ss.ss, ss.has = dummySS(t.Index), true
				_, _ = s.Recover(t) // ErrSnapshotOutOfDate is what the snapshot worker ignores too
			}
			if t.Stream {
				// node.handleSnapshotTask -> canStream -> ReadyToStream; then ssWorker.stream -> StateMachine.Stream
				if s.ReadyToStream() {
					if err := s.Stream(nil); err != nil {
						panic(err)
					}
				} else {
					ss.streams = append(ss.streams, "refused")
				}
			}
			if !t.IsSnapshotTask() && before == 0 {
				break
			}
		}
	})
	errc = panicClass(p)
	var parts []string
	for _, c := range rec.calls {
		parts = append(parts, fmt.Sprintf("%d:%d", c[0], c[1]))
		if kind == "disk" && c[0] <= init {
			st.Violation(id, fmt.Sprintf("on-disk state machine handed entry %d at or below the index %d returned by Open", c[0], init))
		}
	}
	for i := 1; i < len(rec.calls); i++ {
		if rec.calls[i][0] <= rec.calls[i-1][0] {
			st.Violation(id, fmt.Sprintf("Update index %d after %d", rec.calls[i][0], rec.calls[i-1][0]))
		}
	}
	for _, m := range ss.metas {
		// the image of an on-disk state machine contains everything up to the index Open returned
		// and up to SSMeta.OnDiskIndex; the receiver is handed the entries after the label
		content := m[1]
		if kind == "disk" && init > content {
			content = init
		}
		if kind == "disk" && m[0] < content {
			st.Violation(id, fmt.Sprintf("streamed image labelled with index %d contains the state up to index %d: the receiver is handed entries %d..%d again", m[0], content, m[0]+1, content))
		}
	}
	for _, o := range rec.raceOverlaps {
		st.Violation(id, o+" ("+kind+" state machine, rsm level)")
	}
	if errc == 9 {
		st.Violation(id, "unexpected panic of the apply path: "+p)
	}
	cs := "-"
	if len(parts) > 0 {
		cs = strings.Join(parts, ",")
	}
	for _, o := range ops {
		if strings.Contains(o, ":s:") {
			dropped = true
		}
	}
	st.Count("apply-kind:" + kind)
	st.Count(fmt.Sprintf("apply-err:%d", errc))
	st.Case(line, dropped || errc != 0 || (kind == "disk" && init > applied), line)
	sts := "-"
	if len(ss.streams) > 0 {
		sts = strings.Join(ss.streams, ",")
		st.Count("apply-with-stream-task")
	}
	return fmt.Sprintf("%s apply err=%d index=%d calls=%s streams=%s\n", id, errc, hk.Index(s), cs, sts)
}

// genApplyCases: streams of batches; mostly gap-free, with re-sent prefixes, non-update entries,
// barriers, and a malformed share (holes between batches; gaps inside a batch only for the plain
// kind: the batched path of the concurrent kinds hands the whole batch to Update before the gap
// is noticed)
func genApplyCases(r *vh.Rand, w *vh.LineWriter, a vh.Args) {
	n := 120
	if a.Tier == "thorough" {
		n = 4000
	}
	if a.N > 0 {
		n = a.N
	}
	for c := 0; c < n; c++ {
		kind := []string{"plain", "conc", "disk"}[r.Intn(3)]
		applied := uint64(1 + r.Intn(6)) // >= 1: the membership comes with the initial snapshot record
		if kind == "disk" && applied == 0 {
			applied = 1 // the membership (needed by a stream's metadata) comes with the initial snapshot record
		}
		init := uint64(0)
		if kind == "disk" {
			init = uint64(r.Intn(14))
		}
		next := applied + 1
		var ops []string
		nb := 1 + r.Intn(5)
		for b := 0; b < nb; b++ {
			switch r.Intn(10) {
			case 0:
				ops = append(ops, "SYNC")
			case 1:
				ops = append(ops, "SAVE")
			case 3, 4:
				if kind == "disk" {
					ops = append(ops, "STREAM")
				}
			case 2:
				i := next + uint64(r.Intn(4))
				if r.Intn(3) == 0 && next > 1 {
					i = next - 1 - uint64(r.Intn(int(next-1))) // out of date
				}
				ops = append(ops, fmt.Sprintf("REC %d", i))
				if i >= next {
					next = i + 1
				}
			}
			first := next
			switch r.Intn(12) {
			case 0:
				if first > 2 {
					first -= uint64(1 + r.Intn(2)) // re-sent prefix
				}
			case 1:
				first += uint64(1 + r.Intn(2)) // hole
			}
			ne := 1 + r.Intn(5)
			var es []string
			idx := first
			for k := 0; k < ne; k++ {
				t := "u"
				if r.Intn(5) == 0 {
					t = "s"
				}
				es = append(es, fmt.Sprintf("%d:%s:%d", idx, t, 1000+idx))
				idx++
				if kind == "plain" && r.Intn(25) == 0 {
					idx++ // gap inside the batch
				}
			}
			if r.Intn(6) == 0 {
				ops = append(ops, "RACE "+strings.Join(es, ","))
			} else {
				ops = append(ops, "T "+strings.Join(es, ","))
			}
			if idx > next {
				next = idx
			}
		}
		if kind == "disk" && r.Intn(2) == 0 {
			ops = append(ops, "STREAM")
		}
		disk := 0
		if kind == "disk" {
			disk = 1
		}
		w.Printf("A%d_%d apply kind=%s disk=%d init=%d applied=%d | %s\n", a.Seed, c, kind, disk, init, applied, strings.Join(ops, " ; "))
	}
}

var genApply = func(r *vh.Rand, w *vh.LineWriter, a vh.Args) { genApplyCases(r, w, a) }
var runApply = runApplyCase
