package main

import (
	"fmt"

	"verif/harness/vh"
)

// apply cases (exact differential of Model/ApplyOrder.v part 1) are added by apply_hooks.go
var genApply = func(r *vh.Rand, w *vh.LineWriter, a vh.Args) {}
var runApply = func(id string, hdr []string, ops []string, st *vh.Stats, line string) string {
	return fmt.Sprintf("%s ?\n", id)
}
