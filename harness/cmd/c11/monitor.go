package main

// The Go-side property monitor: the property's predicate evaluated on the
// recorded call log, written independently of the Coq checker calls_ok
// (Model/ApplyOrder.v); bin/check compares the two verdicts.

import "fmt"

type monResult struct {
	err      int
	nupd     int
	incs     int
	overlaps int
	msg      string
}

func isCore(m string) bool {
	switch m {
	case "Update", "Sync", "PrepareSnapshot", "RecoverFromSnapshot", "Close":
		return true
	}
	return false
}
func isPlainRW(m string) bool   { return m == "Lookup" || m == "NALookup" || m == "SaveSnapshot" }
func isPlainExcl(m string) bool { return m == "Update" || m == "RecoverFromSnapshot" || m == "Close" }

func mayOverlap(kind, a, b string) bool {
	if isCore(a) && isCore(b) {
		return false
	}
	if a == "Open" || b == "Open" {
		return false
	}
	if kind == "plain" && ((isPlainRW(a) && isPlainExcl(b)) || (isPlainRW(b) && isPlainExcl(a))) {
		return false
	}
	return true
}

func afterCloseOK(kind, m string) bool {
	return !(isCore(m) || m == "Open" || (kind == "plain" && isPlainRW(m)))
}

type incState struct {
	active []string
	closed bool
	last   uint64
	floor  uint64
	deliv  map[uint64]uint64 // payload -> index
}

func monitor(kind string, evs []event) monResult {
	res := monResult{}
	incs := map[uint64]*incState{}
	get := func(i uint64) *incState {
		if s, ok := incs[i]; ok {
			return s
		}
		s := &incState{deliv: map[uint64]uint64{}}
		incs[i] = s
		return s
	}
	indexOf := map[uint64]uint64{}
	type ack struct{ p, idx uint64 }
	var acked []ack
	fail := func(code int, format string, a ...interface{}) monResult {
		res.err = code
		res.msg = fmt.Sprintf(format, a...)
		res.incs = len(incs)
		return res
	}
	for n, e := range evs {
		switch e.kind {
		case 'E':
			s := get(e.inc)
			if s.closed && !afterCloseOK(kind, e.meth) {
				return fail(2, "%s entered after Close (incarnation %d, event %d)", e.meth, e.inc, n)
			}
			for _, a := range s.active {
				if !mayOverlap(kind, e.meth, a) {
					return fail(1, "%s overlaps %s (incarnation %d, event %d)", e.meth, a, e.inc, n)
				}
			}
			if len(s.active) > 0 {
				res.overlaps++
			}
			s.active = append([]string{e.meth}, s.active...)
			if e.meth == "Close" {
				s.closed = true
			}
			if e.meth == "Update" {
				for _, x := range e.ents {
					idx, p := x[0], x[1]
					if idx <= s.floor {
						return fail(5, "Update index %d at or below the recovered/opened index %d (incarnation %d)", idx, s.floor, e.inc)
					}
					if idx <= s.last {
						return fail(3, "Update index %d not above the previous index %d (incarnation %d)", idx, s.last, e.inc)
					}
					if _, dup := s.deliv[p]; dup {
						return fail(4, "proposal %d delivered twice in incarnation %d", p, e.inc)
					}
					if old, ok := indexOf[p]; ok && old != idx {
						return fail(8, "proposal %d delivered at index %d and at index %d", p, old, idx)
					}
					indexOf[p] = idx
					s.last = idx
					s.deliv[p] = idx
					res.nupd++
				}
			}
		case 'X':
			s := get(e.inc)
			for i, a := range s.active {
				if a == e.meth {
					s.active = append(append([]string{}, s.active[:i]...), s.active[i+1:]...)
					break
				}
			}
			if e.meth == "Open" || e.meth == "RecoverFromSnapshot" {
				if e.v > s.last {
					s.last = e.v
				}
				s.floor = e.v
			}
		case 'A':
			s := get(e.inc)
			x, ok := s.deliv[e.v]
			if !ok {
				return fail(6, "proposal %d acknowledged but not delivered in incarnation %d", e.v, e.inc)
			}
			for _, q := range acked {
				if s.floor < q.idx && q.idx < x {
					if _, ok := s.deliv[q.p]; !ok {
						return fail(7, "acknowledged proposal %d (index %d) missing from incarnation %d which applied index %d", q.p, q.idx, e.inc, x)
					}
				}
			}
			acked = append(acked, ack{e.v, x})
		}
	}
	res.incs = len(incs)
	return res
}
