// Harness of property C11 (tie D + monitor).
//
// live cases: a single-process NodeHost over an in-memory file system runs one
// shard whose user state machine is an instrumented IStateMachine /
// IConcurrentStateMachine / IOnDiskStateMachine (public interfaces only). Every
// call of a user method is recorded with its entry and exit in one total order;
// proposals, linearizable and stale reads, snapshot requests, exported
// snapshots, stop/restart and NodeHost close are driven through the public
// API. The recorded log is written to the path named in the case line, where
// the extracted model (calls_ok of Model/ApplyOrder.v) reads it; the Go-side
// monitor below evaluates the same predicate independently and the two
// verdicts are compared by bin/check.
package main

import (
	"context"
	"encoding/binary"
	"encoding/json"
	"fmt"
	"io"
	"log"
	"os"
	"os/exec"
	"path/filepath"
	"strconv"
	"strings"
	"sync"
	"sync/atomic"
	"time"

	dragonboat "github.com/lni/dragonboat/v4"
	"github.com/lni/dragonboat/v4/config"
	"github.com/lni/dragonboat/v4/logger"
	"github.com/lni/dragonboat/v4/client"
	chantrans "github.com/lni/dragonboat/v4/plugin/chan"
	"github.com/lni/dragonboat/v4/raftio"
	sm "github.com/lni/dragonboat/v4/statemachine"
	gvfs "github.com/lni/vfs"

	"verif/harness/vh"
)

// ---------------------------------------------------------------- recorder

type event struct {
	kind byte // 'E' enter, 'X' exit, 'A' ack
	inc  uint64
	meth string
	v    uint64
	ents [][2]uint64 // (index, payload)
}

// diskState is what an on-disk state machine made durable
type diskState struct{ applied, count uint64 }

type recorder struct {
	mu     sync.Mutex
	events []event
	incs   uint64
	// per incarnation: Close has returned
	closedC map[uint64]chan struct{}
	// blocking lookups
	blockEntered chan struct{}
	release      chan struct{}
	holdClose    int32         // the next Close stays inside the user method until released (or 100 ms)
	closeEntered chan struct{}
	closeRelease chan struct{}
	// every Update dwells this long (ns; SNAPRACE); RecoverFromSnapshot dwells (ns; INSTALL)
	dwellUpdate  int64
	dwellRecover int64
	recEntered   chan struct{}
	// the next Update dwells (NAR): one shot
	dwellUpdateOnce int32
	updEntered      chan struct{}
	prepEntered     chan struct{} // signalled by a dwelling PrepareSnapshot
	// dwell (ns) inside PrepareSnapshot / Sync, set by the SYNCX operation
	dwellPrepare int64
	dwellSync    int64
	// the next SaveSnapshot / RecoverFromSnapshot lingers: it stays inside the user method
	// until its stop channel closes (at most 1 s) and a little longer (CLOSEHOST)
	lingerSave    int32
	lingerRecover int32
	lingerEntered chan struct{}
	delay        time.Duration // randomised delay inside methods (thorough)
	rnd          *vh.Rand
	lag          bool      // see liveCase.lag
	logf         *os.File  // every event is appended at once: the log survives a crash of the library
	disk0        diskState // the "disk" of shard 1's on-disk state machine (survives restarts)
	cur          uint64    // incarnation of shard 1's current state machine
	lingerGate   chan struct{}
}

func newRecorder(seed uint64) *recorder {
	return &recorder{closedC: map[uint64]chan struct{}{}, blockEntered: make(chan struct{}, 64),
		release: make(chan struct{}), rnd: vh.NewRand(seed),
		closeEntered: make(chan struct{}, 8), closeRelease: make(chan struct{}, 8),
		lingerEntered: make(chan struct{}, 8), lingerGate: make(chan struct{}, 8),
		updEntered: make(chan struct{}, 8), prepEntered: make(chan struct{}, 8), recEntered: make(chan struct{}, 8)}
}

func (r *recorder) newInc() uint64 {
	r.mu.Lock()
	defer r.mu.Unlock()
	r.incs++
	r.closedC[r.incs] = make(chan struct{})
	return r.incs
}

func (r *recorder) enter(inc uint64, meth string, ents [][2]uint64) {
	r.mu.Lock()
	r.add(event{kind: 'E', inc: inc, meth: meth, ents: ents})
	d := time.Duration(0)
	if r.delay > 0 {
		d = time.Duration(r.rnd.Intn(int(r.delay)))
	}
	r.mu.Unlock()
	if d > 0 {
		time.Sleep(d)
	}
}

func (r *recorder) exit(inc uint64, meth string, v uint64) {
	r.mu.Lock()
	r.add(event{kind: 'X', inc: inc, meth: meth, v: v})
	if meth == "Close" {
		close(r.closedC[inc])
	}
	r.mu.Unlock()
}

func (r *recorder) ack(inc uint64, payload uint64) {
	r.mu.Lock()
	r.add(event{kind: 'A', inc: inc, meth: "", v: payload})
	r.mu.Unlock()
}

func (r *recorder) currentClosed() chan struct{} {
	r.mu.Lock()
	defer r.mu.Unlock()
	return r.closedC[r.cur]
}

func (r *recorder) closedOf(inc uint64) chan struct{} {
	r.mu.Lock()
	defer r.mu.Unlock()
	return r.closedC[inc]
}

// newCur: a new incarnation of shard 1's state machine
func (r *recorder) newCur() uint64 {
	i := r.newInc()
	r.mu.Lock()
	r.cur = i
	r.mu.Unlock()
	return i
}

func (r *recorder) curInc() uint64 {
	r.mu.Lock()
	defer r.mu.Unlock()
	return r.cur
}

func (r *recorder) sawExit(meth string, incs []uint64) int {
	r.mu.Lock()
	defer r.mu.Unlock()
	n := 0
	for _, e := range r.events {
		if e.kind == 'X' && e.meth == meth {
			for _, i := range incs {
				if i == e.inc {
					n++
				}
			}
		}
	}
	return n
}

func (r *recorder) releaseBlocked() {
	r.mu.Lock()
	defer r.mu.Unlock()
	close(r.release)
	r.release = make(chan struct{})
}

func (r *recorder) releaseChan() chan struct{} {
	r.mu.Lock()
	defer r.mu.Unlock()
	return r.release
}

func eventLine(e event) string {
	switch e.kind {
	case 'E':
		s := "-"
		if len(e.ents) > 0 {
			parts := make([]string, len(e.ents))
			for i, x := range e.ents {
				parts[i] = fmt.Sprintf("%d:%d", x[0], x[1])
			}
			s = strings.Join(parts, ",")
		}
		return fmt.Sprintf("E %d %s %s\n", e.inc, e.meth, s)
	case 'X':
		return fmt.Sprintf("X %d %s %d\n", e.inc, e.meth, e.v)
	}
	return fmt.Sprintf("A %d %d\n", e.inc, e.v)
}

// add appends an event (r.mu held) and, when a log file is open, its line
func (r *recorder) add(e event) {
	r.events = append(r.events, e)
	if r.logf != nil {
		_, _ = r.logf.WriteString(eventLine(e))
	}
}

func (r *recorder) openLog(path string) {
	_ = os.MkdirAll(filepath.Dir(path), 0755)
	f, err := os.Create(path)
	if err == nil {
		r.logf = f
	}
}

func (r *recorder) closeLog() {
	r.mu.Lock()
	defer r.mu.Unlock()
	if r.logf != nil {
		_ = r.logf.Close()
		r.logf = nil
	}
}

// parseLog reads a (possibly partial) log back
func parseLog(path string) []event {
	var evs []event
	b, err := os.ReadFile(path)
	if err != nil {
		return nil
	}
	for _, line := range strings.Split(string(b), "\n") {
		f := strings.Fields(line)
		switch {
		case len(f) == 4 && f[0] == "E":
			e := event{kind: 'E', meth: f[2]}
			e.inc, _ = strconv.ParseUint(f[1], 10, 64)
			if f[3] != "-" {
				for _, x := range strings.Split(f[3], ",") {
					ab := strings.Split(x, ":")
					if len(ab) == 2 {
						i, _ := strconv.ParseUint(ab[0], 10, 64)
						p, _ := strconv.ParseUint(ab[1], 10, 64)
						e.ents = append(e.ents, [2]uint64{i, p})
					}
				}
			}
			evs = append(evs, e)
		case len(f) == 4 && f[0] == "X":
			e := event{kind: 'X', meth: f[2]}
			e.inc, _ = strconv.ParseUint(f[1], 10, 64)
			e.v, _ = strconv.ParseUint(f[3], 10, 64)
			evs = append(evs, e)
		case len(f) == 3 && f[0] == "A":
			e := event{kind: 'A'}
			e.inc, _ = strconv.ParseUint(f[1], 10, 64)
			e.v, _ = strconv.ParseUint(f[2], 10, 64)
			evs = append(evs, e)
		}
	}
	return evs
}

// ---------------------------------------------------------------- state machines

const blockQuery = "block"

// core is the state shared by the three instrumented kinds.
type core struct {
	// excl is deliberately accessed without synchronisation: written by the methods the library
	// promises never to overlap (Update, Sync, PrepareSnapshot, RecoverFromSnapshot, Close) and,
	// for the plain kind, read by Lookup / NALookup / SaveSnapshot. Under a -race build
	// (thorough tier) any breach of the threading contract is a reported data race even when
	// the two calls are too short for the call log to show them overlapping.
	excl    uint64
	plain   bool
	r       *recorder
	inc     uint64
	applied uint64 // highest entry index handed to Update
	count   uint64
}

func payloadOf(cmd []byte) uint64 {
	if len(cmd) < 8 {
		return 0
	}
	return binary.LittleEndian.Uint64(cmd)
}

func (c *core) lookup(q interface{}) (interface{}, error) {
	c.r.enter(c.inc, "Lookup", nil)
	c.rd()
	if s, ok := q.(string); ok && s == blockQuery {
		rel := c.r.releaseChan()
		select {
		case c.r.blockEntered <- struct{}{}:
		default:
		}
		select {
		case <-rel:
		case <-time.After(150 * time.Millisecond):
		}
	}
	v := atomic.LoadUint64(&c.count)
	c.r.exit(c.inc, "Lookup", 0)
	return v, nil
}

func (c *core) close() error {
	c.r.enter(c.inc, "Close", nil)
	c.excl++
	// a real Close releases resources and takes time
	if atomic.CompareAndSwapInt32(&c.r.holdClose, 1, 0) {
		c.r.closeEntered <- struct{}{}
		select {
		case <-c.r.closeRelease:
		case <-time.After(100 * time.Millisecond):
		}
	} else {
		time.Sleep(time.Millisecond)
	}
	c.r.exit(c.inc, "Close", 0)
	return nil
}

// linger: see recorder.lingerSave; reports whether the stop channel closed meanwhile
func (c *core) linger(flag *int32, done <-chan struct{}) bool {
	if !atomic.CompareAndSwapInt32(flag, 1, 0) {
		return false
	}
	select {
	case c.r.lingerEntered <- struct{}{}:
	default:
	}
	stopped := false
	select {
	case <-done:
		stopped = true
	case <-c.r.lingerGate:
	case <-time.After(time.Second):
	}
	time.Sleep(40 * time.Millisecond)
	return stopped
}

func (c *core) rd() {
	if c.plain && c.excl == ^uint64(0) {
		panic("unreachable")
	}
}

func (c *core) dwell(ns *int64) {
	if d := atomic.LoadInt64(ns); d > 0 {
		if ns == &c.r.dwellPrepare {
			select {
			case c.r.prepEntered <- struct{}{}:
			default:
			}
		}
		if ns == &c.r.dwellRecover {
			select {
			case c.r.recEntered <- struct{}{}:
			default:
			}
		}
		time.Sleep(time.Duration(d))
	}
}

// updDwell: see recorder.dwellUpdateOnce
func (c *core) updDwell() {
	if atomic.CompareAndSwapInt32(&c.r.dwellUpdateOnce, 1, 0) {
		select {
		case c.r.updEntered <- struct{}{}:
		default:
		}
		time.Sleep(60 * time.Millisecond)
	}
	c.dwell(&c.r.dwellUpdate)
}

// NALookup is the optional statemachine.IExtended read path
func (c *core) NALookup(q []byte) ([]byte, error) {
	c.r.enter(c.inc, "NALookup", nil)
	c.rd()
	v := atomic.LoadUint64(&c.count)
	c.r.exit(c.inc, "NALookup", 0)
	b := make([]byte, 8)
	binary.LittleEndian.PutUint64(b, v)
	return b, nil
}

func writeSnap(w io.Writer, applied, count uint64) error {
	b := make([]byte, 16)
	binary.LittleEndian.PutUint64(b, applied)
	binary.LittleEndian.PutUint64(b[8:], count)
	_, err := w.Write(b)
	return err
}

func readSnap(r io.Reader) (uint64, uint64, error) {
	b := make([]byte, 16)
	if _, err := io.ReadFull(r, b); err != nil {
		return 0, 0, err
	}
	return binary.LittleEndian.Uint64(b), binary.LittleEndian.Uint64(b[8:]), nil
}

// plain
type plainSM struct{ core }

func (s *plainSM) Update(e sm.Entry) (sm.Result, error) {
	s.r.enter(s.inc, "Update", [][2]uint64{{e.Index, payloadOf(e.Cmd)}})
	s.excl++
	s.updDwell()
	s.applied = e.Index
	atomic.AddUint64(&s.count, 1)
	s.r.exit(s.inc, "Update", 0)
	return sm.Result{Value: e.Index}, nil
}
func (s *plainSM) Lookup(q interface{}) (interface{}, error) { return s.lookup(q) }
func (s *plainSM) SaveSnapshot(w io.Writer, _ sm.ISnapshotFileCollection, done <-chan struct{}) error {
	s.r.enter(s.inc, "SaveSnapshot", nil)
	s.rd()
	err := writeSnap(w, s.applied, atomic.LoadUint64(&s.count))
	if s.linger(&s.r.lingerSave, done) && err == nil {
		err = sm.ErrSnapshotStopped
	}
	s.r.exit(s.inc, "SaveSnapshot", 0)
	return err
}
func (s *plainSM) RecoverFromSnapshot(r io.Reader, _ []sm.SnapshotFile, done <-chan struct{}) error {
	s.r.enter(s.inc, "RecoverFromSnapshot", nil)
	s.excl++
	s.dwell(&s.r.dwellRecover)
	a, c, err := readSnap(r)
	if s.linger(&s.r.lingerRecover, done) && err == nil {
		err = sm.ErrSnapshotStopped
	}
	if err == nil {
		s.applied = a
		atomic.StoreUint64(&s.count, c)
	}
	s.r.exit(s.inc, "RecoverFromSnapshot", a)
	return err
}
func (s *plainSM) Close() error { return s.close() }

// concurrent
type concSM struct {
	core
	mu sync.Mutex // the concurrent kinds may be read while updated
}

func (s *concSM) Update(es []sm.Entry) ([]sm.Entry, error) {
	ents := make([][2]uint64, len(es))
	for i, e := range es {
		ents[i] = [2]uint64{e.Index, payloadOf(e.Cmd)}
	}
	s.r.enter(s.inc, "Update", ents)
	s.excl++
	s.updDwell()
	s.mu.Lock()
	for i := range es {
		s.applied = es[i].Index
		atomic.AddUint64(&s.count, 1)
		es[i].Result = sm.Result{Value: es[i].Index}
	}
	s.mu.Unlock()
	s.r.exit(s.inc, "Update", 0)
	return es, nil
}
func (s *concSM) Lookup(q interface{}) (interface{}, error) { return s.lookup(q) }
func (s *concSM) PrepareSnapshot() (interface{}, error) {
	s.r.enter(s.inc, "PrepareSnapshot", nil)
	s.excl++
	s.dwell(&s.r.dwellPrepare)
	s.mu.Lock()
	ctx := [2]uint64{s.applied, atomic.LoadUint64(&s.count)}
	s.mu.Unlock()
	s.r.exit(s.inc, "PrepareSnapshot", 0)
	return ctx, nil
}
func (s *concSM) SaveSnapshot(ctx interface{}, w io.Writer, _ sm.ISnapshotFileCollection, done <-chan struct{}) error {
	s.r.enter(s.inc, "SaveSnapshot", nil)
	s.rd()
	c := ctx.([2]uint64)
	err := writeSnap(w, c[0], c[1])
	if s.linger(&s.r.lingerSave, done) && err == nil {
		err = sm.ErrSnapshotStopped
	}
	s.r.exit(s.inc, "SaveSnapshot", 0)
	return err
}
func (s *concSM) RecoverFromSnapshot(r io.Reader, _ []sm.SnapshotFile, done <-chan struct{}) error {
	s.r.enter(s.inc, "RecoverFromSnapshot", nil)
	s.excl++
	s.dwell(&s.r.dwellRecover)
	a, c, err := readSnap(r)
	if s.linger(&s.r.lingerRecover, done) && err == nil {
		err = sm.ErrSnapshotStopped
	}
	if err == nil {
		s.mu.Lock()
		s.applied = a
		atomic.StoreUint64(&s.count, c)
		s.mu.Unlock()
	}
	s.r.exit(s.inc, "RecoverFromSnapshot", a)
	return err
}
func (s *concSM) Close() error { return s.close() }

// on-disk: the "disk" lives in the recorder and survives restarts
type diskSM struct {
	core
	ds *diskState
	mu sync.Mutex
}

func (s *diskSM) Open(_ <-chan struct{}) (uint64, error) {
	s.r.enter(s.inc, "Open", nil)
	s.mu.Lock()
	s.applied = atomic.LoadUint64(&s.ds.applied)
	atomic.StoreUint64(&s.count, atomic.LoadUint64(&s.ds.count))
	a := s.applied
	s.mu.Unlock()
	s.r.exit(s.inc, "Open", a)
	return a, nil
}
func (s *diskSM) Update(es []sm.Entry) ([]sm.Entry, error) {
	ents := make([][2]uint64, len(es))
	for i, e := range es {
		ents[i] = [2]uint64{e.Index, payloadOf(e.Cmd)}
	}
	s.r.enter(s.inc, "Update", ents)
	s.excl++
	s.updDwell()
	s.mu.Lock()
	for i := range es {
		s.applied = es[i].Index
		n := atomic.AddUint64(&s.count, 1)
		// durable at once, or (lag) only now and then: Open then returns an index below the
		// last applied one and the entries after it are delivered again
		if !s.r.lag || s.applied%3 == 0 {
			atomic.StoreUint64(&s.ds.applied, s.applied)
			atomic.StoreUint64(&s.ds.count, n)
		}
		es[i].Result = sm.Result{Value: es[i].Index}
	}
	s.mu.Unlock()
	s.r.exit(s.inc, "Update", 0)
	return es, nil
}
func (s *diskSM) Lookup(q interface{}) (interface{}, error) { return s.lookup(q) }
func (s *diskSM) Sync() error {
	s.r.enter(s.inc, "Sync", nil)
	s.excl++
	s.dwell(&s.r.dwellSync)
	s.mu.Lock()
	atomic.StoreUint64(&s.ds.applied, s.applied)
	atomic.StoreUint64(&s.ds.count, atomic.LoadUint64(&s.count))
	s.mu.Unlock()
	s.r.exit(s.inc, "Sync", 0)
	return nil
}
func (s *diskSM) PrepareSnapshot() (interface{}, error) {
	s.r.enter(s.inc, "PrepareSnapshot", nil)
	s.excl++
	s.dwell(&s.r.dwellPrepare)
	s.mu.Lock()
	ctx := [2]uint64{s.applied, atomic.LoadUint64(&s.count)}
	s.mu.Unlock()
	s.r.exit(s.inc, "PrepareSnapshot", 0)
	return ctx, nil
}
func (s *diskSM) SaveSnapshot(ctx interface{}, w io.Writer, done <-chan struct{}) error {
	s.r.enter(s.inc, "SaveSnapshot", nil)
	s.rd()
	c := ctx.([2]uint64)
	err := writeSnap(w, c[0], c[1])
	if s.linger(&s.r.lingerSave, done) && err == nil {
		err = sm.ErrSnapshotStopped
	}
	s.r.exit(s.inc, "SaveSnapshot", 0)
	return err
}
func (s *diskSM) RecoverFromSnapshot(r io.Reader, done <-chan struct{}) error {
	s.r.enter(s.inc, "RecoverFromSnapshot", nil)
	s.excl++
	s.dwell(&s.r.dwellRecover)
	a, c, err := readSnap(r)
	if s.linger(&s.r.lingerRecover, done) && err == nil {
		err = sm.ErrSnapshotStopped
	}
	if err == nil {
		s.mu.Lock()
		s.applied = a
		atomic.StoreUint64(&s.count, c)
		atomic.StoreUint64(&s.ds.applied, a)
		atomic.StoreUint64(&s.ds.count, c)
		s.mu.Unlock()
	}
	s.r.exit(s.inc, "RecoverFromSnapshot", a)
	return err
}
func (s *diskSM) Close() error { return s.close() }

// ---------------------------------------------------------------- live scenario

type nullLogger struct{}

func (nullLogger) SetLevel(logger.LogLevel)                    {}
func (nullLogger) Debugf(format string, args ...interface{})   {}
func (nullLogger) Infof(format string, args ...interface{})    {}
func (nullLogger) Warningf(format string, args ...interface{}) {}
func (nullLogger) Errorf(format string, args ...interface{})   {}
func (nullLogger) Panicf(format string, args ...interface{})   { panic(fmt.Sprintf(format, args...)) }

var quietOnce sync.Once
var hostSeq uint64

func quietLogs() {
	quietOnce.Do(func() {
		if os.Getenv("C11_LOGS") == "" {
			logger.SetLoggerFactory(func(string) logger.ILogger { return nullLogger{} })
			log.SetOutput(io.Discard)
		}
	})
}

// in-process channel transport (no sockets); Validate of the stock factory panics
type chanFactory struct{}

func (chanFactory) Create(c config.NodeHostConfig, h raftio.MessageHandler, ch raftio.ChunkHandler) raftio.ITransport {
	return chantrans.NewChanTransport(c, h, ch)
}
func (chanFactory) Validate(string) bool { return true }

type liveCase struct {
	snapw             uint64 // Expert.Engine.SnapshotShards
	ecomp, scomp      bool   // config.Config.EntryCompressionType / SnapshotCompressionType = Snappy
	lag               bool   // on-disk state machine: updates become durable only now and then and at Sync
	sess              bool   // proposals of the main client go through a registered client session
	id, kind, logPath string
	seed              uint64
	ops               []string
}

func field(hdr []string, name, dflt string) string {
	for _, h := range hdr {
		if strings.HasPrefix(h, name+"=") {
			return strings.TrimPrefix(h, name+"=")
		}
	}
	return dflt
}

type live struct {
	c       liveCase
	r       *recorder
	nh      *dragonboat.NodeHost
	running bool
	started bool
	payload uint64
	hostClosed bool
	session    *client.Session
	nhc        config.NodeHostConfig
	bUsed, s2Used, seUsed, instUsed bool
	dir     string
	fs      gvfs.FS
	wg      sync.WaitGroup
	st      *vh.Stats
}

const shardID = 1

func (l *live) start() error { return l.startW(true) }

func (l *live) startW(waitReady bool) error {
	rc := config.Config{ReplicaID: 1, ShardID: shardID, ElectionRTT: 5, HeartbeatRTT: 1, CheckQuorum: true,
		SnapshotEntries: 0, CompactionOverhead: 2, WaitReady: waitReady}
	l.dims(&rc)
	members := map[uint64]dragonboat.Target{1: l.nh.RaftAddress()}
	if l.started {
		members = map[uint64]dragonboat.Target{}
	}
	var err error
	switch l.c.kind {
	case "plain":
		err = l.nh.StartReplica(members, false, func(uint64, uint64) sm.IStateMachine {
			return &plainSM{core{r: l.r, inc: l.r.newCur(), plain: true}}
		}, rc)
	case "conc":
		err = l.nh.StartConcurrentReplica(members, false, func(uint64, uint64) sm.IConcurrentStateMachine {
			return &concSM{core: core{r: l.r, inc: l.r.newCur()}}
		}, rc)
	default:
		err = l.nh.StartOnDiskReplica(members, false, func(uint64, uint64) sm.IOnDiskStateMachine {
			return &diskSM{core: core{r: l.r, inc: l.r.newCur()}, ds: &l.r.disk0}
		}, rc)
	}
	if err == nil {
		l.running, l.started = true, true
	}
	l.session = nil
	if err == nil && waitReady && l.c.sess && l.c.kind != "disk" {
		for try := 0; try < 60 && l.session == nil; try++ {
			ctx, cancel := context.WithTimeout(context.Background(), 500*time.Millisecond)
			if cs, e := l.nh.SyncGetSession(ctx, shardID); e == nil {
				l.session = cs
			} else {
				time.Sleep(5 * time.Millisecond)
			}
			cancel()
		}
		if l.session == nil {
			l.st.Count("session-error")
		}
	}
	return err
}

// dims applies the case's configuration dimensions to a replica config
func (l *live) dims(rc *config.Config) {
	if l.c.ecomp {
		rc.EntryCompressionType = config.Snappy
	}
	if l.c.scomp {
		rc.SnapshotCompressionType = config.Snappy
	}
}

// proposeS: the main client's proposal, through its registered session when there is one
func (l *live) proposeS() bool {
	cs := l.session
	if cs == nil {
		return l.propose()
	}
	p := atomic.AddUint64(&l.payload, 1)
	cmd := make([]byte, 8)
	binary.LittleEndian.PutUint64(cmd, p)
	ctx, cancel := context.WithTimeout(context.Background(), time.Second)
	_, err := l.nh.SyncPropose(ctx, cs, cmd)
	cancel()
	if err == nil {
		cs.ProposalCompleted()
		l.r.ack(l.r.curInc(), p)
		l.st.Count("session-proposal")
		return true
	}
	// the outcome is unknown: the session cannot be used any more
	l.session = nil
	return false
}

func (l *live) propose() bool { return l.proposeTo(shardID, 0) }

// proposeTo proposes a fresh payload to shard sid; the acknowledgement is recorded for
// incarnation inc (0: shard 1's current one)
func (l *live) proposeTo(sid uint64, inc uint64) bool {
	p := atomic.AddUint64(&l.payload, 1)
	cmd := make([]byte, 8)
	binary.LittleEndian.PutUint64(cmd, p)
	for try := 0; try < 40; try++ {
		ctx, cancel := context.WithTimeout(context.Background(), 500*time.Millisecond)
		_, err := l.nh.SyncPropose(ctx, l.nh.GetNoOPSession(sid), cmd)
		cancel()
		if err == nil {
			// acknowledgements are only recorded for shard 1: the exactly-once bookkeeping of the
			// checker is per replicated log, a second shard is only checked for order/duplicates/overlap
			if inc == 0 {
				l.r.ack(l.r.curInc(), p)
			}
			return true
		}
		if err == dragonboat.ErrShardNotFound || err == dragonboat.ErrClosed || err == dragonboat.ErrShardClosed {
			return false
		}
		// a timed out proposal may still commit: never re-use the payload
		if err == dragonboat.ErrTimeout || err == context.DeadlineExceeded {
			p = atomic.AddUint64(&l.payload, 1)
			binary.LittleEndian.PutUint64(cmd, p)
		}
		time.Sleep(5 * time.Millisecond)
	}
	return false
}

func (l *live) run() {
	quietLogs()
	dir := fmt.Sprintf("/c11/h%d", atomic.AddUint64(&hostSeq, 1))
	fs := gvfs.NewMem()
	nhc := config.NodeHostConfig{
		NodeHostDir: dir, RTTMillisecond: 2, RaftAddress: fmt.Sprintf("c11-host-%d", hostSeq),
		Expert: config.ExpertConfig{FS: fs, TransportFactory: chanFactory{},
			Engine: config.EngineConfig{ExecShards: 2, CommitShards: 2, ApplyShards: 2, SnapshotShards: l.c.snapw, CloseShards: 2}},
	}
	nh, err := dragonboat.NewNodeHost(nhc)
	if err != nil {
		panic(err)
	}
	l.nh = nh
	l.nhc = nhc
	l.dir, l.fs = dir, fs
	for _, op := range l.c.ops {
		f := strings.Fields(op)
		if len(f) == 0 || (l.hostClosed && f[0] != "REOPEN") {
			continue
		}
		l.st.Count("op:" + f[0])
		n := 1
		if len(f) > 1 {
			n, _ = strconv.Atoi(f[1])
		}
		switch f[0] {
		case "START":
			if !l.running {
				if err := l.start(); err != nil {
					l.st.Count("start-error")
				}
			}
		case "QS": // restart and stop at once: the stop races with the workers loading the new node
			if !l.running && l.started {
				if err := l.startW(false); err == nil {
					cc := l.r.currentClosed()
					if len(f) > 2 {
						us, _ := strconv.Atoi(f[2])
						time.Sleep(time.Duration(us) * time.Microsecond)
					}
					_ = l.nh.StopShard(shardID)
					l.running = false
					select {
					case <-cc:
					case <-time.After(2 * time.Second):
						l.st.Count("close-not-seen")
					}
					time.Sleep(time.Duration(n) * time.Millisecond)
				}
			}
		case "REOPEN": // NodeHost.Close, then a new NodeHost over the same directory and file system
			if !l.hostClosed {
				l.closeHost()
			}
			if nh2, err := dragonboat.NewNodeHost(l.nhc); err == nil {
				l.nh = nh2
				l.hostClosed = false
				l.running = false
				l.session = nil
			} else {
				l.st.Count("reopen-error")
			}
		case "P":
			for i := 0; i < n && l.running; i++ {
				l.proposeS()
			}
		case "R":
			if l.running {
				ctx, cancel := context.WithTimeout(context.Background(), time.Second)
				_, _ = l.nh.SyncRead(ctx, shardID, "q")
				cancel()
			}
		case "S":
			if l.running {
				_, _ = l.nh.StaleRead(shardID, "q")
			}
		case "BR": // a client read that is still inside Lookup when the next operation runs
			if l.running {
				for len(l.r.blockEntered) > 0 {
					<-l.r.blockEntered
				}
				l.wg.Add(1)
				go func() {
					defer l.wg.Done()
					_, _ = l.nh.StaleRead(shardID, blockQuery)
				}()
				select {
				case <-l.r.blockEntered:
				case <-time.After(time.Second):
				}
			}
		case "SYNCX": // periodic Sync of the apply worker while an exported snapshot is being prepared
			if l.running {
				atomic.StoreInt64(&l.r.dwellPrepare, int64(40*time.Millisecond))
				atomic.StoreInt64(&l.r.dwellSync, int64(2*time.Millisecond))
				var wg sync.WaitGroup
				wg.Add(1)
				go func() { defer wg.Done(); l.export() }()
				t0 := time.Now()
				// linearizable read requests make the step worker produce raft updates without
				// committed entries: every one of them runs node.runSyncTask, so PeriodicSync tasks
				// reach the head of the apply queue while PrepareSnapshot is still dwelling
				for time.Since(t0) < 90*time.Millisecond {
					if rs, err := l.nh.ReadIndex(shardID, time.Second); err == nil {
						select {
						case <-rs.ResultC():
						case <-time.After(200 * time.Millisecond):
						}
						rs.Release()
					}
					time.Sleep(time.Millisecond)
				}
				l.propose()
				wg.Wait()
				atomic.StoreInt64(&l.r.dwellPrepare, 0)
				atomic.StoreInt64(&l.r.dwellSync, 0)
			}
		case "CLOSEHOST": // NodeHost.Close while SaveSnapshot (S) / RecoverFromSnapshot (R) is in progress
			for len(l.r.lingerEntered) > 0 {
				<-l.r.lingerEntered
			}
			mode := "S"
			if len(f) > 1 {
				mode = f[1]
			}
			armed := false
			if mode == "S" && l.running {
				l.propose()
				atomic.StoreInt32(&l.r.lingerSave, 1)
				armed = true
				if l.c.kind == "disk" {
					l.wg.Add(1)
					go func() { defer l.wg.Done(); l.export() }()
				} else {
					_, _ = l.nh.RequestSnapshot(shardID, dragonboat.DefaultSnapshotOption, 2*time.Second)
				}
			} else if mode == "R" && l.started {
				if l.running {
					l.propose()
					ctx, cancel := context.WithTimeout(context.Background(), 2*time.Second)
					_, _ = l.nh.SyncRequestSnapshot(ctx, shardID, dragonboat.DefaultSnapshotOption)
					cancel()
					cc := l.r.currentClosed()
					_ = l.nh.StopShard(shardID)
					l.running = false
					select {
					case <-cc:
					case <-time.After(2 * time.Second):
					}
				}
				atomic.StoreInt32(&l.r.lingerRecover, 1)
				armed = true
				if err := l.startW(false); err != nil {
					l.st.Count("start-error")
				}
			}
			if armed {
				select {
				case <-l.r.lingerEntered:
					l.st.Count("closehost-in-flight:" + mode)
				case <-time.After(500 * time.Millisecond):
					l.st.Count("closehost-not-in-flight:" + mode)
				}
			}
			l.closeHost()
			atomic.StoreInt32(&l.r.lingerSave, 0)
			atomic.StoreInt32(&l.r.lingerRecover, 0)
		case "PENDSTOP":
			l.pendStop()
		case "STREAM2":
			l.streamTo([]uint64{2, 3}, false)
		case "STREAMEXP": // one streamed replica + an exported snapshot request while PrepareSnapshot dwells
			l.streamTo([]uint64{4}, true)
		case "LATELOAD": // an engine worker saw the node before StopShard and counts itself in afterwards
			if l.running {
				late, off, ok := dragonboat.VerifC11SeeNode(l.nh, shardID)
				if ok {
					cc := l.r.currentClosed()
					_ = l.nh.StopShard(shardID)
					l.running = false
					select {
					case <-cc:
					case <-time.After(2 * time.Second):
						l.st.Count("close-not-seen")
					}
					l.r.releaseBlocked()
					late()
					off() // the counter reaches zero a second time: the node goes to the close pool again
					time.Sleep(30 * time.Millisecond)
					l.st.Count("lateload")
				}
			}
		case "INSTALL":
			l.install()
		case "SNAPRACE":
			l.snapRace(n)
		case "NAR": // local reads (NAReadLocalNode, StaleRead) while the apply worker is inside Update
			if l.running {
				rs, err := l.nh.ReadIndex(shardID, time.Second)
				ok := false
				if err == nil {
					select {
					case res := <-rs.ResultC():
						ok = res.Completed()
					case <-time.After(2 * time.Second):
					}
				}
				if ok {
					for len(l.r.updEntered) > 0 {
						<-l.r.updEntered
					}
					atomic.StoreInt32(&l.r.dwellUpdateOnce, 1)
					var wg sync.WaitGroup
					wg.Add(1)
					go func() { defer wg.Done(); l.propose() }()
					select {
					case <-l.r.updEntered:
						l.st.Count("nar-update-in-flight:true")
					case <-time.After(time.Second):
						l.st.Count("nar-update-in-flight:false")
					}
					done := make(chan struct{})
					go func() {
						_, _ = l.nh.NAReadLocalNode(rs, []byte("q"))
						_, _ = l.nh.StaleRead(shardID, "q")
						close(done)
					}()
					select {
					case <-done:
					case <-time.After(2 * time.Second):
					}
					wg.Wait()
					atomic.StoreInt32(&l.r.dwellUpdateOnce, 0)
				}
				if rs != nil {
					rs.Release()
				}
			}
		case "LR": // late read: ReadIndex completes, the shard is stopped, the client then reads locally while Close runs
			if l.running {
				rs, err := l.nh.ReadIndex(shardID, time.Second)
				ok := false
				if err == nil {
					select {
					case res := <-rs.ResultC():
						ok = res.Completed()
					case <-time.After(2 * time.Second):
					}
				}
				if ok {
					atomic.StoreInt32(&l.r.holdClose, 1)
					cc := l.r.currentClosed()
					_ = l.nh.StopShard(shardID)
					l.running = false
					select {
					case <-l.r.closeEntered:
					case <-time.After(2 * time.Second):
						l.st.Count("close-not-seen")
					}
					_, rerr := l.nh.ReadLocalNode(rs, "q")
					l.st.Count(fmt.Sprintf("late-read-error:%v", rerr != nil))
					select {
					case l.r.closeRelease <- struct{}{}:
					default:
					}
					select {
					case <-cc:
					case <-time.After(2 * time.Second):
					}
					rs.Release()
				}
			}
		case "MIX": // n concurrent clients: proposals and reads
			if l.running {
				var wg sync.WaitGroup
				for i := 0; i < n; i++ {
					wg.Add(1)
					go func(i int) {
						defer wg.Done()
						for k := 0; k < 3; k++ {
							_, _ = l.nh.StaleRead(shardID, "q")
							if i%2 == 0 {
								ctx, cancel := context.WithTimeout(context.Background(), time.Second)
								_, _ = l.nh.SyncRead(ctx, shardID, "q")
								cancel()
							}
						}
					}(i)
				}
				for i := 0; i < n; i++ {
					l.propose()
				}
				wg.Wait()
			}
		case "SNAP":
			if l.running {
				ctx, cancel := context.WithTimeout(context.Background(), 2*time.Second)
				_, _ = l.nh.SyncRequestSnapshot(ctx, shardID, dragonboat.DefaultSnapshotOption)
				cancel()
			}
		case "ASNAP": // snapshot request that is not waited for: runs beside the next operations
			if l.running {
				_, _ = l.nh.RequestSnapshot(shardID, dragonboat.DefaultSnapshotOption, 2*time.Second)
			}
		case "EXP":
			if l.running {
				l.export()
			}
		case "STOP":
			if l.running {
				cc := l.r.currentClosed()
				_ = l.nh.StopShard(shardID)
				l.running = false
				select {
				case <-cc:
				case <-time.After(2 * time.Second):
					l.st.Count("close-not-seen")
				}
				l.r.releaseBlocked()
			}
		case "W":
			time.Sleep(time.Duration(n) * time.Millisecond)
		}
	}
	if l.hostClosed {
		l.wg.Wait()
		return
	}
	l.closeHost()
	l.wg.Wait()
}

// pendStop: a snapshot job of a second shard waits in the pool because the only snapshot
// worker (header snapw=1) is inside a lingering SaveSnapshot of shard 1; the second shard is
// stopped and closed, then the worker becomes free. The waiting job must be dropped.
func (l *live) pendStop() {
	if !l.running || l.bUsed {
		return
	}
	l.bUsed = true
	const shardB = 2
	var incB uint64
	rc := config.Config{ReplicaID: 1, ShardID: shardB, ElectionRTT: 5, HeartbeatRTT: 1, CheckQuorum: true, WaitReady: true}
	l.dims(&rc)
	members := map[uint64]dragonboat.Target{1: l.nh.RaftAddress()}
	var err error
	switch l.c.kind {
	case "plain":
		err = l.nh.StartReplica(members, false, func(uint64, uint64) sm.IStateMachine {
			incB = l.r.newInc()
			return &plainSM{core{r: l.r, inc: incB, plain: true}}
		}, rc)
	case "conc":
		err = l.nh.StartConcurrentReplica(members, false, func(uint64, uint64) sm.IConcurrentStateMachine {
			incB = l.r.newInc()
			return &concSM{core: core{r: l.r, inc: incB}}
		}, rc)
	default:
		err = l.nh.StartOnDiskReplica(members, false, func(uint64, uint64) sm.IOnDiskStateMachine {
			incB = l.r.newInc()
			return &diskSM{core: core{r: l.r, inc: incB}, ds: &diskState{}}
		}, rc)
	}
	if err != nil {
		l.st.Count("start-error")
		return
	}
	l.proposeTo(shardB, incB)
	l.proposeTo(shardB, incB)
	// the only snapshot worker gets busy with shard 1
	for len(l.r.lingerEntered) > 0 {
		<-l.r.lingerEntered
	}
	for len(l.r.lingerGate) > 0 {
		<-l.r.lingerGate
	}
	l.propose()
	atomic.StoreInt32(&l.r.lingerSave, 1)
	if l.c.kind == "disk" {
		l.wg.Add(1)
		go func() { defer l.wg.Done(); l.export() }()
	} else {
		_, _ = l.nh.RequestSnapshot(shardID, dragonboat.DefaultSnapshotOption, 2*time.Second)
	}
	select {
	case <-l.r.lingerEntered:
		l.st.Count("pendstop-worker-busy:true")
	case <-time.After(time.Second):
		l.st.Count("pendstop-worker-busy:false")
	}
	// a snapshot of the second shard is requested and has to wait
	_, _ = l.nh.RequestSnapshot(shardB, dragonboat.DefaultSnapshotOption, 2*time.Second)
	time.Sleep(30 * time.Millisecond)
	cc := l.r.closedOf(incB)
	_ = l.nh.StopShard(shardB)
	select {
	case <-cc:
	case <-time.After(2 * time.Second):
		l.st.Count("close-not-seen")
	}
	// the worker becomes free
	atomic.StoreInt32(&l.r.lingerSave, 0)
	select {
	case l.r.lingerGate <- struct{}{}:
	default:
	}
	time.Sleep(120 * time.Millisecond)
	for len(l.r.lingerGate) > 0 {
		<-l.r.lingerGate
	}
}

// stream2: two new non-voting replicas of an on-disk shard whose log has been compacted join
// at the same time: both need a streamed snapshot while PrepareSnapshot dwells.
func (l *live) streamTo(rids []uint64, export bool) {
	if !l.running || l.c.kind != "disk" {
		return
	}
	if export {
		if l.seUsed {
			return
		}
		l.seUsed = true
	} else {
		if l.s2Used {
			return
		}
		l.s2Used = true
	}
	for i := 0; i < 3; i++ {
		l.propose()
	}
	ctx, cancel := context.WithTimeout(context.Background(), 2*time.Second)
	_, _ = l.nh.SyncRequestSnapshot(ctx, shardID, dragonboat.SnapshotOption{OverrideCompactionOverhead: true, CompactionOverhead: 1})
	cancel()
	for i := 0; i < 3; i++ {
		l.propose()
		time.Sleep(3 * time.Millisecond)
	}
	atomic.StoreInt64(&l.r.dwellPrepare, int64(200*time.Millisecond))
	var fincs []uint64 // the followers are further incarnations of the same replicated log
	var hosts []*dragonboat.NodeHost
	base := l.nh.RaftAddress()
	for len(l.r.prepEntered) > 0 {
		<-l.r.prepEntered
	}
	for _, rid := range rids {
		addr := fmt.Sprintf("%s-f%d", base, rid)
		nhc := config.NodeHostConfig{
			NodeHostDir: fmt.Sprintf("%s-f%d", l.dir, rid), RTTMillisecond: 2, RaftAddress: addr,
			Expert: config.ExpertConfig{FS: gvfs.NewMem(), TransportFactory: chanFactory{},
				Engine: config.EngineConfig{ExecShards: 2, CommitShards: 2, ApplyShards: 2, SnapshotShards: 2, CloseShards: 2}},
		}
		nh, err := dragonboat.NewNodeHost(nhc)
		if err != nil {
			l.st.Count("start-error")
			continue
		}
		hosts = append(hosts, nh)
		ctx, cancel := context.WithTimeout(context.Background(), 2*time.Second)
		if err := l.nh.SyncRequestAddNonVoting(ctx, shardID, rid, addr, 0); err != nil {
			l.st.Count("add-nonvoting-error")
		}
		cancel()
	}
	for i, nh := range hosts {
		rid := rids[i]
		rc := config.Config{ReplicaID: rid, ShardID: shardID, ElectionRTT: 5, HeartbeatRTT: 1, CheckQuorum: true,
			IsNonVoting: true, CompactionOverhead: 2}
	l.dims(&rc)
		if err := nh.StartOnDiskReplica(nil, true, func(uint64, uint64) sm.IOnDiskStateMachine {
			inc := l.r.newInc()
			fincs = append(fincs, inc)
			return &diskSM{core: core{r: l.r, inc: inc}, ds: &diskState{}}
		}, rc); err != nil {
			l.st.Count("start-error")
		}
	}
	if export {
		// the exported snapshot is requested while the stream job is inside PrepareSnapshot
		select {
		case <-l.r.prepEntered:
			l.st.Count("streamexp-prepare-in-flight:true")
		case <-time.After(2 * time.Second):
			l.st.Count("streamexp-prepare-in-flight:false")
		}
		l.export()
	}
	t0 := time.Now()
	for time.Since(t0) < 3*time.Second && l.r.sawExit("RecoverFromSnapshot", fincs) < len(hosts) {
		time.Sleep(5 * time.Millisecond)
	}
	l.st.Count(fmt.Sprintf("stream%d-recovered:%d", len(rids), l.r.sawExit("RecoverFromSnapshot", fincs)))
	atomic.StoreInt64(&l.r.dwellPrepare, 0)
	for _, nh := range hosts {
		done := make(chan struct{})
		go func(nh *dragonboat.NodeHost) { nh.Close(); close(done) }(nh)
		select {
		case <-done:
		case <-time.After(5 * time.Second):
			l.st.Count("nodehost-close-timeout")
		}
	}
}

// install: a new non-voting replica of shard 1 (same kind, recorded in the same call log) joins
// on a second NodeHost after the leader compacted its log. It is initialised (empty) and
// running when the leader's snapshot arrives: RecoverFromSnapshot, dwelling, runs on a live
// replica while client goroutines keep reading from it (StaleRead).
func (l *live) install() {
	if !l.running || l.instUsed {
		return
	}
	l.instUsed = true
	for i := 0; i < 3; i++ {
		l.propose()
	}
	ctx, cancel := context.WithTimeout(context.Background(), 2*time.Second)
	_, _ = l.nh.SyncRequestSnapshot(ctx, shardID, dragonboat.SnapshotOption{OverrideCompactionOverhead: true, CompactionOverhead: 1})
	cancel()
	for i := 0; i < 3; i++ {
		l.propose()
		time.Sleep(3 * time.Millisecond)
	}
	const rid = 6
	addr := fmt.Sprintf("%s-f%d", l.nh.RaftAddress(), rid)
	nhc := config.NodeHostConfig{
		NodeHostDir: fmt.Sprintf("%s-f%d", l.dir, rid), RTTMillisecond: 2, RaftAddress: addr,
		Expert: config.ExpertConfig{FS: gvfs.NewMem(), TransportFactory: chanFactory{},
			Engine: config.EngineConfig{ExecShards: 2, CommitShards: 2, ApplyShards: 2, SnapshotShards: 2, CloseShards: 2}},
	}
	nhF, err := dragonboat.NewNodeHost(nhc)
	if err != nil {
		l.st.Count("start-error")
		return
	}
	ctx, cancel = context.WithTimeout(context.Background(), 2*time.Second)
	if err := l.nh.SyncRequestAddNonVoting(ctx, shardID, rid, addr, 0); err != nil {
		l.st.Count("add-nonvoting-error")
	}
	cancel()
	for len(l.r.recEntered) > 0 {
		<-l.r.recEntered
	}
	atomic.StoreInt64(&l.r.dwellRecover, int64(120*time.Millisecond))
	var incF uint64
	rc := config.Config{ReplicaID: rid, ShardID: shardID, ElectionRTT: 5, HeartbeatRTT: 1, CheckQuorum: true,
		IsNonVoting: true, CompactionOverhead: 2}
	l.dims(&rc)
	switch l.c.kind {
	case "plain":
		err = nhF.StartReplica(nil, true, func(uint64, uint64) sm.IStateMachine {
			incF = l.r.newInc()
			return &plainSM{core{r: l.r, inc: incF, plain: true}}
		}, rc)
	case "conc":
		err = nhF.StartConcurrentReplica(nil, true, func(uint64, uint64) sm.IConcurrentStateMachine {
			incF = l.r.newInc()
			return &concSM{core: core{r: l.r, inc: incF}}
		}, rc)
	default:
		err = nhF.StartOnDiskReplica(nil, true, func(uint64, uint64) sm.IOnDiskStateMachine {
			incF = l.r.newInc()
			return &diskSM{core: core{r: l.r, inc: incF}, ds: &diskState{}}
		}, rc)
	}
	if err != nil {
		l.st.Count("start-error")
	}
	// clients keep reading from the new replica
	stopC := make(chan struct{})
	var wg sync.WaitGroup
	var reads uint64
	for i := 0; i < 2; i++ {
		wg.Add(1)
		go func() {
			defer wg.Done()
			for {
				select {
				case <-stopC:
					return
				default:
				}
				if _, err := nhF.StaleRead(shardID, "q"); err == nil {
					atomic.AddUint64(&reads, 1)
				}
				time.Sleep(time.Millisecond)
			}
		}()
	}
	select {
	case <-l.r.recEntered:
		l.st.Count("install-recover-in-flight:true")
		time.Sleep(200 * time.Millisecond)
	case <-time.After(3 * time.Second):
		l.st.Count("install-recover-in-flight:false")
	}
	close(stopC)
	wg.Wait()
	l.st.Count(fmt.Sprintf("install-reads:%v", atomic.LoadUint64(&reads) > 0))
	atomic.StoreInt64(&l.r.dwellRecover, 0)
	cc := l.r.closedOf(incF)
	done := make(chan struct{})
	go func() { nhF.Close(); close(done) }()
	select {
	case <-done:
	case <-time.After(5 * time.Second):
		l.st.Count("nodehost-close-timeout")
	}
	if cc != nil {
		select {
		case <-cc:
		case <-time.After(time.Second):
		}
	}
}

// snapRace: snapshots are requested while a client keeps proposing and every Update dwells,
// so that the snapshot worker's prepare step waits for the mutex while the apply worker is
// inside the user's Update; every point where the apply path releases the mutex is then a
// point where the waiting save gets in. The replica is restarted from the last snapshot.
func (l *live) snapRace(n int) {
	if !l.running {
		return
	}
	if n < 2 {
		n = 2
	}
	atomic.StoreInt64(&l.r.dwellUpdate, int64(4*time.Millisecond))
	stopC := make(chan struct{})
	var wg sync.WaitGroup
	// several clients: the apply queue is never empty, so the snapshot worker reaches the
	// mutex while the apply worker is already inside the next Update
	for c := 0; c < 3; c++ {
		wg.Add(1)
		go func() {
			defer wg.Done()
			for {
				select {
				case <-stopC:
					return
				default:
				}
				l.propose()
			}
		}()
	}
	for i := 0; i < n; i++ {
		time.Sleep(6 * time.Millisecond)
		ctx, cancel := context.WithTimeout(context.Background(), 2*time.Second)
		_, _ = l.nh.SyncRequestSnapshot(ctx, shardID, dragonboat.DefaultSnapshotOption)
		cancel()
	}
	close(stopC)
	wg.Wait()
	atomic.StoreInt64(&l.r.dwellUpdate, 0)
	// restart from the last snapshot
	cc := l.r.currentClosed()
	_ = l.nh.StopShard(shardID)
	l.running = false
	select {
	case <-cc:
	case <-time.After(2 * time.Second):
		l.st.Count("close-not-seen")
	}
	l.r.releaseBlocked()
	if err := l.start(); err != nil {
		l.st.Count("start-error")
	}
	l.propose()
}

var exportSeq uint64

func (l *live) export() {
	p := fmt.Sprintf("%s/export%d", l.dir, atomic.AddUint64(&exportSeq, 1))
	_ = l.fs.MkdirAll(p, 0755)
	ctx, cancel := context.WithTimeout(context.Background(), 2*time.Second)
	_, _ = l.nh.SyncRequestSnapshot(ctx, shardID, dragonboat.SnapshotOption{Exported: true, ExportPath: p})
	cancel()
}

func (l *live) closeHost() {
	nh := l.nh
	l.hostClosed = true
	cc := l.r.currentClosed()
	wasRunning := l.running
	l.running = false
	done := make(chan struct{})
	go func() { nh.Close(); close(done) }()
	if wasRunning && cc != nil {
		select {
		case <-cc:
		case <-time.After(2 * time.Second):
		}
	}
	l.r.releaseBlocked()
	select {
	case <-done:
	case <-time.After(10 * time.Second):
		l.st.Count("nodehost-close-timeout")
	}
}

// ---------------------------------------------------------------- generator

func genLive(r *vh.Rand, id string, outDir string, tier string) string {
	kind := []string{"plain", "conc", "disk"}[r.Intn(3)]
	snapw := 2
	var ops []string
	ops = append(ops, "START", fmt.Sprintf("P %d", 1+r.Intn(4)))
	n := 4 + r.Intn(6)
	for i := 0; i < n; i++ {
		switch r.Intn(22) {
		case 0, 1:
			ops = append(ops, fmt.Sprintf("P %d", 1+r.Intn(5)))
		case 2:
			ops = append(ops, "R")
		case 3:
			ops = append(ops, "S")
		case 4:
			ops = append(ops, "SNAP")
		case 5:
			ops = append(ops, "ASNAP", fmt.Sprintf("P %d", 1+r.Intn(3)))
		case 6:
			ops = append(ops, fmt.Sprintf("MIX %d", 2+r.Intn(4)))
		case 7:
			ops = append(ops, "STOP", "START", fmt.Sprintf("P %d", 1+r.Intn(3)))
		case 8:
			ops = append(ops, "BR", "STOP", "START", "P 1")
		case 9:
			ops = append(ops, "EXP")
		case 10:
			ops = append(ops, "BR", fmt.Sprintf("P %d", 1+r.Intn(2)))
		case 11:
			ops = append(ops, "ASNAP", "STOP", "START", "P 1")
		case 12, 13:
			ops = append(ops, "LR", "START", "P 1")
		case 14:
			ops = append(ops, "STOP", fmt.Sprintf("QS 3 %d", r.Intn(3000)), "START", "P 1")
		case 15:
			ops = append(ops, "SYNCX")
		case 16:
			snapw = 1
			ops = append(ops, "PENDSTOP")
		case 18, 19:
			ops = append(ops, "NAR")
		case 20:
			ops = append(ops, "INSTALL")
		case 21:
			ops = append(ops, fmt.Sprintf("SNAPRACE %d", 2+r.Intn(3)))
		case 17:
			if kind == "disk" {
				ops = append(ops, []string{"STREAM2", "STREAMEXP"}[r.Intn(2)])
			} else {
				snapw = 1
				ops = append(ops, "PENDSTOP")
			}
		}
	}
	switch r.Intn(6) {
	case 0, 1:
		ops = append(ops, "BR")
	case 2:
		ops = append(ops, "CLOSEHOST S")
	case 3:
		ops = append(ops, "CLOSEHOST R")
	}
	if r.Intn(8) == 0 {
		ops = append(ops, "REOPEN", "START", "P 1")
	}
	return caseLine(r, id, kind, snapw, outDir, ops)
}

// caseLine adds the configuration dimensions (entry / snapshot compression, durability lag of
// the on-disk state machine, registered client session) and renders the case
func caseLine(r *vh.Rand, id, kind string, snapw int, outDir string, ops []string) string {
	b := func() int { return r.Intn(2) }
	return fmt.Sprintf("%s live kind=%s snapw=%d ecomp=%d scomp=%d lag=%d sess=%d seed=%d log=%s | %s", id, kind, snapw,
		b(), b(), b(), b(), r.U64()%1000000, filepath.Join(outDir, "logs", id+".log"), strings.Join(ops, " ; "))
}

// genMatrix: every racing operation for every kind of state machine, in every run
func genMatrix(r *vh.Rand, w *vh.LineWriter, seed uint64, outDir string) {
	type mop struct {
		op    string
		snapw int
		kinds []string
	}
	all := []string{"plain", "conc", "disk"}
	mops := []mop{{"SYNCX", 2, all}, {"CLOSEHOST S", 2, all}, {"CLOSEHOST R", 2, all}, {"PENDSTOP", 1, all},
		{"INSTALL", 2, all}, {"LATELOAD ; START", 2, all}, {"SNAPRACE 3", 2, all}, {"NAR", 2, all}, {"LR ; START", 2, all}, {"REOPEN ; START", 2, all},
		{"STREAM2", 2, []string{"disk"}}, {"STREAMEXP", 2, []string{"disk"}}}
	n := 0
	for _, m := range mops {
		for _, k := range m.kinds {
			ops := []string{"START", fmt.Sprintf("P %d", 1+r.Intn(3))}
			if r.Intn(2) == 0 {
				ops = append(ops, "SNAP", fmt.Sprintf("P %d", 1+r.Intn(2)))
			}
			ops = append(ops, strings.Split(m.op, " ; ")...)
			ops = append(ops, "P 1")
			if r.Intn(3) == 0 {
				ops = append(ops, "STOP", "START", "P 1")
			}
			w.Printf("%s\n", caseLine(r, fmt.Sprintf("M%d_%d", seed, n), k, m.snapw, outDir, ops))
			n++
		}
	}
}

func main() {
	a := vh.ParseArgs()
	switch a.Mode {
	case "gen":
		n := 14
		if a.Tier == "thorough" {
			n = 300
		}
		if a.N > 0 {
			n = a.N
		}
		r := vh.NewRand(a.Seed)
		out, _ := filepath.Abs(a.Out)
		w := vh.Create(a.Cases)
		for i := 0; i < n; i++ {
			w.Printf("%s\n", genLive(r, fmt.Sprintf("L%d_%d", a.Seed, i), out, a.Tier))
		}
		reps := 1
		if a.Tier == "thorough" {
			reps = 8
		}
		if a.N > 0 {
			reps = 0 // the search phase asks for plain random cases
			if a.N >= 20 {
				reps = 1
			}
		}
		for k := 0; k < reps; k++ {
			genMatrix(r, w, a.Seed*100+uint64(k), out)
		}
		genApply(r, w, a)
		w.Close()
	case "run":
		// the periodic Sync of on-disk state machines is driven by settings.Soft.SyncTaskInterval
		// (3 minutes); the library reads overrides from dragonboat-soft-settings.json in the
		// working directory when the process starts, so the run happens in a child process
		if os.Getenv("C11_CHILD") == "" {
			runParent(a)
			return
		}
		runCases(a)
	}
}

// runParent runs every case in its own child process (working directory = the output
// directory, where the settings override is placed): a panic on one of the library's own
// goroutines cannot be caught in-process; it must be attributed to the case that caused it
// and must not take the other cases down.
func runParent(a vh.Args) {
	out, _ := filepath.Abs(a.Out)
	cases, _ := filepath.Abs(a.Cases)
	_ = os.MkdirAll(out, 0755)
	_ = os.WriteFile(filepath.Join(out, "dragonboat-soft-settings.json"), []byte(`{"SyncTaskInterval": 20}`), 0644)
	exe, _ := os.Executable()
	liveExe, raceDir := exe, ""
	if a.Tier == "thorough" || os.Getenv("C11_RACE") != "" {
		// bin/check builds with CGO disabled; the race detector needs it: the live cases run in a
		// binary of this same package built here with -race
		if rexe, err := buildRaceExe(exe); err == nil {
			liveExe = rexe
			raceDir = filepath.Join(out, "race")
			_ = os.MkdirAll(raceDir, 0755)
		} else {
			fmt.Fprintln(os.Stderr, "c11: no -race build:", err)
		}
	}
	st := vh.NewStats("live cases in which at least two user-state-machine calls of different goroutines were in progress at the same time or a stop/restart/close happened; apply cases with a dropped/non-update entry, a panic class, or an Open index above the applied index")
	lines := vh.ReadLines(cases)
	results := make([]string, len(lines))
	var mu sync.Mutex
	sem := make(chan struct{}, 6)
	var wg sync.WaitGroup
	// the apply cases (no goroutines of the library involved) share one child process
	var applyIdx []int
	for i, line := range lines {
		if f := strings.Fields(line); len(f) >= 2 && f[1] == "apply" {
			applyIdx = append(applyIdx, i)
		}
	}
	if len(applyIdx) > 0 {
		dir := filepath.Join(out, "case", "apply")
		_ = os.MkdirAll(dir, 0755)
		var b strings.Builder
		for _, i := range applyIdx {
			b.WriteString(lines[i] + "\n")
		}
		cf := filepath.Join(dir, "cases.txt")
		_ = os.WriteFile(cf, []byte(b.String()), 0644)
		cmd := exec.Command(exe, "run", "-tier", a.Tier, "-seed", fmt.Sprint(a.Seed), "-cases", cf, "-out", dir)
		cmd.Dir = out
		cmd.Env = append(os.Environ(), "C11_CHILD=1")
		var errb strings.Builder
		cmd.Stderr = &errb
		if err := cmd.Run(); err != nil {
			for _, i := range applyIdx {
				results[i] = fmt.Sprintf("%s apply crashed\n", strings.Fields(lines[i])[0])
			}
			tail := errb.String()
			if len(tail) > 300 {
				tail = tail[len(tail)-300:]
			}
			st.Violation(strings.Fields(lines[applyIdx[0]])[0], "apply cases: child process failed: "+err.Error()+" "+tail)
		} else {
			obsLines := map[string]string{}
			if b, e := os.ReadFile(filepath.Join(dir, "impl.obs")); e == nil {
				for _, l := range strings.Split(string(b), "\n") {
					if f := strings.Fields(l); len(f) > 0 {
						obsLines[f[0]] = l + "\n"
					}
				}
			}
			for _, i := range applyIdx {
				results[i] = obsLines[strings.Fields(lines[i])[0]]
			}
			var cs vh.Stats
			if b, e := os.ReadFile(filepath.Join(dir, "stats.json")); e == nil && json.Unmarshal(b, &cs) == nil {
				st.Evaluations += cs.Evaluations
				st.DistinctNontrivial += cs.DistinctNontrivial
				for k, v := range cs.Distribution {
					st.Distribution[k] += v
				}
				st.MonitorViolations = append(st.MonitorViolations, cs.MonitorViolations...)
			}
		}
	}
	for i, line := range lines {
		hdr := strings.Fields(line)
		if len(hdr) < 2 || hdr[1] == "apply" {
			continue
		}
		id := hdr[0]
		if lp := field(hdr, "log", ""); lp != "" {
			_ = os.Remove(lp)
		}
		wg.Add(1)
		sem <- struct{}{}
		go func(i int, line, id string) {
			defer wg.Done()
			defer func() { <-sem }()
			dir := filepath.Join(out, "case", fmt.Sprint(i))
			_ = os.MkdirAll(dir, 0755)
			cf := filepath.Join(dir, "cases.txt")
			_ = os.WriteFile(cf, []byte(line+"\n"), 0644)
			cmd := exec.Command(liveExe, "run", "-tier", a.Tier, "-seed", fmt.Sprint(a.Seed), "-cases", cf, "-out", dir)
			cmd.Dir = out
			cmd.Env = append(os.Environ(), "C11_CHILD=1")
			racePath := ""
			if raceDir != "" {
				racePath = filepath.Join(raceDir, fmt.Sprintf("r%d", i))
				cmd.Env = append(cmd.Env, "GORACE=log_path="+racePath+" halt_on_error=0 exitcode=0")
			}
			var errb strings.Builder
			cmd.Stderr = &errb
			done := make(chan error, 1)
			if err := cmd.Start(); err != nil {
				done <- err
			} else {
				go func() { done <- cmd.Wait() }()
			}
			var err error
			select {
			case err = <-done:
			case <-time.After(90 * time.Second):
				_ = cmd.Process.Kill()
				err = fmt.Errorf("timeout")
			}
			mu.Lock()
			defer mu.Unlock()
			if racePath != "" {
				smRace, other := raceReports(racePath)
				if other > 0 {
					st.Count("race-reports-not-involving-the-state-machine")
				}
				if smRace != "" {
					st.Violation(id, "data race on the user state machine (two calls the library must keep apart ran unsynchronised): "+smRace)
					st.Count("race-on-state-machine")
				}
				st.Count("cases-under-race-detector")
			}
			if err != nil {
				msg := "child process failed: " + err.Error()
				for _, l := range strings.Split(errb.String(), "\n") {
					if strings.HasPrefix(l, "panic:") || strings.HasPrefix(l, "fatal error:") {
						if len(l) > 200 {
							l = l[:200]
						}
						msg = "the library crashed: " + l
						break
					}
				}
				// the call log up to the crash was written event by event: evaluate it as usual
				// (the model reads the same file); the property's own verdict comes first
				if lp := field(hdr, "log", ""); lp != "" {
					if evs := parseLog(lp); evs != nil {
						m := monitor(field(hdr, "kind", "plain"), evs)
						results[i] = fmt.Sprintf("%s live err=%d nupd=%d incs=%d\n", id, m.err, m.nupd, m.incs)
						if m.err != 0 {
							msg = m.msg + " (then " + msg + ")"
						}
					}
				}
				if results[i] == "" {
					results[i] = fmt.Sprintf("%s live crashed\n", id)
				}
				st.Violation(id, msg)
				st.Case(line, true, line)
				st.Count("crashed")
				return
			}
			if b, e := os.ReadFile(filepath.Join(dir, "impl.obs")); e == nil {
				results[i] = string(b)
			}
			var cs vh.Stats
			if b, e := os.ReadFile(filepath.Join(dir, "stats.json")); e == nil && json.Unmarshal(b, &cs) == nil {
				st.Evaluations += cs.Evaluations
				st.DistinctNontrivial += cs.DistinctNontrivial
				for k, v := range cs.Distribution {
					st.Distribution[k] += v
				}
				st.MonitorViolations = append(st.MonitorViolations, cs.MonitorViolations...)
				for _, smp := range cs.Samples {
					if len(st.Samples) < 5 {
						st.Samples = append(st.Samples, smp)
					}
				}
			}
		}(i, line, id)
	}
	wg.Wait()
	obs := vh.Create(filepath.Join(out, "impl.obs"))
	for _, r := range results {
		if r != "" {
			obs.Printf("%s", r)
		}
	}
	obs.Close()
	st.Write(out)
	_ = os.RemoveAll(filepath.Join(out, "case"))
}

// buildRaceExe builds this package with -race next to the running binary (<B>/.work/bin), from
// the harness module of the same build directory <B>
func buildRaceExe(exe string) (string, error) {
	b := filepath.Dir(filepath.Dir(filepath.Dir(exe)))
	h := filepath.Join(b, "harness")
	if _, err := os.Stat(filepath.Join(h, "go.mod")); err != nil {
		return "", err
	}
	rexe := filepath.Join(filepath.Dir(exe), "c11-race")
	cmd := exec.Command("go", "build", "-race", "-tags", "verif", "-o", rexe, "./cmd/c11")
	cmd.Dir = h
	cmd.Env = append(os.Environ(), "CGO_ENABLED=1", "GOFLAGS=-mod=mod", "GOPROXY=off", "GOSUMDB=off", "GOTOOLCHAIN=local")
	if outb, err := cmd.CombinedOutput(); err != nil {
		t := string(outb)
		if len(t) > 300 {
			t = t[len(t)-300:]
		}
		return "", fmt.Errorf("%v: %s", err, t)
	}
	return rexe, nil
}

// raceReports reads the race detector's log files of one child: the first report whose stacks
// go through a method of the instrumented state machines, and how many others there are
func raceReports(prefix string) (string, int) {
	files, _ := filepath.Glob(prefix + ".*")
	first, other := "", 0
	for _, f := range files {
		b, err := os.ReadFile(f)
		if err != nil {
			continue
		}
		for _, rep := range strings.Split(string(b), "==================") {
			if !strings.Contains(rep, "DATA RACE") {
				continue
			}
			if strings.Contains(rep, "main.(*core).") || strings.Contains(rep, "main.(*plainSM).") ||
				strings.Contains(rep, "main.(*concSM).") || strings.Contains(rep, "main.(*diskSM).") {
				if first == "" {
					var fns []string
					for _, l := range strings.Split(rep, "\n") {
						l = strings.TrimSpace(l)
						if strings.HasPrefix(l, "main.(*") {
							fns = append(fns, strings.SplitN(l, "(", 3)[0]+"("+strings.SplitN(strings.SplitN(l, "(", 3)[1], ")", 2)[0]+")"+strings.SplitN(strings.SplitN(l, ")", 2)[1], "(", 2)[0])
						}
					}
					first = strings.Join(fns, " / ")
					if len(first) > 200 {
						first = first[:200]
					}
				}
			} else {
				other++
			}
		}
	}
	return first, other
}

func runCases(a vh.Args) {
	st := vh.NewStats("live cases in which at least two user-state-machine calls of different goroutines were in progress at the same time or a stop/restart/close happened; apply cases in which an entry was dropped or turned into a no-op")
	obs := vh.Create(filepath.Join(a.Out, "impl.obs"))
	lines := vh.ReadLines(a.Cases)
	type res struct {
		idx int
		out string
	}
	results := make([]string, len(lines))
	var mu sync.Mutex
	sem := make(chan struct{}, 6)
	var wg sync.WaitGroup
	for i, line := range lines {
		head, body := line, ""
		if k := strings.Index(line, " | "); k >= 0 {
			head, body = line[:k], line[k+3:]
		} else {
			head = strings.TrimSuffix(line, " |")
		}
		hdr := strings.Fields(head)
		if len(hdr) < 2 {
			continue
		}
		id := hdr[0]
		var ops []string
		for _, o := range strings.Split(body, " ; ") {
			if strings.TrimSpace(o) != "" {
				ops = append(ops, strings.TrimSpace(o))
			}
		}
		switch hdr[1] {
		case "live":
			wg.Add(1)
			sem <- struct{}{}
			go func(i int, line string) {
				defer wg.Done()
				defer func() { <-sem }()
				seed, _ := strconv.ParseUint(field(hdr, "seed", "1"), 10, 64)
				c := liveCase{id: id, kind: field(hdr, "kind", "plain"), logPath: field(hdr, "log", ""), seed: seed, ops: ops}
				c.snapw, _ = strconv.ParseUint(field(hdr, "snapw", "2"), 10, 64)
				if c.snapw == 0 {
					c.snapw = 2
				}
				c.ecomp = field(hdr, "ecomp", "0") == "1"
				c.scomp = field(hdr, "scomp", "0") == "1"
				c.lag = field(hdr, "lag", "0") == "1"
				c.sess = field(hdr, "sess", "0") == "1"
				l := &live{c: c, r: newRecorder(seed), st: vh.NewStats("")}
				l.r.lag = c.lag
				if c.logPath != "" {
					l.r.openLog(c.logPath)
				}
				if a.Tier == "thorough" {
					l.r.delay = 300 * time.Microsecond
				}
				p := vh.Catch(l.run)
				mu.Lock()
				defer mu.Unlock()
				for k, v := range l.st.Distribution {
					st.Distribution[k] += v
				}
				if p != "" {
					results[i] = fmt.Sprintf("%s live panic\n", id)
					st.Violation(id, "panic: "+p)
					return
				}
				l.r.closeLog()
				m := monitor(c.kind, l.r.events)
				results[i] = fmt.Sprintf("%s live err=%d nupd=%d incs=%d\n", id, m.err, m.nupd, m.incs)
				st.Count("kind:" + c.kind)
				st.Count(fmt.Sprintf("overlaps-seen:%v", m.overlaps > 0))
				st.Case(line, m.overlaps > 0 || m.incs > 1, line)
				if m.err != 0 {
					st.Violation(id, m.msg)
				}
			}(i, line)
		case "apply":
			results[i] = runApply(id, hdr, ops, st, line)
		default:
			results[i] = fmt.Sprintf("%s ?\n", id)
		}
	}
	wg.Wait()
	for _, r := range results {
		if r != "" {
			obs.Printf("%s", r)
		}
	}
	obs.Close()
	st.Write(a.Out)
}
