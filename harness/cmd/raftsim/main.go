// raftsim harness: generates schedules for a simulated shard of real raft.Peer
// instances (gen), re-executes them deterministically printing the projected
// state after every operation (run), and evaluates the monitors of the Raft-core
// properties on the implementation alone.
//
//	raftsim gen|run -prop C03 ...
package main

import (
	"fmt"
	"os"
	"sort"
	"strconv"
	"strings"

	pb "github.com/lni/dragonboat/v4/raftpb"

	"verif/harness/raftsim"
	"verif/harness/vh"
)

var prop = "C02"

func main() {
	// pull out -prop before the common flag parsing
	var rest []string
	for i := 0; i < len(os.Args); i++ {
		if os.Args[i] == "-prop" && i+1 < len(os.Args) {
			prop = os.Args[i+1]
			i++
			continue
		}
		rest = append(rest, os.Args[i])
	}
	os.Args = rest
	a := vh.ParseArgs()
	switch a.Mode {
	case "gen":
		n, steps := 300, 420
		if a.Tier == "thorough" {
			n, steps = 3000, 600
		}
		if a.N > 0 {
			n = a.N
		}
		w := vh.Create(a.Cases)
		for i := 0; i < n; i++ {
			r := vh.NewRand(a.Seed*1000003 + uint64(i))
			var hdr string
			var ops []string
			// scripted and random schedules alternate in blocks: one block of every scripted
			// schedule, then as many random ones
			if period := 2 * len(scenarios); i%period < len(scenarios) {
				hdr, ops = scenarios[i%period](r)
			} else {
				hdr, ops = generate(r, steps)
			}
			w.Printf("%d %s | %s\n", i, hdr, strings.Join(ops, " ; "))
		}
		w.Close()
	case "run":
		runCases(a)
	}
}

// ---------------------------------------------------------------------------
// generation

type gen struct {
	*raftsim.Driver
	r       *vh.Rand
	c       *raftsim.Cluster
	ops     []string
	nextKey uint64
	started map[uint64]byte
	pending map[uint64]byte // id -> kind of nodes added by a proposed config change, not yet started
	blocked map[uint64]bool
	quiesced map[uint64]int // remaining quiesced ticks of a replica
	// nboot: number of bootstrap entries. The engine hands the bootstrap entries of an initial
	// member to the state machine as ONE task and serves snapshot requests between tasks, so no
	// snapshot lies inside the bootstrap prefix.
	nboot int
	// removedEver: replicas some RemoveNode request named. The text form of a snapshot does not
	// carry the removed set, so a replica restarted from a snapshot forgets it and would accept
	// the return of a removed replica under another kind - an operator error the real
	// membership (which snapshots the removed set) rejects.
	removedEver map[uint64]bool
}

func (g *gen) do(op string) raftsim.Result { return g.Do(op) }

func fmtSS(ss pb.Snapshot) string { return raftsim.FmtSnapshot(ss) }

func sortedIDs(m map[uint64]bool) []uint64 {
	var out []uint64
	for k := range m {
		out = append(out, k)
	}
	sort.Slice(out, func(i, j int) bool { return out[i] < out[j] })
	return out
}

func (g *gen) liveIDs() []uint64 {
	var out []uint64
	for id := range g.c.Nodes {
		out = append(out, id)
	}
	sort.Slice(out, func(i, j int) bool { return out[i] < out[j] })
	return out
}

func (g *gen) cc(id, t, target uint64) {
	if g.removedEver == nil {
		g.removedEver = map[uint64]bool{}
	}
	if pb.ConfigChangeType(t) == pb.RemoveNode {
		g.removedEver[target] = true
	} else if g.removedEver[target] {
		return
	}
	cc := raftsim.MakeCC(t, target)
	g.do(fmt.Sprintf("CC %d %d %d %d %s", id, g.nextKey, t, target, vh.Hex(pb.MustMarshal(&cc))))
}

// startPending starts a replica once its addition has been applied somewhere with that kind.
func (g *gen) startPending() {
	for _, k := range sortedPending(g.pending) {
		known := false
		for _, o := range g.c.Nodes {
			kind := g.pending[k]
			if (kind == 'V' && o.Mem.Voters[k]) || (kind == 'N' && o.Mem.NonVotings[k]) || (kind == 'W' && o.Mem.Witnesses[k]) {
				known = true
			}
		}
		if known {
			g.do(fmt.Sprintf("START %d %c . -", k, g.pending[k]))
			g.started[k] = g.pending[k]
			delete(g.pending, k)
			return
		}
	}
}

// snapshot takes a snapshot of replica id at its applied index and compacts the log up to
// keep entries below it.
func (g *gen) snapshot(id uint64, keep uint64) {
	n := g.c.Nodes[id]
	st := raftsim.Inspect(n)
	if n.Applied > n.Snapshot.Index && n.Applied >= st.FirstIndex && n.Kind != 'W' && n.Applied >= uint64(g.nboot) {
		ss := pb.Snapshot{Index: n.Applied, Term: termAt(st.Entries, st.FirstIndex, st.MarkerTerm, n.Applied), Filepath: "f", FileSize: 1}
		ss.Membership.ConfigChangeId = n.Mem.CCID
		ss.Membership.Addresses = map[uint64]string{}
		ss.Membership.NonVotings = map[uint64]string{}
		ss.Membership.Witnesses = map[uint64]string{}
		for k := range n.Mem.Voters {
			ss.Membership.Addresses[k] = "a"
		}
		for k := range n.Mem.NonVotings {
			ss.Membership.NonVotings[k] = "a"
		}
		for k := range n.Mem.Witnesses {
			ss.Membership.Witnesses[k] = "a"
		}
		if keep >= n.Applied-n.Snapshot.Index {
			keep = n.Applied - n.Snapshot.Index - 1
		}
		if ss.Term != 0 {
			g.do(fmt.Sprintf("SNAP %d %s %d", id, fmtSS(ss), n.Applied-keep))
		}
	}
}

func (g *gen) update(id uint64) { g.Update(id) }

func (g *gen) apply(id uint64, max int) {
	// the bootstrap entries are applied in one go (see gen.nboot)
	if n := g.c.Nodes[id]; n != nil && n.Applied < uint64(g.nboot) && max < g.nboot {
		max = g.nboot
	}
	g.Apply(id, max)
}

func (g *gen) deliver() {
	if len(g.Pool) == 0 {
		return
	}
	i := g.r.Intn(len(g.Pool))
	m := g.Pool[i]
	dup := g.r.Chance(1, 12)
	lost := g.r.Chance(1, 20) || g.blocked[m.To] || g.blocked[m.From]
	g.Deliver(i, dup, lost, g.r)
	if g.Stopped || lost {
		return
	}
	if _, ok := g.c.Nodes[m.To]; ok && g.r.Chance(3, 4) {
		g.update(m.To)
	}
}

func b2i(b bool) int {
	if b {
		return 1
	}
	return 0
}

func generate(r *vh.Rand, steps int) (string, []string) {
	c := &raftsim.Cluster{Nodes: map[uint64]*raftsim.Node{}}
	c.HT = 1
	c.ET = uint64(3 + r.Intn(6))
	c.CQ = r.Bool()
	c.PV = r.Bool()
	nv := []int{1, 2, 3, 3, 3, 3, 4, 5, 5}[r.Intn(9)]
	g := &gen{r: r, c: c, started: map[uint64]byte{}, pending: map[uint64]byte{}, blocked: map[uint64]bool{}, quiesced: map[uint64]int{}, nextKey: 100, nboot: nv}
	g.Driver = &raftsim.Driver{C: c}
	g.Record = func(op string, rt uint64) { g.ops = append(g.ops, fmt.Sprintf("%s @%d", op, rt)) }
	var init []string
	for i := 1; i <= nv; i++ {
		init = append(init, fmt.Sprint(i))
	}
	for i := 1; i <= nv; i++ {
		g.do(fmt.Sprintf("START %d V %s %s", i, strings.Join(init, "+"), strings.Join(raftsim.BootstrapCmds(raftsim.SplitIDs(strings.Join(init, "+"))), ",")))
		g.started[uint64(i)] = 'V'
	}
	nextID := uint64(nv + 1)
	for step := 0; step < steps && !g.Stopped; step++ {
		if len(g.pending) > 0 && r.Chance(1, 5) {
			g.startPending()
			if g.Stopped {
				break
			}
		}
		ids := g.liveIDs()
		id := ids[r.Intn(len(ids))]
		n := c.Nodes[id]
		switch x := r.Intn(100); {
		case x < 28:
			if !g.blocked[id] || r.Chance(1, 3) {
				// a quiesced replica (node.go: qs.quiesced()) gets QuiescedTick instead of Tick
				if g.quiesced[id] > 0 {
					g.quiesced[id]--
					g.do(fmt.Sprintf("Q %d", id))
				} else {
					if r.Chance(1, 40) {
						g.quiesced[id] = 1 + r.Intn(12)
					}
					g.do(fmt.Sprintf("T %d", id))
				}
				if !g.Stopped && r.Chance(3, 4) {
					g.update(id)
				}
			}
		case x < 64:
			g.deliver()
		case x < 72:
			g.update(id)
		case x < 80:
			g.apply(id, 1+r.Intn(6))
		case x < 84:
			g.nextKey++
			g.do(fmt.Sprintf("P %d %d %d %d %s", id, g.nextKey, 0, 0, vh.Hex([]byte{byte(g.nextKey), byte(g.nextKey >> 8)})))
			if !g.Stopped && r.Chance(3, 4) {
				g.update(id)
			}
		case x < 87:
			g.nextKey++
			g.do(fmt.Sprintf("R %d %d %d", id, g.nextKey, r.Intn(3)))
			if !g.Stopped && r.Chance(3, 4) {
				g.update(id)
			}
		case x < 92:
			// membership change
			g.nextKey++
			switch r.Intn(5) {
			case 0, 1:
				if nextID <= 7 {
					kind := []byte{'V', 'N', 'W', 'N'}[r.Intn(4)]
					t := map[byte]pb.ConfigChangeType{'V': pb.AddNode, 'N': pb.AddNonVoting, 'W': pb.AddWitness}[kind]
					g.cc(id, uint64(t), nextID)
					g.pending[nextID] = kind
					nextID++
				}
			case 2:
				// promote a non-voting member
				for _, k := range sortedIDs(n.Mem.NonVotings) {
					g.cc(id, uint64(pb.AddNode), k)
					break
				}
			case 3:
				v := sortedIDs(n.Mem.Voters)
				if len(v) > 1 {
					g.cc(id, uint64(pb.RemoveNode), v[r.Intn(len(v))])
				}
			default:
				// an invalid / repeated request about a replica that exists (an id is never reused for
				// another kind of replica: that would be an operator error, not a fault)
				var all []uint64
				all = append(all, sortedIDs(n.Mem.Voters)...)
				all = append(all, sortedIDs(n.Mem.NonVotings)...)
				all = append(all, sortedIDs(n.Mem.Witnesses)...)
				all = append(all, sortedIDs(n.Mem.Removed)...)
				if len(all) > 0 {
					g.cc(id, uint64(r.Intn(4)), all[r.Intn(len(all))])
				}
			}
			if !g.Stopped && r.Chance(3, 4) {
				g.update(id)
			}
		case x < 93:
			// start a node that was added
			g.startPending()
		case x < 94:
			v := sortedIDs(n.Mem.Voters)
			if r.Chance(1, 4) {
				// a transfer aimed at a member that must never lead
				v = append(sortedIDs(n.Mem.NonVotings), sortedIDs(n.Mem.Witnesses)...)
			}
			if len(v) > 0 {
				g.do(fmt.Sprintf("LT %d %d", id, v[r.Intn(len(v))]))
			}
		case x < 96:
			switch r.Intn(4) {
			case 0:
				g.do(fmt.Sprintf("RESTART %d", id))
			case 1:
				// snapshot at the applied index and compact
				g.snapshot(id, uint64(r.Intn(3)))
			case 2:
				// log query: a range around the committed part of the log (low < high as
				// NodeHost.QueryRaftLog guarantees)
				st := raftsim.Inspect(n)
				lo := uint64(r.Intn(int(st.LastIndex) + 3))
				g.do(fmt.Sprintf("LQ %d %d %d", id, lo, lo+1+uint64(r.Intn(6))))
				if !g.Stopped {
					g.update(id)
				}
			default:
				g.do(fmt.Sprintf("UN %d %d", id, 1+r.Intn(5)))
			}
		default:
			// partition toggling: heal, or isolate the current leader (if any) or a random replica
			if len(g.blocked) > 0 && r.Chance(2, 3) {
				g.blocked = map[uint64]bool{}
			} else {
				target := id
				for _, k := range ids {
					if raftsim.Inspect(c.Nodes[k]).Role == 3 && r.Chance(3, 4) {
						target = k
					}
				}
				g.blocked[target] = true
			}
		}
	}
	return c.Header(), g.ops
}

func min64(a, b uint64) uint64 {
	if a < b {
		return a
	}
	return b
}

func termAt(ents []pb.Entry, first, mterm, idx uint64) uint64 {
	if idx == first-1 {
		return mterm
	}
	if idx >= first && idx-first < uint64(len(ents)) {
		return ents[idx-first].Term
	}
	return 0
}

func sortedPending(m map[uint64]byte) []uint64 {
	var out []uint64
	for k := range m {
		out = append(out, k)
	}
	sort.Slice(out, func(i, j int) bool { return out[i] < out[j] })
	return out
}

// ---------------------------------------------------------------------------
// run + monitors

type commitRec struct {
	term uint64
	sig  string
}

type monitor struct {
	leaderOfTerm map[uint64]uint64    // C03 election safety
	voteOf       map[[2]uint64]uint64 // (node, term) -> candidate granted (C03)
	committed    map[uint64]commitRec // index -> entry committed somewhere (C02)
	appliedNext  map[uint64]uint64    // node -> last index handed out for apply in this incarnation (C02)
	readAt       map[[2]uint64]uint64 // ctx -> max commit when requested (C06)
	kinds        map[uint64]byte      // C18
	prevRole     map[uint64]uint64    // C18
	votingSeen   map[uint64]map[uint64]bool // C18: peers a replica saw as voting since its last Update
	prevCommit   map[uint64]uint64    // C02: commit index of a leader at its previous operation
	hbAck        map[[2]uint64]map[uint64]bool // C06/C18: read ctx -> replicas that sent a HeartbeatResp carrying it
	votingEver   map[uint64]map[uint64]bool    // every peer a replica ever saw as voting (an acknowledgement given by a voter counts after its removal)
	votingPrev   map[uint64]string             // voting set of a replica at its previous operation
	votingMoved  map[uint64]bool               // the voting set of a replica changed since its last Update
	viol         []string
	elections    int
	commits      int
	reads        int
	ccs          int
	restarts     int
	snapshots    int
	witnessMsgs  int
}

func newMonitor() *monitor {
	return &monitor{leaderOfTerm: map[uint64]uint64{}, voteOf: map[[2]uint64]uint64{}, committed: map[uint64]commitRec{},
		appliedNext: map[uint64]uint64{}, readAt: map[[2]uint64]uint64{}, kinds: map[uint64]byte{}, prevRole: map[uint64]uint64{}, prevCommit: map[uint64]uint64{}, hbAck: map[[2]uint64]map[uint64]bool{}}
}

func (mo *monitor) v(p string, format string, a ...interface{}) {
	if p == prop || prop == "ALL" {
		mo.viol = append(mo.viol, fmt.Sprintf(format, a...))
	}
}

func entSig(e pb.Entry) string {
	return fmt.Sprintf("%d/%d/%d/%d/%d/%s", e.Type, e.Key, e.ClientID, e.SeriesID, e.RespondedTo, vh.Hex(e.Cmd))
}

func (mo *monitor) observe(c *raftsim.Cluster, op string, res raftsim.Result) {
	defer func() {
		if strings.HasPrefix(op, "U ") && res.Node != nil && mo.votingSeen != nil {
			// a new interval starts with the sender's current view
			cur := map[uint64]bool{}
			for _, rm := range raftsim.Inspect(res.Node).Remotes {
				if rm.Kind == 0 || rm.Kind == 2 {
					cur[rm.ID] = true
				}
			}
			mo.votingSeen[res.Node.ID] = cur
			delete(mo.votingMoved, res.Node.ID)
		}
	}()
	n := res.Node
	if n == nil || res.Panicked {
		return
	}
	f := strings.Fields(op)
	st := raftsim.Inspect(n)
	if mo.votingSeen == nil {
		mo.votingSeen = map[uint64]map[uint64]bool{}
	}
	if mo.votingSeen[n.ID] == nil {
		mo.votingSeen[n.ID] = map[uint64]bool{}
	}
	{
		var cur []uint64
		for _, rm := range st.Remotes {
			if rm.Kind == 0 || rm.Kind == 2 {
				mo.votingSeen[n.ID][rm.ID] = true
				if mo.votingEver == nil {
					mo.votingEver = map[uint64]map[uint64]bool{}
				}
				if mo.votingEver[n.ID] == nil {
					mo.votingEver[n.ID] = map[uint64]bool{}
				}
				mo.votingEver[n.ID][rm.ID] = true
				cur = append(cur, rm.ID)
			}
		}
		if mo.votingPrev == nil {
			mo.votingPrev, mo.votingMoved = map[uint64]string{}, map[uint64]bool{}
		}
		if sig := fmt.Sprint(cur); mo.votingPrev[n.ID] != sig {
			if _, seen := mo.votingPrev[n.ID]; seen {
				mo.votingMoved[n.ID] = true
			}
			mo.votingPrev[n.ID] = sig
		}
	}
	switch f[0] {
	case "START":
		mo.kinds[n.ID] = n.Kind
	case "RESTART":
		delete(mo.appliedNext, n.ID)
		mo.restarts++
	case "R":
		low, _ := strconv.ParseUint(f[2], 10, 64)
		high, _ := strconv.ParseUint(f[3], 10, 64)
		mx := uint64(0)
		for _, o := range c.Nodes {
			if s := raftsim.Inspect(o); s.Committed > mx {
				mx = s.Committed
			}
		}
		if _, ok := mo.readAt[[2]uint64{low, high}]; !ok {
			mo.readAt[[2]uint64{low, high}] = mx
		}
	case "ACC":
		mo.ccs++
	case "MUT":
		// --- C02: what a replica sent is what arrives (or nothing): the message delivered next was
		// changed by its sender after it had been handed to the transport
		for _, tag := range []string{"C02", "C19"} {
			mo.v(tag, "a message to replica %d was changed by its sender after it was handed to the transport (entries alias the sender's log buffer)", n.ID)
		}
	case "RR":
		// --- C07/C18: after restoring a snapshot the replica's voters, non-voting members and
		// witnesses are exactly the snapshot's membership (n.Mem was just set from it)
		got := map[int]map[uint64]bool{0: {}, 1: {}, 2: {}}
		for _, rm := range st.Remotes {
			got[rm.Kind][rm.ID] = true
		}
		for kind, want := range map[int]map[uint64]bool{0: n.Mem.Voters, 1: n.Mem.NonVotings, 2: n.Mem.Witnesses} {
			same := len(got[kind]) == len(want)
			for k := range want {
				if !got[kind][k] {
					same = false
				}
			}
			if !same {
				for _, tag := range []string{"C07", "C18"} {
					mo.v(tag, "replica %d restored a snapshot with %v of kind %d but now tracks %v", n.ID, sortedIDs(want), kind, sortedIDs(got[kind]))
				}
			}
		}
	case "SNAP":
		mo.snapshots++
	}
	// --- C06/C18: a pending read is confirmed only by replicas that acknowledged a heartbeat
	// carrying exactly its ctx
	if st.Role == 3 {
		for _, rd := range st.Reads {
			for _, id := range rd.Confirmed {
				if id != n.ID && !mo.hbAck[[2]uint64{rd.Low, rd.High}][id] {
					for _, tag := range []string{"C06", "C18"} {
						mo.v(tag, "leader %d counts replica %d as having confirmed read ctx %d/%d although it never acknowledged a heartbeat carrying that ctx", n.ID, id, rd.Low, rd.High)
					}
				}
			}
		}
	}
	// --- C03: at most one leader per term
	if st.Role == 3 {
		if l, ok := mo.leaderOfTerm[st.Term]; ok && l != n.ID {
			for _, tag := range []string{"C03", "C02"} {
				mo.v(tag, "two leaders in term %d: replicas %d and %d", st.Term, l, n.ID)
			}
		} else if !ok {
			mo.leaderOfTerm[st.Term] = n.ID
			mo.elections++
			// a leader was elected by a quorum of its voting members (voters and witnesses):
			// the grants sent to it in this term (a superset of those it received) plus its
			// own vote must reach the quorum of its own membership
			voting, grants := 0, 1
			for _, rm := range st.Remotes {
				if rm.Kind == 0 || rm.Kind == 2 {
					voting++
					if rm.ID != n.ID {
						if to, ok := mo.voteOf[[2]uint64{rm.ID, st.Term}]; ok && to == n.ID {
							grants++
						}
					}
				}
			}
			if f[0] != "RESTART" && f[0] != "START" && grants < voting/2+1 {
				// C03 (election by a quorum) and C18 (witnesses count as voting members)
				for _, tag := range []string{"C03", "C18"} {
					mo.v(tag, "replica %d became leader of term %d with %d votes (its own included) out of %d voting members", n.ID, st.Term, grants, voting)
				}
			}
			// leader completeness: the new leader holds every entry committed so far
			for idx, rec := range mo.committed {
				if idx < st.FirstIndex {
					continue
				}
				if idx > st.LastIndex || idx-st.FirstIndex >= uint64(len(st.Entries)) {
					mo.v("C03", "leader %d of term %d lacks committed index %d", n.ID, st.Term, idx)
				} else if e := st.Entries[idx-st.FirstIndex]; e.Term != rec.term {
					mo.v("C03", "leader %d of term %d has term %d at committed index %d (committed term %d)", n.ID, st.Term, e.Term, idx, rec.term)
				}
			}
		}
	}
	// --- C07: membership changes one at a time
	if st.Role == 3 && !st.EntriesCompacted {
		cnt := 0
		for _, e := range st.Entries {
			if e.Index > st.Applied && e.Type == pb.ConfigChangeEntry {
				cnt++
			}
		}
		if cnt > 1 {
			mo.v("C07", "leader %d holds %d membership changes above its applied index %d", n.ID, cnt, st.Applied)
		}
	}
	if pr, ok := mo.prevRole[n.ID]; ok && pr == 0 && (st.Role == 1 || st.Role == 2) && st.Committed > st.Applied && f[0] != "RESTART" {
		mo.v("C07", "replica %d started a campaign with committed %d > applied %d", n.ID, st.Committed, st.Applied)
	}
	// --- C18: only full voters campaign or lead: a replica whose own membership lists it as
	// non-voting or witness, or that was non-voting/witness one operation ago, must not be
	// (pre)candidate or leader (promotion goes through the follower role)
	if st.Role == 1 || st.Role == 2 || st.Role == 3 {
		self := false
		for _, rm := range st.Remotes {
			if rm.ID == n.ID {
				self = true
			}
		}
		if !self && (st.Role != 3 || f[0] != "ACC") {
			mo.v("C18", "replica %d is role %d although it is not in its own membership (removed)", n.ID, st.Role)
		}
		for _, rm := range st.Remotes {
			if rm.ID == n.ID && rm.Kind != 0 {
				mo.v("C18", "replica %d is role %d while its membership lists it as kind %d", n.ID, st.Role, rm.Kind)
			}
		}
		if pr, ok := mo.prevRole[n.ID]; ok && (pr == 4 || pr == 5) && f[0] != "RESTART" && f[0] != "START" {
			mo.v("C18", "replica %d went from role %d directly to role %d", n.ID, pr, st.Role)
		}
	}
	if pr, ok := mo.prevRole[n.ID]; ok && pr == 5 && st.Role != 5 && f[0] != "RESTART" {
		mo.v("C18", "witness %d changed role to %d", n.ID, st.Role)
	}
	mo.prevRole[n.ID] = st.Role
	// --- C02/C18: a leader advances its commit index to k only when a quorum of its voting members
	// (voters and witnesses, itself included) holds entry k of its term: a member that acknowledged
	// the entry still has it (or has compacted past it)
	if pc, seen := mo.prevCommit[n.ID]; st.Role == 3 && seen && st.Committed > pc && !st.EntriesCompacted {
		k := st.Committed
		kt := termAt(st.Entries, st.FirstIndex, st.MarkerTerm, k)
		voting, holders := 0, 0
		for _, rm := range st.Remotes {
			if rm.Kind != 0 && rm.Kind != 2 {
				continue
			}
			voting++
			if rm.ID == n.ID {
				holders++
				continue
			}
			o, ok := c.Nodes[rm.ID]
			if !ok {
				continue
			}
			os := raftsim.Inspect(o)
			if os.FirstIndex > k+1 || (os.LastIndex >= k && !os.EntriesCompacted && termAt(os.Entries, os.FirstIndex, os.MarkerTerm, k) == kt) {
				holders++
			}
		}
		if kt != 0 && voting > 0 && holders < voting/2+1 {
			for _, tag := range []string{"C02", "C18"} {
				mo.v(tag, "leader %d advanced its commit index to %d (term %d) while only %d of its %d voting members hold that entry", n.ID, k, kt, holders, voting)
			}
		}
	}
	if st.Role == 3 {
		mo.prevCommit[n.ID] = st.Committed
	} else {
		delete(mo.prevCommit, n.ID)
	}
	// --- C02: committed entries agree across replicas and never change. A commit index
	// counts once the Update that carries it was taken (persisted): a single-voter leader
	// advances it in memory while appending, before its own write, and a crash before that
	// Update takes entry and index back (RaftNet.v D3/D8, C04 apply_not_before_persist).
	if !st.EntriesCompacted && f[0] == "U" {
		for i, e := range st.Entries {
			idx := st.FirstIndex + uint64(i)
			if idx > st.Committed {
				break
			}
			rec, ok := mo.committed[idx]
			sig := entSig(e)
			if n.Kind == 'W' && e.Type == pb.MetadataEntry {
				sig = "" // witnesses hold metadata only
			}
			if !ok {
				if sig != "" {
					mo.committed[idx] = commitRec{e.Term, sig}
					mo.commits++
				}
			} else if rec.term != e.Term || (sig != "" && rec.sig != sig) {
				mo.v("C02", "replica %d holds a different committed entry at index %d: term %d %s, elsewhere term %d %s", n.ID, idx, e.Term, sig, rec.term, rec.sig)
			}
		}
	}
	if res.Update != nil {
		ud := res.Update
		// apply stream: strictly +1 within an incarnation, only committed entries. An Update may
		// carry a snapshot AND the committed entries that follow it (the replica restored the
		// snapshot and appended to it before the Update was taken): the snapshot comes first
		if !pb.IsEmptySnapshot(ud.Snapshot) {
			mo.appliedNext[n.ID] = ud.Snapshot.Index
		}
		for _, e := range ud.CommittedEntries {
			if last, ok := mo.appliedNext[n.ID]; ok && e.Index != last+1 {
				mo.v("C02", "replica %d handed out index %d for apply after %d", n.ID, e.Index, last)
			}
			mo.appliedNext[n.ID] = e.Index
			if e.Index > st.Committed {
				mo.v("C02", "replica %d handed out uncommitted index %d for apply (committed %d)", n.ID, e.Index, st.Committed)
			}
			if rec, ok := mo.committed[e.Index]; ok && rec.term != e.Term {
				mo.v("C02", "replica %d applies term %d at index %d, committed term is %d", n.ID, e.Term, e.Index, rec.term)
			}
		}
		for _, m := range ud.Messages {
			// --- C03: one vote per term, also across restarts
			if m.Type == pb.RequestVoteResp && !m.Reject {
				k := [2]uint64{n.ID, m.Term}
				if c0, ok := mo.voteOf[k]; ok && c0 != m.To {
					// C03, and C02: agreement rests on one leader per term
					for _, tag := range []string{"C03", "C02"} {
						mo.v(tag, "replica %d granted its vote in term %d to both %d and %d", n.ID, m.Term, c0, m.To)
					}
				}
				mo.voteOf[k] = m.To
			}
			// --- C18: witnesses get metadata and membership changes only
			if tn, ok := c.Nodes[m.To]; ok && tn.Kind == 'W' {
				for _, e := range m.Entries {
					mo.witnessMsgs++
					if e.Type != pb.MetadataEntry && e.Type != pb.ConfigChangeEntry {
						mo.v("C18", "entry of type %d with payload sent to witness %d", e.Type, m.To)
					}
					if e.Type == pb.MetadataEntry && len(e.Cmd) > 0 {
						mo.v("C18", "metadata entry with payload sent to witness %d", m.To)
					}
				}
				if m.Type == pb.InstallSnapshot && (m.Snapshot.Filepath != "" || !m.Snapshot.Witness) {
					mo.v("C18", "full snapshot sent to witness %d", m.To)
				}
			}
			// --- C18: ReadIndex hints go to voting members only
			if m.Type == pb.Heartbeat && m.Hint != 0 {
				// (the message may have been created before a membership change that the sender applied
				// before this Update was taken: judged by every view the sender held since its last Update)
				if tn, ok := c.Nodes[m.To]; ok && tn.Kind == 'N' && !n.Mem.Voters[m.To] && !mo.votingSeen[n.ID][m.To] {
					if st2 := raftsim.Inspect(n); !isVotingPeer(st2, m.To) {
						mo.v("C18", "read confirmation hint sent to non-voting replica %d", m.To)
					}
				}
			}
			// --- C06/C18: who acknowledged which read ctx
			if m.Type == pb.HeartbeatResp && m.Hint != 0 {
				k := [2]uint64{m.Hint, m.HintHigh}
				if mo.hbAck[k] == nil {
					mo.hbAck[k] = map[uint64]bool{}
				}
				mo.hbAck[k][n.ID] = true
			}
			// --- C06 for forwarded reads
			if m.Type == pb.ReadIndexResp {
				mo.checkRead(n.ID, m.Hint, m.HintHigh, m.LogIndex)
				mo.checkReadQuorum(n)
			}
		}
		for _, rr := range ud.ReadyToReads {
			if st.Role == 3 {
				mo.checkRead(n.ID, rr.SystemCtx.Low, rr.SystemCtx.High, rr.Index)
				mo.checkReadQuorum(n)
			}
		}
	}
}

func isVotingPeer(st interface{}, id uint64) bool { return false }

func (mo *monitor) checkRead(node, low, high, index uint64) {
	at, ok := mo.readAt[[2]uint64{low, high}]
	if !ok {
		return
	}
	mo.reads++
	if index < at {
		mo.v("C06", "replica %d released read ctx %d/%d at index %d, commit index at request time was %d", node, low, high, index, at)
	}
}

// checkReadQuorum: a leader releases a read only after a quorum of its voting members (voters
// and witnesses, itself included) acknowledged a heartbeat carrying a read ctx (the released
// ctx or a later one of the same queue): some ctx must have been acknowledged by enough voting
// members. Judged only when the leader's voting set did not change since its previous Update.
func (mo *monitor) checkReadQuorum(n *raftsim.Node) {
	voting := map[uint64]bool{}
	for _, rm := range raftsim.Inspect(n).Remotes {
		if rm.Kind == 0 || rm.Kind == 2 {
			voting[rm.ID] = true
		}
	}
	if !voting[n.ID] || len(voting) != len(mo.votingSeen[n.ID]) || mo.votingMoved[n.ID] {
		return
	}
	best := 1
	for _, ackers := range mo.hbAck {
		cnt := 1
		for k := range ackers {
			// raft keeps the confirmation of a voter that was removed afterwards
			if (voting[k] || mo.votingEver[n.ID][k]) && k != n.ID {
				cnt++
			}
		}
		if cnt > best {
			best = cnt
		}
	}
	if best < len(voting)/2+1 {
		for _, tag := range []string{"C06", "C18"} {
			mo.v(tag, "leader %d released a read although no read ctx was acknowledged by a quorum: at most %d of its %d voting members (itself included)", n.ID, best, len(voting))
		}
	}
}

const fairRounds = 120

var progressOK, progressInconclusive, progressDown int

func runCases(a vh.Args) {
	rule := map[string]string{
		"C02": "non-trivial = a schedule in which at least 3 entries were committed and one replica restarted or a conflict was overwritten",
		"C03": "non-trivial = a schedule with at least 2 completed elections (distinct terms with a leader)",
		"C06": "non-trivial = a schedule in which at least one ReadIndex was released by a leader",
		"C07": "non-trivial = a schedule with at least one applied membership change",
		"C17": "non-trivial = a schedule with at least one completed election",
		"C18": "non-trivial = a schedule containing a non-voting or witness replica",
	}[prop]
	st := vh.NewStats("schedules for 1-5 voters (+ joining non-voting/witness/voter replicas): ticks, message delivery with loss/duplication/reordering/partitions, proposals, reads, membership changes, leader transfer, restart, snapshot+compaction; every op re-executed on real raft.Peer instances and on the extracted Coq model; " + rule + "; distinct by schedule text")
	obs := vh.Create(a.Out + "/impl.obs")
	for _, line := range vh.ReadLines(a.Cases) {
		sp := strings.SplitN(line, " | ", 2)
		if len(sp) != 2 {
			continue
		}
		hf := strings.SplitN(sp[0], " ", 2)
		id := hf[0]
		c := raftsim.ParseHeader(hf[1])
		mo := newMonitor()
		special := false
		for k, opt := range strings.Split(sp[1], " ; ") {
			op, rt := raftsim.SplitOp(opt)
			if op == "" {
				continue
			}
			res := c.Exec(op, rt, true)
			obs.Printf("%s %d %s\n", id, k, res.Obs)
			if res.Panicked {
				// the panics with which a replica refuses a snapshot / config change that contradicts
				// the kind it was started with are the code's answer to an operator error, not a
				// fault the properties cover (Driver.FairPhase classifies them the same way)
				operator := false
				for _, kw := range []string{"is not a nonVoting", "is not witness", "is witness", "converting to", "could not promote"} {
					if strings.Contains(res.PanicMsg, kw) {
						operator = true
					}
				}
				if operator {
					st.Count("inconclusive.operator-error-panic")
				} else {
					mo.v(prop, "implementation panicked at op %d (%s): %s", k, strings.Fields(op)[0], res.PanicMsg)
				}
				break
			}
			mo.observe(c, op, res)
			st.Count("op." + strings.Fields(op)[0])
			if res.Node != nil && res.Node.Kind != 'V' {
				special = true
			}
		}
		if prop == "C17" && len(mo.viol) == 0 && len(c.Nodes) > 0 {
			// progress monitor: fault-free fair schedule after the recorded fault prefix
			d := &raftsim.Driver{C: c}
			if why := d.FairPhase(fairRounds); why != "" {
				mo.v("C17", "%s", why)
			} else if d.Inconclusive {
				progressInconclusive++
			} else {
				progressOK++
				// the same fault prefix again, then one voting member stays down: the
				// remaining connected quorum must still make progress
				c2 := raftsim.ParseHeader(hf[1])
				okPrefix := true
				for _, opt := range strings.Split(sp[1], " ; ") {
					if op, rt := raftsim.SplitOp(opt); op != "" {
						if c2.Exec(op, rt, true).Panicked {
							okPrefix = false
							break
						}
					}
				}
				if okPrefix {
					d2 := &raftsim.Driver{C: c2, DownOne: true}
					if why := d2.FairPhase(fairRounds); why != "" && len(d2.Down) > 0 {
						mo.v("C17", "%s", why)
					} else if len(d2.Down) > 0 && !d2.Inconclusive {
						progressDown++
					}
				}
			}
		}
		for _, v := range mo.viol {
			st.Violation(id, v)
			break
		}
		nt := map[string]bool{
			"C02": mo.commits >= 3 && mo.restarts+mo.snapshots > 0 || mo.commits >= 6,
			"C03": mo.elections >= 2, "C06": mo.reads >= 1, "C07": mo.ccs >= 1,
			"C17": mo.elections >= 1, "C18": special}[prop]
		st.Count(fmt.Sprintf("elections=%d", minI(mo.elections, 4)))
		st.Count(fmt.Sprintf("reads_released=%d", minI(mo.reads, 3)))
		st.Count(fmt.Sprintf("ccs_applied=%d", minI(mo.ccs, 3)))
		smp := line
		st.Case(sp[1], nt, smp)
	}
	obs.Close()
	if prop == "C17" {
		st.Notes["fair_phase"] = fmt.Sprintf("%d schedules reached leader+commit+catch-up within %d fault-free rounds; %d inconclusive (a replica started with a kind contradicting the membership); %d of them again with one voting member down", progressOK, fairRounds, progressInconclusive, progressDown)
	}
	st.Write(a.Out)
}

func minI(a, b int) int {
	if a < b {
		return a
	}
	return b
}
