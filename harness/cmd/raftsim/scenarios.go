package main

// Scripted schedules: rare multi-step situations that random scheduling reaches too
// seldom (two campaigns racing for one voter, a transfer overlapping a removal, reads on
// a deposed leader, a delayed confirmation). Each script still goes through the same
// driver, so it is an ordinary recorded schedule: executed on the real code and on the
// model, and judged by the same monitors. Small random variations come from r.

import (
	"fmt"
	"strings"

	pb "github.com/lni/dragonboat/v4/raftpb"

	"verif/harness/raftsim"
	"verif/harness/vh"
)

func newScenarioGen(r *vh.Rand, nv int, et uint64, cq, pv bool) *gen {
	c := &raftsim.Cluster{Nodes: map[uint64]*raftsim.Node{}}
	c.HT, c.ET, c.CQ, c.PV = 1, et, cq, pv
	g := &gen{r: r, c: c, started: map[uint64]byte{}, pending: map[uint64]byte{}, blocked: map[uint64]bool{}, quiesced: map[uint64]int{}, nextKey: 500, nboot: nv}
	g.Driver = &raftsim.Driver{C: c}
	g.Record = func(op string, rt uint64) { g.ops = append(g.ops, fmt.Sprintf("%s @%d", op, rt)) }
	var init []string
	for i := 1; i <= nv; i++ {
		init = append(init, fmt.Sprint(i))
	}
	for i := 1; i <= nv; i++ {
		g.do(fmt.Sprintf("START %d V %s %s", i, strings.Join(init, "+"), strings.Join(raftsim.BootstrapCmds(raftsim.SplitIDs(strings.Join(init, "+"))), ",")))
		g.update(uint64(i))
		g.apply(uint64(i), 100)
	}
	return g
}

// settle delivers pool messages accepted by keep (others stay in the pool) until none is left.
func (g *gen) settle(keep func(m pb.Message) bool) {
	for n := 0; n < 400 && !g.Stopped; n++ {
		idx := -1
		for i, m := range g.Pool {
			if keep == nil || keep(m) {
				idx = i
				break
			}
		}
		if idx < 0 {
			return
		}
		m := g.Pool[idx]
		g.Deliver(idx, false, false, nil)
		if g.Stopped {
			return
		}
		if _, ok := g.c.Nodes[m.To]; ok {
			g.update(m.To)
			if !g.Stopped {
				g.apply(m.To, 100)
			}
		}
	}
}

func (g *gen) role(id uint64) uint64 { return raftsim.Inspect(g.c.Nodes[id]).Role }
func (g *gen) term(id uint64) uint64 { return raftsim.Inspect(g.c.Nodes[id]).Term }

// tickUntil ticks replica id (taking its updates) until pred holds.
func (g *gen) tickUntil(id uint64, pred func() bool, max int) bool {
	for i := 0; i < max && !g.Stopped; i++ {
		if pred() {
			return true
		}
		g.do(fmt.Sprintf("T %d", id))
		if !g.Stopped {
			g.update(id)
		}
	}
	return pred()
}

func (g *gen) elect(id uint64, among func(m pb.Message) bool) bool {
	for round := 0; round < 6 && !g.Stopped; round++ {
		g.tickUntil(id, func() bool { r := g.role(id); return r == 1 || r == 2 || r == 3 }, 40)
		g.settle(among)
		if g.role(id) == 3 {
			// let the no-op commit and be applied everywhere reachable
			g.settle(among)
			for _, k := range g.liveIDs() {
				g.update(k)
				g.apply(k, 100)
			}
			g.settle(among)
			return true
		}
	}
	return false
}

func (g *gen) propose(id uint64) {
	g.nextKey++
	g.do(fmt.Sprintf("P %d %d 0 0 %s", id, g.nextKey, vh.Hex([]byte{byte(g.nextKey), byte(g.nextKey >> 8)})))
	if !g.Stopped {
		g.update(id)
	}
}

func only(ids ...uint64) func(m pb.Message) bool {
	return func(m pb.Message) bool {
		okTo, okFrom := false, false
		for _, k := range ids {
			if m.To == k {
				okTo = true
			}
			if m.From == k {
				okFrom = true
			}
		}
		return okTo && okFrom
	}
}

func (g *gen) dropPool(pred func(m pb.Message) bool) {
	var keep []pb.Message
	for _, m := range g.Pool {
		if !pred(m) {
			keep = append(keep, m)
		}
	}
	g.Pool = keep
}

// scenario 0: a leadership transfer (hinted RequestVote) races with an ordinary campaign
// for the same term; the third voter sees the ordinary request first.
func scenarioVoteRace(r *vh.Rand) (string, []string) {
	g := newScenarioGen(r, 3, uint64(4+r.Intn(4)), false, false)
	if !g.elect(1, nil) {
		return g.c.Header(), g.ops
	}
	for i := 0; i < r.Intn(3); i++ {
		g.propose(1)
		g.settle(nil)
	}
	// replica 3's timer fires while its RequestVotes stay in flight
	t0 := g.term(1)
	g.tickUntil(3, func() bool { return g.role(3) == 1 && g.term(3) == t0+1 }, 60)
	// the leader transfers to 2: TimeoutNow -> 2 campaigns for the same term with the hint
	g.do("LT 1 2")
	g.update(1)
	g.settle(func(m pb.Message) bool { return m.Type == pb.TimeoutNow })
	g.update(2)
	// replica 1 sees 3's request first, then 2's hinted request
	g.settle(func(m pb.Message) bool { return m.Type == pb.RequestVote && m.From == 3 && m.To == 1 })
	g.settle(func(m pb.Message) bool { return m.Type == pb.RequestVote && m.From == 2 && m.To == 1 })
	g.settle(func(m pb.Message) bool { return m.Type == pb.RequestVoteResp })
	g.settle(nil)
	return g.c.Header(), g.ops
}

// scenario 1: a transfer to replica 2 overlaps with the removal of replica 2; the TimeoutNow
// arrives after 2 applied its own removal.
func scenarioTransferRemove(r *vh.Rand) (string, []string) {
	g := newScenarioGen(r, 3, uint64(4+r.Intn(4)), false, false)
	if !g.elect(1, nil) {
		return g.c.Header(), g.ops
	}
	g.nextKey++
	g.cc(1, uint64(pb.RemoveNode), 2)
	g.update(1)
	g.do("LT 1 2")
	g.update(1)
	hold := func(m pb.Message) bool { return m.Type != pb.TimeoutNow }
	g.settle(hold)
	// let everybody learn the commit index and apply the removal
	for i := 0; i < 3 && !g.Stopped; i++ {
		g.do("T 1")
		g.update(1)
		g.settle(hold)
		for _, k := range g.liveIDs() {
			g.update(k)
			g.apply(k, 100)
		}
	}
	// now the delayed TimeoutNow reaches the removed replica
	g.settle(func(m pb.Message) bool { return m.Type == pb.TimeoutNow })
	g.update(2)
	g.settle(nil)
	return g.c.Header(), g.ops
}

func (g *gen) addNonVoting(leader, id uint64) {
	g.nextKey++
	g.cc(leader, uint64(pb.AddNonVoting), id)
	g.update(leader)
	g.settle(nil)
	for _, k := range g.liveIDs() {
		g.update(k)
		g.apply(k, 100)
	}
	g.settle(nil)
	g.do(fmt.Sprintf("START %d N . -", id))
	for i := 0; i < 4 && !g.Stopped; i++ {
		g.do(fmt.Sprintf("T %d", leader))
		g.update(leader)
		g.settle(nil)
		for _, k := range g.liveIDs() {
			g.update(k)
			g.apply(k, 100)
		}
	}
}

// scenario 2: the leader is cut off from the other voters together with a non-voting member;
// the others elect a new leader and commit; a read is then issued on the old leader.
func scenarioDeposedLeaderRead(r *vh.Rand) (string, []string) {
	g := newScenarioGen(r, 3, uint64(5+r.Intn(3)), false, false)
	if !g.elect(1, nil) {
		return g.c.Header(), g.ops
	}
	g.addNonVoting(1, 4)
	g.propose(1)
	g.settle(nil)
	// partition {1,4} | {2,3}
	side := only(2, 3)
	g.dropPool(func(m pb.Message) bool { return true })
	if !g.elect(2, side) {
		return g.c.Header(), g.ops
	}
	g.propose(2)
	g.settle(side)
	g.update(2)
	g.settle(side)
	// read on the deposed leader (directly, or forwarded by the non-voting member)
	g.nextKey++
	if r.Bool() {
		g.do(fmt.Sprintf("R 1 %d 1", g.nextKey))
		g.update(1)
	} else {
		g.do(fmt.Sprintf("R 4 %d 1", g.nextKey))
		g.update(4)
	}
	old := only(1, 4)
	g.settle(old)
	for i := 0; i < 3 && !g.Stopped; i++ {
		g.do("T 1")
		g.update(1)
		g.settle(old)
		g.update(4)
		g.settle(old)
	}
	g.update(1)
	g.update(4)
	return g.c.Header(), g.ops
}

// scenario 3: a confirmation for read A is delayed; the leader is deposed, a write commits
// elsewhere, read B is issued on the old leader, then the delayed confirmation for A arrives.
func scenarioDelayedConfirmation(r *vh.Rand) (string, []string) {
	g := newScenarioGen(r, 3, uint64(5+r.Intn(3)), false, false)
	if !g.elect(1, nil) {
		return g.c.Header(), g.ops
	}
	g.propose(1)
	g.settle(nil)
	g.nextKey++
	g.do(fmt.Sprintf("R 1 %d 1", g.nextKey)) // read A
	g.update(1)
	// heartbeats go out; only replica 2's confirmation comes back, 3's is held - or both are
	// held and read A is still pending when read B joins the queue behind it
	both := r.Bool()
	held := func(m pb.Message) bool {
		return !(m.Type == pb.HeartbeatResp && m.To == 1 && (m.From == 3 || both))
	}
	g.settle(held)
	g.update(1)
	// partition the old leader; 2 and 3 elect and commit
	side := only(2, 3)
	if !g.elect(2, func(m pb.Message) bool { return side(m) && held(m) }) {
		return g.c.Header(), g.ops
	}
	g.propose(2)
	g.settle(func(m pb.Message) bool { return side(m) && held(m) })
	g.update(2)
	g.settle(func(m pb.Message) bool { return side(m) && held(m) })
	// read B on the deposed leader, then the delayed confirmation for A arrives
	g.nextKey++
	g.do(fmt.Sprintf("R 1 %d 1", g.nextKey))
	g.update(1)
	g.dropPool(func(m pb.Message) bool { return m.From == 1 }) // its heartbeats are lost
	g.settle(func(m pb.Message) bool { return m.Type == pb.HeartbeatResp && m.From == 3 && m.To == 1 })
	g.update(1)
	return g.c.Header(), g.ops
}

// scenario 4: a leadership transfer reaches a follower that knows a membership change is
// committed but has not applied it; whoever leads afterwards is then asked for another change.
func scenarioTransferWithUnappliedChange(r *vh.Rand) (string, []string) {
	g := newScenarioGen(r, 3, uint64(4+r.Intn(4)), false, false)
	if !g.elect(1, nil) {
		return g.c.Header(), g.ops
	}
	g.nextKey++
	g.cc(1, uint64(pb.AddNode), 4)
	g.update(1)
	// replicate and commit, but nobody applies yet (no apply ops): deliver without the apply step
	deliverNoApply := func(keep func(m pb.Message) bool) {
		for n := 0; n < 200 && !g.Stopped; n++ {
			idx := -1
			for i, m := range g.Pool {
				if keep(m) {
					idx = i
					break
				}
			}
			if idx < 0 {
				return
			}
			m := g.Pool[idx]
			g.Deliver(idx, false, false, nil)
			if !g.Stopped {
				g.do(fmt.Sprintf("U %d 1 %d", m.To, g.c.Nodes[m.To].Applied))
			}
		}
	}
	all := func(m pb.Message) bool { return m.To != 4 }
	deliverNoApply(all)
	g.do("T 1")
	g.do(fmt.Sprintf("U 1 1 %d", g.c.Nodes[1].Applied))
	deliverNoApply(all)
	// transfer to 2 while 2 has committed > applied
	g.do("LT 1 2")
	g.do(fmt.Sprintf("U 1 1 %d", g.c.Nodes[1].Applied))
	deliverNoApply(all)
	deliverNoApply(all)
	// a second change is requested from whoever is leader now
	for _, k := range g.liveIDs() {
		if g.role(k) == 3 {
			g.nextKey++
			g.cc(k, uint64(pb.AddNode), 5)
			g.do(fmt.Sprintf("U %d 1 %d", k, g.c.Nodes[k].Applied))
		}
	}
	deliverNoApply(all)
	return g.c.Header(), g.ops
}

// scenario 5: replica 1 serves a read as leader of term T, is deposed, receives the entries of
// the interim leader only through Replicate messages sent before they were committed (its
// commit index stays where it was), is elected again and is asked for a read before the
// no-op of its new term commits. The interim leader's write is acknowledged by then.
func scenarioReelectedLeaderRead(r *vh.Rand) (string, []string) {
	g := newScenarioGen(r, 3, uint64(5+r.Intn(3)), false, false)
	if !g.elect(1, nil) {
		return g.c.Header(), g.ops
	}
	for i := 0; i <= r.Intn(2); i++ {
		g.propose(1)
		g.settle(nil)
	}
	for _, k := range g.liveIDs() {
		g.update(k)
		g.apply(k, 100)
	}
	g.settle(nil)
	// log queries on the leader and a follower: inside, across and beyond the committed range
	for _, k := range []uint64{1, 2} {
		st := raftsim.Inspect(g.c.Nodes[k])
		for _, q := range [][2]uint64{{st.FirstIndex, st.Committed + 1}, {st.Committed, st.Committed + 5}, {st.Committed + 1, st.Committed + 2}, {0, 1}, {1, st.Committed}} {
			g.do(fmt.Sprintf("LQ %d %d %d", k, q[0], q[1]))
			g.update(k)
		}
	}
	g.nextKey++
	g.do(fmt.Sprintf("R 1 %d 1", g.nextKey))
	g.update(1)
	g.settle(nil)
	g.update(1)
	// 2 campaigns and wins with 3's vote
	t0 := g.term(1)
	g.tickUntil(2, func() bool { return g.role(2) == 1 && g.term(2) == t0+1 }, 80)
	votes := func(a, b uint64) func(m pb.Message) bool {
		return func(m pb.Message) bool {
			return (m.Type == pb.RequestVote || m.Type == pb.RequestVoteResp) && only(a, b)(m)
		}
	}
	g.settle(votes(2, 3))
	if g.Stopped || g.role(2) != 3 {
		return g.c.Header(), g.ops
	}
	// its first Replicate messages (no-op only) are lost
	g.dropPool(func(m pb.Message) bool { return m.From == 2 || m.To == 2 })
	g.propose(2)
	g.dropPool(func(m pb.Message) bool { return m.To == 3 })
	// a heartbeat round with 1 resumes replication to 1: one Replicate with the no-op and
	// the proposal, nothing committed yet
	hb := func() bool {
		for _, m := range g.Pool {
			if m.Type == pb.Heartbeat && m.To == 1 {
				return true
			}
		}
		return false
	}
	g.tickUntil(2, hb, 10)
	g.dropPool(func(m pb.Message) bool { return m.To == 3 })
	g.settle(func(m pb.Message) bool { return m.Type == pb.Heartbeat && m.To == 1 })
	g.settle(func(m pb.Message) bool { return m.Type == pb.HeartbeatResp && m.From == 1 })
	g.settle(func(m pb.Message) bool { return m.Type == pb.Replicate && m.To == 1 })
	g.settle(func(m pb.Message) bool { return m.Type == pb.ReplicateResp && m.From == 1 })
	if g.Stopped {
		return g.c.Header(), g.ops
	}
	g.update(2)
	g.apply(2, 100)
	// 1 never hears of the commit
	g.dropPool(func(m pb.Message) bool { return m.From == 2 || m.To == 2 })
	// 1 campaigns again and wins with 3's vote; its new no-op stays uncommitted
	t1 := g.term(1)
	g.tickUntil(1, func() bool { return g.role(1) == 1 && g.term(1) == t1+1 }, 80)
	g.settle(votes(1, 3))
	if g.Stopped || g.role(1) != 3 {
		return g.c.Header(), g.ops
	}
	g.dropPool(func(m pb.Message) bool { return m.Type == pb.Replicate })
	g.nextKey++
	g.do(fmt.Sprintf("R 1 %d 1", g.nextKey))
	g.update(1)
	g.settle(func(m pb.Message) bool {
		return (m.Type == pb.Heartbeat || m.Type == pb.HeartbeatResp) && only(1, 3)(m)
	})
	g.update(1)
	return g.c.Header(), g.ops
}

// settleHold is settle, but the replicas in hold take their updates without applying anything.
func (g *gen) settleHold(keep func(m pb.Message) bool, hold map[uint64]bool) {
	for n := 0; n < 400 && !g.Stopped; n++ {
		idx := -1
		for i, m := range g.Pool {
			if keep == nil || keep(m) {
				idx = i
				break
			}
		}
		if idx < 0 {
			return
		}
		m := g.Pool[idx]
		g.Deliver(idx, false, false, nil)
		if g.Stopped {
			return
		}
		if nd, ok := g.c.Nodes[m.To]; ok {
			if hold[m.To] {
				g.do(fmt.Sprintf("U %d 1 %d", m.To, nd.Applied))
			} else {
				g.update(m.To)
				if !g.Stopped {
					g.apply(m.To, 100)
				}
			}
		}
	}
}

// scenario 6: two full replicas and a witness. The leader commits an entry with the
// witness's acknowledgement only and is then cut off before the witness learns the new
// commit index; the other full replica, which lacks the entry, campaigns.
func scenarioWitnessGuardsCommitted(r *vh.Rand) (string, []string) {
	g := newScenarioGen(r, 2, uint64(5+r.Intn(3)), false, false)
	if !g.elect(1, nil) {
		return g.c.Header(), g.ops
	}
	g.nextKey++
	g.cc(1, uint64(pb.AddWitness), 3)
	g.update(1)
	g.settle(nil)
	for _, k := range g.liveIDs() {
		g.update(k)
		g.apply(k, 100)
	}
	g.settle(nil)
	g.do("START 3 W . -")
	for i := 0; i < 4 && !g.Stopped; i++ {
		g.do("T 1")
		g.update(1)
		g.settle(nil)
		for _, k := range g.liveIDs() {
			g.update(k)
			g.apply(k, 100)
		}
	}
	g.settle(nil)
	// replica 2 is cut off; the next entries reach the witness only
	pair := only(1, 3)
	for i := 0; i <= r.Intn(2); i++ {
		g.propose(1)
	}
	g.dropPool(func(m pb.Message) bool { return m.To == 2 || m.From == 2 })
	g.settle(func(m pb.Message) bool { return pair(m) && m.Type == pb.Replicate })
	g.settle(func(m pb.Message) bool { return pair(m) && m.Type == pb.ReplicateResp })
	g.update(1)
	g.apply(1, 100) // committed by {1, witness} and applied on the leader: acknowledged
	// the witness never learns the new commit index; the leader is gone
	g.dropPool(func(m pb.Message) bool { return m.From == 1 || m.To == 1 })
	t0 := g.term(2)
	g.tickUntil(2, func() bool { return g.role(2) == 1 && g.term(2) > t0 }, 80)
	side := only(2, 3)
	g.settle(side)
	for i := 0; i < 3 && !g.Stopped; i++ {
		g.do("T 2")
		g.update(2)
		g.settle(side)
	}
	return g.c.Header(), g.ops
}

// scenario 7: a non-voting replica is promoted; everybody but the promoted replica itself has
// applied the promotion when two replicas campaign for the same term and both ask it for
// its vote, each needing it for a quorum.
func scenarioPromotedNonVotingVotes(r *vh.Rand) (string, []string) {
	g := newScenarioGen(r, 4, uint64(5+r.Intn(3)), false, false)
	if !g.elect(1, nil) {
		return g.c.Header(), g.ops
	}
	g.addNonVoting(1, 5)
	g.propose(1)
	g.settle(nil)
	hold := map[uint64]bool{5: true}
	g.nextKey++
	g.cc(1, uint64(pb.AddNode), 5) // promotion
	g.update(1)
	g.settleHold(nil, hold)
	for i := 0; i < 3 && !g.Stopped; i++ {
		g.do("T 1")
		g.update(1)
		g.settleHold(nil, hold)
	}
	for _, k := range []uint64{1, 2, 3, 4} {
		g.update(k)
		g.apply(k, 100)
	}
	g.settleHold(nil, hold)
	// 2 and 3 time out for the same term
	t0 := g.term(1)
	a, b := uint64(2), uint64(3)
	if r.Bool() {
		a, b = b, a
	}
	g.tickUntil(a, func() bool { return g.role(a) == 1 && g.term(a) == t0+1 }, 80)
	g.tickUntil(b, func() bool { return g.role(b) == 1 && g.term(b) == t0+1 }, 80)
	if g.Stopped || g.role(a) != 1 || g.role(b) != 1 {
		return g.c.Header(), g.ops
	}
	rv := func(from, to uint64) func(m pb.Message) bool {
		return func(m pb.Message) bool { return m.Type == pb.RequestVote && m.From == from && m.To == to }
	}
	// a is heard by 1 and 5, b by 4 and 5
	g.settleHold(rv(a, 1), hold)
	g.settleHold(rv(b, 4), hold)
	g.settleHold(rv(a, 5), hold)
	g.settleHold(rv(b, 5), hold)
	g.dropPool(func(m pb.Message) bool { return m.Type == pb.RequestVote })
	g.settleHold(func(m pb.Message) bool { return m.Type == pb.RequestVoteResp }, hold)
	g.settleHold(nil, hold)
	return g.c.Header(), g.ops
}

// scenario 8: five voters; the leader is left with a single follower, the other three elect a
// new leader and commit; a read on the old leader stays pending over several heartbeat
// rounds, each acknowledged by the same single follower.
func scenarioMinorityLeaderRepeatedAcks(r *vh.Rand) (string, []string) {
	g := newScenarioGen(r, 5, uint64(6+r.Intn(3)), false, false)
	if !g.elect(1, nil) {
		return g.c.Header(), g.ops
	}
	g.propose(1)
	g.settle(nil)
	g.dropPool(func(m pb.Message) bool { return true })
	major := only(3, 4, 5)
	if !g.elect(3, major) {
		return g.c.Header(), g.ops
	}
	g.propose(3)
	g.settle(major)
	g.update(3)
	g.settle(major)
	// read on the old leader, directly or forwarded by its only follower
	g.nextKey++
	rd := uint64(1)
	if r.Bool() {
		rd = 2
	}
	g.do(fmt.Sprintf("R %d %d 1", rd, g.nextKey))
	g.update(rd)
	minor := only(1, 2)
	g.settle(minor)
	for i := 0; i < 4 && !g.Stopped; i++ {
		g.do("T 1")
		g.update(1)
		g.settle(minor)
		g.update(2)
		g.settle(minor)
	}
	g.update(1)
	g.update(2)
	return g.c.Header(), g.ops
}

// scenario 9: a single full voter with two witnesses (quorum 2). The voter restarts and its
// election timer fires while no witness can be reached; later a read is asked of it.
func scenarioSingleVoterWithWitnesses(r *vh.Rand) (string, []string) {
	g := newScenarioGen(r, 1, uint64(5+r.Intn(3)), false, r.Bool())
	if !g.elect(1, nil) {
		return g.c.Header(), g.ops
	}
	for _, w := range []uint64{2, 3} {
		g.nextKey++
		g.cc(1, uint64(pb.AddWitness), w)
		g.update(1)
		g.settle(nil)
		for _, k := range g.liveIDs() {
			g.update(k)
			g.apply(k, 100)
		}
		g.settle(nil)
		g.do(fmt.Sprintf("START %d W . -", w))
		for i := 0; i < 4 && !g.Stopped; i++ {
			g.do("T 1")
			g.update(1)
			g.settle(nil)
			for _, k := range g.liveIDs() {
				g.update(k)
				g.apply(k, 100)
			}
		}
		g.settle(nil)
	}
	g.propose(1)
	g.settle(nil)
	g.update(1)
	g.apply(1, 100)
	// the witnesses are cut off; the voter restarts and times out
	g.dropPool(func(m pb.Message) bool { return true })
	g.do("RESTART 1")
	for i := 0; i < 40 && !g.Stopped; i++ {
		g.do("T 1")
		g.update(1)
		g.dropPool(func(m pb.Message) bool { return true })
	}
	g.nextKey++
	g.do(fmt.Sprintf("R 1 %d 1", g.nextKey))
	g.update(1)
	g.dropPool(func(m pb.Message) bool { return true })
	// the witnesses come back: a proper election and a confirmed read
	g.elect(1, nil)
	g.nextKey++
	g.do(fmt.Sprintf("R 1 %d 1", g.nextKey))
	g.update(1)
	g.settle(nil)
	g.update(1)
	return g.c.Header(), g.ops
}

// scenario 10: the leader proposes its own removal, accepts a leadership transfer to a
// replica that is cut off (the transfer stays pending), then the removal commits with the
// third replica and is applied on the leader.
func scenarioRemovedLeaderDuringTransfer(r *vh.Rand) (string, []string) {
	g := newScenarioGen(r, 3, uint64(6+r.Intn(3)), false, false)
	if !g.elect(1, nil) {
		return g.c.Header(), g.ops
	}
	g.propose(1)
	g.settle(nil)
	g.nextKey++
	g.cc(1, uint64(pb.RemoveNode), 1)
	g.update(1)
	// replica 2 is cut off from now on
	g.dropPool(func(m pb.Message) bool { return m.To == 2 || m.From == 2 })
	g.do("LT 1 2")
	g.update(1)
	g.dropPool(func(m pb.Message) bool { return m.To == 2 || m.From == 2 })
	pair := only(1, 3)
	g.settle(pair)
	g.update(1)
	g.apply(1, 100) // the leader applies its own removal while the transfer is pending
	g.settle(pair)
	for i := 0; i < 4 && !g.Stopped; i++ {
		g.do("T 1")
		g.update(1)
		g.dropPool(func(m pb.Message) bool { return m.To == 2 || m.From == 2 })
		g.settle(pair)
	}
	return g.c.Header(), g.ops
}

// scenario 11: replica 3 is cut off while replica 4 is added, started and caught up; the
// leader's last entry reaches only replica 4. (The fault-free phase then takes the leader
// down: 2, 3 and 4 - a majority of {1,2,3,4} - have to elect the replica 3 has never heard of.)
func scenarioNewMemberMostUpToDate(r *vh.Rand) (string, []string) {
	g := newScenarioGen(r, 3, uint64(5+r.Intn(3)), r.Bool(), r.Bool())
	if !g.elect(1, nil) {
		return g.c.Header(), g.ops
	}
	g.propose(1)
	g.settle(nil)
	not3 := func(m pb.Message) bool { return m.To != 3 && m.From != 3 }
	g.nextKey++
	g.cc(1, uint64(pb.AddNode), 4)
	g.update(1)
	g.settle(not3)
	for _, k := range []uint64{1, 2} {
		g.update(k)
		g.apply(k, 100)
	}
	g.settle(not3)
	g.do("START 4 V . -")
	for i := 0; i < 5 && !g.Stopped; i++ {
		g.do("T 1")
		g.update(1)
		g.settle(not3)
		for _, k := range []uint64{1, 2, 4} {
			g.update(k)
			g.apply(k, 100)
		}
	}
	g.settle(not3)
	g.dropPool(func(m pb.Message) bool { return true })
	g.propose(1)
	g.settle(func(m pb.Message) bool { return m.Type == pb.Replicate && m.From == 1 && m.To == 4 })
	g.dropPool(func(m pb.Message) bool { return true })
	return g.c.Header(), g.ops
}

// scenario 12 (PreVote): replica 3 is cut off and lags behind a compacted log; when the
// partition heals it rejects the leader's Replicate, the InstallSnapshot answer is delayed,
// 3 times out and becomes a pre-vote candidate (same term), and only then the snapshot arrives.
func scenarioCandidateGetsSnapshot(r *vh.Rand) (string, []string) {
	g := newScenarioGen(r, 3, uint64(5+r.Intn(3)), false, true)
	if !g.elect(1, nil) {
		return g.c.Header(), g.ops
	}
	pair := only(1, 2)
	for i := 0; i < 3+r.Intn(3); i++ {
		g.propose(1)
		g.dropPool(func(m pb.Message) bool { return m.To == 3 || m.From == 3 })
		g.settle(pair)
	}
	for _, k := range []uint64{1, 2} {
		g.update(k)
		g.apply(k, 100)
		g.snapshot(k, 0)
	}
	g.dropPool(func(m pb.Message) bool { return true })
	// the partition heals: heartbeat, Replicate, rejection, and the leader answers with a snapshot
	isSnap := func(m pb.Message) bool { return m.Type == pb.InstallSnapshot }
	for i := 0; i < 6 && !g.Stopped; i++ {
		g.do("T 1")
		g.update(1)
		g.settle(func(m pb.Message) bool { return !isSnap(m) })
		found := false
		for _, m := range g.Pool {
			if isSnap(m) && m.To == 3 {
				found = true
			}
		}
		if found {
			break
		}
	}
	// 3 hears nothing more, times out and asks for pre-votes; then the snapshot arrives
	g.dropPool(func(m pb.Message) bool { return !isSnap(m) })
	g.tickUntil(3, func() bool { return g.role(3) == 2 || g.role(3) == 1 }, 80)
	g.dropPool(func(m pb.Message) bool { return !isSnap(m) })
	g.settle(isSnap)
	g.settle(nil)
	for i := 0; i < 3 && !g.Stopped; i++ {
		g.do("T 1")
		g.update(1)
		g.settle(nil)
	}
	return g.c.Header(), g.ops
}

// scenario 13: the deposed leader 1 holds an uncommitted tail of its old term; the new leader
// has compacted its log and answers 1's rejection with InstallSnapshot; the transport reports
// the snapshot as delivered but the message never reaches 1's raft node; heartbeats follow.
func scenarioSnapshotReportedButLost(r *vh.Rand) (string, []string) {
	g := newScenarioGen(r, 3, uint64(5+r.Intn(3)), false, false)
	if !g.elect(1, nil) {
		return g.c.Header(), g.ops
	}
	g.propose(1)
	g.settle(nil)
	for _, k := range g.liveIDs() {
		g.update(k)
		g.apply(k, 100)
	}
	g.settle(nil)
	// 1 is cut off and keeps appending
	for i := 0; i < 3; i++ {
		g.propose(1)
	}
	g.dropPool(func(m pb.Message) bool { return true })
	side := only(2, 3)
	if !g.elect(2, side) {
		return g.c.Header(), g.ops
	}
	g.propose(2)
	g.settle(side)
	for _, k := range []uint64{2, 3} {
		g.update(k)
		g.apply(k, 100)
	}
	g.settle(side)
	g.snapshot(2, 0)
	g.dropPool(func(m pb.Message) bool { return true })
	// the partition heals; everything goes through except InstallSnapshot
	isSnap := func(m pb.Message) bool { return m.Type == pb.InstallSnapshot }
	sent := false
	for i := 0; i < 8 && !g.Stopped && !sent; i++ {
		g.do("T 2")
		g.update(2)
		g.settle(func(m pb.Message) bool { return !isSnap(m) })
		for _, m := range g.Pool {
			if isSnap(m) && m.To == 1 {
				sent = true
			}
		}
	}
	if !sent || g.Stopped {
		return g.c.Header(), g.ops
	}
	g.dropPool(isSnap)
	g.do("SS 2 1 0") // reported as delivered
	g.update(2)
	for i := 0; i < 3 && !g.Stopped; i++ {
		g.do("T 2")
		g.update(2)
		g.settle(func(m pb.Message) bool { return !isSnap(m) })
		g.update(1)
		g.dropPool(isSnap)
	}
	return g.c.Header(), g.ops
}

// scenario 14: two membership changes (3 -> 5 voters) are committed; replica 3 has them
// committed and handed out but not applied, replica 2 lags; 3's timer fires while it is
// partitioned with 2, and a member of the new configuration campaigns on the other side.
func scenarioUnappliedChangesAndTimeout(r *vh.Rand) (string, []string) {
	g := newScenarioGen(r, 3, uint64(5+r.Intn(3)), false, false)
	if !g.elect(1, nil) {
		return g.c.Header(), g.ops
	}
	hold := map[uint64]bool{3: true}
	not2 := func(m pb.Message) bool { return m.To != 2 && m.From != 2 }
	for _, id := range []uint64{4, 5} {
		g.nextKey++
		g.cc(1, uint64(pb.AddNode), id)
		g.update(1)
		g.settleHold(not2, hold)
		g.update(1)
		g.apply(1, 100)
		g.settleHold(not2, hold)
		g.do(fmt.Sprintf("START %d V . -", id))
		for i := 0; i < 4 && !g.Stopped; i++ {
			g.do("T 1")
			g.update(1)
			g.settleHold(not2, hold)
			for _, k := range g.liveIDs() {
				if k != 2 && k != 3 {
					g.update(k)
					g.apply(k, 100)
				}
			}
		}
		g.settleHold(not2, hold)
	}
	g.dropPool(func(m pb.Message) bool { return true })
	t0 := g.term(1)
	// 3 (old configuration in force, both changes unapplied) times out next to 2
	g.tickUntil(3, func() bool { return g.role(3) == 1 && g.term(3) == t0+1 }, 60)
	g.settleHold(only(2, 3), hold)
	// 4 times out among the members of the new configuration
	g.tickUntil(4, func() bool { return g.role(4) == 1 && g.term(4) == t0+1 }, 80)
	g.settleHold(only(1, 4, 5), hold)
	return g.c.Header(), g.ops
}

// scenario 15: replica 2 persists a membership change that is still uncommitted, restarts
// (its in-memory log is empty, the tail is in the log store), wins the next election and
// is asked for another membership change before the first one commits.
func scenarioRestartedLeaderPendingChange(r *vh.Rand) (string, []string) {
	g := newScenarioGen(r, 3, uint64(5+r.Intn(3)), false, false)
	if !g.elect(1, nil) {
		return g.c.Header(), g.ops
	}
	g.propose(1)
	g.settle(nil)
	g.nextKey++
	g.cc(1, uint64(pb.AddNode), 4)
	g.update(1)
	g.settle(func(m pb.Message) bool { return m.Type == pb.Replicate && m.From == 1 && m.To == 2 })
	g.update(2)
	g.dropPool(func(m pb.Message) bool { return true })
	g.do("RESTART 2")
	side := only(2, 3)
	t0 := g.term(2)
	g.tickUntil(2, func() bool { return g.role(2) == 1 && g.term(2) > t0 }, 80)
	g.settle(func(m pb.Message) bool {
		return side(m) && (m.Type == pb.RequestVote || m.Type == pb.RequestVoteResp)
	})
	if g.Stopped || g.role(2) != 3 {
		return g.c.Header(), g.ops
	}
	g.dropPool(func(m pb.Message) bool { return true })
	g.nextKey++
	g.cc(2, uint64(pb.AddNode), 5)
	g.update(2)
	g.settle(side)
	for i := 0; i < 3 && !g.Stopped; i++ {
		g.do("T 2")
		g.update(2)
		g.settle(side)
	}
	return g.c.Header(), g.ops
}

// scenario 16 (PreVote without CheckQuorum): a transfer target is cut off right after
// TimeoutNow, so it moves to a higher term alone; the leader gives up the transfer and
// commits more entries. (The fault-free phase then has to bring the stale replica back.)
func scenarioStaleHigherTermReplica(r *vh.Rand) (string, []string) {
	g := newScenarioGen(r, 3, uint64(5+r.Intn(3)), false, true)
	if !g.elect(1, nil) {
		return g.c.Header(), g.ops
	}
	g.propose(1)
	g.settle(nil)
	g.do("LT 1 3")
	g.update(1)
	g.settle(func(m pb.Message) bool { return m.Type == pb.TimeoutNow })
	g.update(3)
	g.dropPool(func(m pb.Message) bool { return m.To == 3 || m.From == 3 })
	pair := only(1, 2)
	for i := 0; i < 2*int(g.c.ET)+2 && !g.Stopped; i++ {
		g.do("T 1")
		g.update(1)
		g.dropPool(func(m pb.Message) bool { return m.To == 3 || m.From == 3 })
		g.settle(pair)
	}
	if g.role(1) == 3 {
		g.propose(1)
		g.dropPool(func(m pb.Message) bool { return m.To == 3 || m.From == 3 })
		g.settle(pair)
		g.update(1)
		g.settle(pair)
	}
	g.dropPool(func(m pb.Message) bool { return true })
	return g.c.Header(), g.ops
}

// scenario 17: two full replicas and a witness; the leader proposes the removal of the other
// full replica, which acknowledges it but never learns that it committed; the leader applies
// the removal and is cut off; the removed replica is elected by the witness (which lags) and
// commits a write; a read is then asked of the old leader, now the only full member it knows.
func scenarioOnlyFullMemberRead(r *vh.Rand) (string, []string) {
	g := newScenarioGen(r, 2, uint64(6+r.Intn(3)), false, false)
	if !g.elect(1, nil) {
		return g.c.Header(), g.ops
	}
	g.nextKey++
	g.cc(1, uint64(pb.AddWitness), 3)
	g.update(1)
	g.settle(nil)
	for _, k := range g.liveIDs() {
		g.update(k)
		g.apply(k, 100)
	}
	g.settle(nil)
	g.do("START 3 W . -")
	for i := 0; i < 4 && !g.Stopped; i++ {
		g.do("T 1")
		g.update(1)
		g.settle(nil)
		for _, k := range g.liveIDs() {
			g.update(k)
			g.apply(k, 100)
		}
	}
	g.settle(nil)
	// the witness is cut off; RemoveNode(2) commits with 2's acknowledgement
	g.nextKey++
	g.cc(1, uint64(pb.RemoveNode), 2)
	g.update(1)
	g.dropPool(func(m pb.Message) bool { return m.To == 3 || m.From == 3 })
	g.settle(func(m pb.Message) bool { return m.Type == pb.Replicate && m.From == 1 && m.To == 2 })
	g.do(fmt.Sprintf("U 2 1 %d", g.c.Nodes[2].Applied))
	g.settle(func(m pb.Message) bool { return m.Type == pb.ReplicateResp && m.From == 2 && m.To == 1 })
	g.update(1)
	g.apply(1, 100) // the leader applies the removal: it is the only full member left
	g.dropPool(func(m pb.Message) bool { return true })
	// 2 (removal unapplied, uncommitted in its view) is elected by the witness and commits a write
	hold := map[uint64]bool{2: true}
	t0 := g.term(2)
	g.tickUntil(2, func() bool { return g.role(2) == 1 && g.term(2) > t0 }, 80)
	side := only(2, 3)
	g.settleHold(side, hold)
	if !g.Stopped && g.role(2) == 3 {
		g.propose(2)
		g.settleHold(side, hold)
		g.do(fmt.Sprintf("U 2 1 %d", g.c.Nodes[2].Applied))
		g.settleHold(side, hold)
	}
	g.dropPool(func(m pb.Message) bool { return true })
	// a read on the old leader
	g.nextKey++
	g.do(fmt.Sprintf("R 1 %d 1", g.nextKey))
	g.update(1)
	g.dropPool(func(m pb.Message) bool { return m.To == 2 || m.From == 2 })
	g.settle(only(1, 3))
	g.update(1)
	return g.c.Header(), g.ops
}

// scenario 18: a membership change and a proposal are committed without follower 2, whose
// Replicate messages are delayed; the leader takes a snapshot and compacts; one more entry is
// proposed; 2 is reported unreachable and is sent the snapshot; the delayed Replicate messages
// overtake it: 2 appends and acknowledges everything, the last entry commits with {1,2}; then
// the matching snapshot arrives while 2's applied index is still below the membership change;
// finally the leader is gone and 2 campaigns.
func scenarioMatchingSnapshotBehindLog(r *vh.Rand) (string, []string) {
	g := newScenarioGen(r, 3, uint64(6+r.Intn(3)), false, false)
	if !g.elect(1, nil) {
		return g.c.Header(), g.ops
	}
	hold := map[uint64]bool{2: true}
	not2 := func(m pb.Message) bool { return m.To != 2 && m.From != 2 }
	delayed := func(m pb.Message) bool { return m.To == 2 && m.Type == pb.Replicate }
	// the membership change and two proposals are appended back to back: every Replicate to 2
	// carries the old commit index; 3 receives all but the last one
	g.nextKey++
	g.cc(1, uint64(pb.AddNonVoting), 4)
	g.update(1)
	g.propose(1)
	g.propose(1)
	last := raftsim.Inspect(g.c.Nodes[1]).LastIndex
	butLast := func(m pb.Message) bool {
		if !not2(m) {
			return false
		}
		if m.To == 3 && m.Type == pb.Replicate {
			for _, e := range m.Entries {
				if e.Index >= last {
					return false
				}
			}
		}
		return true
	}
	g.settleHold(butLast, hold)
	for _, k := range []uint64{1, 3} {
		g.update(k)
		g.apply(k, 100)
	}
	g.settleHold(butLast, hold)
	g.snapshot(1, 0)
	// from now on 3 is cut off
	g.dropPool(func(m pb.Message) bool { return m.To == 3 || m.From == 3 })
	// 2 is reported unreachable; the next heartbeat round makes the leader send the snapshot
	g.do("UN 1 2")
	g.update(1)
	isSnap := func(m pb.Message) bool { return m.Type == pb.InstallSnapshot }
	for i := 0; i < 4 && !g.Stopped; i++ {
		g.do("T 1")
		g.update(1)
		g.dropPool(func(m pb.Message) bool { return m.To == 3 || m.From == 3 })
		g.settleHold(func(m pb.Message) bool {
			return (m.Type == pb.Heartbeat && m.To == 2) || (m.Type == pb.HeartbeatResp && m.From == 2)
		}, hold)
		found := false
		for _, m := range g.Pool {
			if isSnap(m) && m.To == 2 {
				found = true
			}
		}
		if found {
			break
		}
	}
	// the delayed Replicate messages overtake the snapshot; their acknowledgements commit the last entry
	g.settleHold(delayed, hold)
	g.settleHold(func(m pb.Message) bool { return m.Type == pb.ReplicateResp && m.From == 2 }, hold)
	g.update(1)
	g.apply(1, 100)
	// now the snapshot arrives at 2, whose applied index is still behind the membership change
	g.settleHold(isSnap, hold)
	g.do(fmt.Sprintf("U 2 1 %d", g.c.Nodes[2].Applied))
	// the leader is gone; 2 and 3 go on
	g.dropPool(func(m pb.Message) bool { return true })
	t0 := g.term(2)
	g.tickUntil(2, func() bool { return g.role(2) == 1 && g.term(2) > t0 }, 80)
	g.settleHold(only(2, 3), hold)
	for i := 0; i < 2 && !g.Stopped; i++ {
		g.do("T 2")
		g.do(fmt.Sprintf("U 2 1 %d", g.c.Nodes[2].Applied))
		g.settleHold(only(2, 3), hold)
	}
	return g.c.Header(), g.ops
}

// scenario 19: a witness is added and later removed while replica 3 is cut off (3 knows the
// witness); the leader compacts its log and 3 catches up through a snapshot whose membership
// has no witness and no non-voting member.
func scenarioSnapshotWithoutWitness(r *vh.Rand) (string, []string) {
	g := newScenarioGen(r, 3, uint64(6+r.Intn(3)), false, false)
	if !g.elect(1, nil) {
		return g.c.Header(), g.ops
	}
	g.nextKey++
	g.cc(1, uint64(pb.AddWitness), 4)
	g.update(1)
	g.settle(nil)
	for _, k := range g.liveIDs() {
		g.update(k)
		g.apply(k, 100)
	}
	g.settle(nil)
	g.do("START 4 W . -")
	for i := 0; i < 4 && !g.Stopped; i++ {
		g.do("T 1")
		g.update(1)
		g.settle(nil)
		for _, k := range g.liveIDs() {
			g.update(k)
			g.apply(k, 100)
		}
	}
	g.settle(nil)
	not3 := func(m pb.Message) bool { return m.To != 3 && m.From != 3 }
	g.dropPool(func(m pb.Message) bool { return true })
	g.nextKey++
	g.cc(1, uint64(pb.RemoveNode), 4)
	g.update(1)
	g.settle(not3)
	for _, k := range []uint64{1, 2} {
		g.update(k)
		g.apply(k, 100)
	}
	g.settle(not3)
	g.propose(1)
	g.settle(not3)
	for _, k := range []uint64{1, 2} {
		g.update(k)
		g.apply(k, 100)
	}
	g.snapshot(1, 0)
	g.dropPool(func(m pb.Message) bool { return true })
	// the partition heals: 3 is behind the compacted log and gets the snapshot
	for i := 0; i < 8 && !g.Stopped; i++ {
		g.do("T 1")
		g.update(1)
		g.settle(nil)
		for _, k := range g.liveIDs() {
			g.update(k)
			g.apply(k, 100)
		}
	}
	g.settle(nil)
	return g.c.Header(), g.ops
}

// scenario 20: five voters; the leader's Replicate to replica 3 is still in the send queue
// when a new leader (elected by 2, 4, 5) overwrites the old leader's uncommitted tail; the
// queued message then reaches 3, which has not heard of the new term.
func scenarioQueuedReplicateAndTruncation(r *vh.Rand) (string, []string) {
	g := newScenarioGen(r, 5, uint64(6+r.Intn(3)), false, false)
	if !g.elect(1, nil) {
		return g.c.Header(), g.ops
	}
	// the leader does not apply what follows: the committed entry stays in its in-memory log
	// below the tail that will be replaced
	g.propose(1)
	g.settleHold(nil, map[uint64]bool{1: true})
	g.do(fmt.Sprintf("U 1 1 %d", g.c.Nodes[1].Applied))
	g.settleHold(nil, map[uint64]bool{1: true})
	for i := 0; i < 4+r.Intn(2); i++ {
		g.propose(1)
	}
	held := func(m pb.Message) bool { return m.From == 1 && m.To == 3 && m.Type == pb.Replicate }
	g.dropPool(func(m pb.Message) bool { return !held(m) })
	t0 := g.term(1)
	g.tickUntil(2, func() bool { return g.role(2) == 1 && g.term(2) == t0+1 }, 80)
	side := only(2, 4, 5)
	g.settle(func(m pb.Message) bool { return side(m) && !held(m) })
	if g.Stopped || g.role(2) != 3 {
		return g.c.Header(), g.ops
	}
	// the new leader's first Replicate to the old one is lost; it appends more entries, and the
	// heartbeat round makes it send them all at once: the old leader's tail is replaced
	g.dropPool(func(m pb.Message) bool { return !held(m) && (m.To == 1 || m.From == 1) })
	for i := 0; i < 1+r.Intn(2); i++ { // fewer entries than the tail they replace
		g.propose(2)
		g.dropPool(func(m pb.Message) bool { return !held(m) && (m.To == 1 || m.From == 1) })
		g.settle(func(m pb.Message) bool { return !held(m) && side(m) })
	}
	for i := 0; i < 3 && !g.Stopped; i++ {
		g.do("T 2")
		g.update(2)
		g.settle(func(m pb.Message) bool { return !held(m) && (side(m) || only(1, 2)(m)) })
	}
	g.update(1)
	// now the queued message arrives
	g.settle(held)
	g.settle(nil)
	return g.c.Header(), g.ops
}

// scenario 21: a voter is removed under a stable leader; afterwards the leader pipelines
// proposals while the remaining follower acknowledges with a lag (one acknowledgement per
// round, always behind the leader's last index).
func scenarioCommitAfterShrink(r *vh.Rand) (string, []string) {
	g := newScenarioGen(r, 3, uint64(6+r.Intn(3)), false, false)
	if !g.elect(1, nil) {
		return g.c.Header(), g.ops
	}
	g.propose(1)
	g.settle(nil)
	g.nextKey++
	g.cc(1, uint64(pb.RemoveNode), 3)
	g.update(1)
	g.settle(nil)
	for _, k := range g.liveIDs() {
		g.update(k)
		g.apply(k, 100)
	}
	g.settle(nil)
	for i := 0; i < 2 && !g.Stopped; i++ {
		g.do("T 1")
		g.update(1)
		g.settle(nil)
		for _, k := range g.liveIDs() {
			g.update(k)
			g.apply(k, 100)
		}
	}
	// pipelined proposals; follower 2 lags: one Replicate and one acknowledgement at a time
	pair := only(1, 2)
	for i := 0; i < 5 && !g.Stopped; i++ {
		g.propose(1)
		g.propose(1)
		one := func(t pb.MessageType) {
			// the oldest one first: messages between the two stay in order
			best := -1
			for j, m := range g.Pool {
				if pair(m) && m.Type == t && (best < 0 || m.LogIndex < g.Pool[best].LogIndex) {
					best = j
				}
			}
			if best >= 0 {
				m := g.Pool[best]
				g.Deliver(best, false, false, nil)
				if !g.Stopped {
					g.update(m.To)
				}
			}
		}
		one(pb.Replicate)
		one(pb.ReplicateResp)
		g.update(1)
		g.apply(1, 100)
	}
	g.settle(pair)
	return g.c.Header(), g.ops
}

// scenario 22: four voters; RemoveNode(4) is committed and applied by 2 and 3 but not yet by
// the leader 1, which is then cut off together with 4; 2 and 3 elect a new leader and commit
// a write; a read on 1 is confirmed by 4 only and stays pending; then 1 applies the removal.
func scenarioRemovalWhileReadPending(r *vh.Rand) (string, []string) {
	g := newScenarioGen(r, 4, uint64(6+r.Intn(3)), false, false)
	if !g.elect(1, nil) {
		return g.c.Header(), g.ops
	}
	g.propose(1)
	g.settle(nil)
	hold := map[uint64]bool{1: true, 4: true}
	g.nextKey++
	g.cc(1, uint64(pb.RemoveNode), 4)
	g.update(1)
	g.settleHold(nil, hold)
	for i := 0; i < 2 && !g.Stopped; i++ {
		g.do("T 1")
		g.do(fmt.Sprintf("U 1 1 %d", g.c.Nodes[1].Applied))
		g.settleHold(nil, hold)
	}
	for _, k := range []uint64{2, 3} {
		g.update(k)
		g.apply(k, 100)
	}
	// partition {1,4} | {2,3}: 2 is elected by 3 (two of the three remaining voters) and commits a write
	g.dropPool(func(m pb.Message) bool { return true })
	side := only(2, 3)
	t0 := g.term(2)
	g.tickUntil(2, func() bool { return g.role(2) == 1 && g.term(2) > t0 }, 80)
	g.settle(side)
	if g.Stopped || g.role(2) != 3 {
		return g.c.Header(), g.ops
	}
	g.propose(2)
	g.settle(side)
	g.update(2)
	g.apply(2, 100)
	g.settle(side)
	// a read on the old leader: only 4 answers
	g.nextKey++
	g.do(fmt.Sprintf("R 1 %d 1", g.nextKey))
	g.do(fmt.Sprintf("U 1 1 %d", g.c.Nodes[1].Applied))
	g.settleHold(only(1, 4), hold)
	g.do(fmt.Sprintf("U 1 1 %d", g.c.Nodes[1].Applied))
	// now the old leader applies the removal of 4
	g.apply(1, 100)
	g.update(1)
	g.settleHold(only(1, 4), map[uint64]bool{})
	return g.c.Header(), g.ops
}

// scenario 23: leadership is transferred to 2 the moment the old leader commits a write with
// 2's acknowledgement; 2 wins the election but has not yet committed the no-op of its term
// (its commit index is below the acknowledged write) when follower 3 forwards a read to it.
func scenarioForwardedReadToNewLeader(r *vh.Rand) (string, []string) {
	g := newScenarioGen(r, 3, uint64(6+r.Intn(3)), false, false)
	if !g.elect(1, nil) {
		return g.c.Header(), g.ops
	}
	g.propose(1)
	g.settle(nil)
	// a write that 2 acknowledges but whose commit index it never learns
	g.propose(1)
	g.settle(func(m pb.Message) bool { return m.Type == pb.Replicate && m.From == 1 && m.To == 2 })
	g.settle(func(m pb.Message) bool { return m.Type == pb.ReplicateResp && m.From == 2 && m.To == 1 })
	g.update(1)
	g.apply(1, 100) // committed with {1,2} and applied on 1: acknowledged
	g.dropPool(func(m pb.Message) bool { return true })
	g.do("LT 1 2")
	g.update(1)
	g.settle(func(m pb.Message) bool { return m.Type == pb.TimeoutNow })
	g.update(2)
	// 2 collects 3's vote; its no-op is not replicated yet
	g.settle(func(m pb.Message) bool {
		return (m.Type == pb.RequestVote || m.Type == pb.RequestVoteResp) && only(2, 3)(m)
	})
	if g.Stopped || g.role(2) != 3 {
		return g.c.Header(), g.ops
	}
	g.dropPool(func(m pb.Message) bool { return m.Type == pb.Replicate || m.Type == pb.ReplicateResp })
	// 3 learns who leads (heartbeat) and forwards a read
	g.do("T 2")
	g.update(2)
	g.dropPool(func(m pb.Message) bool { return m.Type == pb.Replicate || m.To == 1 || m.From == 1 })
	g.settle(func(m pb.Message) bool { return only(2, 3)(m) && (m.Type == pb.Heartbeat || m.Type == pb.HeartbeatResp) })
	g.nextKey++
	g.do(fmt.Sprintf("R 3 %d 1", g.nextKey))
	g.update(3)
	g.settle(func(m pb.Message) bool {
		return only(2, 3)(m) && m.Type != pb.Replicate && m.Type != pb.ReplicateResp
	})
	g.update(3)
	return g.c.Header(), g.ops
}

// scenario 24: replica 3 learns a new term from a vote request it rejects (the candidate's log
// is stale), so the term is persisted without a vote; it then grants its vote to another
// candidate of that term - a state change that is the vote alone -, restarts, and is asked by
// a third candidate of the same term.
func scenarioVoteOnlyStateChange(r *vh.Rand) (string, []string) {
	g := newScenarioGen(r, 5, uint64(6+r.Intn(3)), false, false)
	if !g.elect(1, nil) {
		return g.c.Header(), g.ops
	}
	// 5 misses the last entries
	g.propose(1)
	g.dropPool(func(m pb.Message) bool { return m.To == 5 || m.From == 5 })
	g.settle(func(m pb.Message) bool { return m.To != 5 && m.From != 5 })
	t0 := g.term(1)
	g.dropPool(func(m pb.Message) bool { return true })
	// 5, 2 and 4 time out for the same term; everything they send is held
	for _, k := range []uint64{5, 2, 4} {
		k := k
		g.tickUntil(k, func() bool { return g.role(k) == 1 && g.term(k) == t0+1 }, 80)
	}
	if g.Stopped || g.role(5) != 1 || g.role(2) != 1 || g.role(4) != 1 {
		return g.c.Header(), g.ops
	}
	rv := func(from, to uint64) func(m pb.Message) bool {
		return func(m pb.Message) bool { return m.Type == pb.RequestVote && m.From == from && m.To == to }
	}
	g.settle(rv(5, 3)) // rejected: term learned, no vote
	g.settle(rv(2, 3)) // granted: the vote alone changes
	g.do("RESTART 3")
	g.settle(rv(4, 3))
	g.settle(func(m pb.Message) bool { return m.Type == pb.RequestVoteResp })
	g.settle(rv(2, 1))
	g.settle(func(m pb.Message) bool { return m.Type == pb.RequestVoteResp })
	g.settle(nil)
	return g.c.Header(), g.ops
}

// scenario 25 (CheckQuorum): two full replicas and a witness under a stable leader whose
// heartbeats the witness keeps receiving. The schedule ends there; the fault-free phase with
// the leader down then needs the witness's vote, which it gives only once its own election
// timer ran past the lease of the leader it last heard from.
func scenarioWitnessLeaseAfterLeaderCrash(r *vh.Rand) (string, []string) {
	g := newScenarioGen(r, 2, uint64(4+r.Intn(4)), true, r.Bool())
	if !g.elect(1, nil) {
		return g.c.Header(), g.ops
	}
	g.nextKey++
	g.cc(1, uint64(pb.AddWitness), 3)
	g.update(1)
	g.settle(nil)
	for _, k := range g.liveIDs() {
		g.update(k)
		g.apply(k, 100)
	}
	g.settle(nil)
	g.do("START 3 W . -")
	for i := 0; i < 4+r.Intn(4) && !g.Stopped; i++ {
		if i == 2 {
			g.propose(1)
		}
		for _, k := range g.liveIDs() {
			g.do(fmt.Sprintf("T %d", k))
			g.update(k)
			g.settle(nil)
		}
		for _, k := range g.liveIDs() {
			g.update(k)
			g.apply(k, 100)
		}
	}
	g.settle(nil)
	return g.c.Header(), g.ops
}

// scenario 26: a leadership transfer whose TimeoutNow is delayed. The leader gives the
// transfer up after an election time-out, accepts proposals again and commits an entry
// without the target; then the stale TimeoutNow (still of the current term) arrives and
// the target campaigns with the transfer hint although its log lacks the committed entry.
func scenarioStaleTimeoutNow(r *vh.Rand) (string, []string) {
	g := newScenarioGen(r, 3, uint64(4+r.Intn(4)), false, false)
	if !g.elect(1, nil) {
		return g.c.Header(), g.ops
	}
	g.propose(1)
	g.settle(nil)
	for _, k := range g.liveIDs() {
		g.update(k)
		g.apply(k, 100)
	}
	g.settle(nil)
	g.do("LT 1 3")
	g.update(1)
	notTN := func(m pb.Message) bool { return m.Type != pb.TimeoutNow }
	g.settle(notTN)
	// the transfer times out on the leader (heartbeats keep flowing)
	for i := uint64(0); i < g.c.ET+2 && !g.Stopped; i++ {
		g.do("T 1")
		g.update(1)
		g.settle(notTN)
	}
	// replica 3 is cut off; entries commit with {1, 2}
	pair := func(m pb.Message) bool { return m.Type != pb.TimeoutNow && only(1, 2)(m) }
	for i := 0; i <= r.Intn(2); i++ {
		g.propose(1)
		g.settle(pair)
	}
	g.update(1)
	g.apply(1, 100)
	g.settle(pair)
	g.update(2)
	g.apply(2, 100)
	g.dropPool(func(m pb.Message) bool { return m.Type != pb.TimeoutNow })
	// the delayed TimeoutNow reaches the target
	g.settle(func(m pb.Message) bool { return m.Type == pb.TimeoutNow })
	g.update(3)
	g.settle(func(m pb.Message) bool { return m.Type == pb.RequestVote })
	g.settle(nil)
	for i := 0; i < 3 && !g.Stopped; i++ {
		for _, k := range g.liveIDs() {
			g.do(fmt.Sprintf("T %d", k))
			g.update(k)
		}
		g.settle(nil)
	}
	return g.c.Header(), g.ops
}

// scenario 27: a non-voting member is cut off while its promotion to a full member is
// committed and applied by everybody else and the log is compacted beyond what it holds: it
// learns its new role from the InstallSnapshot it is then sent (role change by snapshot
// restore). With one of the old voters down afterwards its vote is needed.
func scenarioPromotedBySnapshot(r *vh.Rand) (string, []string) {
	g := newScenarioGen(r, 3, uint64(5+r.Intn(3)), r.Bool(), false)
	if !g.elect(1, nil) {
		return g.c.Header(), g.ops
	}
	g.addNonVoting(1, 4)
	g.propose(1)
	g.settle(nil)
	cut := func() { g.dropPool(func(m pb.Message) bool { return m.To == 4 || m.From == 4 }) }
	trio := only(1, 2, 3)
	g.nextKey++
	g.cc(1, uint64(pb.AddNode), 4)
	g.update(1)
	cut()
	g.settle(trio)
	for i := 0; i < 2+r.Intn(3) && !g.Stopped; i++ {
		g.propose(1)
		cut()
		g.settle(trio)
	}
	for _, k := range []uint64{1, 2, 3} {
		g.update(k)
		g.apply(k, 100)
	}
	cut()
	g.settle(trio)
	for _, k := range []uint64{1, 2, 3} {
		g.update(k)
		g.apply(k, 100)
		g.snapshot(k, 0)
	}
	g.dropPool(func(m pb.Message) bool { return true })
	// the partition heals: the leader has to bring 4 up to date with a snapshot
	for i := 0; i < 8 && !g.Stopped; i++ {
		g.do("T 1")
		g.update(1)
		g.settle(nil)
		for _, k := range g.liveIDs() {
			g.update(k)
			g.apply(k, 100)
		}
	}
	g.settle(nil)
	return g.c.Header(), g.ops
}

var scenarios = []func(r *vh.Rand) (string, []string){
	scenarioTransferWithUnappliedChange,
	scenarioVoteRace, scenarioTransferRemove, scenarioDeposedLeaderRead, scenarioDelayedConfirmation,
	scenarioReelectedLeaderRead, scenarioWitnessGuardsCommitted, scenarioPromotedNonVotingVotes,
	scenarioMinorityLeaderRepeatedAcks, scenarioSingleVoterWithWitnesses, scenarioRemovedLeaderDuringTransfer,
	scenarioNewMemberMostUpToDate, scenarioCandidateGetsSnapshot, scenarioSnapshotReportedButLost,
	scenarioUnappliedChangesAndTimeout, scenarioRestartedLeaderPendingChange, scenarioStaleHigherTermReplica,
	scenarioOnlyFullMemberRead, scenarioMatchingSnapshotBehindLog, scenarioSnapshotWithoutWitness,
	scenarioQueuedReplicateAndTruncation, scenarioCommitAfterShrink,
	scenarioRemovalWhileReadPending, scenarioForwardedReadToNewLeader, scenarioVoteOnlyStateChange,
	scenarioWitnessLeaseAfterLeaderCrash, scenarioStaleTimeoutNow, scenarioPromotedBySnapshot,
}
