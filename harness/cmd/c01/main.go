// C01 harness: end-to-end client histories of a real dragonboat shard (3-4
// in-process NodeHosts, fault-injecting network) checked for linearizability.
//
//	gen: runs the clusters and writes one case per history:
//	     <id> HIST log=<id:key:val of the applied entries, in apply order> final=<k:v:ver,...|?> smcheck=<ok|msg> mon=<ok|msg> nev=<#events> | ev ; ev ; ...
//	     (smcheck: the apply streams of the replicas compared index by index; mon: the
//	      other monitors evaluated while the cluster ran: Committed/Completed order
//	      under NotifyCommit, a session series applied at most once, QueryRaftLog against
//	      the applied entries, catch-up of the final membership, requests never answered)
//	     ev = I <id> W <key> <val> | I <id> R <key> | R <id> <code> <val> <ver> <obs>
//	     (code = numeric RequestResultCode of request.go, 100 = refused by the API;
//	      obs = number of updates the replica had applied when the Lookup ran)
//	run: re-checks the recorded histories: Go re-implementation of the model's
//	     witness check (printed, compared with the extracted model) and the
//	     monitor (witness-free linearizability search + apply-stream consistency).
package main

import (
	"bytes"
	"context"
	"errors"
	"fmt"
	"io"
	"log"
	"os"
	"os/exec"
	"path/filepath"
	"regexp"
	"sort"
	"strings"
	"time"

	dragonboat "github.com/lni/dragonboat/v4"
	"verif/harness/vh"
)

func codes() codeTable {
	m := dragonboat.VerifC01Codes()
	return codeTable{completed: m["completed"], timeout: m["timeout"], dropped: m["dropped"], terminated: m["terminated"]}
}

func caseLine(name string, r *histResult) string {
	type sev struct {
		stamp uint64
		text  string
	}
	var evs []sev
	for _, o := range r.ops {
		if o.kind == 'W' {
			evs = append(evs, sev{o.inv, fmt.Sprintf("I %d W %d %d", o.id, o.key, o.val)})
		} else {
			evs = append(evs, sev{o.inv, fmt.Sprintf("I %d R %d", o.id, o.key)})
		}
		evs = append(evs, sev{o.resp, fmt.Sprintf("R %d %d %d %d %d", o.id, o.code, o.rval, o.rver, o.obs)})
	}
	sort.Slice(evs, func(i, j int) bool { return evs[i].stamp < evs[j].stamp })
	var ids []string
	for _, a := range r.log {
		ids = append(ids, fmt.Sprintf("%d:%d:%d", a.id, a.key, a.val))
	}
	logs := "-"
	if len(ids) > 0 {
		logs = strings.Join(ids, ",")
	}
	final := "?"
	if r.finalOK {
		st := map[uint64][2]uint64{}
		for _, t := range r.final {
			st[t[0]] = [2]uint64{t[1], t[2]}
		}
		final = fmtState(st)
	}
	smc := "ok"
	if r.smcheck != "" {
		smc = strings.ReplaceAll(r.smcheck, " ", "_")
	}
	parts := make([]string, len(evs))
	for i, e := range evs {
		parts[i] = e.text
	}
	mon := "ok"
	if r.mon != "" {
		mon = strings.ReplaceAll(r.mon, " ", "_")
	}
	return fmt.Sprintf("%s HIST log=%s final=%s smcheck=%s mon=%s nev=%d | %s", name, logs, final, smc, mon, len(parts), strings.Join(parts, " ; "))
}

// histConfig is the configuration of history i of a run: everything is derived
// from the seed and the index.
func histConfig(a vh.Args, i int) histCfg {
	dur := 2500 * time.Millisecond
	if a.Tier == "thorough" {
		dur = 8 * time.Second
	}
	seed := a.Seed*1000 + uint64(i)
	r := subRand(seed, 1)
	cfg := histCfg{
		name:      fmt.Sprintf("h%d_%d", a.Seed, i),
		seed:      seed,
		clients:   4 + r.Intn(5),
		keys:      2 + r.Intn(3),
		duration:  dur,
		nonVoting: i%2 == 1,
		restart:   i%4 != 3,
		faults:    true,
		snapEvery: []uint64{0, 25, 60, 15}[i%4],
		// without CheckQuorum an isolated leader keeps its role: only the
		// heartbeat-quorum round of ReadIndex protects reads there
		checkQuorum: i%2 == 1,
		// a replica that is slow to apply (three histories of four) and the
		// concurrent kind of state machine (every other history): reads served by
		// the slow replica have to wait for the entries their read index covers
		concurrent: (i/2)%2 == 0,
		slowDwell:  time.Duration(2+r.Intn(6)) * time.Millisecond,
	}
	if i%4 != 1 {
		cfg.slowReplica = uint64(1 + r.Intn(3))
	}
	// the glue-code dimensions. The first four histories cover each of them at
	// least once (the first two together: NotifyCommit, sessions, on-disk +
	// streaming - that pair is what the sub-check R01 runs); later histories
	// (thorough tier) draw them independently.
	switch {
	case i == 0: // concurrent state machine
		cfg.notifyCommit, cfg.sessions, cfg.queryLog = true, true, true
	case i == 1: // on-disk state machine, the non-voting replica joins late: streamed snapshot
		cfg.onDisk, cfg.concurrent, cfg.lateJoin = true, false, true
		cfg.snapEvery = 20
		cfg.snapshotOps = true
		cfg.restore = true
	case i == 2: // regular state machine, membership changes through the API
		cfg.membership, cfg.sessions, cfg.snapshotOps = true, true, true
		cfg.restore = true
	case i == 3: // regular state machine, non-voting replica from the start, no restart
		cfg.quiesce, cfg.notifyCommit, cfg.queryLog = true, true, true
	default:
		d := subRand(seed, 2)
		cfg.onDisk = d.Chance(1, 3)
		if cfg.onDisk {
			cfg.concurrent = false
			if cfg.snapEvery == 0 {
				cfg.snapEvery = 20
			}
		}
		cfg.notifyCommit = d.Bool()
		cfg.sessions = !cfg.onDisk && d.Bool()
		cfg.lateJoin = d.Bool()
		cfg.membership = d.Chance(1, 3)
		cfg.snapshotOps = d.Bool()
		cfg.queryLog = d.Bool()
		cfg.quiesce = d.Chance(1, 4)
		cfg.restore = d.Bool()
	}
	// entry / snapshot compression and PreVote: the first two histories (R01) cover
	// Snappy entries with the concurrent kind (entries applied in batches) and plain
	// entries with the on-disk kind, PreVote on and off; with CheckQuorum all four combinations occur
	// in the first four
	// topology: a second shard on the same hosts (history 0), five voters (history 3),
	// a single voter with a non-voting replica (history 4: the ReadIndex shortcut of
	// a one voter shard, a shorter history)
	cfg.voters = 3
	switch {
	case i == 0:
		cfg.twoShards = true
	case i == 3:
		cfg.voters = 5
	case i == 4:
		cfg.voters = 1
	case i > 4:
		d := subRand(seed, 4)
		cfg.voters = []int{3, 3, 3, 1, 5, 5}[d.Intn(6)]
		cfg.twoShards = d.Chance(1, 3)
	}
	if cfg.voters == 1 {
		cfg.nonVoting, cfg.lateJoin, cfg.membership, cfg.restore = true, false, false, false
		cfg.slowReplica = 1
		if a.Tier != "thorough" {
			cfg.duration = 1500 * time.Millisecond
		}
	}
	// power loss (strict file system): the on-disk history and the one that has no
	// graceful restart
	cfg.powerLoss = i%4 == 1 || i%4 == 3
	if i < 4 {
		// history 1 keeps plain entries: the uncompressed path of proposalShard.propose
		// (caller's buffer, EncodedEntry without compression) must stay within R01's reach
		cfg.entrySnappy = i == 0 || i == 3
		cfg.snapSnappy = i == 0 || i == 2
		cfg.preVote = i == 0 || i == 3
	} else {
		d := subRand(seed, 3)
		cfg.entrySnappy, cfg.snapSnappy, cfg.preVote = d.Bool(), d.Bool(), d.Bool()
	}
	if cfg.quiesce {
		cfg.duration += 500 * time.Millisecond // the idle period
	}
	// about 350 operations per history in the quick tier, 2000 in thorough
	target := 350
	if a.Tier == "thorough" {
		target = 2000
	}
	cfg.paceMs = int(dur/time.Millisecond) * cfg.clients / target
	if cfg.paceMs > 8 {
		cfg.paceMs -= 8 // an operation itself takes a few ms
	}
	return cfg
}

// A panic on a goroutine of the library (it cannot be recovered from: the history
// dies) is a verdict: the library found one of its own invariants broken, or
// dereferenced nil, while it was driven through its public API by a correct
// client. The history becomes a case that the monitor reports. The only panics that
// are skipped are the documented operator errors and known findings listed here
// (DESIGN.md, findings/known.txt); a history that could not be run at all (cluster
// did not come up in time, killed by the time limit) is skipped as before.
var knownPanic = regexp.MustCompile(`empty membership`) // exported snapshot requested on a replica that has applied nothing (DESIGN.md, observation on SyncRequestSnapshot)

// classifyDeath reads what a history child wrote to stderr.
// kind: "panic" (library goroutine), "harness" (panic in the harness' own code),
// "error" (the history could not be run: no leader elected in time, ...), "killed".
func classifyDeath(stderr string) (kind string, first string) {
	lines := strings.Split(stderr, "\n")
	for k, l := range lines {
		if !strings.HasPrefix(l, "panic: ") && !strings.HasPrefix(l, "fatal error: ") {
			continue
		}
		first = strings.TrimSpace(l)
		kind = "panic"
		// the first frame that is not the panic machinery or the logger decides
		for _, f := range lines[k+1:] {
			f = strings.TrimSpace(f)
			if f == "" || strings.HasPrefix(f, "goroutine ") || strings.HasPrefix(f, "/") || strings.HasPrefix(f, "panic(") ||
				strings.HasPrefix(f, "runtime.") || strings.HasPrefix(f, "main.quietLogger.Panicf") || strings.HasPrefix(f, "main.testPanic") || strings.HasPrefix(f, "created by ") || strings.Contains(f, "logger.(*dragonboatLogger).Panicf") ||
				strings.HasPrefix(f, "[signal ") {
				continue
			}
			if strings.HasPrefix(f, "main.") {
				kind = "harness"
			}
			if i := strings.Index(f, "("); i > 0 {
				f = f[:i]
			}
			first += " (in " + f + ")"
			break
		}
		return kind, first
	}
	for _, l := range lines {
		if strings.HasPrefix(l, "c01 gen: ") {
			return "error", strings.TrimSpace(l)
		}
	}
	return "killed", ""
}

// gen runs every history in a child process of its own: a panic on a goroutine of
// the library (which cannot be recovered from) ends that history only.
func gen(a vh.Args) {
	n := 5
	if a.Tier == "thorough" {
		n = 40
	}
	if a.N > 0 {
		n = a.N
	}
	w := vh.Create(a.Cases)
	defer w.Close()
	info := vh.Create(a.Out + "/gen_info.txt")
	defer info.Close()
	skips := vh.Create(filepath.Join(filepath.Dir(a.Cases), "gen_skipped.txt"))
	defer skips.Close()
	exe, err := os.Executable()
	if err != nil {
		fmt.Fprintln(os.Stderr, "c01 gen:", err)
		os.Exit(1)
	}
	limit := 150 * time.Second
	if a.Tier == "thorough" {
		limit = 400 * time.Second
	}
	skipped := 0
	for i := 0; i < n; i++ {
		name := fmt.Sprintf("h%d_%d", a.Seed, i)
		cf := filepath.Join(a.Out, fmt.Sprintf("hist%d.case", i))
		_ = os.Remove(cf)
		ctx, cancel := context.WithTimeout(context.Background(), limit)
		cmd := exec.CommandContext(ctx, exe, "hist", "-seed", fmt.Sprint(a.Seed), "-tier", a.Tier, "-n", fmt.Sprint(i+1), "-out", a.Out, "-cases", cf)
		var eb bytes.Buffer
		cmd.Stderr = &eb
		runErr := cmd.Run()
		cancel()
		if b, e := os.ReadFile(filepath.Join(a.Out, fmt.Sprintf("hist%d.info", i))); e == nil && runErr == nil {
			info.Printf("%s", string(b))
		}
		if runErr == nil {
			if b, e := os.ReadFile(cf); e == nil && len(b) > 0 {
				w.Printf("%s", string(b))
				continue
			}
			runErr = errors.New("no case written")
		}
		kind, first := classifyDeath(eb.String())
		switch {
		case kind == "harness":
			fmt.Fprintf(os.Stderr, "c01 gen: history %s: the harness itself panicked\n%s\n", name, eb.String())
			os.Exit(1)
		case kind == "panic" && !knownPanic.MatchString(first):
			// the library panicked under a correct client: a violation
			w.Printf("%s HIST log=- final=? smcheck=ok mon=%s nev=0\n", name, strings.ReplaceAll("library "+first, " ", "_"))
			info.Printf("%s DIED %s\n%s\n", name, first, eb.String())
		default:
			skipped++
			what := "library-panic: " + first
			if kind == "error" {
				what = "history-aborted: " + first
			} else if kind == "killed" {
				what = fmt.Sprintf("history-killed: %v", runErr)
			}
			skips.Printf("%s %s\n", name, what)
			info.Printf("%s SKIPPED %s\n%s\n", name, what, eb.String())
			fmt.Fprintf(os.Stderr, "c01 gen: history %s skipped: %s\n", name, what)
		}
	}
	if 2*skipped > n {
		fmt.Fprintf(os.Stderr, "c01 gen: %d of %d histories could not be run (see gen_info.txt)\n", skipped, n)
		info.Close()
		if b, e := os.ReadFile(a.Out + "/gen_info.txt"); e == nil {
			os.Stderr.Write(b[max(0, len(b)-6000):])
		}
		os.Exit(1)
	}
}

// testPanic stands for a goroutine of the library in the self-test.
func testPanic(msg string) {
	time.Sleep(300 * time.Millisecond)
	quietLogger{}.Panicf("%s", msg)
}

// histChild runs history number a.N-1 and writes its case and its line of gen_info.
func histChild(a vh.Args) {
	i := a.N - 1
	cfg := histConfig(a, i)
	// self-test of the classification in gen: C01_TEST_PANIC="<index>:<message>" makes
	// that history die the way a library goroutine does
	if t := os.Getenv("C01_TEST_PANIC"); strings.HasPrefix(t, fmt.Sprint(i)+":") {
		go testPanic(strings.SplitN(t, ":", 2)[1])
	}
	res, err := runHistory(cfg)
	if err != nil {
		fmt.Fprintf(os.Stderr, "c01 gen: history %s: %v\n", cfg.name, err)
		os.Exit(1)
	}
	info := vh.Create(filepath.Join(a.Out, fmt.Sprintf("hist%d.info", i)))
	info.Printf("%s timing=%s dims=%s concurrent=%v slow=%d/%v checkQuorum=%v clients=%d keys=%d nonvoting=%v ops=%d log=%d net(sent,dropped,delayed,delivered)=%v notes=%v smcheck=%q mon=%q finalOK=%v\n",
		cfg.name, res.timing, dims(cfg), cfg.concurrent, cfg.slowReplica, cfg.slowDwell, cfg.checkQuorum, cfg.clients, cfg.keys, cfg.nonVoting, len(res.ops), len(res.log), res.net, res.notes, res.smcheck, res.mon, res.finalOK)
	info.Close()
	w := vh.Create(a.Cases)
	w.Printf("%s\n", caseLine(cfg.name, res))
	w.Close()
}

func dims(c histCfg) string {
	var d []string
	for _, x := range []struct {
		on   bool
		name string
	}{{c.onDisk, "ondisk"}, {c.notifyCommit, "notifycommit"}, {c.sessions, "sessions"}, {c.lateJoin && c.nonVoting, "latejoin"},
		{c.membership, "membership"}, {c.snapshotOps, "snapshotops"}, {c.queryLog, "querylog"}, {c.quiesce, "quiesce"}, {c.restore, "restore"},
		{c.powerLoss, "powerloss"}, {c.voters == 1, "onevoter"}, {c.voters == 5, "fivevoters"}, {c.twoShards, "twoshards"}, {c.entrySnappy, "entrysnappy"}, {c.snapSnappy, "snapsnappy"}, {c.preVote, "prevote"}} {
		if x.on {
			d = append(d, x.name)
		}
	}
	return strings.Join(d, "+")
}

func run(a vh.Args) {
	st := vh.NewStats("histories with at least one completed read that had to be placed strictly inside the log (observed a non-empty proper prefix) and at least one write that ended Timeout/Dropped/Terminated")
	obs := vh.Create(a.Out + "/impl.obs")
	defer obs.Close()
	ct := codes()
	// histories gen could not run (a panic on a library goroutine that is not about a
	// monitored property, or the cluster did not come up in time)
	if b, err := os.ReadFile(filepath.Join(filepath.Dir(a.Cases), "gen_skipped.txt")); err == nil {
		for _, l := range strings.Split(strings.TrimSpace(string(b)), "\n") {
			if f := strings.SplitN(l, " ", 2); len(f) == 2 {
				st.Count("histories_skipped")
				st.Notes["skipped "+f[0]] = f[1]
			}
		}
	}
	budget := 2000000
	if a.Tier == "thorough" {
		budget = 20000000
	}
	for _, line := range vh.ReadLines(a.Cases) {
		c, err := parseCase(line)
		if err != nil {
			id := strings.Fields(line)[0]
			obs.Printf("%s UNPARSED\n", id)
			continue
		}
		ops, invOrder := c.index(ct)
		order := c.weave(ops, invOrder)
		why := c.witnessCheck(ct, order, ops)
		verdict := "ok"
		if why != "" {
			verdict = "bad"
		}
		wf := c.wf()
		obs.Printf("%s WF %v\n", c.id, wf)
		obs.Printf("%s LIN %s\n", c.id, verdict)
		final := c.final
		if final == "?" {
			final = c.specFinal(ops)
		}
		obs.Printf("%s FINAL %s\n", c.id, final)

		// ---- monitor ----
		var viol []string
		if c.smcheck != "ok" {
			viol = append(viol, "apply streams inconsistent: "+c.smcheck)
		}
		if c.mon != "ok" {
			viol = append(viol, "cluster monitor: "+c.mon)
		}
		if c.synth > 0 && c.nev == len(c.events)-c.synth {
			viol = append(viol, fmt.Sprintf("%d applied entries are not operations of any client (fabricated)", c.synth))
		}
		if c.differ > 0 {
			viol = append(viol, fmt.Sprintf("%d applied entries differ from the command the client proposed", c.differ))
		}
		for _, id := range c.log {
			if o := ops[id]; o != nil && o.refused {
				viol = append(viol, fmt.Sprintf("operation %d was refused but is in the applied log", id))
				break
			}
		}
		if wf {
			msg, exhausted := c.searchLinearizable(ops, invOrder, budget)
			if msg != "" {
				viol = append(viol, "history not linearizable: "+msg)
			}
			if exhausted {
				st.Count("search_budget_exhausted")
			}
			if why != "" && msg == "" {
				viol = append(viol, "the log order is not a linearization of the history (witness check failed at: "+why+")")
			}
		} else {
			// the recorder cannot produce this; it only arises from hand-written
			// cases and while the shrinker removes events: both sides say LIN bad
			st.Count("ill_formed")
			viol = nil
		}
		if c.expBad {
			// hand-written negative case of the corpus: it must be rejected
			st.Count("negative_cases")
			if why == "" || (wf && len(viol) == 0) {
				st.Violation(c.id, "a history that violates the property was accepted by the checkers")
			}
		} else {
			for _, v := range viol {
				st.Violation(c.id, v)
			}
		}

		// ---- coverage ----
		nW, nR, failedW, innerReads, comp := 0, 0, 0, 0, 0
		for _, id := range invOrder {
			o := ops[id]
			if o.write {
				nW++
				if !o.completed && !o.refused {
					failedW++
				}
			} else {
				nR++
				if o.completed && o.obs > 0 && int(o.obs) < len(c.log) {
					innerReads++
				}
			}
			if o.completed {
				comp++
			}
		}
		for _, e := range c.events {
			if !e.inv {
				st.Count(fmt.Sprintf("code_%d", e.code))
			}
		}
		st.Distribution["writes"] += nW
		st.Distribution["reads"] += nR
		st.Distribution["completed"] += comp
		st.Distribution["failed_writes_possibly_applied"] += failedW
		st.Distribution["log_entries"] += len(c.log)
		sample := line
		st.Case(c.id, innerReads > 0 && failedW > 0, sample)
	}
	st.Write(a.Out)
}

func main() {
	log.SetOutput(io.Discard) // pebble reports "vfs: not supported" background errors on MemFS
	a := vh.ParseArgs()
	switch a.Mode {
	case "gen":
		gen(a)
	case "hist":
		histChild(a)
	case "demo-export-on-joiner":
		demoExportOnJoiner()
	case "demo-quiesced-nonvoting":
		demoQuiescedNonVoting()
	case "run":
		run(a)
	default:
		fmt.Fprintln(os.Stderr, "unknown mode")
		os.Exit(2)
	}
}
