package main

// Go side of the C01 check:
//  * witnessCheck: a plain re-implementation of Model/Linearizability.v
//    check_witness over weave (compared with the extracted model's verdict)
//  * searchLinearizable: the property monitor, an independent witness-free
//    linearizability search (Wing & Gong / Lowe, per key) over the recorded
//    history alone.

import (
	"fmt"
	"sort"
	"strconv"
	"strings"
)

type event struct {
	inv        bool
	id         uint64
	write      bool
	key, val   uint64
	code       uint64
	rval, rver uint64
	obs        uint64
}

type hcase struct {
	id      string
	log     []uint64
	logKV   map[uint64][2]uint64 // key, value of every log entry
	final   string               // "?" when unknown
	smcheck string
	mon     string
	expBad  bool // hand-written negative case: both checkers must reject it
	nev     int  // number of events when the case was recorded (-1 = not given)
	synth   int  // log entries without an invocation in the history (invocation synthesized)
	differ  int  // log entries whose command differs from the client's invocation
	events  []event
}

func parseCase(line string) (*hcase, error) {
	head, body, found := strings.Cut(line, " | ")
	hf := strings.Fields(head)
	if len(hf) < 2 || hf[1] != "HIST" {
		return nil, fmt.Errorf("bad case header")
	}
	c := &hcase{id: hf[0], final: "?", smcheck: "ok", mon: "ok", nev: -1, logKV: map[uint64][2]uint64{}}
	for _, f := range hf[2:] {
		k, v, _ := strings.Cut(f, "=")
		switch k {
		case "log":
			if v != "-" && v != "" {
				for _, x := range strings.Split(v, ",") {
					t := strings.Split(x, ":")
					if len(t) != 3 {
						return nil, fmt.Errorf("bad log entry %q", x)
					}
					var n [3]uint64
					for i := range t {
						var err error
						if n[i], err = strconv.ParseUint(t[i], 10, 64); err != nil {
							return nil, err
						}
					}
					c.log = append(c.log, n[0])
					c.logKV[n[0]] = [2]uint64{n[1], n[2]}
				}
			}
		case "final":
			c.final = v
		case "smcheck":
			c.smcheck = v
		case "mon":
			c.mon = v
		case "expect":
			c.expBad = v == "bad"
		case "nev":
			n, err := strconv.Atoi(v)
			if err != nil {
				return nil, err
			}
			c.nev = n
		}
	}
	defer c.normalise()
	if !found {
		return c, nil
	}
	for _, e := range strings.Split(body, " ; ") {
		f := strings.Fields(e)
		if len(f) == 0 {
			continue
		}
		u := func(i int) uint64 {
			if i >= len(f) {
				return 0
			}
			n, _ := strconv.ParseUint(f[i], 10, 64)
			return n
		}
		switch {
		case f[0] == "I" && len(f) == 5 && f[2] == "W":
			c.events = append(c.events, event{inv: true, id: u(1), write: true, key: u(3), val: u(4)})
		case f[0] == "I" && len(f) == 4 && f[2] == "R":
			c.events = append(c.events, event{inv: true, id: u(1), key: u(3)})
		case f[0] == "R" && len(f) == 6:
			c.events = append(c.events, event{id: u(1), code: u(2), rval: u(3), rver: u(4), obs: u(5)})
		default:
			return nil, fmt.Errorf("bad event %q", e)
		}
	}
	return c, nil
}

// normalise makes every sub-sequence of a recorded case a runnable case that is
// at least as linearizable as the whole (the shrinker of bin/check removes
// events): a log entry whose invocation is no longer in the history is treated as
// the write of a client that invoked it before everything else and never got an
// answer (its Inv is put in front, in log order). The recorded final state is only
// meaningful for the complete history.
func (c *hcase) normalise() {
	inv := map[uint64]event{}
	for _, e := range c.events {
		if e.inv {
			if _, ok := inv[e.id]; !ok {
				inv[e.id] = e
			}
		}
	}
	var front []event
	done := map[uint64]bool{}
	for _, id := range c.log {
		kv := c.logKV[id]
		if e, ok := inv[id]; ok {
			if !e.write || e.key != kv[0] || e.val != kv[1] {
				c.differ++
			}
		} else if !done[id] {
			done[id] = true
			c.synth++
			front = append(front, event{inv: true, id: id, write: true, key: kv[0], val: kv[1]})
		}
	}
	if c.nev >= 0 && c.nev != len(c.events) {
		c.final = "?"
	}
	c.events = append(front, c.events...)
}

type codeTable struct{ completed, timeout, dropped, terminated uint64 }

type opInfo struct {
	id         uint64
	write      bool
	key, val   uint64
	inv        int // position of the first Inv
	hasResp    bool
	resp       int
	completed  bool
	refused    bool
	rval, rver uint64
	obs        uint64
}

// index builds per-operation info the way find_inv / find_resp do (first occurrence).
func (c *hcase) index(ct codeTable) (map[uint64]*opInfo, []uint64) {
	ops := map[uint64]*opInfo{}
	var invOrder []uint64
	for pos, e := range c.events {
		if e.inv {
			invOrder = append(invOrder, e.id)
			if _, ok := ops[e.id]; !ok {
				ops[e.id] = &opInfo{id: e.id, write: e.write, key: e.key, val: e.val, inv: pos}
			}
		}
	}
	seenResp := map[uint64]bool{}
	for pos, e := range c.events {
		if e.inv || seenResp[e.id] {
			continue
		}
		seenResp[e.id] = true
		o := ops[e.id]
		if o == nil {
			continue
		}
		o.hasResp = true
		o.resp = pos
		switch e.code {
		case ct.completed:
			o.completed = true
			o.rval, o.rver, o.obs = e.rval, e.rver, e.obs
		case ct.timeout, ct.dropped, ct.terminated:
		default:
			o.refused = true
		}
	}
	return ops, invOrder
}

func (c *hcase) wf() bool {
	inv := map[uint64]bool{}
	resp := map[uint64]bool{}
	for _, e := range c.events {
		if e.inv {
			if inv[e.id] {
				return false
			}
			inv[e.id] = true
		} else {
			if resp[e.id] || !inv[e.id] {
				return false
			}
			resp[e.id] = true
		}
	}
	return true
}

// weave: log order with each completed read inserted after the prefix it observed.
func (c *hcase) weave(ops map[uint64]*opInfo, invOrder []uint64) []uint64 {
	at := map[uint64][]uint64{}
	seen := map[uint64]bool{}
	for _, id := range invOrder {
		o := ops[id]
		if seen[id] {
			// inv_ids keeps duplicates; filter keeps them too
		}
		seen[id] = true
		if o != nil && !o.write && o.completed {
			at[o.obs] = append(at[o.obs], id)
		}
	}
	var out []uint64
	for k, w := range c.log {
		out = append(out, at[uint64(k)]...)
		out = append(out, w)
	}
	out = append(out, at[uint64(len(c.log))]...)
	return out
}

// witnessCheck mirrors check_witness; it returns "" or the first failing part.
func (c *hcase) witnessCheck(ct codeTable, order []uint64, ops map[uint64]*opInfo) string {
	if !c.wf() {
		return "wf"
	}
	dup := map[uint64]bool{}
	for _, id := range order {
		if dup[id] {
			return "dup"
		}
		dup[id] = true
	}
	for _, id := range order {
		if o := ops[id]; o != nil && o.refused {
			return "refused"
		}
	}
	m := 0
	for _, id := range order {
		o := ops[id]
		if o == nil {
			return "prec"
		}
		if o.inv > m {
			m = o.inv
		}
		if o.completed && !(m < o.resp) {
			return "prec"
		}
	}
	// results
	st := map[uint64][2]uint64{}
	got := map[uint64][2]uint64{}
	for _, id := range order {
		o := ops[id]
		cur := st[o.key]
		if o.write {
			got[id] = [2]uint64{cur[0], cur[1] + 1}
			st[o.key] = [2]uint64{o.val, cur[1] + 1}
		} else {
			got[id] = cur
		}
	}
	for _, e := range c.events {
		if !e.inv && e.code == ct.completed {
			if !dup[e.id] {
				return "missing"
			}
			if g, ok := got[e.id]; !ok || g != [2]uint64{e.rval, e.rver} {
				return "result"
			}
		}
	}
	return ""
}

func (c *hcase) specFinal(ops map[uint64]*opInfo) string {
	st := map[uint64][2]uint64{}
	for _, id := range c.log {
		o := ops[id]
		if o == nil || !o.write {
			continue
		}
		st[o.key] = [2]uint64{o.val, st[o.key][1] + 1}
	}
	return fmtState(st)
}

func fmtState(st map[uint64][2]uint64) string {
	keys := make([]uint64, 0, len(st))
	for k := range st {
		keys = append(keys, k)
	}
	sort.Slice(keys, func(i, j int) bool { return keys[i] < keys[j] })
	if len(keys) == 0 {
		return "-"
	}
	var parts []string
	for _, k := range keys {
		parts = append(parts, fmt.Sprintf("%d:%d:%d", k, st[k][0], st[k][1]))
	}
	return strings.Join(parts, ",")
}

// ---- witness-free search (the monitor) ---------------------------------------

type lnode struct {
	op         *opInfo
	call       bool
	match      *lnode // for a call: its return
	prev, next *lnode
}

const inf = int(^uint(0) >> 1)

// searchKey decides linearizability of the operations on one key. Operations
// without a Completed response may take effect at any time after their
// invocation (return at infinity); writes among them are kept, reads dropped.
// Returns (ok, exhausted budget).
func searchKey(ops []*opInfo, budget int) (bool, bool) {
	type ev struct {
		t    int
		call bool
		op   *opInfo
		ord  int
	}
	var evs []ev
	for i, o := range ops {
		evs = append(evs, ev{t: o.inv, call: true, op: o, ord: i})
		rt := inf
		if o.completed {
			rt = o.resp
		}
		evs = append(evs, ev{t: rt, call: false, op: o, ord: i})
	}
	sort.SliceStable(evs, func(i, j int) bool {
		if evs[i].t != evs[j].t {
			return evs[i].t < evs[j].t
		}
		return evs[i].ord < evs[j].ord
	})
	head := &lnode{}
	cur := head
	calls := map[*opInfo]*lnode{}
	for _, e := range evs {
		n := &lnode{op: e.op, call: e.call, prev: cur}
		cur.next = n
		cur = n
		if e.call {
			calls[e.op] = n
		} else {
			calls[e.op].match = n
		}
	}
	idx := map[*opInfo]int{}
	for i, o := range ops {
		idx[o] = i
	}
	words := (len(ops) + 63) / 64
	lin := make([]uint64, words)
	type frame struct {
		n     *lnode
		state [2]uint64
	}
	var stack []frame
	state := [2]uint64{0, 0}
	cache := map[string]bool{}
	key := func() string {
		b := make([]byte, 0, 8*words+16)
		for _, w := range lin {
			b = strconv.AppendUint(b, w, 16)
			b = append(b, '.')
		}
		b = strconv.AppendUint(b, state[0], 16)
		b = append(b, '.')
		b = strconv.AppendUint(b, state[1], 16)
		return string(b)
	}
	lift := func(n *lnode) {
		n.prev.next = n.next
		if n.next != nil {
			n.next.prev = n.prev
		}
		m := n.match
		m.prev.next = m.next
		if m.next != nil {
			m.next.prev = m.prev
		}
	}
	unlift := func(n *lnode) {
		m := n.match
		m.prev.next = m
		if m.next != nil {
			m.next.prev = m
		}
		n.prev.next = n
		if n.next != nil {
			n.next.prev = n
		}
	}
	// Sound pruning for the writes without a Completed response (they may take any
	// free version slot): slot p is not free when a completed write returned
	// version p; when a completed operation observed value x at version p only a
	// write of x can take slot p; and, when all written values of this key are
	// distinct, a write whose value was observed at version q can only take slot q.
	claimed := map[uint64]bool{}
	need := map[uint64]uint64{}
	seenAt := map[uint64]uint64{}
	unique := true
	vals := map[uint64]bool{}
	for _, o := range ops {
		if o.write {
			if vals[o.val] {
				unique = false
			}
			vals[o.val] = true
		}
		if !o.completed {
			continue
		}
		if o.write {
			claimed[o.rver] = true
			if o.rver >= 2 {
				need[o.rver-1] = o.rval
				seenAt[o.rval] = o.rver - 1
			}
		} else if o.rver >= 1 {
			need[o.rver] = o.rval
			seenAt[o.rval] = o.rver
		}
	}
	// pass 1 tries the calls of completed operations, pass 2 (only when none of
	// them can take effect here) the writes without a Completed response
	entry := head.next
	pass := 1
	for head.next != nil {
		budget--
		if budget < 0 {
			return true, true
		}
		if entry != nil && entry.call {
			o := entry.op
			ok := (pass == 1) == o.completed
			if ok && !o.completed {
				slot := state[1] + 1
				if claimed[slot] {
					ok = false
				} else if x, has := need[slot]; has && x != o.val {
					ok = false
				} else if q, has := seenAt[o.val]; has && unique && q != slot {
					ok = false
				}
			}
			ns := state
			if o.write {
				if o.completed && !(state[0] == o.rval && state[1]+1 == o.rver) {
					ok = false
				}
				ns = [2]uint64{o.val, state[1] + 1}
			} else if !(state[0] == o.rval && state[1] == o.rver) {
				ok = false
			}
			if ok {
				i := idx[o]
				lin[i/64] |= 1 << uint(i%64)
				old := state
				state = ns
				k := key()
				if !cache[k] {
					cache[k] = true
					stack = append(stack, frame{n: entry, state: old})
					lift(entry)
					entry = head.next
					pass = 1
					continue
				}
				state = old
				lin[i/64] &^= 1 << uint(i%64)
			}
			entry = entry.next
		} else if pass == 1 {
			pass = 2
			entry = head.next
		} else {
			// a return (or the end of the list) is reached in both passes: backtrack
			if len(stack) == 0 {
				return false, false
			}
			f := stack[len(stack)-1]
			stack = stack[:len(stack)-1]
			state = f.state
			i := idx[f.n.op]
			lin[i/64] &^= 1 << uint(i%64)
			unlift(f.n)
			entry = f.n.next
			pass = 2
			if f.n.op.completed {
				pass = 1
			}
		}
	}
	return true, false
}

// searchLinearizable is the monitor: "" when a linearization exists for every key.
func (c *hcase) searchLinearizable(ops map[uint64]*opInfo, invOrder []uint64, budget int) (string, bool) {
	perKey := map[uint64][]*opInfo{}
	seen := map[uint64]bool{}
	for _, id := range invOrder {
		if seen[id] {
			continue
		}
		seen[id] = true
		o := ops[id]
		if o.refused {
			continue
		}
		if !o.completed && !o.write {
			continue
		}
		perKey[o.key] = append(perKey[o.key], o)
	}
	keys := make([]uint64, 0, len(perKey))
	for k := range perKey {
		keys = append(keys, k)
	}
	sort.Slice(keys, func(i, j int) bool { return keys[i] < keys[j] })
	exhausted := false
	for _, k := range keys {
		ok, ex := searchKey(perKey[k], budget)
		if ex {
			exhausted = true
			continue
		}
		if !ok {
			return fmt.Sprintf("no linearization exists for the operations on key %d", k), exhausted
		}
	}
	return "", exhausted
}
