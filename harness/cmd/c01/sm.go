package main

// The user state machine of the C01 harness: a versioned KV register map
// (sequential specification = Model/Linearizability.v kv_step). It records every
// Update(index, cmd) it is given; Lookup also reports how many updates this
// replica had applied when it ran (the prefix the read observed).

import (
	"encoding/binary"
	"errors"
	"io"
	"sort"
	"sync"
	"time"

	sm "github.com/lni/dragonboat/v4/statemachine"
)

type cell struct{ val, ver uint64 }

// applyRec is one Update call seen by one replica incarnation.
type applyRec struct {
	replica uint64
	index   uint64
	id      uint64
	key     uint64
	val     uint64
	prev    uint64
	ver     uint64
	count   uint64 // number of updates applied including this one
}

// recorder collects what the state machines of one history observe.
type recorder struct {
	mu      sync.Mutex
	applies []applyRec
	live    map[uint64]*kvSM // replica -> current incarnation
	bad     []string         // state machine level anomalies (malformed cmd, ...)
	slow    map[uint64]time.Duration // replica -> dwell of a slow Update (about one in three)
}

func newRecorder() *recorder { return &recorder{live: map[uint64]*kvSM{}} }

type kvSM struct {
	rec     *recorder
	replica uint64
	mu      sync.Mutex // Update/Lookup exclusion is dragonboat's job; this only protects final-state reads by the harness
	m       map[uint64]cell
	count   uint64
	last    uint64
}

func (r *recorder) factory() sm.CreateStateMachineFunc {
	return func(shardID uint64, replicaID uint64) sm.IStateMachine {
		s := &kvSM{rec: r, replica: replicaID, m: map[uint64]cell{}}
		r.mu.Lock()
		r.live[replicaID] = s
		r.mu.Unlock()
		return s
	}
}

// cmd = id(8) key(8) val(8), big endian
func encodeCmd(id, key, val uint64) []byte {
	b := make([]byte, 24)
	binary.BigEndian.PutUint64(b, id)
	binary.BigEndian.PutUint64(b[8:], key)
	binary.BigEndian.PutUint64(b[16:], val)
	return b
}

// dwell makes applying an entry take a while on a slow replica: the entry is
// committed (and possibly completed through another replica) but not yet in this
// replica's state; a linearizable read served here has to wait for it.
func (s *kvSM) dwell(index uint64) {
	d := s.rec.slow[s.replica]
	if d > 0 && (index*0x9E3779B97F4A7C15>>40)%3 == 0 {
		time.Sleep(d)
	}
}

func (s *kvSM) Update(e sm.Entry) (sm.Result, error) {
	s.dwell(e.Index)
	if len(e.Cmd) != 24 {
		s.rec.mu.Lock()
		s.rec.bad = append(s.rec.bad, "update with malformed cmd")
		s.rec.mu.Unlock()
		return sm.Result{}, nil
	}
	id := binary.BigEndian.Uint64(e.Cmd)
	k := binary.BigEndian.Uint64(e.Cmd[8:])
	v := binary.BigEndian.Uint64(e.Cmd[16:])
	s.mu.Lock()
	old := s.m[k]
	nw := cell{val: v, ver: old.ver + 1}
	s.m[k] = nw
	s.count++
	cnt := s.count
	if e.Index <= s.last {
		s.rec.mu.Lock()
		s.rec.bad = append(s.rec.bad, "update index not increasing")
		s.rec.mu.Unlock()
	}
	s.last = e.Index
	s.mu.Unlock()
	s.rec.mu.Lock()
	s.rec.applies = append(s.rec.applies, applyRec{replica: s.replica, index: e.Index, id: id, key: k, val: v, prev: old.val, ver: nw.ver, count: cnt})
	s.rec.mu.Unlock()
	data := make([]byte, 8)
	binary.BigEndian.PutUint64(data, old.val)
	return sm.Result{Value: nw.ver, Data: data}, nil
}

type lookupResult struct {
	val, ver, count uint64
}

func (s *kvSM) Lookup(q interface{}) (interface{}, error) {
	k, ok := q.(uint64)
	if !ok {
		return nil, errors.New("bad query")
	}
	s.mu.Lock()
	defer s.mu.Unlock()
	c := s.m[k]
	return lookupResult{val: c.val, ver: c.ver, count: s.count}, nil
}

func (s *kvSM) SaveSnapshot(w io.Writer, _ sm.ISnapshotFileCollection, _ <-chan struct{}) error {
	s.mu.Lock()
	keys := make([]uint64, 0, len(s.m))
	for k := range s.m {
		keys = append(keys, k)
	}
	sort.Slice(keys, func(i, j int) bool { return keys[i] < keys[j] })
	buf := make([]byte, 0, 24+24*len(keys))
	var t [8]byte
	put := func(x uint64) {
		binary.BigEndian.PutUint64(t[:], x)
		buf = append(buf, t[:]...)
	}
	put(s.count)
	put(s.last)
	put(uint64(len(keys)))
	for _, k := range keys {
		put(k)
		put(s.m[k].val)
		put(s.m[k].ver)
	}
	s.mu.Unlock()
	_, err := w.Write(buf)
	return err
}

func (s *kvSM) RecoverFromSnapshot(r io.Reader, _ []sm.SnapshotFile, _ <-chan struct{}) error {
	data, err := io.ReadAll(r)
	if err != nil {
		return err
	}
	if len(data) < 24 {
		return errors.New("short snapshot")
	}
	get := func(i int) uint64 { return binary.BigEndian.Uint64(data[8*i:]) }
	n := int(get(2))
	if len(data) != 24+24*n {
		return errors.New("bad snapshot size")
	}
	s.mu.Lock()
	defer s.mu.Unlock()
	s.count = get(0)
	s.last = get(1)
	s.m = map[uint64]cell{}
	for i := 0; i < n; i++ {
		s.m[get(3+3*i)] = cell{val: get(4 + 3*i), ver: get(5 + 3*i)}
	}
	return nil
}

func (s *kvSM) Close() error { return nil }

// snapshotState returns (count, sorted "k:v:ver" triples) of a live state machine.
func (s *kvSM) state() (uint64, [][3]uint64) {
	s.mu.Lock()
	defer s.mu.Unlock()
	var out [][3]uint64
	for k, c := range s.m {
		out = append(out, [3]uint64{k, c.val, c.ver})
	}
	sort.Slice(out, func(i, j int) bool { return out[i][0] < out[j][0] })
	return s.count, out
}


// kvCSM is the same register map as a concurrent state machine: dragonboat does
// not serialise Lookup with Update, a read index released before the entries it
// covers are applied is served from the old state.
type kvCSM struct{ *kvSM }

func (r *recorder) concurrentFactory() sm.CreateConcurrentStateMachineFunc {
	return func(shardID uint64, replicaID uint64) sm.IConcurrentStateMachine {
		s := &kvSM{rec: r, replica: replicaID, m: map[uint64]cell{}}
		r.mu.Lock()
		r.live[replicaID] = s
		r.mu.Unlock()
		return kvCSM{s}
	}
}

func (c kvCSM) Update(ents []sm.Entry) ([]sm.Entry, error) {
	for i := range ents {
		res, err := c.kvSM.Update(ents[i])
		if err != nil {
			return nil, err
		}
		ents[i].Result = res
	}
	return ents, nil
}

func (c kvCSM) PrepareSnapshot() (interface{}, error) {
	var b sliceWriter
	if err := c.kvSM.SaveSnapshot(&b, nil, nil); err != nil {
		return nil, err
	}
	return []byte(b), nil
}

func (c kvCSM) SaveSnapshot(ctx interface{}, w io.Writer, _ sm.ISnapshotFileCollection, _ <-chan struct{}) error {
	_, err := w.Write(ctx.([]byte))
	return err
}

type sliceWriter []byte

func (b *sliceWriter) Write(p []byte) (int, error) { *b = append(*b, p...); return len(p), nil }
