package main

// The user state machine of the C01 harness: a versioned KV register map
// (sequential specification = Model/Linearizability.v kv_step). It records every
// Update(index, cmd) it is given; Lookup also reports how many updates this
// replica had applied when it ran (the prefix the read observed).

import (
	"encoding/binary"
	"errors"
	"fmt"
	"io"
	"sort"
	"sync"
	"sync/atomic"
	"time"

	sm "github.com/lni/dragonboat/v4/statemachine"
)

type cell struct{ val, ver uint64 }

// applyRec is one Update call seen by one replica incarnation.
type applyRec struct {
	replica uint64
	index   uint64
	id      uint64
	key     uint64
	val     uint64
	prev    uint64
	ver     uint64
	count   uint64 // number of updates applied including this one
	cid     uint64 // client session id and series id the entry was proposed with (0,0 = NoOP session)
	series  uint64
}

// recorder collects what the state machines of one history observe.
type recorder struct {
	mu       sync.Mutex
	applies  []applyRec
	live     map[uint64]*kvSM         // replica -> current incarnation
	bad      []string                 // state machine level anomalies (malformed cmd, ...)
	slow     map[uint64]time.Duration // replica -> dwell of a slow Update (about one in three)
	disks    map[uint64]*disk         // replica -> what its on-disk state machine has persisted
	streams  int                      // RecoverFromSnapshot calls of on-disk state machines (streamed snapshots)
	recovers int                      // RecoverFromSnapshot calls of the in-memory kinds
	// onRecover is called by a regular state machine in the middle of
	// RecoverFromSnapshot (old content gone, new content not yet there)
	onRecover func(replica uint64)
	// powerLoss: an on-disk state machine is durable only up to its last Sync
	synced map[uint64]*disk
	syncs  int
	// shard2: this recorder belongs to the second shard of the hosts; its commands
	// carry shard2Tag in their id, the commands of the first shard never do
	shard2 bool
}

const shard2Tag = uint64(1) << 62

// disk is the persistent store of one replica's on-disk state machine; it
// survives the NodeHost (a restarted replica opens it again).
type disk struct {
	m     map[uint64]cell
	count uint64
	last  uint64
}

func newRecorder() *recorder {
	return &recorder{live: map[uint64]*kvSM{}, disks: map[uint64]*disk{}, synced: map[uint64]*disk{}}
}

type kvSM struct {
	rec     *recorder
	replica uint64
	mu      sync.Mutex // Update/Lookup exclusion is dragonboat's job; this only protects final-state reads by the harness
	m       map[uint64]cell
	count   uint64
	last    uint64
	// regular: run as sm.IStateMachine, dragonboat serialises Lookup with Update
	// and RecoverFromSnapshot; recovering is set while RecoverFromSnapshot runs
	regular    bool
	recovering int32
}

func (r *recorder) factory() sm.CreateStateMachineFunc {
	return func(shardID uint64, replicaID uint64) sm.IStateMachine {
		s := &kvSM{rec: r, replica: replicaID, m: map[uint64]cell{}, regular: true}
		r.mu.Lock()
		r.live[replicaID] = s
		r.mu.Unlock()
		return s
	}
}

const cmdLen = 40

// padLen is the length of the filler that follows the 40 byte header of the
// command of operation id: 0..255 bytes, varying non-monotonically with the id, so
// that the payloads of the entries of one batch differ in size in both directions.
func padLen(id uint64) int { return int((id * 0x9E3779B97F4A7C15) >> 56) }

func padByte(id uint64, k int) byte { return byte(id*31 + uint64(k/7)) }

// cmd = id(8) key(8) val(8) client-session-id(8) series-id(8), big endian,
// followed by padLen(id) compressible filler bytes derived from the id
func encodeCmd(id, key, val, cid, series uint64) []byte {
	b := make([]byte, cmdLen+padLen(id))
	binary.BigEndian.PutUint64(b, id)
	binary.BigEndian.PutUint64(b[8:], key)
	binary.BigEndian.PutUint64(b[16:], val)
	binary.BigEndian.PutUint64(b[24:], cid)
	binary.BigEndian.PutUint64(b[32:], series)
	for k := cmdLen; k < len(b); k++ {
		b[k] = padByte(id, k-cmdLen)
	}
	return b
}

// cmdOK checks the length and the filler of a command.
func cmdOK(cmd []byte) bool {
	if len(cmd) < cmdLen {
		return false
	}
	id := binary.BigEndian.Uint64(cmd)
	if len(cmd) != cmdLen+padLen(id) {
		return false
	}
	for k := cmdLen; k < len(cmd); k++ {
		if cmd[k] != padByte(id, k-cmdLen) {
			return false
		}
	}
	return true
}

// dwell makes applying an entry take a while on a slow replica: the entry is
// committed (and possibly completed through another replica) but not yet in this
// replica's state; a linearizable read served here has to wait for it.
func (s *kvSM) dwell(index uint64) {
	d := s.rec.slow[s.replica]
	if d > 0 && (index*0x9E3779B97F4A7C15>>40)%3 == 0 {
		time.Sleep(d)
	}
}

func (s *kvSM) Update(e sm.Entry) (sm.Result, error) {
	s.dwell(e.Index)
	if !cmdOK(e.Cmd) {
		s.rec.mu.Lock()
		s.rec.bad = append(s.rec.bad, fmt.Sprintf("replica %d was given a malformed command at index %d (not what any client proposed)", s.replica, e.Index))
		s.rec.mu.Unlock()
		return sm.Result{}, nil
	}
	id := binary.BigEndian.Uint64(e.Cmd)
	if (id&shard2Tag != 0) != s.rec.shard2 {
		s.rec.mu.Lock()
		s.rec.bad = append(s.rec.bad, fmt.Sprintf("replica %d was given a command of the other shard at index %d", s.replica, e.Index))
		s.rec.mu.Unlock()
	}
	k := binary.BigEndian.Uint64(e.Cmd[8:])
	v := binary.BigEndian.Uint64(e.Cmd[16:])
	cid := binary.BigEndian.Uint64(e.Cmd[24:])
	series := binary.BigEndian.Uint64(e.Cmd[32:])
	s.mu.Lock()
	old := s.m[k]
	nw := cell{val: v, ver: old.ver + 1}
	s.m[k] = nw
	s.count++
	cnt := s.count
	if e.Index <= s.last {
		s.rec.mu.Lock()
		s.rec.bad = append(s.rec.bad, "update index not increasing")
		s.rec.mu.Unlock()
	}
	s.last = e.Index
	s.mu.Unlock()
	s.rec.mu.Lock()
	s.rec.applies = append(s.rec.applies, applyRec{replica: s.replica, index: e.Index, id: id, key: k, val: v, prev: old.val, ver: nw.ver, count: cnt, cid: cid, series: series})
	s.rec.mu.Unlock()
	data := make([]byte, 8)
	binary.BigEndian.PutUint64(data, old.val)
	return sm.Result{Value: nw.ver, Data: data}, nil
}

type lookupResult struct {
	val, ver, count uint64
}

func (s *kvSM) Lookup(q interface{}) (interface{}, error) {
	k, ok := q.(uint64)
	if !ok {
		return nil, errors.New("bad query")
	}
	if s.regular && atomic.LoadInt32(&s.recovering) != 0 {
		s.rec.mu.Lock()
		s.rec.bad = append(s.rec.bad, fmt.Sprintf("Lookup on replica %d ran while RecoverFromSnapshot was running on its regular state machine", s.replica))
		s.rec.mu.Unlock()
	}
	s.mu.Lock()
	defer s.mu.Unlock()
	c := s.m[k]
	return lookupResult{val: c.val, ver: c.ver, count: s.count}, nil
}

func (s *kvSM) SaveSnapshot(w io.Writer, _ sm.ISnapshotFileCollection, _ <-chan struct{}) error {
	s.mu.Lock()
	keys := make([]uint64, 0, len(s.m))
	for k := range s.m {
		keys = append(keys, k)
	}
	sort.Slice(keys, func(i, j int) bool { return keys[i] < keys[j] })
	buf := make([]byte, 0, 24+24*len(keys))
	var t [8]byte
	put := func(x uint64) {
		binary.BigEndian.PutUint64(t[:], x)
		buf = append(buf, t[:]...)
	}
	put(s.count)
	put(s.last)
	put(uint64(len(keys)))
	for _, k := range keys {
		put(k)
		put(s.m[k].val)
		put(s.m[k].ver)
	}
	s.mu.Unlock()
	_, err := w.Write(buf)
	return err
}

func (s *kvSM) RecoverFromSnapshot(r io.Reader, _ []sm.SnapshotFile, _ <-chan struct{}) error {
	data, err := io.ReadAll(r)
	if err != nil {
		return err
	}
	if len(data) < 24 {
		return errors.New("short snapshot")
	}
	get := func(i int) uint64 { return binary.BigEndian.Uint64(data[8*i:]) }
	n := int(get(2))
	if len(data) != 24+24*n {
		return errors.New("bad snapshot size")
	}
	if !s.regular {
		// Lookup may run concurrently with RecoverFromSnapshot on these kinds: the
		// state machine itself has to switch to the new content atomically
		s.mu.Lock()
		defer s.mu.Unlock()
		s.count = get(0)
		s.last = get(1)
		s.m = map[uint64]cell{}
		for i := 0; i < n; i++ {
			s.m[get(3+3*i)] = cell{val: get(4 + 3*i), ver: get(5 + 3*i)}
		}
		s.rec.mu.Lock()
		s.rec.recovers++
		s.rec.mu.Unlock()
		return nil
	}
	// a regular state machine relies on dragonboat: no Lookup and no Update runs
	// while it recovers. As real ones do, it drops what it has and then rebuilds
	// its content from the image, which takes a while.
	atomic.StoreInt32(&s.recovering, 1)
	defer atomic.StoreInt32(&s.recovering, 0)
	s.mu.Lock()
	s.m = map[uint64]cell{}
	s.mu.Unlock()
	s.rec.mu.Lock()
	cb := s.rec.onRecover
	s.rec.mu.Unlock()
	if cb != nil {
		cb(s.replica)
	}
	time.Sleep(12 * time.Millisecond)
	for i := 0; i < n; i++ {
		s.mu.Lock()
		s.m[get(3+3*i)] = cell{val: get(4 + 3*i), ver: get(5 + 3*i)}
		s.mu.Unlock()
		time.Sleep(2 * time.Millisecond)
	}
	s.mu.Lock()
	s.count = get(0)
	s.last = get(1)
	s.mu.Unlock()
	s.rec.mu.Lock()
	s.rec.recovers++
	s.rec.mu.Unlock()
	return nil
}

func (s *kvSM) Close() error { return nil }

// snapshotState returns (count, sorted "k:v:ver" triples) of a live state machine.
func (s *kvSM) state() (uint64, [][3]uint64) {
	s.mu.Lock()
	defer s.mu.Unlock()
	var out [][3]uint64
	for k, c := range s.m {
		out = append(out, [3]uint64{k, c.val, c.ver})
	}
	sort.Slice(out, func(i, j int) bool { return out[i][0] < out[j][0] })
	return s.count, out
}

// kvCSM is the same register map as a concurrent state machine: dragonboat does
// not serialise Lookup with Update, a read index released before the entries it
// covers are applied is served from the old state.
type kvCSM struct{ *kvSM }

func (r *recorder) concurrentFactory() sm.CreateConcurrentStateMachineFunc {
	return func(shardID uint64, replicaID uint64) sm.IConcurrentStateMachine {
		s := &kvSM{rec: r, replica: replicaID, m: map[uint64]cell{}}
		r.mu.Lock()
		r.live[replicaID] = s
		r.mu.Unlock()
		return kvCSM{s}
	}
}

func (c kvCSM) Update(ents []sm.Entry) ([]sm.Entry, error) {
	for i := range ents {
		res, err := c.kvSM.Update(ents[i])
		if err != nil {
			return nil, err
		}
		ents[i].Result = res
	}
	return ents, nil
}

func (c kvCSM) PrepareSnapshot() (interface{}, error) {
	var b sliceWriter
	if err := c.kvSM.SaveSnapshot(&b, nil, nil); err != nil {
		return nil, err
	}
	return []byte(b), nil
}

func (c kvCSM) SaveSnapshot(ctx interface{}, w io.Writer, _ sm.ISnapshotFileCollection, _ <-chan struct{}) error {
	_, err := w.Write(ctx.([]byte))
	return err
}

type sliceWriter []byte

func (b *sliceWriter) Write(p []byte) (int, error) { *b = append(*b, p...); return len(p), nil }

// kvDSM is the register map as an on-disk state machine: its state lives in
// recorder.disks and survives the NodeHost; Open reports the index of the last
// update it holds, a lagging or joining replica is caught up by a snapshot that
// the leader streams from its live state.
type kvDSM struct{ *kvSM }

func (r *recorder) onDiskFactory() sm.CreateOnDiskStateMachineFunc {
	return func(shardID uint64, replicaID uint64) sm.IOnDiskStateMachine {
		s := &kvSM{rec: r, replica: replicaID, m: map[uint64]cell{}}
		r.mu.Lock()
		r.live[replicaID] = s
		r.mu.Unlock()
		return kvDSM{s}
	}
}

func (d kvDSM) persist() {
	s := d.kvSM
	s.mu.Lock()
	m := make(map[uint64]cell, len(s.m))
	for k, v := range s.m {
		m[k] = v
	}
	dk := &disk{m: m, count: s.count, last: s.last}
	s.mu.Unlock()
	s.rec.mu.Lock()
	s.rec.disks[s.replica] = dk
	s.rec.mu.Unlock()
}

func (d kvDSM) Open(<-chan struct{}) (uint64, error) {
	s := d.kvSM
	s.rec.mu.Lock()
	dk := s.rec.disks[s.replica]
	s.rec.mu.Unlock()
	if dk == nil {
		return 0, nil
	}
	s.mu.Lock()
	defer s.mu.Unlock()
	s.m = make(map[uint64]cell, len(dk.m))
	for k, v := range dk.m {
		s.m[k] = v
	}
	s.count, s.last = dk.count, dk.last
	return s.last, nil
}

func (d kvDSM) Update(ents []sm.Entry) ([]sm.Entry, error) {
	for i := range ents {
		res, err := d.kvSM.Update(ents[i])
		if err != nil {
			return nil, err
		}
		ents[i].Result = res
	}
	d.persist()
	return ents, nil
}

// Sync makes what the state machine holds durable: after a power loss the store is
// back at its last Sync (recorder.powerLoss), dragonboat replays the rest.
func (d kvDSM) Sync() error {
	s := d.kvSM
	s.rec.mu.Lock()
	defer s.rec.mu.Unlock()
	if dk := s.rec.disks[s.replica]; dk != nil {
		s.rec.synced[s.replica] = dk // persist() never modifies a disk value, it replaces it
		s.rec.syncs++
	}
	return nil
}

// powerLoss throws away what the on-disk state machine of a replica wrote after
// its last Sync.
func (r *recorder) powerLoss(replica uint64) {
	r.mu.Lock()
	defer r.mu.Unlock()
	if dk, ok := r.synced[replica]; ok {
		r.disks[replica] = dk
	} else {
		delete(r.disks, replica)
	}
}

func (d kvDSM) PrepareSnapshot() (interface{}, error) {
	var b sliceWriter
	if err := d.kvSM.SaveSnapshot(&b, nil, nil); err != nil {
		return nil, err
	}
	return []byte(b), nil
}

func (d kvDSM) SaveSnapshot(ctx interface{}, w io.Writer, _ <-chan struct{}) error {
	_, err := w.Write(ctx.([]byte))
	return err
}

func (d kvDSM) RecoverFromSnapshot(r io.Reader, _ <-chan struct{}) error {
	if err := d.kvSM.RecoverFromSnapshot(r, nil, nil); err != nil {
		return err
	}
	d.persist()
	d.rec.mu.Lock()
	d.rec.recovers--
	d.rec.streams++
	d.rec.mu.Unlock()
	return nil
}

// witnessSM is what a witness replica is started with; it is never given an update.
type witnessSM struct{ rec *recorder }

func (w witnessSM) Update(sm.Entry) (sm.Result, error) {
	w.rec.mu.Lock()
	w.rec.bad = append(w.rec.bad, "a witness replica was given an update")
	w.rec.mu.Unlock()
	return sm.Result{}, nil
}
func (w witnessSM) Lookup(interface{}) (interface{}, error) { return nil, errors.New("witness") }
func (w witnessSM) SaveSnapshot(io.Writer, sm.ISnapshotFileCollection, <-chan struct{}) error {
	return nil
}
func (w witnessSM) RecoverFromSnapshot(io.Reader, []sm.SnapshotFile, <-chan struct{}) error {
	return nil
}
func (w witnessSM) Close() error { return nil }
