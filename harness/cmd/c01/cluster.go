package main

// One end-to-end history: 3 voting NodeHosts (+ optionally one non-voting) in this
// process on in-memory file systems, a fault-injecting network between them,
// concurrent clients, a nemesis (partitions, loss/delay/reordering, leader
// transfers, one NodeHost restart).

import (
	"context"
	"encoding/binary"
	"errors"
	"fmt"
	"os"
	"runtime/debug"
	"sort"
	"strings"
	"sync"
	"sync/atomic"
	"time"

	dragonboat "github.com/lni/dragonboat/v4"
	"github.com/lni/dragonboat/v4/client"
	"github.com/lni/dragonboat/v4/config"
	"github.com/lni/dragonboat/v4/logger"
	pb "github.com/lni/dragonboat/v4/raftpb"
	sm "github.com/lni/dragonboat/v4/statemachine"
	c01hooks "github.com/lni/dragonboat/v4/verifhooks/c01"
	"verif/harness/vh"
)

const shardID = 1
const shardID2 = 2      // the second shard of the twoShards dimension
const codeRefused = 100 // the API call returned an error without accepting the request

type opRec struct {
	id         uint64
	client     int
	host       int
	kind       byte // 'W' | 'R'
	api        string
	key, val   uint64
	inv, resp  uint64
	code       uint64
	rval, rver uint64
	obs        uint64
	committed  bool // a Committed notification was received (NotifyCommit)
	attempts   int  // session proposals: number of times the same series was proposed
}

type histCfg struct {
	name        string
	seed        uint64
	clients     int
	keys        int
	duration    time.Duration
	nonVoting   bool
	restart     bool
	faults      bool
	snapEvery   uint64
	paceMs      int // mean pause between two operations of one client
	checkQuorum bool
	concurrent  bool   // IConcurrentStateMachine instead of IStateMachine
	slowReplica uint64 // 0 = none; this replica dwells in about a third of its Updates
	slowDwell   time.Duration
	// dimensions added for the glue code of node.go / engine.go / nodehost.go
	onDisk       bool // IOnDiskStateMachine (excludes concurrent and sessions)
	notifyCommit bool // NodeHostConfig.NotifyCommit: Committed notifications before Completed
	sessions     bool // clients register sessions and retry a timed out series on any host
	lateJoin     bool // the non-voting replica 4 joins in the middle of the history (snapshot transfer / streaming)
	membership   bool // add voter 5 and witness 6, remove one of the initial voters, through the API
	snapshotOps  bool // RequestSnapshot with options / exported, RequestCompaction
	queryLog     bool // QueryRaftLog, compared with the applied entries
	quiesce      bool // Config.Quiesce and an idle period inside the history
	restore      bool // restore scenario after the faults: leaders that know the added members only from a snapshot
	entrySnappy  bool // Config.EntryCompressionType = Snappy
	snapSnappy   bool // Config.SnapshotCompressionType = Snappy
	preVote      bool // Config.PreVote
	powerLoss    bool // hosts on a strict file system; a voter (and the non-voting host) lose power while clients run
	voters       int  // initial voters: 1 (ReadIndex shortcut of a single voter shard), 3 or 5
	twoShards    bool // a second shard on the same hosts, loaded by its own client, shares the engine's workers
}

// initialVoters returns the host indexes of the initial voters.
func (c histCfg) initialVoters() []int {
	switch c.voters {
	case 1:
		return []int{0}
	case 5:
		return []int{0, 1, 2, 7, 8}
	}
	return []int{0, 1, 2}
}

// roles of the hosts (index = replica id - 1)
const (
	roleAbsent = iota
	roleVoter
	roleNonVoting
	roleWitness
	roleRemoved
)

// hosts (index = replica id - 1): 1-3 initial voters, 4 non-voting, 5 voter added later,
// 6 witness, 7 non-voting added in the restore scenario, 8-9 initial voters of a 5 voter shard
const maxHosts = 9

type cluster struct {
	cfg     histCfg
	net     *network
	rec     *recorder
	mu      sync.RWMutex
	hosts   []*dragonboat.NodeHost // index 0..n-1 = replica 1..n; nil while down
	nhcs    []config.NodeHostConfig
	addrs   []string
	stamp   uint64
	nextID  uint64
	opsMu   sync.Mutex
	ops     []*opRec
	codes   map[string]uint64
	notes   map[string]int
	noteMu  sync.Mutex
	fss     []config.IFS
	strict  []*c01hooks.StrictFS // per host, nil unless cfg.powerLoss
	rec2    *recorder            // the state machines of the second shard (cfg.twoShards)
	closing sync.Map             // *NodeHost objects the harness has started to close
	role    []int                // guarded by mu
	paused  int32                // clients and faults pause (idle period of the quiesce dimension)
	avoid   int32                // host index + 1 that admin requests do not go to (it is cut off), 0 = none
	mon     []string             // gen-time monitor messages (guarded by noteMu)
	qlog    []qentry             // entries returned by QueryRaftLog (guarded by noteMu)
}

// qentry is one committed entry returned by QueryRaftLog.
type qentry struct {
	host  int
	index uint64
	id    uint64
}

func (c *cluster) violation(format string, a ...interface{}) {
	c.noteMu.Lock()
	c.mon = append(c.mon, fmt.Sprintf(format, a...))
	c.noteMu.Unlock()
}

func (c *cluster) roleOf(i int) int {
	c.mu.RLock()
	defer c.mu.RUnlock()
	return c.role[i]
}

func (c *cluster) setRole(i int, r int) {
	c.mu.Lock()
	c.role[i] = r
	c.mu.Unlock()
}

// subRand derives an independent stream: vh.Rand streams of neighbouring seeds
// are shifted copies of each other, so derived seeds go through the mixer twice.
func subRand(seed uint64, salt uint64) *vh.Rand {
	return vh.NewRand(vh.NewRand(vh.NewRand(seed).U64() ^ (salt * 0xD6E8FEB86659FD93)).U64())
}

// clientPanic: a call of the public API panicked on the caller's goroutine. Like a
// panic on a goroutine of the library it is judged, not skipped (unless it is a
// documented operator error, knownPanic).
func (c *cluster) clientPanic(p interface{}, nhs ...*dragonboat.NodeHost) {
	msg := fmt.Sprint(p)
	if knownPanic.MatchString(msg) {
		c.note("client_panic_known")
		return
	}
	// where: the frames of the library below the panic machinery
	var where []string
	for _, l := range strings.Split(string(debug.Stack()), "\n") {
		l = strings.TrimSpace(l)
		if strings.HasPrefix(l, "github.com/lni/dragonboat/v4") || strings.HasPrefix(l, "main.(*cluster).do") {
			if i := strings.LastIndex(l, "("); i > 0 {
				l = l[:i]
			}
			where = append(where, strings.TrimPrefix(l, "github.com/lni/dragonboat/v4"))
			if len(where) == 4 {
				break
			}
		}
	}
	// Not a verdict, narrowly: the harness itself had started to close this very
	// NodeHost object before the call returned (restart / power-loss nemesis; the
	// clients deliberately keep using a host while it goes down). NodeHost.Close
	// sets nh.engine to nil while NodeHost.propose / readIndex, past their
	// "closed" test, still use it: calling the API concurrently with Close is an
	// operator error outside the properties (DESIGN.md observation). The
	// operation is recorded as one without an answer.
	for _, nh := range nhs {
		if _, closing := c.closing.Load(nh); closing && strings.Contains(msg, "nil pointer dereference") {
			c.note("client_panic_on_a_host_being_closed")
			return
		}
	}
	c.violation("a call of the NodeHost API panicked on the client's goroutine: %s [%s]", msg, strings.Join(where, " <- "))
}

func (c *cluster) note(k string) {
	c.noteMu.Lock()
	c.notes[k]++
	c.noteMu.Unlock()
}

func (c *cluster) raftConfig(replica uint64, nonVoting bool) config.Config {
	rc := config.Config{
		ReplicaID:          replica,
		ShardID:            shardID,
		ElectionRTT:        10,
		HeartbeatRTT:       1,
		CheckQuorum:        c.cfg.checkQuorum,
		SnapshotEntries:    c.cfg.snapEvery,
		CompactionOverhead: 5,
		IsNonVoting:        nonVoting,
		Quiesce:            c.cfg.quiesce,
		PreVote:            c.cfg.preVote,
		// NodeHost.RequestCompaction only has work to do when compaction is not automatic
		DisableAutoCompactions: c.cfg.snapshotOps,
	}
	if c.cfg.entrySnappy {
		rc.EntryCompressionType = config.Snappy
	}
	if c.cfg.snapSnappy {
		rc.SnapshotCompressionType = config.Snappy
	}
	if c.cfg.quiesce {
		// quiesce is entered after 10 election time-outs without activity
		rc.ElectionRTT = 6
	}
	return rc
}

// startReplica starts the shard's replica on nh with the kind of state machine of this history.
func (c *cluster) startReplica(nh *dragonboat.NodeHost, members map[uint64]dragonboat.Target, join bool, rc config.Config) error {
	if rc.IsWitness {
		rc.SnapshotEntries = 0
		rec := c.rec
		return nh.StartReplica(members, join, func(uint64, uint64) sm.IStateMachine { return witnessSM{rec} }, rc)
	}
	if c.cfg.onDisk {
		return nh.StartOnDiskReplica(members, join, c.rec.onDiskFactory(), rc)
	}
	if c.cfg.concurrent {
		return nh.StartConcurrentReplica(members, join, c.rec.concurrentFactory(), rc)
	}
	return nh.StartReplica(members, join, c.rec.factory(), rc)
}

// startShard2 starts the replica of the second shard on an initial voter's host
// (regular state machine, same raft settings).
func (c *cluster) startShard2(nh *dragonboat.NodeHost, i int, first bool) error {
	if !c.cfg.twoShards {
		return nil
	}
	in := false
	members := map[uint64]dragonboat.Target{}
	for _, v := range c.cfg.initialVoters() {
		members[uint64(v+1)] = c.addrs[v]
		if v == i {
			in = true
		}
	}
	if !in {
		return nil
	}
	if !first {
		members = nil
	}
	rc := c.raftConfig(uint64(i+1), false)
	rc.ShardID = shardID2
	rc.SnapshotEntries = 30
	rc.DisableAutoCompactions = false
	return nh.StartReplica(members, false, c.rec2.factory(), rc)
}

// shard2Loop loads the second shard: writes and linearizable reads through the
// initial voters' hosts. The second shard is not a history of its own; its apply
// streams are compared and it shares the workers of the engine with the first.
func (c *cluster) shard2Loop(stop <-chan struct{}, wg *sync.WaitGroup) {
	defer wg.Done()
	r := subRand(c.cfg.seed, 222)
	voters := c.cfg.initialVoters()
	var n uint64
	for {
		select {
		case <-stop:
			return
		default:
		}
		i := voters[r.Intn(len(voters))]
		nh := c.get(i)
		if nh == nil || atomic.LoadInt32(&c.paused) != 0 {
			time.Sleep(2 * time.Millisecond)
			continue
		}
		func() {
			defer func() {
				if p := recover(); p != nil {
					c.clientPanic(p, nh)
				}
			}()
			ctx, cancel := context.WithTimeout(context.Background(), 200*time.Millisecond)
			defer cancel()
			if r.Bool() {
				n++
				_, err := nh.SyncPropose(ctx, nh.GetNoOPSession(shardID2), encodeCmd(shard2Tag|n, uint64(1+r.Intn(3)), r.U64(), 0, 0))
				if err == nil {
					c.note("shard2_writes")
				}
			} else if _, err := nh.SyncRead(ctx, shardID2, uint64(1+r.Intn(3))); err == nil {
				c.note("shard2_reads")
			}
		}()
		time.Sleep(time.Duration(r.Intn(6000)) * time.Microsecond)
	}
}

func (c *cluster) get(i int) *dragonboat.NodeHost {
	c.mu.RLock()
	defer c.mu.RUnlock()
	return c.hosts[i]
}

func (c *cluster) set(i int, nh *dragonboat.NodeHost) {
	c.mu.Lock()
	c.hosts[i] = nh
	c.mu.Unlock()
}

var quietOnce sync.Once

// quietLogger discards the library's log text; Panicf keeps its meaning.
type quietLogger struct{}

func (quietLogger) SetLevel(logger.LogLevel)                  {}
func (quietLogger) Debugf(format string, args ...interface{}) {}
func (quietLogger) Infof(format string, args ...interface{}) {
	// the only trace of a shard going quiet that is visible from outside
	if strings.Contains(format, "entered quiesce") {
		atomic.AddInt64(&quiesceEntered, 1)
	}
}

var quiesceEntered int64

func (quietLogger) Warningf(format string, args ...interface{}) {}
func (quietLogger) Errorf(format string, args ...interface{})   {}
func (quietLogger) Panicf(format string, args ...interface{}) {
	panic(fmt.Sprintf(format, args...))
}

func quietLogs() {
	quietOnce.Do(func() {
		logger.SetLoggerFactory(func(string) logger.ILogger { return quietLogger{} })
	})
}

func startCluster(cfg histCfg) (*cluster, error) {
	quietLogs()
	n := maxHosts
	c := &cluster{cfg: cfg, net: newNetwork(subRand(cfg.seed, 99).U64()), rec: newRecorder(),
		hosts: make([]*dragonboat.NodeHost, n), role: make([]int, n), codes: dragonboat.VerifC01Codes(), notes: map[string]int{}}
	if cfg.slowReplica != 0 {
		c.rec.slow = map[uint64]time.Duration{cfg.slowReplica: cfg.slowDwell}
	}
	c.rec2 = newRecorder()
	c.rec2.shard2 = true
	members := map[uint64]dragonboat.Target{}
	for i := 0; i < n; i++ {
		addr := fmt.Sprintf("%s-n%d:1", cfg.name, i+1)
		c.addrs = append(c.addrs, addr)
		for _, v := range cfg.initialVoters() {
			if v == i {
				members[uint64(i+1)] = addr
			}
		}
		ex := config.GetDefaultExpertConfig()
		ex.FS = c01hooks.NewMemFS()
		if cfg.powerLoss {
			sf := c01hooks.NewStrictFS()
			c.strict = append(c.strict, sf)
			ex.FS = sf.FS()
		} else {
			c.strict = append(c.strict, nil)
		}
		c.fss = append(c.fss, ex.FS)
		ex.TransportFactory = &netFactory{net: c.net}
		ex.Engine = config.EngineConfig{ExecShards: 2, CommitShards: 2, ApplyShards: 2, SnapshotShards: 2, CloseShards: 2}
		ex.LogDB.Shards = 2
		c.nhcs = append(c.nhcs, config.NodeHostConfig{
			NodeHostDir:    fmt.Sprintf("/c01/%s/n%d", cfg.name, i+1),
			RTTMillisecond: 5,
			RaftAddress:    addr,
			NotifyCommit:   cfg.notifyCommit,
			Expert:         ex,
		})
	}
	for _, i := range cfg.initialVoters() {
		nh, err := dragonboat.NewNodeHost(c.nhcs[i])
		if err != nil {
			return nil, fmt.Errorf("NewNodeHost %d: %w", i+1, err)
		}
		c.hosts[i] = nh
		c.role[i] = roleVoter
		if err := c.startReplica(nh, members, false, c.raftConfig(uint64(i+1), false)); err != nil {
			return nil, fmt.Errorf("StartReplica %d: %w", i+1, err)
		}
	}
	for _, i := range cfg.initialVoters() {
		if err := c.startShard2(c.hosts[i], i, true); err != nil {
			return nil, fmt.Errorf("StartReplica of the second shard on host %d: %w", i+1, err)
		}
	}
	// wait for a leader
	deadline := time.Now().Add(10 * time.Second)
	for {
		if _, _, ok, _ := c.hosts[0].GetLeaderID(shardID); ok {
			break
		}
		if time.Now().After(deadline) {
			return nil, errors.New("no leader elected")
		}
		time.Sleep(5 * time.Millisecond)
	}
	if cfg.nonVoting && !cfg.lateJoin {
		if !c.join(3, roleNonVoting, 20) {
			return nil, errors.New("the non-voting replica could not be added")
		}
	}
	return c, nil
}

// admin runs f against live member hosts (round robin) until it succeeds or about
// tries/4 seconds have passed (a refusal while there is no leader returns at once).
func (c *cluster) admin(tries int, timeout time.Duration, f func(ctx context.Context, nh *dragonboat.NodeHost) error) error {
	var err error = errors.New("no live member host")
	by := time.Now().Add(time.Duration(tries) * 250 * time.Millisecond)
	for try := 0; time.Now().Before(by); try++ {
		i := try % maxHosts
		nh := c.get(i)
		if r := c.roleOf(i); nh == nil || (r != roleVoter && r != roleNonVoting) || int(atomic.LoadInt32(&c.avoid)) == i+1 {
			continue
		}
		ctx, cancel := context.WithTimeout(context.Background(), timeout)
		err = f(ctx, nh)
		cancel()
		if err == nil {
			return nil
		}
		time.Sleep(10 * time.Millisecond)
	}
	return err
}

// membershipNow reads the shard's membership through the API (linearizable).
func (c *cluster) membershipNow(tries int) *dragonboat.Membership {
	var m *dragonboat.Membership
	_ = c.admin(tries, time.Second, func(ctx context.Context, nh *dragonboat.NodeHost) error {
		var err error
		m, err = nh.SyncGetShardMembership(ctx, shardID)
		return err
	})
	return m
}

// join adds replica i+1 with the given role through the membership API, checks
// the membership and starts the replica on a new NodeHost (join = true).
func (c *cluster) join(i int, role int, tries int) bool {
	id := uint64(i + 1)
	_ = c.admin(tries, time.Second, func(ctx context.Context, nh *dragonboat.NodeHost) error {
		switch role {
		case roleVoter:
			return nh.SyncRequestAddReplica(ctx, shardID, id, c.addrs[i], 0)
		case roleNonVoting:
			return nh.SyncRequestAddNonVoting(ctx, shardID, id, c.addrs[i], 0)
		default:
			return nh.SyncRequestAddWitness(ctx, shardID, id, c.addrs[i], 0)
		}
	})
	// the request may have timed out and still have been applied (or the other way
	// round): the membership decides
	m := c.membershipNow(tries)
	if m == nil {
		c.note("join_unknown")
		return false
	}
	var in bool
	switch role {
	case roleVoter:
		_, in = m.Nodes[id]
	case roleNonVoting:
		_, in = m.NonVotings[id]
	default:
		_, in = m.Witnesses[id]
	}
	if !in {
		c.note("join_not_added")
		return false
	}
	if c.cfg.onDisk && c.cfg.lateJoin {
		// the joiner needs a streamed snapshot; its snapshot port is not reachable
		// for the first moments: the leader's first attempt to connect fails, the
		// circuit breaker for the address opens, a retried stream job finds no sink,
		// and the leader has to keep retrying until the stream gets through
		c.net.refuseSnapshotsTo(c.addrs[i], 1)
	}
	nh, err := dragonboat.NewNodeHost(c.nhcs[i])
	if err != nil {
		c.note("join_nodehost_failed")
		return false
	}
	rc := c.raftConfig(id, role == roleNonVoting)
	rc.IsWitness = role == roleWitness
	if err := c.startReplica(nh, nil, true, rc); err != nil {
		c.note("join_start_failed:" + err.Error())
		nh.Close()
		return false
	}
	c.mu.Lock()
	c.hosts[i] = nh
	c.role[i] = role
	c.mu.Unlock()
	c.note(fmt.Sprintf("joined_%d", id))
	return true
}

// removeVoter removes one of the initial voters through the API. The replica is
// muted first (it hears the others, nothing it sends arrives): it cannot be or
// become the leader that commits its own removal (findings/known.txt:
// removed-replica-ahead-of-remaining-voters), but it learns of the removal,
// applies it and stops.
func (c *cluster) removeVoter(x int) {
	id := uint64(x + 1)
	c.net.heal()
	for j := range c.addrs {
		if j != x {
			c.net.block(c.addrs[x], c.addrs[j])
		}
	}
	// requests go to the other hosts
	saved := c.roleOf(x)
	c.setRole(x, roleRemoved)
	_ = c.admin(12, time.Second, func(ctx context.Context, nh *dragonboat.NodeHost) error {
		return nh.SyncRequestDeleteReplica(ctx, shardID, id, 0)
	})
	m := c.membershipNow(12)
	removed := false
	if m != nil {
		_, removed = m.Removed[id]
	}
	if m == nil {
		// not known: nothing is expected of this replica any more
		c.note("remove_unknown")
	} else if !removed {
		c.setRole(x, saved)
		c.note("remove_not_done")
	} else {
		c.note(fmt.Sprintf("removed_%d", id))
	}
	c.net.heal()
}

// neverAnswered is how long after its deadline a request may stay without any
// result before that is reported (the deadline is counted in ticks of the
// NodeHost, which run late on a loaded machine).
const neverAnswered = 15 * time.Second

// wait waits for the final result of an accepted request. With NotifyCommit a
// Committed notification may come first: committed reports it. A request that is
// never answered is reported and treated as timed out.
func (c *cluster) wait(what string, rs *dragonboat.RequestState, timeout time.Duration) (r dragonboat.RequestResult, committed bool, lost bool) {
	t := time.NewTimer(timeout + neverAnswered)
	defer t.Stop()
	for {
		select {
		case r = <-rs.ResultC():
			if r.Committed() && !r.Completed() { // Committed() is also true of Completed
				if committed {
					c.violation("%s: two Committed notifications for one request", what)
				}
				committed = true
				continue
			}
			if committed && (r.Dropped() || r.Aborted()) {
				c.violation("%s: request ended %d after its Committed notification", what, dragonboat.VerifC01ResultCode(r))
			}
			if c.cfg.notifyCommit && r.Completed() && !committed && strings.HasPrefix(what, "proposal") {
				c.violation("%s: Completed without a Committed notification before it (NotifyCommit)", what)
			}
			return r, committed, false
		case <-t.C:
			c.violation("%s: no result %v after the deadline of the request", what, neverAnswered)
			return dragonboat.RequestResult{}, committed, true
		}
	}
}

func (c *cluster) tick() uint64 { return atomic.AddUint64(&c.stamp, 1) }

func (c *cluster) errCode(err error) uint64 {
	switch {
	case errors.Is(err, dragonboat.ErrTimeout), errors.Is(err, dragonboat.ErrCanceled):
		return c.codes["timeout"]
	case errors.Is(err, dragonboat.ErrShardClosed):
		return c.codes["terminated"]
	case errors.Is(err, dragonboat.ErrShardNotReady):
		return c.codes["dropped"]
	case errors.Is(err, dragonboat.ErrRejected):
		return c.codes["rejected"]
	case errors.Is(err, dragonboat.ErrAborted):
		return c.codes["aborted"]
	}
	return codeRefused
}

// doWrite / doRead perform one client operation through one of two API paths
// and record it. The invocation stamp is taken before the API is entered and the
// response stamp after it returned.
//
// With a registered client session (cs != nil and not NoOP) a proposal that ends
// without Completed is proposed again with the same series id, on whatever host
// pick returns: one operation of the history, to be applied at most once.
func (c *cluster) doWrite(clientNo, host int, nh *dragonboat.NodeHost, key, val uint64, async bool, timeout time.Duration,
	cs *client.Session, pick func() (int, *dragonboat.NodeHost)) *opRec {
	op := &opRec{id: atomic.AddUint64(&c.nextID, 1), client: clientNo, host: host, kind: 'W', key: key, val: val}
	session := cs != nil
	var cid, series uint64
	if session {
		cid, series = cs.ClientID, cs.SeriesID
	} else {
		cs = nh.GetNoOPSession(shardID)
	}
	defer c.record(op)()
	take := func(res sm.Result) {
		op.code = c.codes["completed"]
		op.rver = res.Value
		if len(res.Data) == 8 {
			op.rval = binary.BigEndian.Uint64(res.Data)
		} else {
			op.rval = ^uint64(0)
		}
	}
	maxAttempts := 1
	if session {
		maxAttempts = 3
	}
	uncertain := false
	op.inv = c.tick()
	for {
		op.attempts++
		cmd := encodeCmd(op.id, key, val, cid, series)
		what := fmt.Sprintf("proposal %d", op.id)
		if async {
			op.api = "Propose"
			var rs *dragonboat.RequestState
			var err error
			if nu, e := nh.GetNodeUser(shardID); e == nil && op.id%3 == 0 {
				op.api = "INodeUser.Propose"
				rs, err = nu.Propose(cs, cmd, timeout)
			} else {
				rs, err = nh.Propose(cs, cmd, timeout)
			}
			// "the input byte slice can be reused for other purposes immediately after the
			// return of this method" (nodehost.go): reuse it
			for i := range cmd {
				cmd[i] = 0xEE
			}
			if err != nil {
				op.code = c.errCode(err)
				if op.code == c.codes["timeout"] {
					op.code = codeRefused
				}
			} else {
				r, committed, lost := c.wait(what, rs, timeout)
				op.committed = op.committed || committed
				if committed {
					c.note("committed_notification")
				}
				op.code = dragonboat.VerifC01ResultCode(r)
				if lost {
					op.code = c.codes["timeout"]
				} else if r.Completed() {
					take(r.GetResult())
				}
				rs.Release()
			}
		} else {
			op.api = "SyncPropose"
			ctx, cancel := context.WithTimeout(context.Background(), timeout)
			res, err := nh.SyncPropose(ctx, cs, cmd)
			cancel()
			if err != nil {
				op.code = c.errCode(err)
			} else {
				take(res)
			}
		}
		if op.code == c.codes["completed"] {
			break
		}
		if op.code == c.codes["timeout"] || op.code == c.codes["terminated"] || op.code == c.codes["dropped"] {
			uncertain = true
		} else if uncertain {
			// refused or rejected now, but an earlier attempt may have taken effect
			op.code = c.codes["timeout"]
		}
		if op.attempts >= maxAttempts || pick == nil || op.code == c.codes["rejected"] {
			break
		}
		var h int
		if h, nh = pick(); nh == nil {
			break
		}
		op.host = h
		c.note("session_retry")
		if timeout < 100*time.Millisecond {
			timeout = 250 * time.Millisecond // the impatient client waits longer the next time
		}
	}
	op.resp = c.tick()
	if session {
		op.api += "+session"
		if op.code == c.codes["completed"] {
			cs.ProposalCompleted()
		}
	}
	return op
}

// record registers op before the API is entered; the returned function closes an
// operation that was abandoned by a panic inside the library as "no answer" (it
// may or may not take effect), so that its entry is never taken for a fabricated one.
func (c *cluster) record(op *opRec) func() {
	c.opsMu.Lock()
	c.ops = append(c.ops, op)
	c.opsMu.Unlock()
	return func() {
		if op.inv == 0 {
			op.inv = c.tick()
		}
		if op.resp == 0 {
			op.code = c.codes["timeout"]
			op.resp = c.tick()
		}
	}
}

func (c *cluster) doRead(client, host int, nh *dragonboat.NodeHost, key uint64, async bool, timeout time.Duration) *opRec {
	op := &opRec{id: atomic.AddUint64(&c.nextID, 1), client: client, host: host, kind: 'R', key: key}
	take := func(v interface{}, err error) {
		if err != nil {
			op.code = c.errCode(err)
			return
		}
		lr, ok := v.(lookupResult)
		if !ok {
			op.code = codeRefused
			return
		}
		op.code = c.codes["completed"]
		op.rval, op.rver, op.obs = lr.val, lr.ver, lr.count
	}
	defer c.record(op)()
	if async {
		op.api = "ReadIndex+ReadLocalNode"
		op.inv = c.tick()
		var rs *dragonboat.RequestState
		var err error
		if nu, e := nh.GetNodeUser(shardID); e == nil && op.id%3 == 0 {
			op.api = "INodeUser.ReadIndex+ReadLocalNode"
			rs, err = nu.ReadIndex(timeout)
		} else {
			rs, err = nh.ReadIndex(shardID, timeout)
		}
		if err != nil {
			op.code = c.errCode(err)
			if op.code == c.codes["timeout"] {
				op.code = codeRefused
			}
		} else {
			r, _, lost := c.wait(fmt.Sprintf("read %d", op.id), rs, timeout)
			if lost {
				op.code = c.codes["timeout"]
			} else if r.Completed() {
				if op.id%4 == 1 {
					// the two steps of the API are not always taken back to back
					time.Sleep(time.Duration(op.id%13) * time.Millisecond)
				}
				take(nh.ReadLocalNode(rs, key))
			} else {
				op.code = dragonboat.VerifC01ResultCode(r)
			}
			rs.Release()
		}
		op.resp = c.tick()
	} else {
		op.api = "SyncRead"
		ctx, cancel := context.WithTimeout(context.Background(), timeout)
		op.inv = c.tick()
		take(nh.SyncRead(ctx, shardID, key))
		op.resp = c.tick()
		cancel()
	}
	return op
}

// pickHost returns a live host that runs (or ran) a full replica of the shard.
func (c *cluster) pickHost(r *vh.Rand) (int, *dragonboat.NodeHost) {
	for try := 0; try < 4*maxHosts; try++ {
		i := r.Intn(maxHosts)
		if nh := c.get(i); nh != nil && c.roleOf(i) != roleWitness {
			return i, nh
		}
	}
	return 0, nil
}

func (c *cluster) clientLoop(id int, stop <-chan struct{}, wg *sync.WaitGroup) {
	defer wg.Done()
	r := subRand(c.cfg.seed, 1000+uint64(id))
	// every other client uses a registered session when the history has sessions
	useSession := c.cfg.sessions && id%2 == 0
	var cs *client.Session
	pick := func() (int, *dragonboat.NodeHost) { return c.pickHost(r) }
	defer func() {
		if cs != nil {
			if _, nh := c.pickHost(r); nh != nil {
				ctx, cancel := context.WithTimeout(context.Background(), 300*time.Millisecond)
				if nh.SyncCloseSession(ctx, cs) == nil {
					c.note("session_closed")
				}
				cancel()
			}
		}
	}()
	for {
		select {
		case <-stop:
			return
		default:
		}
		if atomic.LoadInt32(&c.paused) != 0 {
			time.Sleep(2 * time.Millisecond)
			continue
		}
		host, nh := c.pickHost(r)
		if nh == nil {
			time.Sleep(time.Millisecond)
			continue
		}
		key := uint64(1 + r.Intn(c.cfg.keys))
		timeout := time.Duration(100+r.Intn(300)) * time.Millisecond
		func() {
			// a NodeHost being closed under a client must not panic inside the library
			defer func() {
				if p := recover(); p != nil {
					c.clientPanic(p, nh)
					cs = nil
				}
			}()
			if r.Chance(1, 2) {
				if useSession && cs == nil {
					ctx, cancel := context.WithTimeout(context.Background(), 300*time.Millisecond)
					if s, err := nh.SyncGetSession(ctx, shardID); err == nil {
						cs = s
						c.note("session_registered")
					}
					cancel()
				}
				if cs != nil && r.Bool() {
					// an impatient client: the first attempt often times out although it
					// is applied, the retry of the same series must not be applied again
					timeout = time.Duration(5+r.Intn(11)) * time.Millisecond
				}
				op := c.doWrite(id, host, nh, key, r.U64()>>1|1, r.Bool(), timeout, cs, pick)
				if cs != nil && op.code != c.codes["completed"] {
					// the series may still be applied: this session cannot be used again
					cs = nil
				}
			} else {
				c.doRead(id, host, nh, key, r.Bool(), timeout)
			}
		}()
		// pace the clients: a history of a few hundred operations spread over the
		// whole fault schedule
		time.Sleep(time.Duration(r.Intn(2*c.cfg.paceMs*1000+1)) * time.Microsecond)
	}
}

// burstLoop is the 'read burst' client of the histories with a slow replica: every
// now and then several goroutines issue linearizable reads back to back on the
// slow replica (many reads within one tick of the NodeHost, while earlier ones
// are still waiting for the replica to apply up to their read index) and at the
// same time other goroutines complete writes back to back through another host.
// A read must not be answered from a read index that was taken before it was invoked.
func (c *cluster) burstLoop(stop <-chan struct{}, wg *sync.WaitGroup) {
	defer wg.Done()
	r := subRand(c.cfg.seed, 555)
	slow := int(c.cfg.slowReplica) - 1
	for {
		select {
		case <-stop:
			return
		case <-time.After(time.Duration(70+r.Intn(100)) * time.Millisecond):
		}
		if atomic.LoadInt32(&c.paused) != 0 {
			continue
		}
		rnh := c.get(slow)
		if rnh == nil || c.roleOf(slow) != roleVoter {
			continue
		}
		// writers go through another voter
		w := -1
		for k := 0; k < 3; k++ {
			if i := (slow + 1 + k + r.Intn(2)) % 3; i != slow && c.get(i) != nil && c.roleOf(i) == roleVoter {
				w = i
				break
			}
		}
		if w < 0 {
			continue
		}
		wnh := c.get(w)
		if wnh == nil {
			continue
		}
		c.note("read_burst")
		var bw sync.WaitGroup
		run := func(f func(k int, rr *vh.Rand)) {
			rr := vh.NewRand(r.U64())
			bw.Add(1)
			go func() {
				defer bw.Done()
				defer func() {
					if p := recover(); p != nil {
						c.clientPanic(p, wnh, rnh)
					}
				}()
				for k := 0; k < 8; k++ {
					f(k, rr)
					// spread the invocations over the tick: a read invoked while an
					// earlier one is pending and after a write completed in between
					time.Sleep(time.Duration(rr.Intn(2500)) * time.Microsecond)
				}
			}()
		}
		for g := 0; g < 3; g++ {
			run(func(k int, rr *vh.Rand) {
				c.doWrite(90, w, wnh, uint64(1+rr.Intn(c.cfg.keys)), rr.U64()>>1|1, false, 300*time.Millisecond, nil, nil)
			})
		}
		for g := 0; g < 4; g++ {
			run(func(k int, rr *vh.Rand) {
				c.doRead(91, slow, rnh, uint64(1+rr.Intn(c.cfg.keys)), rr.Bool(), 300*time.Millisecond)
			})
		}
		bw.Wait()
	}
}

func (c *cluster) restartHost(i int, r *vh.Rand) {
	nh := c.get(i)
	if nh == nil || c.roleOf(i) != roleVoter {
		return
	}
	// the clients keep using the host while its shard is stopped and the host is
	// closed: requests in flight end Terminated, later ones are refused. A few
	// proposals and reads are started right before, so that some are in flight.
	var bw sync.WaitGroup
	for k := 0; k < 4; k++ {
		bw.Add(1)
		key, val, write := uint64(1+r.Intn(c.cfg.keys)), r.U64()>>1|1, k%2 == 0
		go func() {
			defer bw.Done()
			defer func() {
				if p := recover(); p != nil {
					c.clientPanic(p, nh)
				}
			}()
			if write {
				c.doWrite(0, i, nh, key, val, true, 300*time.Millisecond, nil, nil)
			} else {
				c.doRead(0, i, nh, key, true, 300*time.Millisecond)
			}
		}()
	}
	defer bw.Wait()
	time.Sleep(time.Duration(r.Intn(1500)) * time.Microsecond)
	c.closing.Store(nh, true)
	if r.Bool() {
		_ = nh.StopShard(shardID)
		time.Sleep(time.Duration(r.Intn(20)) * time.Millisecond)
	}
	nh.Close()
	c.set(i, nil)
	c.note("restart")
	time.Sleep(time.Duration(20+r.Intn(150)) * time.Millisecond)
	nh2, err := dragonboat.NewNodeHost(c.nhcs[i])
	if err != nil {
		c.note("restart_failed")
		return
	}
	if err := c.startReplica(nh2, nil, false, c.raftConfig(uint64(i+1), false)); err != nil {
		c.note("restart_start_failed:" + err.Error())
		nh2.Close()
		return
	}
	if err := c.startShard2(nh2, i, false); err != nil {
		c.note("restart_start_shard2_failed:" + err.Error())
	}
	c.set(i, nh2)
}

// powerLoss: the hosts lose power at the same instant, while clients use them.
// Nothing a host sends leaves it from that instant on and nothing it writes
// becomes durable; what was written but not synced before is gone when it comes
// back (strict in-memory file system; an on-disk state machine is back at its
// last Sync). The NodeHost object is closed only to get rid of its goroutines.
func (c *cluster) powerLoss(hosts []int, r *vh.Rand) {
	var nhs []*dragonboat.NodeHost
	var live []int
	for _, i := range hosts {
		if nh := c.get(i); nh != nil && c.strict[i] != nil && (c.roleOf(i) == roleVoter || c.roleOf(i) == roleNonVoting) {
			nhs = append(nhs, nh)
			live = append(live, i)
		}
	}
	if len(live) == 0 {
		return
	}
	c.net.heal()
	for _, i := range live {
		for j := range c.addrs {
			if j != i {
				c.net.block(c.addrs[i], c.addrs[j])
				c.net.block(c.addrs[j], c.addrs[i])
			}
		}
	}
	for _, i := range live {
		c.strict[i].Freeze()
	}
	for k, i := range live {
		c.closing.Store(nhs[k], true)
		nhs[k].Close()
		c.set(i, nil)
		c.strict[i].Crash()
		c.rec.powerLoss(uint64(i + 1))
		c.note("power_loss")
	}
	time.Sleep(time.Duration(20+r.Intn(120)) * time.Millisecond)
	for _, i := range live {
		nh2, err := dragonboat.NewNodeHost(c.nhcs[i])
		if err != nil {
			c.violation("host %d did not come back after a power loss: NewNodeHost: %v", i+1, err)
			continue
		}
		if err := c.startReplica(nh2, nil, false, c.raftConfig(uint64(i+1), c.roleOf(i) == roleNonVoting)); err != nil {
			c.violation("host %d did not come back after a power loss: StartReplica: %v", i+1, err)
			nh2.Close()
			continue
		}
		if err := c.startShard2(nh2, i, false); err != nil {
			c.violation("host %d did not come back after a power loss: second shard: %v", i+1, err)
		}
		c.set(i, nh2)
	}
	c.net.heal()
}

// leader returns the replica id some live host currently believes to lead (0 = unknown).
func (c *cluster) leader() uint64 {
	for i := range c.hosts {
		if nh := c.get(i); nh != nil {
			if lid, _, ok, _ := nh.GetLeaderID(shardID); ok {
				return lid
			}
		}
	}
	return 0
}

// snapshotOps exercises RequestSnapshot with its options, an exported snapshot
// and RequestCompaction on one live replica.
func (c *cluster) snapshotOps(r *vh.Rand, round int) {
	i, nh := c.pickHost(r)
	if nh == nil || (c.roleOf(i) != roleVoter && c.roleOf(i) != roleNonVoting) {
		return
	}
	// Only on a replica that has applied something in this incarnation: a replica
	// started with join = true (or restarted) has an empty membership until it has
	// applied its first entries or recovered a snapshot, and an exported snapshot
	// requested then makes the library panic ("empty membership", see
	// demoExportOnJoiner). A linearizable read served by this host shows it is past that.
	ctx, cancel := context.WithTimeout(context.Background(), 500*time.Millisecond)
	_, err := nh.SyncGetShardMembership(ctx, shardID)
	cancel()
	if err != nil {
		c.note("snapshot_skipped_replica_not_ready")
		return
	}
	req := func(opt dragonboat.SnapshotOption, what string) uint64 {
		ctx, cancel := context.WithTimeout(context.Background(), time.Second)
		defer cancel()
		idx, err := nh.SyncRequestSnapshot(ctx, shardID, opt)
		if err == nil {
			c.note("snapshot_" + what)
		} else {
			c.note("snapshot_" + what + "_err")
		}
		return idx
	}
	idx := req(dragonboat.SnapshotOption{OverrideCompactionOverhead: true, CompactionOverhead: uint64(1 + r.Intn(4))}, "overhead")
	time.Sleep(40 * time.Millisecond) // a snapshot at the index of the previous one is refused
	switch round % 3 {
	case 0:
		dir := fmt.Sprintf("/c01/%s/export%d-%d", c.cfg.name, i+1, round)
		if err := c.fss[i].MkdirAll(dir, 0755); err == nil {
			req(dragonboat.SnapshotOption{Exported: true, ExportPath: dir}, "exported")
		}
	case 1:
		if idx > 4 {
			req(dragonboat.SnapshotOption{OverrideCompactionOverhead: true, CompactionIndex: idx - 3}, "index")
		}
	default:
		req(dragonboat.DefaultSnapshotOption, "default")
	}
	if op, err := nh.RequestCompaction(shardID, uint64(i+1)); err == nil {
		select {
		case <-op.ResultC():
			c.note("compaction_done")
		case <-time.After(2 * time.Second):
			c.note("compaction_slow")
		}
	} else {
		c.note("compaction_rejected")
	}
}

// queryLog asks one replica for a range of its committed raft log.
func (c *cluster) queryLog(r *vh.Rand) {
	i, nh := c.pickHost(r)
	if nh == nil {
		return
	}
	var first uint64 = 1
	if lr, err := nh.GetLogReader(shardID); err == nil {
		lo, hi := lr.GetRange()
		if hi > lo {
			first = lo + uint64(r.Intn(int(hi-lo)))
		} else {
			first = lo
		}
	}
	if first == 0 {
		first = 1
	}
	rs, err := nh.QueryRaftLog(shardID, first, first+40, 1<<20)
	if err != nil {
		c.note("querylog_refused")
		return
	}
	select {
	case res := <-rs.AppliedC():
		if res.Completed() {
			ents, rg := res.RaftLogs()
			c.note("querylog_completed")
			c.noteMu.Lock()
			for k, e := range ents {
				if e.Index != first+uint64(k) {
					c.mon = append(c.mon, fmt.Sprintf("QueryRaftLog from %d returned index %d at position %d", first, e.Index, k))
					break
				}
				if e.Type == pb.EncodedEntry || e.Type == pb.ApplicationEntry {
					if cmd, err := c01hooks.Payload(e); err == nil && len(cmd) >= cmdLen {
						if !cmdOK(cmd) {
							c.mon = append(c.mon, fmt.Sprintf("QueryRaftLog on host %d returned a command at index %d that no client proposed", i+1, e.Index))
						}
						c.qlog = append(c.qlog, qentry{host: i, index: e.Index, id: binary.BigEndian.Uint64(cmd)})
					}
				}
			}
			c.noteMu.Unlock()
			_ = rg
		} else {
			c.note(fmt.Sprintf("querylog_code_%d", dragonboat.VerifC01ResultCode(res)))
		}
		rs.Release()
	case <-time.After(neverAnswered):
		c.violation("QueryRaftLog on host %d: no result", i+1)
	}
}

// idle pauses clients and faults for a while so that a shard with Config.Quiesce
// goes quiet and is woken up again by the next request.
func (c *cluster) idle() {
	c.net.heal()
	atomic.StoreInt32(&c.paused, 1)
	time.Sleep(800 * time.Millisecond)
	atomic.StoreInt32(&c.paused, 0)
	c.note("idle_period")
}

// step is one scheduled action of the nemesis (at a fraction of the duration).
type step struct {
	at   float64
	what string
}

func (c *cluster) schedule() []step {
	var st []step
	cfg := c.cfg
	if cfg.restart {
		st = append(st, step{0.33, "restart"})
	}
	if cfg.powerLoss {
		st = append(st, step{0.52, "powerloss"}, step{0.78, "powerloss"})
	}
	if cfg.nonVoting && cfg.lateJoin {
		st = append(st, step{0.40, "join4"})
	}
	if cfg.membership {
		st = append(st, step{0.18, "join5"}, step{0.45, "join6"}, step{0.62, "remove"})
	}
	if cfg.snapshotOps {
		st = append(st, step{0.25, "snapshot"}, step{0.55, "snapshot"}, step{0.80, "snapshot"})
	}
	if cfg.queryLog {
		st = append(st, step{0.30, "querylog"}, step{0.50, "querylog"}, step{0.70, "querylog"}, step{0.90, "querylog"})
	}
	if cfg.quiesce {
		st = append(st, step{0.42, "idle"})
	}
	sort.SliceStable(st, func(i, j int) bool { return st[i].at < st[j].at })
	return st
}

func (c *cluster) nemesis(stop <-chan struct{}, wg *sync.WaitGroup) {
	defer wg.Done()
	r := subRand(c.cfg.seed, 77)
	sched := c.schedule()
	start := time.Now()
	round := 0
	for {
		select {
		case <-stop:
			c.net.heal()
			return
		case <-time.After(time.Duration(80+r.Intn(250)) * time.Millisecond):
		}
		if !c.cfg.faults {
			continue
		}
		if len(sched) > 0 && float64(time.Since(start)) > sched[0].at*float64(c.cfg.duration) {
			what := sched[0].what
			sched = sched[1:]
			switch what {
			case "restart":
				c.restartHost(c.someVoter(r), r)
			case "powerloss":
				// a voter; with the non-voting host at the same instant every other time
				hs := []int{c.someVoter(r)}
				if r.Bool() {
					hs = append(hs, 3)
				}
				c.powerLoss(hs, r)
			case "join4":
				c.net.heal()
				c.join(3, roleNonVoting, 12)
			case "join5":
				c.net.heal()
				c.join(4, roleVoter, 12)
			case "join6":
				c.net.heal()
				c.join(5, roleWitness, 12)
			case "remove":
				// only with the fourth voter in place: three voters remain
				if c.roleOf(4) == roleVoter && c.get(4) != nil {
					x := r.Intn(3)
					if c.get(x) != nil && c.roleOf(x) == roleVoter {
						c.removeVoter(x)
					}
				}
			case "snapshot":
				round++
				c.snapshotOps(r, round)
			case "querylog":
				c.queryLog(r)
			case "idle":
				c.idle()
			}
			continue
		}
		switch r.Intn(10) {
		case 8, 9: // isolate the current leader (both directions)
			if lid := c.leader(); lid > 0 {
				c.net.heal()
				v := int(lid - 1)
				for j := range c.addrs {
					if j != v {
						c.net.block(c.addrs[v], c.addrs[j])
						c.net.block(c.addrs[j], c.addrs[v])
					}
				}
				c.note("partition_leader")
			}
		case 0, 1:
			c.net.heal()
			c.note("heal")
		case 2: // symmetric partition: isolate one host
			c.net.heal()
			v := c.someHost(r)
			for j := range c.addrs {
				if j != v {
					c.net.block(c.addrs[v], c.addrs[j])
					c.net.block(c.addrs[j], c.addrs[v])
				}
			}
			c.note("partition_sym")
		case 3: // asymmetric: one or two directed links
			c.net.heal()
			for k := 0; k < 1+r.Intn(2); k++ {
				a, b := c.someHost(r), c.someHost(r)
				if a != b {
					c.net.block(c.addrs[a], c.addrs[b])
				}
			}
			c.note("partition_asym")
		case 4: // one host cannot send (hears everything)
			c.net.heal()
			v := c.someHost(r)
			for j := range c.addrs {
				if j != v {
					c.net.block(c.addrs[v], c.addrs[j])
				}
			}
			c.note("partition_mute")
		case 5: // loss + delay + reordering
			c.net.setLossDelay(5+r.Intn(25), time.Duration(1+r.Intn(30))*time.Millisecond)
			c.note("loss_delay")
		case 6, 7: // leader transfer
			for i := range c.hosts {
				nh := c.get(i)
				if nh == nil {
					continue
				}
				if lid, _, ok, _ := nh.GetLeaderID(shardID); ok {
					target := uint64(c.someVoter(r) + 1)
					if target != lid && c.roleOf(int(target-1)) == roleVoter {
						_ = nh.RequestLeaderTransfer(shardID, target)
						c.note("leader_transfer")
					}
					break
				}
			}
		}
	}
}

// streamRetryScenario (on-disk kind, after the faults): the non-voting replica is
// cut off until the leader has compacted its log beyond what the replica holds,
// and the first attempts to open a snapshot connection to it are refused. The
// leader's first stream job fails to connect, the circuit breaker for the address
// opens, a retried stream job finds no sink at all; the leader has to get through
// both and stream the snapshot once the connection can be made. Nothing else
// happens in the shard meanwhile (no fault, no leader change), so a leader that
// gives up streaming shows as a replica that never catches up.
func (c *cluster) streamRetryScenario() {
	const t = 3
	if c.get(t) == nil || c.roleOf(t) != roleNonVoting {
		c.note("stream_retry_skipped")
		return
	}
	for j := range c.addrs {
		if j != t {
			c.net.block(c.addrs[t], c.addrs[j])
			c.net.block(c.addrs[j], c.addrs[t])
		}
	}
	need := int(c.cfg.snapEvery) + 15
	by := time.Now().Add(6 * time.Second)
	done := 0
	for try := 0; done < need && time.Now().Before(by); try++ {
		i := try % 3
		nh := c.get(i)
		if nh == nil || c.roleOf(i) != roleVoter {
			continue
		}
		if c.doWrite(0, i, nh, uint64(1+done%c.cfg.keys), uint64(2*done+4), false, time.Second, nil, nil).code == c.codes["completed"] {
			done++
		} else {
			time.Sleep(10 * time.Millisecond)
		}
	}
	c.net.refuseSnapshotsTo(c.addrs[t], 2)
	c.net.heal()
	c.note(fmt.Sprintf("stream_retry_scenario_after_%d_writes", done))
}

// ---- restore scenario -----------------------------------------------------------
//
// After the faults (network healed, clients stopped). The shard has members that
// were added by membership changes (non-voting 4, voter 5, witness 6, depending on
// the history); one more non-voting replica (7) is added now while one voter F is
// cut off. Snapshots are taken and the logs compacted after the change, so that a
// replica that missed it can only learn of it from a snapshot:
//
//	(b) F is reconnected, is brought up to date by InstallSnapshot and is made the
//	    leader (transfer);
//	(a) the leader's host is restarted, recovers from its snapshot and is made
//	    the leader again.
//
// Under each of the two leaders a few proposals complete and EVERY member of the
// shard has to reach that state within restoreBound, observed from outside (state
// machine of the replica, log range of the witness): nothing is sent from the
// hosts of the added members, a leader has to find them by itself.
const restoreBound = 20 * time.Second

// upVoters returns the hosts that run a voting replica.
func (c *cluster) upVoters() []int {
	var v []int
	for i := 0; i < maxHosts; i++ {
		if c.get(i) != nil && c.roleOf(i) == roleVoter {
			v = append(v, i)
		}
	}
	return v
}

// someHost picks a host that is up, someVoter one that runs a voting replica.
func (c *cluster) someHost(r *vh.Rand) int {
	var up []int
	for i := 0; i < maxHosts; i++ {
		if c.get(i) != nil {
			up = append(up, i)
		}
	}
	if len(up) == 0 {
		return 0
	}
	return up[r.Intn(len(up))]
}

func (c *cluster) someVoter(r *vh.Rand) int {
	if v := c.upVoters(); len(v) > 0 {
		return v[r.Intn(len(v))]
	}
	return 0
}

// leaderHost returns the host that says of itself that it leads (-1 = none).
func (c *cluster) leaderHost() int {
	for _, i := range c.upVoters() {
		if nh := c.get(i); nh != nil {
			if lid, _, ok, _ := nh.GetLeaderID(shardID); ok && lid == uint64(i+1) {
				return i
			}
		}
	}
	return -1
}

// transferTo makes host x the leader.
func (c *cluster) transferTo(x int, within time.Duration) bool {
	by := time.Now().Add(within)
	for time.Now().Before(by) {
		l := c.leaderHost()
		if l == x {
			return true
		}
		if l >= 0 {
			if nh := c.get(l); nh != nil {
				_ = nh.RequestLeaderTransfer(shardID, uint64(x+1))
			}
		}
		time.Sleep(100 * time.Millisecond)
	}
	return c.leaderHost() == x
}

// writeSome completes n proposals through voters other than skip.
func (c *cluster) writeSome(n int, skip int, within time.Duration) (done int, last *opRec) {
	by := time.Now().Add(within)
	for try := 0; done < n && time.Now().Before(by); try++ {
		i := try % maxHosts
		nh := c.get(i)
		if nh == nil || c.roleOf(i) != roleVoter || i == skip {
			continue
		}
		op := c.doWrite(0, i, nh, uint64(1+done%c.cfg.keys), uint64(1000000+2*len(c.ops)), false, time.Second, nil, nil)
		if op.code == c.codes["completed"] {
			done++
			last = op
		} else {
			time.Sleep(10 * time.Millisecond)
		}
	}
	return done, last
}

func (c *cluster) smCount(i int) (uint64, bool) {
	c.rec.mu.Lock()
	s := c.rec.live[uint64(i+1)]
	c.rec.mu.Unlock()
	if s == nil {
		return 0, false
	}
	n, _ := s.state()
	return n, true
}

// snapshotAndCompact takes a snapshot on host i and compacts its log up to it.
func (c *cluster) snapshotAndCompact(i int) {
	nh := c.get(i)
	if nh == nil {
		return
	}
	for try := 0; try < 3; try++ {
		ctx, cancel := context.WithTimeout(context.Background(), time.Second)
		_, err := nh.SyncRequestSnapshot(ctx, shardID, dragonboat.SnapshotOption{OverrideCompactionOverhead: true, CompactionOverhead: 1})
		cancel()
		if err == nil {
			c.note("restore_snapshot")
			return
		}
		time.Sleep(20 * time.Millisecond)
	}
	c.note("restore_snapshot_err")
}

// allCatchUp: a few proposals complete, then every member reaches them within
// restoreBound without anything being sent from its host.
func (c *cluster) allCatchUp(key, phase string) {
	leader := c.leaderHost()
	done, last := c.writeSome(5, -1, 8*time.Second)
	if done == 0 {
		c.note("restore_" + key + "_no_write")
		return
	}
	target, _ := c.smCount(last.host)
	var lastIndex uint64
	c.rec.mu.Lock()
	for k := len(c.rec.applies) - 1; k >= 0; k-- {
		if c.rec.applies[k].id == last.id {
			lastIndex = c.rec.applies[k].index
			break
		}
	}
	c.rec.mu.Unlock()
	kind := map[int]string{roleVoter: "voting", roleNonVoting: "non-voting", roleWitness: "witness"}
	by := time.Now().Add(restoreBound)
	lastKeep := time.Now()
	for i := 0; i < maxHosts; i++ {
		nh, role := c.get(i), c.roleOf(i)
		if nh == nil || kind[role] == "" {
			continue
		}
		for {
			var have uint64
			ok := false
			if role == roleWitness {
				if lr, err := nh.GetLogReader(shardID); err == nil {
					_, have = lr.GetRange()
					ok = lastIndex == 0 || have >= lastIndex
				} else {
					ok = true // no reader on this kind of replica: nothing to observe
				}
			} else if n, present := c.smCount(i); present {
				have = n
				ok = n >= target
			} else {
				ok = true
			}
			if ok {
				break
			}
			if time.Now().After(by) {
				lid, term, known, _ := nh.GetLeaderID(shardID)
				c.violation("restore scenario (%s): the %s replica %d did not catch up within %v after proposals completed under leader %d (it has %d, needed %d; its host sees leader %d term %d known=%v, the host that leads now is %d); nothing is sent from its host, the leader has to reach it",
					phase, kind[role], i+1, restoreBound, leader+1, have, map[bool]uint64{true: lastIndex, false: target}[role == roleWitness], lid, term, known, c.leaderHost()+1)
				break
			}
			time.Sleep(10 * time.Millisecond)
			// the shard stays in use while the members are awaited (a proposal every
			// two seconds on the leader's own host; nothing through the awaited hosts)
			if time.Since(lastKeep) > 2*time.Second {
				lastKeep = time.Now()
				if l := c.leaderHost(); l >= 0 {
					if lnh := c.get(l); lnh != nil {
						c.doWrite(0, l, lnh, 1, uint64(2000000+2*len(c.ops)), false, time.Second, nil, nil)
					}
				}
				c.note("restore_slow_catch_up")
			}
		}
	}
	c.note("restore_" + key + "_checked")
}

// heldRead is a linearizable read whose ReadIndex step has completed and whose
// ReadLocalNode step is taken later.
type heldRead struct {
	op  *opRec
	rs  *dragonboat.RequestState
	fin func()
}

func (c *cluster) startHeldRead(host int, nh *dragonboat.NodeHost, key uint64) *heldRead {
	op := &opRec{id: atomic.AddUint64(&c.nextID, 1), client: 0, host: host, kind: 'R', key: key, api: "ReadIndex ... ReadLocalNode"}
	fin := c.record(op)
	op.inv = c.tick()
	rs, err := nh.ReadIndex(shardID, time.Second)
	if err != nil {
		op.code = codeRefused
		op.resp = c.tick()
		fin()
		return nil
	}
	res, _, lost := c.wait(fmt.Sprintf("read %d", op.id), rs, time.Second)
	if lost || !res.Completed() {
		op.code = c.codes["timeout"]
		if !lost {
			op.code = dragonboat.VerifC01ResultCode(res)
		}
		op.resp = c.tick()
		rs.Release()
		fin()
		return nil
	}
	return &heldRead{op: op, rs: rs, fin: fin}
}

func (c *cluster) finishHeldRead(h *heldRead, nh *dragonboat.NodeHost) {
	defer h.fin()
	defer func() {
		if p := recover(); p != nil {
			c.violation("ReadLocalNode after a completed ReadIndex panicked: %v", p)
		}
	}()
	v, err := nh.ReadLocalNode(h.rs, h.op.key)
	if lr, ok := v.(lookupResult); err == nil && ok {
		h.op.code = c.codes["completed"]
		h.op.rval, h.op.rver, h.op.obs = lr.val, lr.ver, lr.count
	} else {
		h.op.code = c.errCode(err)
	}
	h.op.resp = c.tick()
	h.rs.Release()
}

func (c *cluster) restoreScenario(r *vh.Rand) {
	voters := c.upVoters()
	l := c.leaderHost()
	if len(voters) < 3 || l < 0 {
		c.note("restore_skipped")
		return
	}
	f := -1
	for _, i := range voters {
		if i != l {
			f = i
			break
		}
	}
	// reads on F whose ReadIndex step completes now and whose ReadLocalNode step is
	// taken when F's state machine is in the middle of recovering from the
	// snapshot (or, if it never does, once F has caught up): the Lookup must not
	// see a state machine that is half recovered
	var held []*heldRead
	fnh := c.get(f)
	for k := 0; k < 2*c.cfg.keys; k++ {
		if h := c.startHeldRead(f, fnh, uint64(1+k%c.cfg.keys)); h != nil {
			held = append(held, h)
		}
	}
	recovering := make(chan struct{})
	var once sync.Once
	c.rec.mu.Lock()
	c.rec.onRecover = func(replica uint64) {
		if replica == uint64(f+1) {
			once.Do(func() { close(recovering) })
		}
	}
	c.rec.mu.Unlock()
	var hw sync.WaitGroup
	finishNow := make(chan struct{})
	for _, h := range held {
		hw.Add(1)
		go func(h *heldRead) {
			defer hw.Done()
			select {
			case <-recovering:
				c.note("read_local_node_during_recovery")
			case <-finishNow:
			}
			c.finishHeldRead(h, fnh)
		}(h)
	}
	var finOnce sync.Once
	finishHeld := func() {
		finOnce.Do(func() {
			close(finishNow)
			hw.Wait()
			c.rec.mu.Lock()
			c.rec.onRecover = nil
			c.rec.mu.Unlock()
		})
	}
	defer finishHeld()
	// F is cut off; the non-voting replica 7 is added meanwhile
	for j := range c.addrs {
		if j != f {
			c.net.block(c.addrs[f], c.addrs[j])
			c.net.block(c.addrs[j], c.addrs[f])
		}
	}
	atomic.StoreInt32(&c.avoid, int32(f+1))
	joined := c.join(6, roleNonVoting, 16)
	if !joined {
		c.note("restore_join7_failed")
	}
	need := 12
	if c.cfg.snapEvery > 0 {
		need = int(c.cfg.snapEvery) + 8
	}
	c.writeSome(need, f, 8*time.Second)
	// every connected voter compacts its log beyond what F holds
	for _, i := range voters {
		if i != f {
			c.snapshotAndCompact(i)
		}
	}
	c.writeSome(3, f, 3*time.Second)
	c.rec.mu.Lock()
	before := c.rec.recovers + c.rec.streams
	c.rec.mu.Unlock()
	atomic.StoreInt32(&c.avoid, 0)
	c.net.heal()
	// (b) F catches up (by InstallSnapshot) and becomes the leader
	by := time.Now().Add(restoreBound)
	for time.Now().Before(by) {
		a, _ := c.smCount(f)
		b, _ := c.smCount(c.leaderHostOr(l))
		if a >= b && b > 0 {
			break
		}
		time.Sleep(10 * time.Millisecond)
	}
	finishHeld()
	c.rec.mu.Lock()
	installed := c.rec.recovers+c.rec.streams > before
	c.rec.mu.Unlock()
	if installed {
		c.note("restore_follower_installed_snapshot")
	}
	if c.transferTo(f, 4*time.Second) {
		c.note("restore_b_leader_from_install_snapshot")
		c.allCatchUp("b", "b: leader brought up to date by InstallSnapshot")
	} else {
		c.note("restore_b_transfer_failed")
	}
	// (a) the leader's host restarts from a snapshot taken after the changes
	x := c.leaderHost()
	if x < 0 {
		c.note("restore_a_no_leader")
		return
	}
	c.snapshotAndCompact(x)
	c.restartHost(x, r)
	if c.get(x) == nil {
		c.note("restore_a_restart_failed")
		return
	}
	if c.transferTo(x, 6*time.Second) {
		c.note("restore_a_leader_restarted_from_snapshot")
		c.allCatchUp("a", "a: leader's host restarted from its snapshot")
	} else {
		c.note("restore_a_transfer_failed")
	}
}

func (c *cluster) leaderHostOr(d int) int {
	if l := c.leaderHost(); l >= 0 {
		return l
	}
	return d
}

// compareBookkeeping: what dragonboat replicates besides the user state machine.
// At an equal applied index the client session tables and the membership records of
// all replicas have the same hash, and the membership every host reports through
// the API (voters, non-voting, witnesses, removed, config change id) is the same.
func (c *cluster) compareBookkeeping(members map[uint64]bool) {
	type rh struct {
		applied, sessions, membership uint64
	}
	var hs map[int]rh
	for wait := 0; wait < 200; wait++ {
		hs = map[int]rh{}
		same := true
		var a0 uint64
		for i := range c.hosts {
			nh := c.get(i)
			if nh == nil || !members[uint64(i+1)] {
				continue
			}
			a, se, me, ok := dragonboat.VerifC01ReplicaHashes(nh, shardID)
			if !ok {
				continue
			}
			hs[i] = rh{a, se, me}
			if a0 == 0 {
				a0 = a
			}
			if a != a0 {
				same = false
			}
		}
		if same {
			break
		}
		time.Sleep(10 * time.Millisecond)
	}
	idx := make([]int, 0, len(hs))
	for i := range hs {
		idx = append(idx, i)
	}
	sort.Ints(idx)
	compared := 0
	for x := 0; x < len(idx); x++ {
		for y := x + 1; y < len(idx); y++ {
			a, b := hs[idx[x]], hs[idx[y]]
			if a.applied != b.applied {
				continue
			}
			compared++
			if a.sessions != b.sessions {
				c.violation("replicas %d and %d have applied up to index %d and their client session tables differ (hash %x / %x)", idx[x]+1, idx[y]+1, a.applied, a.sessions, b.sessions)
			}
			if a.membership != b.membership {
				c.violation("replicas %d and %d have applied up to index %d and their membership records differ (hash %x / %x)", idx[x]+1, idx[y]+1, a.applied, a.membership, b.membership)
			}
		}
	}
	c.noteMu.Lock()
	c.notes["bookkeeping_pairs_compared"] = compared
	c.noteMu.Unlock()
	// the membership as the API reports it on every host
	show := func(m *dragonboat.Membership) string {
		f := func(x map[uint64]string) string {
			var k []string
			for id, a := range x {
				k = append(k, fmt.Sprintf("%d=%s", id, a))
			}
			sort.Strings(k)
			return strings.Join(k, ",")
		}
		var rm []int
		for id := range m.Removed {
			rm = append(rm, int(id))
		}
		sort.Ints(rm)
		return fmt.Sprintf("ccid=%d voters[%s] nonvoting[%s] witnesses[%s] removed%v", m.ConfigChangeID, f(m.Nodes), f(m.NonVotings), f(m.Witnesses), rm)
	}
	first, firstHost := "", 0
	for _, i := range idx {
		nh := c.get(i)
		if nh == nil {
			continue
		}
		var m *dragonboat.Membership
		for try := 0; try < 5 && m == nil; try++ {
			ctx, cancel := context.WithTimeout(context.Background(), time.Second)
			m, _ = nh.SyncGetShardMembership(ctx, shardID)
			cancel()
		}
		if m == nil {
			continue
		}
		if s := show(m); first == "" {
			first, firstHost = s, i+1
		} else if s != first {
			c.violation("hosts %d and %d report different memberships: %s / %s", firstHost, i+1, first, s)
		}
	}
}

type histResult struct {
	ops     []*opRec
	log     []applyRec // one per index, index order
	smcheck string
	mon     string // first message of the other gen-time monitors ("" = none)
	final   [][3]uint64
	finalOK bool
	notes   map[string]int
	net     [4]int64
	timing  string // wall time of the phases (start, history, settle, close)
}

// runHistory runs one cluster history and returns what was recorded.
func runHistory(cfg histCfg) (*histResult, error) {
	t0 := time.Now()
	c, err := startCluster(cfg)
	if err != nil {
		return nil, err
	}
	t1 := time.Now()
	stop := make(chan struct{})
	var wg, nwg sync.WaitGroup
	for i := 0; i < cfg.clients; i++ {
		wg.Add(1)
		go c.clientLoop(i+1, stop, &wg)
	}
	if cfg.slowReplica != 0 {
		wg.Add(1)
		go c.burstLoop(stop, &wg)
	}
	if cfg.twoShards {
		wg.Add(1)
		go c.shard2Loop(stop, &wg)
	}
	nstop := make(chan struct{})
	nwg.Add(1)
	go c.nemesis(nstop, &nwg)
	time.Sleep(cfg.duration)
	close(nstop)
	nwg.Wait()
	c.net.heal()
	close(stop)
	wg.Wait()
	t2 := time.Now()
	// messages delayed by the network are delivered within 30 ms of the heal
	time.Sleep(40 * time.Millisecond)
	if cfg.onDisk && cfg.snapEvery > 0 {
		c.streamRetryScenario()
	}
	if cfg.restore {
		c.restoreScenario(subRand(cfg.seed, 888))
	}
	// settle: one more write, then a linearizable read on every host that runs a
	// replica of the final membership, so that every replica has applied the whole log
	settled := true
	var lastW *opRec
	settleBy := time.Now().Add(30 * time.Second)
	for try := 0; time.Now().Before(settleBy); try++ {
		i := try % maxHosts
		nh := c.get(i)
		if nh == nil || c.roleOf(i) != roleVoter {
			continue
		}
		lastW = c.doWrite(0, i, nh, 1, 1, false, 3*time.Second, nil, nil)
		if lastW.code == c.codes["completed"] {
			break
		}
		time.Sleep(20 * time.Millisecond) // a refusal (no leader yet) comes back at once
	}
	if lastW == nil || lastW.code != c.codes["completed"] {
		settled = false
		c.violation("no proposal completed within 30 s after the network healed")
	}
	members := map[uint64]bool{}
	for i := range c.hosts {
		nh := c.get(i)
		if nh == nil {
			continue
		}
		switch c.roleOf(i) {
		case roleVoter, roleNonVoting:
			ok := false
			readBy := time.Now().Add(24 * time.Second)
			codes := map[uint64]int{}
			tries := 0
			for settled && !ok && time.Now().Before(readBy) {
				op := c.doRead(0, i, nh, 1, false, time.Second)
				ok = op.code == c.codes["completed"]
				if !ok {
					codes[op.code]++
					time.Sleep(20 * time.Millisecond)
					// proposals keep completing meanwhile: in a shard with
					// Config.Quiesce an idle leader goes quiet after a while and a
					// restarted non-voting replica that has not heard from it yet
					// never would (it cannot wake the shard by itself)
					if tries++; tries%5 == 0 {
						c.writeSome(1, -1, time.Second)
					}
				}
			}
			if !ok && settled {
				settled = false
				lid, term, known, _ := nh.GetLeaderID(shardID)
				have, _ := c.smCount(i)
				lh := c.leaderHost()
				lc, _ := c.smCount(lh)
				c.violation("replica %d of the final membership completed no linearizable read within 24 s after the network healed (its host sees leader %d term %d known=%v, the host that leads is %d; it has applied %d updates, the leader %d; results of its reads by code %v)",
					i+1, lid, term, known, lh+1, have, lc, codes)
			}
			members[uint64(i+1)] = true
		case roleRemoved:
			// a host whose replica was removed answers (with an error, or correctly
			// if it has not learned of the removal yet), it does not hang; the
			// operations are ordinary operations of the history
			c.doRead(0, i, nh, 1, true, 300*time.Millisecond)
			c.doWrite(0, i, nh, 1, 3, true, 300*time.Millisecond, nil, nil)
			c.doRead(0, i, nh, 1, false, 300*time.Millisecond)
			c.note("removed_host_probed")
			if !nh.HasNodeInfo(shardID, uint64(i+1)) {
				c.violation("host %d has no record of the replica it ran", i+1)
			}
			ctx, cancel := context.WithTimeout(context.Background(), time.Second)
			switch err := nh.SyncRemoveData(ctx, shardID, uint64(i+1)); {
			case err == nil:
				c.note("removed_data_deleted")
				if nh.HasNodeInfo(shardID, uint64(i+1)) {
					c.violation("host %d still lists the replica after SyncRemoveData succeeded", i+1)
				}
			case errors.Is(err, dragonboat.ErrShardNotStopped):
				c.note("removed_replica_still_running")
			default:
				c.note("removed_data_err")
			}
			cancel()
		}
	}
	res := &histResult{ops: c.ops, notes: c.notes}
	// final states of the live replicas: the members converge to one state (an
	// entry proposed before the clients stopped may still be committed a little later)
	c.rec.mu.Lock()
	live := map[uint64]*kvSM{}
	for k, v := range c.rec.live {
		if members[k] {
			live[k] = v
		}
	}
	c.rec.mu.Unlock()
	var maxCount uint64
	finals := map[uint64][][3]uint64{}
	counts := map[uint64]uint64{}
	converged := false
	for wait := 0; ; wait++ {
		maxCount = 0
		for rep, s := range live {
			counts[rep], finals[rep] = s.state()
			if counts[rep] >= maxCount {
				maxCount = counts[rep]
				res.final = finals[rep]
			}
		}
		converged = true
		for _, n := range counts {
			if n != maxCount {
				converged = false
			}
		}
		if converged || !settled || wait >= 500 {
			break
		}
		time.Sleep(10 * time.Millisecond)
	}
	if settled && converged {
		c.compareBookkeeping(members)
	}
	if settled && !converged {
		c.violation("the replicas of the final membership did not reach the same number of applied updates within 5 s after every one of them served a linearizable read: %v", counts)
	}
	t3 := time.Now()
	for i := range c.hosts {
		if nh := c.get(i); nh != nil {
			nh.Close()
		}
	}
	c.net.close()
	res.timing = fmt.Sprintf("start=%.1fs,history=%.1fs,settle=%.1fs,close=%.1fs", t1.Sub(t0).Seconds(), t2.Sub(t1).Seconds(), t3.Sub(t2).Seconds(), time.Since(t3).Seconds())
	res.net = [4]int64{c.net.sent, c.net.dropped, c.net.delayed, c.net.delivered}

	// the log: union of the apply streams by index; every replica must have seen
	// the same entry at an index, with the same result, as the count-th update
	c.rec.mu.Lock()
	applies := append([]applyRec(nil), c.rec.applies...)
	bad := append([]string(nil), c.rec.bad...)
	c.notes["quiesce_entered"] = int(atomic.SwapInt64(&quiesceEntered, 0))
	c.notes["snapshot_connections_refused"] = int(atomic.LoadInt64(&c.net.snapRefused))
	c.notes["sm_syncs"] = c.rec.syncs
	c.notes["sm_streamed_snapshots"] = c.rec.streams
	c.notes["sm_recovered_snapshots"] = c.rec.recovers
	c.rec.mu.Unlock()
	byIndex := map[uint64]applyRec{}
	for _, a := range applies {
		if b, ok := byIndex[a.index]; ok {
			if b.id != a.id || b.key != a.key || b.val != a.val || b.prev != a.prev || b.ver != a.ver || b.count != a.count ||
				b.cid != a.cid || b.series != a.series {
				bad = append(bad, fmt.Sprintf("replicas %d and %d disagree at index %d", b.replica, a.replica, a.index))
			}
		} else {
			byIndex[a.index] = a
		}
	}
	for _, a := range byIndex {
		res.log = append(res.log, a)
	}
	sort.Slice(res.log, func(i, j int) bool { return res.log[i].index < res.log[j].index })
	for i, a := range res.log {
		if a.count != uint64(i+1) {
			bad = append(bad, fmt.Sprintf("index %d applied as update #%d but is entry #%d of the log", a.index, a.count, i+1))
			break
		}
	}
	for rep, st := range finals {
		if counts[rep] == maxCount && fmt.Sprint(st) != fmt.Sprint(res.final) {
			bad = append(bad, fmt.Sprintf("replica %d final state differs at the same applied count", rep))
		}
	}
	if cfg.twoShards {
		// the second shard: its replicas agree index by index as well
		c.rec2.mu.Lock()
		bad = append(bad, c.rec2.bad...)
		by2 := map[uint64]applyRec{}
		for _, a := range c.rec2.applies {
			if b, ok := by2[a.index]; ok {
				if b.id != a.id || b.key != a.key || b.val != a.val || b.prev != a.prev || b.ver != a.ver || b.count != a.count {
					bad = append(bad, fmt.Sprintf("second shard: replicas %d and %d disagree at index %d", b.replica, a.replica, a.index))
				}
			} else {
				by2[a.index] = a
			}
		}
		c.notes["shard2_entries"] = len(by2)
		c.rec2.mu.Unlock()
	}
	res.finalOK = settled && maxCount == uint64(len(res.log))
	if len(bad) > 0 {
		sort.Strings(bad)
		res.smcheck = bad[0]
	}

	// ---- the other monitors on what was recorded ----
	// a (client session, series) pair, and an operation, is applied at most once
	type pair struct{ cid, series uint64 }
	seenPair := map[pair]uint64{}
	seenID := map[uint64]uint64{}
	inLog := map[uint64]bool{}
	for _, a := range res.log {
		inLog[a.id] = true
		if a.cid != 0 {
			p := pair{a.cid, a.series}
			if idx, ok := seenPair[p]; ok {
				c.violation("series %d of client session %d was applied twice (indexes %d and %d)", a.series, a.cid, idx, a.index)
			}
			seenPair[p] = a.index
		}
		if idx, ok := seenID[a.id]; ok {
			c.violation("operation %d was applied twice (indexes %d and %d)", a.id, idx, a.index)
		}
		seenID[a.id] = a.index
	}
	// a proposal whose Committed notification was delivered is applied
	if settled {
		for _, o := range c.ops {
			if o.committed && !inLog[o.id] {
				c.violation("operation %d was notified Committed but is not in the applied log", o.id)
			}
		}
	}
	// QueryRaftLog returns the entries that were applied at those indexes
	for _, q := range c.qlog {
		if a, ok := byIndex[q.index]; ok {
			if a.id != q.id {
				c.violation("QueryRaftLog on host %d returned operation %d at index %d, operation %d was applied there", q.host+1, q.id, q.index, a.id)
			}
		}
		// (an entry without an update at its index is a retried series or a rejected one)
	}
	c.noteMu.Lock()
	if len(c.mon) > 0 {
		// in the order they were raised, the first three
		res.mon = strings.Join(c.mon[:min(3, len(c.mon))], " && ")
	}
	c.noteMu.Unlock()
	return res, nil
}

// demoExportOnJoiner shows an API call that takes the process down: an exported
// snapshot requested on a replica that was started with join = true and has not
// yet applied an entry or recovered a snapshot (here it never will: there is no
// other host). node.handleSnapshot lets an exported request through although
// nothing was applied, StateMachine.getSSMeta then panics "empty membership" on
// the snapshot worker. Run: c01 demo-export-on-joiner
func demoExportOnJoiner() {
	quietLogs()
	ex := config.GetDefaultExpertConfig()
	ex.FS = c01hooks.NewMemFS()
	ex.TransportFactory = &netFactory{net: newNetwork(1)}
	nh, err := dragonboat.NewNodeHost(config.NodeHostConfig{NodeHostDir: "/demo", RTTMillisecond: 5, RaftAddress: "demo:1", Expert: ex})
	if err != nil {
		panic(err)
	}
	rc := config.Config{ReplicaID: 2, ShardID: shardID, ElectionRTT: 10, HeartbeatRTT: 1}
	if err := nh.StartReplica(nil, true, newRecorder().factory(), rc); err != nil {
		panic(err)
	}
	_ = ex.FS.MkdirAll("/demo/export", 0755)
	for k := 0; k < 200; k++ { // until the replica is initialized (ErrShardNotReady before)
		ctx, cancel := context.WithTimeout(context.Background(), time.Second)
		_, err = nh.SyncRequestSnapshot(ctx, shardID, dragonboat.SnapshotOption{Exported: true, ExportPath: "/demo/export"})
		cancel()
		fmt.Println("SyncRequestSnapshot(Exported) on the joiner:", err)
		time.Sleep(20 * time.Millisecond)
	}
	fmt.Println("no panic")
}

// demoQuiescedNonVoting: in a shard with Config.Quiesce a non-voting replica whose
// host restarts while the shard is quiet is not contacted by the (quiesced) leader
// and, knowing no leader, cannot wake the shard itself: it stays behind, and its
// reads are dropped, until a proposal on a voter wakes the shard.
// Run: c01 demo-quiesced-nonvoting
func demoQuiescedNonVoting() {
	cfg := histCfg{name: "demoq", seed: 1, keys: 2, voters: 3, nonVoting: true, quiesce: true, checkQuorum: true, snapEvery: 0}
	c, err := startCluster(cfg)
	if err != nil {
		panic(err)
	}
	c.writeSome(10, -1, 5*time.Second)
	nv := c.get(3)
	nv.Close()
	c.set(3, nil)
	c.writeSome(5, -1, 5*time.Second)
	time.Sleep(1500 * time.Millisecond) // the shard goes quiet (10 election time-outs)
	fmt.Println("shard quiet, replicas that entered quiesce:", atomic.LoadInt64(&quiesceEntered))
	nh, err := dragonboat.NewNodeHost(c.nhcs[3])
	if err != nil {
		panic(err)
	}
	if err := c.startReplica(nh, nil, false, c.raftConfig(4, true)); err != nil {
		panic(err)
	}
	c.set(3, nh)
	for k := 0; k < 5; k++ {
		time.Sleep(time.Second)
		lid, _, known, _ := nh.GetLeaderID(shardID)
		have, _ := c.smCount(3)
		lc, _ := c.smCount(c.leaderHostOr(0))
		fmt.Printf("%d s after the restart: non-voting replica applied %d of %d, knows leader: %v (%d)\n", k+1, have, lc, known, lid)
	}
	c.writeSome(1, -1, 5*time.Second)
	time.Sleep(500 * time.Millisecond)
	have, _ := c.smCount(3)
	lc, _ := c.smCount(c.leaderHostOr(0))
	fmt.Printf("after one more proposal on a voter: non-voting replica applied %d of %d\n", have, lc)
	os.Exit(0)
}
