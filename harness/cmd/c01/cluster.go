package main

// One end-to-end history: 3 voting NodeHosts (+ optionally one non-voting) in this
// process on in-memory file systems, a fault-injecting network between them,
// concurrent clients, a nemesis (partitions, loss/delay/reordering, leader
// transfers, one NodeHost restart).

import (
	"context"
	"encoding/binary"
	"errors"
	"fmt"
	"sort"
	"sync"
	"sync/atomic"
	"time"

	dragonboat "github.com/lni/dragonboat/v4"
	"github.com/lni/dragonboat/v4/config"
	"github.com/lni/dragonboat/v4/logger"
	c01hooks "github.com/lni/dragonboat/v4/verifhooks/c01"
	"verif/harness/vh"
)

const shardID = 1
const codeRefused = 100 // the API call returned an error without accepting the request

type opRec struct {
	id         uint64
	client     int
	host       int
	kind       byte // 'W' | 'R'
	api        string
	key, val   uint64
	inv, resp  uint64
	code       uint64
	rval, rver uint64
	obs        uint64
}

type histCfg struct {
	name        string
	seed        uint64
	clients     int
	keys        int
	duration    time.Duration
	nonVoting   bool
	restart     bool
	faults      bool
	snapEvery   uint64
	paceMs      int // mean pause between two operations of one client
	checkQuorum bool
	concurrent  bool          // IConcurrentStateMachine instead of IStateMachine
	slowReplica uint64        // 0 = none; this replica dwells in about a third of its Updates
	slowDwell   time.Duration
}

type cluster struct {
	cfg    histCfg
	net    *network
	rec    *recorder
	mu     sync.RWMutex
	hosts  []*dragonboat.NodeHost // index 0..n-1 = replica 1..n; nil while down
	nhcs   []config.NodeHostConfig
	addrs  []string
	stamp  uint64
	nextID uint64
	opsMu  sync.Mutex
	ops    []*opRec
	codes  map[string]uint64
	notes  map[string]int
	noteMu sync.Mutex
}

// subRand derives an independent stream: vh.Rand streams of neighbouring seeds
// are shifted copies of each other, so derived seeds go through the mixer twice.
func subRand(seed uint64, salt uint64) *vh.Rand {
	return vh.NewRand(vh.NewRand(vh.NewRand(seed).U64() ^ (salt * 0xD6E8FEB86659FD93)).U64())
}

func (c *cluster) note(k string) {
	c.noteMu.Lock()
	c.notes[k]++
	c.noteMu.Unlock()
}

func (c *cluster) raftConfig(replica uint64, nonVoting bool) config.Config {
	return config.Config{
		ReplicaID:          replica,
		ShardID:            shardID,
		ElectionRTT:        10,
		HeartbeatRTT:       1,
		CheckQuorum:        c.cfg.checkQuorum,
		SnapshotEntries:    c.cfg.snapEvery,
		CompactionOverhead: 5,
		IsNonVoting:        nonVoting,
	}
}

// startReplica starts the shard's replica on nh with the kind of state machine of this history.
func (c *cluster) startReplica(nh *dragonboat.NodeHost, members map[uint64]dragonboat.Target, join bool, rc config.Config) error {
	if c.cfg.concurrent {
		return nh.StartConcurrentReplica(members, join, c.rec.concurrentFactory(), rc)
	}
	return nh.StartReplica(members, join, c.rec.factory(), rc)
}

func (c *cluster) get(i int) *dragonboat.NodeHost {
	c.mu.RLock()
	defer c.mu.RUnlock()
	return c.hosts[i]
}

func (c *cluster) set(i int, nh *dragonboat.NodeHost) {
	c.mu.Lock()
	c.hosts[i] = nh
	c.mu.Unlock()
}

var quietOnce sync.Once

// quietLogger discards the library's log text; Panicf keeps its meaning.
type quietLogger struct{}

func (quietLogger) SetLevel(logger.LogLevel)                    {}
func (quietLogger) Debugf(format string, args ...interface{})   {}
func (quietLogger) Infof(format string, args ...interface{})    {}
func (quietLogger) Warningf(format string, args ...interface{}) {}
func (quietLogger) Errorf(format string, args ...interface{})   {}
func (quietLogger) Panicf(format string, args ...interface{}) {
	panic(fmt.Sprintf(format, args...))
}

func quietLogs() {
	quietOnce.Do(func() {
		logger.SetLoggerFactory(func(string) logger.ILogger { return quietLogger{} })
	})
}

func startCluster(cfg histCfg) (*cluster, error) {
	quietLogs()
	n := 3
	if cfg.nonVoting {
		n = 4
	}
	c := &cluster{cfg: cfg, net: newNetwork(subRand(cfg.seed, 99).U64()), rec: newRecorder(),
		hosts: make([]*dragonboat.NodeHost, n), codes: dragonboat.VerifC01Codes(), notes: map[string]int{}}
	if cfg.slowReplica != 0 {
		c.rec.slow = map[uint64]time.Duration{cfg.slowReplica: cfg.slowDwell}
	}
	members := map[uint64]dragonboat.Target{}
	for i := 0; i < n; i++ {
		addr := fmt.Sprintf("%s-n%d:1", cfg.name, i+1)
		c.addrs = append(c.addrs, addr)
		if i < 3 {
			members[uint64(i+1)] = addr
		}
		ex := config.GetDefaultExpertConfig()
		ex.FS = c01hooks.NewMemFS()
		ex.TransportFactory = &netFactory{net: c.net}
		ex.Engine = config.EngineConfig{ExecShards: 2, CommitShards: 2, ApplyShards: 2, SnapshotShards: 2, CloseShards: 2}
		ex.LogDB.Shards = 2
		c.nhcs = append(c.nhcs, config.NodeHostConfig{
			NodeHostDir:    fmt.Sprintf("/c01/%s/n%d", cfg.name, i+1),
			RTTMillisecond: 5,
			RaftAddress:    addr,
			Expert:         ex,
		})
	}
	for i := 0; i < 3; i++ {
		nh, err := dragonboat.NewNodeHost(c.nhcs[i])
		if err != nil {
			return nil, fmt.Errorf("NewNodeHost %d: %w", i+1, err)
		}
		c.hosts[i] = nh
		if err := c.startReplica(nh, members, false, c.raftConfig(uint64(i+1), false)); err != nil {
			return nil, fmt.Errorf("StartReplica %d: %w", i+1, err)
		}
	}
	// wait for a leader
	deadline := time.Now().Add(10 * time.Second)
	for {
		if _, _, ok, _ := c.hosts[0].GetLeaderID(shardID); ok {
			break
		}
		if time.Now().After(deadline) {
			return nil, errors.New("no leader elected")
		}
		time.Sleep(5 * time.Millisecond)
	}
	if cfg.nonVoting {
		nh, err := dragonboat.NewNodeHost(c.nhcs[3])
		if err != nil {
			return nil, fmt.Errorf("NewNodeHost 4: %w", err)
		}
		c.hosts[3] = nh
		var aerr error
		for try := 0; try < 20; try++ {
			ctx, cancel := context.WithTimeout(context.Background(), 2*time.Second)
			aerr = c.hosts[0].SyncRequestAddNonVoting(ctx, shardID, 4, c.addrs[3], 0)
			cancel()
			if aerr == nil {
				break
			}
			time.Sleep(20 * time.Millisecond)
		}
		if aerr != nil {
			return nil, fmt.Errorf("add non-voting: %w", aerr)
		}
		if err := c.startReplica(nh, nil, true, c.raftConfig(4, true)); err != nil {
			return nil, fmt.Errorf("StartReplica 4: %w", err)
		}
	}
	return c, nil
}

// wait waits for the result of an accepted request; a request that is never
// answered (a C12 matter) is counted and treated as timed out.
func (c *cluster) wait(rs *dragonboat.RequestState, timeout time.Duration) (dragonboat.RequestResult, bool) {
	select {
	case r := <-rs.ResultC():
		return r, false
	case <-time.After(timeout + 5*time.Second):
		c.note("request_never_answered")
		return dragonboat.RequestResult{}, true
	}
}

func (c *cluster) tick() uint64 { return atomic.AddUint64(&c.stamp, 1) }

func (c *cluster) errCode(err error) uint64 {
	switch {
	case errors.Is(err, dragonboat.ErrTimeout), errors.Is(err, dragonboat.ErrCanceled):
		return c.codes["timeout"]
	case errors.Is(err, dragonboat.ErrShardClosed):
		return c.codes["terminated"]
	case errors.Is(err, dragonboat.ErrShardNotReady):
		return c.codes["dropped"]
	case errors.Is(err, dragonboat.ErrRejected):
		return c.codes["rejected"]
	case errors.Is(err, dragonboat.ErrAborted):
		return c.codes["aborted"]
	}
	return codeRefused
}

// doWrite / doRead perform one client operation through one of two API paths
// and record it. The invocation stamp is taken before the API is entered and the
// response stamp after it returned.
func (c *cluster) doWrite(client, host int, nh *dragonboat.NodeHost, key, val uint64, async bool, timeout time.Duration) *opRec {
	op := &opRec{id: atomic.AddUint64(&c.nextID, 1), client: client, host: host, kind: 'W', key: key, val: val}
	cmd := encodeCmd(op.id, key, val)
	cs := nh.GetNoOPSession(shardID)
	defer c.record(op)()
	if async {
		op.api = "Propose"
		op.inv = c.tick()
		rs, err := nh.Propose(cs, cmd, timeout)
		// "the input byte slice can be reused for other purposes immediately after the
		// return of this method" (nodehost.go): reuse it
		for i := range cmd {
			cmd[i] = 0xEE
		}
		if err != nil {
			op.code = c.errCode(err)
			if op.code == c.codes["timeout"] {
				op.code = codeRefused
			}
		} else {
			r, lost := c.wait(rs, timeout)
			op.code = dragonboat.VerifC01ResultCode(r)
			if lost {
				op.code = c.codes["timeout"]
			} else if r.Completed() {
				res := r.GetResult()
				op.rver = res.Value
				if len(res.Data) == 8 {
					op.rval = binary.BigEndian.Uint64(res.Data)
				} else {
					op.rval = ^uint64(0)
				}
			}
			rs.Release()
		}
		op.resp = c.tick()
	} else {
		op.api = "SyncPropose"
		ctx, cancel := context.WithTimeout(context.Background(), timeout)
		op.inv = c.tick()
		res, err := nh.SyncPropose(ctx, cs, cmd)
		if err != nil {
			op.code = c.errCode(err)
		} else {
			op.code = c.codes["completed"]
			op.rver = res.Value
			if len(res.Data) == 8 {
				op.rval = binary.BigEndian.Uint64(res.Data)
			} else {
				op.rval = ^uint64(0)
			}
		}
		op.resp = c.tick()
		cancel()
	}
	return op
}

// record registers op before the API is entered; the returned function closes an
// operation that was abandoned by a panic inside the library as "no answer" (it
// may or may not take effect), so that its entry is never taken for a fabricated one.
func (c *cluster) record(op *opRec) func() {
	c.opsMu.Lock()
	c.ops = append(c.ops, op)
	c.opsMu.Unlock()
	return func() {
		if op.inv == 0 {
			op.inv = c.tick()
		}
		if op.resp == 0 {
			op.code = c.codes["timeout"]
			op.resp = c.tick()
		}
	}
}

func (c *cluster) doRead(client, host int, nh *dragonboat.NodeHost, key uint64, async bool, timeout time.Duration) *opRec {
	op := &opRec{id: atomic.AddUint64(&c.nextID, 1), client: client, host: host, kind: 'R', key: key}
	take := func(v interface{}, err error) {
		if err != nil {
			op.code = c.errCode(err)
			return
		}
		lr, ok := v.(lookupResult)
		if !ok {
			op.code = codeRefused
			return
		}
		op.code = c.codes["completed"]
		op.rval, op.rver, op.obs = lr.val, lr.ver, lr.count
	}
	defer c.record(op)()
	if async {
		op.api = "ReadIndex+ReadLocalNode"
		op.inv = c.tick()
		rs, err := nh.ReadIndex(shardID, timeout)
		if err != nil {
			op.code = c.errCode(err)
			if op.code == c.codes["timeout"] {
				op.code = codeRefused
			}
		} else {
			r, lost := c.wait(rs, timeout)
			if lost {
				op.code = c.codes["timeout"]
			} else if r.Completed() {
				take(nh.ReadLocalNode(rs, key))
			} else {
				op.code = dragonboat.VerifC01ResultCode(r)
			}
			rs.Release()
		}
		op.resp = c.tick()
	} else {
		op.api = "SyncRead"
		ctx, cancel := context.WithTimeout(context.Background(), timeout)
		op.inv = c.tick()
		take(nh.SyncRead(ctx, shardID, key))
		op.resp = c.tick()
		cancel()
	}
	return op
}

func (c *cluster) clientLoop(id int, stop <-chan struct{}, wg *sync.WaitGroup) {
	defer wg.Done()
	r := subRand(c.cfg.seed, 1000+uint64(id))
	for {
		select {
		case <-stop:
			return
		default:
		}
		host := r.Intn(len(c.hosts))
		nh := c.get(host)
		if nh == nil {
			time.Sleep(time.Millisecond)
			continue
		}
		key := uint64(1 + r.Intn(c.cfg.keys))
		timeout := time.Duration(100+r.Intn(300)) * time.Millisecond
		func() {
			// a NodeHost being closed under a client may panic inside the library
			// (that is not the property checked here): count it, record nothing
			defer func() {
				if p := recover(); p != nil {
					c.note("client_panic")
				}
			}()
			if r.Chance(1, 2) {
				c.doWrite(id, host, nh, key, r.U64()>>1|1, r.Bool(), timeout)
			} else {
				c.doRead(id, host, nh, key, r.Bool(), timeout)
			}
		}()
		// pace the clients: a history of a few hundred operations spread over the
		// whole fault schedule
		time.Sleep(time.Duration(r.Intn(2*c.cfg.paceMs*1000+1)) * time.Microsecond)
	}
}

func (c *cluster) restartHost(i int, r *vh.Rand) {
	nh := c.get(i)
	if nh == nil {
		return
	}
	c.set(i, nil)
	nh.Close()
	c.note("restart")
	time.Sleep(time.Duration(20+r.Intn(150)) * time.Millisecond)
	nh2, err := dragonboat.NewNodeHost(c.nhcs[i])
	if err != nil {
		c.note("restart_failed")
		return
	}
	if err := c.startReplica(nh2, nil, false, c.raftConfig(uint64(i+1), false)); err != nil {
		c.note("restart_start_failed:" + err.Error())
		nh2.Close()
		return
	}
	c.set(i, nh2)
}

// leader returns the replica id some live host currently believes to lead (0 = unknown).
func (c *cluster) leader() uint64 {
	for i := range c.hosts {
		if nh := c.get(i); nh != nil {
			if lid, _, ok, _ := nh.GetLeaderID(shardID); ok {
				return lid
			}
		}
	}
	return 0
}

func (c *cluster) nemesis(stop <-chan struct{}, wg *sync.WaitGroup) {
	defer wg.Done()
	r := subRand(c.cfg.seed, 77)
	restarted := !c.cfg.restart
	start := time.Now()
	for {
		select {
		case <-stop:
			c.net.heal()
			return
		case <-time.After(time.Duration(80+r.Intn(250)) * time.Millisecond):
		}
		if !c.cfg.faults {
			continue
		}
		if !restarted && time.Since(start) > c.cfg.duration/3 {
			restarted = true
			c.restartHost(r.Intn(3), r)
			continue
		}
		switch r.Intn(10) {
		case 8, 9: // isolate the current leader (both directions)
			if lid := c.leader(); lid > 0 {
				c.net.heal()
				v := int(lid - 1)
				for j := range c.addrs {
					if j != v {
						c.net.block(c.addrs[v], c.addrs[j])
						c.net.block(c.addrs[j], c.addrs[v])
					}
				}
				c.note("partition_leader")
			}
		case 0, 1:
			c.net.heal()
			c.note("heal")
		case 2: // symmetric partition: isolate one host
			c.net.heal()
			v := r.Intn(len(c.addrs))
			for j := range c.addrs {
				if j != v {
					c.net.block(c.addrs[v], c.addrs[j])
					c.net.block(c.addrs[j], c.addrs[v])
				}
			}
			c.note("partition_sym")
		case 3: // asymmetric: one or two directed links
			c.net.heal()
			for k := 0; k < 1+r.Intn(2); k++ {
				a, b := r.Intn(len(c.addrs)), r.Intn(len(c.addrs))
				if a != b {
					c.net.block(c.addrs[a], c.addrs[b])
				}
			}
			c.note("partition_asym")
		case 4: // one host cannot send (hears everything)
			c.net.heal()
			v := r.Intn(len(c.addrs))
			for j := range c.addrs {
				if j != v {
					c.net.block(c.addrs[v], c.addrs[j])
				}
			}
			c.note("partition_mute")
		case 5: // loss + delay + reordering
			c.net.setLossDelay(5+r.Intn(25), time.Duration(1+r.Intn(30))*time.Millisecond)
			c.note("loss_delay")
		case 6, 7: // leader transfer
			for i := range c.hosts {
				nh := c.get(i)
				if nh == nil {
					continue
				}
				if lid, _, ok, _ := nh.GetLeaderID(shardID); ok {
					target := uint64(1 + r.Intn(3))
					if target != lid {
						_ = nh.RequestLeaderTransfer(shardID, target)
						c.note("leader_transfer")
					}
					break
				}
			}
		}
	}
}

type histResult struct {
	ops     []*opRec
	log     []applyRec // one per index, index order
	smcheck string
	final   [][3]uint64
	finalOK bool
	notes   map[string]int
	net     [4]int64
}

// runHistory runs one cluster history and returns what was recorded.
func runHistory(cfg histCfg) (*histResult, error) {
	c, err := startCluster(cfg)
	if err != nil {
		return nil, err
	}
	stop := make(chan struct{})
	var wg, nwg sync.WaitGroup
	for i := 0; i < cfg.clients; i++ {
		wg.Add(1)
		go c.clientLoop(i+1, stop, &wg)
	}
	nstop := make(chan struct{})
	nwg.Add(1)
	go c.nemesis(nstop, &nwg)
	time.Sleep(cfg.duration)
	close(nstop)
	nwg.Wait()
	c.net.heal()
	close(stop)
	wg.Wait()
	// settle: one more write, then a linearizable read on every host so that every
	// replica has applied the whole log
	settled := true
	var lastW *opRec
	for try := 0; try < 10; try++ {
		nh := c.get(try % 3)
		if nh == nil {
			continue
		}
		lastW = c.doWrite(0, try%3, nh, 1, 1, false, 3*time.Second)
		if lastW.code == c.codes["completed"] {
			break
		}
	}
	if lastW == nil || lastW.code != c.codes["completed"] {
		settled = false
	}
	for i := range c.hosts {
		nh := c.get(i)
		if nh == nil {
			continue
		}
		ok := false
		for try := 0; try < 5 && !ok; try++ {
			ok = c.doRead(0, i, nh, 1, false, 3*time.Second).code == c.codes["completed"]
		}
		if !ok {
			settled = false
		}
	}
	res := &histResult{ops: c.ops, notes: c.notes}
	// final states of the live replicas
	c.rec.mu.Lock()
	live := map[uint64]*kvSM{}
	for k, v := range c.rec.live {
		live[k] = v
	}
	c.rec.mu.Unlock()
	var maxCount uint64
	finals := map[uint64][][3]uint64{}
	counts := map[uint64]uint64{}
	for rep, s := range live {
		cnt, st := s.state()
		counts[rep] = cnt
		finals[rep] = st
		if cnt >= maxCount {
			maxCount = cnt
			res.final = st
		}
	}
	for i := range c.hosts {
		if nh := c.get(i); nh != nil {
			nh.Close()
		}
	}
	c.net.close()
	res.net = [4]int64{c.net.sent, c.net.dropped, c.net.delayed, c.net.delivered}

	// the log: union of the apply streams by index; every replica must have seen
	// the same entry at an index, with the same result, as the count-th update
	c.rec.mu.Lock()
	applies := append([]applyRec(nil), c.rec.applies...)
	bad := append([]string(nil), c.rec.bad...)
	c.rec.mu.Unlock()
	byIndex := map[uint64]applyRec{}
	for _, a := range applies {
		if b, ok := byIndex[a.index]; ok {
			if b.id != a.id || b.key != a.key || b.val != a.val || b.prev != a.prev || b.ver != a.ver || b.count != a.count {
				bad = append(bad, fmt.Sprintf("replicas %d and %d disagree at index %d", b.replica, a.replica, a.index))
			}
		} else {
			byIndex[a.index] = a
		}
	}
	for _, a := range byIndex {
		res.log = append(res.log, a)
	}
	sort.Slice(res.log, func(i, j int) bool { return res.log[i].index < res.log[j].index })
	for i, a := range res.log {
		if a.count != uint64(i+1) {
			bad = append(bad, fmt.Sprintf("index %d applied as update #%d but is entry #%d of the log", a.index, a.count, i+1))
			break
		}
	}
	for rep, st := range finals {
		if counts[rep] == maxCount && fmt.Sprint(st) != fmt.Sprint(res.final) {
			bad = append(bad, fmt.Sprintf("replica %d final state differs at the same applied count", rep))
		}
	}
	res.finalOK = settled && maxCount == uint64(len(res.log))
	if len(bad) > 0 {
		sort.Strings(bad)
		res.smcheck = bad[0]
	}
	return res, nil
}
