package main

// The durability chain of an on-disk state machine replica, on the REAL
// rsm.StateMachine (NativeSM + OnDiskStateMachine adapter):
//
//	snapshot recorded at index i  =>  the user state machine is synced up to >= i
//	                              =>  (only then) the log may be compacted up to i
//
// The user state machine below keeps its in-core state and what it has synced
// apart (Update only changes the in-core state, as the IOnDiskStateMachine
// contract allows; Sync makes it durable; Open reports what is durable). The
// "snapshot worker" saves a snapshot at EVERY position inside the apply tasks of
// a workload (from INode.ApplyUpdate of entry p: the apply worker is between two
// entries, no lock held), the power is cut afterwards (only the synced state
// survives), the replica is reopened and the initial Recover is run. Recorded as
// a sequence of events and judged by the Go monitor and by the extracted
// [odsm_run].

import (
	"encoding/binary"
	"errors"
	"fmt"
	"io"
	"sort"
	"strings"
	"sync"

	"github.com/lni/dragonboat/v4/client"
	"github.com/lni/dragonboat/v4/config"
	pb "github.com/lni/dragonboat/v4/raftpb"
	sm "github.com/lni/dragonboat/v4/statemachine"
	hooks "github.com/lni/dragonboat/v4/verifhooks/c04"
	gvfs "github.com/lni/vfs"

	"verif/harness/vh"
)

// on-disk events: OA i = entry i applied (reported to the node: a proposal completes here),
// OS i = user Sync() with the in-core state at index i, ON i = snapshot recorded at index i,
// OX r = power cut, the user state machine reopens at index r, OF = the restart fails
type oev struct {
	kind string
	n    uint64
}

func oevsStr(evs []oev) string {
	p := make([]string, len(evs))
	for i, e := range evs {
		if e.kind == "OF" {
			p[i] = "OF"
		} else {
			p[i] = fmt.Sprintf("%s %d", e.kind, e.n)
		}
	}
	return strings.Join(p, " ; ")
}

func parseOevs(body string) []oev {
	var out []oev
	for _, p := range strings.Split(body, " ; ") {
		f := strings.Fields(p)
		if len(f) == 0 {
			continue
		}
		e := oev{kind: f[0]}
		if len(f) > 1 {
			e.n = u64(f[1])
		}
		out = append(out, e)
	}
	return out
}

const (
	codeSnapBeforeSync = 12
	codeRestartBelow   = 13
	codeRestartFailed  = 15
)

var ocodeText = map[int]string{
	codeSnapBeforeSync: "snapshot-recorded-before-sm-synced",
	codeRestartBelow:   "completed-not-durable: restart below the recorded snapshot",
	codeRestartFailed:  "not-restartable-after-power-cut",
}

// the Go monitor (mirrors odsm_step): returns position and code of the first violation
func odsmMonitor(evs []oev) (pos int, code int, synced, snap uint64, msg string) {
	var applied uint64
	for i, e := range evs {
		switch e.kind {
		case "OA":
			if e.n > applied {
				applied = e.n
			}
		case "OS":
			if e.n > synced {
				synced = e.n
			}
		case "ON":
			if e.n > synced {
				return i, codeSnapBeforeSync, synced, snap, fmt.Sprintf("snapshot-recorded-before-sm-synced: a snapshot with index %d was recorded while the on-disk state machine was synced only up to %d (the log may now be compacted up to %d)", e.n, synced, e.n)
			}
			if e.n > snap {
				snap = e.n
			}
		case "OX":
			if e.n < snap {
				return i, codeRestartBelow, synced, snap, fmt.Sprintf("completed-not-durable: after the power cut the on-disk state machine reopens at index %d, below the recorded snapshot %d: entries (%d, %d] were reported applied, are covered by the snapshot and are lost", e.n, snap, e.n, snap)
			}
			synced, applied = e.n, e.n
		case "OF":
			return i, codeRestartFailed, synced, snap, "not-restartable-after-power-cut: the initial Recover of the reopened replica fails"
		}
	}
	return len(evs), 0, synced, snap, ""
}

// the event list is appended to from the apply side and, for batched applies, from the
// concurrent snapshot worker
type odRec struct {
	mu  sync.Mutex
	evs []oev
}

func (r *odRec) add(e oev) {
	r.mu.Lock()
	r.evs = append(r.evs, e)
	r.mu.Unlock()
}

type odDisk struct{ index, count uint64 }

type odSM struct {
	disk         *odDisk
	index, count uint64
	rec          *odRec
}

func (s *odSM) Open(<-chan struct{}) (uint64, error) {
	s.index, s.count = s.disk.index, s.disk.count
	return s.index, nil
}
func (s *odSM) Update(ents []sm.Entry) ([]sm.Entry, error) {
	for i := range ents {
		s.count++
		s.index = ents[i].Index
		ents[i].Result = sm.Result{Value: s.count}
	}
	return ents, nil
}
func (s *odSM) Lookup(interface{}) (interface{}, error) { return s.count, nil }
func (s *odSM) Sync() error {
	s.disk.index, s.disk.count = s.index, s.count
	s.rec.add(oev{"OS", s.index})
	return nil
}
func (s *odSM) PrepareSnapshot() (interface{}, error) { return s.count, nil }
func (s *odSM) SaveSnapshot(ctx interface{}, w io.Writer, _ <-chan struct{}) error {
	b := make([]byte, 8)
	binary.LittleEndian.PutUint64(b, ctx.(uint64))
	_, err := w.Write(b)
	return err
}
func (s *odSM) RecoverFromSnapshot(io.Reader, <-chan struct{}) error {
	return errors.New("not expected to be called")
}
func (s *odSM) Close() error { return nil }

// keeps the most recent snapshot record, as the log store does; builds the record with the
// fields the real snapshotter.Save fills in
type odSnapshotter struct {
	ss  pb.Snapshot
	rec *odRec
}

func (s *odSnapshotter) lastIndex() uint64 {
	s.rec.mu.Lock()
	defer s.rec.mu.Unlock()
	return s.ss.Index
}

func (s *odSnapshotter) GetSnapshot() (pb.Snapshot, error) {
	if s.ss.Index == 0 {
		return pb.Snapshot{}, errors.New("no snapshot available")
	}
	return s.ss, nil
}
func (s *odSnapshotter) Stream(hooks.IStreamable, hooks.SSMeta, pb.IChunkSink) error {
	return errors.New("not expected to be called")
}
func (s *odSnapshotter) Shrunk(pb.Snapshot) (bool, error) { return false, nil }
func (s *odSnapshotter) Save(savable hooks.ISavable, meta hooks.SSMeta) (pb.Snapshot, hooks.SSEnv, error) {
	dummy, err := savable.Save(meta, io.Discard, meta.Session.Bytes(), nil)
	if err != nil {
		return pb.Snapshot{}, hooks.SSEnv{}, err
	}
	s.rec.mu.Lock()
	s.ss = pb.Snapshot{ShardID: 1, Membership: meta.Membership, Index: meta.Index, Term: meta.Term,
		OnDiskIndex: meta.OnDiskIndex, Dummy: dummy, Type: meta.Type}
	s.rec.mu.Unlock()
	s.rec.add(oev{"ON", meta.Index})
	return s.ss, hooks.SSEnv{}, nil
}
func (s *odSnapshotter) Load(pb.Snapshot, hooks.ILoadable, hooks.IRecoverable) error {
	return errors.New("not expected to be called")
}
func (s *odSnapshotter) IsNoSnapshotError(err error) bool {
	return err != nil && err.Error() == "no snapshot available"
}

type odNode struct {
	rsm    *hooks.StateMachine
	saveAt map[uint64]bool
	rec    *odRec
	notes  map[string]int
	snap   *odSnapshotter
	async  bool // the apply side holds the state machine lock here (batched apply): the snapshot
	// worker is a goroutine that gets its turn when the lock is released
	wg sync.WaitGroup
	mu sync.Mutex
}

func (n *odNode) StepReady()                                            {}
func (n *odNode) RestoreRemotes(pb.Snapshot) error                      { return nil }
func (n *odNode) ApplyConfigChange(pb.ConfigChange, uint64, bool) error { return nil }
func (n *odNode) ReplicaID() uint64                                     { return 1 }
func (n *odNode) ShardID() uint64                                       { return 1 }
func (n *odNode) ShouldStop() <-chan struct{}                           { return nil }
func (n *odNode) ApplyUpdate(e pb.Entry, r sm.Result, rejected bool, ignored bool, notifyRead bool) {
	n.rec.add(oev{"OA", e.Index})
	if n.saveAt[e.Index] {
		// the snapshot worker runs concurrently with the apply worker of an on-disk state machine
		save := func() {
			// node.doSave: a regular request is dropped when nothing was applied (as published
			// by the state machine) since the latest recorded snapshot
			if n.snap != nil && n.rsm.GetLastApplied() <= n.snap.lastIndex() {
				n.mu.Lock()
				n.notes["saves_skipped_by_node_guard"]++
				n.mu.Unlock()
				return
			}
			_, _, err := n.rsm.Save(hooks.SSRequest{})
			n.mu.Lock()
			if err != nil {
				n.notes["save_errors"]++
			} else {
				n.notes["saves"]++
			}
			n.mu.Unlock()
		}
		if n.async {
			n.wg.Add(1)
			go func() {
				defer n.wg.Done()
				_ = vh.Catch(save)
			}()
		} else {
			save()
		}
	}
}

type odRound struct {
	sync  bool  // a PeriodicSync task is queued first
	sizes []int // entries per task, queued together, one Handle call
}

type odWorkload struct {
	noop   bool // NoOP session (entries of a task are applied as one batch) or a registered client session
	rounds []odRound
}

func genOdWorkload(r *vh.Rand) odWorkload {
	w := odWorkload{noop: r.Chance(1, 3)}
	for i, n := 0, 2+r.Intn(4); i < n; i++ {
		rd := odRound{sync: r.Chance(1, 2)}
		for j, m := 0, 1+r.Intn(2); j < m; j++ {
			rd.sizes = append(rd.sizes, 1+r.Intn(4))
		}
		w.rounds = append(w.rounds, rd)
	}
	return w
}

func (w odWorkload) String() string {
	var p []string
	for _, rd := range w.rounds {
		s := ""
		if rd.sync {
			s = "s"
		}
		for _, n := range rd.sizes {
			s += fmt.Sprint(n)
		}
		p = append(p, s)
	}
	m := "session"
	if w.noop {
		m = "noop"
	}
	return m + ":" + strings.Join(p, ",")
}

// one run: the workload with snapshots saved right after the entries in saveAt, power cut
// after round cutAfter (or at the end), reopen, initial recover
func odRun(w odWorkload, saveAt map[uint64]bool, cutAfter int, notes map[string]int) (evs []oev, err error) {
	fs := gvfs.NewStrictMem()
	cfg := config.Config{ShardID: 1, ReplicaID: 1}
	disk := &odDisk{}
	rec := &odRec{}
	defer func() { evs = rec.evs }()
	usm := &odSM{disk: disk, rec: rec}
	snapshotter := &odSnapshotter{rec: rec}
	node := &odNode{saveAt: saveAt, rec: rec, notes: notes, async: w.noop, snap: snapshotter}
	var s *hooks.StateMachine
	if p := vh.Catch(func() {
		s = hooks.NewOnDiskRSM(cfg, usm, snapshotter, node, fs)
		node.rsm = s
		_, err = s.OpenOnDiskStateMachine()
	}); p != "" {
		return nil, fmt.Errorf("open: panic %s", p)
	}
	if err != nil {
		return nil, err
	}
	batch := make([]hooks.Task, 0, 8)
	apply := make([]sm.Entry, 0, 8)
	index := uint64(0)
	series := client.SeriesIDFirstProposal
	next := func() pb.Entry {
		index++
		e := pb.Entry{Type: pb.ApplicationEntry, Index: index, Term: 1, Cmd: []byte("c04")}
		e.ClientID = 1234
		if !w.noop {
			e.SeriesID, e.RespondedTo = series, series-1
			series++
		}
		return e
	}
	// index 1: the replica becomes a member; index 2: the client session (when used)
	cc := pb.ConfigChange{Type: pb.AddNode, ReplicaID: 1, Address: "a1", Initialize: true}
	index++
	first := []pb.Entry{{Type: pb.ConfigChangeEntry, Index: index, Term: 1, Cmd: pb.MustMarshal(&cc)}}
	if !w.noop {
		index++
		first = append(first, pb.Entry{Index: index, Term: 1, ClientID: 1234, SeriesID: client.SeriesIDForRegister})
	}
	handle := func() error {
		var herr error
		if p := vh.Catch(func() { _, herr = s.Handle(batch, apply) }); p != "" {
			return fmt.Errorf("Handle: panic %s", p)
		}
		node.wg.Wait()
		return herr
	}
	s.TaskQ().Add(hooks.Task{Entries: first})
	if err = handle(); err != nil {
		return nil, err
	}
	for ri, rd := range w.rounds {
		if rd.sync {
			s.TaskQ().Add(hooks.Task{PeriodicSync: true})
		}
		for _, n := range rd.sizes {
			var ents []pb.Entry
			for j := 0; j < n; j++ {
				ents = append(ents, next())
			}
			s.TaskQ().Add(hooks.Task{Entries: ents})
		}
		if err = handle(); err != nil {
			return nil, err
		}
		if ri == cutAfter {
			break
		}
	}
	// power cut: only what the user state machine synced survives; the snapshot record is in
	// the log store; the log may have been compacted up to the recorded snapshot
	usm2 := &odSM{disk: disk, rec: rec}
	node2 := &odNode{rec: rec, notes: notes}
	var restarted uint64
	var rerr error
	if p := vh.Catch(func() {
		s2 := hooks.NewOnDiskRSM(cfg, usm2, snapshotter, node2, fs)
		node2.rsm = s2
		restarted, rerr = s2.OpenOnDiskStateMachine()
		if rerr != nil {
			return
		}
		rec.add(oev{"OX", restarted})
		_, rerr = s2.Recover(hooks.Task{Initial: true})
	}); p != "" || rerr != nil {
		rec.add(oev{kind: "OF"})
	}
	return evs, nil
}

func genOnDiskCases(r *vh.Rand, w *vh.LineWriter, tier string) map[string]int {
	notes := map[string]int{}
	nW := 6
	if tier == "thorough" {
		nW = 60
	}
	n := 0
	for wi := 0; wi < nW; wi++ {
		wl := genOdWorkload(r)
		total := uint64(1)
		if !wl.noop {
			total++
		}
		for _, rd := range wl.rounds {
			for _, sz := range rd.sizes {
				total += uint64(sz)
			}
		}
		// a snapshot at every position; plus a few runs with two snapshots
		var plans []map[uint64]bool
		for p := uint64(1); p <= total; p++ {
			plans = append(plans, map[uint64]bool{p: true})
		}
		for k := 0; k < 3; k++ {
			a, b := uint64(1+r.Intn(int(total))), uint64(1+r.Intn(int(total)))
			plans = append(plans, map[uint64]bool{a: true, b: true})
		}
		for _, plan := range plans {
			cut := len(wl.rounds) // at the end
			if r.Chance(1, 2) {
				cut = r.Intn(len(wl.rounds))
			}
			evs, err := odRun(wl, plan, cut, notes)
			if err != nil {
				notes["ondisk_errors"]++
				fmt.Fprintf(stderrW, "c04: on-disk run %s: %v\n", wl, err)
				continue
			}
			var ps []string
			for p := range plan {
				ps = append(ps, fmt.Sprintf("%03d", p))
			}
			sort.Strings(ps)
			w.Printf("O%d ondisk w=%s save=%s cut=%d | %s\n", n, wl, strings.Join(ps, "+"), cut, oevsStr(evs))
			n++
			notes["ondisk_runs"]++
		}
	}
	return notes
}
