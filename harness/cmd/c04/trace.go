package main

// Event vocabulary of a recorded host trace, its text form, and the Go-side
// property monitor (the same predicate as coq/Model/Engine.v trace_step,
// written independently against the property statement).

import (
	"fmt"
	"sort"
	"strconv"
	"strings"

	pb "github.com/lni/dragonboat/v4/raftpb"
)

type ent struct{ index, term uint64 }

type msg struct {
	typ, to, from, term, logterm, logindex, commit uint64
	reject                                         bool
	ents                                           []ent
}

type upd struct {
	shard, replica      uint64
	term, vote, commit  uint64
	save, committed     []ent
	snapIndex, snapTerm uint64
	msgs                []msg
	fast                bool
}

type key struct{ shard, replica uint64 }

func (k key) String() string { return fmt.Sprintf("%d.%d", k.shard, k.replica) }

// event kinds: Q = message handed to the transport hub by the step worker
// (synchronous), W = message batch handed to the raftio.ITransport connection,
// P = update reported durable by SaveRaftState, A = entry handed to the user
// state machine, R = replica (re)started, X = crash instant of the host.
// C = image read back from the log store after a crash-restart, F = a completed
// proposal was not visible after a full restart.
type event struct {
	rec    image
	kind   byte
	k      key
	worker uint64
	batch  uint64
	m      msg
	u      upd
	index  uint64
}

func fromPBEntries(es []pb.Entry) []ent {
	out := make([]ent, len(es))
	for i, e := range es {
		out[i] = ent{e.Index, e.Term}
	}
	return out
}

func fromPBMsg(m pb.Message) msg {
	return msg{typ: uint64(m.Type), to: m.To, from: m.From, term: m.Term, logterm: m.LogTerm,
		logindex: m.LogIndex, commit: m.Commit, reject: m.Reject, ents: fromPBEntries(m.Entries)}
}

func fromPBUpdate(u pb.Update) upd {
	r := upd{shard: u.ShardID, replica: u.ReplicaID, term: u.State.Term, vote: u.State.Vote, commit: u.State.Commit,
		save: fromPBEntries(u.EntriesToSave), committed: fromPBEntries(u.CommittedEntries),
		snapIndex: u.Snapshot.Index, snapTerm: u.Snapshot.Term, fast: u.FastApply}
	for _, m := range u.Messages {
		r.msgs = append(r.msgs, fromPBMsg(m))
	}
	return r
}

func toPBEntries(es []ent) []pb.Entry {
	var out []pb.Entry
	for _, e := range es {
		out = append(out, pb.Entry{Index: e.index, Term: e.term})
	}
	return out
}

func toPBUpdate(u upd) pb.Update {
	r := pb.Update{ShardID: u.shard, ReplicaID: u.replica,
		State:         pb.State{Term: u.term, Vote: u.vote, Commit: u.commit},
		EntriesToSave: toPBEntries(u.save), CommittedEntries: toPBEntries(u.committed), FastApply: u.fast}
	if u.snapIndex != 0 {
		r.Snapshot = pb.Snapshot{Index: u.snapIndex, Term: u.snapTerm}
	}
	for _, m := range u.msgs {
		r.Messages = append(r.Messages, pb.Message{Type: pb.MessageType(m.typ), To: m.to, From: m.from, Term: m.term,
			LogTerm: m.logterm, LogIndex: m.logindex, Commit: m.commit, Reject: m.reject, Entries: toPBEntries(m.ents)})
	}
	return r
}

// ---- text form ----
// entries: "-" or "<first>:<term>.<term>..." (contiguous) or "!i/t.i/t" (arbitrary)

func entsStr(es []ent) string {
	if len(es) == 0 {
		return "-"
	}
	contig := true
	for i, e := range es {
		if e.index != es[0].index+uint64(i) {
			contig = false
		}
	}
	var b strings.Builder
	if contig {
		fmt.Fprintf(&b, "%d:", es[0].index)
		for i, e := range es {
			if i > 0 {
				b.WriteByte('.')
			}
			fmt.Fprintf(&b, "%d", e.term)
		}
	} else {
		b.WriteByte('!')
		for i, e := range es {
			if i > 0 {
				b.WriteByte('.')
			}
			fmt.Fprintf(&b, "%d/%d", e.index, e.term)
		}
	}
	return b.String()
}

func u64(s string) uint64 {
	v, err := strconv.ParseUint(s, 10, 64)
	if err != nil {
		panic("bad number " + s)
	}
	return v
}

func parseEnts(s string) []ent {
	if s == "-" || s == "" {
		return nil
	}
	var out []ent
	if s[0] == '!' {
		for _, p := range strings.Split(s[1:], ".") {
			q := strings.Split(p, "/")
			out = append(out, ent{u64(q[0]), u64(q[1])})
		}
		return out
	}
	c := strings.Index(s, ":")
	first := u64(s[:c])
	for i, p := range strings.Split(s[c+1:], ".") {
		out = append(out, ent{first + uint64(i), u64(p)})
	}
	return out
}

func b01(b bool) int {
	if b {
		return 1
	}
	return 0
}

func msgStr(m msg) string {
	return fmt.Sprintf("%d,%d,%d,%d,%d,%d,%d,%d,%s", m.typ, m.to, m.from, m.term, m.logterm, m.logindex, m.commit, b01(m.reject), entsStr(m.ents))
}

func parseMsg(s string) msg {
	f := strings.Split(s, ",")
	if len(f) != 9 {
		panic("bad message " + s)
	}
	return msg{typ: u64(f[0]), to: u64(f[1]), from: u64(f[2]), term: u64(f[3]), logterm: u64(f[4]), logindex: u64(f[5]),
		commit: u64(f[6]), reject: f[7] == "1", ents: parseEnts(f[8])}
}

func msgsStr(ms []msg) string {
	if len(ms) == 0 {
		return "-"
	}
	var p []string
	for _, m := range ms {
		p = append(p, msgStr(m))
	}
	return strings.Join(p, "+")
}

func parseMsgs(s string) []msg {
	if s == "-" {
		return nil
	}
	var out []msg
	for _, p := range strings.Split(s, "+") {
		out = append(out, parseMsg(p))
	}
	return out
}

// update body: "k=S.R st=T.V.C sv=ENTS ce=ENTS sn=I.T fa=0|1 ms=MSGS"
func updStr(u upd) string {
	return fmt.Sprintf("k=%d.%d st=%d.%d.%d sv=%s ce=%s sn=%d.%d fa=%d ms=%s", u.shard, u.replica, u.term, u.vote, u.commit,
		entsStr(u.save), entsStr(u.committed), u.snapIndex, u.snapTerm, b01(u.fast), msgsStr(u.msgs))
}

func eventStr(e event) string {
	switch e.kind {
	case 'Q':
		return fmt.Sprintf("Q w=%d k=%s m=%s", e.worker, e.k, msgStr(e.m))
	case 'W':
		return fmt.Sprintf("W k=%s m=%s", e.k, msgStr(e.m))
	case 'P':
		return fmt.Sprintf("P b=%d w=%d %s", e.batch, e.worker, updStr(e.u))
	case 'A':
		return fmt.Sprintf("A k=%s i=%d", e.k, e.index)
	case 'R':
		return fmt.Sprintf("R k=%s", e.k)
	case 'X':
		return "X"
	case 'C':
		return fmt.Sprintf("C k=%s st=%d.%d.%d sn=%d.%d lg=%s", e.k, e.rec.term, e.rec.vote, e.rec.commit, e.rec.snapIndex, e.rec.snapTerm, entsStr(e.rec.log))
	case 'F':
		return fmt.Sprintf("F k=%s i=%d", e.k, e.index)
	}
	panic("bad event kind")
}

func parseKey(s string) key {
	p := strings.Split(s, ".")
	return key{u64(p[0]), u64(p[1])}
}

func parseEvent(s string) event {
	f := strings.Fields(s)
	if len(f) == 0 {
		panic("empty event")
	}
	kv := map[string]string{}
	for _, t := range f[1:] {
		i := strings.Index(t, "=")
		if i < 0 {
			panic("bad token " + t)
		}
		kv[t[:i]] = t[i+1:]
	}
	e := event{kind: f[0][0]}
	if v, ok := kv["k"]; ok {
		e.k = parseKey(v)
	}
	if v, ok := kv["w"]; ok {
		e.worker = u64(v)
	}
	switch e.kind {
	case 'Q', 'W':
		e.m = parseMsg(kv["m"])
	case 'P':
		e.batch = u64(kv["b"])
		st := strings.Split(kv["st"], ".")
		sn := strings.Split(kv["sn"], ".")
		e.u = upd{shard: e.k.shard, replica: e.k.replica, term: u64(st[0]), vote: u64(st[1]), commit: u64(st[2]),
			save: parseEnts(kv["sv"]), committed: parseEnts(kv["ce"]), snapIndex: u64(sn[0]), snapTerm: u64(sn[1]),
			fast: kv["fa"] == "1", msgs: parseMsgs(kv["ms"])}
	case 'A', 'F':
		e.index = u64(kv["i"])
	case 'C':
		st := strings.Split(kv["st"], ".")
		sn := strings.Split(kv["sn"], ".")
		e.rec = image{term: u64(st[0]), vote: u64(st[1]), commit: u64(st[2]), snapIndex: u64(sn[0]), snapTerm: u64(sn[1]), log: parseEnts(kv["lg"])}
	case 'R', 'X':
	default:
		panic("bad event kind " + f[0])
	}
	return e
}

func parseEvents(body string) []event {
	var out []event
	for _, p := range strings.Split(body, " ; ") {
		p = strings.TrimSpace(p)
		if p == "" {
			continue
		}
		out = append(out, parseEvent(p))
	}
	return out
}

// ---- the durable shadow and the monitor ----

type image struct {
	term, vote, commit  uint64
	snapIndex, snapTerm uint64
	log                 []ent
}

func (g *image) lastDurable() uint64 {
	l := g.snapIndex
	if n := len(g.log); n > 0 && g.log[n-1].index > l {
		l = g.log[n-1].index
	}
	return l
}

// what the log store holds once SaveRaftState has returned for u
func (g *image) persist(u upd) {
	if !(u.term == 0 && u.vote == 0 && u.commit == 0) {
		g.term, g.vote, g.commit = u.term, u.vote, u.commit
	}
	if u.snapIndex > g.snapIndex {
		g.snapIndex, g.snapTerm = u.snapIndex, u.snapTerm
	}
	if len(u.save) > 0 {
		first := u.save[0].index
		var keep []ent
		for _, e := range g.log {
			if e.index < first {
				keep = append(keep, e)
			}
		}
		g.log = append(keep, u.save...)
	}
}

func (g *image) clone() *image {
	c := *g
	c.log = append([]ent(nil), g.log...)
	return &c
}

var (
	mtReplicate       = uint64(pb.Replicate)
	mtPing            = uint64(pb.Ping)
	mtReplicateResp   = uint64(pb.ReplicateResp)
	mtRequestVote     = uint64(pb.RequestVote)
	mtRequestVoteResp = uint64(pb.RequestVoteResp)
	mtHeartbeatResp   = uint64(pb.HeartbeatResp)
)

// message classes, written from the property statement and raft.finalizeMessageTerm
// (not from node.go): the Term field is the sender's own term except for pre-vote
// traffic and forwarded requests
func monitorFree(t uint64) bool { return t == mtReplicate || t == mtPing }

// SnapshotReceived is sent by the transport of the receiving host when the last chunk of a
// snapshot has arrived (term 0, no claim), not by the step pipeline
func outsidePipeline(t uint64) bool { return t == uint64(pb.SnapshotReceived) }
func claimsTerm(t uint64) bool {
	switch pb.MessageType(t) {
	case pb.Replicate, pb.Ping:
		return false
	case pb.RequestPreVote, pb.RequestPreVoteResp:
		return false
	case pb.Propose, pb.ReadIndex, pb.LeaderTransfer:
		return false
	}
	return true
}

const (
	codeOK = iota
	codeTerm
	codeVote
	codeEntries
	codeTermRegress
	codeVoteChanged
	codeAckTruncated
	codeApplyEarly
	code8
	code9
	codeEntriesLost
	codeCompletedLost
)

var codeText = []string{"ok", "term-not-durable", "vote-not-durable", "acked-entries-not-durable",
	"durable-term-regressed", "durable-vote-changed-in-term", "acked-entries-truncated", "applied-before-durable",
	"-", "-", "durable-entries-missing-after-crash", "lost-after-restart (completed proposal not visible, or replica not restartable)"}

func voteOK(g *image, t, c uint64) bool {
	return t < g.term || (g.term == t && g.vote == c && c != 0)
}

func coversCode(g *image, m msg) int {
	if !claimsTerm(m.typ) {
		return codeOK
	}
	if m.term > g.term {
		return codeTerm
	}
	if m.typ == mtRequestVote && !voteOK(g, m.term, m.from) {
		return codeVote
	}
	if m.typ == mtRequestVoteResp && !m.reject && !voteOK(g, m.term, m.to) {
		return codeVote
	}
	if m.typ == mtReplicateResp && !m.reject && !(m.term < g.term || m.logindex <= g.lastDurable()) {
		return codeEntries
	}
	return codeOK
}

type repState struct {
	img      *image
	ackTerm  uint64
	ackIndex uint64
	pos      int // events of this replica seen so far
	badPos   int
	badCode  int
	badWhy   string // for an image read back after a power cut: which field was lost
	sends    int
	persists int
	applies  int
	claims   int // sends that claimed something beyond what was durable before their own update
}

func newRepState() *repState { return &repState{img: &image{}, badPos: -1} }

// one event of the replica; mirrors trace_step/trace_run (first violation is sticky)
func (r *repState) step(e event) {
	if r.badCode != 0 {
		return
	}
	code := codeOK
	switch e.kind {
	case 'Q', 'W':
		r.sends++
		if claimsTerm(e.m.typ) && (e.m.typ == mtRequestVote || ((e.m.typ == mtRequestVoteResp || e.m.typ == mtReplicateResp) && !e.m.reject)) {
			r.claims++
		}
		code = coversCode(r.img, e.m)
		if code == codeOK && e.m.typ == mtReplicateResp && !e.m.reject {
			if r.ackTerm < e.m.term {
				r.ackTerm, r.ackIndex = e.m.term, e.m.logindex
			} else if r.ackTerm == e.m.term && e.m.logindex > r.ackIndex {
				r.ackIndex = e.m.logindex
			}
		}
	case 'P':
		r.persists++
		n := r.img.clone()
		n.persist(e.u)
		switch {
		case n.term < r.img.term:
			code = codeTermRegress
		case n.term == r.img.term && r.img.vote != 0 && n.vote != r.img.vote:
			code = codeVoteChanged
		case n.term == r.ackTerm && r.ackIndex > n.lastDurable():
			code = codeAckTruncated
		}
		if code == codeOK {
			r.img = n
		}
	case 'A':
		r.applies++
		if e.index > r.img.lastDurable() {
			code = codeApplyEarly
		}
	case 'C':
		n := e.rec.clone()
		switch {
		case n.term < r.img.term:
			code = codeTermRegress
			r.badWhy = fmt.Sprintf("term-not-durable: SaveRaftState acknowledged term %d, after the power cut the store returns term %d", r.img.term, n.term)
		case n.term == r.img.term && r.img.vote != 0 && n.vote != r.img.vote:
			code = codeVoteChanged
			r.badWhy = fmt.Sprintf("vote-not-durable: SaveRaftState acknowledged vote %d in term %d, after the power cut the store returns vote %d", r.img.vote, r.img.term, n.vote)
		case n.term == r.ackTerm && r.ackIndex > n.lastDurable():
			code = codeAckTruncated
			r.badWhy = fmt.Sprintf("acknowledged-entries-not-durable: index %d was acknowledged in term %d, after the power cut the log ends at %d", r.ackIndex, r.ackTerm, n.lastDurable())
		default:
			have := map[ent]bool{}
			for _, x := range n.log {
				have[x] = true
			}
			for _, x := range r.img.log {
				if x.index > n.snapIndex && !have[x] && code == codeOK {
					code = codeEntriesLost
					r.badWhy = fmt.Sprintf("acknowledged-entry-missing-after-restart (gap): entry %d (term %d), above the latest recorded snapshot (index %d), was acknowledged as saved; after the power cut / restart the log read back starts at %d", x.index, x.term, n.snapIndex, firstOf(n.log))
				}
			}
		}
		if code == codeOK {
			r.img = n
		}
	case 'F':
		code = codeCompletedLost
		if e.index == 0 {
			r.badWhy = fmt.Sprintf("not-readable-after-restart: the store cannot be opened or read back, or the replica cannot start; acknowledged term %d, vote %d and entries up to index %d are lost", r.img.term, r.img.vote, r.img.lastDurable())
		}
	default:
		return
	}
	if code != codeOK {
		r.badPos, r.badCode = r.pos, code
		return
	}
	r.pos++
}

func (r *repState) cloneState() *repState {
	c := *r
	c.img = r.img.clone()
	return &c
}

func firstOf(es []ent) uint64 {
	if len(es) == 0 {
		return 0
	}
	return es[0].index
}

func (r *repState) badText() string {
	if r.badWhy != "" {
		return r.badWhy
	}
	return codeText[r.badCode]
}

// commit index of the shadow of e's replica just before event e (for the lag count)
func shadowCommitBefore(evs []event, c event) uint64 {
	g := &image{}
	for i := range evs {
		e := evs[i]
		if e.kind == 'C' && e.k == c.k && e.rec.term == c.rec.term && e.rec.commit == c.rec.commit && len(e.rec.log) == len(c.rec.log) {
			return g.commit
		}
		if e.k != c.k {
			continue
		}
		switch e.kind {
		case 'P':
			g.persist(e.u)
		case 'C':
			g = e.rec.clone()
		}
	}
	return g.commit
}

func (r *repState) verdict() string {
	if r.badCode == 0 {
		return "ok"
	}
	return fmt.Sprintf("bad@%d:%d", r.badPos, r.badCode)
}

// per replica projection + monitor over one host trace; R and X events do not
// reset anything: the shadow is the durable image, acknowledgements stay binding
func monitorTrace(evs []event) map[key]*repState {
	reps := map[key]*repState{}
	get := func(k key) *repState {
		if reps[k] == nil {
			reps[k] = newRepState()
		}
		return reps[k]
	}
	for _, e := range evs {
		switch e.kind {
		case 'Q', 'W', 'P', 'A', 'C', 'F':
			get(e.k).step(e)
		case 'R':
			get(e.k)
		}
	}
	return reps
}

func sortedKeys(m map[key]*repState) []key {
	var ks []key
	for k := range m {
		ks = append(ks, k)
	}
	sort.Slice(ks, func(i, j int) bool {
		if ks[i].shard != ks[j].shard {
			return ks[i].shard < ks[j].shard
		}
		return ks[i].replica < ks[j].replica
	})
	return ks
}

// ---- the literal persist-before-send monitor on the synchronous events ----
// Per step worker: a non-free-order message may be handed to the transport only
// after the update that carries it has been reported durable. Implementation
// alone: walks the Q/P sequence; after P(u) the non-free-order messages of u are
// expected, in order; a non-free-order Q that is not the next expected one left
// before its update was saved. Returns, per worker, "" or a description.
func persistBeforeSend(evs []event) map[uint64]string {
	res := map[uint64]string{}
	pending := map[key][]msg{}
	for i, e := range evs {
		switch e.kind {
		case 'P':
			if _, ok := res[e.worker]; !ok {
				res[e.worker] = ""
			}
			if e.worker == 0 {
				// a snapshot record saved by the snapshot worker (or a save found durable after a
				// crash): not a step of the pipeline, carries no message
				continue
			}
			var rest []msg
			for _, m := range e.u.msgs {
				if !monitorFree(m.typ) {
					rest = append(rest, m)
				}
			}
			pending[e.k] = rest
		case 'Q':
			if _, ok := res[e.worker]; !ok {
				res[e.worker] = ""
			}
			if monitorFree(e.m.typ) || outsidePipeline(e.m.typ) || res[e.worker] != "" {
				continue
			}
			p := pending[e.k]
			if len(p) == 0 || msgStr(p[0]) != msgStr(e.m) {
				res[e.worker] = fmt.Sprintf("event %d: replica %s handed message type %d (to %d, term %d) to the transport before the update carrying it was saved",
					i, e.k, e.m.typ, e.m.to, e.m.term)
				continue
			}
			pending[e.k] = p[1:]
		case 'R':
			delete(pending, e.k)
		case 'X':
			pending = map[key][]msg{}
		}
	}
	return res
}
