package main

// Single-replica scenarios over the REAL raft.Peer (internal/raft) and the real
// LogReader: random schedules of ticks, votes, vote requests, heartbeats,
// replication and proposals. Every update the peer hands out is pushed through
// the pipeline order of the model (free-order sends, persist, the rest) and
// recorded; the recorded trace is then judged like a NodeHost trace. This is the
// implementation-side check of the hypothesis update_covers (the raft core puts
// into State / EntriesToSave whatever its messages claim), including the
// vote-only State change that a 3-host cluster rarely produces.

import (
	"fmt"
	"os"

	"github.com/lni/dragonboat/v4/config"
	"github.com/lni/dragonboat/v4/raftio"
	pb "github.com/lni/dragonboat/v4/raftpb"
	hooks "github.com/lni/dragonboat/v4/verifhooks/c04"

	"verif/harness/vh"
)

// memLogDB: the minimum of raftio.ILogDB the LogReader needs (entries by index)
type memLogDB struct {
	raftio.ILogDB
	ents map[uint64]pb.Entry
}

func (d *memLogDB) IterateEntries(ents []pb.Entry, size uint64, shardID uint64, replicaID uint64,
	low uint64, high uint64, maxSize uint64) ([]pb.Entry, uint64, error) {
	for i := low; i < high; i++ {
		e, ok := d.ents[i]
		if !ok {
			break
		}
		size += uint64(e.SizeUpperLimit())
		if size > maxSize && len(ents) > 0 {
			break
		}
		ents = append(ents, e)
	}
	return ents, size, nil
}

func peerScenario(r *vh.Rand, steps int) (evs []event, notes map[string]int) {
	notes = map[string]int{}
	const self = 1
	k := key{1, self}
	db := &memLogDB{ents: map[uint64]pb.Entry{}}
	lr := hooks.NewLogReader(1, self, db)
	cfg := config.Config{ShardID: 1, ReplicaID: self, ElectionRTT: 10, HeartbeatRTT: 1, CheckQuorum: r.Bool(), PreVote: r.Chance(1, 3)}
	addrs := []hooks.PeerAddress{{ReplicaID: 1, Address: "a1"}, {ReplicaID: 2, Address: "a2"}, {ReplicaID: 3, Address: "a3"}}
	var p hooks.Peer
	if pn := vh.Catch(func() { p = hooks.Launch(cfg, lr, addrs, true, true) }); pn != "" {
		return nil, notes
	}
	shadow := &image{}
	term := uint64(1)
	applied := uint64(0)
	batch := uint64(0)
	lastTerm := func() uint64 {
		if n := len(shadow.log); n > 0 {
			return shadow.log[n-1].term
		}
		return 0
	}
	step := func() bool {
		ok := true
		if pn := vh.Catch(func() {
			if !p.HasUpdate(true) {
				return
			}
			ud, err := p.GetUpdate(true, applied)
			if err != nil {
				ok = false
				return
			}
			batch++
			u := fromPBUpdate(ud)
			prev := *shadow
			for _, m := range u.msgs {
				if monitorFree(m.typ) {
					evs = append(evs, event{kind: 'Q', k: k, worker: 1, m: m})
				}
			}
			evs = append(evs, event{kind: 'P', k: k, worker: 1, batch: batch, u: u})
			shadow.persist(u)
			if u.term != 0 && prev.term == shadow.term && prev.vote != shadow.vote {
				notes["vote_only_state_change"]++
			}
			for _, e := range ud.EntriesToSave {
				db.ents[e.Index] = e
			}
			for _, m := range u.msgs {
				if !monitorFree(m.typ) {
					evs = append(evs, event{kind: 'Q', k: k, worker: 1, m: m})
					if m.typ == mtRequestVoteResp && !m.reject {
						notes["votes_granted"]++
					}
					if m.typ == mtReplicateResp && !m.reject {
						notes["acks"]++
					}
				}
				if m.term > term {
					term = m.term
				}
			}
			if ud.State.Term > term {
				term = ud.State.Term
			}
			if err := lr.Append(ud.EntriesToSave); err != nil {
				ok = false
				return
			}
			for _, e := range ud.CommittedEntries {
				evs = append(evs, event{kind: 'A', k: k, index: e.Index})
				applied = e.Index
			}
			p.Commit(ud)
			p.NotifyRaftLastApplied(applied)
		}); pn != "" {
			notes["scenario_panics"]++
			if os.Getenv("C04_DEBUG") != "" {
				fmt.Fprintln(os.Stderr, "step panic:", pn[:min(len(pn), 120)])
			}
			return false
		}
		return ok
	}
	if !step() {
		return evs, notes
	}
	// environment discipline (what C03 guarantees about the other replicas): one leader per
	// term, whose log is append-only and extends a prefix of this replica's log
	type leader struct {
		from     uint64
		base     uint64 // the leader's log equals ours up to base ...
		baseTerm uint64
		log      []ent // ... and continues with these entries of its own term
		decided  bool
	}
	leaders := map[uint64]*leader{}
	selfRan := map[uint64]bool{}
	maxCommit := uint64(3)
	leaderOf := func(t uint64) *leader {
		if leaders[t] == nil {
			leaders[t] = &leader{from: uint64(2 + r.Intn(2))}
		}
		return leaders[t]
	}
	termAt := func(i uint64) uint64 {
		for _, e := range shadow.log {
			if e.index == i {
				return e.term
			}
		}
		return 0
	}
	for i := 0; i < steps; i++ {
		for _, e := range evs[len(evs)-min(len(evs), 12):] {
			if e.kind == 'Q' && e.m.typ == mtRequestVote {
				selfRan[e.m.term] = true
			}
		}
		from := uint64(2 + r.Intn(2))
		last := shadow.lastDurable()
		t := term
		if r.Chance(1, 3) {
			t = term + 1
		}
		if r.Chance(1, 12) {
			t = term + 2
		}
		var m *pb.Message
		switch r.Intn(10) {
		case 0:
			n := 1 + r.Intn(12)
			if pn := vh.Catch(func() {
				for j := 0; j < n; j++ {
					_ = p.Tick()
				}
			}); pn != "" {
				return evs, notes
			}
		case 1, 2: // a vote request: up to date or stale log, sometimes with the transfer hint
			m = &pb.Message{Type: pb.RequestVote, From: from, To: self, Term: t, LogIndex: last + uint64(r.Intn(2)), LogTerm: lastTerm()}
			if r.Chance(1, 3) {
				m.LogIndex, m.LogTerm = 0, 0
			}
			if r.Bool() {
				m.Hint = from
			}
		case 3:
			m = &pb.Message{Type: pb.RequestVoteResp, From: from, To: self, Term: term, Reject: r.Chance(1, 3)}
		case 4:
			if selfRan[t] {
				t++
			}
			m = &pb.Message{Type: pb.Heartbeat, From: leaderOf(t).from, To: self, Term: t, Commit: shadow.commit}
		case 5, 6: // replication from the leader of t: append-only, sometimes replacing our uncommitted tail
			if selfRan[t] {
				t++
			}
			if !step() { // make the durable shadow equal to the in-memory log first
				return evs, notes
			}
			last = shadow.lastDurable()
			ld := leaderOf(t)
			if !ld.decided {
				ld.decided = true
				ld.base = last
				if last > maxCommit && last > shadow.commit && termAt(last) < t && r.Chance(1, 4) {
					ld.base = last - 1
				}
				ld.baseTerm = termAt(ld.base)
			}
			// extend the leader's log, then send a window of it
			for j, n := 0, r.Intn(3); j < n || len(ld.log) == 0; j++ {
				ld.log = append(ld.log, ent{ld.base + uint64(len(ld.log)) + 1, t})
			}
			s0 := r.Intn(len(ld.log))
			prevI, prevT := ld.base+uint64(s0), t
			if s0 == 0 {
				prevT = ld.baseTerm
			}
			cnt := 1 + r.Intn(len(ld.log)-s0)
			m = &pb.Message{Type: pb.Replicate, From: ld.from, To: self, Term: t, LogIndex: prevI, LogTerm: prevT}
			for j := 0; j < cnt; j++ {
				e := ld.log[s0+j]
				m.Entries = append(m.Entries, pb.Entry{Index: e.index, Term: e.term, Cmd: []byte{byte(e.index)}})
			}
			m.Commit = shadow.commit
			if r.Bool() {
				m.Commit = prevI + uint64(r.Intn(cnt+1))
				if m.Commit < shadow.commit {
					m.Commit = shadow.commit
				}
			}
			if m.Commit > maxCommit {
				maxCommit = m.Commit
			}
		case 7:
			if !cfg.PreVote {
				continue
			}
			m = &pb.Message{Type: pb.RequestPreVote, From: from, To: self, Term: term + 1, LogIndex: last, LogTerm: lastTerm()}
		case 8:
			if pn := vh.Catch(func() { _ = p.ProposeEntries([]pb.Entry{{Cmd: []byte{byte(i)}}}) }); pn != "" {
				return evs, notes
			}
		default:
			m = &pb.Message{Type: pb.ReplicateResp, From: from, To: self, Term: term, LogIndex: last}
			if r.Chance(1, 3) && !selfRan[term] {
				m = &pb.Message{Type: pb.TimeoutNow, From: leaderOf(term).from, To: self, Term: term}
			}
		}
		if m != nil {
			mm := *m
			if pn := vh.Catch(func() { _ = p.Handle(mm) }); pn != "" {
				notes["scenario_panics"]++
				if os.Getenv("C04_DEBUG") != "" {
					fmt.Fprintln(os.Stderr, "handle panic:", mm.Type, pn[:min(len(pn), 120)])
				}
				return evs, notes
			}
		}
		if r.Chance(3, 4) {
			if !step() {
				return evs, notes
			}
		}
	}
	step()
	return evs, notes
}

func genPeerCases(r *vh.Rand, w *vh.LineWriter, n int) (map[string]int, [][]event) {
	total := map[string]int{}
	var traces [][]event
	for i := 0; i < n; i++ {
		evs, notes := peerScenario(r, 30+r.Intn(40))
		for k, v := range notes {
			total[k] += v
		}
		if len(evs) == 0 {
			continue
		}
		w.Printf("U%d live peer=raft.Peer | %s\n", i, eventsStr(evs))
		traces = append(traces, evs)
	}
	_ = fmt.Sprint
	return total, traces
}
