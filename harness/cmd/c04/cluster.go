package main

// Real NodeHosts in one process over in-memory strict file systems and the
// channel transport, instrumented through the public extension points
// (Expert.LogDBFactory, Expert.TransportFactory, the user state machine) plus one
// add-only hook in front of NodeHost's transport hub (synchronous send instant).
// All instrumentation of one host shares one lock = one total event order.

import (
	"context"
	"encoding/binary"
	"errors"
	"fmt"
	"io"
	"log"
	"os"
	"sync"
	"sync/atomic"
	"time"

	dragonboat "github.com/lni/dragonboat/v4"
	"github.com/lni/dragonboat/v4/config"
	"github.com/lni/dragonboat/v4/logger"
	chantrans "github.com/lni/dragonboat/v4/plugin/chan"
	"github.com/lni/dragonboat/v4/raftio"
	pb "github.com/lni/dragonboat/v4/raftpb"
	sm "github.com/lni/dragonboat/v4/statemachine"
	hooks "github.com/lni/dragonboat/v4/verifhooks/c04"
	gvfs "github.com/lni/vfs"

	"verif/harness/vh"
)

var clusterSeq uint64

type hostRec struct {
	mu           sync.Mutex
	id           int
	execShards   uint64
	events       []event
	batch        uint64
	syncEvents   int // Q and P events so far (crash boundaries)
	crashAt      int // crash when syncEvents reaches this value; <0 = never
	crashed      bool
	crashedC     chan struct{}
	fs           *gvfs.MemFS
	saveDelay    time.Duration
	mon          map[key]*repState // live shadow, for the crash comparison
	inflight     map[uint64][]upd  // worker -> updates inside SaveRaftState right now
	cut          map[key]upd       // updates that were inside SaveRaftState at the crash instant
	holdArmed    bool              // the next SaveRaftState with entries waits before it writes
	holdC        chan struct{}     // closed when that save is being held
	releaseC     chan struct{}     // closed to let it go on (or to drop it when the power is gone)
	fsCrashAt    int               // crash at this file system operation counted inside SaveRaftState spans; <0 = never
	fsOps        int
	dropPer1000  int // wire: probability of losing a message batch
	delayPer1000 int // wire: probability of delaying a message batch
	rnd          *vh.Rand
}

func (h *hostRec) setInflight(worker uint64, uds []pb.Update) {
	h.mu.Lock()
	defer h.mu.Unlock()
	if uds == nil {
		delete(h.inflight, worker)
		return
	}
	var l []upd
	for _, u := range uds {
		l = append(l, fromPBUpdate(u))
	}
	h.inflight[worker] = l
}

func (h *hostRec) rep(k key) *repState {
	if h.mon[k] == nil {
		h.mon[k] = newRepState()
	}
	return h.mon[k]
}

// add records e unless the host is past its crash instant; returns false when
// the caller must behave as if the process were dead (drop the message)
func (h *hostRec) add(e event) bool {
	h.mu.Lock()
	defer h.mu.Unlock()
	if h.crashed {
		return false
	}
	h.events = append(h.events, e)
	h.rep(e.k).step(e)
	if e.kind == 'Q' {
		h.boundary()
	}
	return true
}

// called with h.mu held after a synchronous step-worker event: the crash instant
func (h *hostRec) boundary() {
	h.syncEvents++
	if h.crashAt >= 0 && h.syncEvents >= h.crashAt && !h.crashed {
		h.crashed = true
		// everything synced so far is what a power cut would leave behind
		h.fs.SetIgnoreSyncs(true)
		h.events = append(h.events, event{kind: 'X'})
		h.cut = map[key]upd{}
		for _, l := range h.inflight {
			for _, u := range l {
				h.cut[key{u.shard, u.replica}] = u
			}
		}
		close(h.crashedC)
	}
}

func (h *hostRec) persisted(uds []pb.Update, worker uint64) {
	if len(uds) == 0 {
		return
	}
	h.mu.Lock()
	defer h.mu.Unlock()
	delete(h.inflight, worker)
	if h.crashed {
		return
	}
	h.batch++
	for _, u := range uds {
		e := event{kind: 'P', k: key{u.ShardID, u.ReplicaID}, worker: worker, batch: h.batch, u: fromPBUpdate(u)}
		h.events = append(h.events, e)
		h.rep(e.k).step(e)
	}
	h.boundary()
}

// ---- file system wrapper: a power cut between any two file system operations of a save ----

// The host's file system is lni/vfs ErrorFS (the only wrapper the Pebble store accepts) around
// the strict MemFS, with the recorder as its injector: it never injects an error, it counts the
// mutating operations the host performs while a SaveRaftState is in progress and cuts the power
// right before a chosen one: everything that was not fsynced before that instant is lost
// (SetIgnoreSyncs), later output is dropped.
func (h *hostRec) MaybeError(op gvfs.Op) error {
	if op != gvfs.OpRead {
		h.fsOp()
	}
	return nil
}

func (h *hostRec) fsOp() {
	h.mu.Lock()
	defer h.mu.Unlock()
	if h.crashed || h.fsCrashAt < 0 || len(h.inflight) == 0 {
		return
	}
	h.fsOps++
	if h.fsOps < h.fsCrashAt {
		return
	}
	h.crashed = true
	h.fs.SetIgnoreSyncs(true)
	h.events = append(h.events, event{kind: 'X'})
	h.cut = map[key]upd{}
	for _, l := range h.inflight {
		for _, u := range l {
			h.cut[key{u.shard, u.replica}] = u
		}
	}
	close(h.crashedC)
}

// ---- log store wrapper ----

type recLogDB struct {
	raftio.ILogDB
	h *hostRec
}

func (l *recLogDB) SaveRaftState(uds []pb.Update, worker uint64) error {
	if l.h.saveDelay > 0 && len(uds) > 0 {
		// scheduling perturbation only: widens the window in which a message that
		// was (wrongly) handed over before the save can reach the wire first
		time.Sleep(l.h.saveDelay)
	}
	if l.h.hold(uds) {
		return nil // the power went while the save was waiting: nothing was written
	}
	if len(uds) > 0 {
		l.h.setInflight(worker, uds)
	}
	err := l.ILogDB.SaveRaftState(uds, worker)
	if err == nil {
		l.h.persisted(uds, worker)
	} else {
		l.h.setInflight(worker, nil)
	}
	return err
}

// a locally taken snapshot is recorded in the log store by the snapshotter (snapshot worker)
func (l *recLogDB) SaveSnapshots(uds []pb.Update) error {
	err := l.ILogDB.SaveSnapshots(uds)
	if err == nil {
		l.h.snapshotsRecorded(uds)
	}
	return err
}

func (h *hostRec) snapshotsRecorded(uds []pb.Update) {
	h.mu.Lock()
	defer h.mu.Unlock()
	if h.crashed {
		return
	}
	h.batch++
	for _, u := range uds {
		e := event{kind: 'P', k: key{u.ShardID, u.ReplicaID}, worker: 0, batch: h.batch,
			u: upd{shard: u.ShardID, replica: u.ReplicaID, snapIndex: u.Snapshot.Index, snapTerm: u.Snapshot.Term, fast: true}}
		h.events = append(h.events, e)
		h.rep(e.k).step(e)
	}
}

// hold: when armed, a SaveRaftState that has entries to save waits (before anything is
// written) until it is released; returns true when the host lost power meanwhile
func (h *hostRec) hold(uds []pb.Update) bool {
	h.mu.Lock()
	has := false
	for _, u := range uds {
		if len(u.EntriesToSave) > 0 {
			has = true
		}
	}
	if !h.holdArmed || !has {
		crashed := h.crashed
		h.mu.Unlock()
		_ = crashed
		return false
	}
	h.holdArmed = false
	hc, rc := h.holdC, h.releaseC
	h.mu.Unlock()
	close(hc)
	select {
	case <-rc:
	case <-time.After(5 * time.Second):
	}
	return h.isCrashed()
}

// crashNow: power cut at this instant, from the controlling goroutine
func (h *hostRec) crashNow() {
	h.mu.Lock()
	defer h.mu.Unlock()
	if h.crashed {
		return
	}
	h.crashed = true
	h.fs.SetIgnoreSyncs(true)
	h.events = append(h.events, event{kind: 'X'})
	h.cut = map[key]upd{}
	for _, l := range h.inflight {
		for _, u := range l {
			h.cut[key{u.shard, u.replica}] = u
		}
	}
	close(h.crashedC)
}

type recLogDBFactory struct {
	inner config.LogDBFactory
	h     *hostRec
	last  *recLogDB
}

func (f *recLogDBFactory) Create(c config.NodeHostConfig, cb config.LogDBCallback, dirs []string, wals []string) (raftio.ILogDB, error) {
	db, err := f.inner.Create(c, cb, dirs, wals)
	if err != nil {
		return nil, err
	}
	f.last = &recLogDB{ILogDB: db, h: f.h}
	return f.last, nil
}
func (f *recLogDBFactory) Name() string { return f.inner.Name() }

// ---- transport wrapper ----

type recConn struct {
	raftio.IConnection
	h *hostRec
}

func (c *recConn) SendMessageBatch(b pb.MessageBatch) error {
	for _, m := range b.Requests {
		if !c.h.add(event{kind: 'W', k: key{m.ShardID, m.From}, m: fromPBMsg(m)}) {
			return nil // past the crash instant: nothing leaves the host
		}
	}
	// an unreliable network: the batch left the host (recorded above) and may be lost or late
	switch c.h.wireFault() {
	case 1:
		return nil
	case 2:
		time.Sleep(time.Duration(1+c.h.wireDelay()) * time.Millisecond)
	}
	return c.IConnection.SendMessageBatch(b)
}

func (h *hostRec) wireFault() int {
	h.mu.Lock()
	defer h.mu.Unlock()
	if h.rnd == nil {
		return 0
	}
	x := h.rnd.Intn(1000)
	if x < h.dropPer1000 {
		return 1
	}
	if x < h.dropPer1000+h.delayPer1000 {
		return 2
	}
	return 0
}

func (h *hostRec) wireDelay() int {
	h.mu.Lock()
	defer h.mu.Unlock()
	return h.rnd.Intn(15)
}

type recTransport struct {
	raftio.ITransport
	h *hostRec
}

func (t *recTransport) GetConnection(ctx context.Context, target string) (raftio.IConnection, error) {
	c, err := t.ITransport.GetConnection(ctx, target)
	if err != nil {
		return nil, err
	}
	return &recConn{IConnection: c, h: t.h}, nil
}

type recTransportFactory struct{ h *hostRec }

func (f *recTransportFactory) Create(c config.NodeHostConfig, mh raftio.MessageHandler, ch raftio.ChunkHandler) raftio.ITransport {
	return &recTransport{ITransport: chantrans.NewChanTransport(c, mh, ch), h: f.h}
}
func (f *recTransportFactory) Validate(string) bool { return true }

// ---- state machine ----

type recSM struct {
	h       *hostRec
	k       key
	applied map[uint64]bool
}

func (s *recSM) Update(e sm.Entry) (sm.Result, error) {
	s.h.add(event{kind: 'A', k: s.k, index: e.Index})
	if len(e.Cmd) >= 8 {
		s.applied[binary.LittleEndian.Uint64(e.Cmd)] = true
	}
	return sm.Result{Value: e.Index}, nil
}
func (s *recSM) Lookup(q interface{}) (interface{}, error) {
	return s.applied[q.(uint64)], nil
}
func (s *recSM) SaveSnapshot(w io.Writer, _ sm.ISnapshotFileCollection, _ <-chan struct{}) error {
	b := make([]byte, 8)
	binary.LittleEndian.PutUint64(b, uint64(len(s.applied)))
	if _, err := w.Write(b); err != nil {
		return err
	}
	for id := range s.applied {
		binary.LittleEndian.PutUint64(b, id)
		if _, err := w.Write(b); err != nil {
			return err
		}
	}
	return nil
}
func (s *recSM) RecoverFromSnapshot(r io.Reader, _ []sm.SnapshotFile, _ <-chan struct{}) error {
	b := make([]byte, 8)
	if _, err := io.ReadFull(r, b); err != nil {
		return err
	}
	n := binary.LittleEndian.Uint64(b)
	s.applied = map[uint64]bool{}
	for i := uint64(0); i < n; i++ {
		if _, err := io.ReadFull(r, b); err != nil {
			return err
		}
		s.applied[binary.LittleEndian.Uint64(b)] = true
	}
	return nil
}
func (s *recSM) Close() error { return nil }

// ---- cluster ----

type host struct {
	rec  *hostRec
	nh   *dragonboat.NodeHost
	ldbf *recLogDBFactory
	addr string
	dir  string
}

type cluster struct {
	tag                       string
	useTan                    bool
	execShards                uint64
	shards                    []uint64
	hosts                     []*host
	members                   map[uint64]dragonboat.Target
	rnd                       *vh.Rand
	completed                 map[uint64][]uint64 // shard -> ids of proposals reported Completed
	compactionOverhead        uint64
	snapshotEntries           uint64
	notifyCommit              bool
	checkQuorum               map[uint64]bool
	preVote                   map[uint64]bool
	dropPer1000, delayPer1000 int
	beforeStartReplicas       func() // called by restartHost after the store was read back
	nextID                    uint64
	notes                     map[string]int
	mu                        sync.Mutex
}

type nullLogger struct{}

func (nullLogger) SetLevel(logger.LogLevel)                    {}
func (nullLogger) Debugf(format string, args ...interface{})   {}
func (nullLogger) Infof(format string, args ...interface{})    {}
func (nullLogger) Warningf(format string, args ...interface{}) {}
func (nullLogger) Errorf(format string, args ...interface{})   {}
func (nullLogger) Panicf(format string, args ...interface{})   { panic(fmt.Sprintf(format, args...)) }

var quietOnce sync.Once

// the library's log text is not an observation; panics stay panics
func quietLogs() {
	quietOnce.Do(func() {
		if os.Getenv("C04_LOGS") == "" {
			logger.SetLoggerFactory(func(string) logger.ILogger { return nullLogger{} })
			log.SetOutput(io.Discard)
		}
	})
}

func newCluster(seed uint64, useTan bool, execShards uint64, nShards int, saveDelay time.Duration) *cluster {
	return newClusterN(seed, useTan, execShards, nShards, 3, saveDelay)
}

// the cluster of this (child) process, for the watchdog
var watchCluster *cluster

// watchdog: a cluster that wedges (a proposal that never returns, a Close that never ends) must
// not hang the case generation: after limit the events recorded so far are written out as the
// result of the run (each host trace ends with a cut marker, so that the order checks accept
// the unfinished batch) and the process exits.
func startWatchdog(limit time.Duration, dump func(traces [][]event)) {
	time.AfterFunc(limit, func() {
		c := watchCluster
		if c == nil {
			os.Exit(3)
		}
		var traces [][]event
		for _, h := range c.hosts {
			h.rec.mu.Lock()
			evs := append([]event(nil), h.rec.events...)
			h.rec.crashed = true
			h.rec.mu.Unlock()
			traces = append(traces, append(evs, event{kind: 'X'}))
		}
		fmt.Fprintf(os.Stderr, "c04: watchdog: the run did not finish within %v, the events recorded so far are used\n", limit)
		dump(traces)
		os.Exit(0)
	})
}

func newClusterN(seed uint64, useTan bool, execShards uint64, nShards int, nHosts int, saveDelay time.Duration) *cluster {
	quietLogs()
	c := &cluster{useTan: useTan, execShards: execShards, rnd: vh.NewRand(seed), completed: map[uint64][]uint64{},
		members: map[uint64]dragonboat.Target{}, notes: map[string]int{}}
	c.tag = fmt.Sprintf("c04-%d", atomic.AddUint64(&clusterSeq, 1))
	watchCluster = c
	for s := 1; s <= nShards; s++ {
		c.shards = append(c.shards, uint64(s))
	}
	for i := 0; i < nHosts; i++ {
		h := &host{addr: fmt.Sprintf("%s-host%d", c.tag, i+1), dir: fmt.Sprintf("/c04/host%d", i+1)}
		h.rec = &hostRec{id: i + 1, execShards: execShards, crashAt: -1, crashedC: make(chan struct{}),
			fs: gvfs.NewStrictMem(), saveDelay: saveDelay, mon: map[key]*repState{}, inflight: map[uint64][]upd{}, fsCrashAt: -1,
			rnd: vh.NewRand(seed*31 + uint64(i))}
		c.hosts = append(c.hosts, h)
		c.members[uint64(i+1)] = h.addr
	}
	return c
}

func (c *cluster) startHost(i int) error {
	h := c.hosts[i]
	h.rec.mu.Lock()
	h.rec.dropPer1000, h.rec.delayPer1000 = c.dropPer1000, c.delayPer1000
	h.rec.mu.Unlock()
	inner := hooks.DefaultLogDBFactory()
	if c.useTan {
		inner = hooks.TanLogDBFactory()
	}
	h.ldbf = &recLogDBFactory{inner: inner, h: h.rec}
	nhc := config.NodeHostConfig{
		NodeHostDir:    h.dir,
		NotifyCommit:   c.notifyCommit,
		RTTMillisecond: 10,
		RaftAddress:    h.addr,
		Expert: config.ExpertConfig{
			FS:               gvfs.Wrap(h.rec.fs, h.rec),
			LogDBFactory:     h.ldbf,
			TransportFactory: &recTransportFactory{h: h.rec},
			Engine: config.EngineConfig{ExecShards: c.execShards, CommitShards: 2, ApplyShards: 2,
				SnapshotShards: 2, CloseShards: 2},
		},
	}
	nh, err := dragonboat.NewNodeHost(nhc)
	if err != nil {
		return err
	}
	h.nh = nh
	rec := h.rec
	exec := c.execShards
	dragonboat.VerifC04WrapTransport(nh, func(m pb.Message, snapshot bool) bool {
		return rec.add(event{kind: 'Q', k: key{m.ShardID, m.From}, worker: m.ShardID%exec + 1, m: fromPBMsg(m)})
	})
	return nil
}

func (c *cluster) startReplicas(i int, restart bool) error {
	h := c.hosts[i]
	for _, s := range c.shards {
		cq, ok := c.checkQuorum[s]
		if !ok {
			cq = true
		}
		pv, ok := c.preVote[s]
		if !ok {
			pv = s%2 == 0
		}
		rc := config.Config{ReplicaID: uint64(i + 1), ShardID: s, ElectionRTT: 20, HeartbeatRTT: 4, CheckQuorum: cq,
			PreVote: pv, CompactionOverhead: c.compactionOverhead, SnapshotEntries: c.snapshotEntries}
		k := key{s, uint64(i + 1)}
		rec := h.rec
		create := func(shardID, replicaID uint64) sm.IStateMachine {
			return &recSM{h: rec, k: key{shardID, replicaID}, applied: map[uint64]bool{}}
		}
		members := c.members
		if restart {
			members = map[uint64]dragonboat.Target{}
		}
		rec.mu.Lock()
		rec.events = append(rec.events, event{kind: 'R', k: k})
		rec.mu.Unlock()
		if err := h.nh.StartReplica(members, false, create, rc); err != nil {
			return fmt.Errorf("StartReplica %s: %v", k, err)
		}
	}
	return nil
}

func (c *cluster) start() error {
	for i := range c.hosts {
		if err := c.startHost(i); err != nil {
			return err
		}
	}
	for i := range c.hosts {
		if err := c.startReplicas(i, false); err != nil {
			return err
		}
	}
	return nil
}

func (c *cluster) note(k string) {
	c.mu.Lock()
	c.notes[k]++
	c.mu.Unlock()
}

func (c *cluster) liveHost() *host {
	for tries := 0; tries < 10; tries++ {
		h := c.hosts[c.rnd.Intn(len(c.hosts))]
		if h.nh != nil && !h.rec.isCrashed() {
			return h
		}
	}
	for _, h := range c.hosts {
		if h.nh != nil && !h.rec.isCrashed() {
			return h
		}
	}
	return nil
}

func (h *hostRec) isCrashed() bool {
	h.mu.Lock()
	defer h.mu.Unlock()
	return h.crashed
}

func (c *cluster) waitLeaders(d time.Duration) bool {
	deadline := time.Now().Add(d)
	for time.Now().Before(deadline) {
		ok := true
		for _, s := range c.shards {
			h := c.liveHost()
			if h == nil {
				return false
			}
			_, _, valid, err := h.nh.GetLeaderID(s)
			if err != nil || !valid {
				ok = false
			}
		}
		if ok {
			return true
		}
		time.Sleep(20 * time.Millisecond)
	}
	return false
}

// propose n commands on every shard; ids of completed proposals are remembered
func (c *cluster) propose(n int, timeout time.Duration) {
	var wg sync.WaitGroup
	for _, s := range c.shards {
		s := s
		wg.Add(1)
		go func() {
			defer wg.Done()
			for j := 0; j < n; j++ {
				c.mu.Lock()
				h := c.liveHost()
				c.nextID++
				id := c.nextID
				c.mu.Unlock()
				if h == nil {
					return
				}
				cmd := make([]byte, 8)
				binary.LittleEndian.PutUint64(cmd, id)
				ctx, cancel := context.WithTimeout(context.Background(), timeout)
				_, err := h.nh.SyncPropose(ctx, h.nh.GetNoOPSession(s), cmd)
				cancel()
				c.mu.Lock()
				if err == nil && h.rec.isCrashed() {
					// reported by a host past its crash instant: a dead process reports nothing
					c.notes["completions_after_crash_instant_discarded"]++
				} else if err == nil {
					c.completed[s] = append(c.completed[s], id)
					c.notes["proposals_completed"]++
				} else {
					c.notes["proposals_failed"]++
				}
				c.mu.Unlock()
			}
		}()
	}
	wg.Wait()
}

// every completed proposal must be visible to a linearizable read
func (c *cluster) checkCompleted(timeout time.Duration) {
	for _, s := range c.shards {
		h := c.liveHost()
		if h == nil {
			return
		}
		for _, id := range c.completed[s] {
			var seen bool
			var err error
			for tries := 0; tries < 12; tries++ {
				ctx, cancel := context.WithTimeout(context.Background(), timeout)
				var v interface{}
				v, err = h.nh.SyncRead(ctx, s, id)
				cancel()
				if err == nil {
					seen = v.(bool)
					break
				}
				// the shard is not ready on this host yet (no leader known): wait and retry
				time.Sleep(150 * time.Millisecond)
			}
			if err != nil {
				// not verified: counted, and the run fails when nothing could be verified
				c.note("reads_failed")
				c.waitLeaders(3 * time.Second)
				continue
			}
			c.note("reads_checked")
			if !seen {
				// attribute it to the replica that served the read
				k := key{s, uint64(h.rec.id)}
				h.rec.mu.Lock()
				h.rec.events = append(h.rec.events, event{kind: 'F', k: k, index: id})
				h.rec.mu.Unlock()
			}
		}
	}
}

func (c *cluster) transferLeader() {
	s := c.shards[c.rnd.Intn(len(c.shards))]
	h := c.liveHost()
	if h == nil {
		return
	}
	lid, _, ok, err := h.nh.GetLeaderID(s)
	if err != nil || !ok {
		return
	}
	target := lid%3 + 1
	_ = h.nh.RequestLeaderTransfer(s, target)
	c.note("leader_transfers")
}

// crash host i at a sampled synchronous event boundary (power cut: everything not
// synced is lost), restart it and compare what the log store returns with the shadow
func (c *cluster) crashRestart(i int, within int, restartNow bool) error {
	h := c.hosts[i]
	r := h.rec
	r.mu.Lock()
	if c.rnd.Chance(1, 2) {
		// between two file system operations of some SaveRaftState of this host
		r.fsOps = 0
		r.fsCrashAt = 1 + c.rnd.Intn(6)
		c.mu.Lock()
		c.notes["crash_points_inside_save_armed"]++
		c.mu.Unlock()
	} else {
		r.crashAt = r.syncEvents + 1 + c.rnd.Intn(within)
	}
	r.mu.Unlock()
	// keep the cluster busy so that the boundary is reached
	done := make(chan struct{})
	go func() {
		defer close(done)
		c.propose(4, 300*time.Millisecond)
	}()
	select {
	case <-r.crashedC:
		c.note("crashes")
	case <-time.After(1500 * time.Millisecond):
		// boundary not reached (idle host): crash at the current boundary instead
		r.mu.Lock()
		if !r.crashed {
			r.crashAt = 0
			r.syncEvents--
			r.boundary()
		}
		r.mu.Unlock()
		c.note("crashes_forced")
	}
	r.mu.Lock()
	inside := len(r.cut) > 0
	r.mu.Unlock()
	if inside {
		c.note("crashes_inside_a_save")
	}
	<-done
	h.nh.Close()
	h.nh = nil
	r.fs.ResetToSyncedState()
	r.fs.SetIgnoreSyncs(false)
	if restartNow {
		return c.restartHost(i)
	}
	return nil
}

func (c *cluster) restartHost(i int) error {
	h := c.hosts[i]
	r := h.rec
	r.mu.Lock()
	r.crashed = false
	r.crashAt = -1
	r.fsCrashAt = -1
	r.crashedC = make(chan struct{})
	r.mu.Unlock()
	if err := c.startHost(i); err != nil {
		return fmt.Errorf("restart host %d: %v", i+1, err)
	}
	// what the restarted replicas will replay (node.replayLog reads exactly this)
	db := h.ldbf.last.ILogDB
	for _, s := range c.shards {
		k := key{s, uint64(i + 1)}
		img := image{}
		if ss, err := db.GetSnapshot(s, uint64(i+1)); err == nil {
			img.snapIndex, img.snapTerm = ss.Index, ss.Term
		}
		rs, err := db.ReadRaftState(s, uint64(i+1), img.snapIndex)
		if err == nil {
			img.term, img.vote, img.commit = rs.State.Term, rs.State.Vote, rs.State.Commit
			if rs.EntryCount > 0 {
				ents, _, err := db.IterateEntries(nil, 0, s, uint64(i+1), rs.FirstIndex, rs.FirstIndex+rs.EntryCount, 1<<40)
				if err != nil {
					return fmt.Errorf("IterateEntries %s: %v", k, err)
				}
				img.log = fromPBEntries(ents)
			}
		} else if !errors.Is(err, raftio.ErrNoSavedLog) {
			return fmt.Errorf("ReadRaftState %s: %v", k, err)
		}
		e := event{kind: 'C', k: k, rec: img}
		inflightFound := false
		r.mu.Lock()
		if u, ok := r.cut[k]; ok {
			// a save of another step worker was in progress at the crash instant: it is
			// durable from some instant between its start and its return. If the image
			// read back is explained by it, that instant was before the cut.
			probe := r.rep(k).cloneState()
			probe.step(e)
			if probe.badCode != 0 {
				pe := event{kind: 'P', k: k, worker: 0, batch: 0, u: upd{shard: u.shard, replica: u.replica, term: u.term, vote: u.vote,
					commit: u.commit, save: u.save, snapIndex: u.snapIndex, snapTerm: u.snapTerm, fast: u.fast}}
				probe2 := r.rep(k).cloneState()
				probe2.step(pe)
				probe2.step(e)
				if probe2.badCode == 0 {
					r.events = append(r.events, pe)
					r.rep(k).step(pe)
					inflightFound = true
				}
			}
		}
		r.events = append(r.events, e)
		r.rep(k).step(e)
		r.mu.Unlock()
		if inflightFound {
			c.note("inflight_saves_found_durable")
		}
		c.note("recoveries_compared")
	}
	if c.beforeStartReplicas != nil {
		c.beforeStartReplicas()
	}
	var err error
	p := vh.Catch(func() { err = c.startReplicas(i, true) })
	if p != "" || err != nil {
		// the replica cannot come back from what its store holds after the power cut: the
		// run ends here; the trace recorded so far carries the finding
		r.mu.Lock()
		for _, s := range c.shards {
			r.events = append(r.events, event{kind: 'F', k: key{s, uint64(i + 1)}, index: 0})
		}
		r.mu.Unlock()
		c.note("restart_failed")
		return errAborted
	}
	return nil
}

var errAborted = errors.New("run aborted: replica not restartable after a crash")

func (c *cluster) close() {
	for _, h := range c.hosts {
		if h.nh != nil {
			h.nh.Close()
			h.nh = nil
		}
	}
}

// one live run; returns one recorded trace per host
func liveRun(seed uint64, useTan bool, execShards uint64, tier string, saveDelay time.Duration) (traces [][]event, notes map[string]int, err error) {
	nShards := 3
	c := newCluster(seed, useTan, execShards, nShards, saveDelay)
	defer c.close()
	defer func() {
		if err == errAborted {
			err = nil
			notes = c.notes
			traces = nil
			for _, h := range c.hosts {
				h.rec.mu.Lock()
				traces = append(traces, append([]event(nil), h.rec.events...))
				h.rec.mu.Unlock()
			}
		}
	}()
	// drawn per run: election options per shard, an unreliable wire, automatic snapshots
	c.checkQuorum, c.preVote = map[uint64]bool{}, map[uint64]bool{}
	for _, s := range c.shards {
		c.checkQuorum[s] = c.rnd.Chance(2, 3)
		c.preVote[s] = c.rnd.Chance(1, 2)
	}
	c.dropPer1000 = []int{0, 10, 40}[c.rnd.Intn(3)]
	c.delayPer1000 = []int{0, 30, 100}[c.rnd.Intn(3)]
	c.snapshotEntries, c.compactionOverhead = 12, 3
	c.notes[fmt.Sprintf("wire_drop_per_1000_%d", c.dropPer1000)]++
	if err = c.start(); err != nil {
		return nil, nil, err
	}
	if !c.waitLeaders(10 * time.Second) {
		return nil, nil, fmt.Errorf("no leader elected within 10 s")
	}
	rounds := 1
	if tier == "thorough" {
		rounds = 4
	}
	c.propose(10, 2*time.Second)
	c.transferLeader()
	c.propose(6, 2*time.Second)
	for r := 0; r < rounds; r++ {
		// crash one host at a sampled boundary while proposals are in flight, restart it
		victim := c.rnd.Intn(3)
		if err = c.crashRestart(victim, 40, true); err != nil {
			return nil, nil, err
		}
		c.waitLeaders(5 * time.Second)
		c.propose(5, 2*time.Second)
		if r%2 == 1 {
			c.transferLeader()
		}
	}
	// a lagging follower: one host is down while the others go on, snapshot and compact their
	// logs; when it comes back it is sent a snapshot (Update.Snapshot through the real
	// processSteps / onSnapshotSaved); its power is cut while it catches up
	lag := c.rnd.Intn(3)
	c.hosts[lag].nh.Close()
	c.hosts[lag].nh = nil
	c.propose(22, 2*time.Second)
	if err = c.restartHost(lag); err != nil {
		return nil, nil, err
	}
	if err = c.crashRestart(lag, 60, true); err != nil {
		return nil, nil, err
	}
	c.waitLeaders(5 * time.Second)
	c.propose(4, 2*time.Second)
	// full power cut: every host crashes at its own sampled boundary, then all restart
	for i := range c.hosts {
		if err = c.crashRestart(i, 20, false); err != nil {
			return nil, nil, err
		}
	}
	for i := range c.hosts {
		if err = c.restartHost(i); err != nil {
			return nil, nil, err
		}
	}
	if !c.waitLeaders(10 * time.Second) {
		return nil, nil, fmt.Errorf("no leader after the full restart")
	}
	c.checkCompleted(2 * time.Second)
	if c.notes["reads_checked"] == 0 && c.notes["reads_failed"] > 0 {
		return nil, nil, fmt.Errorf("none of the %d completed proposals could be re-read after the full restart", c.notes["reads_failed"])
	}
	c.propose(3, 2*time.Second)
	c.close()
	for _, h := range c.hosts {
		h.rec.mu.Lock()
		traces = append(traces, append([]event(nil), h.rec.events...))
		for _, e := range h.rec.events {
			if e.kind == 'P' && e.u.snapIndex != 0 && e.worker != 0 {
				c.notes["snapshots_installed_on_a_follower"]++
			}
		}
		h.rec.mu.Unlock()
	}
	return traces, c.notes, nil
}

// exportRun: one host, one single-replica shard with a small CompactionOverhead. Proposals, a
// regular snapshot (recorded in the log store; compaction below it is legitimate), more
// proposals, an EXPORTED snapshot (written to a user directory, not recorded for the replica),
// a few more proposals so that the pending log compaction runs, clean restart through the
// real NodeHost: what the store returns is compared with the shadow (every acknowledged entry
// above the latest recorded snapshot must still be there), the replica must start, and every
// completed proposal must be readable.
func exportRun(seed uint64, useTan bool, partial func([]event)) (trace []event, notes map[string]int, err error) {
	c := newClusterN(seed, useTan, 1, 1, 1, 0)
	c.beforeStartReplicas = func() {
		h := c.hosts[0]
		h.rec.mu.Lock()
		evs := append([]event(nil), h.rec.events...)
		h.rec.mu.Unlock()
		partial(evs)
	}
	c.shards = []uint64{5}
	c.compactionOverhead = 2
	defer c.close()
	defer func() {
		if err == errAborted {
			err = nil
		}
		notes = c.notes
		h := c.hosts[0]
		h.rec.mu.Lock()
		trace = append([]event(nil), h.rec.events...)
		h.rec.mu.Unlock()
	}()
	if err = c.start(); err != nil {
		return
	}
	if !c.waitLeaders(10 * time.Second) {
		err = fmt.Errorf("export run: no leader")
		return
	}
	h := c.hosts[0]
	c.propose(12, 2*time.Second)
	snapshot := func(opt dragonboat.SnapshotOption, what string) {
		ctx, cancel := context.WithTimeout(context.Background(), 3*time.Second)
		defer cancel()
		if _, e := h.nh.SyncRequestSnapshot(ctx, 5, opt); e != nil {
			c.note(what + "_failed")
		} else {
			c.note(what)
		}
	}
	snapshot(dragonboat.SnapshotOption{}, "regular_snapshots")
	c.propose(10, 2*time.Second)
	_ = h.rec.fs.MkdirAll("/c04/export", 0755)
	snapshot(dragonboat.SnapshotOption{Exported: true, ExportPath: "/c04/export"}, "exported_snapshots")
	c.propose(3, 2*time.Second)
	time.Sleep(100 * time.Millisecond)
	// clean restart
	h.nh.Close()
	h.nh = nil
	if err = c.restartHost(0); err != nil {
		return
	}
	if !c.waitLeaders(10 * time.Second) {
		err = fmt.Errorf("export run: no leader after the restart")
		return
	}
	c.checkCompleted(2 * time.Second)
	c.propose(2, 2*time.Second)
	c.close()
	return
}

// notifyCommitRun: one host, one single-voter shard, NodeHostConfig.NotifyCommit = true. A
// proposal is made while the log store holds the SaveRaftState that carries its entry. If the
// proposal is reported Completed (or handed to the state machine) while the save is still
// waiting, the power is cut at that instant and the save is dropped; otherwise the save is
// released, the proposal completes and the power is cut afterwards. Restart: every proposal
// that was reported Completed must be applied (completed-not-durable otherwise).
func notifyCommitRun(seed uint64, useTan bool, partial func([]event)) (trace []event, notes map[string]int, err error) {
	c := newClusterN(seed, useTan, 1, 1, 1, 0)
	c.shards = []uint64{7}
	c.notifyCommit = true
	c.beforeStartReplicas = func() {
		h := c.hosts[0]
		h.rec.mu.Lock()
		evs := append([]event(nil), h.rec.events...)
		h.rec.mu.Unlock()
		partial(evs)
	}
	defer c.close()
	defer func() {
		if err == errAborted {
			err = nil
		}
		notes = c.notes
		h := c.hosts[0]
		h.rec.mu.Lock()
		trace = append([]event(nil), h.rec.events...)
		h.rec.mu.Unlock()
	}()
	if err = c.start(); err != nil {
		return
	}
	if !c.waitLeaders(10 * time.Second) {
		err = fmt.Errorf("notify-commit run: no leader")
		return
	}
	h := c.hosts[0]
	c.propose(5, 2*time.Second)
	for round := 0; round < 2; round++ {
		r := h.rec
		r.mu.Lock()
		r.holdArmed = true
		r.holdC = make(chan struct{})
		r.releaseC = make(chan struct{})
		hc, rc := r.holdC, r.releaseC
		r.mu.Unlock()
		c.mu.Lock()
		c.nextID++
		id := c.nextID
		c.mu.Unlock()
		done := make(chan error, 1)
		go func() {
			cmd := make([]byte, 8)
			binary.LittleEndian.PutUint64(cmd, id)
			ctx, cancel := context.WithTimeout(context.Background(), 4*time.Second)
			defer cancel()
			_, e := h.nh.SyncPropose(ctx, h.nh.GetNoOPSession(7), cmd)
			done <- e
		}()
		select {
		case <-hc:
		case <-time.After(2 * time.Second):
			c.note("hold_not_reached")
			close(rc)
			<-done
			continue
		}
		// the save of the proposal's entry is waiting: nothing of it is in the log store
		completedEarly := false
		select {
		case e := <-done:
			if e == nil {
				completedEarly = true
			}
		case <-time.After(300 * time.Millisecond):
		}
		if completedEarly {
			// Completed while the entry is not saved: the power goes NOW, the save is dropped
			c.mu.Lock()
			c.completed[7] = append(c.completed[7], id)
			c.mu.Unlock()
			c.note("completed_while_save_held")
			r.crashNow()
			close(rc)
			break
		}
		close(rc)
		if e := <-done; e == nil {
			c.mu.Lock()
			c.completed[7] = append(c.completed[7], id)
			c.mu.Unlock()
			c.note("completed_after_save")
		}
	}
	h.rec.crashNow()
	h.nh.Close()
	h.nh = nil
	h.rec.fs.ResetToSyncedState()
	h.rec.fs.SetIgnoreSyncs(false)
	if err = c.restartHost(0); err != nil {
		return
	}
	if !c.waitLeaders(10 * time.Second) {
		err = fmt.Errorf("notify-commit run: no leader after the restart")
		return
	}
	c.checkCompleted(2 * time.Second)
	c.propose(2, 2*time.Second)
	c.close()
	return
}
