// C04 harness: acknowledged state is durable (persist-before-send, crash recovery).
//
//	gen: runs REAL NodeHost clusters (3 hosts, 3 shards, strict in-memory FS, channel
//	     transport) with a recording log store / transport / state machine, crashes
//	     hosts at sampled event boundaries, restarts them, and writes one recorded
//	     trace per host as a case ("L..."), plus synthetic cases: update flags ("S..."),
//	     send filters of one batch ("E...") and hand-mutated traces ("T...").
//	run: S/E cases call the real validateUpdate/setFastApply and the real
//	     node.sendReplicateMessages/sendMessages; L/T cases are evaluated by the Go
//	     property monitor. The extracted Coq model (ocaml/c04/driver) prints the same
//	     lines from the same cases: trace_run per replica, step_skeleton per worker.
package main

import (
	"context"
	"fmt"
	"os"
	"os/exec"
	"sort"
	"strings"
	"sync"
	"time"

	dragonboat "github.com/lni/dragonboat/v4"
	pb "github.com/lni/dragonboat/v4/raftpb"
	hooks "github.com/lni/dragonboat/v4/verifhooks/c04"

	"verif/harness/vh"
)

var stderrW = os.Stderr

func main() {
	a := vh.ParseArgs()
	quietLogs()
	switch a.Mode {
	case "gen":
		gen(a)
	case "run":
		run(a)
	case "live":
		liveChild(a)
	case "export":
		exportChild(a)
	default:
		fmt.Fprintln(os.Stderr, "unknown mode", a.Mode)
		os.Exit(2)
	}
}

// ---------------------------------------------------------------- gen

func eventsStr(evs []event) string {
	p := make([]string, len(evs))
	for i, e := range evs {
		p[i] = eventStr(e)
	}
	return strings.Join(p, " ; ")
}

func genEnts(r *vh.Rand, first uint64, n int, term uint64) []ent {
	var out []ent
	for i := 0; i < n; i++ {
		if r.Chance(1, 5) {
			term++
		}
		out = append(out, ent{first + uint64(i), term})
	}
	return out
}

func genMsg(r *vh.Rand, from uint64, term uint64) msg {
	var t uint64
	switch r.Intn(4) {
	case 0:
		t = uint64(r.Intn(29))
	case 1:
		t = []uint64{mtReplicate, mtPing, mtReplicateResp, mtHeartbeatResp}[r.Intn(4)]
	default:
		t = []uint64{mtReplicate, mtReplicateResp, mtRequestVote, mtRequestVoteResp, mtHeartbeatResp, uint64(pb.Heartbeat),
			uint64(pb.RequestPreVote), uint64(pb.RequestPreVoteResp), uint64(pb.ReadIndex), uint64(pb.TimeoutNow)}[r.Intn(10)]
	}
	m := msg{typ: t, to: uint64(1 + r.Intn(3)), from: from, term: term, logindex: uint64(r.Intn(12)), logterm: uint64(r.Intn(4)),
		commit: uint64(r.Intn(8)), reject: r.Chance(1, 4)}
	if r.Chance(1, 6) {
		m.term = term + uint64(r.Intn(3))
	}
	if r.Chance(1, 8) {
		m.term = 0
	}
	if t == mtReplicate && r.Bool() {
		m.ents = genEnts(r, m.logindex+1, 1+r.Intn(3), term)
	}
	return m
}

func genUpdate(r *vh.Rand, shard, replica uint64) upd {
	u := upd{shard: shard, replica: replica}
	term := uint64(1 + r.Intn(4))
	if r.Chance(2, 3) {
		u.term, u.vote, u.commit = term, uint64(r.Intn(4)), uint64(r.Intn(10))
	}
	sf := uint64(1 + r.Intn(8))
	if r.Chance(2, 3) {
		u.save = genEnts(r, sf, 1+r.Intn(4), term)
	}
	if r.Chance(1, 2) {
		cf := uint64(1 + r.Intn(8))
		u.committed = genEnts(r, cf, 1+r.Intn(4), term)
	}
	if r.Chance(1, 8) {
		u.snapIndex, u.snapTerm = uint64(1+r.Intn(9)), term
	}
	for i, n := 0, r.Intn(5); i < n; i++ {
		u.msgs = append(u.msgs, genMsg(r, replica, term))
	}
	fast, panicked := hooks.UpdateFlags(toPBUpdate(u))
	u.fast = fast && !panicked
	if r.Chance(1, 10) {
		u.fast = !u.fast
	}
	return u
}

// a plausible single-replica trace, then optionally one mutation that should trip a
// specific check (dropping/moving a persist, inflating a claim, early apply, bad recovery)
func genTrace(r *vh.Rand) []event {
	k := key{1, uint64(1 + r.Intn(3))}
	var evs []event
	term, vote, last := uint64(1), uint64(0), uint64(0)
	img := &image{}
	batch := uint64(0)
	for i, n := 0, 3+r.Intn(10); i < n; i++ {
		batch++
		u := upd{shard: k.shard, replica: k.replica}
		var post []msg
		switch r.Intn(5) {
		case 0: // grant a vote in a new term
			term += uint64(1 + r.Intn(2))
			vote = uint64(1 + r.Intn(3))
			u.term, u.vote, u.commit = term, vote, img.commit
			post = append(post, msg{typ: mtRequestVoteResp, to: vote, from: k.replica, term: term})
		case 1: // campaign
			term++
			vote = k.replica
			u.term, u.vote, u.commit = term, vote, img.commit
			for p := uint64(1); p <= 3; p++ {
				if p != k.replica {
					post = append(post, msg{typ: mtRequestVote, to: p, from: k.replica, term: term, logindex: last})
				}
			}
		case 2, 3: // append entries from the leader and acknowledge
			nn := 1 + r.Intn(3)
			first := last + 1
			if last > 1 && r.Chance(1, 6) {
				first = last // overwrite the tail
			}
			u.save = genEnts(r, first, nn, term)
			last = first + uint64(nn) - 1
			post = append(post, msg{typ: mtReplicateResp, to: uint64(1 + r.Intn(3)), from: k.replica, term: term, logindex: last})
			if r.Bool() && img.commit < last {
				u.term, u.vote, u.commit = term, vote, img.commit+1
			}
		default: // heartbeat
			post = append(post, msg{typ: mtHeartbeatResp, to: uint64(1 + r.Intn(3)), from: k.replica, term: term})
			if r.Chance(1, 3) {
				evs = append(evs, event{kind: 'Q', k: k, worker: 1, m: msg{typ: mtReplicate, to: 2, from: k.replica, term: term, logindex: last}})
			}
		}
		u.msgs = post
		u.fast = true
		evs = append(evs, event{kind: 'P', k: k, worker: 1, batch: batch, u: u})
		img.persist(u)
		for _, m := range post {
			evs = append(evs, event{kind: 'Q', k: k, worker: 1, m: m})
			if r.Bool() {
				evs = append(evs, event{kind: 'W', k: k, m: m})
			}
		}
		if last > 0 && r.Chance(1, 3) {
			evs = append(evs, event{kind: 'A', k: k, index: uint64(1 + r.Intn(int(last)))})
		}
		if r.Chance(1, 8) {
			evs = append(evs, event{kind: 'X'}, event{kind: 'C', k: k, rec: *img.clone()}, event{kind: 'R', k: k})
		}
	}
	switch r.Intn(9) {
	case 0, 1: // untouched
	case 2: // drop one persist
		for tries := 0; tries < 10; tries++ {
			i := r.Intn(len(evs))
			if evs[i].kind == 'P' {
				evs = append(evs[:i:i], evs[i+1:]...)
				break
			}
		}
	case 3: // swap a persist with the event after it
		for tries := 0; tries < 10; tries++ {
			i := r.Intn(len(evs) - 1)
			if evs[i].kind == 'P' {
				evs[i], evs[i+1] = evs[i+1], evs[i]
				break
			}
		}
	case 4: // inflate a claim
		for tries := 0; tries < 10; tries++ {
			i := r.Intn(len(evs))
			if evs[i].kind == 'Q' || evs[i].kind == 'W' {
				if r.Bool() {
					evs[i].m.term += uint64(1 + r.Intn(2))
				} else {
					evs[i].m.logindex += uint64(1 + r.Intn(3))
				}
				break
			}
		}
	case 5: // early apply
		evs = append(evs[:len(evs):len(evs)], event{kind: 'A', k: k, index: last + uint64(1+r.Intn(2))})
	case 6: // recovery that lost something
		g := img.clone()
		switch r.Intn(3) {
		case 0:
			if g.term > 0 {
				g.term--
			}
		case 1:
			g.vote = g.vote%3 + 1
		default:
			if len(g.log) > 0 {
				g.log = g.log[:len(g.log)-1]
			}
		}
		evs = append(evs, event{kind: 'X'}, event{kind: 'C', k: k, rec: *g})
	case 7: // vote changes within a term / term regresses
		u := upd{shard: k.shard, replica: k.replica, term: term, vote: vote%3 + 1, commit: img.commit, fast: true}
		if r.Bool() && term > 1 {
			u.term, u.vote = term-1, vote
		}
		evs = append(evs, event{kind: 'P', k: k, worker: 1, batch: batch + 1, u: u})
	default: // truncate below an acknowledged index in the same term
		if last > 1 {
			u := upd{shard: k.shard, replica: k.replica, save: []ent{{last - 1, term}}, fast: true}
			evs = append(evs, event{kind: 'P', k: k, worker: 1, batch: batch + 1, u: u})
		}
	}
	return evs
}

type liveSpec struct {
	tan  bool
	exec uint64
}

func gen(a vh.Args) {
	r := vh.NewRand(a.Seed)
	// recorded runs of real NodeHosts first in the cases file (their counterexamples are
	// reported first), the in-process cases after them
	final := vh.Create(a.Cases)
	inproc := a.Cases + ".inproc"
	w := vh.Create(inproc)
	defer func() {
		w.Close()
		for _, l := range vh.ReadLines(inproc) {
			final.Printf("%s\n", l)
		}
		final.Close()
		_ = os.Remove(inproc)
	}()
	nS, nE, nT := 300, 120, 150
	specs := []liveSpec{{false, 2}, {true, 2}}
	if a.Tier == "thorough" {
		nS, nE, nT = 3000, 1000, 1500
		specs = []liveSpec{{false, 2}, {true, 2}, {false, 1}, {true, 1}, {false, 3}, {true, 3}, {false, 2}, {true, 2}}
	}
	if a.N > 0 {
		// the violation search asks for more exploration: more live runs
		specs = nil
		for i := 0; i < a.N; i++ {
			specs = append(specs, liveSpec{i%2 == 1, uint64(1 + i%3)})
		}
	}
	if os.Getenv("C04_NO_LIVE") != "" {
		specs = nil
	}
	// Every run against real NodeHosts is a child process (a crash of the library under the
	// fault schedule must not take the case generation down with it); they run in parallel
	// with each other and with the in-process generation below. One retry with another
	// sub-seed; a second crash fails the generation loudly with the head of the child's output.
	type job struct {
		lines []string
		logs  []string
		fatal string
	}
	var jobs []*job
	var wg sync.WaitGroup
	sem := make(chan struct{}, 3)
	launch := func(f func(j *job)) {
		j := &job{}
		jobs = append(jobs, j)
		wg.Add(1)
		go func() {
			defer wg.Done()
			sem <- struct{}{}
			defer func() { <-sem }()
			f(j)
		}()
	}
	childLogs := func(j *job, out string) {
		for _, l := range strings.Split(strings.TrimSpace(out), "\n") {
			if strings.HasPrefix(l, "c04:") {
				j.logs = append(j.logs, l)
			}
		}
	}
	for i, sp := range specs {
		i, sp := i, sp
		launch(func(j *job) {
			var lastOut string
			for attempt := 0; attempt < 2; attempt++ {
				tmp := fmt.Sprintf("%s/live_%d_%d.txt", a.Out, i, attempt)
				ctx, cancel := context.WithTimeout(context.Background(), 6*time.Minute)
				defer cancel()
				cmd := exec.CommandContext(ctx, os.Args[0], "live", "-seed", fmt.Sprint(a.Seed*1000+uint64(i)+uint64(attempt)*500), "-tier", a.Tier, "-cases", tmp, "-out", a.Out)
				cmd.Env = append(os.Environ(), fmt.Sprintf("C04_LIVE_SPEC=%d,%v,%d", i, sp.tan, sp.exec))
				outb, err := cmd.CombinedOutput()
				lastOut = string(outb)
				if err == nil {
					j.lines = vh.ReadLines(tmp)
					childLogs(j, lastOut)
					_ = os.Remove(tmp)
					return
				}
				head := lastOut
				if len(head) > 6000 {
					head = head[:6000]
				}
				_ = os.WriteFile(fmt.Sprintf("/verif/.work/c04_live_crash_%d_%d.txt", time.Now().Unix(), i), []byte(head), 0644)
				j.logs = append(j.logs, fmt.Sprintf("c04: live run %d attempt %d crashed: %v", i, attempt, err))
				_ = os.Remove(tmp)
			}
			if len(lastOut) > 2500 {
				lastOut = lastOut[:2500]
			}
			j.fatal = fmt.Sprintf("c04: live run %d failed twice:\n%s", i, lastOut)
		})
		// snapshots (regular + exported), log compaction, restart; NotifyCommit with a held save:
		// this store, and the other one
		for jj, t := range []bool{sp.tan, !sp.tan, sp.tan, !sp.tan} {
			jj, t := jj, t
			jx := jj % 2
			kind := "export"
			fkey := "5.1"
			if jj >= 2 {
				kind, fkey = "notify", "7.1"
			}
			if jx == 1 && a.Tier != "thorough" {
				continue // quick: each store once (the other live spec covers the other store)
			}
			launch(func(j *job) {
				tmp := fmt.Sprintf("%s/%s_%d_%d.txt", a.Out, kind, i, jx)
				_ = os.Remove(tmp + ".partial")
				var lastOut string
				for attempt := 0; attempt < 2; attempt++ {
					ctx, cancel := context.WithTimeout(context.Background(), 2*time.Minute)
					defer cancel()
					cmd := exec.CommandContext(ctx, os.Args[0], "export", "-seed", fmt.Sprint(a.Seed*1000+uint64(i*10+jj)+uint64(attempt)*500), "-tier", a.Tier, "-cases", tmp, "-out", a.Out)
					cmd.Env = append(os.Environ(), fmt.Sprintf("C04_EXPORT_SPEC=%d,%d,%v,%s", i, jx, t, kind))
					outb, err := cmd.CombinedOutput()
					lastOut = string(outb)
					if err == nil {
						j.lines = vh.ReadLines(tmp)
						childLogs(j, lastOut)
						_ = os.Remove(tmp)
						return
					}
					if pl, perr := os.ReadFile(tmp + ".partial"); perr == nil && len(pl) > 0 {
						// the process died while the replica was restarting from what its store holds:
						// the trace recorded up to the restart plus "replica not restartable"
						j.lines = []string{fmt.Sprintf("%s ; F k=%s i=0", strings.TrimRight(string(pl), "\n"), fkey)}
						j.logs = append(j.logs, fmt.Sprintf("c04: %s run %d/%d: the process died during the restart of the replica", kind, i, jx))
						_ = os.Remove(tmp)
						_ = os.Remove(tmp + ".partial")
						return
					}
					j.logs = append(j.logs, fmt.Sprintf("c04: %s run %d/%d attempt %d crashed: %v", kind, i, jx, attempt, err))
					_ = os.Remove(tmp)
					_ = os.Remove(tmp + ".partial")
				}
				if len(lastOut) > 2500 {
					lastOut = lastOut[:2500]
				}
				j.fatal = fmt.Sprintf("c04: %s run %d/%d failed twice:\n%s", kind, i, jx, lastOut)
			})
		}
	}
	defer func() {
		wg.Wait()
		for _, j := range jobs {
			for _, l := range j.logs {
				fmt.Fprintln(os.Stderr, l)
			}
			if j.fatal != "" {
				fmt.Fprintln(os.Stderr, j.fatal)
				os.Exit(1)
			}
			for _, l := range j.lines {
				final.Printf("%s\n", l)
			}
		}
	}()
	nU := 150
	if a.Tier == "thorough" {
		nU = 2000
	}
	pn, peerTraces := genPeerCases(r, w, nU)
	var pk []string
	for k, v := range pn {
		pk = append(pk, fmt.Sprintf("%s=%d", k, v))
	}
	sort.Strings(pk)
	fmt.Fprintf(os.Stderr, "c04: %d single-peer scenarios over the real raft.Peer: %s\n", nU, strings.Join(pk, " "))
	on := genOnDiskCases(r, w, a.Tier)
	var ok []string
	for k, v := range on {
		ok = append(ok, fmt.Sprintf("%s=%d", k, v))
	}
	sort.Strings(ok)
	fmt.Fprintf(os.Stderr, "c04: on-disk state machine runs over the real rsm.StateMachine: %s\n", strings.Join(ok, " "))
	if on["ondisk_errors"] > 0 {
		os.Exit(1)
	}
	dn := genProbeCases(r, w, a.Tier, peerTraces)
	var dk []string
	for k, v := range dn {
		dk = append(dk, fmt.Sprintf("%s=%d", k, v))
	}
	sort.Strings(dk)
	fmt.Fprintf(os.Stderr, "c04: durability probes (power cut after an acknowledged SaveRaftState): %s\n", strings.Join(dk, " "))
	if dn["probe_errors"] > 0 {
		os.Exit(1)
	}
	for i := 0; i < nS; i++ {
		u := genUpdate(r, 1, 1)
		commit := u.commit
		w.Printf("S%d sfa snap=%d commit=%d ce=%s sv=%s\n", i, u.snapIndex, commit, entsStr(u.committed), entsStr(u.save))
	}
	for i := 0; i < nE; i++ {
		var ops []string
		for s, n := 1, 1+r.Intn(4); s <= n; s++ {
			ops = append(ops, updStr(genUpdate(r, uint64(s), uint64(1+r.Intn(3)))))
		}
		w.Printf("E%d eng | %s\n", i, strings.Join(ops, " ; "))
	}
	for i := 0; i < nT; i++ {
		w.Printf("T%d trace | %s\n", i, eventsStr(genTrace(r)))
	}
}

// regular + exported snapshot, log compaction, restart of a single replica, in its own
// process: a replica that cannot restart takes the process down from an engine goroutine. The
// trace recorded up to the restart is written first (-cases + ".partial").
func exportChild(a vh.Args) {
	var i, j int
	var tan bool
	var kind string
	if _, err := fmt.Sscanf(os.Getenv("C04_EXPORT_SPEC"), "%d,%d,%t,%s", &i, &j, &tan, &kind); err != nil {
		fmt.Fprintln(os.Stderr, "bad C04_EXPORT_SPEC")
		os.Exit(2)
	}
	tag := "x"
	if kind == "notify" {
		tag = "n"
	}
	line := func(evs []event) string {
		return fmt.Sprintf("0L%d%s%d live %s tan=%v | %s\n", i, tag, j, kind, tan, eventsStr(evs))
	}
	partial := func(evs []event) {
		_ = os.WriteFile(a.Cases+".partial", []byte(line(evs)), 0644)
	}
	startWatchdog(40*time.Second, func(traces [][]event) {
		if len(traces) > 0 {
			_ = os.WriteFile(a.Cases, []byte(line(traces[0])), 0644)
		}
	})
	var etrace []event
	var enotes map[string]int
	var err error
	if kind == "notify" {
		etrace, enotes, err = notifyCommitRun(a.Seed, tan, partial)
	} else {
		etrace, enotes, err = exportRun(a.Seed, tan, partial)
	}
	if err != nil {
		fmt.Fprintf(os.Stderr, "c04: %s run %d (tan=%v) failed: %v\n", kind, i, tan, err)
		os.Exit(1)
	}
	var ek []string
	for k, v := range enotes {
		ek = append(ek, fmt.Sprintf("%s=%d", k, v))
	}
	sort.Strings(ek)
	fmt.Fprintf(os.Stderr, "c04: %s run %d tan=%v: %s\n", kind, i, tan, strings.Join(ek, " "))
	if err := os.WriteFile(a.Cases, []byte(line(etrace)), 0644); err != nil {
		os.Exit(1)
	}
	_ = os.Remove(a.Cases + ".partial")
}

// one live cluster run in its own process (see gen)
func liveChild(a vh.Args) {
	var i int
	var tan bool
	var ex uint64
	if _, err := fmt.Sscanf(os.Getenv("C04_LIVE_SPEC"), "%d,%t,%d", &i, &tan, &ex); err != nil {
		fmt.Fprintln(os.Stderr, "bad C04_LIVE_SPEC")
		os.Exit(2)
	}
	dbn := "pebble"
	if tan {
		dbn = "tan"
	}
	limit := 75 * time.Second
	if a.Tier == "thorough" {
		limit = 240 * time.Second
	}
	startWatchdog(limit, func(traces [][]event) {
		w := vh.Create(a.Cases)
		for h, evs := range traces {
			w.Printf("0L%dh%d live logdb=%s exec=%d truncated=1 | %s\n", i, h+1, dbn, ex, eventsStr(evs))
		}
		w.Close()
	})
	traces, notes, err := liveRun(a.Seed, tan, ex, a.Tier, 0)
	if err != nil {
		fmt.Fprintf(os.Stderr, "c04: live run %d (tan=%v exec=%d) failed: %v\n", i, tan, ex, err)
		os.Exit(1)
	}
	db := "pebble"
	if tan {
		db = "tan"
	}
	var nk []string
	for k, v := range notes {
		nk = append(nk, fmt.Sprintf("%s=%d", k, v))
	}
	sort.Strings(nk)
	fmt.Fprintf(os.Stderr, "c04: live run %d logdb=%s exec=%d: %s\n", i, db, ex, strings.Join(nk, " "))
	w := vh.Create(a.Cases)
	for h, evs := range traces {
		w.Printf("0L%dh%d live logdb=%s exec=%d | %s\n", i, h+1, db, ex, eventsStr(evs))
	}
	w.Close()
}

// ---------------------------------------------------------------- run

func kvOf(fields []string) map[string]string {
	kv := map[string]string{}
	for _, t := range fields {
		if i := strings.Index(t, "="); i > 0 {
			kv[t[:i]] = t[i+1:]
		}
	}
	return kv
}

func parseUpdBody(s string) upd {
	e := parseEvent("P b=0 w=0 " + s)
	return e.u
}

func tok(k key, m msg) string { return fmt.Sprintf("S%s:%d>%d", k, m.typ, m.to) }

func run(a vh.Args) {
	st := vh.NewStats("L: recorded host traces of real NodeHost clusters in which a vote, vote request or replication " +
		"acknowledgement was checked against the durable shadow (distinct = such traces); S/E/T: synthetic differential cases")
	out := vh.Create(a.Out + "/impl.obs")
	defer out.Close()
	for _, line := range vh.ReadLines(a.Cases) {
		sp := strings.SplitN(line, " ", 3)
		if len(sp) < 2 {
			continue
		}
		id, kind := sp[0], sp[1]
		rest := ""
		if len(sp) == 3 {
			rest = sp[2]
		}
		st.Count("case_" + kind)
		switch kind {
		case "sfa":
			kv := kvOf(strings.Fields(rest))
			u := upd{shard: 1, replica: 1, snapIndex: u64(kv["snap"]), commit: u64(kv["commit"]), committed: parseEnts(kv["ce"]), save: parseEnts(kv["sv"])}
			if u.commit > 0 {
				u.term = 1
			}
			var fast, panicked bool
			if p := vh.Catch(func() { fast, panicked = hooks.UpdateFlags(toPBUpdate(u)) }); p != "" {
				out.Printf("%s sfa crash\n", id)
				continue
			}
			if panicked {
				out.Printf("%s sfa panic\n", id)
				st.Count("sfa_panic")
			} else {
				out.Printf("%s sfa fast=%d\n", id, b01(fast))
				st.Count(fmt.Sprintf("sfa_fast_%d", b01(fast)))
				// monitor: entries that still have to be saved are never fast-applied
				if fast {
					idx := map[uint64]bool{}
					for _, e := range u.save {
						idx[e.index] = true
					}
					for _, e := range u.committed {
						if idx[e.index] && contiguous(u.save) && contiguous(u.committed) {
							st.Violation(id, fmt.Sprintf("setFastApply allows fast apply of entry %d that is still to be saved", e.index))
							break
						}
					}
					if u.snapIndex != 0 {
						st.Violation(id, "setFastApply allows fast apply of an update that carries a snapshot")
					}
				}
			}
			st.Case(id, len(u.save) > 0 && len(u.committed) > 0, line)
		case "eng":
			body := strings.TrimPrefix(rest, "| ")
			var us []upd
			for _, p := range strings.Split(body, " ; ") {
				if strings.TrimSpace(p) != "" {
					us = append(us, parseUpdBody(strings.TrimSpace(p)))
				}
			}
			var pre, mid, post []string
			for _, u := range us {
				k := key{u.shard, u.replica}
				var a1, a2 []pb.Message
				if p := vh.Catch(func() { a1, a2 = dragonboat.VerifC04SendFilters(toPBUpdate(u)) }); p != "" {
					pre = append(pre, "crash")
				}
				for _, m := range a1 {
					pre = append(pre, tok(k, fromPBMsg(m)))
					if !monitorFree(uint64(m.Type)) {
						st.Violation(id, fmt.Sprintf("sendReplicateMessages forwards message type %d before the update is saved", m.Type))
					}
				}
				mid = append(mid, "P"+k.String())
				for _, m := range a2 {
					post = append(post, tok(k, fromPBMsg(m)))
				}
				if len(a1)+len(a2) != len(u.msgs) {
					st.Violation(id, fmt.Sprintf("replica %s: %d messages in the update, %d forwarded", k, len(u.msgs), len(a1)+len(a2)))
				}
			}
			out.Printf("%s eng %s\n", id, strings.Join(append(append(pre, mid...), post...), " "))
			st.Case(id, len(us) > 1, line)
		case "ondisk":
			i := strings.Index(rest, "| ")
			body := ""
			if i >= 0 {
				body = rest[i+2:]
			}
			var oevs []oev
			if p := vh.Catch(func() { oevs = parseOevs(body) }); p != "" {
				out.Printf("%s malformed\n", id)
				continue
			}
			pos, code, synced, snap, msg := odsmMonitor(oevs)
			if code == 0 {
				out.Printf("%s od ok synced=%d snap=%d\n", id, synced, snap)
			} else {
				out.Printf("%s od bad@%d:%d synced=%d snap=%d\n", id, pos, code, synced, snap)
				st.Count("verdict_" + ocodeText[code])
				st.Violation(id, msg)
			}
			nsnap := 0
			for _, e := range oevs {
				st.Count("ondisk_" + e.kind)
				if e.kind == "ON" {
					nsnap++
				}
			}
			st.Case(id, nsnap > 0, line)
		case "live", "trace":
			i := strings.Index(rest, "| ")
			body := ""
			if i >= 0 {
				body = rest[i+2:]
			} else if strings.HasSuffix(rest, "|") {
				body = ""
			}
			var evs []event
			if p := vh.Catch(func() { evs = parseEvents(body) }); p != "" {
				out.Printf("%s malformed\n", id)
				continue
			}
			reps := monitorTrace(evs)
			claims := 0
			for _, k := range sortedKeys(reps) {
				r := reps[k]
				out.Printf("%s rep %s %s t=%d v=%d last=%d ack=%d/%d\n", id, k, r.verdict(), r.img.term, r.img.vote, r.img.lastDurable(), r.ackTerm, r.ackIndex)
				claims += r.claims
				st.Distribution["events_send"] += r.sends
				st.Distribution["events_persist"] += r.persists
				st.Distribution["events_apply"] += r.applies
				if r.badCode != 0 {
					st.Count("verdict_" + codeText[r.badCode])
					// a durability probe is judged at its read-back only (keeps shrunk replays meaningful)
					probe := strings.Contains(rest, "probe=")
					if r.badCode == codeCompletedLost && strings.HasPrefix(r.badWhy, "not-readable") && r.img.term == 0 && len(r.img.log) == 0 {
						continue // nothing had been acknowledged (shrunk replay)
					}
					if kind == "live" && (!probe || r.badWhy != "" || r.badCode == codeCompletedLost) {
						txt := r.badText()
						if strings.Contains(rest, "probe=restart-") {
							txt = "restart-loses-acknowledged-state: " + strings.NewReplacer(
								"after the power cut the store returns", "the raft peer started by node.startRaft (replayLog + raft.Launch) has",
								"after the power cut", "after the restart").Replace(txt)
						}
						st.Violation(id, fmt.Sprintf("replica %s: %s (event %d of the replica)", k, txt, r.badPos))
						continue
					}
					if false {
						st.Violation(id, fmt.Sprintf("replica %s: %s (event %d of the replica)", k, r.badText(), r.badPos))
					}
				}
			}
			if kind == "live" {
				pbs := persistBeforeSend(evs)
				var ws []uint64
				for w := range pbs {
					ws = append(ws, w)
				}
				sort.Slice(ws, func(i, j int) bool { return ws[i] < ws[j] })
				for _, w := range ws {
					if pbs[w] == "" {
						out.Printf("%s worker %d ok\n", id, w)
					} else {
						out.Printf("%s worker %d bad\n", id, w)
						if !strings.Contains(rest, "probe=") {
							st.Violation(id, "persist-before-send: "+pbs[w])
						}
					}
				}
				for _, e := range evs {
					switch e.kind {
					case 'F':
						if e.index != 0 {
							st.Violation(id, fmt.Sprintf("replica %s: completed-not-durable: proposal %d was reported Completed and is not applied (not visible to a linearizable read) after the restart", e.k, e.index))
						}
					case 'X':
						st.Count("crash_instants")
					case 'C':
						st.Count("recoveries_compared")
						if sh := shadowCommitBefore(evs, e); sh > e.rec.commit {
							st.Count("commit_index_lagged_after_power_cut")
						}
						if sh := shadowCommitBefore(evs, e); strings.Contains(rest, "probe=restart-") && sh != e.rec.commit && !(e.rec.commit == e.rec.snapIndex && sh < e.rec.snapIndex) && reps[e.k].badCode == 0 {
							st.Violation(id, fmt.Sprintf("replica %s: restart-loses-acknowledged-state: commit index %d was acknowledged, the raft peer started by node.startRaft has %d", e.k, sh, e.rec.commit))
						}
					}
				}
			}
			s := line
			if len(s) > 300 {
				s = s[:300]
			}
			st.Case(id, kind == "live" && claims > 0, s)
		default:
			out.Printf("%s unknown-kind\n", id)
		}
	}
	st.Notes["generated_at"] = time.Now().UTC().Format(time.RFC3339)
	st.Write(a.Out)
}

func contiguous(es []ent) bool {
	for i, e := range es {
		if e.index != es[0].index+uint64(i) {
			return false
		}
	}
	return true
}
