package main

// Durability probe (quick tier, no cluster): through the public raftio.ILogDB of a
// real log store (Pebble, Tan, Tan with multiplexed logs) on the strict in-memory
// FS, save updates shaped like the ones the raft core hands out; after the k-th
// acknowledged SaveRaftState cut the power (everything that was not fsynced is
// dropped: SetIgnoreSyncs + Close + ResetToSyncedState), reopen and read back what
// a restarting replica would replay. Recorded as a trace "P ... ; X ; C ..." and
// judged like every other recorded trace: the image read back must hold the
// acknowledged term, the acknowledged vote of that term and every acknowledged
// entry. (The commit index may lag: Tan does not fsync a commit-only change, by
// design; counted, not reported.)

import (
	"errors"
	"fmt"
	"io"
	"sync/atomic"
	"time"

	dragonboat "github.com/lni/dragonboat/v4"
	"github.com/lni/dragonboat/v4/config"
	"github.com/lni/dragonboat/v4/raftio"
	pb "github.com/lni/dragonboat/v4/raftpb"
	hooks "github.com/lni/dragonboat/v4/verifhooks/c04"
	gvfs "github.com/lni/vfs"

	"verif/harness/vh"
)

type probeStore struct {
	name    string
	factory func() config.LogDBFactory
}

var probeStores = []probeStore{
	{"tan", hooks.TanLogDBFactory},
	{"tanmux", hooks.TanMultiplexedLogDBFactory},
	{"pebble", hooks.DefaultLogDBFactory},
}

// slowSync: the probes' file system is lni/vfs ErrorFS around the strict MemFS with this
// injector. It injects no error; while armed (during the last SaveRaftState before a power
// cut) every fsync takes a little while, so that a SaveRaftState that returns before its
// fsyncs are done is cut before they happen.
type slowSync struct{ on, pending int32 }

func (s *slowSync) MaybeError(op gvfs.Op) error {
	if op == gvfs.OpSync {
		atomic.AddInt32(&s.pending, 1)
		if atomic.LoadInt32(&s.on) != 0 {
			time.Sleep(time.Millisecond)
		}
		atomic.AddInt32(&s.pending, -1)
	}
	return nil
}

var probeSync = &slowSync{}

func openStore(ps probeStore, fs *gvfs.MemFS) (raftio.ILogDB, error) {
	cfg := config.NodeHostConfig{NodeHostDir: "/probe", RTTMillisecond: 10, RaftAddress: "probe",
		Expert: config.ExpertConfig{FS: gvfs.Wrap(fs, probeSync), LogDB: config.GetTinyMemLogDBConfig()}}
	cfg.Expert.LogDB.Shards = 2
	cfg.Expert.Engine = config.EngineConfig{ExecShards: 2, CommitShards: 2, ApplyShards: 2, SnapshotShards: 2, CloseShards: 2}
	if err := fs.MkdirAll("/probe", 0755); err != nil {
		return nil, err
	}
	// the directory entry itself must survive the power cut (NodeHost syncs its directories)
	if root, err := fs.OpenDir("/"); err == nil {
		_ = root.Sync()
		_ = root.Close()
	}
	return ps.factory().Create(cfg, func(config.LogDBInfo) {}, []string{"/probe"}, []string{"/probe"})
}

func readBack(db raftio.ILogDB, k key) (image, error) {
	img := image{}
	if ss, err := db.GetSnapshot(k.shard, k.replica); err == nil {
		img.snapIndex, img.snapTerm = ss.Index, ss.Term
	}
	rs, err := db.ReadRaftState(k.shard, k.replica, img.snapIndex)
	if err != nil {
		if errors.Is(err, raftio.ErrNoSavedLog) {
			return img, nil
		}
		return img, err
	}
	img.term, img.vote, img.commit = rs.State.Term, rs.State.Vote, rs.State.Commit
	if rs.EntryCount > 0 {
		ents, _, err := db.IterateEntries(nil, 0, k.shard, k.replica, rs.FirstIndex, rs.FirstIndex+rs.EntryCount, 1<<40)
		if err != nil {
			return img, err
		}
		img.log = fromPBEntries(ents)
	}
	return img, nil
}

// save us[0..cut) one SaveRaftState call each, cut the power, reopen, read back
func probeOnce(ps probeStore, us []upd, cut int) (evs []event, err error) {
	var batches [][]upd
	for i := 0; i < cut; i++ {
		batches = append(batches, []upd{us[i]})
	}
	return probeRun(ps, batches, nil)
}

type fileImage map[string][]byte

func snapshotFiles(fs *gvfs.MemFS, dir string, out fileImage) {
	names, err := fs.List(dir)
	if err != nil {
		return
	}
	for _, n := range names {
		p := fs.PathJoin(dir, n)
		if st, err := fs.Stat(p); err == nil && st.IsDir() {
			snapshotFiles(fs, p, out)
			continue
		}
		f, err := fs.Open(p)
		if err != nil {
			continue
		}
		b, _ := io.ReadAll(f)
		_ = f.Close()
		out[p] = b
	}
}

func powerCut(fs *gvfs.MemFS, db raftio.ILogDB) {
	fs.SetIgnoreSyncs(true)
	// the power is gone at this instant; whatever the store still has in flight (an fsync it
	// did not wait for) gets a moment to find that out before the handles are released
	for i := 0; i < 200 && atomic.LoadInt32(&probeSync.pending) != 0; i++ {
		time.Sleep(500 * time.Microsecond)
	}
	time.Sleep(2 * time.Millisecond)
	_ = vh.Catch(func() { _ = db.Close() })
	fs.ResetToSyncedState()
	fs.SetIgnoreSyncs(false)
}

// probeRun: every element of batches is ONE SaveRaftState call (the updates of several
// replicas a step worker saves together). After the last acknowledged call:
//
//	torn == nil: power cut, reopen, read back.
//	torn != nil: the batch torn is being written when the power fails: nothing of it was
//	fsynced, but the first half of the bytes it appended reached the disk (a torn record at
//	the tail of the log). Reopen (the store repairs its log), read back, cut the power AGAIN
//	at once, reopen, read back: everything acknowledged before the first failure must still
//	be there.
func probeRun(ps probeStore, batches [][]upd, torn []upd) (evs []event, err error) {
	fs := gvfs.NewStrictMem()
	var db raftio.ILogDB
	if p := vh.Catch(func() { db, err = openStore(ps, fs) }); p != "" {
		return nil, fmt.Errorf("open %s: panic %s", ps.name, p)
	}
	if err != nil {
		return nil, fmt.Errorf("open %s: %v", ps.name, err)
	}
	keys := map[key]bool{}
	toPB := func(us []upd) []pb.Update {
		var out []pb.Update
		for _, u := range us {
			pu := toPBUpdate(u)
			for j := range pu.EntriesToSave {
				pu.EntriesToSave[j].Cmd = []byte{byte(pu.EntriesToSave[j].Index), 1, 2, 3, 4, 5, 6, 7, 8, 9, 10, 11, 12, 13, 14, 15}
			}
			pu.Messages = nil
			out = append(out, pu)
		}
		return out
	}
	for i, us := range batches {
		pus := toPB(us)
		var serr error
		if i == len(batches)-1 && torn == nil {
			atomic.StoreInt32(&probeSync.on, 1)
		}
		p := vh.Catch(func() { serr = db.SaveRaftState(pus, pus[0].ShardID%2+1) })
		atomic.StoreInt32(&probeSync.on, 0)
		if p != "" {
			return nil, fmt.Errorf("SaveRaftState %s: panic %s", ps.name, p)
		}
		if serr != nil {
			return nil, fmt.Errorf("SaveRaftState %s: %v", ps.name, serr)
		}
		for _, u := range us {
			k := key{u.shard, u.replica}
			for _, m := range u.msgs {
				if monitorFree(m.typ) {
					evs = append(evs, event{kind: 'Q', k: k, worker: 1, m: m})
				}
			}
		}
		// SaveRaftState returned: from here on the updates are acknowledged as durable
		for _, u := range us {
			k := key{u.shard, u.replica}
			keys[k] = true
			evs = append(evs, event{kind: 'P', k: k, worker: 1, batch: uint64(i + 1), u: u})
		}
		for _, u := range us {
			k := key{u.shard, u.replica}
			for _, m := range u.msgs {
				if !monitorFree(m.typ) {
					evs = append(evs, event{kind: 'Q', k: k, worker: 1, m: m})
				}
			}
		}
	}
	readAll := func() bool {
		if p := vh.Catch(func() { db, err = openStore(ps, fs) }); p != "" || err != nil {
			// the store cannot be opened from what survived: nothing is read back
			err = nil
			for _, k := range sortedKeySet(keys) {
				evs = append(evs, event{kind: 'F', k: k, index: 0})
			}
			return false
		}
		for _, k := range sortedKeySet(keys) {
			var img image
			var rerr error
			if p := vh.Catch(func() { img, rerr = readBack(db, k) }); p != "" || rerr != nil {
				evs = append(evs, event{kind: 'F', k: k, index: 0})
				continue
			}
			evs = append(evs, event{kind: 'C', k: k, rec: img})
		}
		return true
	}
	if torn == nil {
		powerCut(fs, db)
		evs = append(evs, event{kind: 'X'})
		if readAll() {
			_ = vh.Catch(func() { _ = db.Close() })
		}
		return evs, nil
	}
	// first power failure, in the middle of writing the batch torn
	before := fileImage{}
	snapshotFiles(fs, "/probe", before)
	fs.SetIgnoreSyncs(true)
	pus := toPB(torn)
	if p := vh.Catch(func() { _ = db.SaveRaftState(pus, pus[0].ShardID%2+1) }); p != "" {
		return nil, fmt.Errorf("SaveRaftState (torn) %s: panic %s", ps.name, p)
	}
	after := fileImage{}
	snapshotFiles(fs, "/probe", after)
	powerCut(fs, db)
	tornFiles := 0
	cur := fileImage{}
	snapshotFiles(fs, "/probe", cur)
	for name, b := range after {
		old, ok := before[name]
		if !ok || len(b) <= len(old) || string(b[:len(old)]) != string(old) {
			continue // not a file the cut write appended to
		}
		c, ok := cur[name]
		if !ok || len(c) >= len(b) || string(b[:len(c)]) != string(c) {
			continue
		}
		delta := b[len(c):]
		f, ferr := fs.OpenForAppend(name)
		if ferr != nil {
			continue
		}
		_, _ = f.Write(delta[:len(delta)/2])
		_ = f.Sync()
		_ = f.Close()
		tornFiles++
	}
	if tornFiles == 0 {
		return nil, fmt.Errorf("torn write %s: no appended file found", ps.name)
	}
	evs = append(evs, event{kind: 'X'})
	if !readAll() {
		return evs, nil
	}
	// second power failure right after the restart that repaired the log
	powerCut(fs, db)
	evs = append(evs, event{kind: 'X'})
	if readAll() {
		_ = vh.Catch(func() { _ = db.Close() })
	}
	return evs, nil
}

// restartProbe: save the batches through the real store, cut the power, reopen the store and
// start the replica THROUGH THE REAL node.startRaft (node.replayLog + raft.Launch, as
// NodeHost.startShard does for a restarting or joining replica). What the launched raft peer
// holds (term, vote, commit, log range and terms, snapshot) is recorded as the image read
// back: it must be the acknowledged state.
func restartProbe(ps probeStore, batches [][]upd, k key) (evs []event, err error) {
	fs := gvfs.NewStrictMem()
	var db raftio.ILogDB
	if p := vh.Catch(func() { db, err = openStore(ps, fs) }); p != "" || err != nil {
		return nil, fmt.Errorf("open %s: %v %s", ps.name, err, p)
	}
	for i, us := range batches {
		var pus []pb.Update
		for _, u := range us {
			pu := toPBUpdate(u)
			for j := range pu.EntriesToSave {
				pu.EntriesToSave[j].Cmd = []byte{byte(pu.EntriesToSave[j].Index)}
			}
			pu.Messages = nil
			if pu.Snapshot.Index != 0 {
				pu.Snapshot.ShardID = u.shard
				pu.Snapshot.Filepath = "/probe-snapshots/none"
				pu.Snapshot.Membership = pb.Membership{ConfigChangeId: 1, Addresses: map[uint64]string{1: "a1", 2: "a2", 3: "a3"}}
			}
			pus = append(pus, pu)
		}
		var serr error
		if p := vh.Catch(func() { serr = db.SaveRaftState(pus, pus[0].ShardID%2+1) }); p != "" || serr != nil {
			return nil, fmt.Errorf("SaveRaftState %s: %v %s", ps.name, serr, p)
		}
		for _, u := range us {
			evs = append(evs, event{kind: 'P', k: key{u.shard, u.replica}, worker: 1, batch: uint64(i + 1), u: u})
		}
		for _, u := range us {
			for _, m := range u.msgs {
				evs = append(evs, event{kind: 'Q', k: key{u.shard, u.replica}, worker: 1, m: m})
			}
		}
	}
	powerCut(fs, db)
	evs = append(evs, event{kind: 'X'})
	if p := vh.Catch(func() { db, err = openStore(ps, fs) }); p != "" || err != nil {
		evs = append(evs, event{kind: 'F', k: k, index: 0})
		return evs, nil
	}
	defer func() { _ = vh.Catch(func() { _ = db.Close() }) }()
	cfg := config.Config{ShardID: k.shard, ReplicaID: k.replica, ElectionRTT: 10, HeartbeatRTT: 1}
	var img image
	var rerr error
	if p := vh.Catch(func() {
		st, ss, _, e := dragonboat.VerifC04Restart(cfg, db, fs, map[uint64]string{}, false)
		if e != nil {
			rerr = e
			return
		}
		img = image{term: st.Term, vote: st.Vote, commit: st.Commit, snapIndex: ss.Index, snapTerm: ss.Term}
		for i, t := range st.Terms {
			img.log = append(img.log, ent{st.FirstIndex + uint64(i), t})
		}
	}); p != "" || rerr != nil {
		evs = append(evs, event{kind: 'F', k: k, index: 0})
		return evs, nil
	}
	evs = append(evs, event{kind: 'C', k: k, rec: img})
	return evs, nil
}

func waitFilesStable(fs *gvfs.MemFS, dir string) {
	last := -1
	same := 0
	for i := 0; i < 100 && same < 5; i++ {
		n := 0
		var walk func(d string)
		walk = func(d string) {
			names, err := fs.List(d)
			if err != nil {
				return
			}
			for _, x := range names {
				p := fs.PathJoin(d, x)
				if st, err := fs.Stat(p); err == nil && st.IsDir() {
					walk(p)
				} else {
					n++
				}
			}
		}
		walk(dir)
		if n == last {
			same++
		} else {
			same, last = 0, n
		}
		time.Sleep(10 * time.Millisecond)
	}
}

// rotateCompactProbe: two replicas of one host (shards 1 and 17: one tan db when the logs are
// multiplexed). The idle replica (1,1) persists entries and later a state-only update (a vote
// in a new term), then writes nothing more. The busy replica (17,1) keeps writing so that the
// log file rotates, records a snapshot and compacts its log (RemoveEntriesTo), which lets the
// store delete the log files it considers obsolete. Clean restart; everything both replicas
// were told is durable must be readable.
func rotateCompactProbe(ps probeStore) (evs []event, err error) {
	fs := gvfs.NewStrictMem()
	var db raftio.ILogDB
	if p := vh.Catch(func() { db, err = openStore(ps, fs) }); p != "" || err != nil {
		return nil, fmt.Errorf("open %s: %v %s", ps.name, err, p)
	}
	for _, s := range []uint64{1, 17} {
		if _, perr := hooks.TanPreopen(db, s, 1, 4096); perr != nil {
			return nil, fmt.Errorf("preopen %s: %v", ps.name, perr)
		}
	}
	batch := uint64(0)
	save := func(u upd, cmdSize int) error {
		pu := toPBUpdate(u)
		for j := range pu.EntriesToSave {
			pu.EntriesToSave[j].Cmd = make([]byte, cmdSize)
		}
		pu.Messages = nil
		if pu.Snapshot.Index != 0 {
			pu.Snapshot.ShardID = u.shard
			pu.Snapshot.Filepath = "/probe-snapshots/none"
			pu.Snapshot.Membership = pb.Membership{ConfigChangeId: 1, Addresses: map[uint64]string{1: "a1", 2: "a2", 3: "a3"}}
		}
		var serr error
		if p := vh.Catch(func() { serr = db.SaveRaftState([]pb.Update{pu}, pu.ShardID%2+1) }); p != "" || serr != nil {
			return fmt.Errorf("SaveRaftState %s: %v %s", ps.name, serr, p)
		}
		batch++
		k := key{u.shard, u.replica}
		evs = append(evs, event{kind: 'P', k: k, worker: 1, batch: batch, u: u})
		for _, m := range u.msgs {
			evs = append(evs, event{kind: 'Q', k: k, worker: 1, m: m})
		}
		return nil
	}
	busy := func(from, to uint64) error {
		for i := from; i <= to; i++ {
			if e := save(withEnts(st(17, 1, 7, 1, i), i, 7), 1024); e != nil {
				return e
			}
		}
		return nil
	}
	if err = save(withMsg(withEnts(st(1, 1, 4, 3, 3), 1, 4, 4, 4), ack(1, 3, 4, 3)), 16); err != nil {
		return nil, err
	}
	if err = busy(1, 10); err != nil {
		return nil, err
	}
	// the idle replica grants its vote in term 5 and goes quiet
	if err = save(withMsg(st(1, 1, 5, 2, 3), grant(1, 2, 5)), 16); err != nil {
		return nil, err
	}
	if err = busy(11, 40); err != nil {
		return nil, err
	}
	// the busy replica records a snapshot at 35 and compacts its log up to it
	// (a locally taken snapshot is recorded through SaveSnapshots, as the snapshotter does)
	ssu := snap(upd{shard: 17, replica: 1, fast: true}, 35, 7)
	spu := toPBUpdate(ssu)
	spu.Snapshot.ShardID = 17
	spu.Snapshot.Filepath = "/probe-snapshots/none"
	spu.Snapshot.Membership = pb.Membership{ConfigChangeId: 1, Addresses: map[uint64]string{1: "a1", 2: "a2", 3: "a3"}}
	var sserr error
	if p := vh.Catch(func() { sserr = db.SaveSnapshots([]pb.Update{spu}) }); p != "" || sserr != nil {
		return nil, fmt.Errorf("SaveSnapshots %s: %v %s", ps.name, sserr, p)
	}
	batch++
	evs = append(evs, event{kind: 'P', k: key{17, 1}, worker: 0, batch: batch, u: ssu})
	var cerr error
	if p := vh.Catch(func() { cerr = db.RemoveEntriesTo(17, 1, 35) }); p != "" || cerr != nil {
		return nil, fmt.Errorf("RemoveEntriesTo %s: %v %s", ps.name, cerr, p)
	}
	if p := vh.Catch(func() {
		if ch, e := db.CompactEntriesTo(17, 1, 35); e == nil && ch != nil {
			select {
			case <-ch:
			case <-time.After(2 * time.Second):
			}
		}
	}); p != "" {
		return nil, fmt.Errorf("CompactEntriesTo %s: panic %s", ps.name, p)
	}
	waitFilesStable(fs, "/probe")
	// clean restart (a power cut could resurrect a deleted file whose directory was not synced)
	_ = vh.Catch(func() { _ = db.Close() })
	evs = append(evs, event{kind: 'X'})
	if p := vh.Catch(func() { db, err = openStore(ps, fs) }); p != "" || err != nil {
		evs = append(evs, event{kind: 'F', k: key{1, 1}, index: 0}, event{kind: 'F', k: key{17, 1}, index: 0})
		return evs, nil
	}
	defer func() { _ = vh.Catch(func() { _ = db.Close() }) }()
	for _, s := range []uint64{1, 17} {
		_, _ = hooks.TanPreopen(db, s, 1, 4096)
	}
	waitFilesStable(fs, "/probe")
	for _, k := range []key{{1, 1}, {17, 1}} {
		var img image
		var rerr error
		if p := vh.Catch(func() { img, rerr = readBack(db, k) }); p != "" || rerr != nil {
			evs = append(evs, event{kind: 'F', k: k, index: 0})
			continue
		}
		evs = append(evs, event{kind: 'C', k: k, rec: img})
	}
	return evs, nil
}

func snap(u upd, index, term uint64) upd { u.snapIndex, u.snapTerm = index, term; return u }

type restartShape struct {
	name    string
	batches [][]upd
}

func restartShapes() []restartShape {
	e := upd{shard: 1, replica: 1, fast: true}
	return []restartShape{
		// a joining replica with an empty log that granted a vote before its first Replicate
		{"state-only", [][]upd{{withMsg(st(1, 1, 5, 2, 0), grant(1, 2, 5))}}},
		{"state-only-twice", [][]upd{{withMsg(st(1, 1, 5, 2, 0), grant(1, 2, 5))}, {st(1, 1, 6, 0, 0)}, {withMsg(st(1, 1, 6, 3, 0), grant(1, 3, 6))}}},
		{"state-entries", [][]upd{{withMsg(withEnts(st(1, 1, 4, 1, 2), 1, 4, 4, 4), ack(1, 2, 4, 3))}, {withMsg(st(1, 1, 5, 2, 2), grant(1, 2, 5))}}},
		{"entries-then-state", [][]upd{{withEnts(st(1, 1, 4, 0, 0), 1, 4, 4)}, {withMsg(withEnts(e, 3, 4), ack(1, 2, 4, 3))}, {st(1, 1, 4, 0, 3)}}},
		{"snapshot-state", [][]upd{{snap(st(1, 1, 4, 1, 10), 10, 3)}, {withMsg(st(1, 1, 5, 2, 10), grant(1, 2, 5))}}},
		{"snapshot-state-entries", [][]upd{{snap(st(1, 1, 4, 1, 10), 10, 3)}, {withMsg(withEnts(st(1, 1, 4, 1, 10), 11, 4, 4), ack(1, 2, 4, 12))}}},
		{"snapshot-only", [][]upd{{snap(e, 10, 3)}}},
		{"nothing", nil},
	}
}

func sortedKeySet(m map[key]bool) []key {
	r := map[key]*repState{}
	for k := range m {
		r[k] = nil
	}
	return sortedKeys(r)
}

func st(shard, replica, term, vote, commit uint64) upd {
	return upd{shard: shard, replica: replica, term: term, vote: vote, commit: commit, fast: true}
}
func withEnts(u upd, first uint64, terms ...uint64) upd {
	for i, t := range terms {
		u.save = append(u.save, ent{first + uint64(i), t})
	}
	return u
}
func withMsg(u upd, m msg) upd { u.msgs = append(u.msgs, m); return u }

func grant(from, to, term uint64) msg {
	return msg{typ: mtRequestVoteResp, to: to, from: from, term: term}
}
func ack(from, to, term, idx uint64) msg {
	return msg{typ: mtReplicateResp, to: to, from: from, term: term, logindex: idx}
}

// the shapes Peer.getUpdate produces around a State change
func probeShapes() [][]upd {
	return [][]upd{
		// term learned without voting (e.g. a candidate with a stale log was rejected), then the
		// vote is granted in the same term: a vote-only change, no entries
		{st(1, 1, 5, 0, 3), withMsg(st(1, 1, 5, 2, 3), grant(1, 2, 5))},
		// entries + state, then vote-only
		{withMsg(withEnts(st(1, 1, 5, 0, 0), 1, 5, 5, 5), ack(1, 3, 5, 3)), withMsg(st(1, 1, 5, 2, 0), grant(1, 2, 5))},
		// commit-only change
		{withMsg(st(1, 1, 5, 2, 3), grant(1, 2, 5)), st(1, 1, 5, 2, 4)},
		// term-only change
		{withMsg(st(1, 1, 5, 2, 3), grant(1, 2, 5)), withMsg(st(1, 1, 6, 0, 3), msg{typ: mtHeartbeatResp, to: 3, from: 1, term: 6})},
		// commit-only, then vote-only on top of the unsynced record
		{st(1, 1, 5, 0, 3), st(1, 1, 5, 0, 4), withMsg(st(1, 1, 5, 2, 4), grant(1, 2, 5))},
		// an entries-only update (empty State) in between
		{st(1, 1, 5, 0, 0), withMsg(withEnts(upd{shard: 1, replica: 1, fast: true}, 1, 5, 5), ack(1, 3, 5, 2)), withMsg(st(1, 1, 5, 3, 0), grant(1, 3, 5))},
		// bootstrap, campaign, win, append, lose the term, overwrite the tail
		{withEnts(st(1, 1, 1, 0, 3), 1, 1, 1, 1), withMsg(st(1, 1, 2, 1, 3), msg{typ: mtRequestVote, to: 2, from: 1, term: 2, logindex: 3, logterm: 1}),
			withEnts(st(1, 1, 2, 1, 3), 4, 2, 2), st(1, 1, 3, 0, 3), withMsg(withEnts(st(1, 1, 3, 0, 4), 5, 3), ack(1, 2, 3, 5)),
			withMsg(st(1, 1, 3, 2, 4), grant(1, 2, 3))},
		// two replicas of one host (same log file when multiplexed)
		{st(1, 1, 5, 0, 3), st(2, 1, 7, 0, 1), withMsg(st(1, 1, 5, 2, 3), grant(1, 2, 5)), withMsg(st(2, 1, 7, 3, 1), grant(1, 3, 7)),
			st(2, 1, 7, 3, 2), withMsg(st(1, 1, 6, 0, 3), msg{typ: mtHeartbeatResp, to: 3, from: 1, term: 6})},
	}
}

// updates of a recorded single-replica schedule of the real raft.Peer, cut after a vote-only
// State change when there is one
func peerShape(r *vh.Rand, evs []event) (us []upd, cuts []int) {
	var term, vote uint64
	for _, e := range evs {
		if e.kind != 'P' {
			continue
		}
		u := e.u
		us = append(us, u)
		if !(u.term == 0 && u.vote == 0 && u.commit == 0) {
			if u.term == term && u.vote != vote && len(u.save) == 0 {
				cuts = append(cuts, len(us))
			}
			term, vote = u.term, u.vote
		}
	}
	if len(us) > 0 {
		cuts = append(cuts, 1+r.Intn(len(us)))
	}
	if len(cuts) > 3 {
		cuts = cuts[:3]
	}
	return us, cuts
}

func genProbeCases(r *vh.Rand, w *vh.LineWriter, tier string, peerTraces [][]event) map[string]int {
	notes := map[string]int{}
	n := 0
	emit := func(ps probeStore, us []upd, cut int, what string) {
		evs, err := probeOnce(ps, us, cut)
		if err != nil {
			notes["probe_errors"]++
			fmt.Fprintf(stderrW, "c04: durability probe %s %s cut=%d: %v\n", ps.name, what, cut, err)
			return
		}
		w.Printf("D%d live probe=%s store=%s cut=%d | %s\n", n, what, ps.name, cut, eventsStr(evs))
		n++
		notes["probes_"+ps.name]++
	}
	for si, shape := range probeShapes() {
		for _, ps := range probeStores {
			for cut := 1; cut <= len(shape); cut++ {
				if ps.name == "pebble" && tier != "thorough" && cut != len(shape) && cut != len(shape)-1 {
					continue // Pebble opens are slow; quick keeps the last two cuts
				}
				emit(ps, shape, cut, fmt.Sprintf("shape%d", si))
			}
		}
	}
	// two replicas of one host saved by ONE SaveRaftState call: shards 1 and 17 share a step
	// worker and, with multiplexed logs, one tan db. All kind pairs, both orders.
	emitRun := func(ps probeStore, batches [][]upd, torn []upd, what string) {
		evs, err := probeRun(ps, batches, torn)
		if err != nil {
			notes["probe_errors"]++
			fmt.Fprintf(stderrW, "c04: durability probe %s %s: %v\n", ps.name, what, err)
			return
		}
		w.Printf("D%d live probe=%s store=%s | %s\n", n, what, ps.name, eventsStr(evs))
		n++
		notes["probes_"+ps.name]++
	}
	base := func(shard uint64) upd { return withEnts(st(shard, 1, 4, 0, 1), 1, 4, 4, 4) }
	kinds := []string{"entries", "vote", "term", "commit"}
	mk := func(kind string, shard uint64) upd {
		switch kind {
		case "entries":
			return withMsg(withEnts(st(shard, 1, 4, 0, 1), 4, 4, 4), ack(1, 2, 4, 5))
		case "vote":
			return withMsg(st(shard, 1, 4, 2, 1), grant(1, 2, 4))
		case "term":
			return withMsg(st(shard, 1, 5, 2, 1), grant(1, 2, 5))
		default:
			return st(shard, 1, 4, 0, 2)
		}
	}
	for _, ps := range probeStores {
		for ai, ka := range kinds {
			for bi, kb := range kinds {
				if ps.name == "pebble" && tier != "thorough" && (ai+bi)%3 != 0 {
					continue
				}
				for _, order := range [][2]uint64{{1, 17}, {17, 1}} {
					batches := [][]upd{{base(1), base(17)}, {mk(ka, order[0]), mk(kb, order[1])}}
					emitRun(ps, batches, nil, fmt.Sprintf("pair-%s-%s-%d", ka, kb, order[0]))
				}
			}
		}
	}
	// double fault: torn tail, repair on restart, second power failure at once
	for _, ps := range probeStores[:2] {
		acked := [][]upd{{withEnts(st(2, 3, 4, 1, 1), 1, 4, 4, 4)}, {withMsg(withEnts(st(2, 3, 4, 1, 3), 4, 4, 4), ack(3, 1, 4, 5))}}
		emitRun(ps, acked, []upd{withEnts(st(2, 3, 4, 1, 5), 6, 4, 4, 4)}, "torn-entries")
		emitRun(ps, [][]upd{{base(1), base(17)}, {mk("vote", 1), mk("entries", 17)}}, []upd{mk("term", 1), withEnts(st(17, 1, 4, 0, 2), 6, 4, 4)}, "torn-pair")
		emitRun(ps, [][]upd{{st(1, 1, 5, 0, 3)}, {withMsg(st(1, 1, 5, 2, 3), grant(1, 2, 5))}}, []upd{st(1, 1, 6, 0, 3)}, "torn-vote")
	}
	// log rotation + compaction of a busy replica next to an idle one
	for _, ps := range probeStores {
		evs, err := rotateCompactProbe(ps)
		if err != nil {
			notes["probe_errors"]++
			fmt.Fprintf(stderrW, "c04: rotate/compact probe %s: %v\n", ps.name, err)
			continue
		}
		w.Printf("D%d live probe=rotate-compact store=%s | %s\n", n, ps.name, eventsStr(evs))
		n++
		notes["probes_"+ps.name]++
	}
	// restart through the real node.replayLog / raft.Launch
	for _, sh := range restartShapes() {
		for _, ps := range probeStores {
			evs, err := restartProbe(ps, sh.batches, key{1, 1})
			if err != nil {
				notes["probe_errors"]++
				fmt.Fprintf(stderrW, "c04: restart probe %s %s: %v\n", ps.name, sh.name, err)
				continue
			}
			w.Printf("R%d live probe=restart-%s store=%s | %s\n", n, sh.name, ps.name, eventsStr(evs))
			n++
			notes["restarts_"+ps.name]++
		}
	}
	maxPeer := 40
	if tier == "thorough" {
		maxPeer = 400
	}
	for i, evs := range peerTraces {
		if i >= maxPeer {
			break
		}
		us, cuts := peerShape(r, evs)
		for _, c := range cuts {
			ps := probeStores[(i+c)%2] // tan, tanmux
			if tier == "thorough" && r.Chance(1, 8) {
				ps = probeStores[2]
			}
			emit(ps, us, c, fmt.Sprintf("peer%d", i))
		}
	}
	return notes
}
