// The log store of the C16 harness: the real sharded LogDB of internal/logdb
// (plain entry format, one shard, through the C10 bridge) on top of an ordered
// in-memory key-value store with atomic write batches, which is what survives a
// crash. GetSnapshot / SaveSnapshots / SaveRaftState are the repository's own.
package main

import (
	"bytes"
	"sort"

	"github.com/lni/dragonboat/v4/raftio"
	hk10 "github.com/lni/dragonboat/v4/verifhooks/c10"
)

type memKV struct {
	m map[string][]byte
}

func newMemKV() *memKV { return &memKV{m: map[string][]byte{}} }

type wbOp struct {
	del bool
	k   []byte
	v   []byte
}

type memWB struct{ ops []wbOp }

func (w *memWB) Destroy() {}
func (w *memWB) Put(k []byte, v []byte) {
	w.ops = append(w.ops, wbOp{k: append([]byte{}, k...), v: append([]byte{}, v...)})
}
func (w *memWB) Delete(k []byte) { w.ops = append(w.ops, wbOp{del: true, k: append([]byte{}, k...)}) }
func (w *memWB) Clear()          { w.ops = w.ops[:0] }
func (w *memWB) Count() int      { return len(w.ops) }

func (s *memKV) sortedKeys() []string {
	ks := make([]string, 0, len(s.m))
	for k := range s.m {
		ks = append(ks, k)
	}
	sort.Strings(ks)
	return ks
}

func (s *memKV) Name() string { return "c16-memkv" }
func (s *memKV) Close() error { return nil }
func (s *memKV) IterateValue(fk []byte, lk []byte, inc bool, op func(key []byte, data []byte) (bool, error)) error {
	for _, k := range s.sortedKeys() {
		kb := []byte(k)
		if bytes.Compare(kb, fk) < 0 {
			continue
		}
		if c := bytes.Compare(kb, lk); c > 0 || (c == 0 && !inc) {
			return nil
		}
		cont, err := op(kb, s.m[k])
		if err != nil {
			return err
		}
		if !cont {
			break
		}
	}
	return nil
}
func (s *memKV) GetValue(key []byte, op func([]byte) error) error { return op(s.m[string(key)]) }
func (s *memKV) SaveValue(key []byte, value []byte) error {
	s.m[string(key)] = append([]byte{}, value...)
	return nil
}
func (s *memKV) DeleteValue(key []byte) error { delete(s.m, string(key)); return nil }
func (s *memKV) GetWriteBatch() hk10.IWriteBatch { return &memWB{} }
func (s *memKV) CommitWriteBatch(wb hk10.IWriteBatch) error {
	for _, o := range wb.(*memWB).ops {
		if o.del {
			delete(s.m, string(o.k))
		} else {
			s.m[string(o.k)] = o.v
		}
	}
	return nil
}
func (s *memKV) BulkRemoveEntries(fk []byte, lk []byte) error {
	for _, k := range s.sortedKeys() {
		kb := []byte(k)
		if bytes.Compare(kb, fk) >= 0 && bytes.Compare(kb, lk) < 0 {
			delete(s.m, k)
		}
	}
	return nil
}
func (s *memKV) CompactEntries([]byte, []byte) error { return nil }
func (s *memKV) FullCompaction() error               { return nil }

func openRealLogDB(kvs *memKV) raftio.ILogDB {
	db, err := hk10.OpenLogDBOverKV(kvs, false)
	if err != nil {
		panic(err)
	}
	return db
}
