// One end-to-end case for the start-up call site: a real NodeHost over the strict
// in-memory file system; what a crash can leave in the replica's snapshot
// directory (a .generating and a .receiving directory, a flagged final directory
// that was never recorded) is planted while the replica is stopped; the replica is
// started again through StartReplica and the directory is listed.
package main

import (
	"fmt"
	"io"
	"path"
	"strings"
	"time"

	dragonboat "github.com/lni/dragonboat/v4"
	"github.com/lni/dragonboat/v4/config"
	chantr "github.com/lni/dragonboat/v4/plugin/chan"
	pb "github.com/lni/dragonboat/v4/raftpb"
	sm "github.com/lni/dragonboat/v4/statemachine"
	hk20 "github.com/lni/dragonboat/v4/verifhooks/c20"
	hk "github.com/lni/dragonboat/v4/verifhooks/c16"
	"verif/harness/vh"
)

// chanFactory is the in-process channel transport of plugin/chan; its Validate is
// not meant to be called, NodeHostConfig validation does call it.
type chanFactory struct{ chantr.ChanTransportFactory }

func (chanFactory) Validate(string) bool { return true }

type e2eSM struct{ n uint64 }

func (s *e2eSM) Update(e sm.Entry) (sm.Result, error)    { s.n = e.Index; return sm.Result{Value: e.Index}, nil }
func (s *e2eSM) Lookup(interface{}) (interface{}, error) { return s.n, nil }
func (s *e2eSM) SaveSnapshot(w io.Writer, _ sm.ISnapshotFileCollection, _ <-chan struct{}) error {
	_, err := w.Write(payloadOf(s.n, 1))
	return err
}
func (s *e2eSM) RecoverFromSnapshot(r io.Reader, _ []sm.SnapshotFile, _ <-chan struct{}) error {
	_, err := io.ReadAll(r)
	return err
}
func (s *e2eSM) Close() error { return nil }

func findDir(fs *hk.MemFS, root string, name string) string {
	l, err := fs.List(root)
	if err != nil {
		return ""
	}
	for _, e := range l {
		p := path.Join(root, e)
		if st, err := fs.Stat(p); err == nil && st.IsDir() {
			if e == name {
				return p
			}
			if r := findDir(fs, p, name); r != "" {
				return r
			}
		}
	}
	return ""
}

// runStartupE2E returns the observation line and the monitor's messages.
func runStartupE2E(id string) (string, []string) {
	var viol []string
	line := id + " startup"
	p := vh.Catch(func() {
		fs := hk.NewStrictMem()
		ex := config.GetDefaultExpertConfig()
		ex.LogDB = config.GetTinyMemLogDBConfig()
		ex.LogDB.Shards = 1
		ex.FS = fs
		ex.TransportFactory = &chanFactory{}
		ex.Engine = config.EngineConfig{ExecShards: 1, CommitShards: 1, ApplyShards: 1, SnapshotShards: 1, CloseShards: 1}
		nhc := config.NodeHostConfig{NodeHostDir: "/e2e/data", RTTMillisecond: 2, RaftAddress: "c16-e2e-1", Expert: ex}
		cfg := config.Config{ShardID: 1, ReplicaID: 1, ElectionRTT: 10, HeartbeatRTT: 1}
		mk := func(uint64, uint64) sm.IStateMachine { return &e2eSM{} }
		nh, err := dragonboat.NewNodeHost(nhc)
		if err != nil {
			panic(err)
		}
		defer nh.Close()
		if err := nh.StartReplica(map[uint64]string{1: "c16-e2e-1"}, false, mk, cfg); err != nil {
			panic(err)
		}
		if err := nh.StopShard(1); err != nil {
			panic(err)
		}
		dir := findDir(fs, "/e2e/data", "snapshot-1-1")
		if dir == "" {
			panic("snapshot directory of the replica not found")
		}
		// what a crash leaves
		gen := path.Join(dir, "snapshot-0000000000000005-1.generating")
		rcv := path.Join(dir, "snapshot-0000000000000006-2.receiving")
		fin := path.Join(dir, "snapshot-0000000000000007")
		for _, d := range []string{gen, rcv, fin} {
			if err := fs.MkdirAll(d, 0755); err != nil {
				panic(err)
			}
		}
		ss := pb.Snapshot{ShardID: 1, Index: 7, Term: 1}
		if err := hk20.CreateFlagFile(fin, hk.SnapshotFlagFilename, &ss, fs); err != nil {
			panic(err)
		}
		time.Sleep(5 * time.Millisecond)
		if err := nh.StartReplica(nil, false, mk, cfg); err != nil {
			panic(err)
		}
		l, _ := fs.List(dir)
		var left []string
		for _, e := range l {
			if c := dirClass(e); !strings.HasPrefix(c, "other:") {
				left = append(left, c)
			}
		}
		if len(left) == 0 {
			line += " clean"
		} else {
			line += " left=" + strings.Join(left, ",")
			viol = append(viol, fmt.Sprintf("NodeHost.StartReplica left %s in the replica's snapshot directory: the start-up cleanup did not run", strings.Join(left, ",")))
		}
	})
	if p != "" {
		line += " panic"
		viol = append(viol, "end-to-end start-up case: "+p)
	}
	return line, viol
}
