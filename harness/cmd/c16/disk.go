// On-disk state machine mode (header kind=disk): the replica is a real *node
// (hooks of /repo/verif_hooks_c08.go) over an IOnDiskStateMachine whose state is
// a volatile and a durable applied index; node.recover is driven for a received
// snapshot and again at every restart.
package main

import (
	"encoding/binary"
	"fmt"
	"io"

	"github.com/lni/dragonboat/v4/config"
	pb "github.com/lni/dragonboat/v4/raftpb"
	sm "github.com/lni/dragonboat/v4/statemachine"
	hk8 "github.com/lni/dragonboat/v4/verifhooks/c08"
	"verif/harness/vh"
)

// diskState survives a process restart; a crash keeps only dur.
type diskState struct {
	vol uint64
	dur uint64
}

type diskSM struct {
	d *diskState
	r *recorder
}

func (s *diskSM) Open(<-chan struct{}) (uint64, error) {
	s.d.vol = s.d.dur
	return s.d.dur, nil
}
func (s *diskSM) Update(e []sm.Entry) ([]sm.Entry, error) {
	for _, x := range e {
		s.d.vol = x.Index
	}
	return e, nil
}
func (s *diskSM) Lookup(interface{}) (interface{}, error) { return s.d.vol, nil }
func (s *diskSM) Sync() error {
	if s.r.note("smsync", false) {
		s.d.dur = s.d.vol
	}
	return nil
}
func (s *diskSM) PrepareSnapshot() (interface{}, error) { return s.d.vol, nil }
func (s *diskSM) SaveSnapshot(ctx interface{}, w io.Writer, _ <-chan struct{}) error {
	b := make([]byte, 8)
	binary.LittleEndian.PutUint64(b, ctx.(uint64))
	_, err := w.Write(b)
	return err
}
func (s *diskSM) RecoverFromSnapshot(r io.Reader, _ <-chan struct{}) error {
	b, err := io.ReadAll(r)
	if err != nil {
		return err
	}
	if len(b) < 8 {
		return fmt.Errorf("short image")
	}
	idx := binary.LittleEndian.Uint64(b)
	s.r.note(fmt.Sprintf("smrecover %d", idx), false)
	s.d.vol = idx // not durable until Sync
	return nil
}
func (s *diskSM) Close() error { return nil }

// regSM is a regular (in-memory) state machine: its state is the index of the last
// applied entry and nothing of it survives a restart.
type regSM struct {
	d *diskState
	r *recorder
}

func (s *regSM) Update(e sm.Entry) (sm.Result, error) {
	s.d.vol = e.Index
	return sm.Result{Value: e.Index}, nil
}
func (s *regSM) Lookup(interface{}) (interface{}, error) { return s.d.vol, nil }
func (s *regSM) SaveSnapshot(w io.Writer, _ sm.ISnapshotFileCollection, _ <-chan struct{}) error {
	_, err := w.Write(payloadOf(s.d.vol, 1))
	return err
}
func (s *regSM) RecoverFromSnapshot(r io.Reader, _ []sm.SnapshotFile, _ <-chan struct{}) error {
	b, err := io.ReadAll(r)
	if err != nil {
		return err
	}
	if len(b) < 8 {
		return fmt.Errorf("short image")
	}
	idx := binary.LittleEndian.Uint64(b)
	s.r.note(fmt.Sprintf("smrecover %d", idx), false)
	s.d.vol = idx
	return nil
}
func (s *regSM) Close() error { return nil }

type nodeProxy struct{ stop chan struct{} }

func (n *nodeProxy) StepReady()                                                 {}
func (n *nodeProxy) RestoreRemotes(pb.Snapshot) error                           { return nil }
func (n *nodeProxy) ApplyUpdate(pb.Entry, sm.Result, bool, bool, bool)          {}
func (n *nodeProxy) ApplyConfigChange(pb.ConfigChange, uint64, bool) error      { return nil }
func (n *nodeProxy) ReplicaID() uint64                                          { return replicaID }
func (n *nodeProxy) ShardID() uint64                                            { return shardID }
func (n *nodeProxy) ShouldStop() <-chan struct{}                                { return n.stop }

// startNode is a replica process start after processOrphans: a new node and
// state machine over the durable parts, replayLog, the initial node.recover.
func (w *world) startNode(newNode bool) (outcome string) {
	cfg := config.Config{ShardID: shardID, ReplicaID: replicaID, CompactionOverhead: 1, DisableAutoCompactions: true}
	proxy := &nodeProxy{stop: make(chan struct{})}
	done := make(chan struct{})
	var msm hk8.IManagedStateMachine
	if w.reg {
		w.disk.vol, w.disk.dur = 0, 0 // a new process: nothing of a regular state machine survives
		msm = hk8.NewRegularSM(cfg, &regSM{d: w.disk, r: w.r}, done)
	} else {
		msm = hk8.NewOnDiskSM(cfg, &diskSM{d: w.disk, r: w.r}, done)
	}
	w.node = hk8.NewNode(cfg, rootFunc, w.ldb, w.fs, func(ss hk8.ISnapshotter) *hk8.StateMachine {
		return hk8.NewStateMachine(msm, ss, cfg, proxy, w.fs)
	})
	w.proxy = proxy
	w.dead = false
	outcome = "ok"
	if p := vh.Catch(func() {
		if _, err := w.node.ReplayLog(); err != nil {
			outcome = "err"
			return
		}
		idx, err := w.node.Recover(hk8.Task{Recover: true, Initial: true, NewNode: newNode})
		if err != nil {
			outcome = "err"
			return
		}
		w.node.InitialRecoverDone(idx)
		if idx == 0 {
			// a replica without a snapshot replays its log: the bootstrap membership
			// entry at index 1 (no state machine update, nothing recorded)
			cc := pb.ConfigChange{Type: pb.AddNode, ReplicaID: replicaID, Address: "a1", Initialize: true}
			w.deliver([]pb.Entry{{Type: pb.ConfigChangeEntry, Index: 1, Term: 1, Cmd: pb.MustMarshal(&cc)}})
		}
	}); p != "" {
		w.lastPanic = p
		w.dead = true
		return "panic"
	}
	if outcome != "ok" {
		w.dead = true
	}
	return outcome
}

// deliver hands committed entries to the apply path (rsm.StateMachine.Handle).
func (w *world) deliver(ents []pb.Entry) {
	// the step worker makes entries durable in the log store before they are applied
	if !w.r.frozen && len(ents) > 0 {
		last := ents[len(ents)-1]
		ud := pb.Update{ShardID: shardID, ReplicaID: replicaID, EntriesToSave: ents,
			State: pb.State{Term: last.Term, Commit: last.Index}}
		if err := w.ldb.real.SaveRaftState([]pb.Update{ud}, 1); err != nil {
			panic(err)
		}
	}
	w.node.SM().TaskQ().Add(hk8.Task{Entries: ents})
	if _, err := w.node.SM().Handle(make([]hk8.Task, 0, 4), make([]sm.Entry, 0, 4)); err != nil {
		panic(err)
	}
}

// applyEntries applies state machine updates up to index k (volatile until Sync).
func (w *world) applyEntries(k uint64) string {
	if w.node == nil || w.dead {
		return "skip"
	}
	ap := w.appliedIndex()
	if k <= ap {
		return "skip"
	}
	var ents []pb.Entry
	for i := ap + 1; i <= k; i++ {
		ents = append(ents, pb.Entry{Type: pb.ApplicationEntry, Index: i, Term: 1, Key: i, ClientID: 77, Cmd: []byte{1}})
	}
	w.deliver(ents)
	return "ok"
}

// saveOnDisk is node.doSave for a regular snapshot request.
func (w *world) saveOnDisk() string {
	if w.node == nil || w.dead {
		return "skip"
	}
	ap := w.appliedIndex()
	if ap == 0 || ap <= w.rec || (!w.reg && ap != w.disk.vol) {
		return "skip"
	}
	idx, err := w.node.DoSave(hk8.SSRequest{})
	switch {
	case err != nil:
		return "err"
	case idx == 0:
		return "ood"
	}
	return "ok"
}

// recoverLive is what the apply worker does with the snapshot the step worker
// pushed (node.processSnapshot -> Task{Recover} -> node.recover).
func (w *world) recoverLive(i uint64) string {
	if w.node == nil || w.dead || i == 0 || w.rec != i || w.disk.vol >= i || w.appliedIndex() >= i ||
		snapState(w.mem, w.snap.VerifFilePath(i)) != "full" {
		return "skip"
	}
	t, ok, err := w.node.ProcessSnapshot(w.ldb.ss, 0)
	if err != nil || !ok {
		return "err"
	}
	if _, err := w.node.Recover(t); err != nil {
		return "err"
	}
	return "ok"
}

func (w *world) appliedIndex() uint64 {
	if w.node == nil {
		return 0
	}
	return hk8.ViewOf(w.node.SM()).Index
}
