// C16 harness: snapshot directories are crash-atomic; restart cleans up.
//
// A case is a sequence of snapshot commands of one replica and a crash point:
//
//	<id> cut=K | SAVE i n ; COMMIT i ; RECV i n ; APPLY i ; SHRINK i ; COMPACT i ; RESTART ; CRASH
//
// The commands run on the real snapshotter (snapshotter.go), SSEnv
// (internal/server/snapshotenv.go) and chunk receiver (internal/transport/
// chunk.go) over a recording strict in-memory file system. After K recorded
// operations the power is lost (K=-1: after the last command): unsynced state is
// discarded, then the real processOrphans runs. Observations: the operation
// sequence of every command as path classes (tie D: must equal the model's
// program), the directory after the crash, the operations and the result of
// processOrphans (must equal the model's function). Monitor: the property's
// conclusion on the real directory, and "flag removed only after the record".
package main

import (
	"fmt"
	"os"
	"strconv"
	"strings"

	"github.com/lni/dragonboat/v4/logger"
	"verif/harness/vh"
)

type tcase struct {
	id   string
	cut  int
	disk bool
	kind string
	rid  uint64
	from uint64
	cmds []command
}

func parseCase(line string) tcase {
	hd, body := line, ""
	if i := strings.Index(line, " | "); i >= 0 {
		hd, body = line[:i], line[i+3:]
	} else if strings.HasSuffix(line, " |") {
		hd = line[:len(line)-2]
	}
	f := strings.Fields(hd)
	c := tcase{id: f[0], cut: -1, rid: 1, from: 2}
	for _, kv := range f[1:] {
		if strings.HasPrefix(kv, "cut=") {
			c.cut, _ = strconv.Atoi(kv[4:])
		}
		if kv == "kind=disk" || kv == "kind=reg" {
			c.disk = true
			c.kind = kv[5:]
		}
		if strings.HasPrefix(kv, "rid=") {
			c.rid, _ = strconv.ParseUint(kv[4:], 10, 64)
		}
		if strings.HasPrefix(kv, "from=") {
			c.from, _ = strconv.ParseUint(kv[5:], 10, 64)
		}
	}
	for _, s := range strings.Split(body, " ; ") {
		s = strings.TrimSpace(s)
		if s != "" {
			c.cmds = append(c.cmds, parseCommand(s))
		}
	}
	return c
}

func caseLine(id string, cut int, kind string, cmds []command) string {
	return caseLineIDs(id, cut, kind, 1, 2, cmds)
}

func caseLineIDs(id string, cut int, kind string, rid uint64, from uint64, cmds []command) string {
	var s []string
	for _, c := range cmds {
		s = append(s, c.String())
	}
	k := ""
	if kind != "" {
		k = " kind=" + kind
	}
	if rid != 1 || from != 2 {
		k += fmt.Sprintf(" rid=%d from=%d", rid, from)
	}
	return fmt.Sprintf("%s cut=%d%s | %s", id, cut, k, strings.Join(s, " ; "))
}

func opsString(ops []string) string {
	if len(ops) == 0 {
		return "-"
	}
	return strings.Join(ops, " ; ")
}

// runCase executes one case; returns the observation lines, the number of
// recorded operations, whether the cut fell strictly inside a command, and the
// monitor's messages.
func runCase(c tcase, dist map[string]int) (lines []string, total int, inside bool, viol []string) {
	replicaID, fromID = c.rid, c.from
	if replicaID == 0 {
		replicaID = 1
	}
	if fromID == 0 || fromID == replicaID {
		fromID = replicaID + 1
		if fromID == 0 {
			fromID = 1
		}
	}
	w := newWorldKind(c.cut, c.kind)
	defer w.close()
	w.r.distinct = dist
	for n, cmd := range c.cmds {
		oc := w.do(cmd)
		ops := w.r.take()
		if w.r.frozen {
			oc = "cut"
			inside = len(ops) > 0 || inside
		}
		lines = append(lines, fmt.Sprintf("%s cmd %d %s -> %s : %s", c.id, n, cmd.String(), oc, opsString(ops)))
		if w.r.frozen || (c.cut >= 0 && w.r.count >= c.cut) || w.dead {
			break
		}
	}
	total = w.r.count
	viol = append(viol, w.r.monitor...)
	w.r.monitor = nil
	if c.cut < 0 {
		lines = append(lines, fmt.Sprintf("%s tree %s rec=%d", c.id, treeString(w.observe()), w.rec))
	}
	w.powerLoss()
	if c.disk {
		lines = append(lines, fmt.Sprintf("%s crashed %s rec=%d sm=%d", c.id, treeString(w.observe()), w.rec, w.disk.dur))
	} else {
		lines = append(lines, fmt.Sprintf("%s crashed %s rec=%d", c.id, treeString(w.observe()), w.rec))
	}
	oc := "ok"
	if p := vh.Catch(func() {
		if err := w.snap.VerifProcessOrphans(); err != nil {
			oc = "err"
		}
	}); p != "" {
		oc = "panic"
	}
	lines = append(lines, fmt.Sprintf("%s po -> %s : %s", c.id, oc, opsString(w.r.take())))
	if c.disk && oc == "ok" {
		// the replica starts again: OpenOnDiskStateMachine and the initial node.recover
		shrunkBefore := w.rec != 0 && snapState(w.mem, w.snap.VerifFilePath(w.rec)) == "shrunk"
		durBefore := w.disk.dur
		ro := w.startNode(false)
		lines = append(lines, fmt.Sprintf("%s restart -> %s : %s", c.id, ro, opsString(w.r.take())))
		switch {
		case ro != "ok" && shrunkBefore && durBefore < w.rec && w.ldb.ss.Dummy:
			viol = append(viol, fmt.Sprintf("restart %s: the recorded snapshot %d of the on-disk state machine (OnDiskIndex %d) is ahead of what the state machine has durably (%d)", ro, w.rec, w.ldb.ss.OnDiskIndex, durBefore))
		case ro != "ok" && shrunkBefore && durBefore < w.rec:
			viol = append(viol, fmt.Sprintf("restart %s: recorded snapshot %d is shrunk while the state machine is durable only up to %d", ro, w.rec, durBefore))
		case ro != "ok":
			viol = append(viol, fmt.Sprintf("restart %s after crash and start-up cleanup (recorded snapshot %d, state machine durable up to %d): %s", ro, w.rec, durBefore, w.lastPanic))
		case w.appliedIndex() < w.rec:
			viol = append(viol, fmt.Sprintf("the replica restarted at index %d, older than the recorded snapshot %d", w.appliedIndex(), w.rec))
		case w.reg && w.rec != 0 && w.disk.vol != w.rec:
			viol = append(viol, fmt.Sprintf("the replica restarted from recorded snapshot %d but its state machine holds the image of index %d", w.rec, w.disk.vol))
		}
	}
	t := w.observe()
	verdict := cleanVerdict(t, w.rec)
	if oc != "ok" {
		verdict = "processOrphans failed (" + oc + ") on the directory left by the crash"
	}
	lines = append(lines, fmt.Sprintf("%s final %s rec=%d clean=%v", c.id, treeString(t), w.rec, verdict == ""))
	if verdict != "" {
		viol = append(viol, "after crash and start-up cleanup: "+verdict)
	}
	viol = append(viol, w.r.monitor...)
	return
}

// ---------------------------------------------------------------------------
// generation

func scenarios() [][]command {
	p := func(s string) []command {
		var out []command
		for _, x := range strings.Split(s, ";") {
			out = append(out, parseCommand(strings.TrimSpace(x)))
		}
		return out
	}
	return [][]command{
		p("SAVE 5 2; COMMIT 5"),
		p("RECV 5 3; APPLY 5"),
		p("RECV 5 1; APPLY 5; SHRINK 5"),
		p("SAVE 5 1; COMMIT 5; SAVE 9 2; COMMIT 9; COMPACT 5"),
		p("SAVE 5 1; RECV 5 2; COMMIT 5; APPLY 5"),
		p("RECV 5 2; SAVE 5 1; COMMIT 5; APPLY 5"),
		p("SAVE 5 1; COMMIT 5; RECV 8 4; APPLY 8; SHRINK 8; COMPACT 5"),
		p("SAVE 5 1; COMMIT 5; RECV 8 2; CRASH; SAVE 9 1; COMMIT 9"),
		p("SAVE 3 1; COMMIT 3; RESTART; RECV 7 2; RESTART; SAVE 8 0; COMMIT 8; CRASH; SHRINK 8"),
		p("RECV 4 2; RECV 6 2; APPLY 6; APPLY 4; COMPACT 4"),
		p("SAVE 2 1; SAVE 3 1; COMMIT 3; COMMIT 2; COMPACT 2"),
		p("SAVE 2 1; COMMIT 2; SHRINK 2; SHRINK 2; SAVE 4 1; COMMIT 4; SHRINK 2"),
		// a second finalization of an index that is finalized, recorded and still flagged
		p("RECV 5 2; RECORD 5; RECV 5 1; APPLY 5"),
		p("SAVE 3 1; COMMIT 3; RECV 7 1; RECORD 7; RECVX 7 2 1; APPLY 7; COMPACT 3"),
		p("SAVE 6 1; RECV 6 2; RECORD 6; COMMIT 6; APPLY 6"),
		p("SAVE 4 1; COMMIT 4; EXPORT 4 1; EXPORT 9 2; RECV 9 1; APPLY 9; EXPORT 9 1"),
		p("RECVX 5 2 1; APPLY 5"),
		p("RECVX 5 1 2; APPLY 5; SAVE 7 1; COMMIT 7; COMPACT 5"),
		p("SAVE 6 1; RECVX 6 3 3; COMMIT 6; APPLY 6; CRASH"),
	}
}

func randomSeq(r *vh.Rand, maxLen int) []command {
	var out []command
	next := uint64(1 + r.Intn(3))
	var saved, received, final []uint64
	pick := func(l []uint64) uint64 {
		if len(l) == 0 || r.Chance(1, 8) {
			return uint64(1 + r.Intn(9))
		}
		return l[r.Intn(len(l))]
	}
	n := 2 + r.Intn(maxLen)
	for len(out) < n {
		switch r.Intn(12) {
		case 0, 1, 2:
			i := next
			if r.Chance(1, 6) {
				i = pick(final)
			}
			next += uint64(1 + r.Intn(2))
			out = append(out, command{kind: "SAVE", i: i, n: uint64(r.Intn(3))})
			saved = append(saved, i)
			if r.Chance(2, 3) {
				out = append(out, command{kind: "COMMIT", i: i})
				final = append(final, i)
			}
		case 3:
			i := pick(saved)
			out = append(out, command{kind: "COMMIT", i: i})
			final = append(final, i)
		case 4, 5:
			i := next + uint64(r.Intn(3))
			if r.Chance(1, 4) {
				i = pick(saved)
			}
			if i >= next {
				next = i + 1
			}
			if r.Chance(1, 3) {
				out = append(out, command{kind: "RECVX", i: i, n: uint64(1 + r.Intn(3)), m: uint64(1 + r.Intn(3))})
			} else {
				out = append(out, command{kind: "RECV", i: i, n: uint64(1 + r.Intn(4))})
			}
			received = append(received, i)
			final = append(final, i)
			if r.Chance(1, 4) {
				// the record is durable, the flag file is still there: a retransmission
				// or a local save of the same index finalizes in that window
				out = append(out, command{kind: "RECORD", i: i})
				if r.Bool() {
					out = append(out, command{kind: "RECV", i: i, n: uint64(1 + r.Intn(3))})
				} else {
					out = append(out, command{kind: "SAVE", i: i, n: 1}, command{kind: "COMMIT", i: i})
				}
				out = append(out, command{kind: "APPLY", i: i})
			} else if r.Chance(2, 3) {
				out = append(out, command{kind: "APPLY", i: i})
			}
		case 6:
			out = append(out, command{kind: "APPLY", i: pick(received)})
		case 7:
			out = append(out, command{kind: "SHRINK", i: pick(final)})
		case 8, 9:
			out = append(out, command{kind: "COMPACT", i: pick(final)})
		case 10:
			if r.Bool() {
				out = append(out, command{kind: "EXPORT", i: pick(final), n: uint64(r.Intn(3))})
			} else {
				out = append(out, command{kind: "RESTART"})
			}
		default:
			out = append(out, command{kind: "CRASH"})
			saved, received = nil, nil
		}
	}
	return out
}

func parseSeq(s string) []command {
	var out []command
	for _, x := range strings.Split(s, ";") {
		out = append(out, parseCommand(strings.TrimSpace(x)))
	}
	return out
}

func diskScenarios() [][]command {
	p := func(s string) []command {
		var out []command
		for _, x := range strings.Split(s, ";") {
			out = append(out, parseCommand(strings.TrimSpace(x)))
		}
		return out
	}
	return [][]command{
		p("RECV 5 3; APPLY 5; RECOVER 5"),
		p("RECV 5 1; APPLY 5; RECOVER 5; RECV 8 2; APPLY 8; RECOVER 8; COMPACT 5"),
		p("RECV 5 2; APPLY 5; CRASH; RECV 9 2; APPLY 9; RECOVER 9"),
		p("RECV 5 2; APPLY 5; RECOVER 5; CRASH; RECV 7 1; APPLY 7; RECOVER 7; CRASH"),
		p("RECV 5 2; RECORD 5; RECV 5 2; APPLY 5; RECOVER 5"),
		p("ENTRIES 7; DSAVE"),
		p("ENTRIES 4; DSAVE; ENTRIES 9; DSAVE; CRASH; ENTRIES 12; DSAVE"),
		p("RECVX 5 2 2; APPLY 5; RECOVER 5; ENTRIES 8; DSAVE; CRASH"),
		p("ENTRIES 3; DSAVE; RECV 9 2; APPLY 9; RECOVER 9; ENTRIES 11; DSAVE"),
	}
}

// randomDiskSeq: an on-disk replica that keeps falling behind and installs
// snapshots from the leader, with crashes in between.
func randomDiskSeq(r *vh.Rand, maxLen int) []command {
	var out []command
	next := uint64(1 + r.Intn(3))
	var final []uint64
	n := 3 + r.Intn(maxLen)
	for len(out) < n {
		switch r.Intn(11) {
		case 8, 9, 10:
			next += uint64(1 + r.Intn(3))
			out = append(out, command{kind: "ENTRIES", i: next})
			next++
			if r.Chance(3, 4) {
				out = append(out, command{kind: "DSAVE"})
			}
		case 0, 1, 2, 3:
			i := next
			next += uint64(1 + r.Intn(3))
			if r.Chance(1, 3) {
				out = append(out, command{kind: "RECVX", i: i, n: uint64(1 + r.Intn(3)), m: uint64(1 + r.Intn(2))})
			} else {
				out = append(out, command{kind: "RECV", i: i, n: uint64(1 + r.Intn(3))})
			}
			final = append(final, i)
			if r.Chance(5, 6) {
				out = append(out, command{kind: "APPLY", i: i})
				if r.Chance(5, 6) {
					out = append(out, command{kind: "RECOVER", i: i})
				}
			}
		case 4:
			if len(final) > 0 {
				out = append(out, command{kind: "RECOVER", i: final[len(final)-1]})
			}
		case 5:
			if len(final) > 1 {
				out = append(out, command{kind: "COMPACT", i: final[r.Intn(len(final)-1)]})
			}
		default:
			out = append(out, command{kind: "CRASH"})
		}
	}
	return out
}

func gen(a vh.Args) {
	r := vh.NewRand(a.Seed)
	nseq, ndisk := 60, 22
	if a.Tier == "thorough" {
		nseq, ndisk = 500, 150
	}
	if a.N > 0 {
		nseq, ndisk = a.N, (a.N+3)/4
	}
	w := vh.Create(a.Cases)
	defer w.Close()
	seqs := scenarios()
	for len(seqs) < nseq {
		seqs = append(seqs, randomSeq(r, 7))
	}
	emit := func(prefix string, k int, kind string, cmds []command) {
		_, total, _, _ := runCase(tcase{id: "probe", cut: -1, disk: kind != "", kind: kind, cmds: cmds}, nil)
		w.Printf("%s\n", caseLine(fmt.Sprintf("%s%dfull", prefix, k), -1, kind, cmds))
		for cut := 0; cut <= total; cut++ {
			w.Printf("%s\n", caseLine(fmt.Sprintf("%s%dk%d", prefix, k, cut), cut, kind, cmds))
		}
	}
	for k, cmds := range seqs {
		emit("s", k, "", cmds)
	}
	// replica / sender ids and snapshot indices at the boundaries of uint64 and of the
	// decimal / hexadecimal name formats
	ids := []uint64{9999999999999999, 10000000000000000, 1 << 63, 1<<64 - 1, 1<<64 - 2, 99999999999999999}
	bseqs := [][]command{
		parseSeq("SAVE 5 1; RECV 5 2; COMMIT 5; APPLY 5"),
		parseSeq("SAVE 18446744073709551615 1; COMMIT 18446744073709551615"),
		parseSeq("RECVX 9999999999999999 2 1; APPLY 9999999999999999; SAVE 10000000000000000 0; COMMIT 10000000000000000; COMPACT 9999999999999999"),
		parseSeq("RECV 9223372036854775808 1; SAVE 9223372036854775807 1; COMMIT 9223372036854775807; APPLY 9223372036854775808; SHRINK 9223372036854775808"),
	}
	for k, cmds := range bseqs {
		rid, from := ids[(2*k)%len(ids)], ids[(2*k+1)%len(ids)]
		if k%2 == 1 {
			rid, from = from, 3
		}
		replicaID, fromID = rid, from
		_, total, _, _ := runCase(tcase{id: "probe", cut: -1, rid: rid, from: from, cmds: cmds}, nil)
		w.Printf("%s\n", caseLineIDs(fmt.Sprintf("b%dfull", k), -1, "", rid, from, cmds))
		for cut := 0; cut <= total; cut++ {
			w.Printf("%s\n", caseLineIDs(fmt.Sprintf("b%dk%d", k, cut), cut, "", rid, from, cmds))
		}
	}
	dcmds := parseSeq("RECV 9 2; APPLY 9; RECOVER 9; ENTRIES 12; DSAVE; CRASH")
	{
		rid, from := uint64(1<<64-1), uint64(10000000000000000)
		_, total, _, _ := runCase(tcase{id: "probe", cut: -1, disk: true, kind: "disk", rid: rid, from: from, cmds: dcmds}, nil)
		w.Printf("%s\n", caseLineIDs("bdfull", -1, "disk", rid, from, dcmds))
		for cut := 0; cut <= total; cut++ {
			w.Printf("%s\n", caseLineIDs(fmt.Sprintf("bdk%d", cut), cut, "disk", rid, from, dcmds))
		}
	}
	// the call site of the start-up cleanup: a real NodeHost
	w.Printf("e2e0 cut=-1 | E2E-STARTUP\n")
	dseqs := diskScenarios()
	for len(dseqs) < ndisk {
		dseqs = append(dseqs, randomDiskSeq(r, 6))
	}
	for k, cmds := range dseqs {
		emit("d", k, "disk", cmds)
	}
	// a replica with a regular state machine: really restarted after every crash
	rseqs := [][]command{
		parseSeq("ENTRIES 5; DSAVE; ENTRIES 9; DSAVE"),
		parseSeq("RECV 5 2; APPLY 5; RECOVER 5; ENTRIES 8; DSAVE; CRASH; ENTRIES 12; DSAVE"),
		parseSeq("RECVX 6 2 1; RECORD 6; RECV 6 1; APPLY 6; RECOVER 6; COMPACT 6"),
		parseSeq("ENTRIES 4; DSAVE; RECV 9 3; APPLY 9; RECOVER 9; CRASH; RECV 11 1; APPLY 11"),
	}
	nreg := 14
	if a.Tier == "thorough" {
		nreg = 100
	}
	for len(rseqs) < nreg {
		rseqs = append(rseqs, randomDiskSeq(r, 6))
	}
	for k, cmds := range rseqs {
		emit("r", k, "reg", cmds)
	}
}

func run(a vh.Args) {
	st := vh.NewStats("a case is counted non-trivial when its crash point falls strictly inside a command (between two file-system operations of a save / commit / receive / shrink / compact / cleanup sequence) and the real processOrphans then ran on the directory the crash left")
	out := vh.Create(a.Out + "/impl.obs")
	defer out.Close()
	for _, line := range vh.ReadLines(a.Cases) {
		if strings.HasSuffix(line, "| E2E-STARTUP") {
			id := strings.Fields(line)[0]
			l, viol := runStartupE2E(id)
			out.Printf("%s\n", l)
			st.Case("e2e-startup", true, line)
			for _, v := range viol {
				st.Violation(id, v)
			}
			continue
		}
		c := parseCase(line)
		lines, _, inside, viol := runCase(c, st.Distribution)
		for _, l := range lines {
			out.Printf("%s\n", l)
		}
		key := line[strings.Index(line, " ")+1:]
		st.Case(key, inside, line)
		for _, v := range viol {
			st.Violation(c.id, v)
		}
	}
	st.Write(a.Out)
}

// quietLogger drops the library's log lines (the expected panics of Compact /
// checkPartialSnapshotApplyOnDiskSM would otherwise bury a real error of the
// harness on stderr); Panicf still panics, with the message.
type quietLogger struct{}

func (quietLogger) SetLevel(logger.LogLevel)         {}
func (quietLogger) Debugf(string, ...interface{})   {}
func (quietLogger) Infof(string, ...interface{})    {}
func (quietLogger) Warningf(string, ...interface{}) {}
func (quietLogger) Errorf(string, ...interface{})   {}
func (quietLogger) Panicf(format string, args ...interface{}) {
	panic(fmt.Sprintf(format, args...))
}

func main() {
	logger.SetLoggerFactory(func(string) logger.ILogger { return quietLogger{} })
	a := vh.ParseArgs()
	switch a.Mode {
	case "gen":
		gen(a)
	case "run":
		run(a)
	default:
		fmt.Fprintln(os.Stderr, "unknown mode", a.Mode)
		os.Exit(2)
	}
}
