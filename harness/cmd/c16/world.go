// C16 harness: the real snapshotter / SSEnv / chunk receiver of /repo over a
// recording strict in-memory file system, with a crash after any operation.
package main

import (
	"encoding/binary"
	"fmt"
	"io"
	"os"
	"path"
	"regexp"
	"sort"
	"strconv"
	"strings"

	dragonboat "github.com/lni/dragonboat/v4"
	"github.com/lni/dragonboat/v4/raftio"
	pb "github.com/lni/dragonboat/v4/raftpb"
	hk8 "github.com/lni/dragonboat/v4/verifhooks/c08"
	hk "github.com/lni/dragonboat/v4/verifhooks/c16"
	"verif/harness/vh"
)

const (
	rootDir = "/nh/snapshot-part-1/snapshot-1-1"
	shardID = 1
	did     = 7
)

// the replica id of the replica under test and the id of the sender of received
// snapshots: any uint64; set per case (header rid= / from=)
var (
	replicaID uint64 = 1
	fromID    uint64 = 2
)

// ---------------------------------------------------------------------------
// path classes

var (
	reShrunk = regexp.MustCompile(`^snapshot-([0-9A-F]+)\.shrunk$`)
	reSnap   = regexp.MustCompile(`^snapshot-([0-9A-F]+)\.gbsnap$`)
	// what the code writes (getDirName "snapshot-%016X", getTempDirName "<dir>-%d.<suffix>"):
	// the harness classifies with its own expressions, not with the repository's
	reFinal = regexp.MustCompile(`^snapshot-([0-9A-F]{16})$`)
	reGen   = regexp.MustCompile(`^snapshot-([0-9A-F]{16})-[0-9]{1,20}\.generating$`)
	reRecv  = regexp.MustCompile(`^snapshot-([0-9A-F]{16})-[0-9]{1,20}\.receiving$`)
	reExt    = regexp.MustCompile(`^external-file-([0-9]+)$`)
)

func hexIdx(s string) string {
	v, err := strconv.ParseUint(s, 16, 64)
	if err != nil {
		return "?" + s
	}
	return strconv.FormatUint(v, 10)
}

// dirClass classifies a directory name by the format the code writes names in.
func dirClass(name string) string {
	if m := reFinal.FindStringSubmatch(name); len(m) == 2 {
		return "final:" + hexIdx(m[1])
	}
	if m := reGen.FindStringSubmatch(name); len(m) == 2 {
		return "gen:" + hexIdx(m[1])
	}
	if m := reRecv.FindStringSubmatch(name); len(m) == 2 {
		return "recv:" + hexIdx(m[1])
	}
	if m := reExt.FindStringSubmatch(name); len(m) == 2 {
		return "other:" + m[1]
	}
	return "other:" + name
}

func fileClass(name string) string {
	switch {
	case name == hk.SnapshotFlagFilename:
		return "flag"
	case name == hk.MetadataFilename:
		return "meta"
	}
	if m := reSnap.FindStringSubmatch(name); len(m) == 2 {
		return "snap:" + hexIdx(m[1])
	}
	if m := reShrunk.FindStringSubmatch(name); len(m) == 2 {
		return "shrunk:" + hexIdx(m[1])
	}
	if m := reExt.FindStringSubmatch(name); len(m) == 2 {
		return "other:" + m[1]
	}
	return "other:" + name
}

// classKey orders classes the way the model driver does: by index, then
// final < gen < recv, everything else last.
func classKey(c string) string {
	p := strings.SplitN(c, ":", 2)
	rank := map[string]int{"final": 0, "gen": 1, "recv": 2, "snap": 0, "shrunk": 1, "flag": 2, "meta": 3, "other": 9}[p[0]]
	idx := uint64(0)
	if len(p) == 2 {
		idx, _ = strconv.ParseUint(p[1], 10, 64)
	}
	if p[0] == "other" {
		return fmt.Sprintf("9 %020d %s", idx, c)
	}
	if p[0] == "flag" || p[0] == "meta" {
		return fmt.Sprintf("8 %d", rank)
	}
	return fmt.Sprintf("0 %020d %d", idx, rank)
}

// classify splits a path under the snapshot root into (dir class, file class).
func classify(p string) (string, string, bool) {
	p = path.Clean(p)
	if p == rootDir {
		return "root", "", true
	}
	if !strings.HasPrefix(p, rootDir+"/") {
		return "", "", false
	}
	rel := strings.Split(p[len(rootDir)+1:], "/")
	if len(rel) == 1 {
		return dirClass(rel[0]), "", true
	}
	if len(rel) == 2 {
		return dirClass(rel[0]), fileClass(rel[1]), true
	}
	return "", "", false
}

// ---------------------------------------------------------------------------
// the recorder: operation log, crash point, monitor hooks

type recorder struct {
	mem      *hk.MemFS
	ops      []string // canonical operations of the current segment
	count    int      // canonical operations executed since the start of the case
	cut      int      // freeze after this many (-1: never)
	frozen   bool
	extra    int // operations attempted after the freeze
	enabled  bool
	lastW    string // file of the current write run
	rec      *uint64
	monitor  []string
	distinct map[string]int
}

// note registers one canonical operation; false = the power is already off.
func (r *recorder) note(op string, isWrite bool) bool {
	if !r.enabled {
		return true
	}
	if r.frozen {
		r.extra++
		return false
	}
	if isWrite && r.lastW == op {
		return true // same write run
	}
	if r.cut >= 0 && r.count >= r.cut {
		r.frozen = true
		r.extra++
		r.mem.SetIgnoreSyncs(true)
		return false
	}
	r.count++
	r.ops = append(r.ops, op)
	if r.distinct != nil {
		r.distinct[strings.Fields(op)[0]]++
	}
	if isWrite {
		r.lastW = op
	} else {
		r.lastW = ""
	}
	return true
}

func (r *recorder) take() []string {
	o := r.ops
	r.ops = nil
	r.lastW = ""
	return o
}

// ---------------------------------------------------------------------------
// recording file system (hk.IFS over the strict MemFS)

type recFS struct {
	*hk.MemFS
	r *recorder
}

type recFile struct {
	hk.File
	r     *recorder
	dc    string
	fc    string
	isDir bool
	ok    bool
}

func (f *recFile) Write(p []byte) (int, error) {
	if f.ok && !f.isDir {
		f.r.note("write "+f.dc+" "+f.fc, true)
	}
	return f.File.Write(p)
}

func (f *recFile) WriteAt(p []byte, off int64) (int, error) {
	if f.ok && !f.isDir {
		f.r.note("write "+f.dc+" "+f.fc, true)
	}
	return f.File.WriteAt(p, off)
}

func (f *recFile) Sync() error {
	if f.ok {
		switch {
		case f.isDir && f.dc == "root":
			f.r.note("syncroot", false)
		case f.isDir:
			f.r.note("syncdir "+f.dc, false)
		default:
			f.r.note("syncfile "+f.dc+" "+f.fc, false)
		}
	}
	return f.File.Sync()
}

func (s *recFS) wrap(f hk.File, name string, err error) (hk.File, error) {
	if err != nil {
		return f, err
	}
	dc, fc, ok := classify(name)
	isDir := false
	if st, e := f.Stat(); e == nil && st.IsDir() {
		isDir = true
	}
	return &recFile{File: f, r: s.r, dc: dc, fc: fc, isDir: isDir, ok: ok}, nil
}

func (s *recFS) Create(name string) (hk.File, error) {
	if dc, fc, ok := classify(name); ok {
		// the call fails (and changes nothing) when the directory is missing
		if _, err := s.MemFS.Stat(path.Dir(path.Clean(name))); err == nil {
			s.r.note("create "+dc+" "+fc, false)
		}
	}
	f, err := s.MemFS.Create(name)
	return s.wrap(f, name, err)
}

func (s *recFS) Open(name string, opts ...hk.OpenOption) (hk.File, error) {
	f, err := s.MemFS.Open(name, opts...)
	return s.wrap(f, name, err)
}

func (s *recFS) OpenDir(name string) (hk.File, error) {
	f, err := s.MemFS.OpenDir(name)
	return s.wrap(f, name, err)
}

func (s *recFS) OpenForAppend(name string) (hk.File, error) {
	f, err := s.MemFS.OpenForAppend(name)
	return s.wrap(f, name, err)
}

func (s *recFS) exists(name string) bool {
	_, err := s.MemFS.Stat(name)
	return err == nil
}

func (s *recFS) Remove(name string) error {
	if dc, fc, ok := classify(name); ok && s.exists(name) {
		if fc == "flag" && strings.HasPrefix(dc, "final:") && s.r.enabled && !s.r.frozen {
			idx, _ := strconv.ParseUint(dc[6:], 10, 64)
			if *s.r.rec < idx {
				s.r.monitor = append(s.r.monitor, fmt.Sprintf("flag file of snapshot %d removed while the log store records %d", idx, *s.r.rec))
			}
		}
		s.r.note("remove "+dc+" "+fc, false)
	}
	return s.MemFS.Remove(name)
}

func (s *recFS) RemoveAll(name string) error {
	if dc, fc, ok := classify(name); ok {
		if fc == "" {
			s.r.note("removeall "+dc, false)
		} else {
			s.r.note("removeall "+dc+" "+fc, false)
		}
	}
	return s.MemFS.RemoveAll(name)
}

func (s *recFS) Rename(oldname, newname string) error {
	dc, fc, ok := classify(oldname)
	dc2, fc2, ok2 := classify(newname)
	if ok && ok2 && s.exists(oldname) {
		if fc == "" {
			s.r.note("renamedir "+dc+" "+dc2, false)
		} else {
			s.r.note("renamefile "+dc+" "+fc+" "+fc2, false)
			if dc != dc2 {
				s.r.note("renamefile-across "+dc2, false)
			}
		}
	}
	return s.MemFS.Rename(oldname, newname)
}

func (s *recFS) Link(oldname, newname string) error {
	if dc, fc, ok := classify(newname); ok {
		s.r.note("link "+dc+" "+fc, false)
	}
	return s.MemFS.Link(oldname, newname)
}

func (s *recFS) ReuseForWrite(oldname, newname string) (hk.File, error) {
	s.r.note("reuseforwrite", false)
	return s.MemFS.ReuseForWrite(oldname, newname)
}

func (s *recFS) MkdirAll(dir string, perm os.FileMode) error {
	if dc, _, ok := classify(dir); ok && dc != "root" {
		s.r.note("mkdir "+dc, false)
	}
	return s.MemFS.MkdirAll(dir, perm)
}

// List returns the names in the order of their classes: a directory listing
// has no specified order, the model is given the same one.
func (s *recFS) List(dir string) ([]string, error) {
	l, err := s.MemFS.List(dir)
	if err != nil {
		return l, err
	}
	if path.Clean(dir) == rootDir {
		sort.Slice(l, func(i, j int) bool { return classKey(dirClass(l[i])) < classKey(dirClass(l[j])) })
	} else {
		sort.Strings(l)
	}
	return l, nil
}

// Stat reports the base name of the path that was asked for, as an operating
// system does (a MemFS node keeps the name of its latest binding, even one that
// a crash has undone).
func (s *recFS) Stat(name string) (os.FileInfo, error) {
	fi, err := s.MemFS.Stat(name)
	if err != nil {
		return fi, err
	}
	return namedInfo{FileInfo: fi, name: path.Base(path.Clean(name))}, nil
}

type namedInfo struct {
	os.FileInfo
	name string
}

func (n namedInfo) Name() string { return n.name }

func (s *recFS) Lock(name string) (io.Closer, error) { return s.MemFS.Lock(name) }

// ---------------------------------------------------------------------------
// the log store: an atomic durable cell holding the newest snapshot record
// (internal/logdb keeps the record with the largest index; C09/C10)

type cellLogDB struct {
	r    *recorder
	kv   *memKV        // what survives a crash
	real raftio.ILogDB // internal/logdb over kv
	ss   pb.Snapshot   // what the real GetSnapshot returns
}

func newCellLogDB(r *recorder) *cellLogDB {
	l := &cellLogDB{r: r, kv: newMemKV()}
	l.reopen()
	return l
}

// reopen is a process restart: a new LogDB (new caches) over the durable KV.
func (l *cellLogDB) reopen() {
	if l.real != nil {
		_ = l.real.Close()
	}
	l.real = openRealLogDB(l.kv)
	l.refresh()
}

func (l *cellLogDB) refresh() {
	ss, err := l.real.GetSnapshot(shardID, replicaID)
	if err != nil {
		panic(err)
	}
	l.ss = ss
	*l.r.rec = ss.Index
}

// save records the operation and, unless the power is already off, hands the
// update to the real LogDB.
func (l *cellLogDB) save(updates []pb.Update, raftState bool) error {
	var live []pb.Update
	for _, ud := range updates {
		if pb.IsEmptySnapshot(ud.Snapshot) {
			continue
		}
		if !l.r.note(fmt.Sprintf("record %d", ud.Snapshot.Index), false) {
			continue
		}
		live = append(live, ud)
	}
	if len(live) == 0 {
		return nil
	}
	var err error
	if raftState {
		err = l.real.SaveRaftState(live, 1)
	} else {
		err = l.real.SaveSnapshots(live)
	}
	l.refresh()
	return err
}

func (l *cellLogDB) Name() string                                { return "c16-real-logdb" }
func (l *cellLogDB) Close() error                                { return nil }
func (l *cellLogDB) BinaryFormat() uint32                        { return l.real.BinaryFormat() }
func (l *cellLogDB) ListNodeInfo() ([]raftio.NodeInfo, error)    { return l.real.ListNodeInfo() }
func (l *cellLogDB) SaveRaftState(u []pb.Update, _ uint64) error { return l.save(u, true) }
func (l *cellLogDB) SaveSnapshots(u []pb.Update) error           { return l.save(u, false) }
func (l *cellLogDB) GetSnapshot(s uint64, r uint64) (pb.Snapshot, error) {
	return l.real.GetSnapshot(s, r)
}
func (l *cellLogDB) SaveBootstrapInfo(s uint64, r uint64, b pb.Bootstrap) error {
	return l.real.SaveBootstrapInfo(s, r, b)
}
func (l *cellLogDB) GetBootstrapInfo(s uint64, r uint64) (pb.Bootstrap, error) {
	return l.real.GetBootstrapInfo(s, r)
}
func (l *cellLogDB) IterateEntries(e []pb.Entry, sz uint64, s uint64, r uint64, lo uint64, hi uint64, max uint64) ([]pb.Entry, uint64, error) {
	return l.real.IterateEntries(e, sz, s, r, lo, hi, max)
}
func (l *cellLogDB) ReadRaftState(s uint64, r uint64, last uint64) (raftio.RaftState, error) {
	return l.real.ReadRaftState(s, r, last)
}
func (l *cellLogDB) RemoveEntriesTo(s uint64, r uint64, i uint64) error {
	return l.real.RemoveEntriesTo(s, r, i)
}
func (l *cellLogDB) CompactEntriesTo(s uint64, r uint64, i uint64) (<-chan struct{}, error) {
	return l.real.CompactEntriesTo(s, r, i)
}
func (l *cellLogDB) RemoveNodeData(s uint64, r uint64) error { return l.real.RemoveNodeData(s, r) }
func (l *cellLogDB) ImportSnapshot(ss pb.Snapshot, r uint64) error {
	return l.real.ImportSnapshot(ss, r)
}

// ---------------------------------------------------------------------------
// one replica's world

type world struct {
	mem       *hk.MemFS
	fs        *recFS
	r         *recorder
	ldb       *cellLogDB
	snap      *dragonboat.VerifC16
	chunks    *hk.Chunk
	delivered map[uint64]bool
	recvSS    map[uint64]pb.Snapshot
	saved     map[uint64]pb.Snapshot
	rec       uint64
	disk      *diskState
	reg       bool
	node      *hk8.Node
	proxy     *nodeProxy
	dead      bool
	lastPanic string
}

func rootFunc(uint64, uint64) string { return rootDir }

func newWorld(cut int) *world { return newWorldKind(cut, "") }

// kind: "" (snapshotter only), "disk" (a real *node over an on-disk state machine),
// "reg" (a real *node over a regular state machine)
func newWorldKind(cut int, kind string) *world {
	disk := kind != ""
	w := &world{mem: hk.NewStrictMem(), delivered: map[uint64]bool{}, saved: map[uint64]pb.Snapshot{}, recvSS: map[uint64]pb.Snapshot{}}
	w.r = &recorder{mem: w.mem, cut: cut, rec: &w.rec}
	w.fs = &recFS{MemFS: w.mem, r: w.r}
	if err := hk.MkdirAll(rootDir, w.fs); err != nil {
		panic(err)
	}
	w.ldb = newCellLogDB(w.r)
	w.snap = dragonboat.NewVerifC16(shardID, replicaID, rootFunc, w.ldb, w.fs)
	w.newChunks()
	if disk {
		w.disk = &diskState{}
		w.reg = kind == "reg"
		if oc := w.startNode(true); oc != "ok" {
			panic("cannot start the on-disk replica: " + oc + " " + w.lastPanic)
		}
	}
	w.r.enabled = true
	return w
}

// close releases what a case holds: the LogDB (its buffers and worker goroutines).
func (w *world) close() {
	if w.ldb != nil && w.ldb.real != nil {
		_ = w.ldb.real.Close()
		w.ldb.real = nil
	}
	if w.proxy != nil {
		close(w.proxy.stop)
		w.proxy = nil
	}
}

func (w *world) newChunks() {
	w.delivered = map[uint64]bool{}
	w.chunks = hk.NewChunk(func(mb pb.MessageBatch) {
		for _, m := range mb.Requests {
			if m.Type == pb.InstallSnapshot {
				w.delivered[m.Snapshot.Index] = true
				w.recvSS[m.Snapshot.Index] = m.Snapshot
			}
		}
	}, func(uint64, uint64, uint64) {}, rootFunc, did, w.fs)
}

// payloadOf is the state machine image of index: the index, then filler.
func payloadOf(index uint64, n uint64) []byte {
	b := make([]byte, 64*(n+1))
	for i := range b {
		b[i] = byte(i*7 + int(n))
	}
	binary.LittleEndian.PutUint64(b, index)
	return b
}

// snapshotBytes builds, with the real writer on a scratch file system, the
// snapshot file a sender would stream for index.
var bytesCache = map[string][]byte{}

func snapshotBytes(index uint64, n uint64) []byte {
	k := fmt.Sprintf("%d/%d", index, n)
	if b, ok := bytesCache[k]; ok {
		return b
	}
	sw := newWorld(-1)
	defer sw.close()
	sw.r.enabled = false
	ss, err := sw.snap.VerifSave(index, 1, payloadOf(index, n))
	if err != nil {
		panic(err)
	}
	_ = ss
	tmp := ""
	l, _ := sw.mem.List(rootDir)
	for _, d := range l {
		tmp = path.Join(rootDir, d)
	}
	fl, _ := sw.mem.List(tmp)
	for _, f := range fl {
		if strings.HasSuffix(f, ".gbsnap") {
			fh, err := sw.mem.Open(path.Join(tmp, f))
			if err != nil {
				panic(err)
			}
			b, err := io.ReadAll(fh)
			fh.Close()
			if err != nil {
				panic(err)
			}
			bytesCache[k] = b
			return b
		}
	}
	panic("no snapshot file produced")
}

func chunksOf(index uint64, n uint64) []pb.Chunk {
	data := snapshotBytes(index, n)
	if n < 1 {
		n = 1
	}
	hs := int(hk.HeaderSize)
	var parts [][]byte
	if n == 1 {
		parts = [][]byte{data}
	} else {
		first := hs + 8
		rest := data[first:]
		parts = append(parts, data[:first])
		per := len(rest) / int(n-1)
		if per == 0 {
			per = 1
		}
		for i := uint64(0); i < n-1; i++ {
			if i == n-2 {
				parts = append(parts, rest)
			} else {
				parts = append(parts, rest[:per])
				rest = rest[per:]
			}
		}
	}
	var out []pb.Chunk
	for i, p := range parts {
		out = append(out, pb.Chunk{
			BinVer: raftio.TransportBinVersion, DeploymentId: did,
			ShardID: shardID, ReplicaID: replicaID, From: fromID,
			ChunkId: uint64(i), ChunkCount: uint64(len(parts)),
			FileChunkId: uint64(i), FileChunkCount: uint64(len(parts)),
			ChunkSize: uint64(len(p)), Index: index, Term: 1, OnDiskIndex: index,
			Filepath: fmt.Sprintf("snapshot-%016X.gbsnap", index), FileSize: uint64(len(data)),
			Membership: pb.Membership{Addresses: map[uint64]string{replicaID: "a1", fromID: "a2"}},
			Data:       append([]byte(nil), p...),
		})
	}
	return out
}

// extBytes is the content of the external file: its own length, then filler.
func extBytes(m uint64) []byte {
	if m < 1 {
		m = 1
	}
	b := make([]byte, 48*m+16)
	for i := range b {
		b[i] = byte(i * 3)
	}
	binary.LittleEndian.PutUint64(b, uint64(len(b)))
	return b
}

// withExternalFile appends the chunks of external-file-1 (m chunks) the way
// transport.getChunks does: after the snapshot file, chunk ids continuing.
func withExternalFile(cs []pb.Chunk, index uint64, m uint64) []pb.Chunk {
	if m < 1 {
		m = 1
	}
	data := extBytes(m)
	per := len(data) / int(m)
	sf := pb.SnapshotFile{FileId: 1, Filepath: "/leader/external-file-1", FileSize: uint64(len(data)), Metadata: []byte{9}}
	base := cs[0]
	start := uint64(len(cs))
	for i := uint64(0); i < m; i++ {
		part := data[int(i)*per:]
		if i != m-1 {
			part = data[int(i)*per : int(i+1)*per]
		}
		c := base
		c.ChunkId = start + i
		c.FileChunkId = i
		c.FileChunkCount = m
		c.ChunkSize = uint64(len(part))
		c.Filepath = sf.Filepath
		c.FileSize = sf.FileSize
		c.HasFileInfo = true
		c.FileInfo = sf
		c.Data = append([]byte(nil), part...)
		cs = append(cs, c)
	}
	for i := range cs {
		cs[i].ChunkCount = uint64(len(cs))
	}
	return cs
}

type command struct {
	kind    string
	i, n, m uint64
}

func (c command) String() string {
	switch c.kind {
	case "SAVE", "RECV", "EXPORT":
		return fmt.Sprintf("%s %d %d", c.kind, c.i, c.n)
	case "RECVX":
		return fmt.Sprintf("%s %d %d %d", c.kind, c.i, c.n, c.m)
	case "RESTART", "CRASH", "DSAVE":
		return c.kind
	}
	return fmt.Sprintf("%s %d", c.kind, c.i)
}

func parseCommand(s string) command {
	f := strings.Fields(s)
	c := command{kind: f[0]}
	if len(f) > 1 {
		c.i, _ = strconv.ParseUint(f[1], 10, 64)
	}
	if len(f) > 2 {
		c.n, _ = strconv.ParseUint(f[2], 10, 64)
	}
	if len(f) > 3 {
		c.m, _ = strconv.ParseUint(f[3], 10, 64)
	}
	return c
}

// do runs one command on the real code; the outcome uses the model's names.
func (w *world) do(c command) (outcome string) {
	p := vh.Catch(func() {
		switch c.kind {
		case "SAVE":
			if c.i == 0 {
				outcome = "skip"
				return
			}
			ss, err := w.snap.VerifSave(c.i, 1, payloadOf(c.i, c.n))
			if err != nil {
				outcome = "err"
				return
			}
			w.saved[c.i] = ss
			outcome = "ok"
		case "COMMIT":
			if c.i == 0 {
				outcome = "skip"
				return
			}
			ss, ok := w.saved[c.i]
			if !ok {
				ss = pb.Snapshot{ShardID: shardID, Index: c.i, Term: 1, Type: pb.RegularStateMachine,
					Membership: pb.Membership{Addresses: map[uint64]string{replicaID: "a1"}}}
			}
			ood, err := w.snap.VerifCommit(ss)
			switch {
			case err != nil:
				outcome = "err"
			case ood:
				outcome = "ood"
			default:
				outcome = "ok"
			}
		case "RECV", "RECVX":
			if c.i == 0 {
				outcome = "skip"
				return
			}
			delete(w.delivered, c.i)
			cs := chunksOf(c.i, c.n)
			if c.kind == "RECVX" {
				cs = withExternalFile(cs, c.i, c.m)
			}
			last := false
			for _, ch := range cs {
				last = w.chunks.Add(ch)
			}
			switch {
			case w.delivered[c.i]:
				outcome = "ok"
			case !last:
				outcome = "ood"
			default:
				outcome = "err"
			}
		case "APPLY":
			if !w.snap.VerifHasFlagFile(c.i) {
				outcome = "skip"
				return
			}
			ss, ok := w.recvSS[c.i]
			if !ok {
				ss = pb.Snapshot{ShardID: shardID, Index: c.i, Term: 1}
			}
			ud := pb.Update{ShardID: shardID, ReplicaID: replicaID, Snapshot: ss}
			// engine.processSteps: SaveRaftState, then onSnapshotSaved
			if err := w.ldb.SaveRaftState([]pb.Update{ud}, 0); err != nil {
				outcome = "err"
				return
			}
			// engine.onSnapshotSaved -> node.removeSnapshotFlagFile (the real functions)
			if err := w.snap.VerifEngineOnSnapshotSaved([]pb.Update{ud}); err != nil {
				outcome = "err"
				return
			}
			outcome = "ok"
		case "EXPORT":
			// an exported snapshot (SSRequest{Type: Exported}): written next to the
			// replica's data, never recorded, nothing touched in the snapshot directory
			if c.i == 0 {
				outcome = "skip"
				return
			}
			dir := fmt.Sprintf("/export/x%d", c.i)
			if err := hk.MkdirAll(dir, w.fs); err != nil {
				panic(err)
			}
			if err := w.snap.VerifSaveExported(c.i, 1, payloadOf(c.i, c.n), dir); err != nil {
				outcome = "err"
				return
			}
			outcome = "ok"
			if !w.r.frozen {
				fp := path.Join(dir, fmt.Sprintf("snapshot-%016X", c.i), fmt.Sprintf("snapshot-%016X.gbsnap", c.i))
				if st := snapState(w.mem, fp); st != "full" {
					w.r.monitor = append(w.r.monitor, fmt.Sprintf("exported snapshot %d is not a complete file at %s (%s)", c.i, fp, st))
				}
				if _, err := w.mem.Stat(path.Join(dir, fmt.Sprintf("snapshot-%016X", c.i), hk.SnapshotFlagFilename)); err == nil {
					w.r.monitor = append(w.r.monitor, fmt.Sprintf("exported snapshot %d still has its flag file", c.i))
				}
			}
		case "RECORD":
			// engine.processSteps up to and including SaveRaftState; onSnapshotSaved
			// (the flag removal) has not run yet
			if !w.snap.VerifHasFlagFile(c.i) {
				outcome = "skip"
				return
			}
			ss, ok := w.recvSS[c.i]
			if !ok {
				ss = pb.Snapshot{ShardID: shardID, Index: c.i, Term: 1}
			}
			if err := w.ldb.SaveRaftState([]pb.Update{{ShardID: shardID, ReplicaID: replicaID, Snapshot: ss}}, 0); err != nil {
				outcome = "err"
				return
			}
			outcome = "ok"
		case "SHRINK":
			if err := w.snap.VerifShrink(c.i); err != nil {
				outcome = "err"
				return
			}
			outcome = "ok"
		case "COMPACT":
			if err := w.snap.VerifCompact(c.i); err != nil {
				outcome = "err"
				return
			}
			outcome = "ok"
		case "RECOVER":
			outcome = w.recoverLive(c.i)
		case "ENTRIES":
			outcome = w.applyEntries(c.i)
		case "DSAVE":
			outcome = w.saveOnDisk()
		case "RESTART":
			w.newChunks()
			if err := w.snap.VerifProcessOrphans(); err != nil {
				outcome = "err"
				return
			}
			outcome = "ok"
		case "CRASH":
			if !w.r.note("crash", false) {
				outcome = "ok"
				return
			}
			w.mem.ResetToSyncedState()
			w.ldb.reopen()
			w.newChunks()
			w.saved = map[uint64]pb.Snapshot{}
			w.recvSS = map[uint64]pb.Snapshot{}
			if w.disk != nil {
				w.disk.vol = w.disk.dur
			}
			if err := w.snap.VerifProcessOrphans(); err != nil {
				outcome = "err"
				return
			}
			outcome = "ok"
			if w.disk != nil {
				outcome = w.startNode(false)
			}
		default:
			panic("unknown command " + c.kind)
		}
	})
	if p != "" {
		return "panic"
	}
	return outcome
}

// powerLoss discards everything that was not synced and restarts the recorder.
func (w *world) powerLoss() {
	w.mem.SetIgnoreSyncs(true)
	w.mem.ResetToSyncedState()
	w.mem.SetIgnoreSyncs(false)
	w.r.frozen = false
	w.r.cut = -1
	w.r.extra = 0
	w.r.take()
	w.ldb.reopen()
	w.newChunks()
	w.saved = map[uint64]pb.Snapshot{}
	w.recvSS = map[uint64]pb.Snapshot{}
	if w.disk != nil {
		w.disk.vol = w.disk.dur
	}
}

// ---------------------------------------------------------------------------
// observation of the directory

func readAll(fs *hk.MemFS, p string) []byte {
	f, err := fs.Open(p)
	if err != nil {
		return nil
	}
	defer f.Close()
	b, _ := io.ReadAll(f)
	return b
}

// snapState classifies a snapshot file with the repository's own validator.
func snapState(fs *hk.MemFS, p string) (st string) {
	defer func() {
		if r := recover(); r != nil {
			st = "bad"
		}
	}()
	b := readAll(fs, p)
	if uint64(len(b)) < hk.HeaderSize {
		return "bad"
	}
	v := hk.NewSnapshotValidator()
	if !v.AddChunk(b, 0) || !v.Validate() {
		return "bad"
	}
	if sh, err := hk.IsShrunkSnapshotFile(p, fs); err == nil && sh {
		return "shrunk"
	}
	return "full"
}

type dirObs struct {
	class string
	files map[string]string
}

func (w *world) observe() []dirObs {
	l, err := w.mem.List(rootDir)
	if err != nil {
		panic(err)
	}
	var out []dirObs
	for _, d := range l {
		dp := path.Join(rootDir, d)
		st, err := w.mem.Stat(dp)
		if err != nil || !st.IsDir() {
			out = append(out, dirObs{class: "file:" + d})
			continue
		}
		o := dirObs{class: dirClass(d), files: map[string]string{}}
		fl, _ := w.mem.List(dp)
		for _, f := range fl {
			fc := fileClass(f)
			fp := path.Join(dp, f)
			switch {
			case fc == "flag" || fc == "meta":
				if idx, ok := hk.FlagFileIndex(dp, f, w.mem); ok && idx != 0 {
					o.files[fc] = strconv.FormatUint(idx, 10)
				} else {
					o.files[fc] = "bad"
				}
			case strings.HasPrefix(fc, "snap:") || strings.HasPrefix(fc, "shrunk:"):
				o.files[fc] = snapState(w.mem, fp)
			case strings.HasPrefix(fc, "other:") && reExt.MatchString(f):
				b := readAll(w.mem, fp)
				if len(b) >= 8 && binary.LittleEndian.Uint64(b) == uint64(len(b)) {
					o.files[fc] = "full"
				} else {
					o.files[fc] = "bad"
				}
			default:
				o.files[fc] = "?"
			}
		}
		out = append(out, o)
	}
	sort.Slice(out, func(i, j int) bool { return classKey(out[i].class) < classKey(out[j].class) })
	return out
}

func treeString(t []dirObs) string {
	if len(t) == 0 {
		return "-"
	}
	var ds []string
	for _, d := range t {
		var fs []string
		for k := range d.files {
			fs = append(fs, k)
		}
		sort.Slice(fs, func(i, j int) bool { return classKey(fs[i]) < classKey(fs[j]) })
		for i, k := range fs {
			fs[i] = k + "=" + d.files[k]
		}
		ds = append(ds, d.class+"["+strings.Join(fs, ",")+"]")
	}
	return strings.Join(ds, " ")
}

// cleanVerdict is the conclusion of the property on the real directory: only
// complete snapshot directories, the recorded one present, no temporary or
// orphaned directories, no flag files. Returns "" or what is wrong.
func cleanVerdict(t []dirObs, rec uint64) string {
	found := false
	for _, d := range t {
		switch {
		case strings.HasPrefix(d.class, "final:"):
			idx, _ := strconv.ParseUint(d.class[6:], 10, 64)
			if idx != rec || rec == 0 {
				return fmt.Sprintf("snapshot directory %s remains while the log store records %d", d.class, rec)
			}
			found = true
			st := d.files[fmt.Sprintf("snap:%d", idx)]
			if st != "full" && st != "shrunk" {
				return fmt.Sprintf("recorded snapshot %d has no valid snapshot file (%q)", idx, st)
			}
			if _, ok := d.files["flag"]; ok {
				return fmt.Sprintf("flag file left in %s", d.class)
			}
			for k, v := range d.files {
				if strings.HasPrefix(k, "other:") && v == "bad" {
					return fmt.Sprintf("recorded snapshot %d: external file %s does not have its full length", idx, k)
				}
			}
		case strings.HasPrefix(d.class, "gen:") || strings.HasPrefix(d.class, "recv:"):
			return "temporary directory " + d.class + " remains"
		}
	}
	if rec != 0 && !found {
		return fmt.Sprintf("the log store records snapshot %d but its directory is gone", rec)
	}
	return ""
}
