module verif/harness

go 1.23.0

toolchain go1.23.5

require (
	github.com/lni/dragonboat/v4 v4.0.0
	github.com/lni/goutils v1.4.0
	github.com/lni/vfs v0.2.1-0.20220616104132-8852fd867376
)

require (
	github.com/DataDog/zstd v1.4.5 // indirect
	github.com/HdrHistogram/hdrhistogram-go v1.1.2 // indirect
	github.com/VictoriaMetrics/metrics v1.18.1 // indirect
	github.com/armon/go-metrics v0.0.0-20180917152333-f0300d1749da // indirect
	github.com/cespare/xxhash/v2 v2.1.2 // indirect
	github.com/cockroachdb/errors v1.9.0 // indirect
	github.com/cockroachdb/logtags v0.0.0-20211118104740-dabe8e521a4f // indirect
	github.com/cockroachdb/pebble v0.0.0-20221207173255-0f086d933dac // indirect
	github.com/cockroachdb/redact v1.1.3 // indirect
	github.com/getsentry/sentry-go v0.12.0 // indirect
	github.com/gogo/protobuf v1.3.2 // indirect
	github.com/golang/snappy v0.0.4 // indirect
	github.com/google/btree v1.0.0 // indirect
	github.com/google/uuid v1.3.0 // indirect
	github.com/hashicorp/errwrap v1.0.0 // indirect
	github.com/hashicorp/go-immutable-radix v1.0.0 // indirect
	github.com/hashicorp/go-msgpack v0.5.3 // indirect
	github.com/hashicorp/go-multierror v1.0.0 // indirect
	github.com/hashicorp/go-sockaddr v1.0.0 // indirect
	github.com/hashicorp/golang-lru v0.5.1 // indirect
	github.com/hashicorp/memberlist v0.3.1 // indirect
	github.com/klauspost/compress v1.11.13 // indirect
	github.com/kr/pretty v0.3.0 // indirect
	github.com/kr/text v0.2.0 // indirect
	github.com/miekg/dns v1.1.26 // indirect
	github.com/pierrec/lz4/v4 v4.1.14 // indirect
	github.com/pkg/errors v0.9.1 // indirect
	github.com/rogpeppe/go-internal v1.8.1 // indirect
	github.com/sean-/seed v0.0.0-20170313163322-e2103e2c3529 // indirect
	github.com/valyala/fastrand v1.1.0 // indirect
	github.com/valyala/histogram v1.2.0 // indirect
	golang.org/x/crypto v0.40.0 // indirect
	golang.org/x/exp v0.0.0-20200513190911-00229845015e // indirect
	golang.org/x/net v0.41.0 // indirect
	golang.org/x/sys v0.34.0 // indirect
)

replace github.com/lni/dragonboat/v4 => /repo
