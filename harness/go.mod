module verif/harness

go 1.23.0

toolchain go1.23.5

require github.com/lni/dragonboat/v4 v4.0.0

require (
	github.com/cockroachdb/errors v1.9.0 // indirect
	github.com/cockroachdb/logtags v0.0.0-20211118104740-dabe8e521a4f // indirect
	github.com/cockroachdb/pebble v0.0.0-20221207173255-0f086d933dac // indirect
	github.com/cockroachdb/redact v1.1.3 // indirect
	github.com/getsentry/sentry-go v0.12.0 // indirect
	github.com/gogo/protobuf v1.3.2 // indirect
	github.com/kr/pretty v0.3.0 // indirect
	github.com/kr/text v0.2.0 // indirect
	github.com/lni/goutils v1.4.0 // indirect
	github.com/lni/vfs v0.2.1-0.20220616104132-8852fd867376 // indirect
	github.com/pkg/errors v0.9.1 // indirect
	github.com/rogpeppe/go-internal v1.8.1 // indirect
	golang.org/x/sys v0.34.0 // indirect
)

replace github.com/lni/dragonboat/v4 => /repo
