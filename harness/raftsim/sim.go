// Package raftsim is the white-box cluster simulator used by the Raft-core
// properties (C02 C03 C06 C07 C17 C18): real raft.Peer instances over real
// LogReaders, driven by an explicit operation list; after every operation the
// projected state of the acting node is printed in the canonical text form the
// Coq model (coq/Model/RaftCore.v, extracted) prints as well.
package raftsim

import (
	"math"
	"fmt"
	"sort"
	"strconv"
	"strings"

	"github.com/lni/dragonboat/v4/config"
	"github.com/lni/dragonboat/v4/logger"
	"github.com/lni/dragonboat/v4/raftio"
	pb "github.com/lni/dragonboat/v4/raftpb"
	rs "github.com/lni/dragonboat/v4/verifhooks/raftsim"

	"verif/harness/vh"
)

func init() {
	for _, n := range []string{"raft", "config", "logdb", "rsm", "dragonboat", "transport", "grpc", "raftpb", "settings", "order", "utils", "server"} {
		logger.GetLogger(n).SetLevel(logger.CRITICAL)
	}
}

// ---------------------------------------------------------------------------
// in-memory raftio.ILogDB: only what LogReader needs (IterateEntries)

type memDB struct {
	ents map[uint64]pb.Entry
}

func (d *memDB) Name() string                                         { return "verif-mem" }
func (d *memDB) Close() error                                         { return nil }
func (d *memDB) BinaryFormat() uint32                                 { return 0 }
func (d *memDB) ListNodeInfo() ([]raftio.NodeInfo, error)             { return nil, nil }
func (d *memDB) SaveBootstrapInfo(uint64, uint64, pb.Bootstrap) error { return nil }
func (d *memDB) GetBootstrapInfo(uint64, uint64) (pb.Bootstrap, error) {
	return pb.Bootstrap{}, nil
}
func (d *memDB) SaveRaftState([]pb.Update, uint64) error { return nil }
func (d *memDB) IterateEntries(ents []pb.Entry, size uint64, _ uint64, _ uint64,
	low uint64, high uint64, maxSize uint64) ([]pb.Entry, uint64, error) {
	for i := low; i < high; i++ {
		e, ok := d.ents[i]
		if !ok {
			break
		}
		size += uint64(e.SizeUpperLimit())
		ents = append(ents, e)
		if size > maxSize {
			break
		}
	}
	return ents, size, nil
}
func (d *memDB) ReadRaftState(uint64, uint64, uint64) (raftio.RaftState, error) {
	return raftio.RaftState{}, nil
}
func (d *memDB) RemoveEntriesTo(uint64, uint64, uint64) error { return nil }
func (d *memDB) CompactEntriesTo(uint64, uint64, uint64) (<-chan struct{}, error) {
	return nil, nil
}
func (d *memDB) SaveSnapshots([]pb.Update) error                 { return nil }
func (d *memDB) GetSnapshot(uint64, uint64) (pb.Snapshot, error) { return pb.Snapshot{}, nil }
func (d *memDB) RemoveNodeData(uint64, uint64) error             { return nil }
func (d *memDB) ImportSnapshot(pb.Snapshot, uint64) error        { return nil }

// ---------------------------------------------------------------------------

type nopCompactor struct{}

func (nopCompactor) Compact(uint64) error { return nil }

// Node is one replica: the live peer plus what is durable.
type Node struct {
	ID      uint64
	Kind    byte // 'V' voter, 'N' nonVoting, 'W' witness
	Peer    *rs.Peer
	LR      *rs.LogReader
	DB      *memDB
	Applied uint64
	// durable
	State    pb.State
	Snapshot pb.Snapshot
	// apply queue (entries handed out by GetUpdate, not yet applied)
	Queue []pb.Entry
	// applied membership (mini rsm)
	Mem Membership
	// incarnation counter, for monitors
	Inc int
}

// Membership is the applied membership of a replica.
type Membership struct {
	Voters, NonVotings, Witnesses, Removed map[uint64]bool
	// CCID: index of the last applied membership change (ConfigChangeId); maintained by the
	// schedule generator only (Driver.Apply), it ends up in the text of the snapshots it takes
	CCID uint64
}

func newMembership() Membership {
	return Membership{map[uint64]bool{}, map[uint64]bool{}, map[uint64]bool{}, map[uint64]bool{}, 0}
}

func (m Membership) clone() Membership {
	c := newMembership()
	for k := range m.Voters {
		c.Voters[k] = true
	}
	for k := range m.NonVotings {
		c.NonVotings[k] = true
	}
	for k := range m.Witnesses {
		c.Witnesses[k] = true
	}
	for k := range m.Removed {
		c.Removed[k] = true
	}
	c.CCID = m.CCID
	return c
}

// Apply evaluates a config change the way every replica does (deterministic
// mini version of rsm.membership) and returns whether it is accepted.
func (m Membership) Apply(t pb.ConfigChangeType, id uint64) bool {
	member := m.Voters[id] || m.NonVotings[id] || m.Witnesses[id]
	switch t {
	case pb.AddNode:
		if m.Removed[id] || m.Voters[id] || m.Witnesses[id] {
			return false
		}
		delete(m.NonVotings, id)
		m.Voters[id] = true
	case pb.AddNonVoting:
		if m.Removed[id] || member {
			return false
		}
		m.NonVotings[id] = true
	case pb.AddWitness:
		if m.Removed[id] || member {
			return false
		}
		m.Witnesses[id] = true
	case pb.RemoveNode:
		if m.Voters[id] && len(m.Voters) == 1 {
			return false
		}
		delete(m.Voters, id)
		delete(m.NonVotings, id)
		delete(m.Witnesses, id)
		m.Removed[id] = true
	}
	return true
}

func keys(m map[uint64]bool) []uint64 {
	var out []uint64
	for k := range m {
		out = append(out, k)
	}
	sort.Slice(out, func(i, j int) bool { return out[i] < out[j] })
	return out
}

// Cluster is the simulated shard.
type Cluster struct {
	ET, HT  uint64
	CQ, PV  bool
	Nodes   map[uint64]*Node
	Initial []uint64
}

// Header renders the cluster parameters.
func (c *Cluster) Header() string {
	return fmt.Sprintf("prefixonly et=%d ht=%d cq=%d pv=%d", c.ET, c.HT, b2i(c.CQ), b2i(c.PV))
}

// ParseHeader parses what Header printed.
func ParseHeader(h string) *Cluster {
	c := &Cluster{Nodes: map[uint64]*Node{}}
	for _, f := range strings.Fields(h) {
		kv := strings.SplitN(f, "=", 2)
		if len(kv) != 2 {
			continue
		}
		v, _ := strconv.ParseUint(kv[1], 10, 64)
		switch kv[0] {
		case "et":
			c.ET = v
		case "ht":
			c.HT = v
		case "cq":
			c.CQ = v == 1
		case "pv":
			c.PV = v == 1
		}
	}
	return c
}

func b2i(b bool) int {
	if b {
		return 1
	}
	return 0
}

func (c *Cluster) config(id uint64, kind byte) config.Config {
	return config.Config{ShardID: 1, ReplicaID: id, ElectionRTT: c.ET, HeartbeatRTT: c.HT,
		CheckQuorum: c.CQ, PreVote: c.PV, IsNonVoting: kind == 'N', IsWitness: kind == 'W'}
}

// start creates node id. initial: member of the bootstrap list `init`.
func (c *Cluster) start(id uint64, kind byte, init []uint64) *Node {
	n := &Node{ID: id, Kind: kind, DB: &memDB{ents: map[uint64]pb.Entry{}}, Mem: newMembership()}
	n.LR = rs.NewLogReader(1, id, n.DB)
	n.LR.SetCompactor(nopCompactor{})
	var addrs []rs.PeerAddress
	for _, p := range init {
		addrs = append(addrs, rs.PeerAddress{ReplicaID: p, Address: fmt.Sprintf("a%d", p)})
	}
	p := rs.Launch(c.config(id, kind), n.LR, addrs, len(init) > 0, true)
	n.Peer = &p
	c.Nodes[id] = n
	return n
}

func (c *Cluster) restart(n *Node) {
	n.Inc++
	n.LR = rs.NewLogReader(1, n.ID, n.DB)
	n.LR.SetCompactor(nopCompactor{})
	first := uint64(1)
	if !pb.IsEmptySnapshot(n.Snapshot) {
		if err := n.LR.ApplySnapshot(n.Snapshot); err != nil {
			panic(err)
		}
		first = n.Snapshot.Index + 1
	}
	if !pb.IsEmptyState(n.State) {
		n.LR.SetState(n.State)
	}
	cnt := uint64(0)
	for {
		if _, ok := n.DB.ents[first+cnt]; !ok {
			break
		}
		cnt++
	}
	n.LR.SetRange(first, cnt)
	p := rs.Launch(c.config(n.ID, n.Kind), n.LR, nil, false, false)
	n.Peer = &p
	n.Queue = nil
	n.Applied = n.Snapshot.Index
	n.Mem = newMembership()
	for k := range n.Snapshot.Membership.Addresses {
		n.Mem.Voters[k] = true
	}
	for k := range n.Snapshot.Membership.NonVotings {
		n.Mem.NonVotings[k] = true
	}
	for k := range n.Snapshot.Membership.Witnesses {
		n.Mem.Witnesses[k] = true
	}
	for k := range n.Snapshot.Membership.Removed {
		n.Mem.Removed[k] = true
	}
	n.Peer.NotifyRaftLastApplied(n.Applied)
}

// ---------------------------------------------------------------------------
// text forms

func fmtEntry(e pb.Entry) string {
	return fmt.Sprintf("%d:%d:%d:%d:%d:%d:%d:%s", e.Index, e.Term, e.Type, e.Key, e.ClientID, e.SeriesID, e.RespondedTo, vh.Hex(e.Cmd))
}

func fmtEntries(es []pb.Entry) string {
	var s []string
	for _, e := range es {
		s = append(s, fmtEntry(e))
	}
	return "[" + strings.Join(s, ",") + "]"
}

func parseEntry(s string) pb.Entry {
	f := strings.Split(s, ":")
	u := func(i int) uint64 { v, err := strconv.ParseUint(f[i], 10, 64); must(err); return v }
	return pb.Entry{Index: u(0), Term: u(1), Type: pb.EntryType(u(2)), Key: u(3), ClientID: u(4),
		SeriesID: u(5), RespondedTo: u(6), Cmd: vh.UnHex(f[7])}
}

func parseEntries(s string) []pb.Entry {
	s = strings.TrimSuffix(strings.TrimPrefix(s, "["), "]")
	if s == "" {
		return nil
	}
	var out []pb.Entry
	for _, p := range strings.Split(s, ",") {
		out = append(out, parseEntry(p))
	}
	return out
}

func joinIDs(ids []uint64) string {
	if len(ids) == 0 {
		return "."
	}
	var s []string
	for _, i := range ids {
		s = append(s, fmt.Sprint(i))
	}
	return strings.Join(s, "+")
}

func splitIDs(s string) []uint64 {
	if s == "." || s == "" {
		return nil
	}
	var out []uint64
	for _, p := range strings.Split(s, "+") {
		v, err := strconv.ParseUint(p, 10, 64)
		must(err)
		out = append(out, v)
	}
	return out
}

func addrKeys(m map[uint64]string) []uint64 {
	var out []uint64
	for k := range m {
		out = append(out, k)
	}
	sort.Slice(out, func(i, j int) bool { return out[i] < out[j] })
	return out
}

func fmtSnapshot(s pb.Snapshot) string {
	if pb.IsEmptySnapshot(s) {
		return "-"
	}
	return fmt.Sprintf("%d/%d/%s/%s/%s/%d/%d/%d/%d", s.Index, s.Term, joinIDs(addrKeys(s.Membership.Addresses)),
		joinIDs(addrKeys(s.Membership.NonVotings)), joinIDs(addrKeys(s.Membership.Witnesses)),
		b2i(s.Witness), b2i(s.Dummy), b2i(s.Filepath != ""), s.Membership.ConfigChangeId)
}

func parseSnapshot(t string) pb.Snapshot {
	if t == "-" {
		return pb.Snapshot{}
	}
	f := strings.Split(t, "/")
	u := func(i int) uint64 { v, err := strconv.ParseUint(f[i], 10, 64); must(err); return v }
	s := pb.Snapshot{Index: u(0), Term: u(1), Witness: u(5) == 1, Dummy: u(6) == 1}
	if len(f) > 8 {
		s.Membership.ConfigChangeId = u(8) // index of the last applied membership change
	}
	if u(7) == 1 {
		s.Filepath = "snapshot.file"
		s.FileSize = 1024
	}
	s.Membership.Addresses = map[uint64]string{}
	s.Membership.NonVotings = map[uint64]string{}
	s.Membership.Witnesses = map[uint64]string{}
	s.Membership.Removed = map[uint64]bool{}
	for _, id := range splitIDs(f[2]) {
		s.Membership.Addresses[id] = fmt.Sprintf("a%d", id)
	}
	for _, id := range splitIDs(f[3]) {
		s.Membership.NonVotings[id] = fmt.Sprintf("a%d", id)
	}
	for _, id := range splitIDs(f[4]) {
		s.Membership.Witnesses[id] = fmt.Sprintf("a%d", id)
	}
	return s
}

// FmtMsg is the canonical text of a message (also its wire form inside M ops).
func FmtMsg(m pb.Message) string {
	return fmt.Sprintf("%d:%d:%d:%d:%d:%d:%d:%d:%d:%d:%s:%s", m.Type, m.To, m.From, m.Term, m.LogTerm,
		m.LogIndex, m.Commit, b2i(m.Reject), m.Hint, m.HintHigh, strings.ReplaceAll(fmtEntries(m.Entries), ":", "_"), fmtSnapshot(m.Snapshot))
}

// ParseMsg parses FmtMsg's output.
func ParseMsg(s string) pb.Message {
	f := strings.SplitN(s, ":", 12)
	u := func(i int) uint64 { v, err := strconv.ParseUint(f[i], 10, 64); must(err); return v }
	m := pb.Message{Type: pb.MessageType(u(0)), To: u(1), From: u(2), Term: u(3), LogTerm: u(4),
		LogIndex: u(5), Commit: u(6), Reject: u(7) == 1, Hint: u(8), HintHigh: u(9), ShardID: 1}
	m.Entries = parseEntries(strings.ReplaceAll(f[10], "_", ":"))
	m.Snapshot = parseSnapshot(f[11])
	return m
}

// msgGroup classifies message types so that each property compares only the
// messages it is about.
func msgGroup(t pb.MessageType) int {
	switch t {
	case pb.RequestVote, pb.RequestVoteResp, pb.RequestPreVote, pb.RequestPreVoteResp, pb.TimeoutNow:
		return 0
	case pb.Replicate, pb.ReplicateResp, pb.InstallSnapshot:
		return 1
	case pb.Heartbeat, pb.HeartbeatResp:
		return 2
	case pb.ReadIndex, pb.ReadIndexResp:
		return 3
	}
	return 4
}

var msgGroupNames = []string{"mvote", "mrepl", "mhb", "mread", "mother"}

func fmtMsgs(ms []pb.Message) string {
	var out []string
	for g, name := range msgGroupNames {
		var s []string
		for _, m := range ms {
			if msgGroup(m.Type) == g {
				s = append(s, FmtMsg(m))
			}
		}
		sort.Strings(s)
		out = append(out, name+"=["+strings.Join(s, ",")+"]")
	}
	return strings.Join(out, " ")
}

func must(err error) {
	if err != nil {
		panic(err)
	}
}

// Project renders the state of node n.
func Project(n *Node) string {
	s := rs.Inspect(n.Peer)
	var b strings.Builder
	fmt.Fprintf(&b, "n=%d role=%d term=%d vote=%d lead=%d appl=%d comm=%d proc=%d first=%d last=%d mterm=%d saved=%d",
		s.ReplicaID, s.Role, s.Term, s.Vote, s.LeaderID, s.Applied, s.Committed, s.Processed,
		s.FirstIndex, s.LastIndex, s.MarkerTerm, s.SavedTo)
	fmt.Fprintf(&b, " tick=%d/%d/%d/%d flags=%d%d%d%d xfer=%d", s.ElectionTick, s.HeartbeatTick, s.RandTimeout,
		s.TickCount, b2i(s.IsTransferTarget), b2i(s.PendingCC), b2i(s.Quiesce), b2i(s.Snapshotting), s.TransferTarget)
	if s.EntriesCompacted {
		b.WriteString(" ents=compacted")
	} else {
		fmt.Fprintf(&b, " ents=%s", fmtEntries(s.Entries))
	}
	if s.PendingSnapshot != nil {
		fmt.Fprintf(&b, " psnap=%s", fmtSnapshot(*s.PendingSnapshot))
	} else {
		b.WriteString(" psnap=-")
	}
	var ps []string
	for _, r := range s.Remotes {
		ps = append(ps, fmt.Sprintf("%d:%d:%d:%d:%d:%d:%d:%d:%d", r.Kind, r.ID, r.Match, r.Next, r.State,
			r.SnapshotIndex, b2i(r.Active), r.AckTick, b2i(r.AckRejected)))
	}
	fmt.Fprintf(&b, " peers=[%s]", strings.Join(ps, ","))
	var vs []string
	for _, k := range keys2(s.Votes) {
		vs = append(vs, fmt.Sprintf("%d:%d", k, b2i(s.Votes[k])))
	}
	fmt.Fprintf(&b, " votes=[%s]", strings.Join(vs, ","))
	var rds []string
	for _, r := range s.Reads {
		rds = append(rds, fmt.Sprintf("%d:%d:%d:%d:%s", r.Low, r.High, r.Index, r.From, joinIDs(r.Confirmed)))
	}
	fmt.Fprintf(&b, " reads=[%s]", strings.Join(rds, ","))
	fmt.Fprintf(&b, " %s", fmtMsgs(s.Msgs))
	var rr []string
	for _, r := range s.ReadyToRead {
		rr = append(rr, fmt.Sprintf("%d:%d:%d", r.Index, r.SystemCtx.Low, r.SystemCtx.High))
	}
	fmt.Fprintf(&b, " ready=[%s]", strings.Join(rr, ","))
	fmt.Fprintf(&b, " dent=%s", fmtEntries(s.DroppedEntries))
	var dr []string
	for _, r := range s.DroppedReads {
		dr = append(dr, fmt.Sprintf("%d:%d", r.Low, r.High))
	}
	fmt.Fprintf(&b, " dreads=[%s]", strings.Join(dr, ","))
	if s.HasLeaderUpdate {
		fmt.Fprintf(&b, " lu=%d:%d", s.LeaderUpdate.LeaderID, s.LeaderUpdate.Term)
	} else {
		b.WriteString(" lu=-")
	}
	fmt.Fprintf(&b, " prev=%d:%d:%d", s.PrevState.Term, s.PrevState.Vote, s.PrevState.Commit)
	if s.LogQuery != nil {
		fmt.Fprintf(&b, " lq=%d:%d:%d:%s", s.LogQuery.FirstIndex, s.LogQuery.LastIndex, b2i(s.LogQuery.Error != nil), fmtEntries(s.LogQuery.Entries))
	} else {
		b.WriteString(" lq=-")
	}
	return b.String()
}

func keys2(m map[uint64]bool) []uint64 {
	var out []uint64
	for k := range m {
		out = append(out, k)
	}
	sort.Slice(out, func(i, j int) bool { return out[i] < out[j] })
	return out
}

func fmtUpdate(ud pb.Update) string {
	st := "-"
	if !pb.IsEmptyState(ud.State) {
		st = fmt.Sprintf("%d:%d:%d", ud.State.Term, ud.State.Vote, ud.State.Commit)
	}
	return fmt.Sprintf(" upd=state=%s;save=%s;apply=%s;more=%d;snap=%s;fast=%d", st, fmtEntries(ud.EntriesToSave),
		fmtEntries(ud.CommittedEntries), b2i(ud.MoreCommittedEntries), fmtSnapshot(ud.Snapshot), b2i(ud.FastApply))
}

// ---------------------------------------------------------------------------
// operations

// Result of executing one op.
type Result struct {
	Obs      string
	Panicked bool
	PanicMsg string
	Update   *pb.Update // for U ops
	Node     *Node
}

// Exec runs one operation (text form without the @rt suffix) and forces the
// randomized election timeout to rt afterwards when force is set.
func (c *Cluster) Exec(op string, rt uint64, force bool) (res Result) {
	f := strings.Fields(op)
	id, _ := strconv.ParseUint(f[1], 10, 64)
	u := func(i int) uint64 { v, err := strconv.ParseUint(f[i], 10, 64); must(err); return v }
	var n *Node
	var ud *pb.Update
	p := vh.Catch(func() {
		switch f[0] {
		case "START": // START id kind init-ids
			n = c.start(id, f[2][0], splitIDs(f[3]))
		case "RESTART":
			n = c.Nodes[id]
			c.restart(n)
		default:
			n = c.Nodes[id]
			if n == nil {
				panic("no such node")
			}
			switch f[0] {
			case "T":
				must(n.Peer.Tick())
			case "Q":
				must(n.Peer.QuiescedTick())
			case "M":
				must(n.Peer.Handle(ParseMsg(f[2])))
			case "P":
				must(n.Peer.ProposeEntries([]pb.Entry{{Key: u(2), ClientID: u(3), SeriesID: u(4), Cmd: vh.UnHex(f[5])}}))
			case "CC":
				must(n.Peer.ProposeConfigChange(MakeCC(u(3), u(4)), u(2)))
			case "ACC":
				must(n.Peer.ApplyConfigChange(pb.ConfigChange{Type: pb.ConfigChangeType(u(2)), ReplicaID: u(3)}))
				n.Mem.Apply(pb.ConfigChangeType(u(2)), u(3))
			case "RCC":
				must(n.Peer.RejectConfigChange())
			case "NLA":
				n.Applied = u(2)
				for len(n.Queue) > 0 && n.Queue[0].Index <= n.Applied {
					n.Queue = n.Queue[1:]
				}
				n.Peer.NotifyRaftLastApplied(u(2))
			case "R":
				must(n.Peer.ReadIndex(pb.SystemCtx{Low: u(2), High: u(3)}))
			case "LQ":
				must(n.Peer.QueryRaftLog(u(2), u(3), math.MaxUint64))
			case "LT":
				must(n.Peer.RequestLeaderTransfer(u(2)))
			case "UN":
				must(n.Peer.ReportUnreachableNode(u(2)))
			case "SS":
				must(n.Peer.ReportSnapshotStatus(u(2), u(3) == 1))
			case "RR":
				ss := parseSnapshot(f[2])
				must(n.Peer.RestoreRemotes(ss))
				// entries of the same Update that follow the snapshot stay queued for apply
				var keep []pb.Entry
				for _, e := range n.Queue {
					if e.Index > ss.Index {
						keep = append(keep, e)
					}
				}
				n.Queue = keep
				n.Mem = MembershipOf(ss)
			case "SNAP": // SNAP id snapshot compactTo
				ss := parseSnapshot(f[2])
				if err := n.LR.CreateSnapshot(ss); err != nil && err != rs.ErrSnapshotOutOfDate {
					panic(err)
				} else if err == nil {
					n.Snapshot = ss
				}
				if err := n.LR.Compact(u(3)); err != nil && err != rs.ErrCompacted {
					// ErrUnavailable: nothing to compact
				}
			case "U": // U id moreToApply lastApplied
				x, err := n.Peer.GetUpdate(u(2) == 1, u(3))
				must(err)
				ud = &x
				// persist (atomic with the update in the simulator); a saved snapshot
				// resets the log store's max index, entries are written after it
				if !pb.IsEmptySnapshot(x.Snapshot) {
					n.DB.ents = map[uint64]pb.Entry{}
				}
				for _, e := range x.EntriesToSave {
					// logical truncation: drop everything after the first new index
					n.DB.ents[e.Index] = e
				}
				if len(x.EntriesToSave) > 0 {
					last := x.EntriesToSave[len(x.EntriesToSave)-1].Index
					for i := last + 1; ; i++ {
						if _, ok := n.DB.ents[i]; !ok {
							break
						}
						delete(n.DB.ents, i)
					}
				}
				if !pb.IsEmptyState(x.State) {
					n.State = x.State
				}
				if !pb.IsEmptySnapshot(x.Snapshot) {
					n.Snapshot = x.Snapshot
					if err := n.LR.ApplySnapshot(x.Snapshot); err != nil && err != rs.ErrSnapshotOutOfDate {
						panic(err)
					}
				}
				must(n.LR.Append(x.EntriesToSave))
				n.Peer.Commit(x)
				n.Queue = append(n.Queue, x.CommittedEntries...)
			case "MUT":
				// marker written by the generator: the message delivered next to this replica was
				// not the one handed to the transport (see Driver.Deliver); no effect on the replica
			default:
				panic("unknown op " + f[0])
			}
		}
	})
	res.Node = n
	if p != "" {
		res.Panicked = true
		res.PanicMsg = p
		res.Obs = "PANIC"
		return
	}
	if force {
		rs.SetRandomizedTimeout(n.Peer, rt)
	}
	res.Obs = f[0] + " " + Project(n)
	if ud != nil {
		res.Obs += fmtUpdate(*ud)
		res.Update = ud
	}
	return
}

// MembershipOf converts a snapshot's membership.
func MembershipOf(ss pb.Snapshot) Membership {
	m := newMembership()
	for k := range ss.Membership.Addresses {
		m.Voters[k] = true
	}
	for k := range ss.Membership.NonVotings {
		m.NonVotings[k] = true
	}
	for k := range ss.Membership.Witnesses {
		m.Witnesses[k] = true
	}
	for k := range ss.Membership.Removed {
		m.Removed[k] = true
	}
	m.CCID = ss.Membership.ConfigChangeId
	return m
}

// FmtSnapshot is the text form of a snapshot.
func FmtSnapshot(ss pb.Snapshot) string { return fmtSnapshot(ss) }

// SetRT forces the randomized election timeout of n.
func (c *Cluster) SetRT(n *Node, v uint64) { rs.SetRandomizedTimeout(n.Peer, v) }

// MakeCC builds the config change the simulator proposes.
func MakeCC(t uint64, id uint64) pb.ConfigChange {
	return pb.ConfigChange{Type: pb.ConfigChangeType(t), ReplicaID: id, Address: fmt.Sprintf("a%d", id)}
}

// BootstrapCmds returns the payloads of the bootstrap entries Launch creates.
func BootstrapCmds(init []uint64) []string {
	var out []string
	for _, p := range init {
		cc := pb.ConfigChange{Type: pb.AddNode, ReplicaID: p, Initialize: true, Address: fmt.Sprintf("a%d", p)}
		out = append(out, vh.Hex(pb.MustMarshal(&cc)))
	}
	return out
}

// SplitIDs parses "1+2+3".
func SplitIDs(s string) []uint64 { return splitIDs(s) }

// RandTimeout reads the randomized election timeout of n.
func RandTimeout(n *Node) uint64 { return rs.Inspect(n.Peer).RandTimeout }

// Inspect exposes the projection struct.
func Inspect(n *Node) rs.VState { return rs.Inspect(n.Peer) }

// SplitOp separates "op args @rt".
func SplitOp(s string) (string, uint64) {
	s = strings.TrimSpace(s)
	i := strings.LastIndex(s, "@")
	if i < 0 {
		return s, 0
	}
	v, err := strconv.ParseUint(strings.TrimSpace(s[i+1:]), 10, 64)
	must(err)
	return strings.TrimSpace(s[:i]), v
}
