package raftsim

import (
	"fmt"
	"os"
	"sort"
	"strings"

	pb "github.com/lni/dragonboat/v4/raftpb"

	"verif/harness/vh"
)

// Driver runs operations on a cluster and does what the engine / node / transport
// do around a raft peer: collects the messages of every Update into a pool,
// queues committed entries for apply, applies them (membership changes through
// the deterministic mini membership), recovers from received snapshots.
// The schedule generator records every operation; the fair phase of the progress
// monitor (C17) uses the same driver without recording.
type Driver struct {
	C       *Cluster
	Pool    []pb.Message
	Record  func(op string, rt uint64)
	ForceRT func(n *Node) (uint64, bool) // deterministic oracle for unrecorded phases
	Stopped bool
	// PanicMsg is the message of the panic that stopped the driver
	PanicMsg string
	// Inconclusive counts fair phases given up because the simulated operator started a
	// replica with a kind that contradicts the membership (not a fault the property covers)
	Inconclusive bool
	// DownOne: before the fault-free phase one voting member is taken down (it neither
	// ticks nor receives) such that every membership view held by a running replica keeps
	// a majority among the replicas that stay up; Down is the result (empty: no such
	// replica, or a membership change is still pending, then the phase runs as usual)
	DownOne bool
	Down    map[uint64]bool
	// text of every pooled message at the moment it was handed to the transport, keyed by the
	// sequence number kept in the message's (otherwise unused) ShardID field: like the real
	// send queue the pool holds the message value, whose entries may alias the sender's memory
	sentText map[uint64]string
	sentSeq  uint64
	// read ctxs (Low) handed out in ReadyToReads, by the replica that released them; ctxs
	// reported dropped (the client retries)
	released    map[uint64]uint64
	droppedRead map[uint64]bool
	// NoStage2 switches the second stage of the fault-free phase off (reads on every
	// member and a membership change after the probe proposal completed)
	NoStage2 bool
}

// pickDown chooses the replica to take down for the DownOne variant (0 = none).
func (d *Driver) pickDown() uint64 {
	c := d.C
	var best *Node
	for _, id := range c.ids() {
		if n := c.Nodes[id]; best == nil || n.Applied > best.Applied {
			best = n
		}
	}
	if best == nil || len(best.Mem.Voters) == 0 {
		return 0
	}
	// no membership change beyond what the most advanced replica has applied
	for _, id := range c.ids() {
		for _, e := range Inspect(c.Nodes[id]).Entries {
			if e.Type == pb.ConfigChangeEntry && e.Index > best.Applied {
				return 0
			}
		}
	}
	type view struct{ voting map[uint64]bool }
	var views []view
	add := func(m *Membership) {
		v := view{voting: map[uint64]bool{}}
		for k := range m.Voters {
			v.voting[k] = true
		}
		for k := range m.Witnesses {
			v.voting[k] = true
		}
		if len(v.voting) > 0 {
			views = append(views, v)
		}
	}
	for _, id := range c.ids() {
		add(&c.Nodes[id].Mem)
	}
	// every member of the newest view must be running (the phase does not start replicas here)
	for k := range views[0].voting {
		_ = k
	}
	for k := range best.Mem.Voters {
		if _, ok := c.Nodes[k]; !ok {
			return 0
		}
	}
	for k := range best.Mem.Witnesses {
		if _, ok := c.Nodes[k]; !ok {
			return 0
		}
	}
	ok := func(victim uint64) bool {
		for _, v := range views {
			up := 0
			for k := range v.voting {
				if _, running := c.Nodes[k]; running && k != victim {
					up++
				}
			}
			if up < len(v.voting)/2+1 {
				return false
			}
		}
		return true
	}
	// prefer the current leader, then the voters in order
	var cands []uint64
	maxTerm := uint64(0)
	for _, id := range c.ids() {
		if st := Inspect(c.Nodes[id]); st.Term > maxTerm {
			maxTerm = st.Term
		}
	}
	for _, id := range c.ids() {
		if st := Inspect(c.Nodes[id]); st.Role == 3 && st.Term == maxTerm && best.Mem.Voters[id] {
			cands = append(cands, id)
		}
	}
	for _, id := range c.ids() {
		if best.Mem.Voters[id] {
			cands = append(cands, id)
		}
	}
	for _, v := range cands {
		if ok(v) {
			return v
		}
	}
	return 0
}

// Do executes one operation.
func (d *Driver) Do(op string) Result {
	res := d.C.Exec(op, 0, false)
	if res.Panicked {
		if d.Record != nil {
			d.Record(op, 0)
		}
		d.Stopped = true
		d.PanicMsg = res.PanicMsg
		return res
	}
	if d.ForceRT != nil {
		if v, ok := d.ForceRT(res.Node); ok {
			d.C.SetRT(res.Node, v)
		}
	}
	if d.Record != nil {
		d.Record(op, RandTimeout(res.Node))
	}
	if res.Update != nil {
		d.afterUpdate(res.Node, res.Update)
	}
	return res
}

func (d *Driver) afterUpdate(n *Node, ud *pb.Update) {
	for _, rr := range ud.ReadyToReads {
		if d.released == nil {
			d.released = map[uint64]uint64{}
		}
		d.released[rr.SystemCtx.Low] = n.ID
	}
	for _, c := range ud.DroppedReadIndexes {
		if d.droppedRead == nil {
			d.droppedRead = map[uint64]bool{}
		}
		d.droppedRead[c.Low] = true
	}
	for _, m := range ud.Messages {
		if m.To != n.ID && m.To != 0 {
			if d.sentText == nil {
				d.sentText = map[uint64]string{}
			}
			d.sentSeq++
			m.ShardID = d.sentSeq
			d.sentText[m.ShardID] = FmtMsg(m)
			d.Pool = append(d.Pool, m)
		}
	}
	if !pb.IsEmptySnapshot(ud.Snapshot) {
		// the replica recovers from the received snapshot
		ss := ud.Snapshot
		d.Do(fmt.Sprintf("RR %d %s", n.ID, FmtSnapshot(ss)))
		if !d.Stopped {
			d.Do(fmt.Sprintf("NLA %d %d", n.ID, ss.Index))
		}
	}
}

// Update takes, persists and commits one Update of node id.
func (d *Driver) Update(id uint64) {
	n := d.C.Nodes[id]
	d.Do(fmt.Sprintf("U %d 1 %d", id, n.Applied))
}

// Apply applies up to max queued committed entries of node id.
func (d *Driver) Apply(id uint64, max int) {
	n := d.C.Nodes[id]
	cnt := 0
	last := uint64(0)
	applied := n.Applied
	for len(n.Queue) > 0 && cnt < max && !d.Stopped {
		e := n.Queue[0]
		n.Queue = n.Queue[1:]
		if e.Index <= applied {
			continue
		}
		cnt++
		if e.Type == pb.ConfigChangeEntry {
			var cc pb.ConfigChange
			if err := cc.Unmarshal(e.Cmd); err != nil {
				panic(err)
			}
			if n.Mem.clone().Apply(cc.Type, cc.ReplicaID) {
				d.Do(fmt.Sprintf("ACC %d %d %d", id, cc.Type, cc.ReplicaID))
				if nn := d.C.Nodes[id]; nn != nil {
					nn.Mem.CCID = e.Index
				}
			} else {
				d.Do(fmt.Sprintf("RCC %d", id))
			}
		}
		applied = e.Index
		last = e.Index
	}
	if last > 0 && !d.Stopped {
		d.Do(fmt.Sprintf("NLA %d %d", id, last))
	}
}

// Deliver hands pool message i to its target (dup: keep it in the pool).
func (d *Driver) Deliver(i int, dup bool, lost bool, r *vh.Rand) {
	m := d.Pool[i]
	if !dup {
		d.Pool[i] = d.Pool[len(d.Pool)-1]
		d.Pool = d.Pool[:len(d.Pool)-1]
	}
	if _, ok := d.C.Nodes[m.To]; !ok {
		lost = true
	}
	if lost {
		// the transport always reports the fate of a snapshot it was asked to send
		if m.Type == pb.InstallSnapshot && !dup {
			if _, ok := d.C.Nodes[m.From]; ok {
				d.Do(fmt.Sprintf("SS %d %d 1", m.From, m.To))
			}
		}
		return
	}
	if t, ok := d.sentText[m.ShardID]; ok && t != FmtMsg(m) {
		// the sender changed the message after handing it to the transport (aliased entries)
		d.Do(fmt.Sprintf("MUT %d", m.To))
	}
	d.Do(fmt.Sprintf("M %d %s", m.To, FmtMsg(m)))
	if d.Stopped {
		return
	}
	if m.Type == pb.InstallSnapshot {
		// the transport reports the snapshot status back to the sender
		if _, ok := d.C.Nodes[m.From]; ok && (r == nil || r.Chance(4, 5)) {
			rej := 0
			if r != nil && r.Chance(1, 6) {
				rej = 1
			}
			d.Do(fmt.Sprintf("SS %d %d %d", m.From, m.To, rej))
		}
	}
}

var debugFair = os.Getenv("VERIF_DEBUG_FAIR") != ""

// logRank orders logs the way the vote rule does: by the term of the last entry, then by length.
func logRank(n *Node) uint64 {
	st := Inspect(n)
	lt := st.MarkerTerm
	if len(st.Entries) > 0 && !st.EntriesCompacted {
		lt = st.Entries[len(st.Entries)-1].Term
	}
	return lt<<32 | (st.LastIndex & 0xffffffff)
}

func sortedKeys(m map[uint64]bool) []uint64 {
	var out []uint64
	for k := range m {
		out = append(out, k)
	}
	sort.Slice(out, func(i, j int) bool { return out[i] < out[j] })
	return out
}

// FairPhase is the C17 progress monitor: from the current state of the cluster
// (all in-flight messages lost, which is an allowed fault) every member replica
// ticks once per round and every message is delivered; it returns "" when a leader
// exists, a fresh proposal is committed and applied-for-membership everywhere and all
// member replicas have caught up, or a description of what is stuck.
func (d *Driver) FairPhase(rounds int) string {
	c := d.C
	d.Pool = nil
	d.Down = map[uint64]bool{}
	if d.DownOne {
		if v := d.pickDown(); v != 0 {
			d.Down[v] = true
		}
	}
	d.ForceRT = func(n *Node) (uint64, bool) {
		st := Inspect(n)
		// deterministic stand-in for the random draw: a hash of (replica, term), so that a
		// split vote in one term is resolved in a later one as with real random time-outs
		return c.ET + vh.NewRand(n.ID*1000003+st.Term*7919).U64()%c.ET, true
	}
	// snapshots in flight when the fault-free period starts were lost: the transport reports that
	for _, id := range c.ids() {
		st := Inspect(c.Nodes[id])
		if st.Role != 3 {
			continue
		}
		for _, rm := range st.Remotes {
			if rm.State == 3 && !d.Stopped {
				d.Do(fmt.Sprintf("SS %d %d 1", id, rm.ID))
			}
		}
	}
	probeKey := uint64(0)
	probeAt := 0
	stage := 1
	readWant := map[uint64]uint64{}
	var readers []uint64
	attempt := uint64(0)
	newMember := uint64(97)
	for round := 0; round < rounds && !d.Stopped; round++ {
		// membership according to the most advanced replica
		var best *Node
		for _, id := range d.C.ids() {
			n := c.Nodes[id]
			if best == nil || n.Applied > best.Applied {
				best = n
			}
		}
		if best == nil {
			return ""
		}
		members := map[uint64]byte{}
		for k := range best.Mem.Voters {
			members[k] = 'V'
		}
		for k := range best.Mem.NonVotings {
			members[k] = 'N'
		}
		for k := range best.Mem.Witnesses {
			members[k] = 'W'
		}
		if len(best.Mem.Voters) == 0 {
			return "" // nothing applied yet anywhere: not a configuration the property speaks about
		}
		var ids []uint64
		for k := range members {
			ids = append(ids, k)
		}
		sort.Slice(ids, func(i, j int) bool { return ids[i] < ids[j] })
		for _, id := range ids {
			if _, ok := c.Nodes[id]; !ok && !d.Down[id] {
				kind := members[id]
				// a voter that some replica (or snapshot) still knows as non-voting was started as
				// a non-voting replica and promoted later
				for _, o := range c.Nodes {
					if o.Mem.NonVotings[id] {
						kind = 'N'
					}
					if _, ok := o.Snapshot.Membership.NonVotings[id]; ok {
						kind = 'N'
					}
				}
				d.Do(fmt.Sprintf("START %d %c . -", id, kind))
			}
		}
		// every running replica ticks and receives, also one that was removed from the
		// membership but is still running (it answers vote requests of replicas that have
		// not yet learned about the removal)
		for _, id := range c.ids() {
			if d.Stopped {
				break
			}
			if d.Down[id] {
				continue
			}
			d.Do(fmt.Sprintf("T %d", id))
			if !d.Stopped {
				d.Update(id)
			}
			if !d.Stopped {
				d.Apply(id, 1000)
			}
		}
		for n := 0; len(d.Pool) > 0 && n < 5000 && !d.Stopped; n++ {
			m := d.Pool[0]
			copy(d.Pool, d.Pool[1:])
			d.Pool = d.Pool[:len(d.Pool)-1]
			d.Pool = append(d.Pool, m) // Deliver removes index len-1 cheaply
			// a message to the replica that is down is lost (the transport reports the fate of a snapshot)
			d.Deliver(len(d.Pool)-1, false, d.Down[m.To], nil)
			if d.Down[m.To] {
				if _, ok := c.Nodes[m.From]; ok && !d.Stopped && m.Type == pb.InstallSnapshot {
					d.Update(m.From)
				}
				continue
			}
			if d.Stopped {
				break
			}
			if _, ok := c.Nodes[m.To]; ok {
				d.Update(m.To)
				if !d.Stopped {
					d.Apply(m.To, 1000)
				}
			}
			if m.Type == pb.InstallSnapshot {
				if _, ok := c.Nodes[m.From]; ok && !d.Stopped {
					d.Update(m.From)
				}
			}
		}
		if d.Stopped {
			break
		}
		if debugFair {
			fmt.Printf("round %d members=%v pool=%d\n", round, members, len(d.Pool))
			for _, id := range d.C.ids() {
				fmt.Printf("   %s\n", Project(c.Nodes[id]))
			}
		}
		// progress?
		var leader *Node
		maxTerm := uint64(0)
		{
			var up []uint64
			for _, id := range ids {
				if !d.Down[id] {
					up = append(up, id)
				}
			}
			ids = up
		}
		for _, id := range ids {
			if st := Inspect(c.Nodes[id]); st.Term > maxTerm {
				maxTerm = st.Term
			}
		}
		for _, id := range ids {
			if st := Inspect(c.Nodes[id]); st.Role == 3 && st.Term == maxTerm {
				leader = c.Nodes[id]
			}
		}
		if leader == nil {
			continue
		}
		ls := Inspect(leader)
		if probeKey == 0 {
			probeKey = 900000 + uint64(round)
			probeAt = round
			d.Do(fmt.Sprintf("P %d %d 0 0 %s", leader.ID, probeKey, vh.Hex([]byte{0xEE})))
			if !d.Stopped {
				d.Update(leader.ID)
			}
			continue
		}
		done := true
		for _, id := range ids {
			st := Inspect(c.Nodes[id])
			if st.Committed != ls.Committed || st.LastIndex != ls.LastIndex || ls.Committed != ls.LastIndex {
				done = false
			}
		}
		if done && round > probeAt+1 {
			// the probe must be in the leader's committed log (or a later leader's: it may have been lost
			// with a leader change before replication; then propose again)
			found := false
			for _, e := range ls.Entries {
				if e.Key == probeKey && e.Index <= ls.Committed {
					found = true
				}
			}
			if found && (stage == 2 || d.NoStage2) {
				if stage == 2 {
					// every read was released by the replica it was issued on, the new member is
					// known to every running member and runs (catch-up is part of `done`)
					ok := true
					servedAt := map[uint64]bool{}
					for low, id := range readWant {
						if d.released[low] == id {
							servedAt[id] = true
						}
					}
					for _, id := range readers {
						if servedAt[id] {
							continue
						}
						ok = false
						// a read that was reported dropped, or got no answer for a while (it was
						// forwarded to a leader that lost its office), is retried by the client
						// under a fresh ctx
						if _, running := c.Nodes[id]; running && (round-probeAt)%8 == 0 && !d.Stopped {
							attempt++
							low := 910000 + id + 1000*attempt
							readWant[low] = id
							d.Do(fmt.Sprintf("R %d %d 1", id, low))
							if !d.Stopped {
								d.Update(id)
							}
						}
					}
					for _, id := range ids {
						if n := c.Nodes[id]; n != nil && !n.Mem.NonVotings[newMember] && !n.Mem.Voters[newMember] {
							ok = false
						}
					}
					if _, running := c.Nodes[newMember]; !running {
						ok = false
					}
					if !ok {
						continue
					}
				}
				return ""
			}
			if found {
				// second stage: a linearizable read on every member that serves reads and a
				// membership change (a fresh non-voting member, which must be started and catch up)
				stage = 2
				probeAt = round
				for _, id := range ids {
					if members[id] == 'W' || d.Stopped {
						continue
					}
					low := 910000 + id
					readWant[low] = id
					readers = append(readers, id)
					d.Do(fmt.Sprintf("R %d %d 1", id, low))
					if !d.Stopped {
						d.Update(id)
					}
				}
				if !d.Stopped {
					cc := MakeCC(uint64(pb.AddNonVoting), newMember)
					d.Do(fmt.Sprintf("CC %d %d %d %d %s", leader.ID, 920000, uint64(pb.AddNonVoting), newMember, vh.Hex(pb.MustMarshal(&cc))))
					if !d.Stopped {
						d.Update(leader.ID)
					}
				}
				continue
			}
			probeKey = 0
		}
	}
	if d.Stopped {
		for _, k := range []string{"is not a nonVoting", "is not witness", "is witness", "converting to", "could not promote"} {
			if strings.Contains(d.PanicMsg, k) {
				d.Inconclusive = true
				return ""
			}
		}
		return "implementation panicked during the fault-free phase: " + d.PanicMsg
	}
	// a replica whose raft role contradicts the membership (a promoted non-voting replica that
	// the simulated operator restarted with its old IsNonVoting / IsWitness configuration: raft
	// launches it in that role whatever the membership says) is an operator error, not a fault
	{
		var best *Node
		for _, id := range d.C.ids() {
			if n := c.Nodes[id]; best == nil || n.Applied > best.Applied {
				best = n
			}
		}
		for _, id := range d.C.ids() {
			if best != nil && !d.Down[id] && best.Mem.Voters[id] {
				if role := Inspect(c.Nodes[id]).Role; (role == 4 || role == 5) && c.Nodes[id].Mem.Voters[id] {
					d.Inconclusive = true
					return ""
				}
			}
			// a replica restarted by the simulator before its bootstrap entries were persisted comes
			// back with an empty log and no membership (a real NodeHost is started again with the
			// initial members and bootstraps again): not a fault of the shard
			if n := c.Nodes[id]; !d.Down[id] && n.Applied == 0 && len(n.Mem.Voters) == 0 && Inspect(n).LastIndex == 0 {
				d.Inconclusive = true
				return ""
			}
		}
	}
	desc := ""
	for _, id := range d.C.ids() {
		st := Inspect(c.Nodes[id])
		desc += fmt.Sprintf(" [n%d %c role=%d term=%d comm=%d last=%d appl=%d]", id, c.Nodes[id].Kind, st.Role, st.Term, st.Committed, st.LastIndex, c.Nodes[id].Applied)
	}
	down := ""
	for k := range d.Down {
		down = fmt.Sprintf(" with replica %d down", k)
	}
	// a witness holds (the metadata of) an entry that no running full replica has: no running
	// replica can both win the witness's vote and serve the entry; nothing moves until the
	// replica that is down returns (tagged so that the known finding matches only this)
	maxVoter, maxWitness := uint64(0), uint64(0)
	{
		var best *Node
		for _, id := range d.C.ids() {
			if n := c.Nodes[id]; best == nil || n.Applied > best.Applied {
				best = n
			}
		}
		for _, id := range d.C.ids() {
			if d.Down[id] || best == nil {
				continue
			}
			rk := logRank(c.Nodes[id])
			if best.Mem.Witnesses[id] {
				if rk > maxWitness {
					maxWitness = rk
				}
			} else if best.Mem.Voters[id] && rk > maxVoter {
				maxVoter = rk
			}
		}
	}
	if maxWitness > maxVoter {
		down = " witness-ahead-no-electable-voter" + down
	}
	// a replica that applied its own removal (and stepped down) holds a longer log than every
	// remaining voter, and a remaining voter has not learned that the removal committed: it
	// still needs the removed replica's vote, which is refused (log not up to date), and the
	// removed replica never campaigns
	{
		var best *Node
		for _, id := range d.C.ids() {
			if n := c.Nodes[id]; best == nil || n.Applied > best.Applied {
				best = n
			}
		}
		if best != nil {
			maxMember, maxRemoved, stale := uint64(0), uint64(0), false
			// a replica the most advanced membership no longer lists in any role was removed (the
			// removed set itself does not survive a restart from the simulator's snapshot text)
			gone := func(k uint64) bool {
				return best.Mem.Removed[k] || (!best.Mem.Voters[k] && !best.Mem.NonVotings[k] && !best.Mem.Witnesses[k])
			}
			for _, id := range d.C.ids() {
				if d.Down[id] {
					continue
				}
				rk := logRank(c.Nodes[id])
				if best.Mem.Voters[id] {
					if rk > maxMember {
						maxMember = rk
					}
					for k := range c.Nodes[id].Mem.Voters {
						if gone(k) {
							stale = true
						}
					}
				} else if gone(id) && rk > maxRemoved {
					maxRemoved = rk
				}
			}
			if stale && maxRemoved > maxMember {
				down = " removed-replica-ahead-of-remaining-voters" + down
			}
		}
	}
	if stage == 2 {
		var missing []string
		servedAt := map[uint64]bool{}
		for low, id := range readWant {
			if d.released[low] == id {
				servedAt[id] = true
			}
		}
		for _, id := range readers {
			if !servedAt[id] {
				missing = append(missing, fmt.Sprintf("no read on replica %d was released (retried every 8 rounds)", id))
			}
		}
		sort.Strings(missing)
		return fmt.Sprintf("a proposal completed, but the reads issued on every member and the addition of non-voting replica %d did not complete with catch-up within the remaining fault-free rounds%s: %s;%s", newMember, down, strings.Join(missing, ", "), desc)
	}
	// without CheckQuorum and PreVote a replica ignores messages of a lower-term leader; a voter in
	// that position times out and campaigns, a witness never does: a witness that learned a higher
	// term from a failed candidate stays behind until something else raises the leader's term
	if !c.CQ && !c.PV {
		leaderTerm, witnessTerm := uint64(0), uint64(0)
		for _, id := range d.C.ids() {
			if d.Down[id] {
				continue
			}
			st := Inspect(c.Nodes[id])
			if st.Role == 3 && st.Term > leaderTerm {
				leaderTerm = st.Term
			}
			if st.Role == 5 && st.Term > witnessTerm {
				witnessTerm = st.Term
			}
		}
		if leaderTerm > 0 && witnessTerm > leaderTerm {
			down = " witness-at-higher-term-ignored" + down
		}
	}
	return fmt.Sprintf("no leader+commit+catch-up within %d fault-free rounds%s:%s", rounds, down, desc)
}

func (c *Cluster) ids() []uint64 {
	var out []uint64
	for id := range c.Nodes {
		out = append(out, id)
	}
	sort.Slice(out, func(i, j int) bool { return out[i] < out[j] })
	return out
}
