open Model
open Util

(* node index -> (shard, replica); must match nodeIDs in harness/cmd/c09/ops.go *)
let node_ids = [| (1, 1); (17, 1); (1, 2); (2, 1) |]
let nid_of (i : int) : n * n = let (s, r) = node_ids.(i) in (n_of_int s, n_of_int r)

exception Bad

let num s = try n_of_string s with _ -> raise Bad
let node s = let i = (try int_of_string s with _ -> raise Bad) in
  if i < 0 || i >= Array.length node_ids then raise Bad else i

let rec take k l = if k = 0 then ([], l) else match l with
  | [] -> raise Bad | x :: t -> let (a, b) = take (k - 1) t in (x :: a, b)

(* u = n term vote commit ssidx ssterm sstag i0 k (term tag len){k} *)
let parse_update (toks : string list) : int * update =
  match toks with
  | n :: t :: v :: c :: si :: st :: sg :: i0 :: k :: rest ->
    let k = (try int_of_string k with _ -> raise Bad) in
    if List.length rest <> 3 * k then raise Bad;
    let i0 = num i0 in
    let rec ents i idx l = if i = 0 then [] else match l with
      | te :: tg :: ln :: r ->
        { e_index = idx; e_term = num te; e_tag = num tg; e_len = num ln }
        :: ents (i - 1) (util_add idx (n_of_int 1)) r
      | _ -> raise Bad in
    let ni = node n in
    (ni, { u_node = nid_of ni; u_st = { st_term = num t; st_vote = num v; st_commit = num c };
           u_ss = { ss_index = num si; ss_term = num st; ss_tag = num sg };
           u_ents = ents k i0 rest })
  | _ -> raise Bad

let split_on (sep : string) (l : string list) : string list list =
  let rec go cur acc = function
    | [] -> List.rev (List.rev cur :: acc)
    | x :: t -> if x = sep then go [] (List.rev cur :: acc) t else go (x :: cur) acc t in
  go [] [] l

type parsed = Mut of string * op * bool (* harness-level extra wf *) | Qry of string * query | BadOp
            | Boot of int * bootrec | GetBoot of int | ListNodes

let parse_op (text : string) : parsed =
  try
    match split_ws text with
    | "SAVE" :: rest ->
      let ups = List.map parse_update (split_on "+" rest) in
      if ups = [] then raise Bad;
      (* one SaveRaftState call addresses one partition of the store *)
      let extra = List.length ups <= 1 || List.for_all (fun (i, _) -> i <= 2) ups in
      Mut ("SAVE", OSave (List.map snd ups), extra)
    | ["SNAP"; n; i; t; g] ->
      Mut ("SNAP", OSnap (nid_of (node n), { ss_index = num i; ss_term = num t; ss_tag = num g }), true)
    | ["IMPORT"; n; i; t; g] ->
      Mut ("IMPORT", OImport (nid_of (node n), { ss_index = num i; ss_term = num t; ss_tag = num g }), true)
    | ["REMTO"; n; i] -> Mut ("REMTO", ORemTo (nid_of (node n), num i), true)
    | ["REMNODE"; n] -> Mut ("REMNODE", ORemNode (nid_of (node n)), true)
    | ["REOPEN"] -> Mut ("REOPEN", OReopen, true)
    | ["Q"; n; lo; hi; mx] -> Qry ("Q", QIter (nid_of (node n), num lo, num hi, num mx))
    | ["RRS"; n; a] -> Qry ("RRS", QState (nid_of (node n), num a))
    | ["GS"; n] -> Qry ("GS", QSnap (nid_of (node n)))
    | ["BOOT"; n; j; t; g] ->
      let j = num j and t = num t in
      if not (j = N0 || j = n_of_int 1) || not (List.mem t [n_of_int 1; n_of_int 2; n_of_int 3]) then raise Bad;
      Boot (node n, { b_join = (j <> N0); b_type = t; b_tag = Some (num g) })
    | ["GB"; n] -> GetBoot (node n)
    | ["LNI"] -> ListNodes
    | _ -> BadOp
  with Bad -> BadOp

let show_ents (es : entry list) : string =
  if es = [] then "[]" else
    "[" ^ String.concat " " (List.map (fun e ->
      Printf.sprintf "%s:%s:%s:%s" (string_of_n e.e_index) (string_of_n e.e_term)
        (string_of_n e.e_tag) (string_of_n e.e_len)) es) ^ "]"

let show_st (s : hstate) =
  Printf.sprintf "st=%s,%s,%s" (string_of_n s.st_term) (string_of_n s.st_vote) (string_of_n s.st_commit)

let show_answer = function
  | AIter (es, sz) -> Printf.sprintf "%s %s" (show_ents es) (string_of_n sz)
  | AState (None, _, _) -> "nostate"
  | AState (Some st, f, c) ->
    if c = N0 then show_st st ^ " count=0"
    else Printf.sprintf "%s first=%s count=%s" (show_st st) (string_of_n f) (string_of_n c)
  | ASnap None -> "none"
  | ASnap (Some ss) -> Printf.sprintf "%s %s %s" (string_of_n ss.ss_index) (string_of_n ss.ss_term) (string_of_n ss.ss_tag)
  | APanic -> "panic"

(* split "a ; b ; c" *)
let split_ops (body : string) : string list =
  let parts = Str.split (Str.regexp_string " ; ") body in
  List.filter (fun s -> String.trim s <> "") parts

let show_raw = function
  | RIter (es, sz) -> Printf.sprintf "%s %s" (show_ents es) (string_of_n sz)
  | RState (st, f, c) -> Printf.sprintf "%s first=%s count=%s" (show_st st) (string_of_n f) (string_of_n c)
  | RNoSavedLog -> "nostate"
  | RSnap None -> "none"
  | RSnap (Some ss) -> Printf.sprintf "%s %s %s" (string_of_n ss.ss_index) (string_of_n ss.ss_term) (string_of_n ss.ss_tag)
  | RPanic -> "panic"

(* the faithful model that is run next to the spec for a store kind (raw
   observations, also outside the contract); None = the model says the code panicked *)
type faithful = { mutable st : pdb option; step : pdb -> op -> pdb option;
                  qry : pdb -> query -> ranswer * pdb }

let faithful_of (kind : string) : faithful option =
  match kind with
  | "plain" -> Some { st = Some pdb_init; step = plain_step; qry = plain_query }
  | "batched" -> Some { st = Some pdb_init; step = batched_step; qry = batched_query }
  | _ -> None

let run_case (id : string) (kind : string) (body : string) =
  let s = ref spec_init in
  let bs = ref [] in
  let fm = faithful_of kind in
  List.iteri (fun k text ->
    match parse_op text with
    | BadOp -> Printf.printf "%s %d ? bad\n" id k
    | Boot (n, b) -> bs := bs_set !bs (nid_of n) b; Printf.printf "%s %d BOOT ok\n" id k
    | GetBoot n ->
      (match bs_get !bs (nid_of n) with
       | None -> Printf.printf "%s %d GB none\n" id k
       | Some b ->
         Printf.printf "%s %d GB %d %s %s\n" id k (if b.b_join then 1 else 0) (string_of_n b.b_type)
           (match b.b_tag with Some g -> string_of_n g | None -> "-1"))
    | ListNodes ->
      let l = List.filter (fun i -> bs_has !bs (nid_of i)) (List.init (Array.length node_ids) (fun i -> i)) in
      Printf.printf "%s %d LNI [%s]\n" id k (String.concat " " (List.map string_of_int l))
    | Qry (name, q) ->
      if spec_wf_query !s q then Printf.printf "%s %d %s %s\n" id k name (show_answer (spec_answer !s q))
      else Printf.printf "%s %d %s unspec\n" id k name;
      (match fm with
       | Some f ->
         (match f.st with
          | Some d -> let (r, d') = f.qry d q in f.st <- Some d';
            Printf.printf "%s %d RAW %s\n" id k (show_raw r)
          | None -> Printf.printf "%s %d RAW model-panicked-earlier\n" id k)
       | None -> ())
    | Mut (name, o, extra) ->
      if extra && spec_wf_op !s o then begin
        s := spec_step !s o;
        bs := boot_step !bs o;
        (match fm with
         | Some f -> (match f.st with Some d -> f.st <- f.step d o | None -> ())
         | None -> ());
        (match fm with
         | Some { st = None; _ } -> Printf.printf "%s %d %s panic\n" id k name
         | _ -> Printf.printf "%s %d %s ok\n" id k name)
      end else Printf.printf "%s %d %s nonwf\n" id k name)
    (split_ops body)

(* ---- tan entry index (white-box) ---- *)
let show_index (es : ientry list) : string =
  if es = [] then "[]" else
    "[" ^ String.concat " " (List.map (fun e ->
      Printf.sprintf "%s-%s@%s:%s+%s" (string_of_n e.ie_start) (string_of_n e.ie_end)
        (string_of_n e.ie_file) (string_of_n e.ie_pos) (string_of_n e.ie_len)) es) ^ "]"

(* a < b on the extracted N, through the decimal rendering *)
let n_lt a b =
  let sa = string_of_n a and sb = string_of_n b in
  compare (String.length sa, sa) (String.length sb, sb) < 0

let run_tanidx (id : string) (body : string) =
  let idx = ref [] in
  let two62 = n_of_string "4611686018427387904" in
  List.iteri (fun k text ->
    try
      match split_ws text with
      | ["U"; s; e; f; p; l] ->
        let s = num s and e = num e in
        (* same admission rule as the harness: start <= end, at most 4096 positions, end < 2^62 *)
        if n_lt e s || not (n_lt e (util_add s (n_of_int 4096))) || not (n_lt e two62)
        then Printf.printf "%s %d ? bad\n" id k
        else begin
          idx := index_update !idx { ie_start = s; ie_end = e; ie_file = num f; ie_pos = num p; ie_len = num l };
          Printf.printf "%s %d U %s\n" id k (show_index !idx)
        end
      | ["IQ"; lo; hi] ->
        (match index_query !idx (num lo) (num hi) with
         | IQPanic -> Printf.printf "%s %d IQ panic\n" id k
         | IQRes (res, ok) -> Printf.printf "%s %d IQ %s %b\n" id k (show_index res) ok)
      | _ -> Printf.printf "%s %d ? bad\n" id k
    with Bad -> Printf.printf "%s %d ? bad\n" id k)
    (split_ops body)

let () =
  iter_lines (fun line ->
    if String.trim line <> "" then begin
      let (head, body) =
        match Str.bounded_split_delim (Str.regexp_string " | ") line 2 with
        | [h; b] -> (h, b)
        | [h] -> (h, "")
        | _ -> (line, "") in
      match split_ws head with
      | [id; "tanidx"; _] -> run_tanidx id body
      | [id; kind; _mlfs] -> run_case id kind body
      | id :: _ -> Printf.printf "%s badcase\n" id
      | [] -> ()
    end)
