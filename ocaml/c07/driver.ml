(* C07 model driver: runs the extracted membership model (Model.handle_ascii ...)
   on the cases of harness/cmd/c07 and prints what the harness prints for the
   real code. Case and observation formats: see harness/cmd/c07/main.go. *)
open Model
open Util

let show_map (m : amap) : string =
  "[" ^ String.concat "," (List.map (fun (k, a) -> string_of_n k ^ ":" ^ hex_of_bytes a) m) ^ "]"
let show_set (l : n list) : string = "[" ^ String.concat "," (List.map string_of_n l) ^ "]"
let show_membership (m0 : membership) : string =
  let m = observe m0 in
  Printf.sprintf "ccid=%s a=%s n=%s w=%s r=%s" (string_of_n m.m_ccid)
    (show_map m.m_addresses) (show_map m.m_nonvotings) (show_map m.m_witnesses) (show_set m.m_removed)

let parse_map (s : string) : amap =
  if s = "-" then [] else
    List.fold_left (fun acc kv ->
        match String.index_opt kv ':' with
        | Some i ->
          let k = n_of_string (String.sub kv 0 i) in
          let v = bytes_of_hex (String.sub kv (i + 1) (String.length kv - i - 1)) in
          ainsert k v acc
        | None -> failwith "bad map") [] (String.split_on_char ',' s)
let parse_set (s : string) : n list =
  if s = "-" then [] else
    List.fold_left (fun acc x -> radd (n_of_string x) acc) [] (String.split_on_char ',' s)

exception Stop

(* restart dimension: see harness/cmd/c07/sm.go *)
let verdict_char = function VApplied -> "A" | VRejected -> "R" | VPanic -> "P"
let rec drop n l = if n <= 0 then l else (match l with [] -> [] | _ :: t -> drop (n - 1) t)
let n_leb a b = Model.N.leb a b
let n_sub a b = Model.N.sub a b

(* node.go dimension: see harness/cmd/c07/node.go. The node adds nothing to the
   rules: the expected verdicts and memberships are those of handle_ascii. *)
let node_hosts = ["host1:9001"; "host2:9002"; "h3.example.com:63000"; "10.0.0.4:7"; "node-e:1"; "Zz:90"; "[::1]:26000"]
let bytes_of_string (s : string) : n list =
  List.init (String.length s) (fun i -> n_of_int (Char.code s.[i]))

let run_node id ordered head body =
  let k = ref 1 in
  let kind = ref "full" in
  List.iter (fun f ->
      if String.length f > 6 && String.sub f 0 6 = "peers=" then
        k := int_of_string (String.sub f 6 (String.length f - 6));
      if String.length f > 5 && String.sub f 0 5 = "kind=" then
        kind := String.sub f 5 (String.length f - 5)) (split_ws head);
  if !kind <> "nonvoting" && !kind <> "witness" then kind := "full";
  let nh = List.length node_hosts in
  if !k < 1 then k := 1;
  if !k > nh then k := nh;
  let first = if !kind = "full" then 1 else 2 in
  if first = 2 && !k > nh - 1 then k := nh - 1;
  let m = ref empty_membership in
  let applied = ref 0 in
  let pending = ref None in
  let queued = ref 0 in
  let self = n_of_int 1 in
  let z_of_int i = z_of_string (string_of_int i) in
  let self_removed n =
    if rmem self !m.m_removed then begin Printf.printf "%s %d SELFREMOVED\n" id n; raise Stop end in
  let step c =
    incr applied;
    match handle_ascii ordered !m c (n_of_int !applied) with
    | Applied m' -> m := m'; "A"
    | Rejected _ -> "R"
    | Panicked t -> "P" ^ string_of_n t in
  let apply n c =
    let v = step c in
    if String.length v > 0 && v.[0] = 'P' then begin Printf.printf "%s %d %s\n" id n v; raise Stop end;
    Printf.printf "%s %d %s %s\n" id n v (show_membership !m);
    self_removed n in
  let drain n report =
    if !queued = 0 then begin
      if report then Printf.printf "%s %d H 0 %s\n" id n (show_membership !m)
    end else begin
      Printf.printf "%s %d H %d %s\n" id n !queued (show_membership !m);
      queued := 0;
      self_removed n
    end in
  let skip_for_kind ty rep =
    if !kind = "full" || n_of_string rep <> self || ty = "1" then false
    else if !kind = "witness" then ty <> "3"
    else if ty = "0" then not (amem self !m.m_nonvotings)
    else ty <> "2" in
  let mkcc ty rep addr ccid init =
    { cc_ccid = n_of_string ccid; cc_type = z_of_string ty; cc_replica = n_of_string rep;
      cc_addr = bytes_of_hex addr; cc_init = init } in
  (try
    List.iteri (fun i h ->
      if i + 1 >= first && i + 1 < first + !k then begin
        let c = { cc_ccid = N0; cc_type = z_of_int 0; cc_replica = n_of_int (i + 1);
                  cc_addr = bytes_of_string h; cc_init = true } in
        ignore (step c)
      end) node_hosts;
    Printf.printf "%s b B %s\n" id (show_membership !m);
    let ops = Str.split (Str.regexp_string " ; ") body in
    List.iteri (fun n op ->
      let f = split_ws op in
      (match f with
       | "qent" :: _ | "badreq" :: _ | [] -> ()
       | "handle" :: _ -> drain n true
       | _ -> drain n false);
      match f with
      | [] -> ()
      | "badreq" :: _ -> ()
      | ["handle"] -> ()
      | (("req" | "pend" | "ent" | "qent") :: ty :: rep :: _) when skip_for_kind ty rep ->
        Printf.printf "%s %d SKIP\n" id n
      | ["qent"; ty; rep; addr; ccid; init] ->
        ignore (step (mkcc ty rep addr ccid (init = "1")));
        incr queued;
        Printf.printf "%s %d QUEUED\n" id n
      | ["req"; ty; rep; addr; ccid] ->
        if !kind = "witness" then Printf.printf "%s %d REFUSED witness\n" id n
        else if !pending <> None then Printf.printf "%s %d REFUSED busy\n" id n
        else apply n (mkcc ty rep addr ccid false)
      | ["pend"; ty; rep; addr; ccid] ->
        if !kind = "witness" then Printf.printf "%s %d REFUSED witness\n" id n
        else if !pending <> None then Printf.printf "%s %d REFUSED busy\n" id n
        else begin pending := Some (mkcc ty rep addr ccid false); Printf.printf "%s %d PENDING\n" id n end
      | ["commit"] ->
        (match !pending with
         | None -> Printf.printf "%s %d NOPENDING\n" id n
         | Some c -> pending := None; apply n c)
      | ["ent"; ty; rep; addr; ccid; init] -> apply n (mkcc ty rep addr ccid (init = "1"))
      | ["restore"; skip; ccid; a; nv; w; r] ->
        m := m_set { m_ccid = n_of_string ccid; m_addresses = parse_map a; m_removed = parse_set r;
                     m_nonvotings = parse_map nv; m_witnesses = parse_map w };
        applied := !applied + 1 + int_of_string skip;
        Printf.printf "%s %d S %s\n" id n (show_membership !m);
        self_removed n
      | _ -> Printf.printf "%s %d BADOP\n" id n) ops
  with Stop -> ())

let run_sm id ordered body =
  let a = ref { r_members = empty_membership; r_applied = N0; r_updates = N0 } in
  let log = ref [] in              (* reversed *)
  let count = ref 0 in
  let last_update = ref N0 in      (* what the disk of B holds: index of the last update *)
  let ss = ref None in             (* snapshot record: membership, index (int), on disk index *)
  let ops = Str.split (Str.regexp_string " ; ") body in
  (try
    List.iteri (fun n op ->
      match split_ws op with
      | [] -> ()
      | "u" :: _ | "c" :: _ as f ->
        incr count;
        let idx = n_of_int !count in
        let e = (match f with
          | ["c"; ty; rep; addr; ccid; init] ->
            EConfigChange { cc_ccid = n_of_string ccid; cc_type = z_of_string ty; cc_replica = n_of_string rep;
                            cc_addr = bytes_of_hex addr; cc_init = (init = "1") }
          | _ -> EUpdate) in
        log := (e, idx) :: !log;
        let (r1, vs) = sm_run_ascii ordered true N0 !a [(e, idx)] in
        a := r1;
        (match e, vs with
         | EUpdate, _ -> last_update := idx; Printf.printf "%s %d U\n" id n
         | _, [VPanic] -> Printf.printf "%s %d P2\n" id n; raise Stop
         | _, [v] -> Printf.printf "%s %d %s %s\n" id n (verdict_char v) (show_membership r1.r_members)
         | _, _ -> Printf.printf "%s %d ?\n" id n)
      | ["snap"] ->
        let k = !count in
        let prev = (match !ss with Some (_, i, _) -> i | None -> 0) in
        if k = 0 || k = prev then Printf.printf "%s %d SNAP -\n" id n
        else begin
          ss := Some (m_get !a.r_members, k, !last_update);
          Printf.printf "%s %d SNAP %d\n" id n k
        end
      | ["restart"; lag] ->
        let lag = n_of_string lag in
        let (ssm, ssi, ssod) = (match !ss with Some x -> x | None -> (empty_membership, 0, N0)) in
        let op0 = n_sub !last_update lag in
        let opn = if n_leb ssod op0 then op0 else ssod in
        last_update := opn;
        let entries = drop ssi (List.rev !log) in
        let r0 = (match !ss with
                  | Some _ -> sm_recover ssm (n_of_int ssi)
                  | None -> { r_members = empty_membership; r_applied = N0; r_updates = N0 }) in
        let (b, vs) = sm_run_ascii ordered true opn r0 entries in
        (* after the replay the disk holds every update again *)
        List.iter (fun (e, i) -> match e with EUpdate -> if n_leb !last_update i then last_update := i | _ -> ()) entries;
        let v = String.concat "" (List.map verdict_char vs) in
        Printf.printf "%s %d RESTART ss=%d open=%s v=%s %s\n" id n ssi (string_of_n opn)
          (if v = "" then "-" else v) (show_membership b.r_members)
      | _ -> Printf.printf "%s %d BADOP\n" id n) ops
  with Stop -> ())

let () =
  iter_lines (fun line ->
    match split_ws line with
    | [] -> ()
    | id :: _ ->
      let rest = String.trim (String.sub line (String.length id) (String.length line - String.length id)) in
      let head, body =
        match String.index_opt rest '|' with
        | Some i -> String.trim (String.sub rest 0 i),
                    String.trim (String.sub rest (i + 1) (String.length rest - i - 1))
        | None -> rest, "" in
      let ordered =
        (try ignore (Str.search_forward (Str.regexp_string "ordered=1") head 0); true with Not_found -> false) in
      if body = "" then Printf.printf "%s 0 EMPTY\n" id
      else if String.length head >= 3 && String.sub head 0 3 = "sm " then run_sm id ordered body
      else if String.length head >= 5 && String.sub head 0 5 = "node " then run_node id ordered head body
      else begin
        let m = ref empty_membership in
        let ops = Str.split (Str.regexp_string " ; ") body in
        (try
          List.iteri (fun n op ->
            match split_ws op with
            | [] -> ()
            | ["snap"] ->
              m := m_set (m_get !m);
              Printf.printf "%s %d S %s\n" id n (show_membership !m)
            | ["set"; ccid; a; nv; w; r] ->
              m := m_set { m_ccid = n_of_string ccid; m_addresses = parse_map a; m_removed = parse_set r;
                           m_nonvotings = parse_map nv; m_witnesses = parse_map w };
              Printf.printf "%s %d S %s\n" id n (show_membership !m)
            | ["cc"; ty; rep; addr; ccid; init; index] ->
              let c = { cc_ccid = n_of_string ccid; cc_type = z_of_string ty; cc_replica = n_of_string rep;
                        cc_addr = bytes_of_hex addr; cc_init = (init = "1") } in
              (match handle_ascii ordered !m c (n_of_string index) with
               | Panicked t -> Printf.printf "%s %d P%s\n" id n (string_of_n t); raise Stop
               | Applied m' -> m := m';
                 Printf.printf "%s %d A %s\n" id n (show_membership !m)
               | Rejected _ ->
                 Printf.printf "%s %d R %s\n" id n (show_membership !m))
            | _ -> Printf.printf "%s %d BADOP\n" id n) ops
        with Stop -> ())
      end)
