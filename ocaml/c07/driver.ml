(* C07 model driver: runs the extracted membership model (Model.handle_ascii ...)
   on the cases of harness/cmd/c07 and prints what the harness prints for the
   real code. Case and observation formats: see harness/cmd/c07/main.go. *)
open Model
open Util

let show_map (m : amap) : string =
  "[" ^ String.concat "," (List.map (fun (k, a) -> string_of_n k ^ ":" ^ hex_of_bytes a) m) ^ "]"
let show_set (l : n list) : string = "[" ^ String.concat "," (List.map string_of_n l) ^ "]"
let show_membership (m0 : membership) : string =
  let m = observe m0 in
  Printf.sprintf "ccid=%s a=%s n=%s w=%s r=%s" (string_of_n m.m_ccid)
    (show_map m.m_addresses) (show_map m.m_nonvotings) (show_map m.m_witnesses) (show_set m.m_removed)

let parse_map (s : string) : amap =
  if s = "-" then [] else
    List.fold_left (fun acc kv ->
        match String.index_opt kv ':' with
        | Some i ->
          let k = n_of_string (String.sub kv 0 i) in
          let v = bytes_of_hex (String.sub kv (i + 1) (String.length kv - i - 1)) in
          ainsert k v acc
        | None -> failwith "bad map") [] (String.split_on_char ',' s)
let parse_set (s : string) : n list =
  if s = "-" then [] else
    List.fold_left (fun acc x -> radd (n_of_string x) acc) [] (String.split_on_char ',' s)

exception Stop

let () =
  iter_lines (fun line ->
    match split_ws line with
    | [] -> ()
    | id :: _ ->
      let rest = String.trim (String.sub line (String.length id) (String.length line - String.length id)) in
      let head, body =
        match String.index_opt rest '|' with
        | Some i -> String.trim (String.sub rest 0 i),
                    String.trim (String.sub rest (i + 1) (String.length rest - i - 1))
        | None -> rest, "" in
      let ordered =
        (try ignore (Str.search_forward (Str.regexp_string "ordered=1") head 0); true with Not_found -> false) in
      if body = "" then Printf.printf "%s 0 EMPTY\n" id
      else begin
        let m = ref empty_membership in
        let ops = Str.split (Str.regexp_string " ; ") body in
        (try
          List.iteri (fun n op ->
            match split_ws op with
            | [] -> ()
            | ["snap"] ->
              m := m_set (m_get !m);
              Printf.printf "%s %d S %s\n" id n (show_membership !m)
            | ["set"; ccid; a; nv; w; r] ->
              m := m_set { m_ccid = n_of_string ccid; m_addresses = parse_map a; m_removed = parse_set r;
                           m_nonvotings = parse_map nv; m_witnesses = parse_map w };
              Printf.printf "%s %d S %s\n" id n (show_membership !m)
            | ["cc"; ty; rep; addr; ccid; init; index] ->
              let c = { cc_ccid = n_of_string ccid; cc_type = z_of_string ty; cc_replica = n_of_string rep;
                        cc_addr = bytes_of_hex addr; cc_init = (init = "1") } in
              (match handle_ascii ordered !m c (n_of_string index) with
               | Panicked t -> Printf.printf "%s %d P%s\n" id n (string_of_n t); raise Stop
               | Applied m' -> m := m';
                 Printf.printf "%s %d A %s\n" id n (show_membership !m)
               | Rejected _ ->
                 Printf.printf "%s %d R %s\n" id n (show_membership !m))
            | _ -> Printf.printf "%s %d BADOP\n" id n) ops
        with Stop -> ())
      end)
