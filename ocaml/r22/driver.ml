(* R22 model driver: runs the extracted Model/NodeGlue.v on the cases of harness/cmd/r22.
   case: <id> prefixonly pv= cq= q= ec= sc= sm= n= rl= ertt= seed= | op ; op ; ...   (see harness/cmd/r22/main.go)
   obs:  <id> <i>:<OP> ...   and   <id> end <class> same=<0|1> clean=1
   The model reads q (Quiesce), ertt (ElectionRTT), rl (MaxInMemLogSize) and n (initial voters) of the
   header; the other options must not change the outcome classes. *)
open Model
open Util

let field hf key default =
  let r = ref default in
  List.iter (fun f ->
    match String.index_opt f '=' with
    | Some i when String.sub f 0 i = key -> r := String.sub f (i + 1) (String.length f - i - 1)
    | _ -> ()) hf;
  !r

let ns = n_of_string
let b01 b = if b then "1" else "0"
let cls = function OC -> "C" | OF -> "F" | OT -> "T"
let rec rep s n = if n <= 0 then "" else s ^ rep s (n - 1)

let parse_op (f : string list) : sop =
  match f with
  | ["P"; h; k; _] -> SP (ns h, nat_of_int (int_of_string k))
  | ["R"; h] -> SR (ns h)
  | ["ANV"; v; w] -> SAdd (ns v, ns w, k_nonvoting)
  | ["AWIT"; v; w] -> SAdd (ns v, ns w, k_witness)
  | ["ADD"; v; w] -> SAdd (ns v, ns w, k_voter)
  | ["DEL"; v; w] -> SDel (ns v, ns w)
  | ["SNAP"; h] -> SSnap (ns h)
  | ["XFER"; h] -> SXfer (ns h)
  | ["XFERQ"; h] -> SXferQ (ns h)
  | ["BG"; h; k] -> SBg (ns h, ns k)
  | ["PART"; h] -> SPart (ns h)
  | ["HEAL"] -> SHeal
  | ["LOSS"; _] -> SLoss
  | ["STOP"; h] -> SStop (ns h)
  | ["START"; h] -> SStart (ns h)
  | ["WAIT"; _] -> SWait
  | ["GATEON"; h] -> SGate (ns h, true)
  | ["GATEOFF"; h] -> SGate (ns h, false)
  | ["BURST"; h; k; sz] -> SBurst (ns h, nat_of_int (int_of_string k), ns sz)
  | ["DRAIN"] -> SDrain
  | ["QUIESCE"] -> SQuiesce
  | ["AWAKE"] -> SAwake
  | ["FAIR"] -> SFair
  | ["LAG"; h; _] -> SLag (ns h)
  | _ -> failwith ("bad op " ^ String.concat " " f)

let () =
  iter_lines (fun line ->
    let head, body =
      match Str.bounded_split (Str.regexp_string " | ") line 2 with
      | [h; b] -> h, b
      | [h] -> h, ""
      | _ -> "", "" in
    let hf = split_ws head in
    if hf <> [] then begin
      let id = List.hd hf in
      let s = ref (shard_init (field hf "q" "0" = "1") (ns (field hf "ertt" "10")) (ns (field hf "rl" "0"))
                     (nat_of_int (int_of_string (field hf "n" "3")))) in
      let ops = List.filter (fun f -> f <> []) (List.map split_ws (Str.split (Str.regexp_string " ; ") body)) in
      List.iteri (fun i f ->
        let name = List.hd f in
        let (s1, l) = shard_step !s (parse_op f) in
        s := s1;
        let text = match l with
          | LReq (q, c, n) -> Printf.sprintf "%s q=%s %s%s" name (b01 q) (rep "C" (int_of_n n)) (if c = OC then "" else cls c)
          | LSnap up -> "SNAP " ^ (if up then "ok" else "down")
          | LXfer ok -> "XFER " ^ b01 ok
          | LBg n -> Printf.sprintf "BG %d/%d" (int_of_n n) (int_of_n n)
          | LBurst (busy, lim) -> Printf.sprintf "BURST busy=%s lim=%s" (b01 busy) (b01 lim)
          | LDrain lim -> "DRAIN lim=" ^ b01 lim
          | LQuiesce q -> "QUIESCE q=" ^ b01 q
          | LAwake w -> "AWAKE woke=" ^ b01 w
          | LFair c -> "FAIR " ^ cls c
          | LLag b -> "LAG behind=" ^ b01 b
          | LPlain -> name in
        Printf.printf "%s %d:%s\n" id i text) ops;
      let (c, same) = shard_end !s in
      Printf.printf "%s end %s same=%s clean=1\n" id (cls c) (b01 same)
    end)
