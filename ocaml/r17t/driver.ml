(* R17T model driver: the extracted Model/SendQueue.v on the cases of harness/cmd/r17t.
   case: <id> | S <n> ; W ; I ; F ; S <n> ...
     S n  n sends (all accepted: the queue is far from full) followed by a wait until drained
     I    idle period longer than the idle timeout: the worker ends gracefully
     F    the connection fails at the next write (armed), then one send + wait
   obs after every op: ok=<0|1> (everything asked for got through) unreachable=<0|1> orphaned=<0|1>        *)
open Model
open Util

let unreg = send_worker_always_unregisters

let rec drain s = match s.sq_queue with [] -> s | _ -> if s.sq_worker then drain (sq_step unreg s SDeliver) else s

let () =
  iter_lines (fun line ->
    match Str.bounded_split (Str.regexp_string " | ") line 2 with
    | [head; body] ->
      let id = List.hd (split_ws head) in
      let s = ref sq_init and next = ref 0 in
      List.iteri (fun i o ->
        (match split_ws o with
         | ["S"; n] ->
           for _ = 1 to int_of_string n do
             incr next; s := sq_step unreg !s (SSend (n_of_int !next))
           done;
           s := drain !s
         | ["I"] -> s := drain !s; s := sq_step unreg !s SIdle
         | ["F"] ->
           incr next; s := sq_step unreg !s (SSend (n_of_int !next));
           s := sq_step unreg !s SFail
         | _ -> failwith "bad op");
        Printf.printf "%s %d:%s ok=%d unreachable=%d orphaned=%d\n" id i (List.hd (split_ws o))
          (if !s.sq_queue = [] then 1 else 0)
          (if int_of_n !s.sq_unreachable > 0 then 1 else 0)
          (if orphaned !s then 1 else 0)) (Str.split (Str.regexp_string " ; ") body)
    | _ -> ())
