(* C16 model driver: runs the extracted Coq model of the snapshot directory
   life cycle on the cases of harness/cmd/c16 and prints the observations the
   harness prints for the real code. *)
open Model
open Util

let sn = string_of_n

let dstr = function
  | DFinal i -> "final:" ^ sn i
  | DGen i -> "gen:" ^ sn i
  | DRecv i -> "recv:" ^ sn i
  | DOther k -> "other:" ^ sn k

let fstr = function
  | FSnap i -> "snap:" ^ sn i
  | FFlag -> "flag"
  | FMeta -> "meta"
  | FShrunk i -> "shrunk:" ^ sn i
  | FOther k -> "other:" ^ sn k

(* listing order used by the harness' recording file system: by index, then
   final < gen < recv, everything else last *)
(* numbers up to 2^64-1: compared as zero padded decimal strings *)
let pad (x : n) : string = let s = sn x in String.make (24 - String.length s) '0' ^ s
let dkey = function
  | DFinal i -> (0, pad i, 0)
  | DGen i -> (0, pad i, 1)
  | DRecv i -> (0, pad i, 2)
  | DOther k -> (9, pad k, 0)
let fkey = function
  | FSnap i -> (0, pad i, 0)
  | FShrunk i -> (0, pad i, 1)
  | FFlag -> (8, pad (n_of_int 2), 0)
  | FMeta -> (8, pad (n_of_int 3), 0)
  | FOther k -> (9, pad k, 0)

let ord (l : dname list) : dname list =
  List.stable_sort (fun a b -> compare (dkey a) (dkey b)) l

let opstr = function
  | OFs (FMkdir d) -> "mkdir " ^ dstr d
  | OFs FSyncRoot -> "syncroot"
  | OFs (FCreate (d, f)) -> "create " ^ dstr d ^ " " ^ fstr f
  | OFs (FWrite (d, f, _)) -> "write " ^ dstr d ^ " " ^ fstr f
  | OFs (FWriteAt (d, f, _, _)) -> "write " ^ dstr d ^ " " ^ fstr f
  | OFs (FSyncFile (d, f)) -> "syncfile " ^ dstr d ^ " " ^ fstr f
  | OFs (FSyncDir d) -> "syncdir " ^ dstr d
  | OFs (FRenameDir (a, b)) -> "renamedir " ^ dstr a ^ " " ^ dstr b
  | OFs (FRenameFile (d, a, b)) -> "renamefile " ^ dstr d ^ " " ^ fstr a ^ " " ^ fstr b
  | OFs (FRemove (d, f)) -> "remove " ^ dstr d ^ " " ^ fstr f
  | OFs (FRemoveAll d) -> "removeall " ^ dstr d
  | ORecord i -> "record " ^ sn i
  | OCrash -> "crash"

let dopstr = function
  | DBase o -> opstr o
  | DSmRecover i -> "smrecover " ^ sn i
  | DSmSync -> "smsync"

let is_write = function DBase (OFs (FWrite _)) | DBase (OFs (FWriteAt _)) -> true | _ -> false

(* canonical operations: a run of writes to one file is one operation.
   returns the canonical strings and, for a budget of [room] canonical
   operations, the raw prefix that stays within it *)
let canon (tr : dop list) (room : int) : string list * dop list * bool =
  let rec go tr last cnt acc raw =
    match tr with
    | [] -> (List.rev acc, List.rev raw, false)
    | o :: r ->
      let s = dopstr o in
      if is_write o && last = Some s then go r last cnt acc (o :: raw)
      else if cnt >= room then (List.rev acc, List.rev raw, true)
      else go r (if is_write o then Some s else None) (cnt + 1) (s :: acc) (o :: raw) in
  go tr None 0 [] []

let ops_string l = if l = [] then "-" else String.concat " ; " l

(* a metadata-only snapshot file is byte-identical to a shrunk one *)
let snap_state d = if valid_snap d then (if is_partial d then "shrunk" else "full") else "bad"
let flag_state d = match flag_index d with Some i -> sn i | None -> "bad"

let tree_string (s : state) : string =
  let t = vtree s.st_fs in
  if t = [] then "-" else
  let t = List.stable_sort (fun (a, _) (b, _) -> compare (dkey a) (dkey b)) t in
  String.concat " " (List.map (fun (d, fl) ->
    let fl = List.stable_sort (fun (a, _) (b, _) -> compare (fkey a) (fkey b)) fl in
    dstr d ^ "[" ^ String.concat "," (List.map (fun (f, dt) ->
      fstr f ^ "=" ^ (match f with
        | FSnap _ | FShrunk _ -> snap_state dt
        | FFlag | FMeta -> flag_state dt
        | FOther _ -> snap_state dt)) fl) ^ "]") t)

let oc_string = function
  | Done -> "ok" | Failed -> "err" | OutOfDate -> "ood" | Skipped -> "skip" | Panicked -> "panic"

type pcmd = Base of cmd | Recover of n | Entries of n | DSave | Export of n

let parse_cmd (s : string) : pcmd * string =
  match split_ws s with
  | ["RECOVER"; i] -> (Recover (n_of_string i), "RECOVER " ^ i)
  | ["ENTRIES"; k] -> (Entries (n_of_string k), "ENTRIES " ^ k)
  | ["DSAVE"] -> (DSave, "DSAVE")
  | ["EXPORT"; i; n] -> (Export (n_of_string i), "EXPORT " ^ i ^ " " ^ n)
  | l -> let (c, str) = (match l with
  | ["SAVE"; i; n] -> (CSave (n_of_string i, n_of_string n), "SAVE " ^ i ^ " " ^ n)
  | ["COMMIT"; i] -> (CCommit (n_of_string i), "COMMIT " ^ i)
  | ["RECV"; i; n] -> (CRecv (n_of_string i, n_of_string n), "RECV " ^ i ^ " " ^ n)
  | ["RECVX"; i; n; m] -> (CRecvX (n_of_string i, n_of_string n, n_of_string m), "RECVX " ^ i ^ " " ^ n ^ " " ^ m)
  | ["APPLY"; i] -> (CApply (n_of_string i), "APPLY " ^ i)
  | ["RECORD"; i] -> (CRecord (n_of_string i), "RECORD " ^ i)
  | ["SHRINK"; i] -> (CShrink (n_of_string i), "SHRINK " ^ i)
  | ["COMPACT"; i] -> (CCompact (n_of_string i), "COMPACT " ^ i)
  | ["RESTART"] -> (CRestart, "RESTART")
  | ["CRASH"] -> (CCrash, "CRASH")
  | _ -> failwith ("bad command: " ^ s)) in (Base c, str)

let split_on (sep : string) (s : string) : string list =
  Str.split_delim (Str.regexp_string sep) s

let () =
  iter_lines (fun line ->
    let line = String.trim line in
    if line <> "" && Filename.check_suffix line "| E2E-STARTUP" then
      (* NodeHost.startShard runs processOrphans (startup_cleans, Gen.GenC16) *)
      Printf.printf "%s startup %s\n" (List.hd (split_ws line)) (if startup_cleans then "clean" else "left")
    else if line <> "" then begin
      let hd, body =
        match Str.bounded_split_delim (Str.regexp_string " | ") line 2 with
        | [h; b] -> (h, b)
        | _ -> (if Filename.check_suffix line " |" then String.sub line 0 (String.length line - 2) else line), "" in
      let hf = split_ws hd in
      let id = List.hd hf in
      let cut = List.fold_left (fun acc kv ->
        if String.length kv > 4 && String.sub kv 0 4 = "cut=" then int_of_string (String.sub kv 4 (String.length kv - 4)) else acc)
        (-1) (List.tl hf) in
      let reg = List.mem "kind=reg" hf in
      let disk = List.mem "kind=disk" hf || reg in
      let restart_fn d = if reg then init_recover_reg d else init_recover d in
      let cmds = List.filter (fun x -> String.trim x <> "") (split_on " ; " body) in
      let s = ref { ds_st = init; ds_smv = N0; ds_smd = N0 } in
      let lr = ref N0 in
      (* the applied index of the rsm: 1 after the bootstrap membership entry *)
      let ap = ref (if disk then n_of_int 1 else N0) in
      let dead = ref false in
      let nlt a b = compare (pad a) (pad b) < 0 in
      let total = ref 0 in
      let stop = ref false in
      let lift tr = List.map (fun o -> DBase o) tr in
      (* one command: final state, executed operations, outcome *)
      let exec_cmd (c : pcmd) : dstate * dop list * outcome =
        match c with
        | Export i ->
          (* an exported snapshot lives outside the snapshot directory and is not recorded *)
          (!s, [], (if i = N0 then Skipped else Done))
        | Recover i when reg ->
          (* node.processSnapshot (release of the LogReader's snapshot) ; node.recover = Load *)
          let st = !s.ds_st in
          let fullfile = (match recorded_file !s with Some d -> full_snap d | None -> false) in
          if not (nlt !ap i) || st.st_rec <> i || i = N0 || not fullfile then (!s, [], Skipped) else begin
            let tr1 = if !lr <> N0 && nlt !lr i then (let ((_, tr), _) = do_cmd ord st (CCompact !lr) in tr) else [] in
            let ops = lift tr1 @ [DSmRecover i] in
            lr := i; ap := i;
            (drun !s ops, ops, Done)
          end
        | DSave when reg ->
          (* node.doSave: StateMachine.Save ; Commit ; LogReader.CreateSnapshot (release = Compact) *)
          let st = !s.ds_st in
          if !ap = N0 || not (nlt st.st_rec !ap) then (!s, [], Skipped) else begin
            let ((st1, tr1), oc1) = do_cmd ord st (CSave (!ap, n_of_int 1)) in
            let ((st2, tr2), oc2) = if oc1 = Done then do_cmd ord st1 (CCommit !ap) else ((st1, []), Failed) in
            let tr3 = if oc2 = Done && !lr <> N0 && nlt !lr !ap
                      then (let ((_, tr), _) = do_cmd ord st2 (CCompact !lr) in tr) else [] in
            if oc2 = Done then lr := !ap;
            let ops = lift (tr1 @ tr2 @ tr3) in
            (drun !s ops, ops, oc2)
          end
        | Recover i ->
          if not disk || not (nlt !ap i) then (!s, [], Skipped) else
          let ((s', tr), oc) = cmd_install !s !lr i in
          if oc <> Skipped then begin lr := i; ap := i end;
          (s', tr, oc)
        | Entries k ->
          if disk && nlt !ap k then begin ap := k; (cmd_entries !s k, [], Done) end
          else (!s, [], Skipped)
        | DSave ->
          if not disk then (!s, [], Skipped) else
          let ((s', tr), oc) = cmd_save_ondisk !s !lr !ap in
          if oc = Done then lr := !ap;
          (s', tr, oc)
        | Base c ->
          let ((_, tr), oc) = do_cmd ord !s.ds_st c in
          let s1 = drun !s (lift tr) in
          if disk && c = CCrash && oc = Done then begin
            lr := s1.ds_st.st_rec;
            let ((s2, tr2), oc2) = restart_fn s1 in
            if oc2 <> Done then dead := true;
            ap := (if s1.ds_st.st_rec = N0 then n_of_int 1 else s1.ds_st.st_rec);
            (s2, lift tr @ tr2, oc2)
          end else (s1, lift tr, oc) in
      List.iteri (fun n cs ->
        if not !stop then begin
          let (c, cstr) = parse_cmd (String.trim cs) in
          let (s', tr, oc) = exec_cmd c in
          let room = if cut < 0 then max_int else cut - !total in
          let (cs, raw, over) = canon tr room in
          if over then begin
            s := drun !s raw;
            Printf.printf "%s cmd %d %s -> cut : %s\n" id n cstr (ops_string cs);
            stop := true
          end else begin
            s := s';
            total := !total + List.length cs;
            Printf.printf "%s cmd %d %s -> %s : %s\n" id n cstr (oc_string oc) (ops_string cs);
            if (cut >= 0 && !total >= cut) || !dead then stop := true
          end
        end) cmds;
      if cut < 0 then
        Printf.printf "%s tree %s rec=%s\n" id (tree_string !s.ds_st) (sn !s.ds_st.st_rec);
      let c = drun !s [DBase OCrash] in
      if disk then
        Printf.printf "%s crashed %s rec=%s sm=%s\n" id (tree_string c.ds_st) (sn c.ds_st.st_rec) (sn c.ds_smd)
      else
        Printf.printf "%s crashed %s rec=%s\n" id (tree_string c.ds_st) (sn c.ds_st.st_rec);
      let ((f, tr), ok) = process_orphans ord c.ds_st in
      let (cs, _, _) = canon (lift tr) max_int in
      Printf.printf "%s po -> %s : %s\n" id (if ok then "ok" else "err") (ops_string cs);
      let f =
        if disk && ok then begin
          let ((r, tr2), oc2) = restart_fn (drun c (lift tr)) in
          let (cs2, _, _) = canon tr2 max_int in
          Printf.printf "%s restart -> %s : %s\n" id (oc_string oc2) (ops_string cs2);
          r.ds_st
        end else f in
      let ext_ok = List.for_all (fun o ->
        match o.d_vn with Some (DFinal _) -> ext_fullb o.d_files | _ -> true) f.st_fs in
      Printf.printf "%s final %s rec=%s clean=%b\n" id (tree_string f) (sn f.st_rec) (ok && cleanb f && ext_ok)
    end)
