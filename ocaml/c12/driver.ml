(* C12 model driver: runs the extracted Model/Requests.v on the cases of
   harness/cmd/c12 and prints what the harness prints for the real tables.
   Case and observation format: see harness/cmd/c12/main.go. *)
open Model
open Util

let ns = n_of_string
let si = string_of_n
let b01 s = (s = "1")

let show_sizes (s : st) : string =
  (* harness order: pending, queue, reads queued, batches, batch requests, cc, ss, lq, taken *)
  String.concat "," (List.map si (sizes s))

let show_drain (s : st) (i : n) : string =
  let (cm, cp) = drain_view s i in
  String.concat "," (List.map (fun r -> si r.rc) cm) ^ "/" ^
  String.concat "," (List.map (fun r -> si r.rc ^ "." ^ si r.rv ^ "." ^ si r.rw) cp)

exception Panic of n

let header (head : string) : st =
  let ps = ref (n_of_int 1) and nc = ref false and pq = ref (n_of_int 8) and rq = ref (n_of_int 8) in
  List.iter (fun f ->
      match String.index_opt f '=' with
      | Some i ->
        let k = String.sub f 0 i and v = String.sub f (i + 1) (String.length f - i - 1) in
        (match k with
         | "ps" -> ps := ns v | "nc" -> nc := (v = "1") | "pq" -> pq := ns v | "rq" -> rq := ns v
         | _ -> ())
      | None -> ()) (split_ws head);
  init !ps !nc !pq !rq

(* one model step; a panic of the code is an error state *)
let st1 (s : st) (o : op) : st =
  let s' = step s o in
  if errcode s' <> N0 then raise (Panic (errcode s')) else s'

(* node.gc() runs the three gcs once per node tick: driver-side image of node.currentTick / node.gcTick *)
let node_ticks = ref 0
let node_gc_tick = ref 0
let taken_len (s : st) : int = match List.rev (sizes s) with x :: _ -> int_of_n x | [] -> 0
let rec upto (k : int) (n : int) : int list = if k >= n then [] else k :: upto (k + 1) n
let propose (s : st) tag cid sid key to_ pick =
  if to_ = N0 then (s, tag ^ "-:3")
  else begin
    let rid = nreqs s in
    let s1 = st1 s (ProposeA (cid, sid, key, to_, pick)) in
    let out = proposeB_outcome s1 in
    let s2 = st1 s1 (ProposeB rid) in
    (s2, Printf.sprintf "%s%s:%s" tag (si rid) (si out))
  end

let do_op (s : st) (f : string list) : st * string =
  match f with
  | ["P"; cid; sid; key; to_; pick] ->
    if ns to_ = N0 then (s, "P-:3")
    else begin
      let rid = nreqs s in
      let s1 = st1 s (ProposeA (ns cid, ns sid, ns key, ns to_, ns pick)) in
      let out = proposeB_outcome s1 in
      let s2 = st1 s1 (ProposeB rid) in
      (s2, Printf.sprintf "P%s:%s" (si rid) (si out))
    end
  | ["PS"; cid; reg; key; to_; pick] ->
    let sid = if reg = "1" then ns "18446744073709551614" else ns "18446744073709551615" in
    propose s "PS" (ns cid) sid (ns key) (ns to_) (ns pick)
  | ["PB"; _; _; _; _] -> (s, "PB-:9")
  | ["R"; to_; pick] ->
    if ns to_ = N0 then (s, "R-:3")
    else begin
      let rid = nreqs s in
      let out = read_outcome s (ns to_) in
      (st1 s (Read (ns to_, ns pick)), Printf.sprintf "R%s:%s" (si rid) (si out))
    end
  | ["C"; key; to_] ->
    let out = cc_outcome s (ns to_) in
    let rid = nreqs s in
    let s1 = st1 s (ReqCC (ns key, ns to_)) in
    (s1, if out = N0 then Printf.sprintf "C%s:0" (si rid) else "C-:" ^ si out)
  | ["S"; key; to_] ->
    let out = ss_outcome s (ns to_) in
    let rid = nreqs s in
    let s1 = st1 s (ReqSS (ns key, ns to_)) in
    (s1, if out = N0 then Printf.sprintf "S%s:0" (si rid) else "S-:" ^ si out)
  | ["Q"] ->
    let out = lq_outcome s in
    let rid = nreqs s in
    let s1 = st1 s ReqLQ in
    (s1, if out = N0 then Printf.sprintf "Q%s:0" (si rid) else "Q-:" ^ si out)
  | ["D"; i] ->
    let i' = ns i in
    if req_status s i' = n_of_int 1 && int_of_n i' < int_of_n (nreqs s)
    then (st1 s (Drain i'), Printf.sprintf "D%s:%s" i (show_drain s i'))
    else (s, Printf.sprintf "D%s:x" i)
  | ["L"; i] ->
    let i' = ns i in
    let before = req_released s i' in
    let s1 = st1 s (Release i') in
    let eff = (not before) && req_released s1 i' && int_of_n i' < int_of_n (nreqs s) in
    (s1, Printf.sprintf "L%s:%d" i (if eff then 1 else 0))
  | ["TP"; b] -> (st1 s (TakeProps (b01 b)), "TP")
  | ["TR"] -> (st1 s TakeReads, "TR")
  | ["AR"; lo; hi] -> (st1 s (AddReads (ns lo, ns hi)), "AR")
  | ["RY"; lo; hi; idx] -> (st1 s (AddReady (ns lo, ns hi, ns idx)), "RY")
  | ["RA"; a] -> (st1 s (ReadsApplied (ns a)), "RA")
  | ["RD"; lo; hi] -> (st1 s (ReadsDropped (ns lo, ns hi)), "RD")
  | ["T"; t] -> incr node_ticks; (st1 s (Tick (ns t)), "T")
  | ["NG"] ->
    if !node_gc_tick = !node_ticks then (s, "NG")
    else begin
      node_gc_tick := !node_ticks;
      let s1 = List.fold_left (fun s k -> st1 s (GcP (n_of_int k))) s (upto 0 (int_of_n (shards_of s))) in
      (st1 (st1 s1 GcC) GcS, "NG")
    end
  | ["HR"; lo] ->
    if taken_len s > 0 then (s, "HR")
    else begin
      let hi = add64 (clock_of s) (n_of_int 30) in
      (st1 (st1 s TakeReads) (AddReads (ns lo, hi)), "HR")
    end
  | ["PR"; lo; hi; idx; a] | ["PR"; lo; hi; idx; a; _; _] ->
    (* only ud.LastApplied counts; committed entries of the update are not applied yet *)
    (st1 (st1 s (AddReady (ns lo, ns hi, ns idx))) (ReadsApplied (ns a)), "PR")
  | ["AU"; cid; sid; key; v; rej; idx; ign] ->
    let s1 = st1 s (ReadsApplied (ns idx)) in
    if ign = "1" then (s1, "AU")
    else (st1 (st1 s1 (AppliedTake (ns cid, ns sid, ns key, ns v, b01 rej))) AppliedGc, "AU")
  | ["XN"] ->
    let s1 = st1 s CloseR in
    let s2 = List.fold_left (fun s k -> st1 s (CloseP (n_of_int k))) s1 (upto 0 (int_of_n (shards_of s))) in
    (st1 (st1 (st1 s2 CloseC) CloseS) CloseL, "XN")
  | ["QS"; _] -> (s, "QS")   (* quiesce is invisible to the request tables: node.tick ticks them on every path *)
  | ["GP"; k] -> (st1 s (GcP (ns k)), "GP")
  | ["GC"] -> (st1 s GcC, "GC")
  | ["GS"] -> (st1 s GcS, "GS")
  | ["DP"; cid; sid; key] -> (st1 s (DropP (ns cid, ns sid, ns key)), "DP")
  | ["DC"; key] -> (st1 s (DropC (ns key)), "DC")
  | ["TC"] -> (st1 s TakeCC, "TC")
  | ["TS"] -> (st1 s TakeSS, "TS")
  | ["QR"; oor; a; b] -> (st1 s (LQReturned (b01 oor, ns a, ns b)), "QR")
  | ["AP"; cid; sid; key; v; rej] ->
    let s1 = st1 s (AppliedTake (ns cid, ns sid, ns key, ns v, b01 rej)) in
    (st1 s1 AppliedGc, "AP")
  | ["CA"; key; rej] -> (st1 s (CCApply (ns key, b01 rej)), "CA")
  | ["SA"; key; ign; abo; idx] -> (st1 s (SSApply (ns key, b01 ign, b01 abo, ns idx)), "SA")
  | ["CP"; cid; sid; key] -> (st1 s (CommitP (ns cid, ns sid, ns key)), "CP")
  | ["CB"; cid; sid; key] -> (st1 s (CommitBorrow (ns cid, ns sid, ns key)), "CB")
  | ["CF"] -> (st1 s CommitFire, "CF")
  | ["CC"; key] -> (st1 s (CommitC (ns key)), "CC")
  | ["XR"] -> (st1 s CloseR, "XR")
  | ["XP"; k] -> (st1 s (CloseP (ns k)), "XP")
  | ["XQ"; cid; sid; key; to_; pick] ->
    (* propose held at its first shard-lock section, then alone to its end, then the shard is
       closed: ProposeA ; ProposeB ; CloseP *)
    if ns to_ = N0 then (st1 s (CloseP (ns key)), "XQ-:3")
    else begin
      let rid = nreqs s in
      let s1 = st1 s (ProposeA (ns cid, ns sid, ns key, ns to_, ns pick)) in
      let out = proposeB_outcome s1 in
      let s2 = st1 s1 (ProposeB rid) in
      (st1 s2 (CloseP (ns key)), Printf.sprintf "XQ%s:%s" (si rid) (si out))
    end
  | ["XC"] -> (st1 s CloseC, "XC")
  | ["XS"] -> (st1 s CloseS, "XS")
  | ["XL"] -> (st1 s CloseL, "XL")
  | _ -> failwith ("unknown op: " ^ String.concat " " f)

let () =
  iter_lines (fun line ->
    match split_ws line with
    | [] -> ()
    | id :: "LIVE" :: _ -> Printf.printf "%s LIVE ok\n" id   (* live NodeHost case: monitor only *)
    | id :: _ ->
      let rest = String.trim (String.sub line (String.length id) (String.length line - String.length id)) in
      let head, body =
        match String.index_opt rest '|' with
        | Some i -> String.trim (String.sub rest 0 i),
                    String.trim (String.sub rest (i + 1) (String.length rest - i - 1))
        | None -> rest, "" in
      node_ticks := 0; node_gc_tick := 0;
      let s = ref (header head) in
      let out = Buffer.create 256 in
      let ops = if body = "" then [] else Str.split (Str.regexp_string " ; ") body in
      let panicked = ref false in
      (try
         List.iter (fun op ->
             match split_ws op with
             | [] -> ()
             | f ->
               let (s1, tok) = do_op !s f in
               s := s1;
               Buffer.add_string out (" " ^ tok ^ "=" ^ show_sizes !s)) ops
       with Panic c ->
         panicked := true;
         Buffer.add_string out (" X" ^ si c));
      if not !panicked then begin
        let n = int_of_n (nreqs !s) in
        for i = 0 to n - 1 do
          let i' = n_of_int i in
          if req_status !s i' = n_of_int 1 then begin
            Buffer.add_string out (Printf.sprintf " F%d:%s" i (show_drain !s i'));
            s := step !s (Drain i')
          end
        done;
        Buffer.add_string out (" Z=" ^ show_sizes !s)
      end;
      Printf.printf "%s%s\n" id (Buffer.contents out))
